(* C11 - Diagnostics report every conflict and describe the real table. Theorems only: each statement is printed by Coq from the lemma it is closed with. *)
Require Import Ctpg.Base.Prelude.
Require Import Ctpg.Model.Grammar.
Require Import Ctpg.Model.LRGen.
Require Import Ctpg.Model.Driver.
Require Import Ctpg.Model.Dfa.
Require Import Ctpg.Model.RegexFront.
Require Import Ctpg.Model.Diag.
Require Import Ctpg.Spec.Cfg.
Require Import Ctpg.Spec.LRSpec.
Require Import Ctpg.Spec.Lang.
Require Import Ctpg.Spec.Eval.
Require Import Ctpg.Spec.Conflict.
Require Import Ctpg.Valid.LRValid.
Require Import Ctpg.Valid.DfaValid.
Require Import Ctpg.Valid.SpecMatch.
Require Import Ctpg.Proofs.CellBasics.
Require Import Ctpg.Proofs.CellResolve.
Require Import Ctpg.Proofs.GenCorrect.
Require Import Ctpg.Proofs.GenAnalyze.
From Coq Require Import Permutation.

(* for a cell without the completed root item: it is marked (S/R flag or R/R kind) iff its items have a shift/reduce or reduce/reduce conflict *)
Theorem C11_conflict_mark_iff_conflict :
  forall (g : grammar) (t : nat) (its : list item), in_term_bucket g t its -> no_root_complete g its -> NoDup its -> dots_in_range g its -> sc_sr (scan_cell g its scan0) = true \/ sc_kind (scan_cell g its scan0) = KRR <-> has_sr_conflict g its \/ has_rr_conflict g its.
Proof. exact C11_conflict_flag_iff. Qed.
Print Assumptions C11_conflict_mark_iff_conflict.

(* the same for the entry actually written into the table *)
Theorem C11_entry_conflict_iff :
  forall (g : grammar) (t : nat) (its : list item) (col : nat) (arg : option nat), in_term_bucket g t its -> no_root_complete g its -> let s := scan_cell g its scan0 in cell_conflict {| e_kind := entry_kind g col (sc_kind s); e_arg := arg; e_sr := entry_flag s |} = true <-> has_sr_conflict g its \/ 2 <= length (reduce_items g its).
Proof. exact C11_entry_conflict_iff. Qed.
Print Assumptions C11_entry_conflict_iff.

(* a diagnostic line is a CONFLICT line iff it is the line of a marked cell *)
Theorem C11_conflict_line_iff_marked_cell :
  forall (g : grammar) (items : list item) (row : list entry) (l : diag_line), In l (state_lines g items row) -> is_conflict_line l = true <-> (exists t : nat, t < term_count g /\ In l (line_of_cell g items t (cell g row t)) /\ (let e := cell g row t in e_sr e = true /\ (e_kind e = KReduce \/ is_shift_kind (e_kind e) = true) \/ e_kind e = KRR)).
Proof. exact state_lines_conflict_iff. Qed.
Print Assumptions C11_conflict_line_iff_marked_cell.

(* every marked cell has a CONFLICT line naming its term *)
Theorem C11_every_marked_cell_has_a_line :
  forall (g : grammar) (items : list item) (row : list entry) (t : nat), t < term_count g -> cell_conflict (cell g row t) = true -> exists l : diag_line, In l (state_lines g items row) /\ is_conflict_line l = true /\ line_term l = Some t.
Proof. exact conflict_cell_has_line. Qed.
Print Assumptions C11_every_marked_cell_has_a_line.

(* REFUTED part (known finding D12): with the completed root item first in the cell, a reduce/reduce conflict gets no mark and no line *)
Theorem C11_accept_reduce_hidden_refuted :
  cell12 = [{| it_r := 3; it_d := 1; it_t := 1 |}; {| it_r := 2; it_d := 1; it_t := 1 |}] /\ in_term_bucket g12 (eof_idx g12) cell12 /\ NoDup cell12 /\ dots_in_range g12 cell12 /\ has_rr_conflict g12 cell12 /\ scan_cell g12 cell12 scan0 = with_kind KSuccess scan0 /\ cell g12 row12 (eof_idx g12) = {| e_kind := KSuccess; e_arg := None; e_sr := false |} /\ filter is_conflict_line (state_lines g12 st12 row12) = [].
Proof. exact D12_accept_reduce_hidden. Qed.
Print Assumptions C11_accept_reduce_hidden_refuted.

(* for every grammar: if the generator succeeds, no finished cell is marked and no accept/reduce clash exists, the table is the validated LR(1) automaton of the grammar (hence parsed deterministically per C01) *)
Theorem C11_no_conflict_mark_implies_valid_table :
  forall (rg : raw_grammar) (g : grammar) (lim : limits) (sts : list lrstate) (tbl : LRGen.table), analyze rg = Some g -> grammar_wf g = true -> gen_with g lim = inl (sts, tbl) -> conflict_free g (length sts) tbl = true -> accept_clean g sts = true -> validate g (map st_all sts) tbl = true.
Proof. exact gen_validates_analyze. Qed.
Print Assumptions C11_no_conflict_mark_implies_valid_table.
