(* C14 - Semantic values are moved, never duplicated, leaked or reused. Theorems only: each statement is printed by Coq from the lemma it is closed with. *)
Require Import Ctpg.Base.Prelude.
Require Import Ctpg.Model.Grammar.
Require Import Ctpg.Model.LRGen.
Require Import Ctpg.Model.Driver.
Require Import Ctpg.Model.Dfa.
Require Import Ctpg.Model.RegexFront.
Require Import Ctpg.Model.Diag.
Require Import Ctpg.Spec.Cfg.
Require Import Ctpg.Spec.LRSpec.
Require Import Ctpg.Spec.Lang.
Require Import Ctpg.Spec.Eval.
Require Import Ctpg.Spec.Conflict.
Require Import Ctpg.Valid.LRValid.
Require Import Ctpg.Valid.DfaValid.
Require Import Ctpg.Valid.SpecMatch.
Require Import Ctpg.Proofs.DriverBasics.
Require Import Ctpg.Proofs.DriverLinear.
From Coq Require Import Permutation.

(* the values created (term values and functor results) are, as a duplicate-free list, a permutation of: values consumed by functor calls ++ values live on the stack ++ values removed by recovery pops *)
Theorem C14_every_value_accounted_for_exactly_once :
  forall (g : grammar) (tbl : LRGen.table) (opts : options) (buf : list nat) (cap : option nat) (lexer : bool -> spoint -> list nat -> list lex_event * option (nat * nat)), lexer_in_range lexer -> eof_err_not_shifted g tbl -> forall fuel : nat, let '(_, s, _, vis) := run_gh vid ledger g tbl opts buf cap lexer id_term_f id_err_f id_rule_f fuel (init ledger0) [] [] in let lg := ps_ctx s in results lg = map IdNode (seq 0 (lg_next lg)) /\ Permutation.Permutation (results lg ++ leaves g tbl opts buf cap lexer vis) (consumed lg ++ livef (ps_values s) ++ livef (popped vid ledger g tbl opts buf cap lexer id_term_f id_err_f id_rule_f vis)) /\ NoDup (results lg ++ leaves g tbl opts buf cap lexer vis) /\ NoDup (consumed lg ++ livef (ps_values s) ++ livef (popped vid ledger g tbl opts buf cap lexer id_term_f id_err_f id_rule_f vis)) /\ (forall k : nat, In (IdNode k) (consumed lg ++ livef (ps_values s) ++ livef (popped vid ledger g tbl opts buf cap lexer id_term_f id_err_f id_rule_f vis)) -> k < lg_next lg).
Proof. exact run_linear. Qed.
Print Assumptions C14_every_value_accounted_for_exactly_once.

(* no live value was consumed or popped before, no popped value was consumed, argument lists are duplicate-free and pairwise disjoint, every result id was created exactly once *)
Theorem C14_no_reuse_no_duplication :
  forall (g : grammar) (tbl : LRGen.table) (opts : options) (buf : list nat) (cap : option nat) (lexer : bool -> spoint -> list nat -> list lex_event * option (nat * nat)), lexer_in_range lexer -> eof_err_not_shifted g tbl -> forall fuel : nat, let '(_, s, _, vis) := run_gh vid ledger g tbl opts buf cap lexer id_term_f id_err_f id_rule_f fuel (init ledger0) [] [] in let lg := ps_ctx s in NoDup (livef (ps_values s)) /\ (forall v : vid, In v (livef (ps_values s)) -> ~ In v (consumed lg) /\ ~ In v (livef (popped vid ledger g tbl opts buf cap lexer id_term_f id_err_f id_rule_f vis))) /\ (forall v : vid, In v (livef (popped vid ledger g tbl opts buf cap lexer id_term_f id_err_f id_rule_f vis)) -> ~ In v (consumed lg)) /\ (forall c : nat * list vid * vid, In c (lg_calls lg) -> NoDup (call_args c)) /\ (forall (l1 : list (nat * list vid * vid)) (c1 : nat * list vid * vid) (l2 : list (nat * list vid * vid)) (c2 : nat * list vid * vid) (l3 : list (nat * list vid * vid)), lg_calls lg = l1 ++ c1 :: l2 ++ c2 :: l3 -> forall v : vid, In v (call_args c1) -> ~ In v (call_args c2)) /\ (forall k : nat, In (IdNode k) (consumed lg ++ livef (ps_values s) ++ livef (popped vid ledger g tbl opts buf cap lexer id_term_f id_err_f id_rule_f vis)) -> k < lg_next lg /\ cnt (results lg) (IdNode k) = 1).
Proof. exact run_linear_items. Qed.
Print Assumptions C14_no_reuse_no_duplication.
