(* C08 - Error recovery follows the documented algorithm. Theorems only: each statement is printed by Coq from the lemma it is closed with. *)
Require Import Ctpg.Base.Prelude.
Require Import Ctpg.Model.Grammar.
Require Import Ctpg.Model.LRGen.
Require Import Ctpg.Model.Driver.
Require Import Ctpg.Model.Dfa.
Require Import Ctpg.Model.RegexFront.
Require Import Ctpg.Model.Diag.
Require Import Ctpg.Spec.Cfg.
Require Import Ctpg.Spec.LRSpec.
Require Import Ctpg.Spec.Lang.
Require Import Ctpg.Spec.Eval.
Require Import Ctpg.Spec.Conflict.
Require Import Ctpg.Valid.LRValid.
Require Import Ctpg.Valid.DfaValid.
Require Import Ctpg.Valid.SpecMatch.
Require Import Ctpg.Spec.Recovery.
Require Import Ctpg.Proofs.DriverBasics.
Require Import Ctpg.Proofs.RecoveryRefines.
Require Import Ctpg.Proofs.CapFormula.
Require Import Ctpg.Proofs.CapFormulaRec.
From Coq Require Import Permutation.

(* recovery CONTINUES NORMALLY also on the fixed-capacity stacks of cstring_buffer: for a grammar without empty rules a run that shifts the error symbol at most once is identical to the run with unbounded stacks and never throws *)
Theorem C08_a_single_recovery_never_exhausts_the_fixed_stacks :
  forall (V C : Type) (g : grammar) (tbl : LRGen.table) (opts : options) (buf : list nat) (lexer : bool -> spoint -> list nat -> list lex_event * option (nat * nat)) (term_f : nat -> nat -> nat -> spoint -> V) (err_f : spoint -> V) (rule_f : nat -> C -> list V -> C * V) (fuel : nat) (c : C), empty_rules g = 0 -> eof_err_not_shifted g tbl -> lexer_in_range lexer -> err_shifts V C g tbl opts buf lexer term_f err_f rule_f fuel c <= 1 -> run V C g tbl opts buf (Some (cstring_cap g (length buf))) lexer term_f err_f rule_f fuel c = run V C g tbl opts buf None lexer term_f err_f rule_f fuel c /\ fst (fst (run V C g tbl opts buf (Some (cstring_cap g (length buf))) lexer term_f err_f rule_f fuel c)) <> Throw.
Proof. exact @cstring_capacity_suffices_with_at_most_one_recovery. Qed.
Print Assumptions C08_a_single_recovery_never_exhausts_the_fixed_stacks.

(* on a syntax error the driver reports once and then discards exactly the states above the topmost one that accepts the error symbol (none if the top does), keeping everything below *)
Theorem C08_pop_phase :
  forall (V C : Type) (g : grammar) (tbl : LRGen.table) (opts : options) (buf : list nat) (cap : option nat) (lexer : bool -> spoint -> list nat -> list lex_event * option (nat * nat)) (term_f : nat -> nat -> nat -> spoint -> V) (err_f : spoint -> V) (rule_f : nat -> C -> list V -> C * V) (s : pstate V C) (top : nat) (cs : list nat) (s1 : pstate V C) (a : nat) (ev1 : list event) (e : entry), ps_rec s = false -> ps_cons s = false -> ps_cursors s = top :: cs -> get_current_term V C g opts buf lexer s = (s1, Some a, ev1) -> cell tbl top (term_col g a) = inl e -> e_kind e = KError -> pop_defined g tbl (ps_cursors s) = true -> steps V C g tbl opts buf cap lexer term_f err_f rule_f (S (pop_steps g tbl (ps_cursors s))) s = (fst (as_outcome V C (spec_pop_phase V C g tbl s1)), ev1 ++ snd (as_outcome V C (spec_pop_phase V C g tbl s1))) /\ ps_term s1 = Some a /\ term_or0 s1 = a.
Proof. exact @pop_phase_refines. Qed.
Print Assumptions C08_pop_phase.

(* discarding none if the current state already can *)
Theorem C08_no_pop_when_top_accepts :
  forall (V C : Type) (g : grammar) (tbl : LRGen.table) (opts : options) (buf : list nat) (cap : option nat) (lexer : bool -> spoint -> list nat -> list lex_event * option (nat * nat)) (term_f : nat -> nat -> nat -> spoint -> V) (err_f : spoint -> V) (rule_f : nat -> C -> list V -> C * V) (s : pstate V C) (top : nat) (cs : list nat) (s1 : pstate V C) (a : nat) (ev1 : list event) (e : entry), ps_rec s = false -> ps_cons s = false -> ps_cursors s = top :: cs -> get_current_term V C g opts buf lexer s = (s1, Some a, ev1) -> cell tbl top (term_col g a) = inl e -> e_kind e = KError -> accepts_err g tbl top = true -> exists (s' : pstate V C) (e' : entry), step V C g tbl opts buf cap lexer term_f err_f rule_f s = (inl s', ev1 ++ [EvSyntaxError (ps_sp s1) a; EvEnterRecovery (ps_sp s1)]) /\ ps_cursors s' = ps_cursors s /\ ps_values s' = ps_values s /\ ps_ctx s' = ps_ctx s /\ ps_rec s' = true /\ ps_cons s' = false /\ cell tbl top (err_col g) = inl e' /\ e_kind e' <> KError /\ step V C g tbl opts buf cap lexer term_f err_f rule_f s' = plain_action V C g tbl buf cap term_f err_f rule_f s' (err_idx g) e'.
Proof. exact @C08_no_pop_when_top_accepts. Qed.
Print Assumptions C08_no_pop_when_top_accepts.

(* values of states that are not discarded are kept *)
Theorem C08_keeps_lower_values :
  forall (V C : Type) (g : grammar) (tbl : LRGen.table) (opts : options) (buf : list nat) (cap : option nat) (lexer : bool -> spoint -> list nat -> list lex_event * option (nat * nat)) (term_f : nat -> nat -> nat -> spoint -> V) (err_f : spoint -> V) (rule_f : nat -> C -> list V -> C * V) (s : pstate V C) (top : nat) (cs : list nat) (s1 : pstate V C) (a : nat) (ev1 : list event) (e : entry) (k : nat), ps_rec s = false -> ps_cons s = false -> ps_cursors s = top :: cs -> get_current_term V C g opts buf lexer s = (s1, Some a, ev1) -> cell tbl top (term_col g a) = inl e -> e_kind e = KError -> pop_defined g tbl (ps_cursors s) = true -> drop_count g tbl (ps_cursors s) = Some k -> exists (s' : pstate V C) (ev : list event), steps V C g tbl opts buf cap lexer term_f err_f rule_f (k + 1) s = (inl s', ev) /\ ps_values s' = skipn k (ps_values s) /\ ps_cursors s' = skipn k (ps_cursors s) /\ ps_ctx s' = ps_ctx s /\ ps_rec s' = true /\ (length (ps_values s) + 1 = length (ps_cursors s) -> length (ps_values s') + 1 = length (ps_cursors s')).
Proof. exact @C08_keeps_lower_values. Qed.
Print Assumptions C08_keeps_lower_values.

(* every discarded state rejects the error symbol *)
Theorem C08_pops_only_rejecting_states :
  forall (g : grammar) (tbl : LRGen.table) (cursors : list nat) (k : nat), drop_count g tbl cursors = Some k -> Forall (fun st : nat => accepts_err g tbl st = false) (firstn k cursors) /\ (pop_defined g tbl cursors = true -> Forall (fun st : nat => rejects_err g tbl st = true) (firstn k cursors)) /\ (exists st : nat, nth_error cursors k = Some st /\ hd_error (skipn k cursors) = Some st /\ accepts_err g tbl st = true).
Proof. exact @C08_pops_only_rejecting_states. Qed.
Print Assumptions C08_pops_only_rejecting_states.

(* in recovery mode an accepting top state performs exactly the table's action for the error symbol *)
Theorem C08_acting_on_the_error_symbol :
  forall (V C : Type) (g : grammar) (tbl : LRGen.table) (opts : options) (buf : list nat) (cap : option nat) (lexer : bool -> spoint -> list nat -> list lex_event * option (nat * nat)) (term_f : nat -> nat -> nat -> spoint -> V) (err_f : spoint -> V) (rule_f : nat -> C -> list V -> C * V) (s : pstate V C) (st : nat) (cs : list nat) (e : entry), ps_rec s = true -> ps_cons s = false -> ps_cursors s = st :: cs -> cell tbl st (err_col g) = inl e -> e_kind e <> KError -> step V C g tbl opts buf cap lexer term_f err_f rule_f s = plain_action V C g tbl buf cap term_f err_f rule_f s (err_idx g) e.
Proof. exact @recovering_step. Qed.
Print Assumptions C08_acting_on_the_error_symbol.

(* after the shift, terms are discarded one at a time until the first one the parser can act on *)
Theorem C08_consume_phase :
  forall (V C : Type) (g : grammar) (tbl : LRGen.table) (opts : options) (buf : list nat) (cap : option nat) (lexer : bool -> spoint -> list nat -> list lex_event * option (nat * nat)) (term_f : nat -> nat -> nat -> spoint -> V) (err_f : spoint -> V) (rule_f : nat -> C -> list V -> C * V) (n : nat) (s : pstate V C) (top : nat) (cs : list nat), ps_rec s = false -> ps_cons s = true -> ps_cursors s = top :: cs -> let (c, ev) := spec_consume V C g tbl opts buf lexer n s in match c with | CoResume s' => resumes V C g tbl opts buf cap lexer term_f err_f rule_f n s top s' ev | CoFail s' => exists m : nat, 1 <= m <= n /\ steps V C g tbl opts buf cap lexer term_f err_f rule_f m s = (inr (Reject, s'), ev) | CoNoCell s' => exists (m : nat) (c0 : crash), 1 <= m <= n /\ steps V C g tbl opts buf cap lexer term_f err_f rule_f m s = (inr (Crash c0, s'), ev) /\ (c0 = CrTableRow \/ c0 = CrTableCol) | CoMore s' => steps V C g tbl opts buf cap lexer term_f err_f rule_f n s = (inl s', ev) /\ length (discarded_terms ev) = n /\ ps_rec s' = false /\ ps_cons s' = true /\ ps_cursors s' = ps_cursors s /\ ps_values s' = ps_values s /\ ps_ctx s' = ps_ctx s end.
Proof. exact @consume_phase_refines. Qed.
Print Assumptions C08_consume_phase.

(* recovery fails exactly when the stack is exhausted, the input ends while discarding, or the lexer fails *)
Theorem C08_fails_iff :
  forall (V C : Type) (g : grammar) (tbl : LRGen.table) (opts : options) (buf : list nat) (cap : option nat) (lexer : bool -> spoint -> list nat -> list lex_event * option (nat * nat)) (term_f : nat -> nat -> nat -> spoint -> V) (err_f : spoint -> V) (rule_f : nat -> C -> list V -> C * V) (fuel : nat) (c : C) (s' : pstate V C) (out : list event) (vis : list (pstate V C)), run_gh V C g tbl opts buf cap lexer term_f err_f rule_f fuel (init c) [] [] = (Reject, s', out, vis) -> exists (vis0 : list (pstate V C)) (sl : pstate V C), vis = vis0 ++ [sl] /\ modes_ok V C sl /\ err_track false (all_events V C g tbl opts buf cap lexer term_f err_f rule_f vis0) = Some (ps_rec sl) /\ (stack_exhausted V C g tbl sl /\ ps_cursors s' = [] /\ (exists ev0 : list event, all_events V C g tbl opts buf cap lexer term_f err_f rule_f vis = ev0 ++ [EvCouldNotRecover (ps_sp sl)]) \/ eof_while_discarding V C g tbl opts buf lexer sl /\ (exists ev1 : list event, get_current_term V C g opts buf lexer sl = (s', Some (eof_idx g), ev1)) \/ lexical_failure V C g opts buf lexer sl /\ ps_rec sl = false /\ (exists (ev0 : list event) (p : spoint) (ch : nat), all_events V C g tbl opts buf cap lexer term_f err_f rule_f vis = ev0 ++ [EvUnexpectedChar p ch])).
Proof. exact @C08_fails_iff. Qed.
Print Assumptions C08_fails_iff.

(* each error is reported once: between two reports the error symbol was shifted *)
Theorem C08_one_report_per_error :
  forall (V C : Type) (g : grammar) (tbl : LRGen.table) (opts : options) (buf : list nat) (cap : option nat) (lexer : bool -> spoint -> list nat -> list lex_event * option (nat * nat)) (term_f : nat -> nat -> nat -> spoint -> V) (err_f : spoint -> V) (rule_f : nat -> C -> list V -> C * V) (fuel : nat) (c : C) (r : result V) (s' : pstate V C) (out : list event) (vis : list (pstate V C)) (e1 : list event) (p : spoint) (a : nat) (mid : list event) (p' : spoint) (a' : nat) (e2 : list event), run_gh V C g tbl opts buf cap lexer term_f err_f rule_f fuel (init c) [] [] = (r, s', out, vis) -> all_events V C g tbl opts buf cap lexer term_f err_f rule_f vis = e1 ++ [EvSyntaxError p a] ++ mid ++ [EvSyntaxError p' a'] ++ e2 -> exists (q : spoint) (n : nat), In (EvShiftErr q n) mid.
Proof. exact @C08_one_report_per_error. Qed.
Print Assumptions C08_one_report_per_error.

(* whole runs: whatever the declarative specification predicts, the driver does *)
Theorem C08_whole_run_refines_spec :
  forall (V C : Type) (g : grammar) (tbl : LRGen.table) (opts : options) (buf : list nat) (cap : option nat) (lexer : bool -> spoint -> list nat -> list lex_event * option (nat * nat)) (term_f : nat -> nat -> nat -> spoint -> V) (err_f : spoint -> V) (rule_f : nat -> C -> list V -> C * V) (n : nat) (c : C) (r : result V) (s' : pstate V C) (ev : list event), spec_run V C g tbl opts buf cap lexer term_f err_f rule_f n (init c) = Some (r, s', ev) -> r <> OutOfFuel -> exists m : nat, forall fuel : nat, m <= fuel -> run V C g tbl opts buf cap lexer term_f err_f rule_f fuel c = (r, s', filter (visible opts) ev).
Proof. exact @C08_refines_run. Qed.
Print Assumptions C08_whole_run_refines_spec.

(* and whatever the driver does, the specification predicts *)
Theorem C08_whole_run_predicted_by_spec :
  forall (V C : Type) (g : grammar) (tbl : LRGen.table) (opts : options) (buf : list nat) (cap : option nat) (lexer : bool -> spoint -> list nat -> list lex_event * option (nat * nat)) (term_f : nat -> nat -> nat -> spoint -> V) (err_f : spoint -> V) (rule_f : nat -> C -> list V -> C * V) (fuel : nat) (c : C) (r : result V) (s' : pstate V C) (out : list event), run V C g tbl opts buf cap lexer term_f err_f rule_f fuel c = (r, s', out) -> r <> OutOfFuel -> spec_run V C g tbl opts buf cap lexer term_f err_f rule_f fuel (init c) = None \/ (exists ev : list event, spec_run V C g tbl opts buf cap lexer term_f err_f rule_f fuel (init c) = Some (r, s', ev) /\ out = filter (visible opts) ev).
Proof. exact @C08_run_predicted. Qed.
Print Assumptions C08_whole_run_predicted_by_spec.
