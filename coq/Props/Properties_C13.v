(* C13 - context_parse hands the caller's context to exactly the contextual functors. Theorems only: each statement is printed by Coq from the lemma it is closed with. *)
Require Import Ctpg.Base.Prelude.
Require Import Ctpg.Model.Grammar.
Require Import Ctpg.Model.LRGen.
Require Import Ctpg.Model.Driver.
Require Import Ctpg.Model.Dfa.
Require Import Ctpg.Model.RegexFront.
Require Import Ctpg.Model.Diag.
Require Import Ctpg.Spec.Cfg.
Require Import Ctpg.Spec.LRSpec.
Require Import Ctpg.Spec.Lang.
Require Import Ctpg.Spec.Eval.
Require Import Ctpg.Spec.Conflict.
Require Import Ctpg.Valid.LRValid.
Require Import Ctpg.Valid.DfaValid.
Require Import Ctpg.Valid.SpecMatch.
Require Import Ctpg.Proofs.DriverBasics.
Require Import Ctpg.Proofs.DriverEval.
From Coq Require Import Permutation.

(* the context the caller gets back is the one threaded through the functor calls in post-order (reduction order); every call receives the context left by the previous call *)
Theorem C13_context_threaded_in_reduction_order :
  forall (V C : Type) (g : grammar) (tbl : LRGen.table) (opts : options) (buf : list nat) (cap : option nat) (lexer : bool -> spoint -> list nat -> list lex_event * option (nat * nat)) (term_f : nat -> nat -> nat -> spoint -> V) (err_f : spoint -> V) (rule_f : nat -> C -> list V -> C * V) (c0 : C) (fuel : nat), o_verbose opts = true -> let '(rT, sT, outT) := run ptree (list (nat * list ptree)) g tbl opts buf cap lexer tree_term_f tree_err_f tree_rule_f fuel [] in let '(rA, sA, _) := run V C g tbl opts buf cap lexer term_f err_f rule_f fuel c0 in (forall e : event, In e outT -> is_pop_ev e = false) -> eval_list V C term_f err_f rule_f (rev (ps_values sT)) c0 = (ps_ctx sA, rev (ps_values sA)) /\ ps_ctx sT = flat_map post_calls (rev (ps_values sT)) /\ (forall t : ptree, rT = Accept t -> exists v : V, rA = Accept v /\ snd (eval V C term_f err_f rule_f t c0) = v /\ (ps_values sT = [t] -> eval V C term_f err_f rule_f t c0 = (ps_ctx sA, v) /\ ps_ctx sT = post_calls t)).
Proof. exact run_tree_eval. Qed.
Print Assumptions C13_context_threaded_in_reduction_order.

(* functors that ignore the context ('>=') leave it untouched and the result does not depend on it *)
Theorem C13_parse_equals_context_parse_when_context_is_ignored :
  forall (V C : Type) (g : grammar) (tbl : LRGen.table) (opts : options) (buf : list nat) (cap : option nat) (lexer : bool -> spoint -> list nat -> list lex_event * option (nat * nat)) (term_f : nat -> nat -> nat -> spoint -> V) (err_f : spoint -> V) (rule_f : nat -> C -> list V -> C * V) (f : nat -> list V -> V), (forall (r : nat) (c : C) (args : list V), rule_f r c args = (c, f r args)) -> forall (c0 : C) (fuel : nat), let '(rT, sT, outT) := run ptree (list (nat * list ptree)) g tbl opts buf cap lexer tree_term_f tree_err_f tree_rule_f fuel [] in let '(rA, sA, outA) := run V C g tbl opts buf cap lexer term_f err_f rule_f fuel c0 in rA = map_res (value_of V C term_f err_f rule_f c0) rT /\ ps_values sA = map (value_of V C term_f err_f rule_f c0) (ps_values sT) /\ ps_ctx sA = c0 /\ st_shape sA = st_shape sT /\ outA = outT.
Proof. exact run_tree_eval_ctx_free. Qed.
Print Assumptions C13_parse_equals_context_parse_when_context_is_ignored.

(* the sequence of reductions does not depend on the context or value types *)
Theorem C13_same_calls_for_every_context_type :
  forall (V C : Type) (g : grammar) (tbl : LRGen.table) (opts : options) (buf : list nat) (cap : option nat) (lexer : bool -> spoint -> list nat -> list lex_event * option (nat * nat)) (term_f : nat -> nat -> nat -> spoint -> V) (err_f : spoint -> V) (rule_f : nat -> C -> list V -> C * V) (c0 : C) (fuel : nat), let '(rT, sT, outT) := run ptree (list (nat * list ptree)) g tbl opts buf cap lexer tree_term_f tree_err_f tree_rule_f fuel [] in let '(rA, sA, outA) := run V C g tbl opts buf cap lexer term_f err_f rule_f fuel c0 in res_shape rT = res_shape rA /\ st_shape sT = st_shape sA /\ outT = outA.
Proof. exact run_same_path. Qed.
Print Assumptions C13_same_calls_for_every_context_type.
