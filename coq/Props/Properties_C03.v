(* C03 - A regex term matches exactly the language of its pattern. Theorems only.
   [lexer_ok] is a boolean check of (automaton, term patterns) by Brzozowski derivatives; the checks discharge it with
   vm_compute on the automaton dumped from the REAL dfa_builder for every pattern of the run, which gives the statement
   below for all byte strings of that pattern. *)
Require Import Ctpg.Base.Prelude Ctpg.Model.Driver Ctpg.Model.Dfa Ctpg.Spec.Lang Ctpg.Valid.DfaValid Ctpg.Proofs.DfaValidSound.

Theorem C03_validated : forall sm r s,
  lexer_ok sm [TRegex r] = true -> bytes_ok s -> (expr_match sm s = true <-> matches r s).
Proof. exact expr_ok_sound. Qed.

(* the matcher never indexes a validated automaton out of range *)
Theorem C03_no_out_of_range_state : forall sm terms s,
  lexer_ok sm terms = true -> bytes_ok s -> dfa_match_oob sm s = false.
Proof. exact lexer_ok_no_oob. Qed.

Print Assumptions C03_validated.
Print Assumptions C03_no_out_of_range_state.

(* THE MEANING OF A PATTERN (the front end that turns pattern text into the regular expression C03_validated speaks about):
   whenever a byte string scans into tokens and t is the right-nested derivation tree of the token string (the pattern grammar is
   ambiguous in '|'; the table resolves it to the right: a|b|c = a|(b|c)), the regular expression the pattern parser returns is the
   evident reading of the tree - rules as regex constructors, lexemes decoded to character sets - for EVERY pattern. *)
Require Import Ctpg.Model.Grammar Ctpg.Model.RegexFront Ctpg.Spec.Cfg Ctpg.Spec.Eval Ctpg.Proofs.PatternParse
               Ctpg.Proofs.PatternCompleteTrees Ctpg.Proofs.PatternCompleteSim Ctpg.Proofs.PatternComplete.
Theorem C03_pattern_meaning : forall p toks t pt,
  scans p toks -> rnt 0 t -> yield t = map tok_term toks ->
  strip regex_g pt = t -> pleaves regex_g pt = toks -> parse_pattern p = denote p pt.
Proof. exact parse_pattern_meaning_all. Qed.
Print Assumptions C03_pattern_meaning.

Theorem C03_pattern_grammar_is_ambiguous_in_alternation :
  derives_tree regex_g tree_left [1; 5; 1; 5; 1] /\ derives_tree regex_g tree_right [1; 5; 1; 5; 1] /\ tree_left <> tree_right.
Proof. exact pattern_grammar_ambiguous. Qed.
Print Assumptions C03_pattern_grammar_is_ambiguous_in_alternation.

(* ---- namespace stdex / utils below the model (appended by tools/append_props.py) *)
Require Import Ctpg.Base.Prelude.
Require Import Ctpg.Model.Grammar.
Require Import Ctpg.Model.Containers.
Require Import Ctpg.Model.Utils.
Require Import Ctpg.Proofs.ContainersBits.
Require Import Ctpg.Proofs.ContainersVec.
Require Import Ctpg.Proofs.ContainersSort.
Require Import Ctpg.Proofs.UtilsCorrect.
Require Import Ctpg.Model.RegexFront.
Require Import Ctpg.Proofs.UtilsRegexLink.
Require Import Ctpg.Model.Dfa.
Require Import Ctpg.Model.Containers.
Require Import Ctpg.Proofs.LRGenWordsRefine.
Require Import Ctpg.Proofs.CharsetWordsRefine.
Require Import Ctpg.Proofs.KernelWordsRefine.
Require Import Ctpg.Proofs.MergedFromLink.

(* char_subset is a cbitset<256>: for EVERY sequence of operations (set, ranges as repeated set, whole-set flip for '.' and inverted sets) test(j) is membership in the described set of bytes *)
Theorem C03_character_sets_are_sets_of_bytes :
  forall (n : N) (ops : list cb_op) (j : N), (j < n)%N -> cb_mem (cb_run n ops) j = fold_left (sb_step n) ops (fun _ : N => false) j.
Proof. exact @cb_run_refines. Qed.
Print Assumptions C03_character_sets_are_sets_of_bytes.

(* LINK (character sets): char_subset::flip() on the four 64-bit words is the model's cs_flip ('.' and inverted sets), for every set *)
Theorem C03_inverted_sets_on_words_are_the_models :
  forall (b : cbitset) (s : charset), cs_rel b s -> cs_rel (w_cs_flip b) (cs_flip s).
Proof. exact @w_cs_flip_rel. Qed.
Print Assumptions C03_inverted_sets_on_words_are_the_models.

(* add_range (the loop of set(i) for i = c1..c2) on words is the model's cs_add_range, also for an empty range c1 > c2 *)
Theorem C03_ranges_on_words_are_the_models :
  forall (b : cbitset) (s : charset) (c1 c2 : nat), cs_rel b s -> c2 < 256 -> exists b' : cbitset, w_cs_add_range b c1 c2 = Ok b' /\ cs_rel b' (cs_add_range s c1 c2).
Proof. exact @w_cs_add_range_rel. Qed.
Print Assumptions C03_ranges_on_words_are_the_models.

(* test(c) on words is the model's membership *)
Theorem C03_set_membership_on_words_is_the_models :
  forall (b : cbitset) (s : charset) (c : nat), cs_rel b s -> c < 256 -> cb_test b (N.of_nat c) = Ok (nth c s false).
Proof. exact @w_cs_test_rel. Qed.
Print Assumptions C03_set_membership_on_words_is_the_models.

(* [^a-c] computed on words: 0xC8 and 0xFF are members, index 256 throws *)
Theorem C03_inverted_set_example_on_words :
  match ex_neg_abc with | Ok b => map (fun c : nat => cb_test b (N.of_nat c)) [96; 97; 98; 99; 100; 200; 255; 256] | _ => [] end = [Ok true; Ok false; Ok false; Ok false; Ok true; Ok true; Ok true; Throw].
Proof. exact @ex_neg_abc_tests. Qed.
Print Assumptions C03_inverted_set_example_on_words.

(* LINK (builder): `if (merged_from.test(from)) return; merged_from.set(from);` on the words of the state's bitset stays related to the model's `if mem_nat from l then l else from :: l` over any sequence of merges *)
Theorem C03_merged_from_on_words_is_the_models_list :
  forall (n : nat) (js : list nat) (b : cbitset) (l : list nat), merged_rel n b l -> Forall (fun j : nat => j < n) js -> exists b' : cbitset, fold_left w_merge_step js (Ok b) = Ok b' /\ merged_rel n b' (fold_left l_merge_step js l).
Proof. exact @merged_fold_sim. Qed.
Print Assumptions C03_merged_from_on_words_is_the_models_list.

(* 256 is a multiple of 64: no padding bits exist, flip() and set() are exact *)
Theorem C03_whole_set_flip_is_exact_for_256_bits :
  forall (n : N) (ops : list cb_op), (n mod 64)%N = 0%N -> cb_clean (cb_run n ops).
Proof. exact @cb_run_clean_multiple_of_64. Qed.
Print Assumptions C03_whole_set_flip_is_exact_for_256_bits.

(* regex::hex_digits_to_char on two hex digits is 16 * v1 + v2 (as a byte, also for values >= 0x80 where char is negative) *)
Theorem C03_hex_escapes_decode_to_their_value :
  forall d1 d2 v1 v2 : nat, hex_value d1 = Some v1 -> hex_value d2 = Some v2 -> Utils.hex_digits_to_char d1 d2 = 16 * v1 + v2.
Proof. exact @hex_digits_to_char_spec. Qed.
Print Assumptions C03_hex_escapes_decode_to_their_value.

(* LINK (pattern front end): the model's unsigned hex decoding of \xHH equals the signed-char computation of regex::hex_digits_to_char on all hex digit pairs *)
Theorem C03_front_end_hex_decoding_is_the_real_one :
  forall d1 d2 : nat, d1 < 256 -> d2 < 256 -> is_hex_digit d1 = true -> is_hex_digit d2 = true -> hex_digits_to_char d1 d2 = Utils.hex_digits_to_char d1 d2.
Proof. exact @front_end_hex_decoding_is_the_real_one. Qed.
Print Assumptions C03_front_end_hex_decoding_is_the_real_one.

(* utils::is_hex_digit on signed chars = the three ASCII ranges *)
Theorem C03_hex_digit_class :
  forall b : nat, b < 256 -> Utils.is_hex_digit b = (48 <=? b) && (b <=? 57) || (97 <=? b) && (b <=? 102) || (65 <=? b) && (b <=? 70).
Proof. exact @is_hex_digit_spec. Qed.
Print Assumptions C03_hex_digit_class.

(* utils::is_dec_digit = '0'..'9' *)
Theorem C03_dec_digit_class :
  forall b : nat, b < 256 -> Utils.is_dec_digit b = (48 <=? b) && (b <=? 57).
Proof. exact @is_dec_digit_spec. Qed.
Print Assumptions C03_dec_digit_class.
