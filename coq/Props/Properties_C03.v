(* C03 - A regex term matches exactly the language of its pattern. Theorems only.
   [lexer_ok] is a boolean check of (automaton, term patterns) by Brzozowski derivatives; the checks discharge it with
   vm_compute on the automaton dumped from the REAL dfa_builder for every pattern of the run, which gives the statement
   below for all byte strings of that pattern. *)
Require Import Ctpg.Base.Prelude Ctpg.Model.Driver Ctpg.Model.Dfa Ctpg.Spec.Lang Ctpg.Valid.DfaValid Ctpg.Proofs.DfaValidSound.

Theorem C03_validated : forall sm r s,
  lexer_ok sm [TRegex r] = true -> bytes_ok s -> (expr_match sm s = true <-> matches r s).
Proof. exact expr_ok_sound. Qed.

(* the matcher never indexes a validated automaton out of range *)
Theorem C03_no_out_of_range_state : forall sm terms s,
  lexer_ok sm terms = true -> bytes_ok s -> dfa_match_oob sm s = false.
Proof. exact lexer_ok_no_oob. Qed.

Print Assumptions C03_validated.
Print Assumptions C03_no_out_of_range_state.
