(* C03 - A regex term matches exactly the language of its pattern. Theorems only.
   [lexer_ok] is a boolean check of (automaton, term patterns) by Brzozowski derivatives; the checks discharge it with
   vm_compute on the automaton dumped from the REAL dfa_builder for every pattern of the run, which gives the statement
   below for all byte strings of that pattern. *)
Require Import Ctpg.Base.Prelude Ctpg.Model.Driver Ctpg.Model.Dfa Ctpg.Spec.Lang Ctpg.Valid.DfaValid Ctpg.Proofs.DfaValidSound.

Theorem C03_validated : forall sm r s,
  lexer_ok sm [TRegex r] = true -> bytes_ok s -> (expr_match sm s = true <-> matches r s).
Proof. exact expr_ok_sound. Qed.

(* the matcher never indexes a validated automaton out of range *)
Theorem C03_no_out_of_range_state : forall sm terms s,
  lexer_ok sm terms = true -> bytes_ok s -> dfa_match_oob sm s = false.
Proof. exact lexer_ok_no_oob. Qed.

Print Assumptions C03_validated.
Print Assumptions C03_no_out_of_range_state.

(* THE MEANING OF A PATTERN (the front end that turns pattern text into the regular expression C03_validated speaks about):
   whenever a byte string scans into tokens and t is the right-nested derivation tree of the token string (the pattern grammar is
   ambiguous in '|'; the table resolves it to the right: a|b|c = a|(b|c)), the regular expression the pattern parser returns is the
   evident reading of the tree - rules as regex constructors, lexemes decoded to character sets - for EVERY pattern. *)
Require Import Ctpg.Model.Grammar Ctpg.Model.RegexFront Ctpg.Spec.Cfg Ctpg.Spec.Eval Ctpg.Proofs.PatternParse
               Ctpg.Proofs.PatternCompleteTrees Ctpg.Proofs.PatternCompleteSim Ctpg.Proofs.PatternComplete.
Theorem C03_pattern_meaning : forall p toks t pt,
  scans p toks -> rnt 0 t -> yield t = map tok_term toks ->
  strip regex_g pt = t -> pleaves regex_g pt = toks -> parse_pattern p = denote p pt.
Proof. exact parse_pattern_meaning_all. Qed.
Print Assumptions C03_pattern_meaning.

Theorem C03_pattern_grammar_is_ambiguous_in_alternation :
  derives_tree regex_g tree_left [1; 5; 1; 5; 1] /\ derives_tree regex_g tree_right [1; 5; 1; 5; 1] /\ tree_left <> tree_right.
Proof. exact pattern_grammar_ambiguous. Qed.
Print Assumptions C03_pattern_grammar_is_ambiguous_in_alternation.
