(* C12 - Statically computed capacities always suffice, or construction fails loudly. Theorems only: each statement is printed by Coq from the lemma it is closed with. *)
Require Import Ctpg.Base.Prelude.
Require Import Ctpg.Model.Grammar.
Require Import Ctpg.Model.LRGen.
Require Import Ctpg.Model.Driver.
Require Import Ctpg.Model.Dfa.
Require Import Ctpg.Model.RegexFront.
Require Import Ctpg.Model.Diag.
Require Import Ctpg.Spec.Cfg.
Require Import Ctpg.Spec.LRSpec.
Require Import Ctpg.Spec.Lang.
Require Import Ctpg.Spec.Eval.
Require Import Ctpg.Spec.Conflict.
Require Import Ctpg.Valid.LRValid.
Require Import Ctpg.Valid.DfaValid.
Require Import Ctpg.Valid.SpecMatch.
Require Import Ctpg.Proofs.BuilderSize.
Require Import Ctpg.Proofs.BuilderTerm.
Require Import Ctpg.Proofs.GenClosure.
Require Import Ctpg.Valid.LRProductive.
Require Import Ctpg.Proofs.SafeBasics.
Require Import Ctpg.Proofs.SafeCap.
Require Import Ctpg.Proofs.CapFormula.
Require Import Ctpg.Proofs.CapFormulaValid.
Require Import Ctpg.Proofs.CapFormulaTree.
Require Import Ctpg.Proofs.CapFormulaCex.
Require Import Ctpg.Model.Containers.
Require Import Ctpg.Proofs.ContainersVec.
Require Import Ctpg.Proofs.CapFormulaRec.
Require Import Ctpg.Proofs.StackVectorLink.
From Coq Require Import Permutation.

(* LINK (stacks): the driver model keeps its stacks as lists with the top at the head and throws when `full (length stack)`; on the cvector representation (array + size, bottom first) push_back throws in exactly that case and otherwise yields the related stack - so the capacity theorems about the driver model speak about the real fixed-capacity stacks *)
Theorem C12_the_drivers_capacity_test_is_cvectors :
  forall (A : Type) (c : cvector A) (l : list A) (x : A), stack_rel c l -> (drv_full (N.to_nat (cv_cap c)) (length l) = true -> cv_push c x = Throw) /\ (drv_full (N.to_nat (cv_cap c)) (length l) = false -> exists c' : cvector A, cv_push c x = Ok c' /\ stack_rel c' (x :: l) /\ cv_cap c' = cv_cap c).
Proof. exact @push_sim. Qed.
Print Assumptions C12_the_drivers_capacity_test_is_cvectors.

(* reduce()'s erase(end() - n, end()) is skipn n on the driver's list, for every n *)
Theorem C12_reduce_pops_on_the_vector_are_skipn :
  forall (A : Type) (c : cvector A) (l : list A) (n : nat), stack_rel c l -> exists c' : cvector A, cv_erase c (Z.of_N (cv_size c) - Z.of_N (N.of_nat n)) (Z.of_N (cv_size c)) = Ok c' /\ stack_rel c' (skipn n l) /\ cv_cap c' = cv_cap c.
Proof. exact @pop_n_sim. Qed.
Print Assumptions C12_reduce_pops_on_the_vector_are_skipn.

(* for every sequence of pushes and pops the two representations stay related *)
Theorem C12_stack_simulation_on_every_operation_sequence :
  forall (A : Type) (cap : N) (d : A) (ops : list (A + nat)), stack_rel (fold_left cv_exec ops (cv_new cap d)) (fold_left (l_exec (N.to_nat cap)) ops []).
Proof. exact @run_sim. Qed.
Print Assumptions C12_stack_simulation_on_every_operation_sequence.

(* stdex::cvector<T,N> (array + size, the word-level mirror of Model/Containers.v tied to the real template by kernel-checked observations): for EVERY sequence of push_back / pop_back / clear / erase operations its contents are those of the list specification bounded by N - a push beyond the capacity changes nothing *)
Theorem C12_cvector_is_a_bounded_list_for_every_operation_sequence :
  forall (A : Type) (cap : N) (d : A) (ops : list (cv_op A)), cv_abs (cv_run cap d ops) = fold_left (lv_step cap) ops [].
Proof. exact @cv_run_refines. Qed.
Print Assumptions C12_cvector_is_a_bounded_list_for_every_operation_sequence.

(* push_back / emplace_back throw exactly when the vector holds N elements (never earlier, never silently later) *)
Theorem C12_cvector_overflow_is_loud_exactly_when_full :
  forall (A : Type) (c : cvector A) (x : A), cv_wf c -> cv_push c x = Throw <-> length (cv_abs c) = N.to_nat (cv_cap c).
Proof. exact @cv_push_throws_iff_full. Qed.
Print Assumptions C12_cvector_overflow_is_loud_exactly_when_full.

(* an accepted push writes inside the array and appends exactly that element *)
Theorem C12_cvector_push_never_writes_outside_the_array :
  forall (A : Type) (c c' : cvector A) (x : A), cv_wf c -> cv_push c x = Ok c' -> N.to_nat (cv_size c) < length (cv_data c) /\ cv_wf c' /\ cv_abs c' = cv_abs c ++ [x].
Proof. exact @cv_push_in_bounds. Qed.
Print Assumptions C12_cvector_push_never_writes_outside_the_array.

(* stdex::cqueue<T,N> (ring buffer): for every sequence of push / pop its contents are those of a FIFO list bounded by N *)
Theorem C12_cqueue_is_a_bounded_fifo_for_every_operation_sequence :
  forall (A : Type) (cap : N) (d : A) (ops : list (cq_op A)), cq_abs (cq_run cap d ops) = fold_left (lq_step cap) ops [].
Proof. exact @cq_run_refines. Qed.
Print Assumptions C12_cqueue_is_a_bounded_fifo_for_every_operation_sequence.

(* push throws exactly when the queue holds N elements *)
Theorem C12_cqueue_overflow_is_loud_exactly_when_full :
  forall (A : Type) (q : cqueue A) (x : A), cq_wf q -> cq_push q x = Throw <-> length (cq_abs q) = N.to_nat (cq_cap q).
Proof. exact @cq_push_throws_iff_full. Qed.
Print Assumptions C12_cqueue_overflow_is_loud_exactly_when_full.

(* THE PRECISE FORM OF THE cstring_buffer CAPACITY (explains D16): for a grammar without empty rules, any table, any input, with or without error recovery, the stack never holds more than bytes + 1 + (number of error-symbol shifts performed so far) entries - an error-symbol shift is the only step that pushes without consuming a byte *)
Theorem C12_stack_height_is_bounded_by_bytes_plus_error_shifts :
  forall (V C : Type) (g : grammar) (tbl : LRGen.table) (opts : options) (buf : list nat) (lexer : bool -> spoint -> list nat -> list lex_event * option (nat * nat)) (term_f : nat -> nat -> nat -> spoint -> V) (err_f : spoint -> V) (rule_f : nat -> C -> list V -> C * V), empty_rules g = 0 -> DriverBasics.eof_err_not_shifted g tbl -> lexer_in_range lexer -> forall (fuel : nat) (c : C), (let '(_, sf, _, v) := DriverBasics.run_gh V C g tbl opts buf None lexer term_f err_f rule_f fuel (init c) [] [] in bounded_from V C g tbl opts buf lexer 0 (v ++ [sf])) /\ never_above V C g tbl opts buf lexer term_f err_f rule_f (length buf + 1 + err_shifts V C g tbl opts buf lexer term_f err_f rule_f fuel c) fuel c.
Proof. exact @height_le_bytes_plus_error_shifts_without_empty_rules. Qed.
Print Assumptions C12_stack_height_is_bounded_by_bytes_plus_error_shifts.

(* hence the library's capacity N + EmptyRulesCount + 1 = bytes + 2 has exactly one spare slot: every run that shifts the error symbol at most once equals the unbounded run and never throws (the height may EQUAL the capacity, so this needed its own lockstep argument) *)
Theorem C12_cstring_capacity_suffices_with_at_most_one_recovery :
  forall (V C : Type) (g : grammar) (tbl : LRGen.table) (opts : options) (buf : list nat) (lexer : bool -> spoint -> list nat -> list lex_event * option (nat * nat)) (term_f : nat -> nat -> nat -> spoint -> V) (err_f : spoint -> V) (rule_f : nat -> C -> list V -> C * V) (fuel : nat) (c : C), empty_rules g = 0 -> DriverBasics.eof_err_not_shifted g tbl -> lexer_in_range lexer -> err_shifts V C g tbl opts buf lexer term_f err_f rule_f fuel c <= 1 -> run V C g tbl opts buf (Some (cstring_cap g (length buf))) lexer term_f err_f rule_f fuel c = run V C g tbl opts buf None lexer term_f err_f rule_f fuel c /\ fst (fst (run V C g tbl opts buf (Some (cstring_cap g (length buf))) lexer term_f err_f rule_f fuel c)) <> Driver.Throw.
Proof. exact @cstring_capacity_suffices_with_at_most_one_recovery. Qed.
Print Assumptions C12_cstring_capacity_suffices_with_at_most_one_recovery.

(* in general bytes + 1 + K suffices for runs with at most K error-symbol shifts *)
Theorem C12_capacity_for_K_recoveries :
  forall (V C : Type) (g : grammar) (tbl : LRGen.table) (opts : options) (buf : list nat) (lexer : bool -> spoint -> list nat -> list lex_event * option (nat * nat)) (term_f : nat -> nat -> nat -> spoint -> V) (err_f : spoint -> V) (rule_f : nat -> C -> list V -> C * V), empty_rules g = 0 -> DriverBasics.eof_err_not_shifted g tbl -> lexer_in_range lexer -> forall (K fuel : nat) (c : C), err_shifts V C g tbl opts buf lexer term_f err_f rule_f fuel c <= K -> run V C g tbl opts buf (Some (length buf + 1 + K)) lexer term_f err_f rule_f fuel c = run V C g tbl opts buf None lexer term_f err_f rule_f fuel c /\ fst (fst (run V C g tbl opts buf (Some (length buf + 1 + K)) lexer term_f err_f rule_f fuel c)) <> Driver.Throw.
Proof. exact @capacity_suffices_with_at_most_K_recoveries. Qed.
Print Assumptions C12_capacity_for_K_recoveries.

(* tight: S -> error b on 'b' performs one error shift, needs 3 entries = the capacity, is accepted; with one entry less it throws *)
Theorem C12_one_recovery_uses_the_spare_slot_exactly :
  analyze rec1_raw = Some rec1_g /\ validate rec1_g (sts_of rec1_g) rec1_tbl = true /\ empty_rules rec1_g = 0 /\ DriverBasics.eof_err_not_shiftedb rec1_g rec1_tbl = true /\ no_shifterrb rec1_tbl = false /\ tree_err_shifts rec1_g rec1_tbl [1] 20 = 1 /\ tree_max_height rec1_g rec1_tbl [1] 20 = 3 /\ cstring_cap rec1_g (length [1]) = 3 /\ CapFormulaCex.res (tree_run_cap rec1_g rec1_tbl (Some (cstring_cap rec1_g (length [1]))) [1] 20) = Accept (Node 0 [Leaf 3; Leaf 1]) /\ CapFormulaCex.res (tree_run_cap rec1_g rec1_tbl (Some (cstring_cap rec1_g (length [1]) - 1)) [1] 20) = Driver.Throw.
Proof. exact @one_recovery_accepted_capacity_exact. Qed.
Print Assumptions C12_one_recovery_uses_the_spare_slot_exactly.

(* and the D16 witness performs two error shifts and needs bytes + 3 *)
Theorem C12_two_recoveries_exceed_it :
  empty_rules rec_g = 0 /\ DriverBasics.eof_err_not_shiftedb rec_g rec_tbl = true /\ tree_err_shifts rec_g rec_tbl [0; 1] 20 = 2 /\ tree_max_height rec_g rec_tbl [0; 1] 20 = length [0; 1] + 1 + 2 /\ cstring_cap rec_g (length [0; 1]) = length [0; 1] + 1 + 1 /\ CapFormulaCex.res (tree_run_cap rec_g rec_tbl None [0; 1] 20) = Accept rec_tree /\ CapFormulaCex.res (tree_run_cap rec_g rec_tbl (Some (cstring_cap rec_g (length [0; 1]))) [0; 1] 20) = Driver.Throw /\ tree_err_shifts rec_g rec_tbl [0] 20 = 2 /\ tree_max_height rec_g rec_tbl [0] 20 = length [0] + 1 + 2 /\ CapFormulaCex.res (tree_run_cap rec_g rec_tbl None [0] 20) = Reject /\ CapFormulaCex.res (tree_run_cap rec_g rec_tbl (Some (cstring_cap rec_g (length [0]))) [0] 20) = Driver.Throw.
Proof. exact @d16_two_error_shifts. Qed.
Print Assumptions C12_two_recoveries_exceed_it.

(* for every pattern the builder creates exactly the states the size analyser predicts and returns the predicted slice *)
Theorem C12_dfa_size :
  forall (r : regex) (sm sm' : dfa) (s : slice), build r sm = Some (sm', s) -> let '(sl, sz) := analyze_size r (length sm) in length sm' = sz /\ s = sl.
Proof. exact @build_size. Qed.
Print Assumptions C12_dfa_size.

(* regex::expr: automaton size = analyser result *)
Theorem C12_expr_size :
  forall (r : regex) (sm : dfa), build_expr r = Some sm -> length sm = sl_n (fst (analyze_size r 0)).
Proof. exact @build_expr_size. Qed.
Print Assumptions C12_expr_size.

(* term-set lexer: automaton size = sum of the per-term sizes *)
Theorem C12_lexer_size :
  forall (ts : list term_data) (sm : dfa), create_lexer ts = Some sm -> length sm = list_sum (map term_size ts).
Proof. exact @create_lexer_size. Qed.
Print Assumptions C12_lexer_size.

(* a non-empty string term needs 2 * length states *)
Theorem C12_string_term_size :
  forall s : list nat, s <> [] -> term_size (TString s) = 2 * length s.
Proof. exact @string_term_size. Qed.
Print Assumptions C12_string_term_size.

(* REFUTED corner: string_term("") creates 2 states although its declared dfa_size is 0 *)
Theorem C12_empty_string_term_refuted :
  term_size (TString []) = 2 /\ term_size (TString []) <> 2 * length (@nil nat).
Proof. exact @empty_string_term_size_mismatch. Qed.
Print Assumptions C12_empty_string_term_refuted.

(* every transition target of a built automaton is a state of it *)
Theorem C12_transition_targets_in_range :
  forall (r : regex) (sm : dfa), build_expr r = Some sm -> forall (q : nat) (d : dstate) (c t : nat), nth_error sm q = Some d -> nth c (d_trans d) None = Some t -> t < length sm.
Proof. exact @build_expr_targets. Qed.
Print Assumptions C12_transition_targets_in_range.

(* the recursive in-place merge terminates within the model's fuel bound *)
Theorem C12_merge_terminates :
  forall (sm : dfa) (to from : nat) (keep mark : bool), closed sm -> to < length sm -> from < length sm -> merge (merge_fuel sm) sm to from keep mark <> None.
Proof. exact @merge_terminates. Qed.
Print Assumptions C12_merge_terminates.

(* hence the builder never gives up: every pattern gets an automaton *)
Theorem C12_builder_total :
  forall r : regex, build_expr r <> None.
Proof. exact @build_expr_total. Qed.
Print Assumptions C12_builder_total.

(* a duplicate-free list of well-formed items is no longer than the item address space *)
Theorem C12_items_fit :
  forall g : grammar, GenWf.wfx_facts g -> forall l : list item, NoDup l -> Forall (item_okP g) l -> length l <= address_space g.
Proof. exact @items_length_bound. Qed.
Print Assumptions C12_items_fit.

(* the model's EmptyRulesCount is the number of rules written with an empty right side *)
Theorem C12_cstring_stack_formula_is_the_dsl_count :
  forall (rg : raw_grammar) (g : grammar), analyze rg = Some g -> empty_rules g = empty_right_sides g /\ empty_rules g = length (filter (fun r : raw_rule => match rr_r r with | [] => true | _ :: _ => false end) (rg_rules rg)).
Proof. exact @analyze_empty_rules. Qed.
Print Assumptions C12_cstring_stack_formula_is_the_dsl_count.

(* STACK CAPACITY for cstring_buffer: for a grammar without empty rules and a table without error-symbol shifts the capacity N + EmptyRulesCount + 1 suffices for EVERY input, functors, options and lexer: the run equals the unbounded run and never throws (pure counting: every shift consumes a byte, every reduction pops before it pushes) *)
Theorem C12_cstring_capacity_suffices_without_empty_rules_and_recovery :
  forall (V C : Type) (g : grammar) (tbl : LRGen.table) (opts : options) (buf : list nat) (lexer : bool -> spoint -> list nat -> list lex_event * option (nat * nat)) (term_f : nat -> nat -> nat -> spoint -> V) (err_f : spoint -> V) (rule_f : nat -> C -> list V -> C * V), empty_rules g = 0 -> DriverBasics.eof_err_not_shifted g tbl -> no_shifterrb tbl = true -> lexer_in_range lexer -> forall (fuel : nat) (c : C), run V C g tbl opts buf (Some (cstring_cap g (length buf))) lexer term_f err_f rule_f fuel c = run V C g tbl opts buf None lexer term_f err_f rule_f fuel c /\ fst (fst (run V C g tbl opts buf (Some (cstring_cap g (length buf))) lexer term_f err_f rule_f fuel c)) <> Driver.Throw.
Proof. exact @cstring_capacity_suffices_without_empty_rules. Qed.
Print Assumptions C12_cstring_capacity_suffices_without_empty_rules_and_recovery.

(* REFUTED in general (known finding D8): S -> A A A A A A b, A -> empty, input b: validated table, the unbounded run accepts, the run with the library's capacity 4 throws *)
Theorem C12_cstring_capacity_formula_refuted_by_empty_reductions :
  analyze d8_raw = Some d8_g /\ (exists sts : list lrstate, gen d8_g = inl (sts, d8_tbl)) /\ validate d8_g (sts_of d8_g) d8_tbl = true /\ LRSound.tokens_ok d8_g [0] /\ cstring_cap d8_g (length [0]) = 4 /\ CapFormulaCex.res (tree_run_cap d8_g d8_tbl None [0] 20) = Accept d8_tree /\ tree_run d8_g d8_tbl [0] 20 = Accept d8_tree /\ CapFormulaCex.res (tree_run_cap d8_g d8_tbl (Some (cstring_cap d8_g (length [0]))) [0] 20) = Driver.Throw.
Proof. exact @cstring_capacity_formula_refuted. Qed.
Print Assumptions C12_cstring_capacity_formula_refuted_by_empty_reductions.

(* the least capacity that works for that input is 8 *)
Theorem C12_least_sufficient_capacity_of_that_input :
  max_height tree unit d8_g d8_tbl tree_opts [0] id_lexer (fun (t _ _ : nat) (_ : spoint) => Leaf t) (fun _ : spoint => Leaf (err_idx d8_g)) (fun (r : nat) (c : unit) (args : list tree) => (c, Node r args)) 20 tt = 8 /\ (forall n : nat, (n < 8 -> CapFormulaCex.res (tree_run_cap d8_g d8_tbl (Some n) [0] 20) = Driver.Throw) /\ (8 <= n -> tree_run_cap d8_g d8_tbl (Some n) [0] 20 = tree_run_cap d8_g d8_tbl None [0] 20 /\ CapFormulaCex.res (tree_run_cap d8_g d8_tbl (Some n) [0] 20) = Accept d8_tree)).
Proof. exact @d8_min_capacity. Qed.
Print Assumptions C12_least_sufficient_capacity_of_that_input.

(* REFUTED also without empty rules when error recovery is used (known finding D16, found by this proof): S -> error a error b on ab needs 5 entries, the capacity is 4 - the error token takes a stack entry and consumes no byte *)
Theorem C12_cstring_capacity_refuted_by_recovery :
  analyze rec_raw = Some rec_g /\ (exists sts : list lrstate, gen rec_g = inl (sts, rec_tbl)) /\ validate rec_g (sts_of rec_g) rec_tbl = true /\ term_checks rec_g (sts_of rec_g) rec_tbl = true /\ empty_rules rec_g = 0 /\ DriverBasics.eof_err_not_shiftedb rec_g rec_tbl = true /\ no_error_symbol rec_g rec_tbl = false /\ no_shifterrb rec_tbl = false /\ LRSound.tokens_ok rec_g [0; 1] /\ cstring_cap rec_g (length [0; 1]) = 4 /\ CapFormulaCex.res (tree_run_cap rec_g rec_tbl None [0; 1] 20) = Accept rec_tree /\ CapFormulaCex.res (tree_run_cap rec_g rec_tbl (Some (cstring_cap rec_g (length [0; 1]))) [0; 1] 20) = Driver.Throw /\ max_height tree unit rec_g rec_tbl tree_opts [0; 1] id_lexer (fun (t _ _ : nat) (_ : spoint) => Leaf t) (fun _ : spoint => Leaf (err_idx rec_g)) (fun (r : nat) (c : unit) (args : list tree) => (c, Node r args)) 20 tt = 5.
Proof. exact @cstring_capacity_without_empty_rules_refuted_with_recovery. Qed.
Print Assumptions C12_cstring_capacity_refuted_by_recovery.

(* what always suffices for an accepted input: input length + number of empty nodes of its tree + 1 *)
Theorem C12_capacity_bound_from_the_tree :
  forall (g : grammar) (sts : list items) (tbl : LRGen.table) (w : list nat) (t : tree) (fuel : nat), validate_sound g sts tbl = true -> no_error_symbol g tbl = true -> LRSound.tokens_ok g w -> tree_run g tbl w fuel = Accept t -> forall n : nat, length w + empty_nodes t + 1 <= n -> tree_run_cap g tbl (Some n) w fuel = tree_run_cap g tbl None w fuel /\ fst (fst (tree_run_cap g tbl (Some n) w fuel)) = Accept t.
Proof. exact @capacity_from_tree_suffices. Qed.
Print Assumptions C12_capacity_bound_from_the_tree.
