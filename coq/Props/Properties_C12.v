(* C12 - Statically computed capacities always suffice, or construction fails loudly. Theorems only: each statement is printed by Coq from the lemma it is closed with. *)
Require Import Ctpg.Base.Prelude.
Require Import Ctpg.Model.Grammar.
Require Import Ctpg.Model.LRGen.
Require Import Ctpg.Model.Driver.
Require Import Ctpg.Model.Dfa.
Require Import Ctpg.Model.RegexFront.
Require Import Ctpg.Model.Diag.
Require Import Ctpg.Spec.Cfg.
Require Import Ctpg.Spec.LRSpec.
Require Import Ctpg.Spec.Lang.
Require Import Ctpg.Spec.Eval.
Require Import Ctpg.Spec.Conflict.
Require Import Ctpg.Valid.LRValid.
Require Import Ctpg.Valid.DfaValid.
Require Import Ctpg.Valid.SpecMatch.
Require Import Ctpg.Proofs.BuilderSize.
Require Import Ctpg.Proofs.BuilderTerm.
Require Import Ctpg.Proofs.GenClosure.
From Coq Require Import Permutation.

(* for every pattern the builder creates exactly the states the size analyser predicts and returns the predicted slice *)
Theorem C12_dfa_size :
  forall (r : regex) (sm sm' : dfa) (s : slice), build r sm = Some (sm', s) -> let '(sl, sz) := analyze_size r (length sm) in length sm' = sz /\ s = sl.
Proof. exact build_size. Qed.
Print Assumptions C12_dfa_size.

(* regex::expr: automaton size = analyser result *)
Theorem C12_expr_size :
  forall (r : regex) (sm : dfa), build_expr r = Some sm -> length sm = sl_n (fst (analyze_size r 0)).
Proof. exact build_expr_size. Qed.
Print Assumptions C12_expr_size.

(* term-set lexer: automaton size = sum of the per-term sizes *)
Theorem C12_lexer_size :
  forall (ts : list term_data) (sm : dfa), create_lexer ts = Some sm -> length sm = list_sum (map term_size ts).
Proof. exact create_lexer_size. Qed.
Print Assumptions C12_lexer_size.

(* a non-empty string term needs 2 * length states *)
Theorem C12_string_term_size :
  forall s : list nat, s <> [] -> term_size (TString s) = 2 * length s.
Proof. exact string_term_size. Qed.
Print Assumptions C12_string_term_size.

(* REFUTED corner: string_term("") creates 2 states although its declared dfa_size is 0 *)
Theorem C12_empty_string_term_refuted :
  term_size (TString []) = 2 /\ term_size (TString []) <> 2 * length (@nil nat).
Proof. exact empty_string_term_size_mismatch. Qed.
Print Assumptions C12_empty_string_term_refuted.

(* every transition target of a built automaton is a state of it *)
Theorem C12_transition_targets_in_range :
  forall (r : regex) (sm : dfa), build_expr r = Some sm -> forall (q : nat) (d : dstate) (c t : nat), nth_error sm q = Some d -> nth c (d_trans d) None = Some t -> t < length sm.
Proof. exact build_expr_targets. Qed.
Print Assumptions C12_transition_targets_in_range.

(* the recursive in-place merge terminates within the model's fuel bound *)
Theorem C12_merge_terminates :
  forall (sm : dfa) (to from : nat) (keep mark : bool), closed sm -> to < length sm -> from < length sm -> merge (merge_fuel sm) sm to from keep mark <> None.
Proof. exact merge_terminates. Qed.
Print Assumptions C12_merge_terminates.

(* hence the builder never gives up: every pattern gets an automaton *)
Theorem C12_builder_total :
  forall r : regex, build_expr r <> None.
Proof. exact build_expr_total. Qed.
Print Assumptions C12_builder_total.

(* a duplicate-free list of well-formed items is no longer than the item address space *)
Theorem C12_items_fit :
  forall g : grammar, GenWf.wfx_facts g -> forall l : list item, NoDup l -> Forall (item_okP g) l -> length l <= address_space g.
Proof. exact items_length_bound. Qed.
Print Assumptions C12_items_fit.
