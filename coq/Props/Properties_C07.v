(* C07 - Compile-time and run-time parsing agree, for every buffer kind (model part: the driver observes nothing of the buffer but its bytes, and the fixed stack capacity only through Throw). Theorems only: each statement is printed by Coq from the lemma it is closed with. *)
Require Import Ctpg.Base.Prelude.
Require Import Ctpg.Model.Grammar.
Require Import Ctpg.Model.LRGen.
Require Import Ctpg.Model.Driver.
Require Import Ctpg.Model.Dfa.
Require Import Ctpg.Model.RegexFront.
Require Import Ctpg.Model.Diag.
Require Import Ctpg.Spec.Cfg.
Require Import Ctpg.Spec.LRSpec.
Require Import Ctpg.Spec.Lang.
Require Import Ctpg.Spec.Eval.
Require Import Ctpg.Spec.Conflict.
Require Import Ctpg.Valid.LRValid.
Require Import Ctpg.Valid.DfaValid.
Require Import Ctpg.Valid.SpecMatch.
Require Import Ctpg.Proofs.DriverBasics.
Require Import Ctpg.Proofs.SafeBasics.
Require Import Ctpg.Proofs.SafeCap.
Require Import Ctpg.Valid.LRProductive.
Require Import Ctpg.Proofs.CapFormula.
Require Import Ctpg.Proofs.CapFormulaValid.
Require Import Ctpg.Model.Buffers.
Require Import Ctpg.Proofs.BuffersCorrect.
Require Import Ctpg.Model.Containers.
Require Import Ctpg.Model.Utils.
Require Import Ctpg.Proofs.UtilsDriverLink.
From Coq Require Import Permutation.

(* a parse whose stacks never exceed n gives the same result, final state and output with any fixed capacity above n as with unbounded stacks (cstring_buffer vs the other buffers) *)
Theorem C07_capacity_irrelevant :
  forall (V C : Type) (g : grammar) (tbl : LRGen.table) (opts : options) (buf : list nat) (lexer : bool -> spoint -> list nat -> list lex_event * option (nat * nat)) (term_f : nat -> nat -> nat -> spoint -> V) (err_f : spoint -> V) (rule_f : nat -> C -> list V -> C * V) (n fuel : nat) (c : C), never_above V C g tbl opts buf lexer term_f err_f rule_f n fuel c -> forall n' : nat, n < n' -> run V C g tbl opts buf (Some n') lexer term_f err_f rule_f fuel c = run V C g tbl opts buf None lexer term_f err_f rule_f fuel c.
Proof. exact @capacity_irrelevant. Qed.
Print Assumptions C07_capacity_irrelevant.

(* with a fixed capacity the run either equals the unbounded run or ends in Throw - never a different value *)
Theorem C07_capacity_too_small_fails_loudly :
  forall (V C : Type) (g : grammar) (tbl : LRGen.table) (opts : options) (buf : list nat) (lexer : bool -> spoint -> list nat -> list lex_event * option (nat * nat)) (term_f : nat -> nat -> nat -> spoint -> V) (err_f : spoint -> V) (rule_f : nat -> C -> list V -> C * V) (n fuel : nat) (c : C), 0 < n -> fst (fst (run V C g tbl opts buf (Some n) lexer term_f err_f rule_f fuel c)) = Driver.Throw \/ run V C g tbl opts buf (Some n) lexer term_f err_f rule_f fuel c = run V C g tbl opts buf None lexer term_f err_f rule_f fuel c.
Proof. exact @capacity_throw_or_same. Qed.
Print Assumptions C07_capacity_too_small_fails_loudly.

(* and it is Throw exactly when the unbounded run exceeds the capacity *)
Theorem C07_too_small_is_throw :
  forall (V C : Type) (g : grammar) (tbl : LRGen.table) (opts : options) (buf : list nat) (lexer : bool -> spoint -> list nat -> list lex_event * option (nat * nat)) (term_f : nat -> nat -> nat -> spoint -> V) (err_f : spoint -> V) (rule_f : nat -> C -> list V -> C * V) (n fuel : nat) (c : C), 0 < n -> ~ never_above V C g tbl opts buf lexer term_f err_f rule_f n fuel c -> fst (fst (run V C g tbl opts buf (Some n) lexer term_f err_f rule_f fuel c)) = Driver.Throw.
Proof. exact @capacity_too_small. Qed.
Print Assumptions C07_too_small_is_throw.

(* hence for tables that pass term_checks, of grammars without empty rules and without error rules, parsing through cstring_buffer (fixed stacks) gives exactly the run of the other buffer kinds, for every input *)
Theorem C07_cstring_buffer_agrees_without_empty_rules_and_recovery :
  forall (V C : Type) (g : grammar) (sts : list items) (tbl : LRGen.table) (opts : options) (buf : list nat) (lexer : bool -> spoint -> list nat -> list lex_event * option (nat * nat)) (term_f : nat -> nat -> nat -> spoint -> V) (err_f : spoint -> V) (rule_f : nat -> C -> list V -> C * V), term_checks g sts tbl = true -> no_error_symbol g tbl = true -> empty_rules g = 0 -> lexer_in_range lexer -> forall (fuel : nat) (c : C), run V C g tbl opts buf (Some (cstring_cap g (length buf))) lexer term_f err_f rule_f fuel c = run V C g tbl opts buf None lexer term_f err_f rule_f fuel c /\ fst (fst (run V C g tbl opts buf (Some (cstring_cap g (length buf))) lexer term_f err_f rule_f fuel c)) <> Driver.Throw.
Proof. exact @cstring_capacity_suffices_checked. Qed.
Print Assumptions C07_cstring_buffer_agrees_without_empty_rules_and_recovery.

(* runs with extensionally equal lexers and functors are equal: nothing else is observed *)
Theorem C07_run_depends_only_on_what_it_is_given :
  forall (V C : Type) (g : grammar) (tbl : LRGen.table) (opts : options) (buf : list nat) (cap : option nat) (lexer1 lexer2 : bool -> spoint -> list nat -> list lex_event * option (nat * nat)) (term_f1 term_f2 : nat -> nat -> nat -> spoint -> V) (err_f1 err_f2 : spoint -> V) (rule_f1 rule_f2 : nat -> C -> list V -> C * V), (forall (p : spoint) (c : nat) (rest : list nat), lexer1 (o_verbose opts) p (c :: rest) = lexer2 (o_verbose opts) p (c :: rest)) -> (forall (t a l : nat) (p : spoint), term_f1 t a l p = term_f2 t a l p) -> (forall p : spoint, err_f1 p = err_f2 p) -> (forall (r : nat) (c : C) (args : list V), rule_f1 r c args = rule_f2 r c args) -> forall (fuel : nat) (c : C), run V C g tbl opts buf cap lexer1 term_f1 err_f1 rule_f1 fuel c = run V C g tbl opts buf cap lexer2 term_f2 err_f2 rule_f2 fuel c.
Proof. exact @run_ext. Qed.
Print Assumptions C07_run_depends_only_on_what_it_is_given.

(* BYTE LEVEL (mirror of namespace buffers, tied to the real classes by kernel-checked observations of every lexeme): for every text and every 0 <= s <= e <= size, cstring_buffer, string_buffer and a string_view_buffer that is a window inside ANY surrounding memory hand out the same lexeme *)
Theorem C07_buffer_kinds_present_the_same_lexemes :
  forall (pre text post : list nat) (s e : nat), s <= e -> e <= length text -> cs_get_view (cs_of_literal text) (cs_begin (cs_of_literal text) + s) (cs_begin (cs_of_literal text) + e) = sb_get_view {| sb_str := text |} s e /\ sb_get_view {| sb_str := text |} s e = svb_get_view {| sv_mem := pre ++ text ++ post; sv_off := length pre; sv_len := length text |} (length pre + s) (length pre + e).
Proof. exact @buffers_agree. Qed.
Print Assumptions C07_buffer_kinds_present_the_same_lexemes.

(* the whole table of lexemes agrees *)
Theorem C07_every_lexeme_of_every_buffer_kind :
  forall pre text post : list nat, all_views (cs_get_view (cs_of_literal text)) 0 (length text) = all_views (sb_get_view {| sb_str := text |}) 0 (length text) /\ all_views (sb_get_view {| sb_str := text |}) 0 (length text) = all_views (svb_get_view {| sv_mem := pre ++ text ++ post; sv_off := length pre; sv_len := length text |}) (length pre) (length text).
Proof. exact @all_views_agree. Qed.
Print Assumptions C07_every_lexeme_of_every_buffer_kind.

(* LINK: the slice the driver model hands to term functors (Driver.slice_of) is what get_view of each real buffer kind returns *)
Theorem C07_the_drivers_lexeme_is_get_view_of_every_buffer_kind :
  forall (pre text post : list nat) (s e : nat), s <= e -> e <= length text -> cs_get_view (cs_of_literal text) s e = Ok (slice_of text s e) /\ sb_get_view {| sb_str := text |} s e = Ok (slice_of text s e) /\ svb_get_view {| sv_mem := pre ++ text ++ post; sv_off := length pre; sv_len := length text |} (length pre + s) (length pre + e) = Ok (slice_of text s e).
Proof. exact @lexeme_of_every_buffer_kind_is_the_drivers_slice. Qed.
Print Assumptions C07_the_drivers_lexeme_is_get_view_of_every_buffer_kind.

(* and the same byte under every iterator inside the text *)
Theorem C07_buffer_kinds_same_extent_and_bytes :
  forall (pre text post : list nat) (i : nat), i < length text -> cs_deref (cs_of_literal text) i = Ok (nth i text 0) /\ sb_deref {| sb_str := text |} i = Ok (nth i text 0) /\ svb_deref {| sv_mem := pre ++ text ++ post; sv_off := length pre; sv_len := length text |} (length pre + i) = Ok (nth i text 0).
Proof. exact @deref_agree. Qed.
Print Assumptions C07_buffer_kinds_same_extent_and_bytes.
