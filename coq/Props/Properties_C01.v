(* C01 - A conflict-free grammar's parser accepts exactly the grammar's language. Theorems only.
   The driver model (Model/Driver.v) run on a sequence of terms (Spec/LRSpec.v: tree_run, accepts) against the
   grammar's derivation relation (Spec/Cfg.v). [validate] is a boolean check of (grammar, item sets, table); the checks
   discharge it with vm_compute on the dump of the REAL parser for every grammar of the run, which gives the statement
   below for all inputs of that grammar. *)
Require Import Ctpg.Base.Prelude Ctpg.Model.Grammar Ctpg.Model.LRGen Ctpg.Model.Driver Ctpg.Spec.Cfg Ctpg.Spec.LRSpec
               Ctpg.Valid.LRValid Ctpg.Proofs.LRSound Ctpg.Proofs.LRComplete.

(* no underivable input is accepted: whatever the driver returns is a derivation tree of the input *)
Theorem C01_sound : forall g sts tbl w t,
  validate_sound g sts tbl = true -> no_error_symbol g tbl = true -> tokens_ok g w ->
  accepts g tbl w t -> derives_tree g t w.
Proof. exact lr_sound. Qed.

(* no derivable input is rejected: every derivation tree is returned by the driver *)
Theorem C01_complete : forall g sts tbl w t,
  validate g sts tbl = true -> tokens_ok g w -> derives_tree g t w -> accepts g tbl w t.
Proof. exact lr_complete. Qed.

Theorem C01_language : forall g sts tbl w,
  validate g sts tbl = true -> no_error_symbol g tbl = true -> tokens_ok g w ->
  ((exists t, accepts g tbl w t) <-> derives g w).
Proof. exact lr_language. Qed.

Print Assumptions C01_sound.
Print Assumptions C01_complete.
Print Assumptions C01_language.

(* THE GENERATOR, for all grammars expressible in the DSL (analyze rg = Some g): whenever the mirror of state_analyzer
   succeeds, marks no finished cell as a conflict and no state holds the accept/reduce clash of known finding D12,
   the table it built passes the validator - hence, by the theorems above, the parser accepts exactly the language. *)
Require Import Ctpg.Proofs.GenCorrect Ctpg.Proofs.GenAnalyze.
Theorem C01_generator : forall rg g lim sts tbl,
  analyze rg = Some g -> grammar_wf g = true ->
  gen_with g lim = inl (sts, tbl) ->
  conflict_free g (length sts) tbl = true -> accept_clean g sts = true ->
  validate g (map st_all sts) tbl = true.
Proof. exact gen_validates_analyze. Qed.
Print Assumptions C01_generator.

(* EXACTLY the language, as a decision procedure (termination included): for a table that additionally passes the
   decidable lookahead/productivity checks of Valid/LRProductive.v (discharged on the real tables by the C06 check),
   some amount of fuel settles every input: derivable inputs are accepted with a derivation tree, all others rejected. *)
Require Import Ctpg.Valid.LRProductive Ctpg.Proofs.TermAll.
Theorem C01_decides_the_language : forall g sts tbl w,
  term_checks g sts tbl = true -> no_error_symbol g tbl = true -> tokens_ok g w ->
  exists fuel, forall fuel', fuel <= fuel' ->
    (derives g w -> exists t, tree_run g tbl w fuel' = Accept t /\ derives_tree g t w) /\
    (~ derives g w -> tree_run g tbl w fuel' = Reject).
Proof. exact decides_language_checked. Qed.
Print Assumptions C01_decides_the_language.

(* THE GENERATOR AGAIN, now with termination: for every productive grammar expressible in the DSL whose generated table
   is conflict-free (and without error rules), the generated parser DECIDES the grammar's language. *)
Require Import Ctpg.Proofs.GenTermChecks.
Theorem C01_generated_parsers_decide_the_language : forall rg g lim sts tbl,
  analyze rg = Some g -> grammar_wf g = true -> gen_with g lim = inl (sts, tbl) ->
  conflict_free g (length sts) tbl = true -> accept_clean g sts = true -> productiveb g = true ->
  no_error_symbol g tbl = true ->
  forall w, tokens_ok g w ->
  exists fuel, forall fuel', fuel <= fuel' ->
    (derives g w -> exists t, tree_run g tbl w fuel' = Accept t /\ derives_tree g t w) /\
    (~ derives g w -> tree_run g tbl w fuel' = Reject).
Proof. exact gen_decides_language_analyze. Qed.
Print Assumptions C01_generated_parsers_decide_the_language.
