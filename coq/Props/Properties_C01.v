(* C01 - A conflict-free grammar's parser accepts exactly the grammar's language. Theorems only.
   The driver model (Model/Driver.v) run on a sequence of terms (Spec/LRSpec.v: tree_run, accepts) against the
   grammar's derivation relation (Spec/Cfg.v). [validate] is a boolean check of (grammar, item sets, table); the checks
   discharge it with vm_compute on the dump of the REAL parser for every grammar of the run, which gives the statement
   below for all inputs of that grammar. *)
Require Import Ctpg.Base.Prelude Ctpg.Model.Grammar Ctpg.Model.LRGen Ctpg.Model.Driver Ctpg.Spec.Cfg Ctpg.Spec.LRSpec
               Ctpg.Valid.LRValid Ctpg.Proofs.LRSound Ctpg.Proofs.LRComplete.

(* no underivable input is accepted: whatever the driver returns is a derivation tree of the input *)
Theorem C01_sound : forall g sts tbl w t,
  validate_sound g sts tbl = true -> no_error_symbol g tbl = true -> tokens_ok g w ->
  accepts g tbl w t -> derives_tree g t w.
Proof. exact lr_sound. Qed.

(* no derivable input is rejected: every derivation tree is returned by the driver *)
Theorem C01_complete : forall g sts tbl w t,
  validate g sts tbl = true -> tokens_ok g w -> derives_tree g t w -> accepts g tbl w t.
Proof. exact lr_complete. Qed.

Theorem C01_language : forall g sts tbl w,
  validate g sts tbl = true -> no_error_symbol g tbl = true -> tokens_ok g w ->
  ((exists t, accepts g tbl w t) <-> derives g w).
Proof. exact lr_language. Qed.

Print Assumptions C01_sound.
Print Assumptions C01_complete.
Print Assumptions C01_language.

(* THE GENERATOR, for all grammars expressible in the DSL (analyze rg = Some g): whenever the mirror of state_analyzer
   succeeds, marks no finished cell as a conflict and no state holds the accept/reduce clash of known finding D12,
   the table it built passes the validator - hence, by the theorems above, the parser accepts exactly the language. *)
Require Import Ctpg.Proofs.GenCorrect Ctpg.Proofs.GenAnalyze.
Theorem C01_generator : forall rg g lim sts tbl,
  analyze rg = Some g -> grammar_wf g = true ->
  gen_with g lim = inl (sts, tbl) ->
  conflict_free g (length sts) tbl = true -> accept_clean g sts = true ->
  validate g (map st_all sts) tbl = true.
Proof. exact gen_validates_analyze. Qed.
Print Assumptions C01_generator.

(* EXACTLY the language, as a decision procedure (termination included): for a table that additionally passes the
   decidable lookahead/productivity checks of Valid/LRProductive.v (discharged on the real tables by the C06 check),
   some amount of fuel settles every input: derivable inputs are accepted with a derivation tree, all others rejected. *)
Require Import Ctpg.Valid.LRProductive Ctpg.Proofs.TermAll.
Theorem C01_decides_the_language : forall g sts tbl w,
  term_checks g sts tbl = true -> no_error_symbol g tbl = true -> tokens_ok g w ->
  exists fuel, forall fuel', fuel <= fuel' ->
    (derives g w -> exists t, tree_run g tbl w fuel' = Accept t /\ derives_tree g t w) /\
    (~ derives g w -> tree_run g tbl w fuel' = Reject).
Proof. exact decides_language_checked. Qed.
Print Assumptions C01_decides_the_language.

(* THE GENERATOR AGAIN, now with termination: for every productive grammar expressible in the DSL whose generated table
   is conflict-free (and without error rules), the generated parser DECIDES the grammar's language. *)
Require Import Ctpg.Proofs.GenTermChecks.
Theorem C01_generated_parsers_decide_the_language : forall rg g lim sts tbl,
  analyze rg = Some g -> grammar_wf g = true -> gen_with g lim = inl (sts, tbl) ->
  conflict_free g (length sts) tbl = true -> accept_clean g sts = true -> productiveb g = true ->
  no_error_symbol g tbl = true ->
  forall w, tokens_ok g w ->
  exists fuel, forall fuel', fuel <= fuel' ->
    (derives g w -> exists t, tree_run g tbl w fuel' = Accept t /\ derives_tree g t w) /\
    (~ derives g w -> tree_run g tbl w fuel' = Reject).
Proof. exact gen_decides_language_analyze. Qed.
Print Assumptions C01_generated_parsers_decide_the_language.

(* ---- namespace stdex / utils below the model (appended by tools/append_props.py) *)
Require Import Ctpg.Base.Prelude.
Require Import Ctpg.Model.Grammar.
Require Import Ctpg.Model.Containers.
Require Import Ctpg.Model.Utils.
Require Import Ctpg.Proofs.ContainersBits.
Require Import Ctpg.Proofs.ContainersVec.
Require Import Ctpg.Proofs.ContainersSort.
Require Import Ctpg.Proofs.UtilsCorrect.
Require Import Ctpg.Model.LRGen.
Require Import Ctpg.Model.LRGenWords.
Require Import Ctpg.Proofs.LRGenWordsRefine.
Require Import Ctpg.Proofs.GenWf.
Require Import Ctpg.Proofs.GenClosure.
Require Import Ctpg.Proofs.KernelWordsRefine.
Require Import Ctpg.Proofs.ClosureWordsRefine.

(* BELOW THE GENERATOR MIRROR (word-level mirror of namespace stdex, tied to the real templates by kernel-checked observations): for every size N and EVERY sequence of cbitset operations, test(j) answers membership in the set of indices the operations describe - the 64-bit word arithmetic (idx / 64, 1 << idx % 64, masks) is exact across word boundaries *)
Theorem C01_item_and_lookahead_sets_are_sets_of_indices :
  forall (n : N) (ops : list cb_op) (j : N), (j < n)%N -> cb_mem (cb_run n ops) j = fold_left (sb_step n) ops (fun _ : N => false) j.
Proof. exact @cb_run_refines. Qed.
Print Assumptions C01_item_and_lookahead_sets_are_sets_of_indices.

(* set(i) is Prelude.bset_set on the abstraction the generator mirror uses *)
Theorem C01_bitset_insert_is_the_models_insert :
  forall (b b' : cbitset) (i : N), cb_wf b -> cb_set b i = Ok b' -> cb_abs b' = bset_set (cb_abs b) (N.to_nat i).
Proof. exact @cb_abs_set. Qed.
Print Assumptions C01_bitset_insert_is_the_models_insert.

(* add(other) is Prelude.bset_or (FIRST-set propagation, closure lookaheads) *)
Theorem C01_bitset_union_is_the_models_union :
  forall a b : cbitset, cb_wf a -> cb_wf b -> cb_n a = cb_n b -> cb_abs (cb_add a b) = bset_or (cb_abs a) (cb_abs b).
Proof. exact @cb_abs_add. Qed.
Print Assumptions C01_bitset_union_is_the_models_union.

(* test(i) is Prelude.bset_test *)
Theorem C01_bitset_test_is_the_models_test :
  forall (b : cbitset) (i : N), (i < cb_n b)%N -> bset_test (cb_abs b) (N.to_nat i) = cb_mem b i.
Proof. exact @cb_abs_test. Qed.
Print Assumptions C01_bitset_test_is_the_models_test.

(* the generator never calls the whole-set set() / flip(): the padding bits of the last word stay 0 *)
Theorem C01_generator_bitsets_keep_clean_padding :
  forall (n : N) (ops : list cb_op), forallb whole_free ops = true -> cb_clean (cb_run n ops).
Proof. exact @cb_run_clean_without_whole_set_ops. Qed.
Print Assumptions C01_generator_bitsets_keep_clean_padding.

(* hence operator== (state identity: 'is this item set already a state') is equality of the sets *)
Theorem C01_bitset_equality_is_set_equality :
  forall a b : cbitset, cb_wf a -> cb_wf b -> cb_n a = cb_n b -> cb_clean a -> cb_clean b -> cb_eqb a b = true <-> cb_abs a = cb_abs b.
Proof. exact @cb_eqb_iff_same_set. Qed.
Print Assumptions C01_bitset_equality_is_set_equality.

(* REFUTED without that: after the whole-set set() on a size that is not a multiple of 64, operator== distinguishes equal sets (not reachable from the generator; character sets have 256 bits) *)
Theorem C01_bitset_equality_with_polluted_padding_refuted :
  exists (n : N) (ops ops' : list cb_op), cb_abs (cb_run n ops) = cb_abs (cb_run n ops') /\ cb_eqb (cb_run n ops) (cb_run n ops') = false.
Proof. exact @cb_eqb_padding_refuted. Qed.
Print Assumptions C01_bitset_equality_with_polluted_padding_refuted.

(* stdex::sort (bubble sort, swap on strict <) on rule_infos terminates within size passes and yields exactly the stable sort by left side that Grammar.analyze uses: rules of one nonterminal stay contiguous and in the order written *)
Theorem C01_rule_sort_is_the_models_stable_sort :
  forall l : list rule_info, l <> [] -> stdex_sort (fun a b : rule_info => ri_l a <? ri_l b) l = Ok (sort_ris l).
Proof. exact @stdex_sort_is_sort_ris. Qed.
Print Assumptions C01_rule_sort_is_the_models_stable_sort.

(* LINK (the generator's fixpoints on the real representation): the nullable and FIRST computations of the generator mirror, re-expressed on cbitset words with cb_new / cb_set / cb_test / cb_add and operator== exactly where the C++ uses them (Model/LRGenWords.v), return for EVERY grammar with in-range symbols the sets the abstract mirror computes - including the termination test `before == after` of the FIRST fixpoint, which is set equality because these sets keep clean padding *)
Theorem C01_nullable_and_first_sets_on_64_bit_words_are_the_models :
  forall g : grammar, syms_in_range g -> exists (b : cbitset) (t : list cbitset), w_nterm_empty g = Ok b /\ w_nterm_first g b = Ok t /\ cb_abs b = nterm_empty g /\ map cb_abs t = nterm_first g (nterm_empty g).
Proof. exact @w_first_sets_refine. Qed.
Print Assumptions C01_nullable_and_first_sets_on_64_bit_words_are_the_models.

(* the FIRST table alone, from any nullable set *)
Theorem C01_first_sets_on_words_refine :
  forall g : grammar, syms_in_range g -> forall ne_w : cbitset, cb_wf ne_w -> cb_n ne_w = N.of_nat (nterm_count g) -> exists t : list cbitset, w_nterm_first g ne_w = Ok t /\ map cb_abs t = nterm_first g (cb_abs ne_w) /\ Forall (fun b : cbitset => cb_wf b /\ cb_clean b /\ cb_n b = N.of_nat (term_count g)) t.
Proof. exact @w_nterm_first_refines. Qed.
Print Assumptions C01_first_sets_on_words_refine.

(* the range hypothesis is necessary: the list model ignores an out-of-range index, the word level throws 'Index access out of range' (what makes an undeclared symbol a construction failure) *)
Theorem C01_an_out_of_range_symbol_throws_at_word_level :
  syms_in_rangeb exbad_g = false /\ (do x <- w_nterm_empty exbad_g;; w_nterm_first exbad_g x) = Throw /\ nterm_first exbad_g (nterm_empty exbad_g) = [[false; false]].
Proof. exact @out_of_range_throws. Qed.
Print Assumptions C01_an_out_of_range_symbol_throws_at_word_level.

(* LINK (closure): the direct closure children of an item - FIRST of the rest of the rule as a cbitset, one test per term, the item's own lookahead when the rest is nullable and not in FIRST, with the short-circuit of the C++ `&&` - computed on words equal LRGen.closure_children for every grammar with in-range symbols *)
Theorem C01_closure_children_on_words_are_the_models :
  forall (g : grammar) (ne_w : cbitset) (nf_w : list cbitset) (ne : bset) (nf : list bset), cb_n ne_w = N.of_nat (nterm_count g) -> cb_abs ne_w = ne -> Forall (good g) nf_w -> map cb_abs nf_w = nf -> syms_in_range g -> forall i : item, it_t i < term_count g -> w_closure_children g ne_w nf_w i = Ok (closure_children g ne nf i).
Proof. exact @w_closure_children_refines_in_range. Qed.
Print Assumptions C01_closure_children_on_words_are_the_models.

(* LINK (state identity): `states[i].kernel == kernel` on the item-index bitsets the real code builds with set(make_situation_idx(..)) decides exactly LRGen.same_items on the kernels as item lists - for every grammar and all kernels of in-range items (index injectivity + clean padding) *)
Theorem C01_state_identity_on_words_is_the_models_same_items :
  forall g : grammar, wfx_facts g -> forall (k1 k2 : list item) (b1 b2 : cbitset), Forall (item_okP g) k1 -> Forall (item_okP g) k2 -> w_kernel g k1 = Ok b1 -> w_kernel g k2 = Ok b2 -> cb_eqb b1 b2 = same_items k1 k2.
Proof. exact @kernel_equality_is_same_items. Qed.
Print Assumptions C01_state_identity_on_words_is_the_models_same_items.

(* the bitset built from a kernel has exactly the bits of its items *)
Theorem C01_kernel_bitset_is_the_item_set :
  forall g : grammar, wfx_facts g -> forall k : list item, Forall (item_okP g) k -> exists b : cbitset, w_kernel g k = Ok b /\ cb_wf b /\ cb_clean b /\ cb_n b = N.of_nat (address_space g) /\ (forall i : item, item_okP g i -> cb_mem b (N.of_nat (item_idx g i)) = mem_item i k) /\ (forall j : nat, j < address_space g -> cb_mem b (N.of_nat j) = true -> exists i : item, In i k /\ item_idx g i = j).
Proof. exact @w_kernel_ok. Qed.
Print Assumptions C01_kernel_bitset_is_the_item_set.

(* utils::str_equal on C strings = equality of the strings up to their terminators, nothing behind a terminator is read *)
Theorem C01_symbol_names_are_compared_as_whole_strings :
  forall s1 s2 r1 r2 : list nat, nul_free s1 -> nul_free s2 -> str_equal (s1 ++ 0 :: r1) (s2 ++ 0 :: r2) = Ok (list_eqb Nat.eqb s1 s2).
Proof. exact @str_equal_spec. Qed.
Print Assumptions C01_symbol_names_are_compared_as_whole_strings.

(* in particular a declared name that is a proper prefix of the looked-up name is not a match *)
Theorem C01_a_proper_prefix_is_not_the_same_name :
  forall (s : list nat) (x : nat) (t r1 r2 : list nat), nul_free s -> nul_free (x :: t) -> str_equal (s ++ 0 :: r1) ((s ++ x :: t) ++ 0 :: r2) = Ok false.
Proof. exact @str_equal_proper_prefix. Qed.
Print Assumptions C01_a_proper_prefix_is_not_the_same_name.

(* utils::find_str over a table of C strings = Grammar.find_str on identifiers: the first equal name, 'string not found' otherwise *)
Theorem C01_symbol_lookup_is_the_models_find_str :
  forall (table : list (list nat)) (s : list nat) (rests : list (list nat)) (rs : list nat), Forall nul_free table -> nul_free s -> length rests = length table -> find_str_c (map (fun p : list nat * list nat => fst p ++ 0 :: snd p) (combine table rests)) (s ++ 0 :: rs) 0 = match find_str table s with | Some i => Ok i | None => Throw end.
Proof. exact @find_str_c_spec. Qed.
Print Assumptions C01_symbol_lookup_is_the_models_find_str.
