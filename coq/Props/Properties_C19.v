(* C19 - Helper functors pick and forward exactly the documented positions. Theorems only: each statement is printed by Coq from the lemma it is closed with. *)
Require Import Ctpg.Base.Prelude.
Require Import Ctpg.Model.Grammar.
Require Import Ctpg.Model.LRGen.
Require Import Ctpg.Model.Driver.
Require Import Ctpg.Model.Dfa.
Require Import Ctpg.Model.RegexFront.
Require Import Ctpg.Model.Diag.
Require Import Ctpg.Spec.Cfg.
Require Import Ctpg.Spec.LRSpec.
Require Import Ctpg.Spec.Lang.
Require Import Ctpg.Spec.Eval.
Require Import Ctpg.Spec.Conflict.
Require Import Ctpg.Valid.LRValid.
Require Import Ctpg.Valid.DfaValid.
Require Import Ctpg.Valid.SpecMatch.
Require Import Ctpg.Model.Helpers.
Require Import Ctpg.Proofs.HelpersCorrect.
From Coq Require Import Permutation.

(* _eN returns the N-th right-side value for every arity *)
Theorem C19_element :
  forall (V : Type) (x : nat) (args : list V), 1 <= x -> element V x args = nth_error args (x - 1).
Proof. exact element_is_nth. Qed.
Print Assumptions C19_element.

(* and depends on no other argument *)
Theorem C19_element_reads_nothing_else :
  forall (V : Type) (x : nat) (args args' : list V), 1 <= x -> nth_error args (x - 1) = nth_error args' (x - 1) -> element V x args = element V x args'.
Proof. exact element_reads_only_its_position. Qed.
Print Assumptions C19_element_reads_nothing_else.

(* construct<T,I> builds T from the I-th value *)
Theorem C19_construct :
  forall (V : Type) (mk : V -> V) (i : nat) (args : list V), 1 <= i -> construct V mk i args = option_map mk (nth_error args (i - 1)).
Proof. exact construct_is_mk_nth. Qed.
Print Assumptions C19_construct.

(* push_back<C,A> / emplace_back<C,A> append the A-th value to the C-th, container before or after the element *)
Theorem C19_append :
  forall (V : Type) (app : V -> V -> V) (c a : nat) (args : list V), 1 <= c -> 1 <= a -> c <> a -> append_to V app c a args = match nth_error args (c - 1) with | Some cont => match nth_error args (a - 1) with | Some x => Some (app cont x) | None => None end | None => None end.
Proof. exact append_to_picks_C_and_A. Qed.
Print Assumptions C19_append.

(* and depend on no other argument *)
Theorem C19_append_reads_nothing_else :
  forall (V : Type) (app : V -> V -> V) (c a : nat) (args args' : list V), 1 <= c -> 1 <= a -> c <> a -> nth_error args (c - 1) = nth_error args' (c - 1) -> nth_error args (a - 1) = nth_error args' (a - 1) -> append_to V app c a args = append_to V app c a args'.
Proof. exact append_to_reads_only_C_and_A. Qed.
Print Assumptions C19_append_reads_nothing_else.

(* val(v) returns v regardless of arguments *)
Theorem C19_val :
  forall (V : Type) (v : V) (args args' : list V), val V v args = val V v args' /\ val V v args = v.
Proof. exact val_ignores_arguments. Qed.
Print Assumptions C19_val.

(* create<T> returns a default T regardless of arguments *)
Theorem C19_create :
  forall (V : Type) (d : V) (args args' : list V), create V d args = create V d args' /\ create V d args = d.
Proof. exact create_ignores_arguments. Qed.
Print Assumptions C19_create.
