(* C17 - Malformed patterns and grammars are rejected at construction. Theorems only: each statement is printed by Coq from the lemma it is closed with. *)
Require Import Ctpg.Base.Prelude.
Require Import Ctpg.Model.Grammar.
Require Import Ctpg.Model.LRGen.
Require Import Ctpg.Model.Driver.
Require Import Ctpg.Model.Dfa.
Require Import Ctpg.Model.RegexFront.
Require Import Ctpg.Model.Diag.
Require Import Ctpg.Spec.Cfg.
Require Import Ctpg.Spec.LRSpec.
Require Import Ctpg.Spec.Lang.
Require Import Ctpg.Spec.Eval.
Require Import Ctpg.Spec.Conflict.
Require Import Ctpg.Valid.LRValid.
Require Import Ctpg.Valid.DfaValid.
Require Import Ctpg.Valid.SpecMatch.
Require Import Ctpg.Valid.LRSafe.
Require Import Ctpg.Proofs.DriverBasics.
Require Import Ctpg.Proofs.SafeDriver.
Require Import Ctpg.Proofs.PatternLex.
Require Import Ctpg.Proofs.PatternParse.
Require Import Ctpg.Proofs.PatternDecode.
Require Import Ctpg.Proofs.AnalyzeUndeclared.
Require Import Ctpg.Valid.LRResolved.
Require Import Ctpg.Proofs.PatternCompleteLR.
Require Import Ctpg.Proofs.PatternCompleteTrees.
Require Import Ctpg.Proofs.PatternCompleteTerm.
Require Import Ctpg.Proofs.PatternComplete.
From Coq Require Import Permutation.

(* scanning ANY byte string as a pattern, well-formed or not, at any offset, never reads beyond the terminator *)
Theorem C17_scanning_never_reads_past_the_end :
  (forall (p : list nat) (i : nat), lex_at p i <> TokOver) /\ (forall (p : list nat) (i l0 : nat), i <= length p -> match_escaped p i l0 <> LOver) /\ (forall (p : list nat) (i : nat), i <= length p -> match_range_item p i <> LOver) /\ (forall (p : list nat) (f i len : nat), i <= length p -> range_items p f i len <> LOver) /\ (forall (p : list nat) (i : nat), i <= length p -> match_range p i <> LOver) /\ (forall (p : list nat) (i : nat), i <= length p -> match_primary p i <> LOver) /\ (forall (p : list nat) (f i len : nat), i <= length p -> S (length p) <= f -> range_items p f i len = range_items p (S (length p)) i len).
Proof. exact @no_over_read. Qed.
Print Assumptions C17_scanning_never_reads_past_the_end.

(* every token the scanner delivers is non-empty, lies inside the pattern and is one of the ten pattern terms *)
Theorem C17_tokens_in_range :
  forall (p : list nat) (i t len : nat), lex_at p i = Tok t len -> 0 < len /\ i + len <= length p /\ t < 10.
Proof. exact @lex_at_in_range. Qed.
Print Assumptions C17_tokens_in_range.

(* parsing any string as a pattern never performs an out-of-range access *)
Theorem C17_pattern_parse_never_crashes :
  forall (g : grammar) (tb : LRGen.table) (pat : list nat) (fuel : nat) (cr : crash), regex_grammar_table = Some (g, tb) -> pattern_run g tb pat fuel <> Crash cr.
Proof. exact @pattern_parse_no_crash. Qed.
Print Assumptions C17_pattern_parse_never_crashes.

(* if a pattern gets a meaning then the whole string was scanned into tokens and the token string is derivable in the pattern grammar: nothing outside the syntax is given a meaning *)
Theorem C17_only_wellformed_patterns_get_a_meaning :
  forall (pat : list nat) (r : regex), parse_pattern pat = Some r -> exists toks : list (nat * nat * nat), (forall F : nat, length pat < F -> tokenize F regex_opts regex_lexer pat 0 = (toks, TokEof (length pat))) /\ derives regex_g (map tok_term toks).
Proof. exact @parse_pattern_wellformed. Qed.
Print Assumptions C17_only_wellformed_patterns_get_a_meaning.

(* a raw non-printable byte anywhere (in a set, after a backslash, bytes >= 0x80) makes the pattern invalid *)
Theorem C17_raw_nonprintable_byte_rejected :
  forall (pat : list nat) (c : nat), In c pat -> is_printable c = false -> parse_pattern pat = None.
Proof. exact @nonprintable_rejected. Qed.
Print Assumptions C17_raw_nonprintable_byte_rejected.

(* the empty pattern is invalid *)
Theorem C17_empty_pattern_rejected :
  parse_pattern [] = None.
Proof. exact @empty_pattern_rejected. Qed.
Print Assumptions C17_empty_pattern_rejected.

(* an unterminated set is invalid *)
Theorem C17_unterminated_set_rejected :
  forall pre rest : list nat, (forall c : nat, In c pre -> c <> 92 /\ c <> 91) -> ~ In 93 rest -> parse_pattern (pre ++ 91 :: rest) = None.
Proof. exact @unterminated_set_rejected. Qed.
Print Assumptions C17_unterminated_set_rejected.

(* the set decoder re-scans exactly the lexeme the scanner delivered and reads nothing outside it *)
Theorem C17_decoder_stays_inside_the_lexeme :
  forall (p : list nat) (i len : nat), lex_at p i = Tok 1 len -> string_view_to_subset_c (lexeme p i len) = Some (string_view_to_subset (lexeme p i len)).
Proof. exact @decoder_in_range. Qed.
Print Assumptions C17_decoder_stays_inside_the_lexeme.

(* EXACTLY the documented syntax: a byte string gets a meaning iff it scans completely into tokens whose string is derivable in the pattern grammar (and every {n} count is below the model's bound 4096) *)
Theorem C17_pattern_accepted_iff_in_the_syntax :
  forall p : list nat, parse_pattern p <> None <-> (exists toks : list (nat * nat * nat), scans p toks /\ derives regex_g (map tok_term toks) /\ counts_ok p toks = true).
Proof. exact @pattern_accepted_iff. Qed.
Print Assumptions C17_pattern_accepted_iff_in_the_syntax.

(* with the fixed fuel 10*length+20 the pattern parser accepts exactly the derivable token strings and rejects exactly the others: a rejection is never an out-of-fuel artefact *)
Theorem C17_pattern_syntax_decided :
  forall p : list nat, ((exists v : rval, the_run p = Accept v) <-> (exists toks : list (nat * nat * nat), scans p toks /\ derives regex_g (map tok_term toks))) /\ (the_run p = Reject <-> ~ (exists toks : list (nat * nat * nat), scans p toks /\ derives regex_g (map tok_term toks))).
Proof. exact @pattern_syntax_decided. Qed.
Print Assumptions C17_pattern_syntax_decided.

(* the pattern parser terminates on every byte string (potential argument checked cell by cell on the pattern table) *)
Theorem C17_pattern_parse_terminates :
  forall (p : list nat) (fuel : nat), 7 * length p + 8 <= fuel -> pattern_run regex_g regex_tb p fuel <> OutOfFuel.
Proof. exact @pattern_parse_terminates. Qed.
Print Assumptions C17_pattern_parse_terminates.

(* the pattern grammar is ambiguous (alt -> alt | alt); its table is the LR(1) automaton with that conflict resolved to shift *)
Theorem C17_pattern_table_resolved :
  validate_resolved regex_g regex_sts regex_tb = true.
Proof. exact @regex_table_validated_resolved. Qed.
Print Assumptions C17_pattern_table_resolved.

(* the side condition is needed in the MODEL: a{4096} is refused by the mirror's count functor (the real library has no such bound; counts that large are not exercised) *)
Theorem C17_count_bound_of_the_model_refuted :
  exists (p : list nat) (toks : list (nat * nat * nat)), scans p toks /\ derives regex_g (map tok_term toks) /\ parse_pattern p = None.
Proof. exact @wellformed_pattern_accepted_refuted. Qed.
Print Assumptions C17_count_bound_of_the_model_refuted.

(* a rule mentioning a nonterminal or term that is not declared makes rule analysis fail ('string not found') *)
Theorem C17_undeclared_symbol_rejected :
  forall (rg : raw_grammar) (r : raw_rule) (s : raw_sym), In r (rg_rules rg) -> In s (rr_r r) -> match s with | RTerm id => ~ In id (map rt_id (rg_terms rg) ++ [id_eof; id_error]) | RNterm n => ~ In n (rg_nterms rg ++ [id_fake_root]) end -> analyze rg = None.
Proof. exact @find_str_none_analyze_none. Qed.
Print Assumptions C17_undeclared_symbol_rejected.

(* ---- namespace stdex / utils below the model (appended by tools/append_props.py) *)
Require Import Ctpg.Base.Prelude.
Require Import Ctpg.Model.Grammar.
Require Import Ctpg.Model.Containers.
Require Import Ctpg.Model.Utils.
Require Import Ctpg.Proofs.ContainersBits.
Require Import Ctpg.Proofs.ContainersVec.
Require Import Ctpg.Proofs.ContainersSort.
Require Import Ctpg.Proofs.UtilsCorrect.
Require Import Ctpg.Model.RegexFront.
Require Import Ctpg.Proofs.UtilsRegexLink.

(* utils::is_printable on signed chars: exactly 0x20..0x7e - bytes >= 0x80 are negative chars and are refused as raw pattern bytes *)
Theorem C17_printable_class :
  forall b : nat, b < 256 -> Utils.is_printable b = (32 <=? b) && (b <=? 126).
Proof. exact @is_printable_spec. Qed.
Print Assumptions C17_printable_class.

(* LINK (pattern front end): the classes the model's regex_lexer uses (unsigned comparisons on 0..255) are the signed-char classes of utils:: on every byte *)
Theorem C17_front_end_classes_are_the_signed_char_classes :
  forall b : nat, b < 256 -> is_printable b = Utils.is_printable b /\ is_dec_digit b = Utils.is_dec_digit b /\ is_hex_digit b = Utils.is_hex_digit b.
Proof. exact @front_end_classes_are_the_signed_char_classes. Qed.
Print Assumptions C17_front_end_classes_are_the_signed_char_classes.

(* bytes 128..255 are neither printable nor digits *)
Theorem C17_high_bytes_belong_to_no_class :
  forall b : nat, 128 <= b -> b < 256 -> Utils.is_printable b = false /\ Utils.is_dec_digit b = false /\ Utils.is_hex_digit b = false.
Proof. exact @high_bytes_no_class. Qed.
Print Assumptions C17_high_bytes_belong_to_no_class.
