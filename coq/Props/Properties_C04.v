(* C04 - Tokenisation is longest-match over all terms with first-listed priority. Theorems only. *)
Require Import Ctpg.Base.Prelude Ctpg.Model.Driver Ctpg.Model.Dfa Ctpg.Spec.Lang Ctpg.Valid.DfaValid Ctpg.Proofs.DfaValidSound.

(* for every validated lexer automaton and every byte string, dfa_match returns the longest prefix matched by some term,
   with the least index among the terms matching that prefix (None when no prefix matches) *)
Theorem C04_validated : forall sm terms s,
  lexer_ok sm terms = true -> bytes_ok s ->
  is_longest_match terms s (snd (dfa_match sm false sp0 s)).
Proof. exact lexer_ok_sound. Qed.

(* the verdict of the generated lexer does not depend on the verbose flag nor on the source point it is given *)
Theorem C04_verdict_independent : forall sm v1 v2 p1 p2 s, snd (dfa_match sm v1 p1 s) = snd (dfa_match sm v2 p2 s).
Proof. exact dfa_match_verdict_independent. Qed.

Print Assumptions C04_validated.
Print Assumptions C04_verdict_independent.
