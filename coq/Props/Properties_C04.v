(* C04 - Tokenisation is longest-match over all terms with first-listed priority. Theorems only. *)
Require Import Ctpg.Base.Prelude Ctpg.Model.Driver Ctpg.Model.Dfa Ctpg.Spec.Lang Ctpg.Valid.DfaValid Ctpg.Proofs.DfaValidSound.

(* for every validated lexer automaton and every byte string, dfa_match returns the longest prefix matched by some term,
   with the least index among the terms matching that prefix (None when no prefix matches) *)
Theorem C04_validated : forall sm terms s,
  lexer_ok sm terms = true -> bytes_ok s ->
  is_longest_match terms s (snd (dfa_match sm false sp0 s)).
Proof. exact lexer_ok_sound. Qed.

(* the verdict of the generated lexer does not depend on the verbose flag nor on the source point it is given *)
Theorem C04_verdict_independent : forall sm v1 v2 p1 p2 s, snd (dfa_match sm v1 p1 s) = snd (dfa_match sm v2 p2 s).
Proof. exact dfa_match_verdict_independent. Qed.

Print Assumptions C04_validated.
Print Assumptions C04_verdict_independent.

(* THE BUILDER ITSELF, for the term sets that contain only character terms and string terms (keywords, punctuation; duplicates,
   empty strings and more than four equal terms allowed): create_lexer always succeeds and the automaton it builds - a trie, one path
   per state - satisfies the conclusion of C04_validated for every input, with no per-instance check. (With regex terms the builder is
   wrong on some patterns: known finding D4; those term sets are covered by the per-instance obligation lexer_ok.) *)
Require Import Ctpg.Proofs.TrieLexerChain Ctpg.Proofs.TrieLexer.
Theorem C04_keyword_and_punctuation_lexers_are_correct : forall ts,
  Forall is_plain ts ->
  exists sm, create_lexer ts = Some sm /\
             forall s, bytes_ok s -> is_longest_match ts s (snd (dfa_match sm false sp0 s)).
Proof. exact plain_lexer_correct. Qed.
Print Assumptions C04_keyword_and_punctuation_lexers_are_correct.

Theorem C04_plain_lexer_never_out_of_range : forall ts sm s,
  Forall is_plain ts -> ts <> [] -> create_lexer ts = Some sm -> dfa_match_oob sm s = false.
Proof. exact plain_lexer_no_oob. Qed.
Print Assumptions C04_plain_lexer_never_out_of_range.

(* ---- namespace stdex / utils below the model (appended by tools/append_props.py) *)
Require Import Ctpg.Base.Prelude.
Require Import Ctpg.Model.Grammar.
Require Import Ctpg.Model.Containers.
Require Import Ctpg.Model.Utils.
Require Import Ctpg.Proofs.ContainersBits.
Require Import Ctpg.Proofs.ContainersVec.
Require Import Ctpg.Proofs.ContainersSort.
Require Import Ctpg.Proofs.UtilsCorrect.
Require Import Ctpg.Model.Driver.
Require Import Ctpg.Proofs.UtilsDriverLink.

(* skip_whitespace asks utils::find_char(byte, table): a NUL byte is never found in a NUL-terminated table - embedded NULs are not skipped *)
Theorem C04_nul_is_never_whitespace :
  forall s rest : list nat, nul_free s -> find_char 0 (s ++ 0 :: rest) 0 = Ok None.
Proof. exact @find_char_nul. Qed.
Print Assumptions C04_nul_is_never_whitespace.

(* for every other byte, found <-> the byte is one of the table's characters *)
Theorem C04_whitespace_test_is_membership_in_the_table :
  forall (c : nat) (s rest : list nat), nul_free s -> c <> 0 -> (exists k : nat, find_char c (s ++ 0 :: rest) 0 = Ok (Some k)) <-> In c s.
Proof. exact @find_char_member. Qed.
Print Assumptions C04_whitespace_test_is_membership_in_the_table.

(* the result depends only on the string up to its terminator *)
Theorem C04_find_char_reads_nothing_behind_the_terminator :
  forall (c : nat) (s rest : list nat) (i : nat), nul_free s -> find_char c (s ++ 0 :: rest) i = Ok (if c =? 0 then None else index_of c s i).
Proof. exact @find_char_spec. Qed.
Print Assumptions C04_find_char_reads_nothing_behind_the_terminator.

(* LINK: the driver model's is_ws (membership in the list the options select) is exactly 'find_char(byte, NUL-terminated table) found something', for every byte and every option set - so the theorems about skipping (C04, C10, C18) speak about the real test *)
Theorem C04_the_driver_models_whitespace_test_is_the_real_one :
  forall (o : options) (b : nat) (rest : list nat), is_ws o b = true <-> (exists k : nat, find_char b (ws_table o ++ 0 :: rest) 0 = Ok (Some k)).
Proof. exact @is_ws_is_find_char. Qed.
Print Assumptions C04_the_driver_models_whitespace_test_is_the_real_one.
