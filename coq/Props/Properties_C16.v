(* C16 - Verbosity and stream choice never change the outcome; the trace is truthful. Theorems only. *)
Require Import Ctpg.Base.Prelude Ctpg.Model.Grammar Ctpg.Model.LRGen Ctpg.Model.Driver Ctpg.Proofs.DriverVerbose.

(* For every grammar, table, input, whitespace options, stack capacity, functors and fuel, and every lexer whose verdict
   does not depend on the verbose flag: result, final configuration (stacks, position, context) are identical with
   verbose on and off, and the lines written with verbose off are exactly the non-verbose lines of the verbose run. *)
Theorem C16_outcome_and_messages :
  forall (V C : Type) g tbl ws nl buf cap lexer term_f err_f rule_f,
    (forall p r, snd (lexer true p r) = snd (lexer false p r)) ->
    forall fuel c,
      let '(rv, sv, outv) := run V C g tbl (ov ws nl) buf cap lexer term_f err_f rule_f fuel c in
      let '(rq, sq, outq) := run V C g tbl (oq ws nl) buf cap lexer term_f err_f rule_f fuel c in
      rv = rq /\ sv = sq /\ filter is_nonverbose outv = outq.
Proof. exact verbose_irrelevant. Qed.
Print Assumptions C16_outcome_and_messages.
