(* C02 - The parse result is the bottom-up evaluation of the input's derivation tree. Theorems only: each statement is printed by Coq from the lemma it is closed with. *)
Require Import Ctpg.Base.Prelude.
Require Import Ctpg.Model.Grammar.
Require Import Ctpg.Model.LRGen.
Require Import Ctpg.Model.Driver.
Require Import Ctpg.Model.Dfa.
Require Import Ctpg.Model.RegexFront.
Require Import Ctpg.Model.Diag.
Require Import Ctpg.Spec.Cfg.
Require Import Ctpg.Spec.LRSpec.
Require Import Ctpg.Spec.Lang.
Require Import Ctpg.Spec.Eval.
Require Import Ctpg.Spec.Conflict.
Require Import Ctpg.Valid.LRValid.
Require Import Ctpg.Valid.DfaValid.
Require Import Ctpg.Valid.SpecMatch.
Require Import Ctpg.Proofs.DriverBasics.
Require Import Ctpg.Proofs.DriverEval.
Require Import Ctpg.Proofs.LRSound.
Require Import Ctpg.Proofs.LRComplete.
Require Import Ctpg.Model.Buffers.
Require Import Ctpg.Proofs.BuffersCorrect.
Require Import Ctpg.Model.Containers.
Require Import Ctpg.Proofs.StackVectorLink.
From Coq Require Import Permutation.

(* for every algebra of functors: when no stack pop by recovery happened, the value stack is the bottom-up, left-to-right evaluation of the tree stack, the final context is the one threaded through that evaluation, and the functor calls are the post-order of the trees *)
Theorem C02_value_is_bottom_up_evaluation :
  forall (V C : Type) (g : grammar) (tbl : LRGen.table) (opts : options) (buf : list nat) (cap : option nat) (lexer : bool -> spoint -> list nat -> list lex_event * option (nat * nat)) (term_f : nat -> nat -> nat -> spoint -> V) (err_f : spoint -> V) (rule_f : nat -> C -> list V -> C * V) (c0 : C) (fuel : nat), o_verbose opts = true -> let '(rT, sT, outT) := run ptree (list (nat * list ptree)) g tbl opts buf cap lexer tree_term_f tree_err_f tree_rule_f fuel [] in let '(rA, sA, _) := run V C g tbl opts buf cap lexer term_f err_f rule_f fuel c0 in (forall e : event, In e outT -> is_pop_ev e = false) -> eval_list V C term_f err_f rule_f (rev (ps_values sT)) c0 = (ps_ctx sA, rev (ps_values sA)) /\ ps_ctx sT = flat_map post_calls (rev (ps_values sT)) /\ (forall t : ptree, rT = Accept t -> exists v : V, rA = Accept v /\ snd (eval V C term_f err_f rule_f t c0) = v /\ (ps_values sT = [t] -> eval V C term_f err_f rule_f t c0 = (ps_ctx sA, v) /\ ps_ctx sT = post_calls t)).
Proof. exact @run_tree_eval. Qed.
Print Assumptions C02_value_is_bottom_up_evaluation.

(* each rule functor is called exactly once per tree node, after all of its children, with the children's values in right-side order *)
Theorem C02_calls_postorder :
  forall (g : grammar) (tbl : LRGen.table) (opts : options) (buf : list nat) (cap : option nat) (lexer : bool -> spoint -> list nat -> list lex_event * option (nat * nat)) (fuel : nat), o_verbose opts = true -> let '(rT, sT, outT) := run ptree (list (nat * list ptree)) g tbl opts buf cap lexer tree_term_f tree_err_f tree_rule_f fuel [] in (forall e : event, In e outT -> is_pop_ev e = false) -> ps_ctx sT = flat_map post_calls (rev (ps_values sT)) /\ (forall t : ptree, rT = Accept t -> ps_values sT = [t] -> ps_ctx sT = post_calls t).
Proof. exact @calls_postorder_verbose. Qed.
Print Assumptions C02_calls_postorder.

(* the driver's control path, output and stack shape do not depend on the functors *)
Theorem C02_same_path_for_every_algebra :
  forall (V C : Type) (g : grammar) (tbl : LRGen.table) (opts : options) (buf : list nat) (cap : option nat) (lexer : bool -> spoint -> list nat -> list lex_event * option (nat * nat)) (term_f : nat -> nat -> nat -> spoint -> V) (err_f : spoint -> V) (rule_f : nat -> C -> list V -> C * V) (c0 : C) (fuel : nat), let '(rT, sT, outT) := run ptree (list (nat * list ptree)) g tbl opts buf cap lexer tree_term_f tree_err_f tree_rule_f fuel [] in let '(rA, sA, outA) := run V C g tbl opts buf cap lexer term_f err_f rule_f fuel c0 in res_shape rT = res_shape rA /\ st_shape sT = st_shape sA /\ outT = outA.
Proof. exact @run_same_path. Qed.
Print Assumptions C02_same_path_for_every_algebra.

(* for functors that ignore the context the values are evaluations of the trees even across recovery *)
Theorem C02_context_free_functors :
  forall (V C : Type) (g : grammar) (tbl : LRGen.table) (opts : options) (buf : list nat) (cap : option nat) (lexer : bool -> spoint -> list nat -> list lex_event * option (nat * nat)) (term_f : nat -> nat -> nat -> spoint -> V) (err_f : spoint -> V) (rule_f : nat -> C -> list V -> C * V) (f : nat -> list V -> V), (forall (r : nat) (c : C) (args : list V), rule_f r c args = (c, f r args)) -> forall (c0 : C) (fuel : nat), let '(rT, sT, outT) := run ptree (list (nat * list ptree)) g tbl opts buf cap lexer tree_term_f tree_err_f tree_rule_f fuel [] in let '(rA, sA, outA) := run V C g tbl opts buf cap lexer term_f err_f rule_f fuel c0 in rA = map_res (value_of V C term_f err_f rule_f c0) rT /\ ps_values sA = map (value_of V C term_f err_f rule_f c0) (ps_values sT) /\ ps_ctx sA = c0 /\ st_shape sA = st_shape sT /\ outA = outT.
Proof. exact @run_tree_eval_ctx_free. Qed.
Print Assumptions C02_context_free_functors.

(* the derivation tree of an input of a validated table is unique *)
Theorem C02_unique_tree :
  forall (g : grammar) (sts : list items) (tbl : LRGen.table) (w : list nat) (t1 t2 : tree), validate g sts tbl = true -> no_error_symbol g tbl = true -> tokens_ok g w -> derives_tree g t1 w -> derives_tree g t2 w -> t1 = t2.
Proof. exact @lr_unique. Qed.
Print Assumptions C02_unique_tree.

(* 'a term's value being its functor applied to its lexeme': the lexeme of string_buffer (and by C07_buffer_kinds_present_the_same_lexemes of every kind) is the slice of the buffer's own text *)
Theorem C02_a_terms_lexeme_is_the_slice_of_the_text :
  forall (text : list nat) (s e : nat), s <= e -> e <= length text -> sb_get_view {| sb_str := text |} s e = Ok (slice text s e).
Proof. exact @sb_view_spec. Qed.
Print Assumptions C02_a_terms_lexeme_is_the_slice_of_the_text.

(* LINK (value stack): the n values a reduction reads from the cvector / vector starting at end() - n are the driver model's rev (firstn n values): the children's values in right-side order *)
Theorem C02_reduction_arguments_on_the_vector_are_in_right_side_order :
  forall (A : Type) (c : cvector A) (l : list A) (n : nat), stack_rel c l -> n <= length l -> skipn (length l - n) (cv_abs c) = rev (firstn n l).
Proof. exact @arg_order_sim. Qed.
Print Assumptions C02_reduction_arguments_on_the_vector_are_in_right_side_order.
