(* C10 - Source points are the true line and column of each term. Theorems only: each statement is printed by Coq from the lemma it is closed with. *)
Require Import Ctpg.Base.Prelude.
Require Import Ctpg.Model.Grammar.
Require Import Ctpg.Model.LRGen.
Require Import Ctpg.Model.Driver.
Require Import Ctpg.Model.Dfa.
Require Import Ctpg.Model.RegexFront.
Require Import Ctpg.Model.Diag.
Require Import Ctpg.Spec.Cfg.
Require Import Ctpg.Spec.LRSpec.
Require Import Ctpg.Spec.Lang.
Require Import Ctpg.Spec.Eval.
Require Import Ctpg.Spec.Conflict.
Require Import Ctpg.Valid.LRValid.
Require Import Ctpg.Valid.DfaValid.
Require Import Ctpg.Valid.SpecMatch.
Require Import Ctpg.Proofs.DriverBasics.
Require Import Ctpg.Proofs.DriverPos.
From Coq Require Import Permutation.

(* source_point::update over a slice moves the true position of its start to the true position of its end *)
Theorem C10_update_is_true_position :
  forall (buf : list nat) (i j : nat), i <= j <= length buf -> sp_update (true_pos buf i) (slice_of buf i j) = true_pos buf j.
Proof. exact sp_update_true_pos. Qed.
Print Assumptions C10_update_is_true_position.

(* in every run the current source point is the true position of the current offset, and every position carried by a trace line or message is the true position of the offset it refers to (Shift lines: the term's first byte; Unexpected character: the offending byte) *)
Theorem C10_positions_in_every_event_and_state :
  forall (V C : Type) (g : grammar) (tbl : LRGen.table) (opts : options) (buf : list nat) (cap : option nat) (lexer : bool -> spoint -> list nat -> list lex_event * option (nat * nat)) (term_f : nat -> nat -> nat -> spoint -> V) (err_f : spoint -> V) (rule_f : nat -> C -> list V -> C * V), (forall (v : bool) (p : spoint) (rest : list nat) (t len : nat), snd (lexer v p rest) = Some (t, len) -> len <= length rest) -> eof_err_not_shifted g tbl \/ o_skip_ws opts = false -> forall (fuel : nat) (c : C), let '(r, s, out) := run V C g tbl opts buf cap lexer term_f err_f rule_f fuel c in ps_sp s = true_pos buf (ps_it s) /\ ps_it s <= length buf /\ ps_end s <= length buf /\ (r = OutOfFuel -> ps_it s <= ps_end s \/ ps_term s = Some (eof_idx g)) /\ Forall (event_pos_ok buf) out.
Proof. exact run_pos. Qed.
Print Assumptions C10_positions_in_every_event_and_state.

(* every term value handed to a functor carries the true position of its lexeme's first byte, and the lexeme lies inside the buffer *)
Theorem C10_term_values_carry_true_positions :
  forall (g : grammar) (tbl : LRGen.table) (opts : options) (buf : list nat) (cap : option nat) (lexer : bool -> spoint -> list nat -> list lex_event * option (nat * nat)), (forall (v : bool) (p : spoint) (rest : list nat) (t len : nat), snd (lexer v p rest) = Some (t, len) -> len <= length rest) -> eof_err_not_shifted g tbl \/ o_skip_ws opts = false -> forall fuel : nat, let '(r, s, _) := run ptree (list (nat * list ptree)) g tbl opts buf cap lexer tree_term_f tree_err_f tree_rule_f fuel [] in forall (t a l0 : nat) (p0 : spoint), (exists tr : ptree, (In tr (ps_values s) \/ r = Accept tr \/ (exists c : nat * list ptree, In c (ps_ctx s) /\ In tr (snd c))) /\ occurs (PLeaf t a l0 p0) tr) -> p0 = true_pos buf a /\ a + l0 <= length buf.
Proof. exact run_leaf_pos_occ. Qed.
Print Assumptions C10_term_values_carry_true_positions.
