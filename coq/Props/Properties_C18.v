(* C18 - A custom lexer drives the parser under the same contract as the generated one. Theorems only: each statement is printed by Coq from the lemma it is closed with. *)
Require Import Ctpg.Base.Prelude.
Require Import Ctpg.Model.Grammar.
Require Import Ctpg.Model.LRGen.
Require Import Ctpg.Model.Driver.
Require Import Ctpg.Model.Dfa.
Require Import Ctpg.Model.RegexFront.
Require Import Ctpg.Model.Diag.
Require Import Ctpg.Spec.Cfg.
Require Import Ctpg.Spec.LRSpec.
Require Import Ctpg.Spec.Lang.
Require Import Ctpg.Spec.Eval.
Require Import Ctpg.Spec.Conflict.
Require Import Ctpg.Valid.LRValid.
Require Import Ctpg.Valid.DfaValid.
Require Import Ctpg.Valid.SpecMatch.
Require Import Ctpg.Proofs.DriverBasics.
Require Import Ctpg.Proofs.DriverPos.
Require Import Ctpg.Proofs.DriverTokens.
Require Import Ctpg.Model.Buffers.
Require Import Ctpg.Proofs.BuffersCorrect.
Require Import Ctpg.Model.Containers.
From Coq Require Import Permutation.

(* whenever the driver consults the lexer it does so at the end of the tokens consumed so far, after the option-dependent whitespace skip, with the true source point, and interprets the answer as the next token, end of input or failure of the token stream *)
Theorem C18_lexer_consulted_exactly_at_token_boundaries :
  forall (V C : Type) (g : grammar) (tbl : LRGen.table) (opts : options) (buf : list nat) (lexer : lexer_t), lexer_in_range lexer -> eof_err_not_shifted g tbl \/ sp_indep lexer -> forall s : pstate V C, tok_inv V C g opts buf lexer s -> sp_inv V C g tbl buf s -> ps_rec s = false -> ps_it s = ps_end s -> exists pre : list (nat * nat * nat), consumed_upto opts buf lexer pre (ps_it s) /\ (let start := ps_it s + wsk opts buf (ps_it s) in let sp1 := sp_update (ps_sp s) (slice_of buf (ps_it s) start) in match skipn start buf with | [] => forall F : nat, tokenize (S F) opts lexer buf (ps_it s) = ([], TokEof start) | c :: rest => snd (lexer (o_verbose opts) sp1 (c :: rest)) = snd (lexer (o_verbose opts) (true_pos buf start) (c :: rest)) /\ match snd (lexer (o_verbose opts) sp1 (c :: rest)) with | Some (t, len) => next_tok opts buf lexer (ps_it s) (t, start, len) | None => forall F : nat, tokenize (S F) opts lexer buf (ps_it s) = ([], TokFail start) end end).
Proof. exact @consult_at_token_boundary. Qed.
Print Assumptions C18_lexer_consulted_exactly_at_token_boundaries.

(* two lexers that define the same token stream on a buffer (in particular a custom lexer and the generated one) give identical results, final stacks, contexts and parser trace lines *)
Theorem C18_same_token_stream_same_parse :
  forall (V C : Type) (g : grammar) (tbl : LRGen.table) (opts : options) (buf : list nat) (cap : option nat) (lexer1 lexer2 : lexer_t) (term_f : nat -> nat -> nat -> spoint -> V) (err_f : spoint -> V) (rule_f : nat -> C -> list V -> C * V), lexer_in_range lexer1 -> eof_err_not_shifted g tbl \/ sp_indep lexer1 /\ sp_indep lexer2 -> (forall F : nat, tokenize F opts lexer1 buf 0 = tokenize F opts lexer2 buf 0) -> forall (fuel : nat) (c : C), let '(r1, s1, out1) := run V C g tbl opts buf cap lexer1 term_f err_f rule_f fuel c in let '(r2, s2, out2) := run V C g tbl opts buf cap lexer2 term_f err_f rule_f fuel c in r1 = r2 /\ s1 = s2 /\ non_lex out1 = non_lex out2.
Proof. exact @same_tokens_same_run. Qed.
Print Assumptions C18_same_token_stream_same_parse.

(* the terms the driver shifted or discarded are exactly a prefix of the token stream *)
Theorem C18_tokens_consumed_are_a_prefix_of_the_stream :
  forall (V C : Type) (g : grammar) (tbl : LRGen.table) (opts : options) (buf : list nat) (cap : option nat) (lexer : lexer_t) (term_f : nat -> nat -> nat -> spoint -> V) (err_f : spoint -> V) (rule_f : nat -> C -> list V -> C * V), lexer_in_range lexer -> eof_err_not_shifted g tbl \/ sp_indep lexer -> forall (fuel : nat) (c : C), let '(r, s, _, vis) := run_gh V C g tbl opts buf cap lexer term_f err_f rule_f fuel (init c) [] [] in r = OutOfFuel -> exists pos : nat, consumed_upto opts buf lexer (consumed_toks V C g tbl opts buf cap lexer term_f err_f rule_f vis) pos /\ tok_at V C g opts buf lexer pos s.
Proof. exact @run_tok_inv_gh. Qed.
Print Assumptions C18_tokens_consumed_are_a_prefix_of_the_stream.

(* 'passes that slice': get_view(begin + s, begin + e) is exactly the bytes s..e of the caller's text *)
Theorem C18_the_slice_handed_to_the_term_functor :
  forall (b : string_view_buffer) (s e : nat), svb_wf b -> s <= e -> e <= sv_len b -> svb_get_view b (svb_begin b + s) (svb_begin b + e) = Ok (slice (svb_text b) s e).
Proof. exact @svb_view_spec. Qed.
Print Assumptions C18_the_slice_handed_to_the_term_functor.

(* consecutive lexemes concatenate to the text between their ends: consuming exactly the returned length loses and repeats nothing *)
Theorem C18_consecutive_lexemes_tile_the_text :
  forall (text : list nat) (a b c : nat), a <= b -> b <= c -> c <= length text -> slice text a b ++ slice text b c = slice text a c.
Proof. exact @slice_concat. Qed.
Print Assumptions C18_consecutive_lexemes_tile_the_text.
