(* C09 - Failures are reported once, at the right place, and never silently. Theorems only: each statement is printed by Coq from the lemma it is closed with. *)
Require Import Ctpg.Base.Prelude.
Require Import Ctpg.Model.Grammar.
Require Import Ctpg.Model.LRGen.
Require Import Ctpg.Model.Driver.
Require Import Ctpg.Model.Dfa.
Require Import Ctpg.Model.RegexFront.
Require Import Ctpg.Model.Diag.
Require Import Ctpg.Spec.Cfg.
Require Import Ctpg.Spec.LRSpec.
Require Import Ctpg.Spec.Lang.
Require Import Ctpg.Spec.Eval.
Require Import Ctpg.Spec.Conflict.
Require Import Ctpg.Valid.LRValid.
Require Import Ctpg.Valid.DfaValid.
Require Import Ctpg.Valid.SpecMatch.
Require Import Ctpg.Proofs.DriverBasics.
Require Import Ctpg.Proofs.DriverPos.
Require Import Ctpg.Proofs.ReportOne.
Require Import Ctpg.Proofs.ReportLang.
Require Import Ctpg.Proofs.ReportLazy.
Require Import Ctpg.Proofs.ReportViable.
Require Import Ctpg.Proofs.ReportHalt.
Require Import Ctpg.Proofs.ReportCex.
Require Import Ctpg.Proofs.LRComplete.
Require Import Ctpg.Valid.LRProductive.
Require Import Ctpg.Proofs.TermViable.
Require Import Ctpg.Proofs.TermAll.
From Coq Require Import Permutation.

(* without error rules a quiet parse writes nothing on success and exactly one message on failure *)
Theorem C09_one_message :
  forall (V C : Type) (g : grammar) (tbl : LRGen.table) (opts : options) (buf : list nat) (cap : option nat) (lexer : bool -> spoint -> list nat -> list lex_event * option (nat * nat)) (term_f : nat -> nat -> nat -> spoint -> V) (err_f : spoint -> V) (rule_f : nat -> C -> list V -> C * V), no_error_symbol g tbl = true -> forall (fuel : nat) (c : C), o_verbose opts = false -> let '(r, _, out) := run V C g tbl opts buf cap lexer term_f err_f rule_f fuel c in length out <= 1 /\ (forall v : V, r = Accept v -> out = []) /\ (shifterr_only_err_col g tbl -> r = Reject -> exists (p0 : spoint) (x : nat), out = [EvSyntaxError p0 x] \/ out = [EvUnexpectedChar p0 x]).
Proof. exact one_message_quiet. Qed.
Print Assumptions C09_one_message.

(* the same count among the verbose lines *)
Theorem C09_one_message_any_verbosity :
  forall (V C : Type) (g : grammar) (tbl : LRGen.table) (opts : options) (buf : list nat) (cap : option nat) (lexer : bool -> spoint -> list nat -> list lex_event * option (nat * nat)) (term_f : nat -> nat -> nat -> spoint -> V) (err_f : spoint -> V) (rule_f : nat -> C -> list V -> C * V), no_error_symbol g tbl = true -> forall (fuel : nat) (c : C), let '(r, _, out) := run V C g tbl opts buf cap lexer term_f err_f rule_f fuel c in length (nv out) <= 1 /\ (forall v : V, r = Accept v -> nv out = []) /\ (shifterr_only_err_col g tbl -> r = Reject -> exists e : event, nv out = [e]).
Proof. exact one_message. Qed.
Print Assumptions C09_one_message_any_verbosity.

(* the message carries the true position, and Unexpected character names the byte at that position *)
Theorem C09_message_position_and_byte :
  forall (V C : Type) (g : grammar) (tbl : LRGen.table) (opts : options) (buf : list nat) (cap : option nat) (lexer : bool -> spoint -> list nat -> list lex_event * option (nat * nat)) (term_f : nat -> nat -> nat -> spoint -> V) (err_f : spoint -> V) (rule_f : nat -> C -> list V -> C * V), (forall (v : bool) (p : spoint) (rest : list nat) (t len : nat), snd (lexer v p rest) = Some (t, len) -> len <= length rest) -> eof_err_not_shifted g tbl \/ o_skip_ws opts = false -> forall (fuel : nat) (c : C), let '(_, _, out) := run V C g tbl opts buf cap lexer term_f err_f rule_f fuel c in forall e : event, In e (nv out) -> match e with | EvSyntaxError p0 _ => exists k : nat, k <= length buf /\ p0 = true_pos buf k | EvUnexpectedChar p0 ch => exists k : nat, k < length buf /\ p0 = true_pos buf k /\ nth_error buf k = Some ch | _ => False end.
Proof. exact one_message_pos. Qed.
Print Assumptions C09_message_position_and_byte.

(* a lexical failure ends the parse immediately; it is the last line *)
Theorem C09_unexpected_character_stops_at_once :
  forall (V C : Type) (g : grammar) (tbl : LRGen.table) (opts : options) (buf : list nat) (cap : option nat) (lexer : bool -> spoint -> list nat -> list lex_event * option (nat * nat)) (term_f : nat -> nat -> nat -> spoint -> V) (err_f : spoint -> V) (rule_f : nat -> C -> list V -> C * V), no_error_symbol g tbl = true -> forall (fuel : nat) (c : C), let '(r, _, out, vis) := run_gh V C g tbl opts buf cap lexer term_f err_f rule_f fuel (init c) [] [] in forall (p1 : spoint) (ch : nat), In (EvUnexpectedChar p1 ch) out -> r = Reject /\ (exists pre : list event, out = pre ++ [EvUnexpectedChar p1 ch] /\ nv pre = []) /\ Forall (fun s : pstate V C => ps_rec s = false) vis.
Proof. exact unexpected_char_stops. Qed.
Print Assumptions C09_unexpected_character_stops_at_once.

(* immediate error detection: when the syntax error names term a after prefix u, no sentence has the prefix u ++ [a] (and at end of input the input is not a sentence) *)
Theorem C09_error_not_later_than_necessary :
  forall (g : grammar) (sts : list items) (tbl : LRGen.table) (w : list nat) (fuel : nat), validate g sts tbl = true -> no_error_symbol g tbl = true -> LRSound.tokens_ok g w -> let '(_, _, _, vis) := run_gh tree unit g tbl tree_opts w None id_lexer LRMachine.tf (LRMachine.ef g) LRMachine.rlf fuel (init tt) [] [] in forall (se : pstate tree unit) (p1 : spoint) (t : nat), In se vis -> In (EvSyntaxError p1 t) (snd (step tree unit g tbl tree_opts w None id_lexer LRMachine.tf (LRMachine.ef g) LRMachine.rlf se)) -> let k := ps_it se in k <= length w /\ p1 = true_pos w k /\ t = LRMachine.look g (skipn k w) /\ (exists (ss : list nat) (trs : list tree), reach g tbl w (ss, trs, skipn k w) /\ err_cell g tbl (ss, trs, skipn k w)) /\ (forall (a : nat) (v : list nat), skipn k w = a :: v -> forall (v' : list nat) (tr : tree), LRSound.tokens_ok g v' -> ~ derives_tree g tr (firstn k w ++ a :: v')) /\ (skipn k w = [] -> ~ derives g w).
Proof. exact error_not_later_than_necessary. Qed.
Print Assumptions C09_error_not_later_than_necessary.

(* reported before any later input is examined *)
Theorem C09_lexer_not_consulted_beyond_the_offending_term :
  forall (V C : Type) (g : grammar) (tbl : LRGen.table) (opts : options) (buf : list nat) (cap : option nat) (lexer : DriverTokens.lexer_t) (term_f : nat -> nat -> nat -> spoint -> V) (err_f : spoint -> V) (rule_f : nat -> C -> list V -> C * V), lexer_in_range lexer -> eof_err_not_shifted g tbl \/ DriverTokens.sp_indep lexer -> forall (fuel : nat) (c : C), let '(_, _, _, vis) := run_gh V C g tbl opts buf cap lexer term_f err_f rule_f fuel (init c) [] [] in forall (se : pstate V C) (p1 : spoint) (t : nat), In se vis -> enter_step V C g tbl opts buf cap lexer term_f err_f rule_f se p1 t -> exists (s1 : pstate V C) (ev1 : list event) (pre : list (nat * nat * nat)) (pos : nat), get_current_term V C g opts buf lexer se = (s1, Some t, ev1) /\ DriverTokens.consumed_upto opts buf lexer pre pos /\ ((exists start len : nat, DriverTokens.next_tok opts buf lexer pos (t, start, len) /\ ps_it s1 = start /\ ps_end s1 = start + len) \/ t = eof_idx g /\ skipn (pos + wsk opts buf pos) buf = [] /\ ps_it s1 = pos + wsk opts buf pos /\ ps_end s1 = pos).
Proof. exact syntax_error_lexer_lazy. Qed.
Print Assumptions C09_lexer_not_consulted_beyond_the_offending_term.

(* empty result exactly when the input is not in the language (for runs that halt; halting on every non-sentence is not proved) *)
Theorem C09_reject_iff_not_in_language_for_halting_runs :
  forall (g : grammar) (sts : list items) (tbl : LRGen.table) (w : list nat), validate g sts tbl = true -> closure_generated g sts -> no_error_symbol g tbl = true -> LRSound.tokens_ok g w -> (exists fuel : nat, tree_run g tbl w fuel <> OutOfFuel) -> (exists fuel : nat, tree_run g tbl w fuel = Reject) <-> ~ derives g w.
Proof. exact reject_iff_not_in_language_halting. Qed.
Print Assumptions C09_reject_iff_not_in_language_for_halting_runs.

(* never silently, unconditionally: for a table that passes term_checks and has no error rules, some fuel decides - derivable inputs are accepted with their tree, all others are rejected (and rejected runs write their one message, C09_one_message) *)
Theorem C09_reject_iff_not_in_language :
  forall (g : grammar) (sts : list items) (tbl : LRGen.table) (w : list nat), term_checks g sts tbl = true -> no_error_symbol g tbl = true -> LRSound.tokens_ok g w -> exists fuel : nat, forall fuel' : nat, fuel <= fuel' -> (derives g w -> exists t : tree, tree_run g tbl w fuel' = Accept t /\ derives_tree g t w) /\ (~ derives g w -> tree_run g tbl w fuel' = Reject).
Proof. exact decides_language_checked. Qed.
Print Assumptions C09_reject_iff_not_in_language.

(* every outcome is: accepted with a derivation tree, rejected and not derivable, or out of fuel *)
Theorem C09_every_outcome :
  forall (g : grammar) (sts : list items) (tbl : LRGen.table) (w : list nat), validate g sts tbl = true -> closure_generated g sts -> no_error_symbol g tbl = true -> LRSound.tokens_ok g w -> forall fuel : nat, (exists t : tree, tree_run g tbl w fuel = Accept t /\ derives_tree g t w) \/ tree_run g tbl w fuel = Reject /\ ~ derives g w \/ tree_run g tbl w fuel = OutOfFuel.
Proof. exact tree_run_outcomes. Qed.
Print Assumptions C09_every_outcome.

(* the 'not earlier' half for productive grammars: what has been shifted is a prefix of a sentence *)
Theorem C09_shifted_prefix_is_viable_partial :
  forall (g : grammar) (sts : list items) (tbl : LRGen.table) (w ss : list nat) (trs : list tree) (rest : list nat), validate g sts tbl = true -> closure_generated g sts -> states_nonempty sts -> productive g -> LRSound.tokens_ok g w -> reach g tbl w (ss, trs, rest) -> let u := flat_map yield (rev trs) in (exists k : nat, u ++ rest = w ++ repeat (eof_idx g) k) /\ sentence_prefix g u.
Proof. exact shifted_prefix_viable_partial. Qed.
Print Assumptions C09_shifted_prefix_is_viable_partial.

(* REFUTED in general (known finding NP): a validated table can shift a term no sentence continues *)
Theorem C09_nonproductive_refuted :
  validate g2 sts2 tbl2 = true /\ no_error_symbol g2 tbl2 = true /\ LRSound.tokens_ok g2 [1] /\ productive g2 /\ LRMachine.msteps g2 tbl2 1 ([0], [], [1]) ([2; 0], [Leaf 1], []) /\ ~ sentence_prefix g2 [1].
Proof. exact shifted_prefix_not_viable. Qed.
Print Assumptions C09_nonproductive_refuted.

(* ---- namespace stdex / utils below the model (appended by tools/append_props.py) *)
Require Import Ctpg.Base.Prelude.
Require Import Ctpg.Model.Grammar.
Require Import Ctpg.Model.Containers.
Require Import Ctpg.Model.Utils.
Require Import Ctpg.Proofs.ContainersBits.
Require Import Ctpg.Proofs.ContainersVec.
Require Import Ctpg.Proofs.ContainersSort.
Require Import Ctpg.Proofs.UtilsCorrect.

(* utils::char_names (the byte printed by 'Unexpected character'): printable bytes 33..126 are themselves, every other byte (space, control, >= 0x80) is \\xHH in upper-case hex *)
Theorem C09_byte_names_in_messages :
  forall b : nat, b < 256 -> char_name b = (if (32 <? b) && (b <? 127) then [b; 0] else [92; 120; hex_digit_char (b / 16); hex_digit_char (b mod 16); 0]).
Proof. exact @char_name_spec. Qed.
Print Assumptions C09_byte_names_in_messages.

(* distinct bytes have distinct names *)
Theorem C09_byte_names_identify_the_byte :
  forall a b : nat, a < 256 -> b < 256 -> char_name a = char_name b -> a = b.
Proof. exact @char_name_injective. Qed.
Print Assumptions C09_byte_names_identify_the_byte.
