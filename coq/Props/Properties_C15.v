(* C15 - A parser object is immutable: parses are independent and thread-safe. Theorems only: each statement is printed by Coq from the lemma it is closed with. *)
Require Import Ctpg.Base.Prelude.
Require Import Ctpg.Model.Grammar.
Require Import Ctpg.Model.LRGen.
Require Import Ctpg.Model.Driver.
Require Import Ctpg.Model.Dfa.
Require Import Ctpg.Model.RegexFront.
Require Import Ctpg.Model.Diag.
Require Import Ctpg.Spec.Cfg.
Require Import Ctpg.Spec.LRSpec.
Require Import Ctpg.Spec.Lang.
Require Import Ctpg.Spec.Eval.
Require Import Ctpg.Spec.Conflict.
Require Import Ctpg.Valid.LRValid.
Require Import Ctpg.Valid.DfaValid.
Require Import Ctpg.Valid.SpecMatch.
Require Import Ctpg.Model.FrameFacts.
Require Import Ctpg.Proofs.Conc.
From Coq Require Import Permutation.

(* regenerated from ctpg.hpp on every run: every member function on the parse / diagnostics path is const, no mutable, const_cast, thread_local or non-const static data, library globals are constexpr, the custom lexer instance is a local *)
Theorem C15_frame_condition_holds_on_the_source :
  frame_ok = true.
Proof. exact frame_holds. Qed.
Print Assumptions C15_frame_condition_holds_on_the_source.

(* after any interleaving each call is exactly where it would be after running alone for as many steps *)
Theorem C15_schedule_independent :
  forall (V C : Type) (g : grammar) (tbl : LRGen.table) (lexer : bool -> spoint -> list nat -> list lex_event * option (nat * nat)) (term_f : nat -> nat -> nat -> spoint -> V) (err_f : spoint -> V) (rule_f : nat -> C -> list V -> C * V) (sched : list nat) (sys : list (call V C)) (i : nat) (c : call V C), frame_ok = true -> nth_error sys i = Some c -> nth_error (sys_run V C g tbl lexer term_f err_f rule_f sched sys) i = Some (iter_call V C g tbl lexer term_f err_f rule_f (count_tid i sched) c).
Proof. exact schedule_independent. Qed.
Print Assumptions C15_schedule_independent.

(* each call gets the result it would give in isolation *)
Theorem C15_concurrent_result_is_isolated_result :
  forall (V C : Type) (g : grammar) (tbl : LRGen.table) (lexer : bool -> spoint -> list nat -> list lex_event * option (nat * nat)) (term_f : nat -> nat -> nat -> spoint -> V) (err_f : spoint -> V) (rule_f : nat -> C -> list V -> C * V) (sched : list nat) (sys : list (call V C)) (i : nat) (o : options) (buf : list nat) (cap : option nat) (ctx : C) (n : nat) (r : result V) (s' : pstate V C) (out' : list event), frame_ok = true -> nth_error sys i = Some (start V C o buf cap ctx) -> run V C g tbl o buf cap lexer term_f err_f rule_f n ctx = (r, s', out') -> r <> OutOfFuel -> n <= count_tid i sched -> exists c' : call V C, nth_error (sys_run V C g tbl lexer term_f err_f rule_f sched sys) i = Some c' /\ finished V C c' = Some (r, s', out').
Proof. exact concurrent_result_is_isolated_result. Qed.
Print Assumptions C15_concurrent_result_is_isolated_result.

(* earlier calls (accepted, failed, recovered) cannot influence a later one *)
Theorem C15_history_independent :
  forall (V C : Type) (g : grammar) (tbl : LRGen.table) (lexer : bool -> spoint -> list nat -> list lex_event * option (nat * nat)) (term_f : nat -> nat -> nat -> spoint -> V) (err_f : spoint -> V) (rule_f : nat -> C -> list V -> C * V) (sched1 sched2 : list nat) (sys1 sys2 : list (call V C)) (i : nat) (c : call V C), frame_ok = true -> nth_error sys1 i = Some c -> nth_error sys2 i = Some c -> count_tid i sched1 = count_tid i sched2 -> nth_error (sys_run V C g tbl lexer term_f err_f rule_f sched1 sys1) i = nth_error (sys_run V C g tbl lexer term_f err_f rule_f sched2 sys2) i.
Proof. exact history_independent. Qed.
Print Assumptions C15_history_independent.

(* a finished call keeps its result whatever the others do *)
Theorem C15_result_is_final :
  forall (V C : Type) (g : grammar) (tbl : LRGen.table) (lexer : bool -> spoint -> list nat -> list lex_event * option (nat * nat)) (term_f : nat -> nat -> nat -> spoint -> V) (err_f : spoint -> V) (rule_f : nat -> C -> list V -> C * V) (sched : list nat) (sys : list (call V C)) (i : nat) (c : call V C) (x : result V * pstate V C * list event), frame_ok = true -> nth_error sys i = Some c -> finished V C c = Some x -> exists c' : call V C, nth_error (sys_run V C g tbl lexer term_f err_f rule_f sched sys) i = Some c' /\ finished V C c' = Some x.
Proof. exact result_is_final. Qed.
Print Assumptions C15_result_is_final.
