(* C05 - Shift/reduce conflicts are resolved by the documented precedence rules. Theorems only: each statement is printed by Coq from the lemma it is closed with. *)
Require Import Ctpg.Base.Prelude.
Require Import Ctpg.Model.Grammar.
Require Import Ctpg.Model.LRGen.
Require Import Ctpg.Model.Driver.
Require Import Ctpg.Model.Dfa.
Require Import Ctpg.Model.RegexFront.
Require Import Ctpg.Model.Diag.
Require Import Ctpg.Spec.Cfg.
Require Import Ctpg.Spec.LRSpec.
Require Import Ctpg.Spec.Lang.
Require Import Ctpg.Spec.Eval.
Require Import Ctpg.Spec.Conflict.
Require Import Ctpg.Valid.LRValid.
Require Import Ctpg.Valid.DfaValid.
Require Import Ctpg.Valid.SpecMatch.
Require Import Ctpg.Proofs.CellBasics.
Require Import Ctpg.Proofs.CellResolve.
Require Import Ctpg.Proofs.LRSound.
Require Import Ctpg.Valid.LRResolved.
Require Import Ctpg.Spec.Grouping.
Require Import Ctpg.Proofs.GroupingFacts.
Require Import Ctpg.Proofs.GroupingSpec.
Require Import Ctpg.Proofs.Grouping.
Require Import Ctpg.Proofs.GroupingConservative.
Require Import Ctpg.Proofs.GroupingAnalyze.
Require Import Ctpg.Proofs.GroupingUnique.
Require Import Ctpg.Proofs.GroupingPure.
Require Import Ctpg.Proofs.GroupingExamples.
Require Import Ctpg.Proofs.GroupingPureExamples.
Require Import Ctpg.Proofs.GenResolved.
From Coq Require Import Permutation.

(* solve_conflict is the documented rule: reduce iff the rule's precedence is greater, or equal with left associativity *)
Theorem C05_rule_is_the_documented_one :
  forall (g : grammar) (r t : nat), solve_conflict g r t = sr_choice g r t.
Proof. exact solve_conflict_is_documented_rule. Qed.
Print Assumptions C05_rule_is_the_documented_one.

(* a cell with one reduction and any number of shift items, in any order, gets the documented choice, the conflict flag, the reduction's rule and the full target kernel *)
Theorem C05_cell :
  forall (g : grammar) (t : nat) (its : list item) (i : item), in_term_bucket g t its -> reduce_items g its = [i] -> is_root_item g i = false -> shift_items g its <> [] -> let s := scan_cell g its scan0 in sc_kind s = sr_choice g (it_r i) t /\ sc_sr s = true /\ sc_red s = Some (it_r i) /\ sc_has_red s = true /\ sc_has_shift s = true /\ sc_kernel s = target_kernel g its.
Proof. exact C05_cell. Qed.
Print Assumptions C05_cell.

(* cells without a reduction are plain shifts without flag: precedence declarations do not touch them *)
Theorem C05_no_reduction_frame :
  forall (g : grammar) (t : nat) (its : list item), in_term_bucket g t its -> reduce_items g its = [] -> its <> [] -> let s := scan_cell g its scan0 in sc_kind s = KShift /\ sc_sr s = false /\ sc_red s = None /\ sc_has_red s = false /\ sc_has_shift s = true /\ sc_kernel s = target_kernel g its.
Proof. exact C05_no_reduce. Qed.
Print Assumptions C05_no_reduction_frame.

(* cells with a single reduction and no shift are plain reductions without flag *)
Theorem C05_no_shift_frame :
  forall (g : grammar) (t : nat) (its : list item) (i : item), in_term_bucket g t its -> reduce_items g its = [i] -> is_root_item g i = false -> shift_items g its = [] -> let s := scan_cell g its scan0 in sc_kind s = KReduce /\ sc_sr s = false /\ sc_red s = Some (it_r i) /\ sc_has_red s = true /\ sc_has_shift s = false /\ sc_kernel s = [].
Proof. exact C05_no_shift. Qed.
Print Assumptions C05_no_shift_frame.

(* the conflict flag is set exactly for shift/reduce conflicts and the kind is then the documented choice *)
Theorem C05_flag_iff_conflict :
  forall (g : grammar) (t : nat) (its : list item), in_term_bucket g t its -> never_stops g its -> (sc_sr (scan_cell g its scan0) = true <-> has_sr_conflict g its) /\ (has_sr_conflict g its -> exists i : item, reduce_items g its = [i] /\ sc_kind (scan_cell g its scan0) = sr_choice g (it_r i) t).
Proof. exact C05_sr_flag_iff. Qed.
Print Assumptions C05_flag_iff_conflict.

(* whatever a table with resolved conflicts accepts is a derivation tree of the input (validate_sound does not require conflict-freedom) *)
Theorem C05_accepted_inputs_have_derivation_trees :
  forall (g : grammar) (sts : list items) (tbl : LRGen.table) (w : list nat) (t : tree), validate_sound g sts tbl = true -> no_error_symbol g tbl = true -> tokens_ok g w -> accepts g tbl w t -> derives_tree g t w.
Proof. exact lr_sound. Qed.
Print Assumptions C05_accepted_inputs_have_derivation_trees.

(* CONSEQUENTLY, for every grammar, every table whose S/R cells are decided by the documented rule (validate_resolved, a decidable check discharged on the real tables) and every input of any length: in the tree the parser returns, every node e -> e t e has a left operand node (a t0 b) only if the documented rule says reduce for (rule of t0, t), and a right operand node (b t2 c) only if it says shift for (its own rule, t2) *)
Theorem C05_grouping :
  forall (g : grammar) (sts : list items) (tbl : LRGen.table) (w : list nat) (tr : tree), validate_resolved g sts tbl = true -> no_error_symbol g tbl = true -> tokens_ok g w -> accepts g tbl w tr -> well_grouped g tr.
Proof. exact grouping. Qed.
Print Assumptions C05_grouping.

(* THE GENERATOR, for all grammars expressible in the DSL: whenever the mirror of state_analyzer succeeds without reduce/reduce cell (and without the accept/reduce clash of finding D12), its table is the LR(1) automaton with every shift/reduce cell decided by the documented rule (S/R marks allowed) *)
Theorem C05_generator_resolves_every_conflict_by_the_rule :
  forall (rg : raw_grammar) (g : grammar) (lim : limits) (sts : list lrstate) (tbl : LRGen.table), analyze rg = Some g -> grammar_wf g = true -> gen_with g lim = inl (sts, tbl) -> no_rr g (length sts) tbl = true -> GenCorrect.accept_clean g sts = true -> validate_resolved g (map st_all sts) tbl = true.
Proof. exact gen_validates_resolved_analyze. Qed.
Print Assumptions C05_generator_resolves_every_conflict_by_the_rule.

(* hence every parser generated for such a grammar groups operator expressions as documented, for every input *)
Theorem C05_generated_parsers_group_by_the_rule :
  forall (rg : raw_grammar) (g : grammar) (lim : limits) (sts : list lrstate) (tbl : LRGen.table), analyze rg = Some g -> grammar_wf g = true -> gen_with g lim = inl (sts, tbl) -> no_rr g (length sts) tbl = true -> GenCorrect.accept_clean g sts = true -> forall (w : list nat) (tr : tree), tokens_ok g w -> no_error_symbol g tbl = true -> accepts g tbl w tr -> well_grouped g tr.
Proof. exact gen_groups_analyze. Qed.
Print Assumptions C05_generated_parsers_group_by_the_rule.

(* and that tree is a derivation tree of the input *)
Theorem C05_grouping_with_derivation :
  forall (g : grammar) (sts : list items) (tbl : LRGen.table) (w : list nat) (tr : tree), validate_resolved g sts tbl = true -> no_error_symbol g tbl = true -> tokens_ok g w -> accepts g tbl w tr -> derives_tree g tr w /\ well_grouped g tr.
Proof. exact grouping_derivation. Qed.
Print Assumptions C05_grouping_with_derivation.

(* in the usual vocabulary: an operator of lower precedence is never a direct operand of one of higher precedence; equal precedence nests to the left for left-associative and to the right otherwise *)
Theorem C05_groups_by_precedence_then_associativity :
  forall (g : grammar) (tr : tree), well_grouped g tr -> groups_by_precedence g tr.
Proof. exact well_grouped_by_precedence. Qed.
Print Assumptions C05_groups_by_precedence_then_associativity.

(* what validate_resolved demands of one cell: the four cases of the documented resolution, nothing else *)
Theorem C05_resolved_cell_reading :
  forall (g : grammar) (sts : list items) (tbl : LRGen.table) (s t : nat), cell_resolved g sts tbl s t = true <-> cell_spec g sts tbl s t.
Proof. exact cell_resolved_iff. Qed.
Print Assumptions C05_resolved_cell_reading.

(* no other cell is affected: a table that passes the conflict-free validator passes the resolved one *)
Theorem C05_conflict_free_tables_are_resolved_tables :
  forall (g : grammar) (sts : list items) (tbl : LRGen.table), validate g sts tbl = true -> validate_resolved g sts tbl = true.
Proof. exact validate_implies_resolved. Qed.
Print Assumptions C05_conflict_free_tables_are_resolved_tables.

(* pure operator grammars e -> e t_i e | atom (any number of operators, any declarations): the resolved table accepts every operator expression *)
Theorem C05_operator_family_complete :
  forall (g : grammar) (sts : list items) (tbl : LRGen.table) (e atom : nat) (w : list nat), validate_resolved g sts tbl = true -> pure_family g e atom -> tokens_ok g w -> opseq g e atom w -> exists tr : tree, accepts g tbl w tr.
Proof. exact pure_complete. Qed.
Print Assumptions C05_operator_family_complete.

(* and, without explicit rule precedences, the returned tree is the ONLY well-grouped derivation tree of the input *)
Theorem C05_operator_family_unique :
  forall (g : grammar) (sts : list items) (tbl : LRGen.table) (e atom : nat) (w : list nat), validate_resolved g sts tbl = true -> no_error_symbol g tbl = true -> pure_family g e atom -> (forall i r t : nat, binop_at g i r e t -> plain_rule g i t) -> tokens_ok g w -> opseq g e atom w -> exists tr : tree, accepts g tbl w tr /\ derives_tree g tr w /\ well_grouped g tr /\ (forall tr' : tree, derives_tree g tr' w -> well_grouped g tr' -> tr' = tr).
Proof. exact pure_unique. Qed.
Print Assumptions C05_operator_family_unique.

(* REFUTED corner: with explicit rule precedences the choice relation need not be transitive and a second well-grouped tree exists (the parser still returns the tree of C05_grouping) *)
Theorem C05_uniqueness_with_explicit_rule_precedence_refuted :
  validate_resolved gf (sts_of gf) (tbl_of gf) = true /\ no_error_symbol gf (tbl_of gf) = true /\ pure_family gf 0 3 /\ tokens_ok gf wf /\ opseq gf 0 3 wf /\ accepts gf (tbl_of gf) wf tf_parser /\ derives_tree gf tf_other wf /\ well_grouped gf tf_other /\ tf_other <> tf_parser.
Proof. exact unique_refuted_explicit_prec. Qed.
Print Assumptions C05_uniqueness_with_explicit_rule_precedence_refuted.

(* non-vacuity: the example grammars have other derivation trees of the same inputs that are not well grouped *)
Theorem C05_grammar_is_ambiguous_parser_picks_documented_tree :
  (derives_tree ga (times (plus n_ n_) n_) w1 /\ ~ well_grouped ga (times (plus n_ n_) n_)) /\ (derives_tree ga (plus n_ (plus n_ n_)) w3 /\ ~ well_grouped ga (plus n_ (plus n_ n_))) /\ (derives_tree gb (plus (plus n_ n_) n_) w3 /\ ~ well_grouped gb (plus (plus n_ n_) n_)) /\ (derives_tree gc (times (plus n_ n_) n_) w1 /\ ~ well_grouped gc (times (plus n_ n_) n_)) /\ derives_tree gd (plus n_ (times n_ n_)) w1 /\ ~ well_grouped gd (plus n_ (times n_ n_)).
Proof. exact other_trees_not_well_grouped. Qed.
Print Assumptions C05_grammar_is_ambiguous_parser_picks_documented_tree.

(* rule analysis: a rule without [n] gets the precedence and associativity of its last term *)
Theorem C05_rules_without_explicit_precedence_are_plain :
  forall (rg : raw_grammar) (g : grammar) (i r e t : nat) (rr : raw_rule), analyze rg = Some g -> binop_at g i r e t -> nth_error (rg_rules rg) r = Some rr -> rr_prec rr = None -> plain_rule g i t.
Proof. exact analyze_binop_plain. Qed.
Print Assumptions C05_rules_without_explicit_precedence_are_plain.
