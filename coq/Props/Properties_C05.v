(* C05 - Shift/reduce conflicts are resolved by the documented precedence rules. Theorems only: each statement is printed by Coq from the lemma it is closed with. *)
Require Import Ctpg.Base.Prelude.
Require Import Ctpg.Model.Grammar.
Require Import Ctpg.Model.LRGen.
Require Import Ctpg.Model.Driver.
Require Import Ctpg.Model.Dfa.
Require Import Ctpg.Model.RegexFront.
Require Import Ctpg.Model.Diag.
Require Import Ctpg.Spec.Cfg.
Require Import Ctpg.Spec.LRSpec.
Require Import Ctpg.Spec.Lang.
Require Import Ctpg.Spec.Eval.
Require Import Ctpg.Spec.Conflict.
Require Import Ctpg.Valid.LRValid.
Require Import Ctpg.Valid.DfaValid.
Require Import Ctpg.Valid.SpecMatch.
Require Import Ctpg.Proofs.CellBasics.
Require Import Ctpg.Proofs.CellResolve.
Require Import Ctpg.Proofs.LRSound.
From Coq Require Import Permutation.

(* solve_conflict is the documented rule: reduce iff the rule's precedence is greater, or equal with left associativity *)
Theorem C05_rule_is_the_documented_one :
  forall (g : grammar) (r t : nat), solve_conflict g r t = sr_choice g r t.
Proof. exact solve_conflict_is_documented_rule. Qed.
Print Assumptions C05_rule_is_the_documented_one.

(* a cell with one reduction and any number of shift items, in any order, gets the documented choice, the conflict flag, the reduction's rule and the full target kernel *)
Theorem C05_cell :
  forall (g : grammar) (t : nat) (its : list item) (i : item), in_term_bucket g t its -> reduce_items g its = [i] -> is_root_item g i = false -> shift_items g its <> [] -> let s := scan_cell g its scan0 in sc_kind s = sr_choice g (it_r i) t /\ sc_sr s = true /\ sc_red s = Some (it_r i) /\ sc_has_red s = true /\ sc_has_shift s = true /\ sc_kernel s = target_kernel g its.
Proof. exact C05_cell. Qed.
Print Assumptions C05_cell.

(* cells without a reduction are plain shifts without flag: precedence declarations do not touch them *)
Theorem C05_no_reduction_frame :
  forall (g : grammar) (t : nat) (its : list item), in_term_bucket g t its -> reduce_items g its = [] -> its <> [] -> let s := scan_cell g its scan0 in sc_kind s = KShift /\ sc_sr s = false /\ sc_red s = None /\ sc_has_red s = false /\ sc_has_shift s = true /\ sc_kernel s = target_kernel g its.
Proof. exact C05_no_reduce. Qed.
Print Assumptions C05_no_reduction_frame.

(* cells with a single reduction and no shift are plain reductions without flag *)
Theorem C05_no_shift_frame :
  forall (g : grammar) (t : nat) (its : list item) (i : item), in_term_bucket g t its -> reduce_items g its = [i] -> is_root_item g i = false -> shift_items g its = [] -> let s := scan_cell g its scan0 in sc_kind s = KReduce /\ sc_sr s = false /\ sc_red s = Some (it_r i) /\ sc_has_red s = true /\ sc_has_shift s = false /\ sc_kernel s = [].
Proof. exact C05_no_shift. Qed.
Print Assumptions C05_no_shift_frame.

(* the conflict flag is set exactly for shift/reduce conflicts and the kind is then the documented choice *)
Theorem C05_flag_iff_conflict :
  forall (g : grammar) (t : nat) (its : list item), in_term_bucket g t its -> never_stops g its -> (sc_sr (scan_cell g its scan0) = true <-> has_sr_conflict g its) /\ (has_sr_conflict g its -> exists i : item, reduce_items g its = [i] /\ sc_kind (scan_cell g its scan0) = sr_choice g (it_r i) t).
Proof. exact C05_sr_flag_iff. Qed.
Print Assumptions C05_flag_iff_conflict.

(* whatever a table with resolved conflicts accepts is a derivation tree of the input (validate_sound does not require conflict-freedom) *)
Theorem C05_accepted_inputs_have_derivation_trees :
  forall (g : grammar) (sts : list items) (tbl : LRGen.table) (w : list nat) (t : tree), validate_sound g sts tbl = true -> no_error_symbol g tbl = true -> tokens_ok g w -> accepts g tbl w t -> derives_tree g t w.
Proof. exact lr_sound. Qed.
Print Assumptions C05_accepted_inputs_have_derivation_trees.
