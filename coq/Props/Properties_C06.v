(* C06 - Parsing any byte string is memory-safe and terminates (index logic and bookkeeping; see DESIGN.md for the C++-level remainder). Theorems only: each statement is printed by Coq from the lemma it is closed with. *)
Require Import Ctpg.Base.Prelude.
Require Import Ctpg.Model.Grammar.
Require Import Ctpg.Model.LRGen.
Require Import Ctpg.Model.Driver.
Require Import Ctpg.Model.Dfa.
Require Import Ctpg.Model.RegexFront.
Require Import Ctpg.Model.Diag.
Require Import Ctpg.Spec.Cfg.
Require Import Ctpg.Spec.LRSpec.
Require Import Ctpg.Spec.Lang.
Require Import Ctpg.Spec.Eval.
Require Import Ctpg.Spec.Conflict.
Require Import Ctpg.Valid.LRValid.
Require Import Ctpg.Valid.DfaValid.
Require Import Ctpg.Valid.SpecMatch.
Require Import Ctpg.Valid.LRSafe.
Require Import Ctpg.Proofs.DriverBasics.
Require Import Ctpg.Proofs.SafeBasics.
Require Import Ctpg.Proofs.SafeDriver.
Require Import Ctpg.Proofs.SafeTerm.
Require Import Ctpg.Proofs.SafeDfa.
Require Import Ctpg.Proofs.DriverPos.
Require Import Ctpg.Proofs.BuilderTerm.
Require Import Ctpg.Valid.LRProductive.
Require Import Ctpg.Proofs.TermViable.
Require Import Ctpg.Proofs.TermAll.
Require Import Ctpg.Proofs.TermGeneric.
Require Import Ctpg.Proofs.TermRecMachine.
Require Import Ctpg.Proofs.TermRecAll.
Require Import Ctpg.Proofs.GenTermChecks.
Require Import Ctpg.Proofs.CapFormula.
Require Import Ctpg.Proofs.CapFormulaCex.
Require Import Ctpg.Model.Containers.
Require Import Ctpg.Proofs.ContainersVec.
Require Import Ctpg.Proofs.ContainersBits.
Require Import Ctpg.Proofs.ContainersSort.
Require Import Ctpg.Model.Buffers.
Require Import Ctpg.Proofs.BuffersCorrect.
From Coq Require Import Permutation.

(* every unchecked array/stack access of the driver (table row and column, rule_infos, erase/back/pop on the stacks, the goto after a reduction, the lexeme extent) is in range: the run never ends in Crash, for any input, options, stack capacity, functors, also through error recovery *)
Theorem C06_no_out_of_range_access :
  forall (V C : Type) (g : grammar) (sts : list items) (tbl : LRGen.table) (opts : options) (buf : list nat) (cap : option nat) (lexer : bool -> spoint -> list nat -> list lex_event * option (nat * nat)) (term_f : nat -> nat -> nat -> spoint -> V) (err_f : spoint -> V) (rule_f : nat -> C -> list V -> C * V), safe_ok g sts tbl = true -> lexer_ok_on g buf lexer -> forall (fuel : nat) (c : C) (cr : crash), fst (fst (run V C g tbl opts buf cap lexer term_f err_f rule_f fuel c)) <> Crash cr.
Proof. exact @no_crash_safe_ok. Qed.
Print Assumptions C06_no_out_of_range_access.

(* the table / rule_infos indices alone are in range for any dimensionally well-formed table, conflicts included *)
Theorem C06_table_indices_any_table :
  forall (V C : Type) (g : grammar) (tbl : LRGen.table) (n : nat) (opts : options) (buf : list nat) (cap : option nat) (lexer : bool -> spoint -> list nat -> list lex_event * option (nat * nat)) (term_f : nat -> nat -> nat -> spoint -> V) (err_f : spoint -> V) (rule_f : nat -> C -> list V -> C * V), table_wfb g tbl n = true -> lexer_ok_on g buf lexer -> forall (fuel : nat) (c : C), let r := fst (fst (run V C g tbl opts buf cap lexer term_f err_f rule_f fuel c)) in r <> Crash CrTableRow /\ r <> Crash CrTableCol /\ r <> Crash CrRuleInfo.
Proof. exact @no_crash_table_wf. Qed.
Print Assumptions C06_table_indices_any_table.

(* the cursor and the lexeme end never leave the buffer *)
Theorem C06_positions_stay_inside_the_buffer :
  forall (V C : Type) (g : grammar) (tbl : LRGen.table) (opts : options) (buf : list nat) (cap : option nat) (lexer : bool -> spoint -> list nat -> list lex_event * option (nat * nat)) (term_f : nat -> nat -> nat -> spoint -> V) (err_f : spoint -> V) (rule_f : nat -> C -> list V -> C * V), (forall (v : bool) (p : spoint) (rest : list nat) (t len : nat), snd (lexer v p rest) = Some (t, len) -> len <= length rest) -> eof_err_not_shifted g tbl \/ o_skip_ws opts = false -> forall (fuel : nat) (c : C), let '(r, s, out) := run V C g tbl opts buf cap lexer term_f err_f rule_f fuel c in ps_sp s = true_pos buf (ps_it s) /\ ps_it s <= length buf /\ ps_end s <= length buf /\ (r = OutOfFuel -> ps_it s <= ps_end s \/ ps_term s = Some (eof_idx g)) /\ Forall (event_pos_ok buf) out.
Proof. exact @run_pos. Qed.
Print Assumptions C06_positions_stay_inside_the_buffer.

(* the automaton built for ANY pattern is never indexed out of range by the matcher on ANY string (although the builder is semantically wrong on some patterns) *)
Theorem C06_matcher_never_out_of_range_on_any_pattern :
  forall r : regex, exists sm : dfa, build_expr r = Some sm /\ (forall s : list nat, dfa_match_oob sm s = false).
Proof. exact @built_dfa_no_oob_total. Qed.
Print Assumptions C06_matcher_never_out_of_range_on_any_pattern.

(* the matcher reads a prefix of the input, left to right, each element at most once *)
Theorem C06_matcher_reads_each_byte_once :
  forall (sm : dfa) (p : spoint) (s : list nat), exists k : nat, k <= length s /\ chars_of (fst (dfa_match sm true p s)) = firstn k s.
Proof. exact @dfa_match_reads_prefix. Qed.
Print Assumptions C06_matcher_reads_each_byte_once.

(* the recognised length never exceeds the input *)
Theorem C06_matcher_length_within_input :
  forall (sm : dfa) (v : bool) (p : spoint) (s : list nat) (t len : nat), snd (dfa_match sm v p s) = Some (t, len) -> len <= length s.
Proof. exact @dfa_match_len_le. Qed.
Print Assumptions C06_matcher_length_within_input.

(* an accepted parse takes exactly length(input) + nodes(tree) + 1 iterations *)
Theorem C06_terminates_on_accepted_inputs :
  forall (g : grammar) (sts : list items) (tbl : LRGen.table) (w : list nat) (t : tree), validate_sound g sts tbl = true -> no_error_symbol g tbl = true -> LRSound.tokens_ok g w -> accepts g tbl w t -> tsize t = length w + nodes t /\ (forall fuel : nat, (tsize t < fuel -> tree_run g tbl w fuel = Accept t) /\ (fuel <= tsize t -> tree_run g tbl w fuel = OutOfFuel)).
Proof. exact @accepted_fuel_exact. Qed.
Print Assumptions C06_terminates_on_accepted_inputs.

(* TERMINATION ON EVERY INPUT, accepted or not, WITH OR WITHOUT ERROR RULES: for any functors, options, buffer and lexer (non-empty in-range lexemes), a table that passes term_checks (validated LR(1) automaton with justified lookaheads of a productive grammar - discharged on the real tables): some fuel suffices and more fuel changes nothing *)
Theorem C06_terminates_on_every_input :
  forall (V C : Type) (g : grammar) (sts : list items) (tbl : LRGen.table) (opts : options) (buf : list nat) (lexer : bool -> spoint -> list nat -> list lex_event * option (nat * nat)) (term_f : nat -> nat -> nat -> spoint -> V) (err_f : spoint -> V) (rule_f : nat -> C -> list V -> C * V) (c0 : C), term_checks g sts tbl = true -> lexer_ok_for g lexer -> lexer_in_range lexer -> exists fuel : nat, forall fuel' : nat, fuel <= fuel' -> fst (fst (run V C g tbl opts buf None lexer term_f err_f rule_f fuel' c0)) = fst (fst (run V C g tbl opts buf None lexer term_f err_f rule_f fuel c0)) /\ fst (fst (run V C g tbl opts buf None lexer term_f err_f rule_f fuel c0)) <> OutOfFuel.
Proof. exact @generic_run_halts_recovery_checked. Qed.
Print Assumptions C06_terminates_on_every_input.

(* the reason with error rules: after the error symbol has been shifted, the first term that is not discarded is shifted after finitely many reductions, with no further error in between *)
Theorem C06_every_recovery_cycle_consumes_a_term :
  forall (g : grammar) (sts : list items) (tbl : LRGen.table) (cur : nat) (ss : list nat) (trs : list tree) (a : nat) (v : list nat) (cur1 : nat) (ss1 : list nat) (trs1 : list tree) (e : entry), validate g sts tbl = true -> lookahead_generated g sts -> ReportViable.states_nonempty sts -> reduce_lookahead g sts tbl -> ReportLang.productive g -> MInv g sts (cur :: ss) trs -> mshift g tbl (cur :: ss, trs, err_idx g :: a :: v) = Some (cur1 :: ss1, trs1, a :: v) -> a < eof_idx g -> cell tbl cur1 (nterm_count g + a) = inl e -> e_kind e <> KError -> exists (n : nat) (c1 c2 : LRMachine.cfg), rsteps g tbl n (cur1 :: ss1, trs1, a :: v) c1 /\ mshift g tbl c1 = Some c2 /\ snd c2 = v.
Proof. exact @recovery_cycle_progress. Qed.
Print Assumptions C06_every_recovery_cycle_consumes_a_term.

(* the version for tables without error rules *)
Theorem C06_terminates_without_error_rules :
  forall (V C : Type) (g : grammar) (sts : list items) (tbl : LRGen.table) (opts : options) (buf : list nat) (lexer : bool -> spoint -> list nat -> list lex_event * option (nat * nat)) (term_f : nat -> nat -> nat -> spoint -> V) (err_f : spoint -> V) (rule_f : nat -> C -> list V -> C * V) (c0 : C), term_checks g sts tbl = true -> no_error_symbol g tbl = true -> lexer_ok_for g lexer -> lexer_in_range lexer -> exists fuel : nat, fst (fst (run V C g tbl opts buf None lexer term_f err_f rule_f fuel c0)) <> OutOfFuel.
Proof. exact @generic_run_halts_checked. Qed.
Print Assumptions C06_terminates_without_error_rules.

(* THE GENERATOR, for all grammars: a conflict-free table it builds passes term_checks exactly when the grammar is productive - so termination holds for every parser generated from a productive conflict-free grammar *)
Theorem C06_generated_tables_pass_the_termination_checks :
  forall (g : grammar) (lim : limits) (sts : list lrstate) (tbl : LRGen.table), grammar_wf g = true -> GenWf.grammar_wf_extra g = true -> gen_with g lim = inl (sts, tbl) -> GenCorrect.conflict_free g (length sts) tbl = true -> GenCorrect.accept_clean g sts = true -> term_checks g (map st_all sts) tbl = productiveb g.
Proof. exact @gen_term_checks_productive. Qed.
Print Assumptions C06_generated_tables_pass_the_termination_checks.

(* the LR machine itself (shift/reduce/accept/error cell) halts on every token string, error rules or not: no endless chain of reductions *)
Theorem C06_machine_halts_also_with_error_rules :
  forall (g : grammar) (sts : list items) (tbl : LRGen.table) (w : list nat), term_checks g sts tbl = true -> LRSound.tokens_ok g w -> exists (n : nat) (c : LRMachine.cfg), LRMachine.msteps g tbl n ([0], [], w) c /\ match LRMachine.mstep g tbl c with | LRMachine.Next _ => False | _ => True end.
Proof. exact @machine_halts_checked. Qed.
Print Assumptions C06_machine_halts_also_with_error_rules.

(* with error rules: the run ends or reaches recovery mode (what happens from there is covered by the two progress lemmas below, not by a termination theorem) *)
Theorem C06_parse_up_to_the_first_error_terminates :
  forall (g : grammar) (sts : list items) (tbl : LRGen.table) (w : list nat), validate g sts tbl = true -> lookahead_generated g sts -> ReportViable.states_nonempty sts -> reduce_lookahead g sts tbl -> ReportLang.productive g -> LRSound.tokens_ok g w -> exists (fuel : nat) (r : result tree) (s : pstate tree unit) (out : list event), run tree unit g tbl tree_opts w None id_lexer LRMachine.tf (LRMachine.ef g) LRMachine.rlf fuel tt = (r, s, out) /\ (r <> OutOfFuel \/ r = OutOfFuel /\ ps_rec s = true).
Proof. exact @first_error_or_end. Qed.
Print Assumptions C06_parse_up_to_the_first_error_terminates.

(* the reason: every reduction is made on a lookahead that continues some sentence *)
Theorem C06_every_action_is_viable :
  forall (g : grammar) (sts : list items) (tbl : LRGen.table) (w : list nat) (cur : nat) (ss : list nat) (trs : list tree) (rest : list nat) (e : entry), validate g sts tbl = true -> lookahead_generatedb g sts = true -> reduce_lookaheadb g sts tbl = true -> productiveb g = true -> LRSound.tokens_ok g w -> ReportLang.reach g tbl w (cur :: ss, trs, rest) -> cell tbl cur (nterm_count g + LRMachine.look g rest) = inl e -> e_kind e = KReduce -> let u := flat_map yield (rev trs) in (rest <> [] -> ReportLang.sentence_prefix g (u ++ [LRMachine.look g rest])) /\ (rest = [] -> exists t : tree, derives_tree g t u).
Proof. exact @action_viable_checked. Qed.
Print Assumptions C06_every_action_is_viable.

(* REFUTED without the lookahead check: a table that passes validate and loops forever *)
Theorem C06_halting_needs_justified_lookaheads_refuted :
  validate ReportCex.g2 ReportCex.sts2 ReportCex.tbl2 = true /\ states_nonempty_b ReportCex.sts2 = true /\ reduce_lookaheadb ReportCex.g2 ReportCex.sts2 ReportCex.tbl2 = true /\ productiveb ReportCex.g2 = true /\ no_error_symbol ReportCex.g2 ReportCex.tbl2 = true /\ LRSound.tokens_ok ReportCex.g2 [1] /\ lookahead_generatedb ReportCex.g2 ReportCex.sts2 = false /\ (forall fuel : nat, tree_run ReportCex.g2 ReportCex.tbl2 [1] fuel = OutOfFuel).
Proof. exact @halting_refuted_without_lookahead_generated. Qed.
Print Assumptions C06_halting_needs_justified_lookaheads_refuted.

(* hence parse is a decision procedure: accepted with a derivation tree iff derivable, rejected iff not *)
Theorem C06_decides_the_language :
  forall (g : grammar) (sts : list items) (tbl : LRGen.table) (w : list nat), term_checks g sts tbl = true -> no_error_symbol g tbl = true -> LRSound.tokens_ok g w -> exists fuel : nat, forall fuel' : nat, fuel <= fuel' -> (derives g w -> exists t : tree, tree_run g tbl w fuel' = Accept t /\ derives_tree g t w) /\ (~ derives g w -> tree_run g tbl w fuel' = Reject).
Proof. exact @decides_language_checked. Qed.
Print Assumptions C06_decides_the_language.

(* the stacks used with cstring_buffer: without empty rules and error-symbol shifts the stack never holds more than input bytes + 1 entries, which the library's capacity covers *)
Theorem C06_fixed_stacks_never_overflow_without_empty_rules_and_recovery :
  forall (V C : Type) (g : grammar) (tbl : LRGen.table) (opts : options) (buf : list nat) (lexer : bool -> spoint -> list nat -> list lex_event * option (nat * nat)) (term_f : nat -> nat -> nat -> spoint -> V) (err_f : spoint -> V) (rule_f : nat -> C -> list V -> C * V), empty_rules g = 0 -> eof_err_not_shifted g tbl -> no_shifterrb tbl = true -> lexer_in_range lexer -> forall (fuel : nat) (c : C), SafeCap.never_above V C g tbl opts buf lexer term_f err_f rule_f (length buf + 1) fuel c.
Proof. exact @height_le_bytes_without_empty_rules. Qed.
Print Assumptions C06_fixed_stacks_never_overflow_without_empty_rules_and_recovery.

(* REFUTED in general (known findings D8 / D16): the capacity can be exceeded; since repair 5ed974d the real code then throws instead of writing out of bounds *)
Theorem C06_fixed_stack_capacity_refuted :
  analyze d8_raw = Some d8_g /\ (exists sts : list lrstate, gen d8_g = inl (sts, d8_tbl)) /\ validate d8_g (sts_of d8_g) d8_tbl = true /\ LRSound.tokens_ok d8_g [0] /\ cstring_cap d8_g (length [0]) = 4 /\ CapFormulaCex.res (tree_run_cap d8_g d8_tbl None [0] 20) = Accept d8_tree /\ tree_run d8_g d8_tbl [0] 20 = Accept d8_tree /\ CapFormulaCex.res (tree_run_cap d8_g d8_tbl (Some (cstring_cap d8_g (length [0]))) [0] 20) = Driver.Throw.
Proof. exact @cstring_capacity_formula_refuted. Qed.
Print Assumptions C06_fixed_stack_capacity_refuted.

(* without error rules a reported error ends the parse within stack-height further iterations *)
Theorem C06_terminates_after_an_error_without_error_rules :
  forall (V C : Type) (g : grammar) (sts : list items) (tbl : LRGen.table) (opts : options) (buf : list nat) (cap : option nat) (lexer : bool -> spoint -> list nat -> list lex_event * option (nat * nat)) (term_f : nat -> nat -> nat -> spoint -> V) (err_f : spoint -> V) (rule_f : nat -> C -> list V -> C * V), safe_ok g sts tbl = true -> lexer_ok_on g buf lexer -> no_error_symbol g tbl = true -> forall (fuel : nat) (c : C) (i : nat) (s : pstate V C), nth_error (snd (run_gh V C g tbl opts buf cap lexer term_f err_f rule_f fuel (init c) [] [])) i = Some s -> ps_rec s = true -> forall fuel' : nat, i + length (ps_cursors s) <= fuel' -> fst (fst (run V C g tbl opts buf cap lexer term_f err_f rule_f fuel' c)) = Reject.
Proof. exact @error_run_terminates. Qed.
Print Assumptions C06_terminates_after_an_error_without_error_rules.

(* every iteration in consume mode ends the run, leaves the mode or consumes one term *)
Theorem C06_consume_mode_progress :
  forall (V C : Type) (g : grammar) (tbl : LRGen.table) (opts : options) (buf : list nat) (cap : option nat) (lexer : bool -> spoint -> list nat -> list lex_event * option (nat * nat)) (term_f : nat -> nat -> nat -> spoint -> V) (err_f : spoint -> V) (rule_f : nat -> C -> list V -> C * V) (s : pstate V C), ps_cons s = true -> ps_rec s = false -> match fst (step V C g tbl opts buf cap lexer term_f err_f rule_f s) with | inl s' => ps_cons s' = false \/ (exists (s1 : pstate V C) (t : nat) (ev : list event), gct_spec V C g opts buf lexer s (s1, Some t, ev) /\ ps_term s1 = Some t /\ t <> eof_idx g /\ s' = consume_term V C buf s1 /\ ps_cons s' = true /\ ps_rec s' = false /\ ps_cursors s' = ps_cursors s /\ ps_values s' = ps_values s /\ ps_it s' = ps_end s1 /\ ps_end s' = ps_end s1) \/ (exists (cur t : nat) (e : entry), hd_error (ps_cursors s) = Some cur /\ cell tbl cur (nterm_count g + t) = inl e /\ e_kind e = KShiftErr /\ ps_cons s' = true /\ ps_rec s' = false) | inr _ => True end.
Proof. exact @consume_progress. Qed.
Print Assumptions C06_consume_mode_progress.

(* every iteration in recovery mode ends the run, pops one state, shifts the error symbol or reduces *)
Theorem C06_recovery_mode_progress :
  forall (V C : Type) (g : grammar) (tbl : LRGen.table) (opts : options) (buf : list nat) (cap : option nat) (lexer : bool -> spoint -> list nat -> list lex_event * option (nat * nat)) (term_f : nat -> nat -> nat -> spoint -> V) (err_f : spoint -> V) (rule_f : nat -> C -> list V -> C * V) (s : pstate V C), ps_rec s = true -> ps_cons s = false -> match fst (step V C g tbl opts buf cap lexer term_f err_f rule_f s) with | inl s' => ps_rec s' = true /\ ps_cons s' = false /\ ps_cursors s' = tl (ps_cursors s) /\ ps_values s' = tl (ps_values s) /\ ps_cursors s' <> [] \/ ps_rec s' = false /\ ps_cons s' = true /\ (exists nst : nat, ps_cursors s' = nst :: ps_cursors s /\ ps_values s' = err_f (ps_sp s) :: ps_values s) \/ ps_rec s' = true /\ ps_cons s' = false /\ (exists (r : nat) (ri : rule_info) (nst : nat) (v : V), nth_error (rule_infos g) r = Some ri /\ ri_n ri <= length (ps_cursors s) /\ ri_n ri <= length (ps_values s) /\ ps_cursors s' = nst :: skipn (ri_n ri) (ps_cursors s) /\ ps_values s' = v :: skipn (ri_n ri) (ps_values s)) \/ (exists (cur : nat) (e : entry), hd_error (ps_cursors s) = Some cur /\ cell tbl cur (err_col g) = inl e /\ e_kind e = KShift) | inr _ => True end.
Proof. exact @recovery_progress. Qed.
Print Assumptions C06_recovery_mode_progress.

(* automaton construction: the recursive merge terminates *)
Theorem C06_merge_terminates :
  forall (sm : dfa) (to from : nat) (keep mark : bool), BuilderSize.closed sm -> to < length sm -> from < length sm -> merge (merge_fuel sm) sm to from keep mark <> None.
Proof. exact @merge_terminates. Qed.
Print Assumptions C06_merge_terminates.

(* THE LIBRARY'S OWN TABLES (word-level mirror of namespace stdex, tied to the real templates by kernel-checked observations): an index that passes check_idx addresses a word inside the array of a cbitset (item sets, FIRST sets, character sets, merged_from) *)
Theorem C06_bitset_accesses_stay_inside_the_word_array :
  forall (b : cbitset) (idx : N), cb_wf b -> (idx < cb_n b)%N -> cb_wi idx < length (cb_data b).
Proof. exact @cb_word_index_in_bounds. Qed.
Print Assumptions C06_bitset_accesses_stay_inside_the_word_array.

(* test throws exactly for idx >= N *)
Theorem C06_bitset_index_check_is_exact :
  forall (b : cbitset) (j : N), cb_test b j = Throw <-> (cb_n b <= j)%N.
Proof. exact @cb_test_throws_iff_out_of_range. Qed.
Print Assumptions C06_bitset_index_check_is_exact.

(* set / reset / flip / set(idx, value) throw exactly for idx >= N (and then change nothing) *)
Theorem C06_bitset_updates_throw_exactly_out_of_range :
  forall (b : cbitset) (i : N), (cb_set b i = Throw <-> (cb_n b <= i)%N) /\ (cb_reset b i = Throw <-> (cb_n b <= i)%N) /\ (cb_flip b i = Throw <-> (cb_n b <= i)%N) /\ (forall v : bool, cb_set_val b i v = Throw <-> (cb_n b <= i)%N).
Proof. exact @cb_upd_throws_iff_out_of_range. Qed.
Print Assumptions C06_bitset_updates_throw_exactly_out_of_range.

(* no cbitset operation of the mirror performs an unchecked out-of-range access *)
Theorem C06_bitset_operations_never_undefined :
  forall (b : cbitset) (o : cb_op), cb_apply b o <> Undef.
Proof. exact @cb_apply_never_undef. Qed.
Print Assumptions C06_bitset_operations_never_undefined.

(* after any sequence of operations the word array has its declared length and every word fits in 64 bits *)
Theorem C06_bitset_invariant_on_every_operation_sequence :
  forall (n : N) (ops : list cb_op), cb_wf (cb_run n ops).
Proof. exact @cb_run_wf. Qed.
Print Assumptions C06_bitset_invariant_on_every_operation_sequence.

(* an accepted cvector push writes inside the array *)
Theorem C06_cvector_push_writes_inside_the_array :
  forall (A : Type) (c c' : cvector A) (x : A), cv_wf c -> cv_push c x = Ok c' -> N.to_nat (cv_size c) < length (cv_data c) /\ cv_wf c' /\ cv_abs c' = cv_abs c ++ [x].
Proof. exact @cv_push_in_bounds. Qed.
Print Assumptions C06_cvector_push_writes_inside_the_array.

(* after any sequence of stack operations (never popping an empty vector: the driver's discipline, proved for the driver by C06_no_out_of_range_access) size <= capacity and the array keeps its length *)
Theorem C06_cvector_invariant_on_every_operation_sequence :
  forall (A : Type) (cap : N) (d : A) (ops : list (cv_op A)), cv_wf (cv_run cap d ops).
Proof. exact @cv_run_wf. Qed.
Print Assumptions C06_cvector_invariant_on_every_operation_sequence.

(* erase(end() - n, end()) - reduce()'s call - is defined for every n, also n > size *)
Theorem C06_cvector_erase_of_the_top_n_is_always_defined :
  forall (A : Type) (c : cvector A) (n : N), exists c' : cvector A, cv_erase c (Z.of_N (cv_size c) - Z.of_N n) (Z.of_N (cv_size c)) = Ok c'.
Proof. exact @cv_erase_last_ok. Qed.
Print Assumptions C06_cvector_erase_of_the_top_n_is_always_defined.

(* pop_back is unchecked: on an empty vector the size wraps to 2^64-1 (which is why the driver's no-pop-on-empty theorem matters) *)
Theorem C06_cvector_pop_on_empty_wraps :
  cv_size (cv_pop (cv_new 4 0%N)) = size_max.
Proof. exact @cv_pop_empty_wraps. Qed.
Print Assumptions C06_cvector_pop_on_empty_wraps.

(* ring buffer: start, end inside the array, end = (start + size) mod N, after any sequence of push / pop *)
Theorem C06_cqueue_invariant_on_every_operation_sequence :
  forall (A : Type) (cap : N) (d : A) (ops : list (cq_op A)), cq_wf (cq_run cap d ops).
Proof. exact @cq_run_wf. Qed.
Print Assumptions C06_cqueue_invariant_on_every_operation_sequence.

(* top never reads outside the array *)
Theorem C06_cqueue_never_reads_outside :
  forall (A : Type) (q : cqueue A), cq_wf q -> cq_top q <> Undef.
Proof. exact @cq_never_undef. Qed.
Print Assumptions C06_cqueue_never_reads_outside.

(* stdex::sort computes size() - 1 in unsigned arithmetic: on an empty container it would read c[1], c[0]; the library only sorts rule_infos, which holds at least the root rule *)
Theorem C06_sort_of_an_empty_container_is_undefined :
  forall (A : Type) (p : A -> A -> bool), stdex_sort p [] = Undef.
Proof. exact @stdex_sort_empty_undefined. Qed.
Print Assumptions C06_sort_of_an_empty_container_is_undefined.

(* BUFFERS: dereferencing end() of a string_view_buffer is a read outside the caller's buffer (the byte behind the view belongs to somebody else) ... *)
Theorem C06_the_end_of_a_view_is_outside :
  forall b : string_view_buffer, svb_deref b (svb_end b) = Undef.
Proof. exact @svb_deref_end_outside. Qed.
Print Assumptions C06_the_end_of_a_view_is_outside.

(* ... while end() of a cstring_buffer is its own terminator - which is why an end-of-buffer test that comes too late only shows with views (seeded change C06-8) *)
Theorem C06_the_end_of_a_cstring_buffer_is_its_terminator :
  forall text : list nat, cs_deref (cs_of_literal text) (cs_end (cs_of_literal text)) = Ok 0.
Proof. exact @cs_deref_end. Qed.
Print Assumptions C06_the_end_of_a_cstring_buffer_is_its_terminator.

(* every lexeme requested inside [begin, end] lies inside the view *)
Theorem C06_lexemes_inside_the_text :
  forall (b : string_view_buffer) (s e : nat), svb_wf b -> s <= e -> e <= sv_len b -> svb_get_view b (svb_begin b + s) (svb_begin b + e) = Ok (slice (svb_text b) s e).
Proof. exact @svb_view_spec. Qed.
Print Assumptions C06_lexemes_inside_the_text.

(* and a request reaching behind end() is outside *)
Theorem C06_lexeme_requests_outside_are_outside :
  forall (b : string_view_buffer) (s e : nat), sv_off b + sv_len b < e -> svb_get_view b s e = Undef.
Proof. exact @svb_view_overlong. Qed.
Print Assumptions C06_lexeme_requests_outside_are_outside.
