(* What "derivable from the root symbol by the rules as written" means, independent of any parser. *)
Require Import Ctpg.Base.Prelude Ctpg.Model.Grammar.

(* a derivation tree: leaves are terms (by index), inner nodes are rules (by r_idx, the position in rules(...)) *)
Inductive tree :=
| Leaf (t : nat)
| Node (r : nat) (ch : list tree).

Fixpoint yield (t : tree) : list nat :=
  match t with
  | Leaf a => [a]
  | Node _ ch => flat_map yield ch
  end.

(* rule r (an r_idx) has left side l and right side rhs *)
Definition is_rule (g : grammar) (r l : nat) (rhs : list symbol) : Prop :=
  exists i ri, nth_error (rule_infos g) i = Some ri /\ ri_r ri = r /\ ri_l ri = l /\
               nth_error (right_sides g) r = Some rhs.

Inductive valid_tree (g : grammar) : symbol -> tree -> Prop :=
| VLeaf a : valid_tree g (T a) (Leaf a)
| VNode r l rhs ch :
    is_rule g r l rhs ->
    Forall2 (valid_tree g) rhs ch ->
    valid_tree g (NT l) (Node r ch).

(* the user's root: the single right-side symbol of the root rule ## -> root *)
Definition root_symbol (g : grammar) : option symbol :=
  match nth_error (right_sides g) (root_rule_idx g) with
  | Some [s] => Some s
  | _ => None
  end.

Definition derives_tree (g : grammar) (t : tree) (w : list nat) : Prop :=
  exists s, root_symbol g = Some s /\ valid_tree g s t /\ yield t = w.
Definition derives (g : grammar) (w : list nat) : Prop := exists t, derives_tree g t w.

(* post-order list of the rules of a tree: the order in which a bottom-up parser reduces *)
Fixpoint postorder (t : tree) : list nat :=
  match t with
  | Leaf _ => []
  | Node r ch => flat_map postorder ch ++ [r]
  end.
