(* The regular language a pattern denotes under the usual semantics of the documented operators.
   Strings are lists of byte values; a character set is a 256-entry boolean table indexed by the unsigned byte. *)
Require Import Ctpg.Base.Prelude Ctpg.Model.Driver Ctpg.Model.Dfa.

Inductive matches : regex -> list nat -> Prop :=
| MSet s c : nth c s false = true -> matches (RSet s) [c]
| MStarNil r : matches (RStar r) []
| MStarApp r u v : matches r u -> matches (RStar r) v -> matches (RStar r) (u ++ v)
| MPlus r u v : matches r u -> matches (RStar r) v -> matches (RPlus r) (u ++ v)
| MOptNil r : matches (ROpt r) []
| MOptOne r u : matches r u -> matches (ROpt r) u
| MRep0 r : matches (RRep r 0) []                                  (* {0} is the empty word *)
| MRepS r n u v : matches r u -> matches (RRep r n) v -> matches (RRep r (S n)) (u ++ v)   (* {n} is n-fold concatenation *)
| MCat a b u v : matches a u -> matches b v -> matches (RCat a b) (u ++ v)
| MAltL a b u : matches a u -> matches (RAlt a b) u
| MAltR a b u : matches b u -> matches (RAlt a b) u.

(* what a term of terms(...) denotes: a char, a string, or a pattern *)
Definition term_matches (t : term_data) (s : list nat) : Prop := matches (regex_of_term t) s.

(* Longest-match tokenisation with first-listed priority (C04), stated for the automaton run on a string:
   the result is (i, len) where len is the greatest length of a prefix of s that some term matches and i the
   least index of a term matching that prefix; None when no prefix (not even the empty one) is matched. *)
Definition is_longest_match (terms : list term_data) (s : list nat) (res : option (nat * nat)) : Prop :=
  match res with
  | Some (i, len) =>
      len <= length s /\
      (exists t, nth_error terms i = Some t /\ term_matches t (firstn len s)) /\
      (forall j t, j < i -> nth_error terms j = Some t -> ~ term_matches t (firstn len s)) /\
      (forall len' j t, len < len' -> len' <= length s -> nth_error terms j = Some t -> ~ term_matches t (firstn len' s))
  | None =>
      forall len' j t, len' <= length s -> nth_error terms j = Some t -> ~ term_matches t (firstn len' s)
  end.

Definition bytes_ok (s : list nat) : Prop := Forall (fun c => c < 256) s.
