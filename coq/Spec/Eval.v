(* Bottom-up evaluation of derivation trees (C02), positions (C10), the token stream a lexer defines (C18),
   and value identities for the ownership bookkeeping (C14). Specifications only. *)
Require Import Ctpg.Base.Prelude Ctpg.Model.Grammar Ctpg.Model.LRGen Ctpg.Model.Driver.

(* ---------- parse trees with everything a term functor sees ---------- *)
Inductive ptree :=
| PLeaf (t start len : nat) (p : spoint)      (* a shifted term: index, lexeme extent in the buffer, source point *)
| PErr (p : spoint)                           (* the shifted <error_recovery_token> *)
| PNode (r : nat) (ch : list ptree).          (* a reduction by rule r (r_idx) *)

(* the algebra that builds these trees and logs every rule-functor call in its context *)
Definition tree_term_f (t a l : nat) (p : spoint) : ptree := PLeaf t a l p.
Definition tree_err_f (p : spoint) : ptree := PErr p.
Definition tree_rule_f (r : nat) (log : list (nat * list ptree)) (args : list ptree) : list (nat * list ptree) * ptree :=
  (log ++ [(r, args)], PNode r args).

Section Eval.
  Variables V C : Type.
  Variable term_f : nat -> nat -> nat -> spoint -> V.
  Variable err_f : spoint -> V.
  Variable rule_f : nat -> C -> list V -> C * V.

  (* bottom-up, left-to-right evaluation threading the context: children first, then the rule's functor *)
  Fixpoint eval (t : ptree) (c : C) : C * V :=
    match t with
    | PLeaf a s l p => (c, term_f a s l p)
    | PErr p => (c, err_f p)
    | PNode r ch =>
        let '(c1, vs) :=
          (fix eval_list (l : list ptree) (c : C) : C * list V :=
             match l with
             | [] => (c, [])
             | x :: rest => let '(c1, v) := eval x c in
                            let '(c2, vs) := eval_list rest c1 in (c2, v :: vs)
             end) ch c in
        rule_f r c1 vs
    end.

  Fixpoint eval_list (l : list ptree) (c : C) : C * list V :=
    match l with
    | [] => (c, [])
    | x :: rest => let '(c1, v) := eval x c in
                   let '(c2, vs) := eval_list rest c1 in (c2, v :: vs)
    end.
End Eval.

(* the rule-functor calls of a tree in post-order: (rule, children) *)
Fixpoint post_calls (t : ptree) : list (nat * list ptree) :=
  match t with
  | PLeaf _ _ _ _ | PErr _ => []
  | PNode r ch => flat_map post_calls ch ++ [(r, ch)]
  end.

(* ---------- true line and column of an offset (C10) ---------- *)
(* a line ends at each '\n' (10); every other byte advances the column by one *)
Definition line_of (buf : list nat) (k : nat) : nat :=
  S (length (filter (Nat.eqb 10) (firstn k buf))).
(* number of bytes after the last '\n' of l *)
Fixpoint since_newline (l : list nat) : nat :=
  match l with
  | [] => 0
  | b :: t => if existsb (Nat.eqb 10) t then since_newline t
              else if Nat.eqb b 10 then length t else S (length t)
  end.
Definition col_of (buf : list nat) (k : nat) : nat := S (since_newline (firstn k buf)).
Definition true_pos (buf : list nat) (k : nat) : spoint := mkSp (line_of buf k) (col_of buf k).

(* ---------- the token stream a lexer defines on a buffer (C18) ---------- *)
Inductive tok_end := TokEof (pos : nat) | TokFail (pos : nat) | TokFuel.
(* positions are offsets into buf; each token is (term, start, len) *)
Fixpoint tokenize (fuel : nat) (o : options) (lexer : bool -> spoint -> list nat -> list lex_event * option (nat * nat))
         (buf : list nat) (pos : nat) : list (nat * nat * nat) * tok_end :=
  match fuel with
  | 0 => ([], TokFuel)
  | S f =>
      let rest0 := skipn pos buf in
      let k := if o_skip_ws o then count_ws o rest0 else 0 in
      let start := pos + k in
      match skipn k rest0 with
      | [] => ([], TokEof start)
      | rest =>
          match snd (lexer (o_verbose o) (true_pos buf start) rest) with
          | None => ([], TokFail start)
          | Some (t, len) =>
              let '(ts, e) := tokenize f o lexer buf (start + len) in ((t, start, len) :: ts, e)
          end
      end
  end.

(* the lexer's answers are within range on this buffer: positive length, inside the remaining input *)
Definition lexer_in_range (lexer : bool -> spoint -> list nat -> list lex_event * option (nat * nat)) : Prop :=
  forall v p rest t len, snd (lexer v p rest) = Some (t, len) -> 0 < len /\ len <= length rest.

(* ---------- value identities (C14) ---------- *)
Inductive vid := IdLeaf (start : nat) | IdErr | IdNode (k : nat).
Record ledger := mkLedger {
  lg_next : nat;                          (* next fresh node id *)
  lg_calls : list (nat * list vid * vid)  (* every rule-functor call: rule, argument ids (moved in), result id *)
}.
Definition id_term_f (_ a _ : nat) (_ : spoint) : vid := IdLeaf a.
Definition id_err_f (_ : spoint) : vid := IdErr.
Definition id_rule_f (r : nat) (l : ledger) (args : list vid) : ledger * vid :=
  (mkLedger (S (lg_next l)) (lg_calls l ++ [(r, args, IdNode (lg_next l))]), IdNode (lg_next l)).
Definition ledger0 := mkLedger 0 [].
