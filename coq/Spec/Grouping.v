(* What "operator expressions group by precedence, then by associativity" means for a derivation tree.
   Declarative; speaks about the grammar (its rules and its precedence tables, through [sr_choice] of
   Spec/Conflict.v) and about trees only: no item sets, no parse table, no parser.

   A derivation tree stores in [Node r _] the r_idx of the rule (its position in rules(...), Spec/Cfg.v), while
   [sr_choice] / [rule_prec_of] take the index of the rule in [rule_infos] (sorted by left side). [binop_at]
   relates the two. *)
Require Import Ctpg.Base.Prelude Ctpg.Model.Grammar Ctpg.Model.LRGen Ctpg.Spec.Cfg Ctpg.Spec.Conflict.

(* rule_info index i is a BINARY OPERATOR RULE  e -> e t e  (same nonterminal e three times, operator t);
   r is its r_idx, under which it occurs in trees *)
Definition binop_at (g : grammar) (i r e t : nat) : Prop :=
  exists ri, nth_error (rule_infos g) i = Some ri /\ ri_r ri = r /\ ri_l ri = e /\
             nth_error (right_sides g) r = Some [NT e; T t; NT e].

(* [is_rule g r e [NT e; T t; NT e]] of Spec/Cfg.v is [exists i, binop_at g i r e t] (Proofs/GroupingSpec.v, binop_at_is_rule) *)

(* the left operand L of  L t R  (an [e -> e t e] node): if L is itself an operator node  a t0 b  of e, by rule i0, then
   (a t0 b) t c  was grouped to the left because i0 wins against t: it binds tighter, or equally tight and
   left associative *)
Definition left_operand_ok (g : grammar) (e t : nat) (L : tree) : Prop :=
  match L with
  | Node r0 _ => forall i0 t0, binop_at g i0 r0 e t0 -> sr_choice g i0 t = KReduce
  | Leaf _ => True
  end.

(* the right operand R of  L t R  by rule i: if R is an operator node  b t2 c  of e, then  a t (b t2 c)  was grouped to
   the right because i does not win against t2 *)
Definition right_operand_ok (g : grammar) (i e : nat) (R : tree) : Prop :=
  match R with
  | Node r2 [_; Leaf t2; _] => forall i2, binop_at g i2 r2 e t2 -> sr_choice g i t2 = KShift
  | _ => True
  end.

Definition node_ok (g : grammar) (n : tree) : Prop :=
  match n with
  | Node r [L; Leaf t; R] =>
      forall i e, binop_at g i r e t -> left_operand_ok g e t L /\ right_operand_ok g i e R
  | _ => True
  end.

(* s is a node of t (t itself included) *)
Inductive subtree : tree -> tree -> Prop :=
| sub_refl t : subtree t t
| sub_child s r ch c : In c ch -> subtree s c -> subtree s (Node r ch).

(* EVERY operator node of the tree is grouped as the documented rule says *)
Definition well_grouped (g : grammar) (tr : tree) : Prop :=
  forall n, subtree n tr -> node_ok g n.

(* ---------- the same in the usual vocabulary: precedence levels and associativity of the operators ---------- *)

Definition term_assoc_of (g : grammar) (t : nat) : assoc := nth t (term_assoc g) NoAssoc.

(* the rule has no explicit precedence: its precedence and associativity are those of its operator
   (which is its last term) *)
Definition plain_rule (g : grammar) (i t : nat) : Prop :=
  rule_prec_of g i = term_prec_of g t /\ rule_assoc_of g i = term_assoc_of g t.

(* For every operator node  L t R  (rule i, without explicit precedence):
   - an operator node  a t0 b  as LEFT operand has an operator that is not of lower precedence than t, and if of
     equal precedence then t0 is left associative (so right-/non-associative operators never nest to the left);
   - an operator node  b t2 c  as RIGHT operand has an operator that is not of lower precedence than t, and if of
     equal precedence then t is not left associative (left associative operators never nest to the right).
   In particular a node of an operator of LOWER precedence is never a direct operand of a node of an operator of
   HIGHER precedence. *)
Definition node_by_precedence (g : grammar) (n : tree) : Prop :=
  match n with
  | Node r [L; Leaf t; R] =>
      forall i e, binop_at g i r e t -> plain_rule g i t ->
        match L with
        | Node r0 _ => forall i0 t0, binop_at g i0 r0 e t0 -> plain_rule g i0 t0 ->
                         (term_prec_of g t <= term_prec_of g t0)%Z /\
                         (term_prec_of g t0 = term_prec_of g t -> term_assoc_of g t0 = Ltor)
        | Leaf _ => True
        end /\
        match R with
        | Node r2 [_; Leaf t2; _] => forall i2, binop_at g i2 r2 e t2 ->
                         (term_prec_of g t <= term_prec_of g t2)%Z /\
                         (term_prec_of g t2 = term_prec_of g t -> term_assoc_of g t <> Ltor)
        | _ => True
        end
  | _ => True
  end.

Definition groups_by_precedence (g : grammar) (tr : tree) : Prop :=
  forall n, subtree n tr -> node_by_precedence g n.
