(* The instance of the generic driver that builds derivation trees over a sequence of terms:
   one input element per term (identity lexer, no whitespace skipping). C01/C02 are stated about it. *)
Require Import Ctpg.Base.Prelude Ctpg.Model.Grammar Ctpg.Model.LRGen Ctpg.Model.Driver Ctpg.Spec.Cfg.

Definition id_lexer (_ : bool) (_ : spoint) (rest : list nat) : list lex_event * option (nat * nat) :=
  match rest with
  | c :: _ => ([], Some (c, 1))
  | [] => ([], None)
  end.

Definition tree_opts := mkOpt false false false.

Definition tree_run (g : grammar) (tbl : table) (w : list nat) (fuel : nat) : result tree :=
  fst (fst (run tree unit g tbl tree_opts w None id_lexer
                (fun t _ _ _ => Leaf t) (fun _ => Leaf (err_idx g)) (fun r c args => (c, Node r args)) fuel tt)).

Definition accepts (g : grammar) (tbl : table) (w : list nat) (t : tree) : Prop :=
  exists fuel, tree_run g tbl w fuel = Accept t.
