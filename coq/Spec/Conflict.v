(* What an LR(1) conflict in one parse-table cell is, and the documented rule that resolves a
   shift/reduce conflict by precedence and associativity. Definitions only; written without reference to
   solve_conflict / scan_cell, so that the theorems of Proofs/CellResolve.v relate two independent texts.

   A "cell" is given by the items of one state that fall into one table column, in the order in which the
   generator visits them. For the column of term t these are the items with [T t] after the dot (shift items)
   and the completed items with lookahead t (reduce items). *)
Require Import Ctpg.Base.Prelude Ctpg.Model.Grammar Ctpg.Model.LRGen.

(* ---------- the items of a term column ---------- *)

Definition in_term_bucket (g : grammar) (t : nat) (its : list item) : Prop :=
  forall i, In i its ->
    (is_complete g i = true /\ it_t i = t) \/
    (is_complete g i = false /\ next_sym g i = Some (T t)).

Definition reduce_items (g : grammar) (its : list item) : list item := filter (is_complete g) its.
Definition shift_items (g : grammar) (its : list item) : list item :=
  filter (fun i => negb (is_complete g i)) its.

(* the item's rule is the root rule ## -> root *)
Definition is_root_item (g : grammar) (i : item) : bool :=
  Nat.eqb (ri_r (get_ri g (it_r i))) (root_rule_idx g).
(* [## -> root . , t] : reducing it means accepting *)
Definition root_complete (g : grammar) (i : item) : bool := is_complete g i && is_root_item g i.
Definition no_root_complete (g : grammar) (its : list item) : Prop :=
  forall i, In i its -> root_complete g i = false.

(* items of a real state never have the dot beyond the end of the rule; needed only where the statement
   speaks about rules (it_r) instead of items *)
Definition dots_in_range (g : grammar) (its : list item) : Prop :=
  forall i, In i its -> it_d i <= ri_n (get_ri g (it_r i)).

(* ---------- conflicts ---------- *)

Definition has_sr_conflict (g : grammar) (its : list item) : Prop :=
  exists i j, In i (reduce_items g its) /\ is_root_item g i = false /\ In j (shift_items g its).

(* accept counts as a reduction (of the root rule): accept/reduce is an R/R conflict.
   KNOWN DEVIATION (finding D12): the generator breaks out of its loop at a completed root item, so an
   accept/reduce conflict (and anything after the root item) leaves no mark; the theorems that relate this
   definition to the generator therefore assume that the cell holds no completed root item, and
   Proofs/CellResolve.v exhibits the deviation (success_hides_later_items, D12_accept_reduce_hidden). *)
Definition has_rr_conflict (g : grammar) (its : list item) : Prop :=
  exists i j, In i (reduce_items g its) /\ In j (reduce_items g its) /\ it_r i <> it_r j.

(* ---------- the documented resolution of a shift/reduce conflict ---------- *)

(* the precedence of a rule is its explicit precedence or else that of its last term; its associativity is that
   of its last term (both are tabulated per r_idx by the rule analysis, Model/Grammar.v) *)
Definition rule_prec_of (g : grammar) (rule_info_idx : nat) : Z :=
  nth (ri_r (get_ri g rule_info_idx)) (rule_prec g) 0%Z.
Definition rule_assoc_of (g : grammar) (rule_info_idx : nat) : assoc :=
  nth (ri_r (get_ri g rule_info_idx)) (rule_assoc g) NoAssoc.
Definition term_prec_of (g : grammar) (term : nat) : Z := nth term (term_prec g) 0%Z.

(* reduce if the rule binds tighter than the term, or equally tight and left associative; shift otherwise *)
Definition sr_choice (g : grammar) (rule_info_idx term : nat) : kind :=
  match Z.compare (rule_prec_of g rule_info_idx) (term_prec_of g term) with
  | Gt => KReduce
  | Eq => match rule_assoc_of g rule_info_idx with
          | Ltor => KReduce
          | Rtol => KShift
          | NoAssoc => KShift
          end
  | Lt => KShift
  end.

(* ---------- what a cell should record, as a function of the items visited ---------- *)

Definition advance (i : item) : item := mkItem (it_r i) (S (it_d i)) (it_t i).

(* remove repetitions, keeping first occurrences in order *)
Fixpoint dedup_first (l : list item) : list item :=
  match l with
  | [] => []
  | x :: t => x :: filter (fun y => negb (item_eqb x y)) (dedup_first t)
  end.

Definition first_red (g : grammar) (its : list item) : option nat :=
  option_map it_r (hd_error (reduce_items g its)).
Definition any_shift (g : grammar) (its : list item) : bool :=
  existsb (fun i => negb (is_complete g i)) its.
Definition target_kernel (g : grammar) (its : list item) : list item :=
  dedup_first (map advance (shift_items g its)).

Definition is_some {A} (o : option A) : bool := match o with Some _ => true | None => false end.

(* kind of a cell with at most one reduction (rule_info index [red]) and possibly shifts *)
Definition cell_kind (g : grammar) (t : nat) (red : option nat) (hs : bool) : kind :=
  match red, hs with
  | None, false => KError
  | None, true => KShift
  | Some _, false => KReduce
  | Some r, true => sr_choice g r t
  end.

Definition cell_state (g : grammar) (t : nat) (red : option nat) (hs : bool) (ker : list item) : scan :=
  mkScan (cell_kind g t red hs) (is_some red && hs) (is_some red) hs red ker.

(* the record expected after visiting all of [its] when nothing stops the visit *)
Definition cell_summary (g : grammar) (t : nat) (its : list item) : scan :=
  cell_state g t (first_red g its) (any_shift g its) (target_kernel g its).

Definition with_kind (k : kind) (s : scan) : scan :=
  mkScan k (sc_sr s) (sc_has_red s) (sc_has_shift s) (sc_red s) (sc_kernel s).

(* Where the visit stops. [pre] is visited completely, [i] is the item at which the loop breaks.
   - accept: a completed root item, met while at most one reduction has been seen;
   - R/R: a second reduction, met before any completed root item. *)
Definition stops_success (g : grammar) (its pre : list item) (i : item) (post : list item) : Prop :=
  its = pre ++ i :: post /\ root_complete g i = true /\
  no_root_complete g pre /\ length (reduce_items g pre) <= 1.
Definition stops_rr (g : grammar) (its pre : list item) (i : item) (post : list item) : Prop :=
  its = pre ++ i :: post /\ is_complete g i = true /\ is_root_item g i = false /\
  no_root_complete g pre /\ length (reduce_items g pre) = 1.
Definition never_stops (g : grammar) (its : list item) : Prop :=
  no_root_complete g its /\ length (reduce_items g its) <= 1.

(* the items visited before the loop stops (the item at which it breaks is not included);
   [seen] tells whether a reduction has been seen already *)
Fixpoint scanned (g : grammar) (its : list item) (seen : bool) : list item :=
  match its with
  | [] => []
  | i :: rest =>
      if is_complete g i then
        if is_root_item g i then []
        else if seen then [] else i :: scanned g rest true
      else i :: scanned g rest seen
  end.

(* ---------- the entry written into the table (transitions()) and its line in the diagnostic ---------- *)

(* the flag stored with the entry: for a reduce entry the C++ stores has_shift, otherwise the sr flag *)
Definition entry_flag (s : scan) : bool :=
  match sc_kind s with KReduce => sc_has_shift s | _ => sc_sr s end.

(* a cell that the diagnostic should mark as a conflict *)
Definition entry_kind (g : grammar) (col : nat) (k : kind) : kind :=
  match k with
  | KShift => if Nat.eqb col (nterm_count g + err_idx g) then KShiftErr else KShift
  | _ => k
  end.

Definition cell_conflict (e : entry) : bool :=
  match e_kind e with
  | KReduce | KShift | KShiftErr => e_sr e
  | KRR => true
  | _ => false
  end.
