(* C08 -- the DOCUMENTED error-recovery algorithm, written declaratively (definitions only; the proofs that the
   driver model refines it are in Proofs/RecoveryRefines.v, the worked examples in Proofs/RecoveryExamples.v).

   README (section "Error recovery") and the property text:
     "When a grammar uses the error symbol and a syntax error occurs, states are discarded from the top of the
      stack only until the topmost state that can accept the error symbol (discarding none if the current state
      already can), the error symbol is shifted, and input terms are then discarded until one that the parser
      can act on; parsing then continues normally. Recovery fails (empty result) exactly when no state on the
      stack accepts the error symbol or the input ends while discarding; values of states that are not
      discarded are kept."

   The specification speaks about the same configurations [pstate V C] as the driver (Model/Driver.v), so
   that "same state, same trace" can be stated as an equality. It does NOT reuse the driver's action function
   [act]; the only driver pieces used are the table lookup [cell], the lexer interface [get_current_term]
   (what is the next pending term) and [consume_term] (move past the pending term).

   Phases of one recovery:
     1. POP PHASE      [spec_pop_phase]  report once, find the topmost accepting state, drop what is above it;
     2. ERROR ACTION   (the table's action in the error-symbol column of the accepting state: a reduction --
                        then still recovering, and [spec_drop] applies again to the new stack -- or the shift of
                        the error symbol, which ends recovery mode and starts consume mode);
     3. CONSUME PHASE  [spec_consume]    discard pending terms until one has a non-error cell in the top state.
   [spec_run] chains the phases with the ordinary LR actions into a whole run. *)
Require Import Ctpg.Base.Prelude Ctpg.Model.Grammar Ctpg.Model.LRGen Ctpg.Model.Driver.

Section Recovery.
  (* the same parameters as Section Driver *)
  Variables V C : Type.
  Variable g : grammar.
  Variable tbl : table.
  Variable opts : options.
  Variable buf : list nat.
  Variable stack_cap : option nat.
  Variable lexer : bool -> spoint -> list nat -> list lex_event * option (nat * nat).
  Variable term_f : nat -> nat -> nat -> spoint -> V.
  Variable err_f : spoint -> V.
  Variable rule_f : nat -> C -> list V -> C * V.

  Notation pst := (pstate V C).

  (* ------------------------------------------------------------------------------------------------ *)
  (* Table vocabulary                                                                                  *)
  (* ------------------------------------------------------------------------------------------------ *)

  (* the column of term t (nonterminal columns come first) and the column of the error symbol *)
  Definition term_col (t : nat) : nat := nterm_count g + t.
  Definition err_col : nat := term_col (err_idx g).

  (* the kind of the cell (st, col); None = the table has no such cell (the C++ would read out of bounds) *)
  Definition cell_kind (st col : nat) : option kind :=
    match cell tbl st col with
    | inl e => Some (e_kind e)
    | inr _ => None
    end.

  (* "state st ACCEPTS the error symbol": its cell in the error-symbol column exists and is not an error cell *)
  Definition accepts_err (st : nat) : bool :=
    match cell_kind st err_col with
    | Some KError => false
    | Some _ => true
    | None => false
    end.

  (* "state st REJECTS the error symbol": the cell exists and is an error cell.
     (accepts_err st = false /\ rejects_err st = false  <->  the table has no such cell) *)
  Definition rejects_err (st : nat) : bool :=
    match cell_kind st err_col with
    | Some KError => true
    | _ => false
    end.

  (* the least k such that the k-th cursor from the top (k = 0: the top itself) accepts the error symbol;
     None if no cursor on the stack does.  This is the number of states the documentation allows to discard. *)
  Fixpoint drop_count (cursors : list nat) : option nat :=
    match cursors with
    | [] => None
    | st :: below => if accepts_err st then Some 0 else option_map S (drop_count below)
    end.

  (* Domain of the pop-phase specification: every state ABOVE the topmost accepting one (all states, if none
     accepts) has a cell in the error-symbol column, i.e. it really rejects the error symbol. Holds for every
     rectangular table whose rows cover the stacked states; outside it the C++ reads out of bounds and the
     model crashes (theorem [pop_phase_undefined_crashes]). *)
  Fixpoint pop_defined (cursors : list nat) : bool :=
    match cursors with
    | [] => true
    | st :: below => accepts_err st || (rejects_err st && pop_defined below)
    end.

  (* ------------------------------------------------------------------------------------------------ *)
  (* 1. The pop phase                                                                                  *)
  (* ------------------------------------------------------------------------------------------------ *)

  (* Dropping, for a configuration that is already in recovery mode (used again after a reduction on the
     error-symbol lookahead): exactly the top k cursors and the top k values go, nothing else changes; one
     RecoveringTo line per discarded state, naming the state that became the top.
       inl = an accepting state is on top now;   inr = the stack is exhausted: recovery failed (Reject). *)
  Definition spec_drop (s : pst) : (pst * list event) + (pst * list event) :=
    match drop_count (ps_cursors s) with
    | Some k =>
        inl (set_stacks s (skipn k (ps_cursors s)) (skipn k (ps_values s)),
             map (EvRecoveringTo (ps_sp s)) (firstn k (tl (ps_cursors s))))
    | None =>
        inr (set_stacks s [] (skipn (length (ps_cursors s)) (ps_values s)),
             map (EvRecoveringTo (ps_sp s)) (tl (ps_cursors s)) ++ [EvCouldNotRecover (ps_sp s)])
    end.

  (* The pop phase proper. Precondition (stated in the theorems, not here): s is in neither recovery nor consume
     mode, its stack is not empty, its pending term a = [term_or0 s] is known ([ps_term s = Some a]) and the
     cell (top state, a) is an error cell.
       - the error is reported ONCE: SyntaxError at the current position naming a, then EnterRecovery;
       - Some k: the top k cursors and the top k values are removed ([skipn k]); recovery mode is on; position,
         pending term and its extent, consume flag and context are those of s;
       - None: all cursors are discarded, the outcome is failure, the trace ends with CouldNotRecover. *)
  Definition spec_pop_phase (s : pst) : (pst * list event) + (pst * list event) :=
    let a := term_or0 s in
    let report := [EvSyntaxError (ps_sp s) a; EvEnterRecovery (ps_sp s)] in
    match drop_count (ps_cursors s) with
    | Some k =>
        inl (mkPS (skipn k (ps_cursors s)) (skipn k (ps_values s))
                  (ps_sp s) (ps_it s) (ps_end s) (ps_term s) true (ps_cons s) (ps_ctx s),
             report ++ map (EvRecoveringTo (ps_sp s)) (firstn k (tl (ps_cursors s))))
    | None =>
        inr (mkPS [] (skipn (length (ps_cursors s)) (ps_values s))
                  (ps_sp s) (ps_it s) (ps_end s) (ps_term s) true (ps_cons s) (ps_ctx s),
             report ++ map (EvRecoveringTo (ps_sp s)) (tl (ps_cursors s)) ++ [EvCouldNotRecover (ps_sp s)])
    end.

  (* ------------------------------------------------------------------------------------------------ *)
  (* 2. Acting on the error symbol (recovery mode, accepting state st on top)                          *)
  (* ------------------------------------------------------------------------------------------------ *)

  (* What the documentation calls "the error symbol is shifted": push the target state and the error value,
     leave recovery mode, enter consume mode. *)
  Definition spec_shift_err (s : pst) (target : nat) : pst * list event :=
    (mkPS (target :: ps_cursors s) (err_f (ps_sp s) :: ps_values s)
          (ps_sp s) (ps_it s) (ps_end s) (ps_term s) false true (ps_ctx s),
     [EvShiftErr (ps_sp s) target; EvLeaveRecovery (ps_sp s); EvEnterConsume (ps_sp s)]).

  (* ------------------------------------------------------------------------------------------------ *)
  (* 3. The consume phase                                                                              *)
  (* ------------------------------------------------------------------------------------------------ *)

  Inductive consume_outcome :=
  | CoResume (s : pst)     (* consume mode left; the pending term of s has a non-error cell in the top state
                              and is acted on normally (it was NOT discarded) *)
  | CoFail (s : pst)       (* recovery failed: <eof> reached while discarding, or the lexer failed; Reject *)
  | CoNoCell (s : pst)     (* the table has no cell for (top state, pending term): outside the specification
                              (the model crashes) *)
  | CoMore (s : pst).      (* fuel exhausted, still discarding *)

  (* the top state; it does not change during the phase *)
  Definition top_state (s : pst) : nat := hd 0 (ps_cursors s).

  (* From a configuration in consume mode: look at the pending term t (asking the lexer if there is none);
       - the lexer fails (its trace ends with UnexpectedChar)       -> fail;
       - cell (top, t) is an error cell and t is <eof>              -> fail (input ended while discarding);
       - cell (top, t) is an error cell, t is not <eof>             -> Consuming t; move past t; again;
       - cell (top, t) is not an error cell                         -> LeaveConsume; t stays pending. *)
  Fixpoint spec_consume (fuel : nat) (s : pst) : consume_outcome * list event :=
    match fuel with
    | 0 => (CoMore s, [])
    | S f =>
        let '(s1, ot, ev1) := get_current_term V C g opts buf lexer s in
        match ot with
        | None => (CoFail s1, ev1)
        | Some t =>
            match cell_kind (top_state s) (term_col t) with
            | None => (CoNoCell s1, ev1)
            | Some KError =>
                if Nat.eqb t (eof_idx g) then (CoFail s1, ev1)
                else let '(o, ev) := spec_consume f (consume_term V C buf s1) in
                     (o, ev1 ++ EvConsuming (ps_sp s1) t :: ev)
            | Some _ => (CoResume (set_modes s1 (ps_rec s1) false), ev1 ++ [EvLeaveConsume (ps_sp s1)])
            end
        end
    end.

  (* the terms a trace says were discarded *)
  Fixpoint discarded_terms (evs : list event) : list nat :=
    match evs with
    | [] => []
    | EvConsuming _ t :: r => t :: discarded_terms r
    | _ :: r => discarded_terms r
    end.

  (* ------------------------------------------------------------------------------------------------ *)
  (* The whole run                                                                                     *)
  (* ------------------------------------------------------------------------------------------------ *)

  (* Ordinary LR actions (shift, reduce, accept -- and the table's action on the error symbol once an accepting
     state is on top) are not re-specified here: they are the driver's [act] on a NON-error cell. [spec_run]
     says how they alternate with the recovery phases above. Result: final result, final configuration, all
     lines (verbose or not). None = the run left the domain of the recovery specification (a cell the
     algorithm must look at does not exist in the table). Fuel counts phases, not driver iterations. *)
  Definition ordinary (s : pst) (t : nat) : (pst + result V * pst) * list event :=
    act V C g tbl buf stack_cap term_f err_f rule_f s (top_state s) t.

  Definition is_error_cell (st col : nat) : bool :=
    match cell_kind st col with Some KError => true | _ => false end.

  Definition prepend (ev : list event) (x : option (result V * pst * list event)) :=
    match x with
    | Some (r, s, ev') => Some (r, s, ev ++ ev')
    | None => None
    end.

  Fixpoint spec_run (fuel : nat) (s : pst) : option (result V * pst * list event) :=
    match fuel with
    | 0 => Some (OutOfFuel, s, [])
    | S f =>
        (* after an ordinary action: stop with its result, or go on *)
        let continue (x : (pst + result V * pst) * list event) :=
          match x with
          | (inl s', ev) => prepend ev (spec_run f s')
          | (inr (r, s'), ev) => Some (r, s', ev)
          end in
        match ps_cursors s with
        | [] => Some (Crash CrEmptyStack, s, [])
        | top :: _ =>
            if ps_cons s then
              (* 3. discard terms; then act on the first term that is not discarded *)
              match spec_consume (S f) s with
              | (CoResume s', ev) => prepend ev (continue (ordinary s' (term_or0 s')))
              | (CoFail s', ev) => Some (Reject, s', ev)
              | (CoMore s', ev) => Some (OutOfFuel, s', ev)
              | (CoNoCell _, _) => None
              end
            else if ps_rec s then
              (* 2. recovering: make an accepting state the top (no new report), then its action on the error symbol *)
              if pop_defined (ps_cursors s) then
                match spec_drop s with
                | inl (s', ev) => prepend ev (continue (ordinary s' (err_idx g)))
                | inr (s', ev) => Some (Reject, s', ev)
                end
              else None
            else
              (* normal mode: next term; an error cell starts 1. the pop phase *)
              let '(s1, ot, ev1) := get_current_term V C g opts buf lexer s in
              match ot with
              | None => Some (Reject, s1, ev1)
              | Some a =>
                  if is_error_cell top (term_col a) then
                    if pop_defined (ps_cursors s) then
                      match spec_pop_phase s1 with
                      | inl (s', ev) => prepend (ev1 ++ ev) (spec_run f s')
                      | inr (s', ev) => Some (Reject, s', ev1 ++ ev)
                      end
                    else None
                  else prepend ev1 (continue (ordinary s1 a))
              end
        end
    end.

  (* ------------------------------------------------------------------------------------------------ *)
  (* Traces: every reported error is answered by a shift of the error symbol before the next report    *)
  (* ------------------------------------------------------------------------------------------------ *)

  (* [err_track open evs]: read the trace with one bit "a reported error is still open (not yet answered by
     ShiftErr)". None = a second SyntaxError while one is open. *)
  Fixpoint err_track (open : bool) (evs : list event) : option bool :=
    match evs with
    | [] => Some open
    | EvSyntaxError _ _ :: r => if open then None else err_track true r
    | EvShiftErr _ _ :: r => err_track false r
    | _ :: r => err_track open r
    end.

  (* ------------------------------------------------------------------------------------------------ *)
  (* Why a run ends with Reject                                                                        *)
  (* ------------------------------------------------------------------------------------------------ *)

  (* the three documented reasons, as properties of the configuration at the head of the last iteration *)
  Definition stack_exhausted (s : pst) : Prop :=          (* the last stacked state rejects the error symbol *)
    ps_rec s = true /\ ps_cons s = false /\ exists st, ps_cursors s = [st] /\ rejects_err st = true.
  Definition eof_while_discarding (s : pst) : Prop :=
    ps_rec s = false /\ ps_cons s = true /\ ps_cursors s <> [] /\
    exists s1 ev1, get_current_term V C g opts buf lexer s = (s1, Some (eof_idx g), ev1) /\
                   cell_kind (top_state s) (term_col (eof_idx g)) = Some KError.
  Definition lexical_failure (s : pst) : Prop :=           (* while discarding if ps_cons s, else in normal mode *)
    ps_cursors s <> [] /\ exists s1 ev1, get_current_term V C g opts buf lexer s = (s1, None, ev1).
End Recovery.

Arguments CoResume {V C}. Arguments CoFail {V C}. Arguments CoNoCell {V C}. Arguments CoMore {V C}.
Arguments top_state {V C}. Arguments prepend {V C}.
