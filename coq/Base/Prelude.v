(* Shared basics for the ctpg model. Stdlib only. *)
From Coq Require Export List Arith ZArith Lia Bool.
Export ListNotations.

Fixpoint update {A} (l : list A) (n : nat) (x : A) : list A :=
  match l, n with
  | [], _ => []
  | _ :: t, 0 => x :: t
  | h :: t, S n => h :: update t n x
  end.

Definition nth_d {A} (d : A) (l : list A) (n : nat) : A := nth n l d.

Fixpoint mem_nat (x : nat) (l : list nat) : bool :=
  match l with [] => false | y :: t => if Nat.eqb x y then true else mem_nat x t end.

Fixpoint list_eqb {A} (eqb : A -> A -> bool) (a b : list A) : bool :=
  match a, b with
  | [], [] => true
  | x :: a', y :: b' => eqb x y && list_eqb eqb a' b'
  | _, _ => false
  end.

(* bit sets as boolean lists of fixed length (cbitset) *)
Definition bset := list bool.
Definition bset_empty (n : nat) : bset := repeat false n.
Definition bset_test (s : bset) (i : nat) : bool := nth i s false.
Definition bset_set (s : bset) (i : nat) : bset := update s i true.
Fixpoint bset_or (a b : bset) : bset :=
  match a, b with
  | x :: a', y :: b' => (x || y) :: bset_or a' b'
  | _, _ => a
  end.
Definition bset_eqb (a b : bset) : bool := list_eqb Bool.eqb a b.
