(* An additional boolean check on the dumped item sets, needed for MEMORY SAFETY of the driver (not for the
   language theorems): every dot-0 item of a state (other than the root item in state 0) was put there by the closure
   of some item of the same state whose next symbol is the left side of the dot-0 item's rule.  With [goto_ok] this
   makes the goto cell read after a reduction carry a target.  Real LR(1) item sets satisfy it.
   Definitions only; the theorems are in Proofs/SafeDriver.v. *)
Require Import Ctpg.Base.Prelude Ctpg.Model.Grammar Ctpg.Model.LRGen Ctpg.Valid.LRValid.

(* item j "calls" nonterminal l: its next symbol is NT l *)
Definition calls (g : grammar) (l : nat) (j : item) : bool :=
  match next_sym g j with
  | Some (NT b) => Nat.eqb b l
  | _ => false
  end.

(* some item of [its] has, after its dot, the left side of i's rule *)
Definition has_parent (g : grammar) (its : items) (i : item) : bool :=
  existsb (calls g (ri_l (get_ri g (it_r i)))) its.

Definition closure_min_state (g : grammar) (sts : list items) (s : nat) : bool :=
  forallb (fun i => negb (Nat.eqb (it_d i) 0)
                    || (Nat.eqb s 0 && item_eqb i (root_item g))
                    || has_parent g (state_items sts s) i)
          (state_items sts s).

Definition closure_min_ok (g : grammar) (sts : list items) : bool :=
  forallb (closure_min_state g sts) (seq 0 (length sts)).

(* the check under which the driver is proved memory safe *)
Definition validate_safe (g : grammar) (sts : list items) (tbl : table) : bool :=
  validate g sts tbl && closure_min_ok g sts.

(* What the safety proof really uses: the sound part of the validator, the NONTERMINAL half of [goto_ok]
   (an incomplete item with a nonterminal after the dot has a goto with a target) and [closure_min_ok].
   Unlike [validate] this also holds of tables with resolved shift/reduce conflicts (e.g. the pattern grammar):
   a conflict can remove the shift of a term, never the goto of a nonterminal. *)
Definition goto_nt_ok (g : grammar) (sts : list items) (tbl : table) (s : nat) : bool :=
  forallb (fun i =>
    if is_complete g i then true else
    match next_sym g i with
    | Some (NT b) => match goto_target g tbl s (NT b) with Some _ => true | None => false end
    | _ => true
    end) (state_items sts s).

Definition safe_ok (g : grammar) (sts : list items) (tbl : table) : bool :=
  table_sound_ok g sts tbl &&
  forallb (goto_nt_ok g sts tbl) (seq 0 (length sts)) &&
  closure_min_ok g sts.

(* ---------- a much weaker, purely dimensional check: enough for the table / rule-info indices alone ----------
   n = the number of table rows in use (the states).  It says nothing about conflicts or about the item sets. *)
Definition targets_row (e : entry) (n : nat) : bool :=
  match e_arg e with Some s' => Nat.ltb s' n | None => true end.

Definition cell_wf (g : grammar) (n c : nat) (e : entry) : bool :=
  if Nat.ltb c (nterm_count g)
  then (* goto column: reduce() uses the argument as a state whatever the kind *)
       targets_row e n
  else match e_kind e with
       | KShift | KShiftErr => targets_row e n
       | KReduce | KRR => match e_arg e with Some r => Nat.ltb r (rule_count g) | None => true end
       | KError | KSuccess => true
       end.

Definition table_wfb (g : grammar) (tbl : table) (n : nat) : bool :=
  Nat.ltb 0 (term_count g) &&
  Nat.eqb (length (rule_infos g)) (rule_count g) &&
  forallb (fun ri => Nat.ltb (ri_l ri) (nterm_count g)) (rule_infos g) &&
  Nat.ltb 0 n && Nat.leb n (length tbl) &&
  forallb (fun s => Nat.eqb (length (nth s tbl [])) (symbol_count g) &&
                    forallb (fun c => cell_wf g n c (cell_at tbl s c)) (seq 0 (symbol_count g)))
          (seq 0 n).
