(* A validator for lexer automata (regex::expr and the term-set lexer), based on Brzozowski derivatives.
   Definitions only (executable: vm_compute / extraction). Soundness is in Proofs/DfaValidSound.v; it says
   nothing about how the automaton was produced.

   The automaton is explored together with the vector of derivatives of the term patterns; the explored set is
   computed by an untrusted search ([collect]) and then checked to be closed and consistent ([check_closed]). *)
Require Import Ctpg.Base.Prelude Ctpg.Model.Driver Ctpg.Model.Dfa.

(* ---------- regular expressions for derivatives ---------- *)
(* Character sets are not stored in the expressions: [Chr k] denotes entry k of a dictionary [D : list charset]
   (all the sets occurring in the term patterns, see [dict_of]). Equal sets get equal keys, so comparing two
   expressions never compares 256-entry tables. *)
Inductive re :=
| Emp | Eps
| Chr (k : nat)
| Cat (a b : re) | Alt (a b : re)
| Star (a : re).

Fixpoint re_eqb (a b : re) : bool :=
  match a, b with
  | Emp, Emp => true
  | Eps, Eps => true
  | Chr k, Chr l => Nat.eqb k l
  | Cat a1 a2, Cat b1 b2 => re_eqb a1 b1 && re_eqb a2 b2
  | Alt a1 a2, Alt b1 b2 => re_eqb a1 b1 && re_eqb a2 b2
  | Star a1, Star b1 => re_eqb a1 b1
  | _, _ => false
  end.

Fixpoint rep_re (r : re) (n : nat) : re :=
  match n with 0 => Eps | S m => Cat r (rep_re r m) end.

(* the dictionary: every character set of every term, in order of occurrence (duplicates are harmless:
   the key of a set is the index of its first occurrence) *)
Fixpoint charsets_of (r : regex) : list charset :=
  match r with
  | RSet s => [s]
  | RStar a | RPlus a | ROpt a | RRep a _ => charsets_of a
  | RCat a b | RAlt a b => charsets_of a ++ charsets_of b
  end.
Definition dict_of (terms : list term_data) : list charset :=
  flat_map (fun t => charsets_of (regex_of_term t)) terms.

Fixpoint find_idx (s : charset) (D : list charset) (i : nat) : option nat :=
  match D with
  | [] => None
  | x :: t => if list_eqb Bool.eqb s x then Some i else find_idx s t (S i)
  end.

Fixpoint re_of (D : list charset) (r : regex) : re :=
  match r with
  | RSet s => match find_idx s D 0 with Some k => Chr k | None => Emp (* not in the dictionary: never happens *) end
  | RStar a => Star (re_of D a)
  | RPlus a => Cat (re_of D a) (Star (re_of D a))
  | ROpt a => Alt (re_of D a) Eps
  | RRep a n => rep_re (re_of D a) n
  | RCat a b => Cat (re_of D a) (re_of D b)
  | RAlt a b => Alt (re_of D a) (re_of D b)
  end.

(* ---------- smart constructors ---------- *)
(* concatenation: Emp absorbs, Eps is a unit, chains are nested to the right *)
Fixpoint cat_app (a b : re) : re :=
  match a with
  | Cat a1 a2 => Cat a1 (cat_app a2 b)
  | _ => Cat a b
  end.
Definition mk_cat (a b : re) : re :=
  match a, b with
  | Emp, _ => Emp
  | _, Emp => Emp
  | Eps, _ => b
  | _, Eps => a
  | _, _ => cat_app a b
  end.

(* alternation: Emp is a unit, chains are nested to the right, an alternative that already occurs is dropped
   (associativity and idempotence; the first occurrence is kept) *)
Fixpoint alt_mem (x chain : re) : bool :=
  match chain with
  | Alt a b => re_eqb x a || alt_mem x b
  | _ => re_eqb x chain
  end.
Fixpoint alt_end (chain x : re) : re :=
  match chain with
  | Alt a b => Alt a (alt_end b x)
  | Emp => x
  | _ => Alt chain x
  end.
Definition alt_snoc (chain x : re) : re :=
  match x with
  | Emp => chain
  | _ => if alt_mem x chain then chain else alt_end chain x
  end.
Fixpoint alt_add (a b : re) : re :=
  match b with
  | Alt b1 b2 => alt_add (alt_snoc a b1) b2
  | _ => alt_snoc a b
  end.
Definition mk_alt (a b : re) : re := alt_add a b.

Definition mk_star (a : re) : re :=
  match a with
  | Star _ => a
  | Eps | Emp => Eps
  | _ => Star a
  end.

Fixpoint norm (r : re) : re :=
  match r with
  | Cat a b => mk_cat (norm a) (norm b)
  | Alt a b => mk_alt (norm a) (norm b)
  | Star a => mk_star (norm a)
  | _ => r
  end.

(* ---------- nullable, derivative, emptiness ---------- *)
Fixpoint nullable (r : re) : bool :=
  match r with
  | Emp => false
  | Eps => true
  | Chr _ => false
  | Cat a b => nullable a && nullable b
  | Alt a b => nullable a || nullable b
  | Star _ => true
  end.

Section Dict.
Variable D : list charset.
Definition cset (k : nat) : charset := nth k D [].

Fixpoint deriv (c : nat) (r : re) : re :=
  match r with
  | Emp | Eps => Emp
  | Chr k => if nth c (cset k) false then Eps else Emp
  | Cat a b =>
      if nullable a then mk_alt (mk_cat (deriv c a) b) (deriv c b) else mk_cat (deriv c a) b
  | Alt a b => mk_alt (deriv c a) (deriv c b)
  | Star a => mk_cat (deriv c a) r
  end.

(* true only when the language is empty *)
Fixpoint is_empty (r : re) : bool :=
  match r with
  | Emp => true
  | Eps => false
  | Chr k => forallb negb (cset k)
  | Cat a b => is_empty a || is_empty b
  | Alt a b => is_empty a && is_empty b
  | Star _ => false
  end.

(* ---------- the product of the automaton with the derivative vectors ---------- *)
Definition vec := list re.
Definition vec_eqb (a b : vec) : bool := list_eqb re_eqb a b.
Definition vec_mem (v : vec) (l : list vec) : bool := existsb (vec_eqb v) l.

(* the explored set of pairs (automaton state q, vector v), indexed by q: row q lists the vectors paired with q *)
Definition table := list (list vec).
Definition row (tab : table) (q : nat) : list vec := nth q tab [].
Definition tab_add (tab : table) (q : nat) (v : vec) : table := update tab q (v :: row tab q).
Definition pairs_of (tab : table) : list (nat * vec) :=
  flat_map (fun q => map (fun v => (q, v)) (row tab q)) (seq 0 (length tab)).

Definition v0_of (terms : list term_data) : vec := map (fun t => norm (re_of D (regex_of_term t))) terms.

(* least index of a nullable component *)
Fixpoint first_nullable (i : nat) (v : vec) : option nat :=
  match v with
  | [] => None
  | r :: t => if nullable r then Some i else first_nullable (S i) t
  end.

Definition opt_nat_eqb (a b : option nat) : bool :=
  match a, b with
  | Some x, Some y => Nat.eqb x y
  | None, None => true
  | _, _ => false
  end.

(* -- untrusted search -- *)
Definition pair_eqb (a b : nat * vec) : bool := Nat.eqb (fst a) (fst b) && vec_eqb (snd a) (snd b).
Fixpoint dedup (l acc : list (nat * vec)) : list (nat * vec) :=
  match l with
  | [] => rev acc
  | x :: t => if existsb (pair_eqb x) acc then dedup t acc else dedup t (x :: acc)
  end.
Definition succs (d : dstate) (v : vec) : list (nat * vec) :=
  flat_map (fun c => match nth c (d_trans d) None with
                     | Some q' => [(q', map (deriv c) v)]
                     | None => []
                     end) (seq 0 256).

Fixpoint collect (fuel : nat) (sm : dfa) (todo : list (nat * vec)) (seen : table) : option table :=
  match fuel with
  | 0 => None
  | S f =>
      match todo with
      | [] => Some seen
      | (q, v) :: rest =>
          if vec_mem v (row seen q) then collect f sm rest seen else
          match nth_error sm q with
          | None => None
          | Some d =>
              let seen' := tab_add seen q v in
              let new := filter (fun p => negb (vec_mem (snd p) (row seen' (fst p)))) (dedup (succs d v) []) in
              collect f sm (new ++ rest) seen'
          end
      end
  end.

(* -- the checked part -- *)
Definition check_pair (tab : table) (d : dstate) (v : vec) : bool :=
  opt_nat_eqb (hd_error (d_rec d)) (first_nullable 0 v) &&
  forallb (fun c =>
             let v' := map (deriv c) v in
             match nth c (d_trans d) None with
             | Some q' => vec_mem v' (row tab q')
             | None => forallb is_empty v'
             end) (seq 0 256).

Definition check_closed (sm : dfa) (tab : table) (v0 : vec) : bool :=
  vec_mem v0 (row tab 0) &&
  forallb (fun q =>
             match nth_error sm q with
             | Some d => Nat.eqb (length (d_trans d)) 256 && forallb (check_pair tab d) (row tab q)
             | None => match row tab q with [] => true | _ => false end
             end) (seq 0 (length tab)).

End Dict.

Definition collect_fuel (sm : dfa) : nat := 1024 * (length sm + 8).

Definition lexer_ok (sm : dfa) (terms : list term_data) : bool :=
  let D := dict_of terms in
  let v0 := v0_of D terms in
  match collect D (collect_fuel sm) sm [(0, v0)] (repeat [] (length sm)) with
  | Some tab => check_closed D sm tab v0
  | None => false
  end.

Definition expr_ok (sm : dfa) (r : regex) : bool := lexer_ok sm [TRegex r].
