(* A validator for LR(1) tables whose shift/reduce conflicts were resolved by the documented precedence rule
   (Spec/Conflict.v, [sr_choice]). Boolean definitions only; the Prop reading is in Proofs/GroupingFacts.v and
   the theorem that uses it ("operator expressions group by precedence, then associativity") in Proofs/Grouping.v.

   [validate] (Valid/LRValid.v) fails on every table with a conflict, because a resolved cell drops either the
   shift or the reduction, so [goto_ok] or [reduce_ok] fails. Here the item sets must still be closed
   ([closure_ok]) and complete under transitions, but per CELL the requirement is the resolved one.

   For a state s and a term t:
     R  = the completed items of s, not of the root rule, with lookahead t    ([red_items])
     Sh = the items of s with [T t] after the dot                              ([sh_items])
   - R = [], Sh = []           : nothing beyond [cell_justified]
   - R = [], Sh <> []          : the cell is a shift into a state holding all advanced Sh items
   - R = {rule r}, Sh = []     : the cell is the reduction by r
   - R = {rule r}, Sh <> []    : [sr_choice g r t] decides: KReduce -> the reduction by r,
                                 KShift -> a shift into a state holding all advanced Sh items
   - two different rules in R  : REJECTED (reduce/reduce). ctpg does not resolve reduce/reduce conflicts: the
                                 generator writes an [KRR] cell, which [table_sound_ok] rejects anyway, so nothing
                                 that the generator can produce and [validate_sound] accepts is lost.
   A completed root item demands [KSuccess] in the <eof> column (as [reduce_ok] does), so the hidden
   accept/reduce conflict (finding D12) is rejected as well. Nonterminal columns are as in [goto_ok]. *)
Require Import Ctpg.Base.Prelude Ctpg.Model.Grammar Ctpg.Model.LRGen Ctpg.Spec.Conflict Ctpg.Valid.LRValid.

Section Resolved.
  Variable g : grammar.
  Variable sts : list items.
  Variable tbl : table.
  Variable ne : bset.
  Variable nf : list bset.

  Definition is_red_item (t : nat) (i : item) : bool :=
    is_complete g i && negb (Nat.eqb (it_r i) (root_rule_idx g)) && Nat.eqb (it_t i) t.
  Definition is_sh_item (t : nat) (i : item) : bool :=
    negb (is_complete g i) &&
    match next_sym g i with Some (T t') => Nat.eqb t' t | _ => false end.

  Definition red_items (s t : nat) : items := filter (is_red_item t) (state_items sts s).
  Definition sh_items (s t : nat) : items := filter (is_sh_item t) (state_items sts s).

  (* the transition of s on x exists (in the sense of [goto_target]) and its target holds the advanced
     item of every item of l *)
  Definition target_has (s : nat) (x : symbol) (l : items) : bool :=
    match goto_target g tbl s x with
    | Some s' => Nat.ltb s' (length sts) && forallb (fun i => mem_item (advance i) (state_items sts s')) l
    | None => false
    end.

  (* the cell (s, t) is the reduction by rule_info r *)
  Definition reduce_is (s t r : nat) : bool :=
    let e := cell_at tbl s (col_of_term g t) in
    kind_eqb (e_kind e) KReduce && match e_arg e with Some r' => Nat.eqb r' r | None => false end.

  Definition cell_resolved (s t : nat) : bool :=
    let Sh := sh_items s t in
    match red_items s t with
    | [] => match Sh with [] => true | _ :: _ => target_has s (T t) Sh end
    | i :: R' =>
        forallb (fun j => Nat.eqb (it_r j) (it_r i)) R' &&          (* reduce/reduce is rejected *)
        match Sh with
        | [] => reduce_is s t (it_r i)
        | _ :: _ => match sr_choice g (it_r i) t with
                    | KReduce => reduce_is s t (it_r i)
                    | _ => target_has s (T t) Sh
                    end
        end
    end.

  (* nonterminal columns: as in [goto_ok] *)
  Definition nt_goto_ok (s : nat) : bool :=
    forallb (fun i =>
      if is_complete g i then true else
      match next_sym g i with
      | Some (NT b) => target_has s (NT b) [i]
      | _ => true
      end) (state_items sts s).

  (* a completed root item: accept on <eof>, as in [reduce_ok] *)
  Definition accept_ok (s : nat) : bool :=
    forallb (fun i =>
      if is_complete g i && Nat.eqb (it_r i) (root_rule_idx g)
      then kind_eqb (e_kind (cell_at tbl s (col_of_term g (it_t i)))) KSuccess && Nat.eqb (it_t i) (eof_idx g)
      else true) (state_items sts s).

  Definition state_resolved (s : nat) : bool :=
    closure_ok g sts ne nf s && nt_goto_ok s && accept_ok s &&
    forallb (cell_resolved s) (seq 0 (term_count g)).

  Definition resolved_ok : bool :=
    table_sound_ok g sts tbl && tables_closed g ne nf &&
    forallb state_resolved (seq 0 (length sts)).
End Resolved.

(* as [validate]: nullable/FIRST are computed by the mirror's iteration and then only checked for closedness *)
Definition validate_resolved (g : grammar) (sts : list items) (tbl : table) : bool :=
  let ne := nterm_empty g in
  let nf := nterm_first g ne in
  resolved_ok g sts tbl ne nf.
