(* A validator for LR(1) tables: a boolean check on (grammar, item sets, table) as dumped from the real
   ctpg parser (or produced by the mirror LRGen.gen). Its soundness/completeness theorems are in Proofs/LRSound.v
   and Proofs/LRComplete.v; they say nothing about how the table was produced. *)
Require Import Ctpg.Base.Prelude Ctpg.Model.Grammar Ctpg.Model.LRGen.

Definition items := list item.

Section Validator.
  Variable g : grammar.
  Variable sts : list items.      (* item set of every state *)
  Variable tbl : table.

  Definition cell_at (s c : nat) : entry := nth c (nth s tbl []) entry_default.
  Definition state_items (s : nat) : items := nth s sts [].

  (* --- the grammar record is coherent --- *)
  Definition ri_ok (i : nat) (ri : rule_info) : bool :=
    Nat.ltb (ri_r ri) (rule_count g) && Nat.ltb (ri_l ri) (nterm_count g) &&
    Nat.eqb (ri_n ri) (length (get_rhs g (ri_r ri))).
  Definition sym_ok (s : symbol) : bool :=
    match s with T i => Nat.ltb i (term_count g) | NT i => Nat.ltb i (nterm_count g) end.
  (* slices: for every nonterminal A, the rule_infos with left side A are exactly those at start .. start+n-1 *)
  Definition slice_ok (a : nat) : bool :=
    let '(st, n) := nth a (slices g) (0, 0) in
    forallb (fun i => Bool.eqb (Nat.eqb (ri_l (get_ri g i)) a) (Nat.leb st i && Nat.ltb i (st + n)))
            (seq 0 (rule_count g)).
  Definition distinct_r : bool :=
    forallb (fun i => forallb (fun j => Nat.eqb i j || negb (Nat.eqb (ri_r (get_ri g i)) (ri_r (get_ri g j))))
                              (seq 0 (rule_count g))) (seq 0 (rule_count g)).
  Definition grammar_wf : bool :=
    Nat.ltb 1 (term_count g) && Nat.ltb 0 (nterm_count g) && Nat.ltb 0 (rule_count g) &&
    Nat.eqb (length (rule_infos g)) (rule_count g) && Nat.eqb (length (right_sides g)) (rule_count g) &&
    Nat.eqb (length (slices g)) (nterm_count g) &&
    forallb (fun i => ri_ok i (get_ri g i)) (seq 0 (rule_count g)) &&
    forallb (fun r => forallb sym_ok r) (right_sides g) &&
    forallb slice_ok (seq 0 (nterm_count g)) && distinct_r &&
    (* the root rule: last rule_info, ## -> one nonterminal, and ## occurs in no right side *)
    Nat.eqb (ri_r (get_ri g (root_rule_idx g))) (root_rule_idx g) &&
    Nat.eqb (ri_l (get_ri g (root_rule_idx g))) (fake_root_idx g) &&
    match get_rhs g (root_rule_idx g) with [NT _] => true | _ => false end &&
    forallb (fun i => Nat.eqb i (root_rule_idx g) || negb (Nat.eqb (ri_l (get_ri g i)) (fake_root_idx g))) (seq 0 (rule_count g)) &&
    forallb (fun r => forallb (fun s => negb (symbol_eqb s (NT (fake_root_idx g))) && negb (symbol_eqb s (T (eof_idx g)))) r) (right_sides g).

  (* --- nullable / FIRST tables: only closedness under the rules is needed (any closed pair contains the true sets) --- *)
  Variable ne : bset.
  Variable nf : list bset.

  Definition tables_closed : bool :=
    Nat.eqb (length ne) (nterm_count g) && Nat.eqb (length nf) (nterm_count g) &&
    forallb (fun f => Nat.eqb (length f) (term_count g)) nf &&
    forallb (fun ri =>
               (* nullable closed *)
               (negb (all_nullable ne (get_rhs g (ri_r ri))) || bset_test ne (ri_l ri)) &&
               (* FIRST closed: FIRST(rhs) is contained in FIRST(lhs) *)
               let f := first_of_syms g ne nf (bset_empty (term_count g)) (get_rhs g (ri_r ri)) in
               forallb (fun t => negb (bset_test f t) || bset_test (nth (ri_l ri) nf []) t) (seq 0 (term_count g)))
            (rule_infos g).

  (* FIRST(beta t) for the tail beta of a right side and a lookahead t *)
  Definition first_tail (beta : list symbol) (t : nat) : bset :=
    let f := first_of_syms g ne nf (bset_empty (term_count g)) beta in
    if all_nullable ne beta then bset_set f t else f.

  Definition item_ok (i : item) : bool :=
    Nat.ltb (it_r i) (rule_count g) && Nat.leb (it_d i) (ri_n (get_ri g (it_r i))) && Nat.ltb (it_t i) (term_count g).

  Definition col_of_term (t : nat) : nat := nterm_count g + t.

  (* the shift/goto expected in state s for symbol x: kind and target *)
  Definition goto_target (s : nat) (x : symbol) : option nat :=
    let e := cell_at s (sym_col g x) in
    match e_kind e, x with
    | KShift, T t => if Nat.eqb t (err_idx g) then None else e_arg e
    | KShiftErr, T t => if Nat.eqb t (err_idx g) then e_arg e else None
    | KShift, NT _ => e_arg e
    | _, _ => None
    end.

  (* V2: closure. For [A -> alpha . B beta, t] in the state and every rule B -> gamma and every t' in FIRST(beta t):
         [B -> . gamma, t'] is in the state. *)
  Definition closure_ok (s : nat) : bool :=
    let its := state_items s in
    forallb (fun i =>
      match next_sym g i with
      | Some (NT b) =>
          if is_complete g i then true else
          let beta := skipn (S (it_d i)) (rhs_of g i) in
          let f := first_tail beta (it_t i) in
          let '(st, n) := nth b (slices g) (0, 0) in
          forallb (fun k => forallb (fun t' => negb (bset_test f t') || mem_item (mkItem (st + k) 0 t') its)
                                    (seq 0 (term_count g))) (seq 0 n)
      | _ => true
      end) its.

  (* V3: every item with the dot before X has a shift/goto on X into a state containing the advanced item *)
  Definition goto_ok (s : nat) : bool :=
    forallb (fun i =>
      if is_complete g i then true else
      match next_sym g i with
      | Some x => match goto_target s x with
                  | Some s' => Nat.ltb s' (length sts) && mem_item (mkItem (it_r i) (S (it_d i)) (it_t i)) (state_items s')
                  | None => false
                  end
      | None => false
      end) (state_items s).

  (* V4: every completed item has its reduce (or success) in the column of its lookahead *)
  Definition reduce_ok (s : nat) : bool :=
    forallb (fun i =>
      if is_complete g i then
        let e := cell_at s (col_of_term (it_t i)) in
        if Nat.eqb (it_r i) (root_rule_idx g)
        then kind_eqb (e_kind e) KSuccess && Nat.eqb (it_t i) (eof_idx g)
        else kind_eqb (e_kind e) KReduce && match e_arg e with Some r => Nat.eqb r (it_r i) | None => false end
      else true) (state_items s).

  (* V5: every action of the table is justified by an item of the state (soundness side) *)
  Definition cell_justified (s c : nat) : bool :=
    let e := cell_at s c in
    let its := state_items s in
    match e_kind e with
    | KError =>
        (* the driver's reduce reads the goto cell's target WITHOUT looking at its kind: an error cell in a
           nonterminal column must not carry a target *)
        Nat.leb (nterm_count g) c || match e_arg e with None => true | Some _ => false end
    | KShift | KShiftErr =>
        match e_arg e with
        | None => false
        | Some s' =>
            (* shift_error pushes the error token's value and does not consume the current term:
               it is justified in the error symbol's column only *)
            (negb (kind_eqb (e_kind e) KShiftErr) || Nat.eqb c (col_of_term (err_idx g))) &&
            Nat.ltb s' (length sts) && negb (Nat.eqb s' 0) &&
            (* the column is that of a real symbol x, and every item of s' with dot > 0 is an advanced item of s over x *)
            forallb (fun j =>
                       match it_d j with
                       | 0 => true
                       | S d => mem_item (mkItem (it_r j) d (it_t j)) its &&
                                match nth_error (rhs_of g j) d with
                                | Some x => Nat.eqb (sym_col g x) c
                                | None => false
                                end
                       end) (state_items s')
        end
    | KReduce =>
        match e_arg e with
        | None => false
        | Some r => Nat.ltb r (rule_count g) && negb (Nat.eqb r (root_rule_idx g)) && Nat.leb (nterm_count g) c &&
                    existsb (fun i => Nat.eqb (it_r i) r && is_complete g i) its
        end
    | KSuccess =>
        Nat.eqb c (col_of_term (eof_idx g)) &&
        existsb (fun i => Nat.eqb (it_r i) (root_rule_idx g) && is_complete g i) its
    | KRR => false
    end.

  Definition dims_ok : bool :=
    Nat.leb (length sts) (length tbl) && Nat.ltb 0 (length sts) &&
    forallb (fun s => Nat.eqb (length (nth s tbl [])) (symbol_count g)) (seq 0 (length sts)).

  Definition state0_ok : bool :=
    mem_item (root_item g) (state_items 0) &&
    forallb (fun i => Nat.eqb (it_d i) 0) (state_items 0) &&
    (* the root rule's dot-0 item occurs in state 0 only *)
    forallb (fun s => Nat.eqb s 0 || forallb (fun i => negb (Nat.eqb (it_r i) (root_rule_idx g) && Nat.eqb (it_d i) 0)) (state_items s))
            (seq 0 (length sts)).

  (* sound part: enough for "whatever is accepted is derivable" (also holds for tables with resolved S/R conflicts) *)
  Definition table_sound_ok : bool :=
    grammar_wf && dims_ok && state0_ok &&
    forallb (fun s => forallb item_ok (state_items s) &&
                      forallb (fun c => cell_justified s c) (seq 0 (symbol_count g)))
            (seq 0 (length sts)).

  (* full check: the table is the deterministic LR(1) automaton of the grammar *)
  Definition table_ok : bool :=
    table_sound_ok && tables_closed &&
    forallb (fun s => closure_ok s && goto_ok s && reduce_ok s) (seq 0 (length sts)).

  (* the error column is empty (true of every table whose reachable rules do not mention the error symbol):
     the driver can never shift the error symbol, so a syntax error always ends the parse *)
  Definition no_error_symbol : bool :=
    forallb (fun s => kind_eqb (e_kind (cell_at s (col_of_term (err_idx g)))) KError) (seq 0 (length tbl)).
End Validator.

(* the check used on dumps: nullable/FIRST tables are computed by the mirror's iteration and then only checked for closedness *)
Definition validate (g : grammar) (sts : list items) (tbl : table) : bool :=
  let ne := nterm_empty g in
  let nf := nterm_first g ne in
  table_ok g sts tbl ne nf.
Definition validate_sound (g : grammar) (sts : list items) (tbl : table) : bool := table_sound_ok g sts tbl.
