(* An executable decider for the longest-match specification (Spec/Lang.v is_longest_match), by derivatives of the
   term patterns only - it never looks at an automaton. Used to judge candidate failing inputs. *)
Require Import Ctpg.Base.Prelude Ctpg.Model.Driver Ctpg.Model.Dfa Ctpg.Valid.DfaValid.

Fixpoint spec_aux (D : list charset) (v : vec) (len : nat) (s : list nat) (best : option (nat * nat)) : option (nat * nat) :=
  let best' := match first_nullable 0 v with Some i => Some (i, len) | None => best end in
  match s with
  | [] => best'
  | c :: t => spec_aux D (map (deriv D c) v) (S len) t best'
  end.

Definition spec_longest (terms : list term_data) (s : list nat) : option (nat * nat) :=
  let D := dict_of terms in spec_aux D (v0_of D terms) 0 s None.

Definition spec_matches (r : regex) (s : list nat) : bool :=
  match spec_longest [TRegex r] s with
  | Some (0, len) => Nat.eqb len (length s)
  | _ => false
  end.

(* run-length encoded transition rows of automaton dumps: (lo, hi, target) *)
Definition expand_runs (runs : list (nat * nat * nat)) : list (option nat) :=
  map (fun c => match find (fun r => Nat.leb (fst (fst r)) c && Nat.leb c (snd (fst r))) runs with
                | Some r => Some (snd r)
                | None => None
                end) (seq 0 256).
