(* Decidable checks used by the termination theorems (Proofs/TermViable.v, Proofs/TermAll.v).
   Boolean definitions only; their Prop readings are proved in Proofs/TermViable.v.
   - productiveb g            : every nonterminal reachable from the root derives a string of terms;
   - lookahead_generatedb     : every dot-0 item [B -> . x, b] of a state (other than the root item of state 0) comes
                                after an item [A -> alpha . B beta, a] of the same state with b in FIRST(beta a)
                                (the order and the lookaheads closure produces; strengthens closure_generatedb of
                                Proofs/ReportViable.v, which ignores b);
   - reduce_lookaheadb        : a reduce cell in the column of term t is justified by a completed item of that rule
                                whose lookahead is t ([cell_justified] of Valid/LRValid.v accepts any lookahead). *)
Require Import Ctpg.Base.Prelude Ctpg.Model.Grammar Ctpg.Model.LRGen Ctpg.Spec.Cfg Ctpg.Valid.LRValid.

(* ---------- productivity ---------- *)

(* every nonterminal of the right side is in the set *)
Fixpoint all_marked (p : bset) (r : list symbol) : bool :=
  match r with
  | [] => true
  | T _ :: t => all_marked p t
  | NT n :: t => bset_test p n && all_marked p t
  end.

Fixpoint iter_n {A} (n : nat) (f : A -> A) (x : A) : A :=
  match n with 0 => x | S k => iter_n k f (f x) end.

(* one rule: the left side derives a string of terms if all nonterminals of the right side do *)
Definition prod_step (g : grammar) (p : bset) (ri : rule_info) : bset :=
  match nth_error (right_sides g) (ri_r ri) with
  | Some rhs => if all_marked p rhs then bset_set p (ri_l ri) else p
  | None => p
  end.
Definition prod_pass (g : grammar) (p : bset) : bset := fold_left (prod_step g) (rule_infos g) p.
(* a pass that changes the set marks at least one more nonterminal: nterm_count passes reach the fixed point *)
Definition prod_set (g : grammar) : bset :=
  iter_n (nterm_count g) (prod_pass g) (bset_empty (nterm_count g)).

(* the nonterminals reachable from x *)
Fixpoint mark_nts (p : bset) (r : list symbol) : bset :=
  match r with
  | [] => p
  | T _ :: t => mark_nts p t
  | NT n :: t => mark_nts (bset_set p n) t
  end.
Definition reach_step (g : grammar) (p : bset) (ri : rule_info) : bset :=
  if bset_test p (ri_l ri)
  then match nth_error (right_sides g) (ri_r ri) with Some rhs => mark_nts p rhs | None => p end
  else p.
Definition reach_pass (g : grammar) (p : bset) : bset := fold_left (reach_step g) (rule_infos g) p.
Definition reach_set (g : grammar) (x : nat) : bset :=
  iter_n (nterm_count g) (reach_pass g) (bset_set (bset_empty (nterm_count g)) x).
(* the set is closed under the rules (checked, so that nothing has to be proved about the iteration) *)
Definition reach_closed (g : grammar) (p : bset) : bool :=
  forallb (fun ri => negb (bset_test p (ri_l ri)) ||
                     match nth_error (right_sides g) (ri_r ri) with Some rhs => all_marked p rhs | None => true end)
          (rule_infos g).

Definition productiveb (g : grammar) : bool :=
  match root_symbol g with
  | Some (NT x) =>
      let rs := reach_set g x in
      let ps := prod_set g in
      bset_test rs x && reach_closed g rs &&
      forallb (fun l => negb (bset_test rs l) || bset_test ps l) (seq 0 (length rs))
  | _ => true          (* no nonterminal is reachable *)
  end.

(* ---------- lookaheads of closure items ---------- *)
Definition lookahead_generatedb (g : grammar) (sts : list items) : bool :=
  let ne := nterm_empty g in
  let nf := nterm_first g ne in
  forallb (fun s =>
    let its := state_items sts s in
    forallb (fun j =>
      match nth_error its j with
      | Some i =>
          negb (Nat.eqb (it_d i) 0) || (Nat.eqb s 0 && item_eqb i (root_item g)) ||
          existsb (fun k => match nth_error its k with
                            | Some ik =>
                                match next_sym g ik with
                                | Some (NT b) =>
                                    Nat.eqb b (ri_l (get_ri g (it_r i))) &&
                                    bset_test (first_tail g ne nf (skipn (S (it_d ik)) (rhs_of g ik)) (it_t ik)) (it_t i)
                                | _ => false
                                end
                            | None => false
                            end) (seq 0 j)
      | None => true
      end) (seq 0 (length its))) (seq 0 (length sts)).

(* ---------- lookaheads of reduce cells ---------- *)
Definition reduce_lookaheadb (g : grammar) (sts : list items) (tbl : table) : bool :=
  forallb (fun s =>
    forallb (fun t =>
      let e := cell_at tbl s (nterm_count g + t) in
      match e_kind e with
      | KReduce =>
          match e_arg e with
          | Some r => existsb (fun i => Nat.eqb (it_r i) r && is_complete g i && Nat.eqb (it_t i) t) (state_items sts s)
          | None => false
          end
      | _ => true
      end) (seq 0 (term_count g))) (seq 0 (length sts)).

(* every state other than 0 has an item (the same check as states_nonemptyb of Proofs/ReportViable.v) *)
Definition states_nonempty_b (sts : list items) : bool :=
  forallb (fun its => negb (Nat.eqb (length its) 0)) sts.

(* all checks the termination theorems need, on top of [validate] *)
Definition term_checks (g : grammar) (sts : list items) (tbl : table) : bool :=
  validate g sts tbl && lookahead_generatedb g sts && states_nonempty_b sts && reduce_lookaheadb g sts tbl &&
  productiveb g.
