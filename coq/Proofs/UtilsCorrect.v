(* Correctness of the byte-level mirror of namespace utils (Model/Utils.v): the walks over NUL-terminated memory regions
   refine the abstractions used by the rest of the model (cstr, list equality, index_of, Grammar.find_str), never read
   past the terminator, and the character classification / naming tables are what the model assumes. No axioms. *)
From Ctpg Require Import Base.Prelude Model.Containers Model.Utils Model.Grammar.
From Coq Require Import NArith ZArith Lia List Bool.
Import ListNotations.

Definition nul_free (s : list nat) : Prop := Forall (fun x => x <> 0) s.
Definition nul_freeb (s : list nat) : bool := forallb (fun x => negb (Nat.eqb x 0)) s.

Lemma nul_free_nil : nul_free [].
Proof. constructor. Qed.

Lemma nul_free_cons : forall x s, nul_free (x :: s) <-> x <> 0 /\ nul_free s.
Proof.
  intros x s. unfold nul_free. split; intro H.
  - inversion H; subst; auto.
  - destruct H as [Hx Hs]. constructor; assumption.
Qed.

Lemma nul_freeb_spec : forall s, nul_freeb s = true <-> nul_free s.
Proof.
  induction s as [|x s IH]; cbn [nul_freeb forallb].
  - split; intros _; [apply nul_free_nil | reflexivity].
  - fold (nul_freeb s). rewrite nul_free_cons, andb_true_iff, IH, negb_true_iff, Nat.eqb_neq. tauto.
Qed.

Lemma nul_free_not_in : forall s, nul_free s -> ~ In 0 s.
Proof.
  intros s Hs Hin. unfold nul_free in Hs. rewrite Forall_forall in Hs. exact (Hs 0 Hin eq_refl).
Qed.

(* ---- list_eqb Nat.eqb reflects equality *)
Lemma list_eqb_nat_spec : forall a b, list_eqb Nat.eqb a b = true <-> a = b.
Proof.
  induction a as [|x a IH]; intros [|y b]; cbn [list_eqb]; split; intro H; try reflexivity; try discriminate.
  - apply andb_true_iff in H. destruct H as [H1 H2]. apply Nat.eqb_eq in H1. apply IH in H2. congruence.
  - injection H as H1 H2. apply andb_true_iff. split; [apply Nat.eqb_eq; assumption | apply IH; assumption].
Qed.

Lemma ident_eqb_spec : forall a b, ident_eqb a b = true <-> a = b.
Proof. intros a b. unfold ident_eqb. apply list_eqb_nat_spec. Qed.

(* ---- 1. cstr *)
Theorem cstr_app : forall s rest, nul_free s -> cstr (s ++ 0 :: rest) = Some s.
Proof.
  induction s as [|x s IH]; intros rest Hs; cbn [app cstr].
  - reflexivity.
  - apply nul_free_cons in Hs. destruct Hs as [Hx Hs].
    destruct (Nat.eqb_spec x 0) as [E|E]; [contradiction|].
    rewrite (IH rest Hs). reflexivity.
Qed.

(* ---- 2. str_equal *)
Theorem str_equal_spec : forall s1 s2 r1 r2, nul_free s1 -> nul_free s2 ->
  str_equal (s1 ++ 0 :: r1) (s2 ++ 0 :: r2) = Ok (list_eqb Nat.eqb s1 s2).
Proof.
  induction s1 as [|x s1 IH]; intros [|y s2] r1 r2 H1 H2; cbn [app str_equal list_eqb].
  - reflexivity.
  - apply nul_free_cons in H2. destruct H2 as [Hy H2].
    destruct (Nat.eqb_spec 0 y) as [E|E]; [congruence | reflexivity].
  - apply nul_free_cons in H1. destruct H1 as [Hx H1].
    destruct (Nat.eqb_spec x 0) as [E|E]; [contradiction | reflexivity].
  - apply nul_free_cons in H1. destruct H1 as [Hx H1].
    apply nul_free_cons in H2. destruct H2 as [Hy H2].
    destruct (Nat.eqb_spec x y) as [E|E]; cbn [andb].
    + destruct (Nat.eqb_spec x 0) as [E0|E0]; [contradiction|].
      apply IH; assumption.
    + reflexivity.
Qed.

Corollary str_equal_true_iff : forall s1 s2 r1 r2, nul_free s1 -> nul_free s2 ->
  (str_equal (s1 ++ 0 :: r1) (s2 ++ 0 :: r2) = Ok true <-> s1 = s2).
Proof.
  intros s1 s2 r1 r2 H1 H2. rewrite (str_equal_spec s1 s2 r1 r2 H1 H2).
  rewrite <- list_eqb_nat_spec. split; intro H; [injection H as H; exact H | rewrite H; reflexivity].
Qed.

Corollary str_equal_false_iff : forall s1 s2 r1 r2, nul_free s1 -> nul_free s2 ->
  (str_equal (s1 ++ 0 :: r1) (s2 ++ 0 :: r2) = Ok false <-> s1 <> s2).
Proof.
  intros s1 s2 r1 r2 H1 H2. rewrite (str_equal_spec s1 s2 r1 r2 H1 H2).
  rewrite <- list_eqb_nat_spec. destruct (list_eqb Nat.eqb s1 s2); split; intro H; try reflexivity; try discriminate.
  exfalso. apply H. reflexivity.
Qed.

(* a proper prefix is not equal *)
Corollary str_equal_proper_prefix : forall s x t r1 r2, nul_free s -> nul_free (x :: t) ->
  str_equal (s ++ 0 :: r1) ((s ++ x :: t) ++ 0 :: r2) = Ok false.
Proof.
  intros s x t r1 r2 H1 H2. apply str_equal_false_iff.
  - exact H1.
  - unfold nul_free in *. apply Forall_app. split; assumption.
  - intro E. apply (f_equal (@length nat)) in E. rewrite app_length in E. cbn [length] in E. lia.
Qed.

(* ---- 3. str_equal never throws *)
Theorem str_equal_never_throws : forall a b, str_equal a b <> Throw.
Proof.
  induction a as [|x a IH]; intros [|y b]; cbn [str_equal]; try discriminate.
  destruct (Nat.eqb x y); [|discriminate].
  destruct (Nat.eqb x 0); [discriminate | apply IH].
Qed.

(* ---- 4. find_char *)
Theorem find_char_spec : forall c s rest i, nul_free s ->
  find_char c (s ++ 0 :: rest) i = Ok (if Nat.eqb c 0 then None else index_of c s i).
Proof.
  intros c s. induction s as [|x s IH]; intros rest i Hs; cbn [app find_char index_of].
  - cbn [Nat.eqb]. destruct (Nat.eqb c 0); reflexivity.
  - apply nul_free_cons in Hs. destruct Hs as [Hx Hs].
    destruct (Nat.eqb_spec x 0) as [E0|E0]; [contradiction|].
    destruct (Nat.eqb_spec x c) as [E|E].
    + subst c. destruct (Nat.eqb_spec x 0) as [E1|E1]; [contradiction | reflexivity].
    + apply IH. exact Hs.
Qed.

Corollary find_char_nul : forall s rest, nul_free s -> find_char 0 (s ++ 0 :: rest) 0 = Ok None.
Proof. intros s rest Hs. rewrite (find_char_spec 0 s rest 0 Hs). reflexivity. Qed.

Lemma index_of_some_iff : forall c s i, (exists k, index_of c s i = Some k) <-> In c s.
Proof.
  intros c s. induction s as [|x s IH]; intros i; cbn [index_of In].
  - split; [intros [k Hk]; discriminate | intros []].
  - destruct (Nat.eqb_spec x c) as [E|E].
    + split; [intros _; left; exact E | intros _; exists i; reflexivity].
    + rewrite (IH (S i)). split; [intro H; right; exact H | intros [H|H]; [contradiction | exact H]].
Qed.

Lemma index_of_none_iff : forall c s i, index_of c s i = None <-> ~ In c s.
Proof.
  intros c s i. rewrite <- (index_of_some_iff c s i). destruct (index_of c s i) as [k|].
  - split; [discriminate | intro H; exfalso; apply H; exists k; reflexivity].
  - split; [intros _ [k Hk]; discriminate | reflexivity].
Qed.

(* first occurrence, with a start index *)
Lemma index_of_first_gen : forall c d s i k, index_of c s i = Some k ->
  exists j, k = i + j /\ j < length s /\ nth j s d = c /\ forall j', j' < j -> nth j' s d <> c.
Proof.
  intros c d s. induction s as [|x s IH]; intros i k H; cbn [index_of] in H.
  - discriminate.
  - destruct (Nat.eqb_spec x c) as [E|E].
    + injection H as H. exists 0. cbn [length nth]. repeat split; lia.
    + destruct (IH (S i) k H) as [j [Hk [Hlt [Hnth Hmin]]]].
      exists (S j). cbn [length nth]. repeat split; try lia; try exact Hnth.
      intros j' Hj'. destruct j' as [|j']; [exact E | apply Hmin; lia].
Qed.

Theorem index_of_first : forall c d s k, index_of c s 0 = Some k ->
  k < length s /\ nth k s d = c /\ forall j, j < k -> nth j s d <> c.
Proof.
  intros c d s k H. destruct (index_of_first_gen c d s 0 k H) as [j [Hk [Hlt [Hnth Hmin]]]].
  cbn [Nat.add] in Hk. subst j. repeat split; assumption.
Qed.

Corollary find_char_member : forall c s rest, nul_free s -> c <> 0 ->
  ((exists k, find_char c (s ++ 0 :: rest) 0 = Ok (Some k)) <-> In c s).
Proof.
  intros c s rest Hs Hc. rewrite (find_char_spec c s rest 0 Hs).
  destruct (Nat.eqb_spec c 0) as [E|E]; [contradiction|].
  rewrite <- (index_of_some_iff c s 0).
  split; intros [k Hk]; exists k; [injection Hk as Hk; exact Hk | rewrite Hk; reflexivity].
Qed.

Corollary find_char_first : forall c d s rest k, nul_free s ->
  find_char c (s ++ 0 :: rest) 0 = Ok (Some k) ->
  c <> 0 /\ k < length s /\ nth k s d = c /\ forall j, j < k -> nth j s d <> c.
Proof.
  intros c d s rest k Hs H. rewrite (find_char_spec c s rest 0 Hs) in H.
  destruct (Nat.eqb_spec c 0) as [E|E]; [discriminate|].
  injection H as H. split; [exact E | apply index_of_first; exact H].
Qed.

Corollary find_char_not_found : forall c s rest, nul_free s ->
  (find_char c (s ++ 0 :: rest) 0 = Ok None <-> ~ In c s).
Proof.
  intros c s rest Hs. rewrite (find_char_spec c s rest 0 Hs).
  destruct (Nat.eqb_spec c 0) as [E|E].
  - subst c. split; [intros _; apply nul_free_not_in; exact Hs | reflexivity].
  - rewrite <- (index_of_none_iff c s 0).
    split; intro H; [injection H as H; exact H | rewrite H; reflexivity].
Qed.

(* ---- 5. str_len *)
Theorem str_len_spec : forall s rest, nul_free s -> str_len (s ++ 0 :: rest) = Ok (length s).
Proof.
  induction s as [|x s IH]; intros rest Hs; cbn [app str_len length].
  - reflexivity.
  - apply nul_free_cons in Hs. destruct Hs as [Hx Hs].
    destruct (Nat.eqb_spec x 0) as [E|E]; [contradiction|].
    rewrite (IH rest Hs). reflexivity.
Qed.

(* ---- 6. find_str_c refines Grammar.find_str *)
Lemma find_str_c_spec_gen : forall (table : list (list nat)) (s : list nat) rests rs i,
  Forall nul_free table -> nul_free s -> length rests = length table ->
  find_str_c (map (fun p => fst p ++ 0 :: snd p) (combine table rests)) (s ++ 0 :: rs) i
  = match Grammar.find_str table s with Some k => Ok (i + k) | None => Throw end.
Proof.
  induction table as [|n table IH]; intros s rests rs i Ht Hs Hlen.
  - reflexivity.
  - destruct rests as [|r rests]; [discriminate|].
    cbn [length] in Hlen. injection Hlen as Hlen.
    inversion Ht as [|n' t' Hn Ht']; subst.
    cbn [combine map find_str_c find_str fst snd].
    rewrite (str_equal_spec n s r rs Hn Hs). unfold ident_eqb.
    destruct (list_eqb Nat.eqb n s).
    + rewrite Nat.add_0_r. reflexivity.
    + rewrite (IH s rests rs (S i) Ht' Hs Hlen).
      destruct (find_str table s) as [k|]; cbn [option_map]; [|reflexivity].
      f_equal. lia.
Qed.

Theorem find_str_c_spec : forall (table : list (list nat)) (s : list nat) rests rs,
  Forall nul_free table -> nul_free s -> length rests = length table ->
  find_str_c (map (fun p => fst p ++ 0 :: snd p) (combine table rests)) (s ++ 0 :: rs) 0
  = match Grammar.find_str table s with Some i => Ok i | None => Throw end.
Proof.
  intros table s rests rs Ht Hs Hlen. rewrite (find_str_c_spec_gen table s rests rs 0 Ht Hs Hlen).
  destruct (find_str table s); reflexivity.
Qed.

(* what Grammar.find_str computes: the first index holding an equal identifier *)
Lemma find_str_some : forall tbl s k, find_str tbl s = Some k ->
  k < length tbl /\ nth k tbl [] = s /\ forall j, j < k -> nth j tbl [] <> s.
Proof.
  induction tbl as [|x tbl IH]; intros s k H; cbn [find_str] in H.
  - discriminate.
  - destruct (ident_eqb x s) eqn:E.
    + injection H as H. subst k. apply ident_eqb_spec in E. cbn [length nth]. repeat split; try lia. exact E.
    + destruct (find_str tbl s) as [k'|] eqn:F; cbn [option_map] in H; [|discriminate].
      injection H as H. subst k. destruct (IH s k' F) as [Hlt [Hnth Hmin]].
      cbn [length nth]. repeat split; try lia; try exact Hnth.
      intros j Hj. destruct j as [|j].
      * intro E'. apply ident_eqb_spec in E'. congruence.
      * apply Hmin. lia.
Qed.

Lemma find_str_none : forall tbl s, find_str tbl s = None <-> ~ In s tbl.
Proof.
  induction tbl as [|x tbl IH]; intros s; cbn [find_str In].
  - split; [intros _ [] | reflexivity].
  - destruct (ident_eqb x s) eqn:E.
    + apply ident_eqb_spec in E. split; [discriminate | intro H; exfalso; apply H; left; exact E].
    + assert (x <> s) as Hne by (intro E'; apply ident_eqb_spec in E'; congruence).
      destruct (find_str tbl s) as [k|] eqn:F; cbn [option_map].
      * split; [discriminate|]. intro H. exfalso.
        assert (~ In s tbl) as H' by (intro; apply H; right; assumption).
        apply IH in H'. congruence.
      * split; [|reflexivity]. intros _ [H|H]; [contradiction|].
        revert H. apply IH. exact F.
Qed.

(* the C lookup throws "string not found" exactly when no table entry is the string; it is never Undef *)
Corollary find_str_c_throws_iff : forall table s rests rs,
  Forall nul_free table -> nul_free s -> length rests = length table ->
  (find_str_c (map (fun p => fst p ++ 0 :: snd p) (combine table rests)) (s ++ 0 :: rs) 0 = Throw <-> ~ In s table).
Proof.
  intros table s rests rs Ht Hs Hlen. rewrite (find_str_c_spec table s rests rs Ht Hs Hlen).
  rewrite <- find_str_none. destruct (find_str table s); split; intro H; try reflexivity; discriminate.
Qed.

(* ---- 7. classification over the 256 bytes, by reflection *)
Lemma seq_forall : forall n (P : nat -> bool), forallb P (seq 0 n) = true -> forall b, b < n -> P b = true.
Proof.
  intros n P H b Hb. rewrite forallb_forall in H. apply H. apply in_seq. lia.
Qed.

Theorem is_printable_spec : forall b, b < 256 -> is_printable b = (Nat.leb 32 b && Nat.leb b 126).
Proof.
  intros b Hb. apply Bool.eqb_prop.
  apply (seq_forall 256 (fun b => Bool.eqb (is_printable b) (Nat.leb 32 b && Nat.leb b 126))); [|exact Hb].
  vm_compute. reflexivity.
Qed.

Theorem is_dec_digit_spec : forall b, b < 256 -> is_dec_digit b = (Nat.leb 48 b && Nat.leb b 57).
Proof.
  intros b Hb. apply Bool.eqb_prop.
  apply (seq_forall 256 (fun b => Bool.eqb (is_dec_digit b) (Nat.leb 48 b && Nat.leb b 57))); [|exact Hb].
  vm_compute. reflexivity.
Qed.

Theorem is_hex_digit_spec : forall b, b < 256 ->
  is_hex_digit b = ((Nat.leb 48 b && Nat.leb b 57) || (Nat.leb 97 b && Nat.leb b 102) || (Nat.leb 65 b && Nat.leb b 70)).
Proof.
  intros b Hb. apply Bool.eqb_prop.
  apply (seq_forall 256 (fun b => Bool.eqb (is_hex_digit b)
           ((Nat.leb 48 b && Nat.leb b 57) || (Nat.leb 97 b && Nat.leb b 102) || (Nat.leb 65 b && Nat.leb b 70))));
    [|exact Hb].
  vm_compute. reflexivity.
Qed.

(* bytes >= 128 are negative chars and belong to no class *)
Corollary high_bytes_no_class : forall b, 128 <= b -> b < 256 ->
  is_printable b = false /\ is_dec_digit b = false /\ is_hex_digit b = false.
Proof.
  intros b Hlo Hhi.
  rewrite (is_printable_spec b Hhi), (is_dec_digit_spec b Hhi), (is_hex_digit_spec b Hhi).
  assert (Nat.leb b 126 = false) as E1 by (apply Nat.leb_gt; lia).
  assert (Nat.leb b 57 = false) as E2 by (apply Nat.leb_gt; lia).
  assert (Nat.leb b 102 = false) as E3 by (apply Nat.leb_gt; lia).
  assert (Nat.leb b 70 = false) as E4 by (apply Nat.leb_gt; lia).
  rewrite E1, E2, E3, E4, !andb_false_r. repeat split; reflexivity.
Qed.

Corollary dec_digit_is_hex_digit : forall b, b < 256 -> is_dec_digit b = true -> is_hex_digit b = true.
Proof.
  intros b Hb H. rewrite (is_dec_digit_spec b Hb) in H. rewrite (is_hex_digit_spec b Hb), H. reflexivity.
Qed.

Theorem char_name_spec : forall b, b < 256 ->
  char_name b = if Nat.ltb 32 b && Nat.ltb b 127 then [b; 0]
                else [92; 120; hex_digit_char (b / 16); hex_digit_char (b mod 16); 0].
Proof.
  intros b Hb. apply list_eqb_nat_spec.
  apply (seq_forall 256 (fun b => list_eqb Nat.eqb (char_name b)
           (if Nat.ltb 32 b && Nat.ltb b 127 then [b; 0]
            else [92; 120; hex_digit_char (b / 16); hex_digit_char (b mod 16); 0]))); [|exact Hb].
  vm_compute. reflexivity.
Qed.

(* decoding a name back to its byte *)
Definition hex_char_val (c : nat) : nat := if Nat.ltb c 58 then c - 48 else c - 55.
Definition name_decode (n : list nat) : nat :=
  match n with
  | [b; _] => b
  | [_; _; h; l; _] => 16 * hex_char_val h + hex_char_val l
  | _ => 0
  end.

Lemma name_decode_char_name : forall b, b < 256 -> name_decode (char_name b) = b.
Proof.
  intros b Hb. apply Nat.eqb_eq.
  apply (seq_forall 256 (fun b => Nat.eqb (name_decode (char_name b)) b)); [|exact Hb].
  vm_compute. reflexivity.
Qed.

Theorem char_name_injective : forall a b, a < 256 -> b < 256 -> char_name a = char_name b -> a = b.
Proof.
  intros a b Ha Hb H.
  rewrite <- (name_decode_char_name a Ha), <- (name_decode_char_name b Hb), H. reflexivity.
Qed.

(* every name is a NUL-terminated string of at most name_size = 5 chars with no inner NUL *)
Lemma char_name_cstr : forall b, b < 256 ->
  exists s, nul_free s /\ char_name b = s ++ [0] /\ length s <= 4.
Proof.
  intros b Hb.
  assert (match cstr (char_name b) with
          | Some s => nul_freeb s && list_eqb Nat.eqb (char_name b) (s ++ [0]) && Nat.leb (length s) 4
          | None => false end = true) as H.
  { apply (seq_forall 256 (fun b => match cstr (char_name b) with
          | Some s => nul_freeb s && list_eqb Nat.eqb (char_name b) (s ++ [0]) && Nat.leb (length s) 4
          | None => false end)); [|exact Hb]. vm_compute. reflexivity. }
  destruct (cstr (char_name b)) as [s|]; [|discriminate].
  apply andb_true_iff in H. destruct H as [H H3]. apply andb_true_iff in H. destruct H as [H1 H2].
  exists s. split; [apply nul_freeb_spec; exact H1|].
  split; [apply list_eqb_nat_spec; exact H2 | apply Nat.leb_le; exact H3].
Qed.

Theorem char_idx_roundtrip : forall b, b < 256 -> idx_to_char (char_to_idx b) = b /\ char_to_idx b = b.
Proof.
  intros b Hb. unfold idx_to_char, char_to_idx.
  rewrite (Nat.mod_small b 256 Hb). split; [apply Nat.mod_small; exact Hb | reflexivity].
Qed.

(* ---- 8. hex_digits_to_char *)
Definition hex_value (b : nat) : option nat :=
  if Nat.leb 48 b && Nat.leb b 57 then Some (b - 48)
  else if Nat.leb 97 b && Nat.leb b 102 then Some (b - 87)
  else if Nat.leb 65 b && Nat.leb b 70 then Some (b - 55)
  else None.

Lemma hex_value_bound : forall d v, hex_value d = Some v -> d < 103 /\ v < 16.
Proof.
  intros d v H. unfold hex_value in H.
  destruct (Nat.leb_spec 48 d) as [A1|A1]; destruct (Nat.leb_spec d 57) as [A2|A2]; cbn [andb] in H;
    try (injection H as H; lia);
    destruct (Nat.leb_spec 97 d) as [B1|B1]; destruct (Nat.leb_spec d 102) as [B2|B2]; cbn [andb] in H;
    try (injection H as H; lia);
    destruct (Nat.leb_spec 65 d) as [C1|C1]; destruct (Nat.leb_spec d 70) as [C2|C2]; cbn [andb] in H;
    try (injection H as H; lia); discriminate.
Qed.

Lemma hex_value_is_hex_digit : forall b, b < 256 ->
  is_hex_digit b = match hex_value b with Some _ => true | None => false end.
Proof.
  intros b Hb. apply Bool.eqb_prop.
  apply (seq_forall 256 (fun b => Bool.eqb (is_hex_digit b) match hex_value b with Some _ => true | None => false end));
    [|exact Hb].
  vm_compute. reflexivity.
Qed.

Definition hex_pair_ok (d1 d2 : nat) : bool :=
  match hex_value d1, hex_value d2 with
  | Some v1, Some v2 => Nat.eqb (hex_digits_to_char d1 d2) (16 * v1 + v2)
  | _, _ => true
  end.

Lemma hex_pairs_ok : forallb (fun d1 => forallb (fun d2 => hex_pair_ok d1 d2) (seq 0 103)) (seq 0 103) = true.
Proof. vm_compute. reflexivity. Qed.

Theorem hex_digits_to_char_spec : forall d1 d2 v1 v2, hex_value d1 = Some v1 -> hex_value d2 = Some v2 ->
  hex_digits_to_char d1 d2 = 16 * v1 + v2.
Proof.
  intros d1 d2 v1 v2 H1 H2.
  destruct (hex_value_bound d1 v1 H1) as [B1 _]. destruct (hex_value_bound d2 v2 H2) as [B2 _].
  pose proof (seq_forall 103 _ hex_pairs_ok d1 B1) as H. cbv beta in H.
  pose proof (seq_forall 103 _ H d2 B2) as H'. cbv beta in H'.
  unfold hex_pair_ok in H'. rewrite H1, H2 in H'. apply Nat.eqb_eq. exact H'.
Qed.

Corollary hex_digits_to_char_byte : forall d1 d2 v1 v2, hex_value d1 = Some v1 -> hex_value d2 = Some v2 ->
  hex_digits_to_char d1 d2 < 256.
Proof.
  intros d1 d2 v1 v2 H1 H2. rewrite (hex_digits_to_char_spec d1 d2 v1 v2 H1 H2).
  destruct (hex_value_bound d1 v1 H1) as [_ B1]. destruct (hex_value_bound d2 v2 H2) as [_ B2]. lia.
Qed.

Print Assumptions str_equal_spec.
Print Assumptions find_char_spec.
Print Assumptions find_str_c_spec.
Print Assumptions char_name_injective.
Print Assumptions hex_digits_to_char_spec.
