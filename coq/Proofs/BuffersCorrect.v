(* The three input buffer kinds of ctpg.hpp (Model/Buffers.v) present the same text: same begin/end distance, same byte under every
   in-range iterator, same lexeme for every 0 <= start <= end <= size (C07 at byte level); which dereferences and views fall outside. *)
From Ctpg Require Import Base.Prelude Model.Containers Model.Buffers.
From Coq Require Import Lia List Bool.
Import ListNotations.

Definition slice (t : list nat) (s e : nat) : list nat := firstn (e - s) (skipn s t).

(* ---------- list facts ---------- *)
Lemma firstn_app_le {A} (n : nat) (l1 l2 : list A) : n <= length l1 -> firstn n (l1 ++ l2) = firstn n l1.
Proof.
  intros Hn. rewrite firstn_app. replace (n - length l1) with 0 by lia. simpl. apply app_nil_r.
Qed.

Lemma skipn_app_le {A} (n : nat) (l1 l2 : list A) : n <= length l1 -> skipn n (l1 ++ l2) = skipn n l1 ++ l2.
Proof.
  intros Hn. rewrite skipn_app. replace (n - length l1) with 0 by lia. reflexivity.
Qed.

Lemma skipn_app_ge {A} (n : nat) (l1 l2 : list A) : skipn (length l1 + n) (l1 ++ l2) = skipn n l2.
Proof.
  rewrite skipn_app. rewrite skipn_all2 by lia. replace (length l1 + n - length l1) with n by lia. reflexivity.
Qed.

Lemma skipn_skipn' {A} (x y : nat) (l : list A) : skipn x (skipn y l) = skipn (x + y) l.
Proof.
  revert l. induction y as [|y IH]; intros l.
  - rewrite Nat.add_0_r. reflexivity.
  - replace (x + S y) with (S (x + y)) by lia. destruct l as [|a l]; simpl.
    + apply skipn_nil.
    + apply IH.
Qed.

Lemma slice_mid (pre text post : list nat) (s e : nat) :
  s <= e -> e <= length text -> firstn (e - s) (skipn (length pre + s) (pre ++ text ++ post)) = slice text s e.
Proof.
  intros Hse He. unfold slice. rewrite skipn_app_ge. rewrite skipn_app_le by lia.
  apply firstn_app_le. rewrite skipn_length. lia.
Qed.

Lemma slice_mid0 (text post : list nat) (s e : nat) :
  s <= e -> e <= length text -> firstn (e - s) (skipn s (text ++ post)) = slice text s e.
Proof.
  intros Hse He. apply (slice_mid [] text post s e Hse He).
Qed.

Lemma mem_split (mem : list nat) (off len : nat) :
  mem = firstn off mem ++ firstn len (skipn off mem) ++ skipn len (skipn off mem).
Proof.
  rewrite (firstn_skipn len (skipn off mem)). symmetry. apply firstn_skipn.
Qed.

(* ---------- 1. get_view inside the text is the slice ---------- *)
Theorem cs_view_spec : forall text s e, s <= e -> e <= length text ->
  cs_get_view (cs_of_literal text) s e = Ok (slice text s e).
Proof.
  intros text s e Hse He. unfold cs_get_view, cs_of_literal, sv_make. simpl.
  destruct (Nat.ltb_spec e s) as [Hlt|Hge]; [lia|].
  rewrite app_length. simpl.
  destruct (Nat.leb_spec (s + (e - s)) (length text + 1)) as [Hin|Hout]; [|lia].
  f_equal. apply slice_mid0; assumption.
Qed.

Theorem sb_view_spec : forall text s e, s <= e -> e <= length text ->
  sb_get_view {| sb_str := text |} s e = Ok (slice text s e).
Proof.
  intros text s e Hse He. unfold sb_get_view, sb_begin, sv_make. simpl.
  destruct (Nat.ltb_spec e s) as [Hlt|Hge]; [lia|].
  rewrite app_length. simpl. rewrite Nat.sub_0_r.
  destruct (Nat.leb_spec (s + (e - s)) (length text + 1)) as [Hin|Hout]; [|lia].
  f_equal. apply slice_mid0; assumption.
Qed.

Lemma svb_text_length (b : string_view_buffer) : svb_wf b -> length (svb_text b) = sv_len b.
Proof.
  unfold svb_wf, svb_text. intros Hwf. rewrite firstn_length, skipn_length. lia.
Qed.

Theorem svb_view_spec : forall b s e, svb_wf b -> s <= e -> e <= sv_len b ->
  svb_get_view b (svb_begin b + s) (svb_begin b + e) = Ok (slice (svb_text b) s e).
Proof.
  intros b s e Hwf Hse He. pose proof (svb_text_length b Hwf) as Hlen.
  unfold svb_wf in Hwf. unfold svb_get_view, svb_begin, sv_make.
  destruct (Nat.ltb_spec (sv_off b + e) (sv_off b + s)) as [Hlt|Hge]; [lia|].
  destruct (Nat.leb_spec (sv_off b) (sv_off b + s)) as [H1|H1]; [|lia].
  destruct (Nat.leb_spec (sv_off b + e) (sv_off b + sv_len b)) as [H2|H2]; [|lia].
  simpl.
  replace (sv_off b + (sv_off b + s - sv_off b)) with (sv_off b + s) by lia.
  replace (sv_off b + e - (sv_off b + s)) with (e - s) by lia.
  destruct (Nat.leb_spec (sv_off b + s + (e - s)) (length (sv_mem b))) as [Hin|Hout]; [|lia].
  f_equal.
  rewrite (mem_split (sv_mem b) (sv_off b) (sv_len b)) at 1.
  assert (Hpre : length (firstn (sv_off b) (sv_mem b)) = sv_off b) by (rewrite firstn_length; lia).
  rewrite <- Hpre at 1.
  apply slice_mid; [assumption|]. fold (svb_text b). lia.
Qed.

(* ---------- 2. the three buffers agree (C07 at byte level) ---------- *)
Definition view_of (pre text post : list nat) : string_view_buffer :=
  {| sv_mem := pre ++ text ++ post; sv_off := length pre; sv_len := length text |}.

Lemma view_of_wf (pre text post : list nat) : svb_wf (view_of pre text post).
Proof.
  unfold svb_wf, view_of. simpl. rewrite !app_length. lia.
Qed.

Theorem svb_text_view : forall pre text post,
  svb_text {| sv_mem := pre ++ text ++ post; sv_off := length pre; sv_len := length text |} = text.
Proof.
  intros pre text post. unfold svb_text. simpl.
  replace (length pre) with (length pre + 0) by lia. rewrite skipn_app_ge. simpl.
  rewrite firstn_app_le by lia. apply firstn_all.
Qed.

Theorem buffers_agree : forall pre text post s e, s <= e -> e <= length text ->
  cs_get_view (cs_of_literal text) (cs_begin (cs_of_literal text) + s) (cs_begin (cs_of_literal text) + e)
    = sb_get_view {| sb_str := text |} s e
  /\ sb_get_view {| sb_str := text |} s e
    = svb_get_view {| sv_mem := pre ++ text ++ post; sv_off := length pre; sv_len := length text |} (length pre + s) (length pre + e).
Proof.
  intros pre text post s e Hse He. split.
  - unfold cs_begin. simpl. rewrite cs_view_spec, sb_view_spec by assumption. reflexivity.
  - rewrite sb_view_spec by assumption.
    pose proof (svb_view_spec (view_of pre text post) s e (view_of_wf pre text post) Hse He) as Hv.
    unfold view_of in Hv. unfold svb_begin in Hv. simpl sv_off in Hv.
    rewrite Hv. rewrite svb_text_view. reflexivity.
Qed.

Theorem buffers_same_distance : forall pre text post,
  cs_end (cs_of_literal text) - cs_begin (cs_of_literal text) = length text
  /\ length text = sb_end {| sb_str := text |} - sb_begin {| sb_str := text |}
  /\ sb_end {| sb_str := text |} - sb_begin {| sb_str := text |}
     = svb_end {| sv_mem := pre ++ text ++ post; sv_off := length pre; sv_len := length text |}
       - svb_begin {| sv_mem := pre ++ text ++ post; sv_off := length pre; sv_len := length text |}.
Proof.
  intros pre text post. unfold cs_end, cs_begin, cs_of_literal, sb_end, sb_begin, svb_end, svb_begin. simpl.
  rewrite app_length. simpl. lia.
Qed.

(* ---------- 3. the same byte under every iterator inside the text ---------- *)
Lemma deref_app_in (text post : list nat) (i : nat) : i < length text -> deref (text ++ post) i = Ok (nth i text 0).
Proof.
  intros Hi. unfold deref. rewrite nth_error_app1 by assumption.
  rewrite (nth_error_nth' text 0 Hi). reflexivity.
Qed.

Theorem deref_agree : forall pre text post i, i < length text ->
  cs_deref (cs_of_literal text) i = Ok (nth i text 0)
  /\ sb_deref {| sb_str := text |} i = Ok (nth i text 0)
  /\ svb_deref {| sv_mem := pre ++ text ++ post; sv_off := length pre; sv_len := length text |} (length pre + i) = Ok (nth i text 0).
Proof.
  intros pre text post i Hi. split; [|split].
  - unfold cs_deref, cs_of_literal. simpl. apply deref_app_in. assumption.
  - unfold sb_deref. simpl. apply deref_app_in. assumption.
  - unfold svb_deref. simpl.
    destruct (Nat.leb_spec (length pre) (length pre + i)) as [H1|H1]; [|lia].
    destruct (Nat.ltb_spec (length pre + i) (length pre + length text)) as [H2|H2]; [|lia].
    simpl. unfold deref. rewrite nth_error_app2 by lia.
    replace (length pre + i - length pre) with i by lia.
    rewrite nth_error_app1 by assumption.
    rewrite (nth_error_nth' text 0 Hi). reflexivity.
Qed.

(* ---------- 4. what *end() is ---------- *)
Lemma deref_terminator (text : list nat) : deref (text ++ [0]) (length text) = Ok 0.
Proof.
  unfold deref. rewrite nth_error_app2 by lia. rewrite Nat.sub_diag. reflexivity.
Qed.

Theorem cs_deref_end : forall text, cs_deref (cs_of_literal text) (cs_end (cs_of_literal text)) = Ok 0.
Proof.
  intros text. unfold cs_deref, cs_end, cs_of_literal. simpl. rewrite app_length. simpl.
  replace (length text + 1 - 1) with (length text) by lia. apply deref_terminator.
Qed.

Theorem sb_deref_end : forall text, sb_deref {| sb_str := text |} (sb_end {| sb_str := text |}) = Ok 0.
Proof.
  intros text. unfold sb_deref, sb_end. simpl. apply deref_terminator.
Qed.

Theorem svb_deref_end_outside : forall b, svb_deref b (svb_end b) = Undef.
Proof.
  intros b. unfold svb_deref, svb_end. rewrite Nat.ltb_irrefl. rewrite andb_false_r. reflexivity.
Qed.

(* ---------- 5. reversed or overlong requests are outside ---------- *)
Theorem cs_view_reversed : forall text s e, e < s -> cs_get_view (cs_of_literal text) s e = Undef.
Proof.
  intros text s e Hlt. unfold cs_get_view. destruct (Nat.ltb_spec e s) as [H|H]; [reflexivity|lia].
Qed.

Theorem sb_view_reversed : forall text s e, e < s -> sb_get_view {| sb_str := text |} s e = Undef.
Proof.
  intros text s e Hlt. unfold sb_get_view. destruct (Nat.ltb_spec e s) as [H|H]; [reflexivity|lia].
Qed.

Theorem svb_view_reversed : forall b s e, e < s -> svb_get_view b s e = Undef.
Proof.
  intros b s e Hlt. unfold svb_get_view. destruct (Nat.ltb_spec e s) as [H|H]; [reflexivity|lia].
Qed.

Theorem cs_view_overlong : forall text s e, s <= e -> length text + 1 < e -> cs_get_view (cs_of_literal text) s e = Undef.
Proof.
  intros text s e Hse Hlong. unfold cs_get_view, cs_of_literal, sv_make. simpl.
  destruct (Nat.ltb_spec e s) as [H|H]; [reflexivity|].
  rewrite app_length. simpl.
  destruct (Nat.leb_spec (s + (e - s)) (length text + 1)) as [Hin|Hout]; [lia|reflexivity].
Qed.

Theorem sb_view_overlong : forall text s e, s <= e -> length text + 1 < e -> sb_get_view {| sb_str := text |} s e = Undef.
Proof.
  intros text s e Hse Hlong. unfold sb_get_view, sb_begin, sv_make. simpl.
  destruct (Nat.ltb_spec e s) as [H|H]; [reflexivity|].
  rewrite app_length. simpl.
  destruct (Nat.leb_spec (s - 0 + (e - s)) (length text + 1)) as [Hin|Hout]; [lia|reflexivity].
Qed.

(* a view buffer is stricter: everything that leaves [begin, end] is outside, whatever memory lies behind it *)
Theorem svb_view_overlong : forall b s e, sv_off b + sv_len b < e -> svb_get_view b s e = Undef.
Proof.
  intros b s e Hlong. unfold svb_get_view.
  destruct (Nat.ltb_spec e s) as [H|H]; [reflexivity|].
  destruct (Nat.leb_spec e (sv_off b + sv_len b)) as [H2|H2]; [lia|].
  rewrite andb_false_r. reflexivity.
Qed.

Theorem svb_view_before_begin : forall b s e, s < sv_off b -> svb_get_view b s e = Undef.
Proof.
  intros b s e Hs. unfold svb_get_view.
  destruct (Nat.ltb_spec e s) as [H|H]; [reflexivity|].
  destruct (Nat.leb_spec (sv_off b) s) as [H2|H2]; [lia|]. reflexivity.
Qed.

(* ---------- 6. views of adjacent lexemes concatenate ---------- *)
Theorem slice_concat : forall text a b c, a <= b -> b <= c -> c <= length text ->
  slice text a b ++ slice text b c = slice text a c.
Proof.
  intros text a b c Hab Hbc Hc. unfold slice.
  rewrite <- (firstn_skipn (b - a) (firstn (c - a) (skipn a text))).
  f_equal.
  - rewrite firstn_firstn. rewrite Nat.min_l by lia. reflexivity.
  - rewrite skipn_firstn_comm. rewrite skipn_skipn'.
    replace (c - a - (b - a)) with (c - b) by lia.
    replace (b - a + a) with b by lia. reflexivity.
Qed.

Theorem slice_full : forall text, slice text 0 (length text) = text.
Proof.
  intros text. unfold slice. simpl. rewrite Nat.sub_0_r. apply firstn_all.
Qed.

(* ---------- 7. all lexemes agree ---------- *)
Lemma flat_map_ext_in {A B} (f g : A -> list B) (l : list A) :
  (forall a, In a l -> f a = g a) -> flat_map f l = flat_map g l.
Proof.
  induction l as [|x l IH]; intros Hfg; simpl; [reflexivity|].
  rewrite (Hfg x (or_introl eq_refl)). rewrite IH; [reflexivity|].
  intros a Ha. apply Hfg. right. assumption.
Qed.

Lemma all_views_ext (g1 g2 : nat -> nat -> res (list nat)) (b1 b2 n : nat) :
  (forall s e, s <= e -> e <= n -> g1 (b1 + s) (b1 + e) = g2 (b2 + s) (b2 + e)) ->
  all_views g1 b1 n = all_views g2 b2 n.
Proof.
  intros Hg. unfold all_views. apply flat_map_ext_in. intros s Hs. apply in_seq in Hs.
  apply map_ext_in. intros e He. apply in_seq in He. apply Hg; lia.
Qed.

Theorem all_views_agree : forall pre text post,
  all_views (cs_get_view (cs_of_literal text)) 0 (length text) = all_views (sb_get_view {| sb_str := text |}) 0 (length text)
  /\ all_views (sb_get_view {| sb_str := text |}) 0 (length text)
     = all_views (svb_get_view {| sv_mem := pre ++ text ++ post; sv_off := length pre; sv_len := length text |}) (length pre) (length text).
Proof.
  intros pre text post. split.
  - apply all_views_ext. intros s e Hse He. simpl.
    destruct (buffers_agree pre text post s e Hse He) as [H1 _]. exact H1.
  - apply all_views_ext. intros s e Hse He. simpl.
    destruct (buffers_agree pre text post s e Hse He) as [_ H2]. exact H2.
Qed.

Print Assumptions buffers_agree.
Print Assumptions svb_deref_end_outside.
Print Assumptions all_views_agree.
Print Assumptions slice_concat.
