(* Part of the tie between the hand-written model and the facts tools/source_facts.py read out of ctpg.hpp on this run. *)
(* recognition slots and the size of a character primary (C03 C04 C12) *)
Require Import Ctpg.Base.Prelude Ctpg.Model.Grammar Ctpg.Model.LRGen Ctpg.Model.Driver Ctpg.Model.Dfa
               Ctpg.Model.RegexFront Ctpg.Model.SourceFacts.

Lemma tie_rec_slots : forall r t, length r = sf_rec_slots -> add_conflicted r t = r.
Proof. intros r t H. unfold add_conflicted. rewrite H. reflexivity. Qed.

Lemma tie_char_dfa_size : forall sm c, length (fst (primary_subset sm (cs_single c))) = length sm + sf_char_dfa_size.
Proof. intros. unfold primary_subset. cbn. rewrite app_length. reflexivity. Qed.

