Require Import Ctpg.Base.Prelude Ctpg.Model.Grammar Ctpg.Model.LRGen Ctpg.Model.Driver Ctpg.Spec.Cfg Ctpg.Spec.LRSpec Ctpg.Valid.LRValid.
About no_error_symbol. About validate_sound. About table_ok. About cell. About run_from. About step. About act. About do_reduce. About get_current_term.
Definition E := entry_default.
(* cex 1 *)
Definition g1 := mkG 3 2 2 1 [[T 0]; [NT 0]] [mkRI 0 0 1; mkRI 1 1 1] [(0,1);(1,1)] [0%Z;0%Z;0%Z] [NoAssoc;NoAssoc;NoAssoc] [0%Z;0%Z] [NoAssoc;NoAssoc] [Some 0; None].
Definition sts1 := [[mkItem 1 0 1; mkItem 0 0 1]; [mkItem 0 1 1]; [mkItem 1 1 1]].
Definition tbl1 : table := [[mkE KShift (Some 2) false; E; mkE KShiftErr (Some 1) false; E; E];
  [E;E;E;mkE KReduce (Some 0) false;E]; [E;E;E;mkE KSuccess None false;E]].
Eval vm_compute in (validate_sound g1 sts1 tbl1, no_error_symbol g1 tbl1, tree_run g1 tbl1 [0] 20).
(* cex 2 *)
Definition g2 := mkG 3 3 3 1 [[T 0]; []; [NT 0]] [mkRI 0 0 1; mkRI 1 1 0; mkRI 2 2 1] [(0,1);(1,1);(2,1)] [0%Z;0%Z;0%Z] [NoAssoc;NoAssoc;NoAssoc] [0%Z;0%Z;0%Z] [NoAssoc;NoAssoc;NoAssoc] [Some 0; None; None].
Definition sts2 := [[mkItem 2 0 1; mkItem 0 0 1; mkItem 1 0 1]; [mkItem 0 1 1]; [mkItem 2 1 1]].
Definition tbl2 : table := [[mkE KShift (Some 2) false; mkE KError (Some 2) false; E; mkE KShift (Some 1) false; mkE KReduce (Some 1) false; E];
  [E;E;E;E;mkE KReduce (Some 0) false;E]; [E;E;E;E;mkE KSuccess None false;E]].
Eval vm_compute in (validate_sound g2 sts2 tbl2, no_error_symbol g2 tbl2, tree_run g2 tbl2 [] 20).
Definition chk g := match gen g with inl (sts, tb) => Some (validate g (map st_all sts) tb, no_error_symbol g tb, length sts) | inr _ => None end.
Eval vm_compute in (chk g1, chk g2).
(* grammar with error token: S -> a | err a ; terms a eof err *)
Definition g3 := mkG 3 2 3 2 [[T 0]; [T 2; T 0]; [NT 0]] [mkRI 0 0 1; mkRI 0 1 2; mkRI 1 2 1] [(0,2);(2,1)] [0%Z;0%Z;0%Z] [NoAssoc;NoAssoc;NoAssoc] [0%Z;0%Z;0%Z] [NoAssoc;NoAssoc;NoAssoc] [Some 0; Some 0; None].
Eval vm_compute in (chk g3).
