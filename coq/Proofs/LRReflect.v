(* Boolean reflection, bit-set facts, list facts and the induction principle for derivation trees
   used by the LR validator proofs (LRMachine / LRSound / LRComplete). *)
Require Import Ctpg.Base.Prelude Ctpg.Model.Grammar Ctpg.Model.LRGen Ctpg.Spec.Cfg.

(* ---------- equalities ---------- *)

Lemma item_eqb_eq a b : item_eqb a b = true <-> a = b.
Proof.
  unfold item_eqb. destruct a as [r d t], b as [r' d' t']; cbn.
  rewrite !andb_true_iff, !Nat.eqb_eq. split.
  - intros [[H1 H2] H3]; subst; reflexivity.
  - intros H; inversion H; auto.
Qed.

Lemma mem_item_In x l : mem_item x l = true <-> In x l.
Proof.
  induction l as [|y l IH]; cbn.
  - split; [discriminate|tauto].
  - destruct (item_eqb x y) eqn:E.
    + apply item_eqb_eq in E. subst. tauto.
    + rewrite IH. split; [tauto|]. intros [H|H]; [|assumption].
      subst. assert (item_eqb x x = true) by (apply item_eqb_eq; reflexivity). congruence.
Qed.

Lemma kind_eqb_eq a b : kind_eqb a b = true <-> a = b.
Proof. destruct a, b; cbn; split; intros; congruence. Qed.

Lemma symbol_eqb_eq a b : symbol_eqb a b = true <-> a = b.
Proof.
  destruct a, b; cbn; rewrite ?Nat.eqb_eq; split; intros H; try congruence; inversion H; reflexivity.
Qed.

Lemma symbol_eqb_refl a : symbol_eqb a a = true.
Proof. apply symbol_eqb_eq; reflexivity. Qed.

(* forallb over seq *)
Lemma forallb_seq0 (f : nat -> bool) n : forallb f (seq 0 n) = true <-> forall i, i < n -> f i = true.
Proof.
  rewrite forallb_forall. split.
  - intros H i Hi. apply H. apply in_seq. lia.
  - intros H i Hi. apply in_seq in Hi. apply H. lia.
Qed.

(* ---------- lists ---------- *)

Lemma skipn_nth_error_cons {A} (l : list A) n x : nth_error l n = Some x -> skipn n l = x :: skipn (S n) l.
Proof.
  revert n; induction l as [|y l IH]; intros [|n] H; cbn in *; try discriminate.
  - inversion H; reflexivity.
  - apply IH; assumption.
Qed.

Lemma skipn_cons_nth_error {A} (l : list A) n x r : skipn n l = x :: r -> nth_error l n = Some x /\ skipn (S n) l = r.
Proof.
  revert n; induction l as [|y l IH]; intros [|n] H; cbn in *; try discriminate.
  - inversion H; auto.
  - apply IH; assumption.
Qed.

Lemma skipn_nil_length {A} (l : list A) n : skipn n l = [] -> length l <= n.
Proof.
  revert n; induction l as [|y l IH]; intros [|n] H; cbn in *; try discriminate; try lia.
  apply IH in H. lia.
Qed.

Lemma firstn_S_nth_error {A} (l : list A) n x : nth_error l n = Some x -> firstn (S n) l = firstn n l ++ [x].
Proof.
  revert n; induction l as [|y l IH]; intros [|n] H; cbn in *; try discriminate.
  - inversion H; reflexivity.
  - f_equal. apply IH; assumption.
Qed.

Lemma Forall2_length' {A B} (R : A -> B -> Prop) l1 l2 : Forall2 R l1 l2 -> length l1 = length l2.
Proof. induction 1; cbn; congruence. Qed.

Lemma Forall2_app_inv_both {A B} (R : A -> B -> Prop) l1 l2 m1 m2 :
  length l1 = length m1 -> Forall2 R (l1 ++ l2) (m1 ++ m2) -> Forall2 R l1 m1 /\ Forall2 R l2 m2.
Proof.
  revert m1; induction l1 as [|x l1 IH]; intros [|y m1] Hl H; cbn in *; try discriminate.
  - split; [constructor|assumption].
  - inversion H; subst. destruct (IH m1) as [H1 H2]; [lia|assumption|]. split; [constructor|]; assumption.
Qed.

Lemma Forall2_rev {A B} (R : A -> B -> Prop) l1 l2 : Forall2 R l1 l2 -> Forall2 R (rev l1) (rev l2).
Proof.
  induction 1; cbn; [constructor|]. apply Forall2_app; [assumption|]. constructor; [assumption|constructor].
Qed.

Lemma Forall2_firstn {A B} (R : A -> B -> Prop) n l1 l2 : Forall2 R l1 l2 -> Forall2 R (firstn n l1) (firstn n l2).
Proof.
  intros H; revert n; induction H; intros [|n]; cbn; constructor; auto.
Qed.

Lemma Forall2_skipn {A B} (R : A -> B -> Prop) n l1 l2 : Forall2 R l1 l2 -> Forall2 R (skipn n l1) (skipn n l2).
Proof.
  intros H; revert n; induction H; intros [|n]; cbn; try constructor; auto.
Qed.

Lemma flat_map_app' {A B} (f : A -> list B) l1 l2 : flat_map f (l1 ++ l2) = flat_map f l1 ++ flat_map f l2.
Proof. apply flat_map_app. Qed.

Lemma rev_firstn_skipn_rev {A} (l : list A) n :
  rev l = rev (skipn n l) ++ rev (firstn n l).
Proof. rewrite <- rev_app_distr, firstn_skipn. reflexivity. Qed.

(* ---------- bit sets ---------- *)

Lemma update_length {A} (l : list A) n x : length (update l n x) = length l.
Proof. revert n; induction l as [|y l IH]; intros [|n]; cbn; auto. Qed.

Lemma bset_set_length s i : length (bset_set s i) = length s.
Proof. apply update_length. Qed.

Lemma bset_set_same s i : i < length s -> bset_test (bset_set s i) i = true.
Proof.
  unfold bset_test, bset_set. revert i; induction s as [|b s IH]; intros [|i] H; cbn in *; try lia; auto.
  apply IH. lia.
Qed.

Lemma bset_set_mono s i j : bset_test s j = true -> bset_test (bset_set s i) j = true.
Proof.
  unfold bset_test, bset_set. revert i j; induction s as [|b s IH]; intros [|i] [|j] H; cbn in *; auto.
Qed.

Lemma bset_or_length a b : length (bset_or a b) = length a.
Proof. revert b; induction a as [|x a IH]; intros [|y b]; cbn; auto. Qed.

Lemma bset_or_mono_l a b j : bset_test a j = true -> bset_test (bset_or a b) j = true.
Proof.
  unfold bset_test. revert b j; induction a as [|x a IH]; intros [|y b] [|j] H; cbn in *; auto.
  subst; reflexivity.
Qed.

Lemma bset_or_mono_r a b j : j < length a -> bset_test b j = true -> bset_test (bset_or a b) j = true.
Proof.
  unfold bset_test. revert b j; induction a as [|x a IH]; intros [|y b] [|j] Hl H; cbn in *; try lia; try discriminate.
  - subst. apply orb_true_r.
  - apply IH; [lia|assumption].
Qed.

Lemma bset_empty_length n : length (bset_empty n) = n.
Proof. apply repeat_length. Qed.

Lemma bset_test_lt s j : bset_test s j = true -> j < length s.
Proof.
  unfold bset_test. revert j; induction s as [|b s IH]; intros [|j] H; cbn in *; try discriminate; try lia.
  apply IH in H. lia.
Qed.

Lemma first_of_syms_length g ne nf acc r : length (first_of_syms g ne nf acc r) = length acc.
Proof.
  revert acc; induction r as [|[i|n] r IH]; intros acc; cbn.
  - reflexivity.
  - apply bset_set_length.
  - destruct (bset_test ne n); [rewrite IH|]; apply bset_or_length.
Qed.

Lemma first_of_syms_mono g ne nf acc r j :
  bset_test acc j = true -> bset_test (first_of_syms g ne nf acc r) j = true.
Proof.
  revert acc; induction r as [|[i|n] r IH]; intros acc H; cbn.
  - assumption.
  - apply bset_set_mono; assumption.
  - destruct (bset_test ne n); [apply IH|]; apply bset_or_mono_l; assumption.
Qed.

(* ---------- trees ---------- *)

Fixpoint tree_ind' (P : tree -> Prop) (HL : forall a, P (Leaf a))
         (HN : forall r ch, Forall P ch -> P (Node r ch)) (t : tree) : P t :=
  match t with
  | Leaf a => HL a
  | Node r ch =>
      HN r ch ((fix go (l : list tree) : Forall P l :=
                  match l with
                  | [] => Forall_nil P
                  | x :: l' => Forall_cons x (tree_ind' P HL HN x) (go l')
                  end) ch)
  end.

Lemma flat_map_nil_inv {A B} (f : A -> list B) l : flat_map f l = [] -> Forall (fun x => f x = []) l.
Proof.
  induction l as [|x l IH]; cbn; intros H; constructor.
  - apply app_eq_nil in H. tauto.
  - apply IH. apply app_eq_nil in H. tauto.
Qed.
