(* Part of the tie between the hand-written model and the facts tools/source_facts.py read out of ctpg.hpp on this run. *)
(* the order of the table entry kinds (C01 C05 C11) *)
Require Import Ctpg.Base.Prelude Ctpg.Model.Grammar Ctpg.Model.LRGen Ctpg.Model.Driver Ctpg.Model.Dfa
               Ctpg.Model.RegexFront Ctpg.Model.SourceFacts.

Lemma tie_kind_order : sf_kind_order = [0; 1; 2; 3; 4; 5]. Proof. reflexivity. Qed.

