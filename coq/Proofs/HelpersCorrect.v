(* C19: the helper functors pick exactly the documented positions, for every arity, and read nothing else. *)
Require Import Ctpg.Base.Prelude Ctpg.Model.Helpers.

Section C19.
  Variable V : Type.

  Lemma pick_after_nth k (args : list V) x rest :
    pick_after V k args = Some (x, rest) <-> nth_error args k = Some x /\ rest = skipn (S k) args.
  Proof.
    unfold pick_after. revert args. induction k as [|k IH]; intros [|a args]; cbn; try (split; [discriminate | intros [H _]; discriminate]).
    - split; [intros H; inversion H; auto | intros [H ->]; inversion H; reflexivity].
    - apply IH.
  Qed.

  (* _eN returns the N-th right-side value (1-based), unchanged *)
  Theorem element_is_nth x (args : list V) : 1 <= x -> element V x args = nth_error args (x - 1).
  Proof.
    intros _. unfold element. destruct (pick_after V (x - 1) args) as [[v r]|] eqn:E; cbn.
    - apply pick_after_nth in E. symmetry. tauto.
    - unfold pick_after in E. destruct (skipn (x - 1) args) eqn:Es; [|discriminate].
      symmetry. apply nth_error_None. rewrite <- (firstn_skipn (x - 1) args), Es, app_nil_r. apply firstn_le_length.
  Qed.

  (* it inspects no other argument: replacing any other position leaves the result unchanged *)
  Theorem element_reads_only_its_position x (args args' : list V) :
    1 <= x -> nth_error args (x - 1) = nth_error args' (x - 1) -> element V x args = element V x args'.
  Proof. intros Hx H. rewrite !element_is_nth by assumption. exact H. Qed.

  Theorem construct_is_mk_nth mk i (args : list V) : 1 <= i -> construct V mk i args = option_map mk (nth_error args (i - 1)).
  Proof. intros H. unfold construct. rewrite element_is_nth by assumption. reflexivity. Qed.

  Lemma nth_error_skipn {A} (l : list A) k j : nth_error (skipn k l) j = nth_error l (k + j).
  Proof. revert l. induction k as [|k IH]; intros [|a l]; cbn; auto. destruct j; reflexivity. Qed.

  (* push_back<C,A> / emplace_back<C,A>, C <> A, container before or after the element *)
  Theorem append_to_picks_C_and_A app c a (args : list V) :
    1 <= c -> 1 <= a -> c <> a ->
    append_to V app c a args =
    match nth_error args (c - 1), nth_error args (a - 1) with
    | Some cont, Some x => Some (app cont x)
    | _, _ => None
    end.
  Proof.
    intros Hc Ha Hne. unfold append_to.
    destruct (Nat.ltb_spec c a) as [Hlt|Hge].
    - rewrite Nat.min_l, Nat.max_r by lia.
      destruct (pick_after V (c - 1) args) as [[f r]|] eqn:E1.
      + apply pick_after_nth in E1. destruct E1 as [E1 ->]. rewrite E1.
        destruct (pick_after V (a - c - 1) (skipn (S (c - 1)) args)) as [[s r2]|] eqn:E2.
        * apply pick_after_nth in E2. destruct E2 as [E2 _]. rewrite nth_error_skipn in E2.
          replace (S (c - 1) + (a - c - 1)) with (a - 1) in E2 by lia. rewrite E2. reflexivity.
        * unfold pick_after in E2. destruct (skipn (a - c - 1) (skipn (S (c - 1)) args)) eqn:Es; [|discriminate].
          assert (nth_error args (a - 1) = None) as ->; [|reflexivity].
          replace (a - 1) with (S (c - 1) + (a - c - 1)) by lia. rewrite <- nth_error_skipn.
          apply nth_error_None. rewrite <- (firstn_skipn (a - c - 1) (skipn (S (c - 1)) args)), Es, app_nil_r. apply firstn_le_length.
      + unfold pick_after in E1. destruct (skipn (c - 1) args) eqn:Es; [|discriminate].
        assert (nth_error args (c - 1) = None) as ->; [|reflexivity].
        apply nth_error_None. rewrite <- (firstn_skipn (c - 1) args), Es, app_nil_r. apply firstn_le_length.
    - assert (a < c) by lia. rewrite Nat.min_r, Nat.max_l by lia.
      destruct (pick_after V (a - 1) args) as [[f r]|] eqn:E1.
      + apply pick_after_nth in E1. destruct E1 as [E1 ->]. rewrite E1.
        destruct (pick_after V (c - a - 1) (skipn (S (a - 1)) args)) as [[s r2]|] eqn:E2.
        * apply pick_after_nth in E2. destruct E2 as [E2 _]. rewrite nth_error_skipn in E2.
          replace (S (a - 1) + (c - a - 1)) with (c - 1) in E2 by lia. rewrite E2. reflexivity.
        * unfold pick_after in E2. destruct (skipn (c - a - 1) (skipn (S (a - 1)) args)) eqn:Es; [|discriminate].
          assert (nth_error args (c - 1) = None) as ->; [|reflexivity].
          replace (c - 1) with (S (a - 1) + (c - a - 1)) by lia. rewrite <- nth_error_skipn.
          apply nth_error_None. rewrite <- (firstn_skipn (c - a - 1) (skipn (S (a - 1)) args)), Es, app_nil_r. apply firstn_le_length.
      + unfold pick_after in E1. destruct (skipn (a - 1) args) eqn:Es; [|discriminate].
        assert (nth_error args (a - 1) = None) as ->.
        { apply nth_error_None. rewrite <- (firstn_skipn (a - 1) args), Es, app_nil_r. apply firstn_le_length. }
        destruct (nth_error args (c - 1)); reflexivity.
  Qed.

  Theorem append_to_reads_only_C_and_A app c a (args args' : list V) :
    1 <= c -> 1 <= a -> c <> a ->
    nth_error args (c - 1) = nth_error args' (c - 1) -> nth_error args (a - 1) = nth_error args' (a - 1) ->
    append_to V app c a args = append_to V app c a args'.
  Proof. intros Hc Ha Hne E1 E2. rewrite !append_to_picks_C_and_A by assumption. rewrite E1, E2. reflexivity. Qed.

  Theorem val_ignores_arguments v (args args' : list V) : val V v args = val V v args' /\ val V v args = v.
  Proof. split; reflexivity. Qed.
  Theorem create_ignores_arguments d (args args' : list V) : create V d args = create V d args' /\ create V d args = d.
  Proof. split; reflexivity. Qed.
End C19.

(* non-vacuity: arity 5, container at 4, element at 2 *)
Example append_example : append_to (list nat) (fun c x => c ++ x) 4 2 [[1]; [2]; [3]; [40]; [5]] = Some [40; 2].
Proof. reflexivity. Qed.
