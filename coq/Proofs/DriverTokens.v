(* C18: the driver consults the lexer exactly at the token boundaries of [tokenize]; the run depends on the lexer
   only through the token stream it defines on the buffer. *)
Require Import Ctpg.Base.Prelude Ctpg.Model.Grammar Ctpg.Model.LRGen Ctpg.Model.Driver Ctpg.Spec.Eval.
Require Import Ctpg.Proofs.DriverBasics Ctpg.Proofs.DriverPos.

Definition lexer_t := bool -> spoint -> list nat -> list lex_event * option (nat * nat).
Definition tok_end (tk : nat * nat * nat) : nat := let '(_, start, len) := tk in start + len.
(* the verdict does not depend on the source point (which a lexer only uses for its trace) *)
Definition sp_indep (lexer : lexer_t) : Prop := forall v p q rest, snd (lexer v p rest) = snd (lexer v q rest).
Definition is_lex_ev (e : event) : bool := match e with EvLex _ => true | _ => false end.
Definition non_lex (l : list event) : list event := filter (fun e => negb (is_lex_ev e)) l.

Section TokSpec.
  Variable g : grammar.
  Variable opts : options.
  Variable buf : list nat.
  Variable lexer : lexer_t.

  Notation tokz F pos := (tokenize F opts lexer buf pos).

  (* [pre] is a prefix of the token stream and ends at offset [pos] *)
  Definition consumed_upto (pre : list (nat * nat * nat)) (pos : nat) : Prop :=
    forall F, tokz (length pre + F) 0 = (pre ++ fst (tokz F pos), snd (tokz F pos)).

  (* the token [tokenize] finds after offset pos *)
  Definition next_tok (pos : nat) (tk : nat * nat * nat) : Prop :=
    let '(t, start, len) := tk in
    start = pos + wsk opts buf pos /\
    exists c rest, skipn start buf = c :: rest /\
                   snd (lexer (o_verbose opts) (true_pos buf start) (c :: rest)) = Some (t, len).

  Lemma consumed_0 : consumed_upto [] 0.
  Proof. intros F. cbn. destruct (tokz F 0); reflexivity. Qed.

  Lemma tokenize_next F pos tk : next_tok pos tk ->
    tokz (S F) pos = (tk :: fst (tokz F (tok_end tk)), snd (tokz F (tok_end tk))).
  Proof.
    destruct tk as [[t start] len]. intros (Hs & c & rest & Hsk & Hlx). cbn [tokenize tok_end].
    fold (wsk opts buf pos). rewrite skipn_add, <- Hs, Hsk, Hlx.
    destruct (tokz F (start + len)); reflexivity.
  Qed.

  Lemma consumed_next pre pos tk : consumed_upto pre pos -> next_tok pos tk -> consumed_upto (pre ++ [tk]) (tok_end tk).
  Proof.
    intros Hc Hn F. rewrite app_length. cbn [length]. replace (length pre + 1 + F) with (length pre + S F) by lia.
    rewrite Hc, (tokenize_next F pos tk Hn). cbn [fst snd]. now rewrite <- app_assoc.
  Qed.

  Lemma tokenize_eof F pos : skipn (pos + wsk opts buf pos) buf = [] -> tokz (S F) pos = ([], TokEof (pos + wsk opts buf pos)).
  Proof. intros H. cbn [tokenize]. fold (wsk opts buf pos). now rewrite skipn_add, H. Qed.

  Lemma tokenize_fail F pos c rest :
    skipn (pos + wsk opts buf pos) buf = c :: rest ->
    snd (lexer (o_verbose opts) (true_pos buf (pos + wsk opts buf pos)) (c :: rest)) = None ->
    tokz (S F) pos = ([], TokFail (pos + wsk opts buf pos)).
  Proof. intros H Hl. cbn [tokenize]. fold (wsk opts buf pos). now rewrite skipn_add, H, Hl. Qed.
End TokSpec.

Section Tokens.
  Variables V C : Type.
  Variable g : grammar.
  Variable tbl : table.
  Variable opts : options.
  Variable buf : list nat.
  Variable cap : option nat.
  Variable lexer : lexer_t.
  Variable term_f : nat -> nat -> nat -> spoint -> V.
  Variable err_f : spoint -> V.
  Variable rule_f : nat -> C -> list V -> C * V.

  Hypothesis lexer_ok : lexer_in_range lexer.
  (* [tokenize] hands the lexer the true position; so does the driver (C10) unless the table shifts <eof>.
     Either that is excluded or the verdict must not depend on the source point. *)
  Hypothesis sp_ok : eof_err_not_shifted g tbl \/ sp_indep lexer.

  Notation pst := (pstate V C).
  Notation stepx := (step V C g tbl opts buf cap lexer term_f err_f rule_f).
  Notation run_ghx := (run_gh V C g tbl opts buf cap lexer term_f err_f rule_f).
  Notation gspec := (gct_spec V C g opts buf lexer).
  Notation aspec := (act_spec V C g tbl buf cap term_f err_f rule_f).
  Notation pinv := (pos_inv V C g tbl buf).
  Notation ntok := (next_tok opts buf lexer).
  Notation cupto := (consumed_upto opts buf lexer).

  Lemma lexer_len' : forall v p rest t len, snd (lexer v p rest) = Some (t, len) -> len <= length rest.
  Proof. intros v p rest t len H. apply lexer_ok in H. tauto. Qed.

  (* where the driver stands relative to the token boundary pos *)
  Inductive tok_at (pos : nat) (s : pst) : Prop :=
  | TaBoundary : ps_it s = pos -> ps_end s = pos -> tok_at pos s
  | TaPending t len : ntok pos (t, ps_it s, len) -> ps_end s = ps_it s + len -> ps_term s = Some t -> tok_at pos s
  | TaEof : skipn (pos + wsk opts buf pos) buf = [] -> ps_it s = pos + wsk opts buf pos -> ps_end s = pos ->
            ps_term s = Some (eof_idx g) -> tok_at pos s.

  Definition sp_inv (s : pst) : Prop := eof_err_not_shifted g tbl -> pinv s.

  Lemma tok_at_same pos (s s' : pst) :
    ps_it s' = ps_it s -> ps_end s' = ps_end s -> ps_term s' = ps_term s -> tok_at pos s -> tok_at pos s'.
  Proof.
    intros Hi He Ht [H1 H2|t len H1 H2 H3|H1 H2 H3 H4].
    - apply TaBoundary; congruence.
    - apply TaPending with t len; rewrite ?Hi, ?He, ?Ht; assumption.
    - apply TaEof; congruence.
  Qed.

  (* consume_term lands on a boundary: the same one if nothing was pending, the next one otherwise *)
  Lemma tok_at_consume pos (s s' : pst) :
    ps_it s' = ps_end s -> ps_end s' = ps_end s -> tok_at pos s ->
    tok_at pos s' \/ exists tk, ntok pos tk /\ tok_at (tok_end tk) s'.
  Proof.
    intros Hi He [H1 H2|t len H1 H2 H3|H1 H2 H3 H4].
    - left. apply TaBoundary; congruence.
    - right. exists (t, ps_it s, len). split; [assumption|]. cbn [tok_end]. apply TaBoundary; congruence.
    - left. apply TaBoundary; congruence.
  Qed.

  (* whenever the driver is about to consult the lexer its cursor is on the boundary *)
  Lemma consult_on_boundary pos s : tok_at pos s -> ps_it s = ps_end s -> ps_it s = pos /\ ps_end s = pos.
  Proof.
    intros [H1 H2|t len H1 H2 H3|H1 H2 H3 H4] He; [auto| |lia].
    exfalso. destruct H1 as (_ & c & rest & _ & Hl). apply lexer_ok in Hl. lia.
  Qed.

  Lemma lexer_at_true_pos (s : pst) it1 rest :
    sp_inv s -> ps_it s <= it1 ->
    snd (lexer (o_verbose opts) (sp_update (ps_sp s) (slice_of buf (ps_it s) it1)) rest) =
    snd (lexer (o_verbose opts) (true_pos buf it1) rest).
  Proof.
    intros Hsp Hle. destruct sp_ok as [Hn|Hi]; [|apply Hi].
    destruct (Hsp Hn) as [(Hp & _) _]. rewrite Hp, sp_update_true_pos' by assumption. reflexivity.
  Qed.

  Lemma gct_tok pos s s1 t ev : sp_inv s -> tok_at pos s -> gspec s (s1, Some t, ev) -> tok_at pos s1.
  Proof.
    intros Hsp Hat H.
    inversion H as [Hr|Hr Hne|sp1 it1 Hr He Hit1 Hsp1 Hsk|sp1 it1 c rest lx Hr He Hit1 Hsp1 Hsk Hlx|sp1 it1 c rest lx t' len Hr He Hit1 Hsp1 Hsk Hlx];
      subst; try assumption.
    - destruct (consult_on_boundary _ _ Hat He) as [Hi He']. rewrite Hi in *.
      apply TaEof; simp_ps; auto.
    - destruct (consult_on_boundary _ _ Hat He) as [Hi He']. rewrite Hi in *.
      apply TaPending with t len; simp_ps; auto.
      split; [reflexivity|]. exists c, rest. split; [assumption|].
      rewrite <- lexer_at_true_pos with (s := s) by (auto; lia). rewrite Hi, Hlx. reflexivity.
  Qed.

  Lemma act_tok pos s1 cursor t r ev : tok_at pos s1 -> aspec s1 cursor t (r, ev) ->
    match r with
    | inl s' => tok_at pos s' \/ exists tk, ntok pos tk /\ tok_at (tok_end tk) s'
    | inr _ => True
    end.
  Proof.
    intros Hat H.
    inversion H as [r0 s' ev0 Hs' Hr Hev|Hc Hne|Hc Hr|top cs Hc Hr Htl|Hc Hr Htl|e nst Hcell Hk Hend|nst|r0 s3 pre ev0 Hred Hpre];
      subst; try exact I.
    - eapply tok_at_consume; [..|exact Hat]; simp_ps; reflexivity.
    - left. eapply tok_at_same; [..|exact Hat]; simp_ps; reflexivity.
    - left. eapply tok_at_same; [..|exact Hat]; simp_ps; reflexivity.
    - eapply tok_at_consume; [..|exact Hat]; simp_ps; reflexivity.
    - left. eapply tok_at_same; [..|exact Hat]; simp_ps; reflexivity.
    - apply do_reduce_inl in Hred as (ri & nst & c' & v & _ & _ & _ & _ & -> & _).
      left. eapply tok_at_same; [..|exact Hat]; simp_ps; reflexivity.
  Qed.

  Lemma step_tok pos s : sp_inv s -> tok_at pos s ->
    match fst (stepx s) with
    | inl s' => tok_at pos s' \/ exists tk, ntok pos tk /\ tok_at (tok_end tk) s'
    | inr _ => True
    end.
  Proof.
    intros Hsp Hat. apply step_cases.
    - intros _. exact I.
    - intros s1 ev1 _. exact I.
    - intros cursor cs s1 t ev1 r ev2 _ Hg Ha. cbn [fst].
      eapply act_tok; [|exact Ha]. eapply gct_tok; eauto.
  Qed.

  Lemma step_sp s : sp_inv s -> match fst (stepx s) with inl s' => sp_inv s' | inr _ => True end.
  Proof.
    intros Hsp. destruct (fst (stepx s)) as [s'|] eqn:E; [|exact I]. intros Hn.
    pose proof (step_pos V C g tbl opts buf cap lexer term_f err_f rule_f lexer_len' (or_introl Hn) s (Hsp Hn)) as [_ H].
    rewrite E in H. exact H.
  Qed.

  (* the invariant: a prefix of the token stream has been consumed, the driver stands at its end *)
  Definition tok_inv (s : pst) : Prop := exists pre pos, cupto pre pos /\ tok_at pos s.

  Lemma step_tok_inv s : sp_inv s -> tok_inv s -> match fst (stepx s) with inl s' => tok_inv s' | inr _ => True end.
  Proof.
    intros Hsp (pre & pos & Hc & Hat). pose proof (step_tok pos s Hsp Hat) as H.
    destruct (fst (stepx s)) as [s'|]; [|exact I].
    destruct H as [H|(tk & Hn & H)].
    - exists pre, pos. auto.
    - exists (pre ++ [tk]), (tok_end tk). split; [|assumption]. eapply consumed_next; eauto.
  Qed.

  Lemma tok_inv_init c : tok_inv (init c) /\ sp_inv (init c).
  Proof.
    split.
    - exists [], 0. split; [apply consumed_0|]. apply TaBoundary; reflexivity.
    - intros _. apply pos_inv_init.
  Qed.

  (* every loop-head state of the run (and the state the run is in when the fuel runs out) satisfies the invariant *)
  Theorem run_tok_inv fuel c :
    let '(r, s, _, vis) := run_ghx fuel (init c) [] [] in
    Forall tok_inv vis /\ (r = OutOfFuel -> tok_inv s).
  Proof.
    pose proof (run_gh_sinv V C g tbl opts buf cap lexer term_f err_f rule_f
                  (fun s => tok_inv s /\ sp_inv s) (fun r s => r = OutOfFuel -> tok_inv s)) as H.
    specialize (H ltac:(intros s [Hs _] _; exact Hs)).
    assert (Hst : forall s, tok_inv s /\ sp_inv s ->
               match fst (stepx s) with inl s' => tok_inv s' /\ sp_inv s' | inr (r, s') => r = OutOfFuel -> tok_inv s' end).
    { intros s [H1 H2]. pose proof (step_tok_inv s H2 H1) as H3. pose proof (step_sp s H2) as H4.
      revert H3 H4. apply step_cases.
      - discriminate.
      - discriminate.
      - intros cursor cs s1 t ev1 r ev2 _ _ Ha. cbn [fst]. destruct r as [s'|[r s']]; [auto|].
        intros _ _ ->. inversion Ha; subst. cbn in *. contradiction. }
    specialize (H Hst fuel (init c) [] [] (tok_inv_init c) (Forall_nil _)).
    destruct (run_ghx fuel (init c) [] []) as [[[r s] out] vis]. destruct H as [H1 H2]. split; [|assumption].
    eapply Forall_impl; [|exact H2]. intros a [Ha _]. exact Ha.
  Qed.

  (* the reading asked for: the lexer is consulted only with the cursor at the end of a consumed prefix of the token
     stream, on the input [tokenize] consults it on; the answer is the next token / end / failure of [tokenize] *)
  Theorem consult_at_token_boundary s :
    tok_inv s -> sp_inv s -> ps_rec s = false -> ps_it s = ps_end s ->
    exists pre, cupto pre (ps_it s) /\
      let start := ps_it s + wsk opts buf (ps_it s) in
      let sp1 := sp_update (ps_sp s) (slice_of buf (ps_it s) start) in
      match skipn start buf with
      | [] => forall F, tokenize (S F) opts lexer buf (ps_it s) = ([], TokEof start)
      | c :: rest =>
          snd (lexer (o_verbose opts) sp1 (c :: rest)) = snd (lexer (o_verbose opts) (true_pos buf start) (c :: rest)) /\
          match snd (lexer (o_verbose opts) sp1 (c :: rest)) with
          | None => forall F, tokenize (S F) opts lexer buf (ps_it s) = ([], TokFail start)
          | Some (t, len) => ntok (ps_it s) (t, start, len)
          end
      end.
  Proof.
    intros (pre & pos & Hc & Hat) Hsp Hr He. destruct (consult_on_boundary _ _ Hat He) as [Hi _]. subst pos.
    exists pre. split; [assumption|]. cbn zeta.
    destruct (skipn (ps_it s + wsk opts buf (ps_it s)) buf) as [|c rest] eqn:Hsk.
    - intros F. now apply tokenize_eof.
    - pose proof (lexer_at_true_pos s (ps_it s + wsk opts buf (ps_it s)) (c :: rest) Hsp ltac:(lia)) as Hl.
      split; [assumption|]. rewrite Hl.
      destruct (snd (lexer (o_verbose opts) (true_pos buf (ps_it s + wsk opts buf (ps_it s))) (c :: rest))) as [[t len]|] eqn:Hv.
      + split; [reflexivity|]. exists c, rest. auto.
      + intros F. eapply tokenize_fail; eauto.
  Qed.

  (* ---------- the same with the consumed tokens as a ghost of the run ---------- *)
  (* an iteration consumes the pending lexeme [ps_it s1, ps_end s1) iff it moves the cursor to its end
     (by shifting it, or by discarding it in consume mode) *)
  Definition consumed_of (s1 : pst) (o : pst + result V * pst) : list (nat * nat * nat) :=
    match o with
    | inl s' => if Nat.ltb (ps_it s1) (ps_end s1) && Nat.eqb (ps_it s') (ps_end s1)
                then [(term_or0 s1, ps_it s1, ps_end s1 - ps_it s1)] else []
    | inr _ => []
    end.
  Definition consumed_at (s : pst) : list (nat * nat * nat) :=
    consumed_of (fst (fst (get_current_term V C g opts buf lexer s))) (fst (stepx s)).
  Definition consumed_toks (vis : list pst) : list (nat * nat * nat) := flat_map consumed_at vis.

  Lemma tok_at_same_gh pos (s1 s' : pst) :
    ps_it s' = ps_it s1 -> ps_end s' = ps_end s1 -> ps_term s' = ps_term s1 -> tok_at pos s1 ->
    consumed_of s1 (inl s') = [] /\ tok_at pos s'.
  Proof.
    intros Hi He Ht Hat. split; [|eapply tok_at_same; eauto]. cbn [consumed_of]. rewrite Hi.
    destruct (Nat.ltb (ps_it s1) (ps_end s1)) eqn:E1; [|reflexivity]. apply Nat.ltb_lt in E1.
    destruct (Nat.eqb (ps_it s1) (ps_end s1)) eqn:E2; [|reflexivity]. apply Nat.eqb_eq in E2. lia.
  Qed.

  Lemma tok_at_consume_gh pos (s1 s' : pst) :
    ps_it s' = ps_end s1 -> ps_end s' = ps_end s1 -> tok_at pos s1 ->
    (consumed_of s1 (inl s') = [] /\ tok_at pos s') \/
    (exists tk, consumed_of s1 (inl s') = [tk] /\ ntok pos tk /\ tok_at (tok_end tk) s').
  Proof.
    intros Hi He [H1 H2|t len H1 H2 H3|H1 H2 H3 H4]; cbn [consumed_of]; rewrite Hi, Nat.eqb_refl, andb_true_r.
    - left. replace (Nat.ltb (ps_it s1) (ps_end s1)) with false by (symmetry; apply Nat.ltb_ge; lia).
      split; [reflexivity|]. apply TaBoundary; congruence.
    - right. exists (t, ps_it s1, len).
      assert (Hlen : 0 < len).
      { destruct H1 as (_ & c & rest & _ & Hl). apply lexer_ok in Hl. lia. }
      replace (Nat.ltb (ps_it s1) (ps_end s1)) with true by (symmetry; apply Nat.ltb_lt; lia).
      unfold term_or0. rewrite H3. replace (ps_end s1 - ps_it s1) with len by lia.
      split; [reflexivity|]. split; [assumption|]. cbn [tok_end]. apply TaBoundary; congruence.
    - left. replace (Nat.ltb (ps_it s1) (ps_end s1)) with false by (symmetry; apply Nat.ltb_ge; lia).
      split; [reflexivity|]. apply TaBoundary; congruence.
  Qed.

  Lemma step_tok_gh pos s : sp_inv s -> tok_at pos s ->
    match fst (stepx s) with
    | inl s' => (consumed_at s = [] /\ tok_at pos s') \/
                (exists tk, consumed_at s = [tk] /\ ntok pos tk /\ tok_at (tok_end tk) s')
    | inr _ => True
    end.
  Proof.
    intros Hsp Hat. unfold consumed_at.
    apply (step_cases_eq V C g tbl opts buf cap lexer term_f err_f rule_f
             (fun oe => match fst oe with
                        | inl s' => (consumed_of (fst (fst (get_current_term V C g opts buf lexer s))) (fst oe) = [] /\ tok_at pos s') \/
                                    (exists tk, consumed_of (fst (fst (get_current_term V C g opts buf lexer s))) (fst oe) = [tk] /\
                                                ntok pos tk /\ tok_at (tok_end tk) s')
                        | inr _ => True
                        end)).
    - intros _. exact I.
    - intros s1 ev1 _ _. exact I.
    - intros cursor cs s1 t ev1 r ev2 _ Heq Hg Ha. cbn [fst]. rewrite Heq. cbn [fst].
      pose proof (gct_tok pos s s1 t ev1 Hsp Hat Hg) as Hat1.
      inversion Ha as [r0 s' ev0 Hs' Hr Hev|Hc Hne|Hc Hr|top cs' Hc Hr Htl|Hc Hr Htl|e nst Hcell Hk Hend|nst|r0 s3 pre ev0 Hred Hpre];
        subst; try exact I.
      + eapply tok_at_consume_gh; [..|exact Hat1]; simp_ps; reflexivity.
      + left. eapply tok_at_same_gh; [..|exact Hat1]; simp_ps; reflexivity.
      + left. eapply tok_at_same_gh; [..|exact Hat1]; simp_ps; reflexivity.
      + eapply tok_at_consume_gh; [..|exact Hat1]; simp_ps; reflexivity.
      + left. eapply tok_at_same_gh; [..|exact Hat1]; simp_ps; reflexivity.
      + apply do_reduce_inl in Hred as (ri & nst & c' & v & _ & _ & _ & _ & -> & _).
        left. eapply tok_at_same_gh; [..|exact Hat1]; simp_ps; reflexivity.
  Qed.

  Lemma consumed_toks_snoc vis s : consumed_toks (vis ++ [s]) = consumed_toks vis ++ consumed_at s.
  Proof. unfold consumed_toks. rewrite flat_map_app. cbn. now rewrite app_nil_r. Qed.

  (* at every point of the run the tokens the driver has consumed so far (shifted, or discarded in consume mode) are
     exactly a prefix of the token stream of [tokenize], and the driver stands at the end of that prefix: on the
     boundary, or with the next token of the stream pending, or with <eof> pending *)
  Theorem run_tok_inv_gh fuel c :
    let '(r, s, _, vis) := run_ghx fuel (init c) [] [] in
    r = OutOfFuel -> exists pos, cupto (consumed_toks vis) pos /\ tok_at pos s.
  Proof.
    pose proof (run_gh_inv V C g tbl opts buf cap lexer term_f err_f rule_f
                  (fun vis s => (exists pos, cupto (consumed_toks vis) pos /\ tok_at pos s) /\ sp_inv s)
                  (fun vis r s => r = OutOfFuel -> exists pos, cupto (consumed_toks vis) pos /\ tok_at pos s)) as H.
    specialize (H ltac:(intros vis s [Hs _] _; exact Hs)).
    assert (Hst : forall vis s, (exists pos, cupto (consumed_toks vis) pos /\ tok_at pos s) /\ sp_inv s ->
               match fst (stepx s) with
               | inl s' => (exists pos, cupto (consumed_toks (vis ++ [s])) pos /\ tok_at pos s') /\ sp_inv s'
               | inr (r, s') => r = OutOfFuel -> exists pos, cupto (consumed_toks (vis ++ [s])) pos /\ tok_at pos s'
               end).
    { intros vis s [(pos & Hc & Hat) H2]. pose proof (step_tok_gh pos s H2 Hat) as H3. pose proof (step_sp s H2) as H4.
      rewrite consumed_toks_snoc. revert H3 H4. generalize (consumed_at s). intros ca. apply step_cases.
      - discriminate.
      - discriminate.
      - intros cursor cs s1 t ev1 r ev2 _ _ Ha. cbn [fst]. destruct r as [s'|[r s']].
        + intros [[-> H3]|(tk & -> & Hn & H3)] H4; (split; [|assumption]).
          * exists pos. rewrite app_nil_r. auto.
          * exists (tok_end tk). split; [eapply consumed_next; eauto|assumption].
        + intros _ _ ->. inversion Ha; subst. cbn in *. contradiction. }
    specialize (H Hst fuel (init c) [] []).
    destruct (run_ghx fuel (init c) [] []) as [[[r s] out] vis]. apply H. split; [|apply tok_inv_init].
    exists 0. split; [apply consumed_0|]. apply TaBoundary; reflexivity.
  Qed.
End Tokens.

(* ---------- two lexers that define the same token stream give the same run ---------- *)
Section TwoLexers.
  Variables V C : Type.
  Variable g : grammar.
  Variable tbl : table.
  Variable opts : options.
  Variable buf : list nat.
  Variable cap : option nat.
  Variables lexer1 lexer2 : lexer_t.
  Variable term_f : nat -> nat -> nat -> spoint -> V.
  Variable err_f : spoint -> V.
  Variable rule_f : nat -> C -> list V -> C * V.

  Hypothesis lexer1_ok : lexer_in_range lexer1.
  Hypothesis lexer2_ok : lexer_in_range lexer2.
  Hypothesis sp_ok2 : eof_err_not_shifted g tbl \/ (sp_indep lexer1 /\ sp_indep lexer2).
  Hypothesis same_tokens : forall F, tokenize F opts lexer1 buf 0 = tokenize F opts lexer2 buf 0.

  Notation pst := (pstate V C).
  Notation step1 := (step V C g tbl opts buf cap lexer1 term_f err_f rule_f).
  Notation step2 := (step V C g tbl opts buf cap lexer2 term_f err_f rule_f).
  Notation run_gh1 := (run_gh V C g tbl opts buf cap lexer1 term_f err_f rule_f).
  Notation run_gh2 := (run_gh V C g tbl opts buf cap lexer2 term_f err_f rule_f).
  Notation run1 := (run V C g tbl opts buf cap lexer1 term_f err_f rule_f).
  Notation run2 := (run V C g tbl opts buf cap lexer2 term_f err_f rule_f).

  Lemma sp_ok_1 : eof_err_not_shifted g tbl \/ sp_indep lexer1. Proof. tauto. Qed.
  Lemma sp_ok_2 : eof_err_not_shifted g tbl \/ sp_indep lexer2. Proof. tauto. Qed.

  (* the two lexers give the same verdict wherever the driver consults them from state s *)
  Definition agree (s : pst) : Prop :=
    ps_rec s = false -> ps_it s = ps_end s ->
    let start := ps_it s + wsk opts buf (ps_it s) in
    let sp1 := sp_update (ps_sp s) (slice_of buf (ps_it s) start) in
    forall c rest, skipn start buf = c :: rest ->
      snd (lexer1 (o_verbose opts) sp1 (c :: rest)) = snd (lexer2 (o_verbose opts) sp1 (c :: rest)).

  Lemma non_lex_app a b : non_lex (a ++ b) = non_lex a ++ non_lex b.
  Proof. apply filter_app. Qed.
  Lemma non_lex_lex lx : non_lex (map EvLex lx) = [].
  Proof. induction lx; cbn; auto. Qed.

  Lemma gct_agree s : agree s ->
    let '(s1, t1, e1) := get_current_term V C g opts buf lexer1 s in
    let '(s2, t2, e2) := get_current_term V C g opts buf lexer2 s in
    s1 = s2 /\ t1 = t2 /\ non_lex e1 = non_lex e2.
  Proof.
    intros Hag. unfold agree in Hag. unfold get_current_term.
    destruct (ps_rec s); [auto|]. destruct (Nat.eqb (ps_it s) (ps_end s)) eqn:He; cbn [negb]; [|auto].
    apply Nat.eqb_eq in He. specialize (Hag eq_refl He). cbn zeta in Hag.
    fold (wsk opts buf (ps_it s)). rewrite <- slice_of_add, skipn_add.
    destruct (skipn (ps_it s + wsk opts buf (ps_it s)) buf) as [|c rest]; [auto|].
    specialize (Hag c rest eq_refl).
    destruct (lexer1 (o_verbose opts) _ (c :: rest)) as [lx1 r1]. destruct (lexer2 (o_verbose opts) _ (c :: rest)) as [lx2 r2].
    cbn in Hag. subst r2. destruct r1 as [[t len]|]; repeat split; rewrite !non_lex_app, !non_lex_lex; reflexivity.
  Qed.

  Lemma step_agree s : agree s -> fst (step1 s) = fst (step2 s) /\ non_lex (snd (step1 s)) = non_lex (snd (step2 s)).
  Proof.
    intros Hag. unfold step. destruct (ps_cursors s) as [|cursor cs]; [auto|].
    pose proof (gct_agree s Hag) as H.
    destruct (get_current_term V C g opts buf lexer1 s) as [[s1 t1] e1].
    destruct (get_current_term V C g opts buf lexer2 s) as [[s2 t2] e2].
    destruct H as (-> & -> & He). destruct t2 as [t|]; [|auto].
    destruct (act V C g tbl buf cap term_f err_f rule_f s2 cursor t) as [r ev2]. cbn [fst snd].
    split; [reflexivity|]. now rewrite !non_lex_app, He.
  Qed.

  (* the joint invariant: both token streams have the same consumed prefix, the driver stands at its end *)
  Definition joint (s : pst) : Prop :=
    (exists pre pos, consumed_upto opts buf lexer1 pre pos /\ consumed_upto opts buf lexer2 pre pos /\
                     tok_at V C g opts buf lexer1 pos s) /\
    sp_inv V C g tbl buf s.

  Lemma same_next pre pos :
    consumed_upto opts buf lexer1 pre pos -> consumed_upto opts buf lexer2 pre pos ->
    tokenize 1 opts lexer1 buf pos = tokenize 1 opts lexer2 buf pos.
  Proof.
    intros H1 H2. specialize (H1 1). specialize (H2 1). rewrite same_tokens, H2 in H1. clear H2.
    revert H1. generalize (tokenize 1 opts lexer1 buf pos). generalize (tokenize 1 opts lexer2 buf pos).
    intros [a2 b2] [a1 b1] H. cbn [fst snd] in H. injection H as Ha Hb. apply app_inv_head in Ha. congruence.
  Qed.

  Lemma same_verdict pre pos c rest :
    consumed_upto opts buf lexer1 pre pos -> consumed_upto opts buf lexer2 pre pos ->
    skipn (pos + wsk opts buf pos) buf = c :: rest ->
    snd (lexer1 (o_verbose opts) (true_pos buf (pos + wsk opts buf pos)) (c :: rest)) =
    snd (lexer2 (o_verbose opts) (true_pos buf (pos + wsk opts buf pos)) (c :: rest)).
  Proof.
    intros H1 H2 Hsk. pose proof (same_next pre pos H1 H2) as H. cbn [tokenize] in H.
    fold (wsk opts buf pos) in H. rewrite skipn_add, Hsk in H.
    destruct (snd (lexer1 (o_verbose opts) (true_pos buf (pos + wsk opts buf pos)) (c :: rest))) as [[t1 l1]|];
      destruct (snd (lexer2 (o_verbose opts) (true_pos buf (pos + wsk opts buf pos)) (c :: rest))) as [[t2 l2]|];
      try discriminate; [|reflexivity]. inversion H; subst. reflexivity.
  Qed.

  Lemma joint_agree s : joint s -> agree s.
  Proof.
    intros [(pre & pos & H1 & H2 & Hat) Hsp] Hr He. cbn zeta. intros c rest Hsk.
    destruct (consult_on_boundary V C g opts buf lexer1 lexer1_ok pos s Hat He) as [Hi _]. subst pos.
    rewrite (lexer_at_true_pos V C g tbl opts buf lexer1 sp_ok_1 s (ps_it s + wsk opts buf (ps_it s)) (c :: rest) Hsp (Nat.le_add_r _ _)).
    rewrite (lexer_at_true_pos V C g tbl opts buf lexer2 sp_ok_2 s (ps_it s + wsk opts buf (ps_it s)) (c :: rest) Hsp (Nat.le_add_r _ _)).
    eapply same_verdict; eauto.
  Qed.

  Lemma same_next_tok pre pos tk :
    consumed_upto opts buf lexer1 pre pos -> consumed_upto opts buf lexer2 pre pos ->
    next_tok opts buf lexer1 pos tk -> next_tok opts buf lexer2 pos tk.
  Proof.
    destruct tk as [[t start] len]. intros H1 H2 (Hs & c & rest & Hsk & Hl). split; [assumption|].
    exists c, rest. split; [assumption|]. subst start. rewrite <- (same_verdict pre pos c rest H1 H2 Hsk). assumption.
  Qed.

  Lemma joint_step s : joint s -> match fst (step1 s) with inl s' => joint s' | inr _ => True end.
  Proof.
    intros [(pre & pos & H1 & H2 & Hat) Hsp].
    pose proof (step_tok V C g tbl opts buf cap lexer1 term_f err_f rule_f lexer1_ok sp_ok_1 pos s Hsp Hat) as H.
    pose proof (step_sp V C g tbl opts buf cap lexer1 term_f err_f rule_f lexer1_ok sp_ok_1 s Hsp) as H'.
    destruct (fst (step1 s)) as [s'|]; [|exact I]. split; [|assumption].
    destruct H as [H|(tk & Hn & H)].
    - exists pre, pos. auto.
    - exists (pre ++ [tk]), (tok_end tk). repeat split; [eapply consumed_next; eauto| |assumption].
      eapply consumed_next; [eassumption|]. eapply same_next_tok; eauto.
  Qed.

  Lemma non_lex_visible ev : non_lex (filter (visible opts) ev) = filter (visible opts) (non_lex ev).
  Proof.
    unfold non_lex. induction ev as [|e ev IH]; cbn; [reflexivity|].
    destruct (visible opts e) eqn:Hv, (negb (is_lex_ev e)) eqn:Hl; cbn; rewrite ?Hv, ?Hl, IH; reflexivity.
  Qed.

  Lemma run_gh_same fuel : forall s out1 out2 vis, joint s -> non_lex out1 = non_lex out2 ->
    let '(r1, s1, o1, v1) := run_gh1 fuel s out1 vis in
    let '(r2, s2, o2, v2) := run_gh2 fuel s out2 vis in
    r1 = r2 /\ s1 = s2 /\ v1 = v2 /\ non_lex o1 = non_lex o2.
  Proof.
    induction fuel as [|f IH]; intros s out1 out2 vis Hj Ho; cbn [run_gh]; [auto|].
    destruct (step_agree s (joint_agree s Hj)) as [Hs He]. pose proof (joint_step s Hj) as Hj'.
    destruct (step1 s) as [o1 e1]. destruct (step2 s) as [o2 e2]. cbn [fst snd] in *. subst o2.
    assert (Ho' : non_lex (out1 ++ filter (visible opts) e1) = non_lex (out2 ++ filter (visible opts) e2)).
    { now rewrite !non_lex_app, !non_lex_visible, Ho, He. }
    destruct o1 as [s'|[r s']]; [apply IH; assumption|auto].
  Qed.

  (* same result (hence value), same final stacks, positions, modes and context, same lines except the lexer's own *)
  Theorem same_tokens_same_run fuel c :
    let '(r1, s1, out1) := run1 fuel c in
    let '(r2, s2, out2) := run2 fuel c in
    r1 = r2 /\ s1 = s2 /\ non_lex out1 = non_lex out2.
  Proof.
    unfold run. rewrite (run_gh_run _ _ _ _ _ _ _ _ _ _ _ fuel (init c) [] []), (run_gh_run _ _ _ _ _ _ _ _ _ _ _ fuel (init c) [] []).
    pose proof (run_gh_same fuel (init c) [] [] []) as H.
    assert (Hj : joint (init c)).
    { split; [|intros _; apply pos_inv_init]. exists [], 0. repeat split; try apply consumed_0. apply TaBoundary; reflexivity. }
    specialize (H Hj eq_refl).
    destruct (run_gh1 fuel (init c) [] []) as [[[r1 s1] o1] v1]. destruct (run_gh2 fuel (init c) [] []) as [[[r2 s2] o2] v2].
    tauto.
  Qed.
End TwoLexers.
