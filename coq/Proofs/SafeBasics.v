(* Exact, leaf-by-leaf descriptions of [do_reduce], [act] and [step] (result component), for an arbitrary stack
   capacity.  [DriverBasics.act_spec] forgets which cell was read and which crash a final iteration ends with; the
   memory-safety theorems need exactly that.  All unfolding of [act]/[do_reduce] for Proofs/Safe*.v is in this file. *)
Require Import Ctpg.Base.Prelude Ctpg.Model.Grammar Ctpg.Model.LRGen Ctpg.Model.Driver Ctpg.Proofs.DriverBasics.

Section SafeBasics.
  Variables V C : Type.
  Variable g : grammar.
  Variable tbl : table.
  Variable opts : options.
  Variable buf : list nat.
  Variable cap : option nat.
  Variable lexer : bool -> spoint -> list nat -> list lex_event * option (nat * nat).
  Variable term_f : nat -> nat -> nat -> spoint -> V.
  Variable err_f : spoint -> V.
  Variable rule_f : nat -> C -> list V -> C * V.

  Notation pst := (pstate V C).
  Notation stepx := (step V C g tbl opts buf cap lexer term_f err_f rule_f).
  Notation actx := (act V C g tbl buf cap term_f err_f rule_f).
  Notation gctx := (get_current_term V C g opts buf lexer).
  Notation reducex := (do_reduce V C g tbl cap rule_f).
  Notation consumex := (consume_term V C buf).
  Notation gspec := (gct_spec V C g opts buf lexer).

  (* ---------- do_reduce ---------- *)
  (* the common path condition: rule_info found, enough cursors, the uncovered state, its goto cell *)
  Definition red_pre (s : pst) (r : nat) (ri : rule_info) (top : nat) (cs : list nat) : Prop :=
    nth_error (rule_infos g) r = Some ri /\ ri_n ri <= length (ps_cursors s) /\
    skipn (ri_n ri) (ps_cursors s) = top :: cs.

  Inductive red_spec (s : pst) (r : nat) : (pst * list event) + result V -> Prop :=
  | RsNoRule : nth_error (rule_infos g) r = None -> red_spec s r (inr (Crash CrRuleInfo))
  | RsUnderC ri : nth_error (rule_infos g) r = Some ri -> length (ps_cursors s) < ri_n ri ->
      red_spec s r (inr (Crash CrStackUnderflow))
  | RsEmpty ri : nth_error (rule_infos g) r = Some ri -> ri_n ri <= length (ps_cursors s) ->
      skipn (ri_n ri) (ps_cursors s) = [] -> red_spec s r (inr (Crash CrEmptyStack))
  | RsCell ri top cs c : red_pre s r ri top cs -> cell tbl top (ri_l ri) = inr c -> red_spec s r (inr (Crash c))
  | RsThrow1 ri top cs e : red_pre s r ri top cs -> cell tbl top (ri_l ri) = inl e ->
      full cap (length (top :: cs)) = true -> red_spec s r (inr Throw)
  | RsUninit ri top cs e : red_pre s r ri top cs -> cell tbl top (ri_l ri) = inl e ->
      full cap (length (top :: cs)) = false -> e_arg e = None -> red_spec s r (inr (Crash CrGotoUninit))
  | RsUnderV ri top cs e nst : red_pre s r ri top cs -> cell tbl top (ri_l ri) = inl e ->
      full cap (length (top :: cs)) = false -> e_arg e = Some nst ->
      length (ps_values s) < ri_n ri -> red_spec s r (inr (Crash CrStackUnderflow))
  | RsThrow2 ri top cs e nst : red_pre s r ri top cs -> cell tbl top (ri_l ri) = inl e ->
      full cap (length (top :: cs)) = false -> e_arg e = Some nst ->
      ri_n ri <= length (ps_values s) ->
      full cap (length (skipn (ri_n ri) (ps_values s))) = true -> red_spec s r (inr Throw)
  | RsOk ri top cs e nst c' v : red_pre s r ri top cs -> cell tbl top (ri_l ri) = inl e ->
      full cap (length (top :: cs)) = false -> e_arg e = Some nst ->
      ri_n ri <= length (ps_values s) ->
      rule_f (ri_r ri) (ps_ctx s) (rev (firstn (ri_n ri) (ps_values s))) = (c', v) ->
      full cap (length (skipn (ri_n ri) (ps_values s))) = false ->
      red_spec s r (inl (set_ctx (set_stacks s (nst :: top :: cs) (v :: skipn (ri_n ri) (ps_values s))) c',
                         [EvReduce (ps_sp s) (ri_r ri) r; EvGoto (ps_sp s) (Some nst)])).

  Lemma red_spec_holds s r : red_spec s r (reducex s r).
  Proof.
    unfold do_reduce. destruct (nth_error (rule_infos g) r) as [ri|] eqn:Hri; [|now apply RsNoRule].
    destruct (Nat.ltb (length (ps_cursors s)) (ri_n ri)) eqn:Hc.
    { apply Nat.ltb_lt in Hc. eapply RsUnderC; eassumption. }
    apply Nat.ltb_ge in Hc.
    destruct (skipn (ri_n ri) (ps_cursors s)) as [|top cs] eqn:Hcs.
    { eapply RsEmpty; eassumption. }
    assert (Hpre : red_pre s r ri top cs) by (unfold red_pre; auto).
    destruct (cell tbl top (ri_l ri)) as [e|c] eqn:Hcell; [|eapply RsCell; eassumption].
    destruct (full cap (length (top :: cs))) eqn:Hf1; [eapply RsThrow1; eassumption|].
    destruct (e_arg e) as [nst|] eqn:Ha; [|eapply RsUninit; eassumption].
    destruct (Nat.ltb (length (ps_values s)) (ri_n ri)) eqn:Hv.
    { apply Nat.ltb_lt in Hv. eapply RsUnderV; eassumption. }
    apply Nat.ltb_ge in Hv.
    destruct (rule_f (ri_r ri) (ps_ctx s) (rev (firstn (ri_n ri) (ps_values s)))) as [c' v] eqn:Hrf.
    destruct (full cap (length (skipn (ri_n ri) (ps_values s)))) eqn:Hf2.
    - eapply RsThrow2; eassumption.
    - eapply RsOk; eassumption.
  Qed.

  (* ---------- act (result component) ---------- *)
  Definition is_shift_kind (k : kind) : Prop := k = KShift \/ k = KShiftErr.
  Definition is_reduce_kind (k : kind) : Prop := k = KReduce \/ k = KRR.

  Inductive act_spec2 (s1 : pst) (cursor t : nat) : pst + result V * pst -> Prop :=
  | A2Cell c : cell tbl cursor (nterm_count g + t) = inr c -> act_spec2 s1 cursor t (inr (Crash c, s1))
  | A2ConsEof e : cell tbl cursor (nterm_count g + t) = inl e -> e_kind e = KError ->
      ps_cons s1 = true -> ps_term s1 = Some (eof_idx g) -> act_spec2 s1 cursor t (inr (Reject, s1))
  | A2Consume e : cell tbl cursor (nterm_count g + t) = inl e -> e_kind e = KError ->
      ps_cons s1 = true -> ps_term s1 <> Some (eof_idx g) -> act_spec2 s1 cursor t (inl (consumex s1))
  | A2Enter e : cell tbl cursor (nterm_count g + t) = inl e -> e_kind e = KError ->
      ps_cons s1 = false -> ps_rec s1 = false -> act_spec2 s1 cursor t (inl (set_modes s1 true (ps_cons s1)))
  | A2Pop e top cs : cell tbl cursor (nterm_count g + t) = inl e -> e_kind e = KError ->
      ps_cons s1 = false -> ps_rec s1 = true -> tl (ps_cursors s1) = top :: cs ->
      act_spec2 s1 cursor t (inl (set_stacks s1 (tl (ps_cursors s1)) (tl (ps_values s1))))
  | A2PopFail e : cell tbl cursor (nterm_count g + t) = inl e -> e_kind e = KError ->
      ps_cons s1 = false -> ps_rec s1 = true -> tl (ps_cursors s1) = [] ->
      act_spec2 s1 cursor t (inr (Reject, set_stacks s1 (tl (ps_cursors s1)) (tl (ps_values s1))))
  | A2ShiftNone e : cell tbl cursor (nterm_count g + t) = inl e -> is_shift_kind (e_kind e) ->
      e_arg e = None -> act_spec2 s1 cursor t (inr (Crash CrGotoUninit, clr s1))
  | A2ShiftFull e nst : cell tbl cursor (nterm_count g + t) = inl e -> is_shift_kind (e_kind e) ->
      e_arg e = Some nst -> full cap (length (ps_cursors s1)) = true ->
      act_spec2 s1 cursor t (inr (Throw, clr s1))
  | A2ShiftOver e nst : cell tbl cursor (nterm_count g + t) = inl e -> e_kind e = KShift ->
      e_arg e = Some nst -> full cap (length (ps_cursors s1)) = false -> length buf < ps_end s1 ->
      act_spec2 s1 cursor t (inr (Crash CrBufferOverrun, clr s1))
  | A2Shift e nst : cell tbl cursor (nterm_count g + t) = inl e -> e_kind e = KShift ->
      e_arg e = Some nst -> full cap (length (ps_cursors s1)) = false -> ps_end s1 <= length buf ->
      act_spec2 s1 cursor t
        (inl (consumex (set_stacks (clr s1) (nst :: ps_cursors (clr s1))
                          (term_f t (ps_it (clr s1)) (ps_end (clr s1) - ps_it (clr s1)) (ps_sp (clr s1)) :: ps_values (clr s1)))))
  | A2ShiftErr e nst : cell tbl cursor (nterm_count g + t) = inl e -> e_kind e = KShiftErr ->
      e_arg e = Some nst -> full cap (length (ps_cursors s1)) = false ->
      act_spec2 s1 cursor t
        (inl (set_modes (set_stacks (clr s1) (nst :: ps_cursors (clr s1)) (err_f (ps_sp (clr s1)) :: ps_values (clr s1))) false true))
  | A2RedNone e : cell tbl cursor (nterm_count g + t) = inl e -> is_reduce_kind (e_kind e) ->
      e_arg e = None -> act_spec2 s1 cursor t (inr (Crash CrRRArg, clr s1))
  | A2RedOk e r s3 ev : cell tbl cursor (nterm_count g + t) = inl e -> is_reduce_kind (e_kind e) ->
      e_arg e = Some r -> red_spec (clr s1) r (inl (s3, ev)) -> act_spec2 s1 cursor t (inl s3)
  | A2RedFail e r res : cell tbl cursor (nterm_count g + t) = inl e -> is_reduce_kind (e_kind e) ->
      e_arg e = Some r -> red_spec (clr s1) r (inr res) -> act_spec2 s1 cursor t (inr (res, clr s1))
  | A2NoValue e : cell tbl cursor (nterm_count g + t) = inl e -> e_kind e = KSuccess ->
      rev (ps_values s1) = [] -> act_spec2 s1 cursor t (inr (Crash CrNoValue, clr s1))
  | A2Accept e v rest : cell tbl cursor (nterm_count g + t) = inl e -> e_kind e = KSuccess ->
      rev (ps_values s1) = v :: rest -> act_spec2 s1 cursor t (inr (Accept v, clr s1)).

  Lemma act_spec2_holds s1 cursor t : act_spec2 s1 cursor t (fst (actx s1 cursor t)).
  Proof.
    unfold act.
    destruct (cell tbl cursor (nterm_count g + t)) as [e|c] eqn:Hcell; [|now apply A2Cell].
    fold (clr s1). fold (lc s1).
    destruct (e_kind e) eqn:Hk.
    - (* KError *)
      destruct (ps_cons s1) eqn:Hcons.
      + destruct (ps_term s1) as [x|] eqn:Hterm.
        * destruct (Nat.eqb x (eof_idx g)) eqn:Hx; cbn [fst].
          -- apply Nat.eqb_eq in Hx. subst x. eapply A2ConsEof; eassumption.
          -- apply Nat.eqb_neq in Hx. eapply A2Consume; try eassumption. congruence.
        * cbn [fst]. eapply A2Consume; try eassumption. congruence.
      + destruct (ps_rec s1) eqn:Hrec; cbn [negb].
        * unfold pop_stacks. destruct (tl (ps_cursors s1)) as [|top cs] eqn:Htl; cbn [fst]; rewrite <- Htl.
          -- eapply A2PopFail; eassumption.
          -- eapply A2Pop; eassumption.
        * cbn [fst]. rewrite <- Hcons at 1. eapply A2Enter; eassumption.
    - (* KSuccess *)
      rewrite clr_values. destruct (rev (ps_values s1)) as [|v rest] eqn:Hrev; cbn [fst].
      + eapply A2NoValue; eassumption.
      + eapply A2Accept; eassumption.
    - (* KShift *)
      destruct (e_arg e) as [nst|] eqn:Ha.
      2:{ cbn [fst]. eapply A2ShiftNone; try eassumption. left; assumption. }
      rewrite clr_cursors at 1.
      destruct (full cap (length (ps_cursors s1))) eqn:Hf.
      { cbn [fst]. eapply A2ShiftFull; try eassumption. left; assumption. }
      destruct (Nat.ltb (length buf) (ps_end (clr s1))) eqn:Hov; cbn [fst].
      { apply Nat.ltb_lt in Hov. rewrite clr_end in Hov. eapply A2ShiftOver; eassumption. }
      apply Nat.ltb_ge in Hov. rewrite clr_end in Hov. eapply A2Shift; eassumption.
    - (* KShiftErr *)
      destruct (e_arg e) as [nst|] eqn:Ha.
      2:{ cbn [fst]. eapply A2ShiftNone; try eassumption. right; assumption. }
      rewrite clr_cursors at 1.
      destruct (full cap (length (ps_cursors s1))) eqn:Hf; cbn [fst].
      { eapply A2ShiftFull; try eassumption. right; assumption. }
      eapply A2ShiftErr; eassumption.
    - (* KReduce *)
      destruct (e_arg e) as [r|] eqn:Ha.
      2:{ cbn [fst]. eapply A2RedNone; try eassumption. left; assumption. }
      pose proof (red_spec_holds (clr s1) r) as Hred.
      destruct (reducex (clr s1) r) as [[s3 ev]|res]; cbn [fst].
      + eapply A2RedOk; try eassumption. left; assumption.
      + eapply A2RedFail; try eassumption. left; assumption.
    - (* KRR *)
      destruct (e_arg e) as [r|] eqn:Ha.
      2:{ cbn [fst]. eapply A2RedNone; try eassumption. right; assumption. }
      pose proof (red_spec_holds (clr s1) r) as Hred.
      destruct (reducex (clr s1) r) as [[s3 ev]|res]; cbn [fst].
      + eapply A2RedOk; try eassumption. right; assumption.
      + eapply A2RedFail; try eassumption. right; assumption.
  Qed.

  (* ---------- step (result component) ---------- *)
  Lemma step_cases2 (P : pst + result V * pst -> Prop) s :
    (ps_cursors s = [] -> P (inr (Crash CrEmptyStack, s))) ->
    (forall s1 ev1, gspec s (s1, None, ev1) -> P (inr (Reject, s1))) ->
    (forall cursor cs s1 t ev1 r,
        ps_cursors s = cursor :: cs -> gspec s (s1, Some t, ev1) -> act_spec2 s1 cursor t r -> P r) ->
    P (fst (stepx s)).
  Proof.
    intros H1 H2 H3. unfold step. destruct (ps_cursors s) as [|cursor cs] eqn:Hcs; [auto|].
    pose proof (gct_spec_holds V C g opts buf lexer s) as Hg. destruct (gctx s) as [[s1 ot] ev1].
    destruct ot as [t|]; [|cbn [fst]; eauto].
    pose proof (act_spec2_holds s1 cursor t) as Ha. destruct (actx s1 cursor t) as [r ev2].
    cbn [fst] in *. eapply H3; eauto.
  Qed.

  (* the term handed to [act] *)
  Lemma gct_term_lt s s1 t ev :
    0 < term_count g ->
    (forall v p k t len, snd (lexer v p (skipn k buf)) = Some (t, len) -> t < eof_idx g) ->
    (forall x, ps_term s = Some x -> x < term_count g) ->
    gspec s (s1, Some t, ev) -> t < term_count g /\ (forall x, ps_term s1 = Some x -> x < term_count g).
  Proof.
    intros Htc Hlx Hterm H.
    inversion H as [Hr|Hr Hne|sp1 it1 Hr He Hit1 Hsp1 Hsk|sp1 it1 c rest lx Hr He Hit1 Hsp1 Hsk Hl|sp1 it1 c rest lx t0 len Hr He Hit1 Hsp1 Hsk Hl];
      subst.
    - split; [unfold err_idx; lia|assumption].
    - split; [apply Hterm; congruence|assumption].
    - split; [unfold eof_idx; lia|]. simp_ps. intros x Hx. inversion Hx; subst. unfold eof_idx; lia.
    - assert (t < eof_idx g) as Hlt by (eapply (Hlx _ _ _ t len); rewrite Hsk, Hl; reflexivity).
      unfold eof_idx in Hlt. split; [lia|]. simp_ps. intros x Hx. inversion Hx; subst. lia.
  Qed.
End SafeBasics.

Arguments red_pre {V C}.
