(* Property C12: the statically computed automaton size (dfa_size_analyzer) is exactly the number of states the
   in-place builder creates; all transition targets stay in range. *)
Require Import Ctpg.Base.Prelude Ctpg.Model.Driver Ctpg.Model.Dfa.

(* ---------- update / upd ---------- *)
Lemma update_length : forall A (l : list A) n x, length (update l n x) = length l.
Proof. induction l as [|h t IH]; intros [|n] x; cbn; auto. Qed.

Lemma upd_length : forall sm i f, length (upd sm i f) = length sm.
Proof. intros. unfold upd. apply update_length. Qed.

Lemma nth_error_update : forall A (l : list A) n x k,
  nth_error (update l n x) k = if Nat.eqb k n then (if Nat.ltb n (length l) then Some x else None) else nth_error l k.
Proof.
  induction l as [|h t IH]; intros n x k.
  - cbn. destruct n, k; cbn; auto. destruct (Nat.eqb k n); auto.
  - destruct n, k; cbn [update nth_error length]; auto.
    rewrite IH. cbn [Nat.eqb]. destruct (Nat.eqb k n); auto.
Qed.

Lemma nth_update : forall A (l : list A) n x k d,
  nth k (update l n x) d = if Nat.eqb k n && Nat.ltb n (length l) then x else nth k l d.
Proof.
  induction l as [|h t IH]; intros n x k d.
  - cbn. destruct n, k; cbn; auto. rewrite andb_false_r. auto.
  - destruct n, k; cbn [update nth length]; auto.
    rewrite IH. reflexivity.
Qed.

Lemma get_nth_error : forall sm q d, nth_error sm q = Some d -> get sm q = d.
Proof. intros. unfold get. apply nth_error_nth. assumption. Qed.

Lemma get_overflow : forall sm q, length sm <= q -> get sm q = dstate0.
Proof. intros. unfold get. apply nth_overflow. assumption. Qed.

Lemma nth_repeat_None : forall c n, nth c (repeat (@None nat) n) None = None.
Proof. intros c n. revert c. induction n; destruct c; cbn; auto. Qed.

(* ---------- generic fold lemmas ---------- *)
Lemma fold_left_preserves : forall (A B : Type) (P : A -> Prop) (f : A -> B -> A) (l : list B) (a : A),
  (forall a b, P a -> P (f a b)) -> P a -> P (fold_left f l a).
Proof. intros A B P f l. induction l; cbn; auto. Qed.

Lemma fold_left_opt_None : forall (A B : Type) (f : option A -> B -> option A) (l : list B),
  (forall b, f None b = None) -> fold_left f l None = None.
Proof. intros A B f l H. induction l; cbn; auto. rewrite H. auto. Qed.

Lemma fold_left_opt_preserves : forall (A B : Type) (R : A -> A -> Prop) (f : option A -> B -> option A) (l : list B),
  (forall b, f None b = None) ->
  (forall a, R a a) -> (forall a b c, R a b -> R b c -> R a c) ->
  (forall a b a', f (Some a) b = Some a' -> R a a') ->
  forall a r, fold_left f l (Some a) = Some r -> R a r.
Proof.
  intros A B R f l HN Hrefl Htrans Hstep. induction l as [|b l IH]; cbn; intros a r H.
  - inversion H; subst. auto.
  - destruct (f (Some a) b) as [a'|] eqn:E.
    + eapply Htrans; [eapply Hstep; eauto | eauto].
    + rewrite fold_left_opt_None in H by assumption. discriminate.
Qed.

(* ---------- the elementary steps of the builder ---------- *)
(* [keeps f]: f leaves the transitions alone, does not overflow the four recognition slots and does not
   remove merged_from marks *)
Definition keeps (f : dstate -> dstate) : Prop :=
  forall d, d_trans (f d) = d_trans d /\ (length (d_rec d) <= 4 -> length (d_rec (f d)) <= 4) /\
            incl (d_merged d) (d_merged (f d)).

Inductive mstep : dfa -> dfa -> Prop :=
| ms_keep s i f : keeps f -> mstep s (upd s i f)
| ms_trans s to from i trf :
    nth i (d_trans (get s from)) None = Some trf ->
    mstep s (upd s to (fun d => set_trans d (update (d_trans d) i (Some trf)))).

Inductive msteps : dfa -> dfa -> Prop :=
| mss_refl s : msteps s s
| mss_step s1 s2 s3 : mstep s1 s2 -> msteps s2 s3 -> msteps s1 s3.

Lemma msteps_trans : forall a b c, msteps a b -> msteps b c -> msteps a c.
Proof. induction 1; intros; auto. econstructor; eauto. Qed.

Lemma msteps_one : forall a b, mstep a b -> msteps a b.
Proof. intros. econstructor; eauto. constructor. Qed.

Lemma msteps_keep : forall s i f, keeps f -> msteps s (upd s i f).
Proof. intros. apply msteps_one. constructor. assumption. Qed.

Lemma keeps_set_merged : forall x, keeps (fun d => set_merged d (x :: d_merged d)).
Proof. intros x d. cbn. repeat split; auto. apply incl_tl, incl_refl. Qed.
Lemma keeps_set_start : forall b, keeps (fun d => set_start d b).
Proof. intros b d. cbn. repeat split; auto. apply incl_refl. Qed.
Lemma keeps_set_end : forall b, keeps (fun d => set_end d b).
Proof. intros b d. cbn. repeat split; auto. apply incl_refl. Qed.
Lemma keeps_set_unreach : forall b, keeps (fun d => set_unreach d b).
Proof. intros b d. cbn. repeat split; auto. apply incl_refl. Qed.
Lemma keeps_mark_end_state : forall t, keeps (fun d => mark_end_state d t).
Proof.
  intros t d. unfold mark_end_state.
  destruct (d_end d); cbn; [|repeat split; auto; apply incl_refl].
  split; auto. split; [|apply incl_refl].
  intros H. unfold add_conflicted. destruct (Nat.ltb (length (d_rec d)) 4) eqn:E; auto.
  apply Nat.ltb_lt in E. rewrite app_length. cbn. lia.
Qed.

Lemma fold_keep_msteps : forall (f : nat -> dstate -> dstate) (g : nat -> nat) l s,
  (forall t, keeps (f t)) -> msteps s (fold_left (fun acc t => upd acc (g t) (f t)) l s).
Proof.
  intros f g l. induction l as [|t l IH]; cbn; intros s H.
  - constructor.
  - eapply msteps_trans; [apply msteps_keep; apply H | apply IH; assumption].
Qed.

(* ---------- merge is a sequence of elementary steps ---------- *)
Lemma merge_msteps : forall fuel sm to from keep mark sm',
  merge fuel sm to from keep mark = Some sm' -> msteps sm sm'.
Proof.
  induction fuel as [|f IH]; intros sm to from keep mark sm' H; [discriminate|].
  cbn [merge] in H.
  destruct (Nat.eqb to from); [inversion H; constructor|].
  destruct (mem_nat from (d_merged (get sm to))); [inversion H; constructor|].
  match type of H with
  | match fold_left ?F ?L (Some ?S4) with _ => _ end = _ =>
      destruct (fold_left F L (Some S4)) as [s|] eqn:EL; [|discriminate];
      assert (H4 : msteps sm S4);
      [| assert (HL : msteps S4 s) ]
  end.
  - eapply msteps_trans; [apply msteps_keep, (keeps_set_merged from)|].
    eapply msteps_trans; [apply msteps_keep, keeps_set_start|].
    eapply msteps_trans; [apply msteps_keep, keeps_set_end|].
    apply msteps_keep, keeps_set_unreach.
  - revert EL. apply fold_left_opt_preserves.
    + reflexivity.
    + constructor.
    + apply msteps_trans.
    + intros a i a' Ha.
      destruct (nth i (d_trans (get a from)) None) as [trf|] eqn:Etrf.
      * destruct (nth i (d_trans (get a to)) None) as [trt|] eqn:Etrt.
        -- eapply IH; eauto.
        -- inversion Ha; subst.
           eapply mss_step; [eapply ms_trans; eauto|].
           apply msteps_keep, keeps_set_unreach.
      * inversion Ha; subst. constructor.
  - inversion H; subst.
    eapply msteps_trans; [exact H4|]. eapply msteps_trans; [exact HL|].
    apply (fold_keep_msteps (fun t d => mark_end_state d t) (fun _ => to)).
    apply keeps_mark_end_state.
Qed.

(* ---------- invariants of the elementary steps ---------- *)
Lemma mstep_length : forall a b, mstep a b -> length b = length a.
Proof. destruct 1; apply upd_length. Qed.

Lemma msteps_length : forall a b, msteps a b -> length b = length a.
Proof. induction 1; auto. rewrite IHmsteps. apply mstep_length; assumption. Qed.

(* well-formedness: 256 transition entries, at most 4 recognition slots, every target in range *)
(* [P] is the property required of the length of every transition table: instantiated below with
   [fun n => n = 256] (when every character set of the pattern has 256 entries) and with [fun _ => True] *)
Section WF.
Variable P : nat -> Prop.
Hypothesis P256 : P 256.

Definition st_wf (n : nat) (d : dstate) : Prop :=
  P (length (d_trans d)) /\ length (d_rec d) <= 4 /\
  forall c t, nth c (d_trans d) None = Some t -> t < n.
Definition wf (sm : dfa) : Prop := forall q d, nth_error sm q = Some d -> st_wf (length sm) d.

Lemma st_wf_mono : forall n m d, n <= m -> st_wf n d -> st_wf m d.
Proof. intros n m d H (A & B & C). repeat split; auto. intros c t Ht. apply C in Ht. lia. Qed.

Lemma st_wf_dstate0 : forall n, st_wf n dstate0.
Proof.
  intros n. split; [|split].
  - cbn [dstate0 d_trans]. rewrite repeat_length. exact P256.
  - cbn. lia.
  - intros c t H. cbn [dstate0 d_trans] in H. rewrite nth_repeat_None in H. discriminate.
Qed.

Lemma wf_get : forall sm q, wf sm -> st_wf (length sm) (get sm q).
Proof.
  intros sm q H. destruct (nth_error sm q) as [d|] eqn:E.
  - rewrite (get_nth_error _ _ _ E). eauto.
  - apply nth_error_None in E. rewrite get_overflow by assumption. apply st_wf_dstate0.
Qed.

Lemma wf_upd : forall sm i f, wf sm -> st_wf (length sm) (f (get sm i)) -> wf (upd sm i f).
Proof.
  intros sm i f H Hf q d Hq. rewrite upd_length. unfold upd in Hq. rewrite nth_error_update in Hq.
  destruct (Nat.eqb q i).
  - destruct (Nat.ltb i (length sm)); inversion Hq; subst. assumption.
  - eauto.
Qed.

Lemma mstep_wf : forall a b, mstep a b -> wf a -> wf b.
Proof.
  destruct 1 as [s i f Hk | s to from i trf Htrf]; intros Hwf; apply wf_upd; auto.
  - destruct (wf_get s i Hwf) as (A & B & C). destruct (Hk (get s i)) as (K1 & K2 & _).
    repeat split; auto; rewrite K1; auto.
  - destruct (wf_get s to Hwf) as (A & B & C). destruct (wf_get s from Hwf) as (_ & _ & C').
    repeat split; cbn [set_trans d_trans d_rec]; auto.
    + rewrite update_length. assumption.
    + intros c t. rewrite nth_update. destruct (Nat.eqb c i && Nat.ltb i (length (d_trans (get s to)))).
      * intros E. inversion E; subst. eauto.
      * apply C.
Qed.

Lemma msteps_wf : forall a b, msteps a b -> wf a -> wf b.
Proof. induction 1; auto. intros. apply IHmsteps. eapply mstep_wf; eauto. Qed.

(* ---------- (A1) length preservation ---------- *)
Theorem merge_length : forall fuel sm to from keep mark sm',
  merge fuel sm to from keep mark = Some sm' -> length sm' = length sm.
Proof. intros. eapply msteps_length, merge_msteps; eauto. Qed.

Theorem merge_wf : forall fuel sm to from keep mark sm',
  merge fuel sm to from keep mark = Some sm' -> wf sm -> wf sm'.
Proof. intros. eapply msteps_wf; [eapply merge_msteps|]; eauto. Qed.

Lemma merge_ends_msteps : forall idxs sm b keep mark sm',
  merge_ends sm idxs b keep mark = Some sm' -> msteps sm sm'.
Proof.
  induction idxs as [|i t IH]; cbn [merge_ends]; intros sm b keep mark sm' H.
  - inversion H; constructor.
  - destruct (d_end (get sm i)).
    + destruct (merge (merge_fuel sm) sm i b keep mark) as [sm1|] eqn:E; [|discriminate].
      eapply msteps_trans; [eapply merge_msteps; eauto | eauto].
    + eauto.
Qed.

Lemma b_star_msteps : forall sm s sm' s', b_star sm s = Some (sm', s') -> msteps sm sm' /\ s' = s.
Proof.
  unfold b_star. intros sm s sm' s' H.
  destruct (merge_ends _ _ _ _ _) as [x|] eqn:E; cbn in H; inversion H; subst. split; auto.
  eapply msteps_trans; [apply msteps_keep, keeps_set_end | eapply merge_ends_msteps; eauto].
Qed.

Lemma b_plus_msteps : forall sm s sm' s', b_plus sm s = Some (sm', s') -> msteps sm sm' /\ s' = s.
Proof.
  unfold b_plus. intros sm s sm' s' H.
  destruct (merge_ends _ _ _ _ _) as [x|] eqn:E; cbn in H; inversion H; subst. split; auto.
  eapply merge_ends_msteps; eauto.
Qed.

Lemma b_opt_msteps : forall sm s sm' s', b_opt sm s = Some (sm', s') -> msteps sm sm' /\ s' = s.
Proof.
  unfold b_opt. intros sm s sm' s' H. inversion H; subst. split; auto.
  apply msteps_keep, keeps_set_end.
Qed.

Lemma b_cat_msteps : forall sm s1 s2 sm' s', b_cat sm s1 s2 = Some (sm', s') ->
  msteps sm sm' /\ s' = mkSl (sl_start s1) (sl_n s1 + sl_n s2).
Proof.
  unfold b_cat. intros sm s1 s2 sm' s' H.
  destruct (merge_ends _ _ _ _ _) as [x|] eqn:E; cbn in H; inversion H; subst. split; auto.
  eapply merge_ends_msteps; eauto.
Qed.

Lemma b_alt_msteps : forall sm s1 s2 sm' s', b_alt sm s1 s2 = Some (sm', s') ->
  msteps sm sm' /\ s' = mkSl (sl_start s1) (sl_n s1 + sl_n s2).
Proof.
  unfold b_alt. intros sm s1 s2 sm' s' H.
  destruct (merge _ _ _ _ _ _) as [x|] eqn:E; cbn in H; inversion H; subst. split; auto.
  eapply merge_msteps; eauto.
Qed.

Lemma mark_end_states_msteps : forall sm s t, msteps sm (mark_end_states sm s t).
Proof.
  intros. unfold mark_end_states.
  apply (fold_keep_msteps (fun _ d => mark_end_state d t) (fun i => i)).
  intros _. apply keeps_mark_end_state.
Qed.

Theorem merge_ends_length : forall idxs sm b keep mark sm',
  merge_ends sm idxs b keep mark = Some sm' -> length sm' = length sm.
Proof. intros. eapply msteps_length, merge_ends_msteps; eauto. Qed.
Theorem b_star_length : forall sm s sm' s', b_star sm s = Some (sm', s') -> length sm' = length sm.
Proof. intros. eapply msteps_length, b_star_msteps; eauto. Qed.
Theorem b_plus_length : forall sm s sm' s', b_plus sm s = Some (sm', s') -> length sm' = length sm.
Proof. intros. eapply msteps_length, b_plus_msteps; eauto. Qed.
Theorem b_opt_length : forall sm s sm' s', b_opt sm s = Some (sm', s') -> length sm' = length sm.
Proof. intros. eapply msteps_length, b_opt_msteps; eauto. Qed.
Theorem b_cat_length : forall sm s1 s2 sm' s', b_cat sm s1 s2 = Some (sm', s') -> length sm' = length sm.
Proof. intros. eapply msteps_length, b_cat_msteps; eauto. Qed.
Theorem b_alt_length : forall sm s1 s2 sm' s', b_alt sm s1 s2 = Some (sm', s') -> length sm' = length sm.
Proof. intros. eapply msteps_length, b_alt_msteps; eauto. Qed.
Theorem mark_end_states_length : forall sm s t, length (mark_end_states sm s t) = length sm.
Proof. intros. apply msteps_length, mark_end_states_msteps. Qed.

(* ---------- (A2) rep ---------- *)
Lemma slice_idxs_length : forall s, length (slice_idxs s) = sl_n s.
Proof. intros. unfold slice_idxs. apply seq_length. Qed.

Theorem rep_copies_length : forall cnt sm s i, length (rep_copies sm s i cnt) = length sm + sl_n s * cnt.
Proof.
  induction cnt as [|c IH]; intros sm s i; cbn [rep_copies].
  - lia.
  - rewrite IH, app_length, map_length, slice_idxs_length. lia.
Qed.

Lemma rep_cats_msteps : forall cnt sm whole n sm' s',
  rep_cats sm whole n cnt = Some (sm', s') ->
  msteps sm sm' /\ sl_start s' = sl_start whole /\ sl_n s' = sl_n whole + n * cnt.
Proof.
  induction cnt as [|c IH]; cbn [rep_cats]; intros sm whole n sm' s' H.
  - inversion H; subst. repeat split; try lia. constructor.
  - destruct (b_cat sm whole (mkSl (sl_start whole + sl_n whole) n)) as [[sm1 x]|] eqn:E; [|discriminate].
    apply b_cat_msteps in E. destruct E as [E _].
    apply IH in H. destruct H as (H1 & H2 & H3). cbn [sl_start sl_n] in *.
    repeat split; try lia. eapply msteps_trans; eauto.
Qed.

Theorem rep_cats_length : forall cnt sm whole n sm' s',
  rep_cats sm whole n cnt = Some (sm', s') -> length sm' = length sm.
Proof. intros. eapply msteps_length, rep_cats_msteps; eauto. Qed.

Lemma rep0_fold_length : forall l sm, length (fold_left (fun acc j => upd acc j rep0_state) l sm) = length sm.
Proof.
  intros l sm. apply (fold_left_preserves dfa nat (fun a => length a = length sm)); auto.
  intros a b H. rewrite upd_length. assumption.
Qed.

(* the length after rep; the slice need not even be in range for this *)
Theorem b_rep_length_any : forall sm s n sm' s', b_rep sm s n = Some (sm', s') ->
  length sm' = length sm + sl_n s * (n - 1) /\ sl_start s' = sl_start s /\
  sl_n s' = match n with 0 => sl_n s | S _ => sl_n s * n end.
Proof.
  intros sm s [|m] sm' s' H; cbn [b_rep] in H.
  - inversion H; subst. rewrite rep0_fold_length. repeat split; lia.
  - apply rep_cats_msteps in H. destruct H as (H1 & H2 & H3).
    apply msteps_length in H1. rewrite rep_copies_length in H1.
    replace (S m - 1) with m by lia. repeat split; auto. lia.
Qed.

Theorem b_rep_length : forall sm s n sm' s',
  sl_start s + sl_n s <= length sm ->
  b_rep sm s n = Some (sm', s') ->
  (1 <= n -> length sm' = length sm + sl_n s * (n - 1)) /\ (n = 0 -> length sm' = length sm).
Proof.
  intros sm s n sm' s' _ H. apply b_rep_length_any in H. destruct H as (H & _). split.
  - auto.
  - intros ->. rewrite H. cbn. lia.
Qed.

(* ---------- the analyser ---------- *)
Lemma analyze_size_tail : forall r size sl sz, analyze_size r size = (sl, sz) ->
  sl_start sl = size /\ sl_start sl + sl_n sl = sz.
Proof.
  induction r; intros size sl sz H; cbn [analyze_size] in H; eauto.
  - inversion H; subst. cbn. lia.
  - destruct (analyze_size r size) as [s0 sz0] eqn:E. apply IHr in E. destruct E as [E1 E2].
    destruct n; inversion H; subst; cbn [sl_start sl_n]; split; auto. lia.
  - destruct (analyze_size r1 size) as [s1 sz1] eqn:E1. destruct (analyze_size r2 sz1) as [s2 sz2] eqn:E2.
    apply IHr1 in E1. apply IHr2 in E2. inversion H; subst. cbn [sl_start sl_n]. lia.
  - destruct (analyze_size r1 size) as [s1 sz1] eqn:E1. destruct (analyze_size r2 sz1) as [s2 sz2] eqn:E2.
    apply IHr1 in E1. apply IHr2 in E2. inversion H; subst. cbn [sl_start sl_n]. lia.
Qed.

Lemma slice_eq : forall a b, sl_start a = sl_start b -> sl_n a = sl_n b -> a = b.
Proof. intros [a1 a2] [b1 b2]; cbn; intros; subst; reflexivity. Qed.

(* ---------- (A3) the builder creates exactly the predicted states and returns the predicted slice ---------- *)
Lemma build_size_eq : forall r sm sm' s, build r sm = Some (sm', s) ->
  length sm' = snd (analyze_size r (length sm)) /\ s = fst (analyze_size r (length sm)).
Proof.
  induction r; intros sm sm' s0 H; cbn [build analyze_size] in *.
  - unfold primary_subset in H. inversion H; subst. cbn [fst snd]. rewrite app_length. cbn. split; auto.
  - destruct (build r sm) as [[sm1 s1]|] eqn:E; [|discriminate]. apply IHr in E. destruct E as [E1 E2].
    apply b_star_msteps in H. destruct H as [H ->]. apply msteps_length in H. split; congruence.
  - destruct (build r sm) as [[sm1 s1]|] eqn:E; [|discriminate]. apply IHr in E. destruct E as [E1 E2].
    apply b_plus_msteps in H. destruct H as [H ->]. apply msteps_length in H. split; congruence.
  - destruct (build r sm) as [[sm1 s1]|] eqn:E; [|discriminate]. apply IHr in E. destruct E as [E1 E2].
    apply b_opt_msteps in H. destruct H as [H ->]. apply msteps_length in H. split; congruence.
  - destruct (build r sm) as [[sm1 s1]|] eqn:E; [|discriminate]. apply IHr in E. destruct E as [E1 E2].
    apply b_rep_length_any in H. destruct H as (H1 & H2 & H3).
    destruct (analyze_size r (length sm)) as [sa sza]. cbn [fst snd] in *. subst s1.
    destruct n; cbn [fst snd].
    + split; [lia|]. apply slice_eq; auto.
    + split; [replace (S n - 1) with n in H1 by lia; lia|]. apply slice_eq; auto.
  - destruct (build r1 sm) as [[sm1 s1]|] eqn:E1; [|discriminate].
    destruct (build r2 sm1) as [[sm2 s2]|] eqn:E2; [|discriminate].
    apply IHr1 in E1. apply IHr2 in E2. destruct E1 as [A1 A2]. destruct E2 as [B1 B2].
    apply b_cat_msteps in H. destruct H as [H ->]. apply msteps_length in H.
    destruct (analyze_size r1 (length sm)) as [sa sza]. cbn [fst snd] in *. rewrite A1 in *.
    destruct (analyze_size r2 sza) as [sb szb]. cbn [fst snd] in *. subst. split; [congruence | reflexivity].
  - destruct (build r1 sm) as [[sm1 s1]|] eqn:E1; [|discriminate].
    destruct (build r2 sm1) as [[sm2 s2]|] eqn:E2; [|discriminate].
    apply IHr1 in E1. apply IHr2 in E2. destruct E1 as [A1 A2]. destruct E2 as [B1 B2].
    apply b_alt_msteps in H. destruct H as [H ->]. apply msteps_length in H.
    destruct (analyze_size r1 (length sm)) as [sa sza]. cbn [fst snd] in *. rewrite A1 in *.
    destruct (analyze_size r2 sza) as [sb szb]. cbn [fst snd] in *. subst. split; [congruence | reflexivity].
Qed.

Theorem build_size : forall r sm sm' s, build r sm = Some (sm', s) ->
  let '(sl, sz) := analyze_size r (length sm) in length sm' = sz /\ s = sl.
Proof.
  intros r sm sm' s H. apply build_size_eq in H.
  destruct (analyze_size r (length sm)) as [sl sz]. exact H.
Qed.

(* the returned slice is the tail of the automaton and starts where the automaton ended before *)
Theorem build_tail : forall r sm sm' s, build r sm = Some (sm', s) ->
  sl_start s = length sm /\ sl_start s + sl_n s = length sm'.
Proof.
  intros r sm sm' s H. apply build_size_eq in H. destruct H as [H1 H2].
  destruct (analyze_size r (length sm)) as [sl sz] eqn:E. cbn [fst snd] in *. subst.
  apply analyze_size_tail in E. lia.
Qed.

Corollary build_grows : forall r sm sm' s, build r sm = Some (sm', s) -> length sm' = length sm + sl_n s.
Proof. intros r sm sm' s H. apply build_tail in H. lia. Qed.

Corollary build_expr_size : forall r sm, build_expr r = Some sm -> length sm = sl_n (fst (analyze_size r 0)).
Proof.
  unfold build_expr. intros r sm H. destruct (build r []) as [[sm1 s]|] eqn:E; [|discriminate].
  inversion H; subst. rewrite mark_end_states_length.
  pose proof (build_tail _ _ _ _ E) as [T1 T2]. apply build_size_eq in E. destruct E as [_ E].
  cbn [length] in *. rewrite <- E. lia.
Qed.

(* ---------- (A4) the lexer ---------- *)
Lemma analyze_size_n_indep : forall r a b, sl_n (fst (analyze_size r a)) = sl_n (fst (analyze_size r b)).
Proof.
  induction r; intros a b; cbn [analyze_size]; auto.
  - specialize (IHr a b). destruct (analyze_size r a) as [s1 z1], (analyze_size r b) as [s2 z2].
    cbn [fst] in IHr. destruct n; cbn [fst sl_n]; congruence.
  - specialize (IHr1 a b). destruct (analyze_size r1 a) as [s1 z1], (analyze_size r1 b) as [s2 z2].
    specialize (IHr2 z1 z2). destruct (analyze_size r2 z1) as [s3 z3], (analyze_size r2 z2) as [s4 z4].
    cbn [fst sl_n] in *. lia.
  - specialize (IHr1 a b). destruct (analyze_size r1 a) as [s1 z1], (analyze_size r1 b) as [s2 z2].
    specialize (IHr2 z1 z2). destruct (analyze_size r2 z1) as [s3 z3], (analyze_size r2 z2) as [s4 z4].
    cbn [fst sl_n] in *. lia.
Qed.

(* the number of states a term contributes (dfa_size of the term) *)
Definition regex_size (r : regex) : nat := sl_n (fst (analyze_size r 0)).
Definition term_size (t : term_data) : nat := regex_size (regex_of_term t).

Theorem add_term_size : forall sm t idx sm', add_term sm t idx = Some sm' ->
  length sm' = length sm + sl_n (fst (analyze_size (regex_of_term t) (length sm))).
Proof.
  unfold add_term. intros sm t idx sm' H.
  destruct (build (regex_of_term t) sm) as [[sm1 s]|] eqn:E; [|discriminate].
  destruct (b_alt _ _ _) as [[sm2 s2]|] eqn:E2; cbn in H; inversion H; subst.
  apply b_alt_length in E2. rewrite mark_end_states_length in E2.
  pose proof (build_grows _ _ _ _ E) as G. apply build_size_eq in E. destruct E as [_ E]. subst s. lia.
Qed.

Corollary add_term_size' : forall sm t idx sm', add_term sm t idx = Some sm' ->
  length sm' = length sm + term_size t.
Proof.
  intros sm t idx sm' H. apply add_term_size in H. rewrite H. unfold term_size, regex_size.
  f_equal. apply analyze_size_n_indep.
Qed.

Lemma create_lexer_aux_size : forall ts idx sm sm', create_lexer_aux ts idx sm = Some sm' ->
  length sm' = length sm + list_sum (map term_size ts).
Proof.
  induction ts as [|t ts IH]; cbn [create_lexer_aux map]; unfold list_sum; cbn [fold_right]; fold list_sum; intros idx sm sm' H.
  - inversion H; subst. lia.
  - destruct (add_term sm t idx) as [sm1|] eqn:E; [|discriminate].
    apply add_term_size' in E. apply IH in H. unfold list_sum in H. lia.
Qed.

Theorem create_lexer_size : forall ts sm, create_lexer ts = Some sm ->
  length sm = list_sum (map term_size ts).
Proof. unfold create_lexer. intros ts sm H. apply create_lexer_aux_size in H. cbn in H. exact H. Qed.

Lemma char_term_size : forall c, term_size (TChar c) = 2.
Proof. reflexivity. Qed.

Lemma string_fold_size : forall t acc,
  regex_size (fold_left (fun acc x => RCat acc (RSet (cs_single x))) t acc) = regex_size acc + 2 * length t.
Proof.
  induction t as [|x t IH]; intros acc; cbn [fold_left length].
  - lia.
  - rewrite IH. unfold regex_size. cbn [analyze_size].
    destruct (analyze_size acc 0) as [s z]. cbn [fst sl_n]. lia.
Qed.

Lemma string_term_size : forall s, s <> [] -> term_size (TString s) = 2 * length s.
Proof.
  intros [|c t] H; [congruence|]. unfold term_size. cbn [regex_of_term regex_of_string].
  rewrite string_fold_size. cbn [length]. unfold regex_size. cbn. lia.
Qed.

(* RECORDED DEVIATION: the C++ string_term("") declares dfa_size = 0 (its character count, times two), but
   add_term_data_to_dfa still creates the two states of a one-character set for it (str[0], the terminator):
   the model term has size 2, which is not 2 * length "" = 0. *)
Lemma empty_string_term_size_mismatch :
  term_size (TString []) = 2 /\ term_size (TString []) <> 2 * length (@nil nat).
Proof. split; [reflexivity | cbn; discriminate]. Qed.

(* ---------- (A5) index closure ---------- *)
Lemma nth_map_opt : forall (g : nat -> nat) l c,
  nth c (map (fun t => match t with Some x => Some (g x) | None => None end) l) None =
  match nth c l None with Some x => Some (g x) | None => None end.
Proof.
  intros g l c.
  exact (map_nth (fun t => match t with Some x => Some (g x) | None => None end) l None c).
Qed.

Lemma wf_app : forall sm ext,
  wf sm -> (forall d, In d ext -> st_wf (length sm + length ext) d) -> wf (sm ++ ext).
Proof.
  intros sm ext H He q d Hq. rewrite app_length.
  destruct (Nat.lt_ge_cases q (length sm)) as [Hlt|Hge].
  - rewrite nth_error_app1 in Hq by assumption. eapply st_wf_mono; [|eauto]. lia.
  - rewrite nth_error_app2 in Hq by assumption. apply nth_error_In in Hq. auto.
Qed.

Theorem primary_subset_wf : forall sm cs, P (length cs) -> wf sm -> wf (fst (primary_subset sm cs)).
Proof.
  intros sm cs Hcs H. unfold primary_subset. cbn [fst]. apply wf_app; auto.
  intros d [<-|[<-|[]]]; split; [|split| |split]; cbn [set_trans set_start set_end dstate0 d_trans d_rec length]; try lia.
  - rewrite map_length. assumption.
  - intros c t Ht.
    pose proof (map_nth (fun b : bool => if b then Some (S (length sm)) else None) cs false c) as E.
    cbn beta iota in E. rewrite E in Ht. destruct (nth c cs false); inversion Ht. lia.
  - rewrite repeat_length. exact P256.
  - intros c t Ht. rewrite nth_repeat_None in Ht. discriminate.
Qed.

Lemma st_wf_shift : forall n k d, st_wf n d -> st_wf (n + k) (shift_trans k d).
Proof.
  intros n k d (A & B & C). unfold shift_trans. split; [|split]; cbn [set_trans d_trans d_rec]; auto.
  - rewrite map_length. assumption.
  - intros c t. rewrite (nth_map_opt (fun x => x + k)).
    destruct (nth c (d_trans d) None) as [x|] eqn:E; intros Ht; inversion Ht. apply C in E. lia.
Qed.

Lemma rep_copies_wf : forall cnt sm s i L0,
  wf sm -> length sm = L0 + sl_n s * i -> sl_start s + sl_n s <= L0 ->
  (forall j, j < L0 -> st_wf L0 (get sm j)) ->
  wf (rep_copies sm s i cnt).
Proof.
  induction cnt as [|c IH]; intros sm s i L0 Hwf Hlen Hsl Hget; cbn [rep_copies]; auto.
  apply (IH _ s (S i) L0).
  - apply wf_app; auto. intros d Hd. apply in_map_iff in Hd. destruct Hd as (j & <- & Hj).
    rewrite map_length, slice_idxs_length, Hlen.
    unfold slice_idxs in Hj. apply in_seq in Hj.
    replace (L0 + sl_n s * i + sl_n s) with (L0 + sl_n s * S i) by lia.
    apply st_wf_shift. apply Hget. lia.
  - rewrite app_length, map_length, slice_idxs_length. lia.
  - assumption.
  - intros j Hj. unfold get. rewrite app_nth1 by lia. apply Hget. assumption.
Qed.

Lemma st_wf_rep0 : forall n d, st_wf n d -> st_wf n (rep0_state d).
Proof.
  intros n d (A & B & C). unfold rep0_state. destruct (d_start d).
  - split; [|split]; cbn [set_start set_end set_trans d_trans d_rec].
    + rewrite repeat_length. exact P256.
    + assumption.
    + intros c t Ht. rewrite nth_repeat_None in Ht. discriminate.
  - split; [|split]; cbn [set_unreach d_trans d_rec]; auto.
Qed.

Lemma rep0_fold_wf : forall l sm, wf sm -> wf (fold_left (fun acc j => upd acc j rep0_state) l sm).
Proof.
  intros l sm H. apply (fold_left_preserves dfa nat wf); auto.
  intros a b Ha. apply wf_upd; auto. apply st_wf_rep0, wf_get. assumption.
Qed.

Theorem b_rep_wf : forall sm s n sm' s',
  wf sm -> sl_start s + sl_n s <= length sm -> b_rep sm s n = Some (sm', s') -> wf sm'.
Proof.
  intros sm s [|m] sm' s' Hwf Hsl H; cbn [b_rep] in H.
  - inversion H; subst. apply rep0_fold_wf. assumption.
  - apply rep_cats_msteps in H. destruct H as [H _]. eapply msteps_wf; eauto.
    apply (rep_copies_wf m sm s 0 (length sm)); auto; try lia.
    intros j _. apply wf_get. assumption.
Qed.

(* every character set of the pattern is a 256-entry table *)
Fixpoint sets_ok (r : regex) : Prop :=
  match r with
  | RSet s => P (length s)
  | RStar a | RPlus a | ROpt a | RRep a _ => sets_ok a
  | RCat a b | RAlt a b => sets_ok a /\ sets_ok b
  end.

Theorem build_wf : forall r sm sm' s, sets_ok r -> wf sm -> build r sm = Some (sm', s) -> wf sm'.
Proof.
  induction r; intros sm sm' s0 Hs Hwf H; cbn [build sets_ok] in *.
  - inversion H; subst. apply (primary_subset_wf sm s); auto.
  - destruct (build r sm) as [[sm1 s1]|] eqn:E; [|discriminate]. apply IHr in E; auto.
    apply b_star_msteps in H. destruct H as [H _]. eapply msteps_wf; eauto.
  - destruct (build r sm) as [[sm1 s1]|] eqn:E; [|discriminate]. apply IHr in E; auto.
    apply b_plus_msteps in H. destruct H as [H _]. eapply msteps_wf; eauto.
  - destruct (build r sm) as [[sm1 s1]|] eqn:E; [|discriminate]. apply IHr in E; auto.
    apply b_opt_msteps in H. destruct H as [H _]. eapply msteps_wf; eauto.
  - destruct (build r sm) as [[sm1 s1]|] eqn:E; [|discriminate].
    pose proof (build_tail _ _ _ _ E) as [T1 T2]. apply IHr in E; auto.
    eapply b_rep_wf; eauto. lia.
  - destruct Hs as [Hs1 Hs2].
    destruct (build r1 sm) as [[sm1 s1]|] eqn:E1; [|discriminate]. apply IHr1 in E1; auto.
    destruct (build r2 sm1) as [[sm2 s2]|] eqn:E2; [|discriminate]. apply IHr2 in E2; auto.
    apply b_cat_msteps in H. destruct H as [H _]. eapply msteps_wf; eauto.
  - destruct Hs as [Hs1 Hs2].
    destruct (build r1 sm) as [[sm1 s1]|] eqn:E1; [|discriminate]. apply IHr1 in E1; auto.
    destruct (build r2 sm1) as [[sm2 s2]|] eqn:E2; [|discriminate]. apply IHr2 in E2; auto.
    apply b_alt_msteps in H. destruct H as [H _]. eapply msteps_wf; eauto.
Qed.

Lemma wf_nil : wf [].
Proof. intros q d H. destruct q; discriminate. Qed.

Theorem build_expr_wf : forall r sm, sets_ok r -> build_expr r = Some sm -> wf sm.
Proof.
  unfold build_expr. intros r sm Hs H. destruct (build r []) as [[sm1 s]|] eqn:E; [|discriminate].
  inversion H; subst. eapply msteps_wf; [apply mark_end_states_msteps|].
  eapply build_wf; eauto. apply wf_nil.
Qed.

End WF.

(* ---------- (A5) final forms ---------- *)
Definition ptrue (n : nat) : Prop := True.
Definition p256 (n : nat) : Prop := n = 256.

(* all transition targets are indices of the automaton; at most four recognition slots are filled *)
Definition closed (sm : dfa) : Prop := wf ptrue sm.
(* ... and every transition table has exactly 256 entries *)
Definition closed256 (sm : dfa) : Prop := wf p256 sm.

Lemma closed_targets : forall sm, closed sm ->
  forall q d c t, nth_error sm q = Some d -> nth c (d_trans d) None = Some t -> t < length sm.
Proof. intros sm H q d c t Hq Ht. destruct (H q d Hq) as (_ & _ & C). eauto. Qed.

Lemma sets_ok_true : forall r, sets_ok ptrue r.
Proof. induction r; cbn; auto. exact I. Qed.

Theorem merge_closed : forall fuel sm to from keep mark sm',
  merge fuel sm to from keep mark = Some sm' -> closed sm -> closed sm'.
Proof. intros. eapply (merge_wf ptrue I); eauto. Qed.

Theorem build_closed : forall r sm sm' s, closed sm -> build r sm = Some (sm', s) -> closed sm'.
Proof. intros. eapply (build_wf ptrue I); eauto. apply sets_ok_true. Qed.

Theorem build_expr_targets : forall r sm, build_expr r = Some sm ->
  forall q d c t, nth_error sm q = Some d -> nth c (d_trans d) None = Some t -> t < length sm.
Proof. intros r sm H. apply closed_targets. eapply (build_expr_wf ptrue I); eauto. apply sets_ok_true. Qed.

Theorem build_expr_rec_le_4 : forall r sm, build_expr r = Some sm ->
  forall q d, nth_error sm q = Some d -> length (d_rec d) <= 4.
Proof.
  intros r sm H q d Hq.
  assert (W : wf ptrue sm) by (eapply (build_expr_wf ptrue I); eauto; apply sets_ok_true).
  destruct (W q d Hq) as (_ & B & _). exact B.
Qed.

Theorem build_expr_trans_256 : forall r sm, sets_ok p256 r -> build_expr r = Some sm ->
  forall q d, nth_error sm q = Some d -> length (d_trans d) = 256.
Proof.
  intros r sm Hs H q d Hq.
  assert (W : wf p256 sm) by (eapply (build_expr_wf p256 eq_refl); eauto).
  destruct (W q d Hq) as (A & _). exact A.
Qed.

(* the 256-entry invariant does depend on the character sets of the pattern being 256-entry tables
   (the front end only produces such sets): the start state of the automaton of a malformed empty set has an
   empty transition table *)
Lemma trans_256_needs_sets_ok :
  exists r sm d, build_expr r = Some sm /\ nth_error sm 0 = Some d /\ length (d_trans d) <> 256.
Proof.
  exists (RSet []). eexists. eexists. split; [vm_compute; reflexivity|]. split; [reflexivity|].
  cbn. discriminate.
Qed.

(* the lexer *)
Lemma add_term_wf : forall P : nat -> Prop, P 256 -> forall sm t idx sm',
  sets_ok P (regex_of_term t) -> wf P sm -> add_term sm t idx = Some sm' -> wf P sm'.
Proof.
  unfold add_term. intros P HP sm t idx sm' Hs Hwf H.
  destruct (build (regex_of_term t) sm) as [[sm1 s]|] eqn:E; [|discriminate].
  destruct (b_alt _ _ _) as [[sm2 s2]|] eqn:E2; cbn in H; inversion H; subst.
  apply b_alt_msteps in E2. destruct E2 as [E2 _].
  eapply msteps_wf; [exact HP | exact E2 |].
  eapply msteps_wf; [exact HP | apply mark_end_states_msteps |].
  eapply build_wf; eauto.
Qed.

Lemma create_lexer_aux_wf : forall P : nat -> Prop, P 256 -> forall ts idx sm sm',
  Forall (fun t => sets_ok P (regex_of_term t)) ts -> wf P sm -> create_lexer_aux ts idx sm = Some sm' -> wf P sm'.
Proof.
  intros P HP. induction ts as [|t ts IH]; cbn [create_lexer_aux]; intros idx sm sm' Hs Hwf H.
  - inversion H; subst. assumption.
  - inversion Hs; subst. destruct (add_term sm t idx) as [sm1|] eqn:E; [|discriminate].
    apply (IH (S idx) sm1 sm'); auto. eapply add_term_wf; eauto.
Qed.

Theorem create_lexer_targets : forall ts sm, create_lexer ts = Some sm ->
  forall q d c t, nth_error sm q = Some d -> nth c (d_trans d) None = Some t -> t < length sm.
Proof.
  unfold create_lexer. intros ts sm H. apply closed_targets.
  apply (create_lexer_aux_wf ptrue I ts 0 [] sm); auto.
  - apply Forall_forall. intros. apply sets_ok_true.
  - apply wf_nil.
Qed.

Theorem create_lexer_closed256 : forall ts sm,
  Forall (fun t => sets_ok p256 (regex_of_term t)) ts -> create_lexer ts = Some sm -> closed256 sm.
Proof.
  unfold create_lexer, closed256. intros ts sm Hs H.
  apply (create_lexer_aux_wf p256 eq_refl ts 0 [] sm); auto. apply wf_nil.
Qed.

Print Assumptions merge_length.
Print Assumptions b_rep_length.
Print Assumptions build_size.
Print Assumptions build_tail.
Print Assumptions build_expr_size.
Print Assumptions add_term_size.
Print Assumptions create_lexer_size.
Print Assumptions string_term_size.
Print Assumptions empty_string_term_size_mismatch.
Print Assumptions merge_closed.
Print Assumptions build_closed.
Print Assumptions build_expr_targets.
Print Assumptions build_expr_rec_le_4.
Print Assumptions build_expr_trans_256.
Print Assumptions create_lexer_targets.
Print Assumptions create_lexer_closed256.
