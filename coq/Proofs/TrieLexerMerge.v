(* Merging a fresh chain into a trie node: what the in-place [merge] does to the walks from the root and to the
   recognition slots, provided the part reachable from the root is a tree (walks are injective) and the chain is
   fresh (its states are not reachable from the root). *)
Require Import Ctpg.Base.Prelude Ctpg.Model.Driver Ctpg.Model.Dfa Ctpg.Proofs.BuilderSize Ctpg.Proofs.BuilderTerm
               Ctpg.Proofs.TrieLexerBase Ctpg.Proofs.TrieLexerChain.

(* ---------- adding one edge to an automaton ---------- *)
Section Edge.
Variables a b : dfa.
Variables to c nx : nat.
Hypothesis Hedge : tr b to c = Some nx.
Hypothesis Hnone : tr a to c = None.
Hypothesis Hsame : forall q i, ~ (q = to /\ i = c) -> tr b q i = tr a q i.

Lemma edge_mono : forall x q r, walk a q x = Some r -> walk b q x = Some r.
Proof.
  induction x as [|c' x IH]; intros q r H; cbn [walk] in *; auto.
  destruct (tr a q c') as [q1|] eqn:E; [|discriminate].
  rewrite Hsame, E; auto. intros [-> ->]. congruence.
Qed.

Lemma edge_away : forall y q, (forall y1, walk a q y1 <> Some to) -> walk b q y = walk a q y.
Proof.
  induction y as [|c' y IH]; intros q H; cbn [walk]; auto.
  assert (Hq : q <> to). { intros ->. apply (H []). reflexivity. }
  rewrite Hsame by (intros [X _]; contradiction).
  destruct (tr a q c') as [q1|] eqn:E; auto.
  apply IH. intros y1 Hy1. apply (H (c' :: y1)). cbn [walk]. rewrite E. assumption.
Qed.

Lemma edge_inv : forall x q r, walk b q x = Some r ->
  walk a q x = Some r \/ exists x1 y, x = x1 ++ c :: y /\ walk a q x1 = Some to /\ walk b nx y = Some r.
Proof.
  induction x as [|c' x IH]; intros q r H; cbn [walk] in *; auto.
  destruct (Nat.eq_dec q to) as [->|Hq].
  - destruct (Nat.eq_dec c' c) as [->|Hc].
    + rewrite Hedge in H. right. exists [], x. repeat split; auto.
    + rewrite Hsame in H by (intros [_ X]; contradiction).
      destruct (tr a to c') as [q1|] eqn:E; [|discriminate].
      destruct (IH _ _ H) as [L|(x1 & y & -> & H1 & H2)]; auto.
      right. exists (c' :: x1), y. repeat split; auto. cbn [walk]. rewrite E. assumption.
  - rewrite Hsame in H by (intros [X _]; contradiction).
    destruct (tr a q c') as [q1|] eqn:E; [|discriminate].
    destruct (IH _ _ H) as [L|(x1 & y & -> & H1 & H2)]; auto.
    right. exists (c' :: x1), y. repeat split; auto. cbn [walk]. rewrite E. assumption.
Qed.
End Edge.

(* ---------- wf of the flag updates ---------- *)
Lemma pre_merge_msteps : forall sm to from keep mark, msteps sm (pre_merge sm to from keep mark).
Proof.
  intros. unfold pre_merge. cbv zeta.
  eapply msteps_trans; [apply msteps_keep, (keeps_set_merged from)|].
  eapply msteps_trans; [apply msteps_keep, keeps_set_start|].
  eapply msteps_trans; [apply msteps_keep, keeps_set_end|].
  apply msteps_keep, keeps_set_unreach.
Qed.

Lemma pre_merge_wf : forall sm to from keep mark, wf p256 sm -> wf p256 (pre_merge sm to from keep mark).
Proof. intros. eapply (msteps_wf p256 eq_refl); [apply pre_merge_msteps | assumption]. Qed.

(* is q the state reached from the root by x ? *)
Definition reaches (sm : dfa) (x : list nat) (q : nat) : bool :=
  match walk sm 0 x with Some q' => Nat.eqb q' q | None => false end.

(* ---------- the merge of a fresh chain into the trie node reached by p ---------- *)
Lemma merge_chain : forall u fuel sm to from p r N sm',
  wf p256 sm ->
  walk sm 0 p = Some to ->
  (forall x q, walk sm 0 x = Some q -> q < N) ->
  (forall x y q, walk sm 0 x = Some q -> walk sm 0 y = Some q -> x = y) ->
  (forall q m, q < N -> In m (d_merged (get sm q)) -> m < from) ->
  chain sm N from u r ->
  merge fuel sm to from true true = Some sm' ->
  length sm' = length sm /\
  (forall x q, walk sm 0 x = Some q -> walk sm' 0 x = Some q) /\
  (forall x y, walk sm 0 x = None -> x = p ++ y -> walk sm' 0 x = walk sm from y) /\
  (forall x, walk sm 0 x = None -> (forall y, x <> p ++ y) -> walk sm' 0 x = None) /\
  (forall q, N <= q -> (forall i, tr sm' q i = tr sm q i) /\ d_rec (get sm' q) = d_rec (get sm q) /\
                       d_end (get sm' q) = d_end (get sm q)) /\
  (forall q, q < N -> d_rec (get sm' q) =
                      if reaches sm (p ++ u) q then fold_left add_conflicted r (d_rec (get sm q))
                      else d_rec (get sm q)) /\
  (forall q m, In m (d_merged (get sm' q)) -> In m (d_merged (get sm q)) \/ m < length sm).
Proof.
  induction u as [|c u IH]; intros fuel sm to from p r N sm' W Hp Hreach Hinj Hmb Hc HM;
    (destruct fuel as [|f]; [discriminate|]); rewrite merge_S in HM;
    pose proof (chain_lo _ _ _ _ _ Hc) as [HNf Hfl];
    pose proof (Hreach _ _ Hp) as HtN;
    assert (Hne : to <> from) by lia;
    assert (Htl : to < length sm) by lia;
    (assert (Hneb : Nat.eqb to from = false) by (apply Nat.eqb_neq; assumption)); rewrite Hneb in HM;
    (assert (Hmem : mem_nat from (d_merged (get sm to)) = false)
       by (destruct (mem_nat from (d_merged (get sm to))) eqn:E; auto; apply mem_nat_In in E; apply Hmb in E; auto; lia));
    rewrite Hmem in HM;
    set (s0 := pre_merge sm to from true true) in *;
    assert (T0 : forall q i, tr s0 q i = tr sm q i) by (intros; apply pre_merge_tr; assumption);
    assert (R0 : forall q, d_rec (get s0 q) = d_rec (get sm q)) by (intros; apply pre_merge_rec; assumption);
    assert (E0 : forall q, d_end (get s0 q) = if Nat.eqb q to then d_end (get sm to) || d_end (get sm from) else d_end (get sm q))
      by (intros; unfold s0; rewrite pre_merge_end by assumption; reflexivity);
    assert (M0 : forall q, d_merged (get s0 q) = if Nat.eqb q to then from :: d_merged (get sm to) else d_merged (get sm q))
      by (intros; apply pre_merge_merged; assumption);
    assert (L0 : length s0 = length sm) by apply pre_merge_length;
    assert (W0 : forall x q, walk s0 q x = walk sm q x) by (intros; apply walk_ext; assumption);
    cbn [chain] in Hc.
  - (* the chain ends here: only the flags and slots of [to] change *)
    destruct Hc as (_ & _ & H3 & H4 & H5).
    rewrite (mstep_fold_single _ _ _ _ _ 0) in HM; try lia.
    2:{ intros i _. rewrite T0. apply H3. }
    2:{ intros s Hs i _. rewrite mstep_fn_none in Hs by (rewrite T0; apply H3). inversion Hs; subst s. rewrite T0. apply H3. }
    rewrite mstep_fn_none in HM by (rewrite T0; apply H3).
    inversion HM; subst sm'. clear HM. unfold post_merge. rewrite R0, H4.
    assert (G : forall q, get (fold_left (fun acc t => upd acc to (fun d => mark_end_state d t)) r s0) q =
                  if Nat.eqb q to then set_rec (get s0 to) (fold_left add_conflicted r (d_rec (get s0 to)))
                  else get s0 q).
    { intros q. destruct H5 as [H5|H5].
      - apply mark_fold_get; [lia|]. rewrite E0, Nat.eqb_refl, H5. apply orb_true_r.
      - rewrite H5. cbn [fold_left]. destruct (Nat.eqb q to) eqn:E; auto.
        apply Nat.eqb_eq in E. subst q. rewrite set_rec_same. reflexivity. }
    set (sm' := fold_left (fun acc t => upd acc to (fun d => mark_end_state d t)) r s0) in *.
    assert (T1 : forall q i, tr sm' q i = tr sm q i).
    { intros q i. unfold tr. rewrite G. destruct (Nat.eqb q to) eqn:E.
      - apply Nat.eqb_eq in E. subst q. cbn [set_rec d_trans]. apply T0.
      - apply T0. }
    assert (W1 : forall x q, walk sm' q x = walk sm q x) by (intros; apply walk_ext; assumption).
    split; [unfold sm'; rewrite mark_fold_length; assumption|].
    split; [intros x q H; rewrite W1; assumption|].
    split. { intros x y Hx ->. rewrite W1, Hx. destruct y as [|c y]; cbn [walk].
             - rewrite app_nil_r in Hx. congruence.
             - rewrite H3. reflexivity. }
    split; [intros x Hx _; rewrite W1; assumption|].
    split. { intros q Hq. assert (En : Nat.eqb q to = false) by (apply Nat.eqb_neq; lia).
             split; [intros i; apply T1|]. rewrite G, En. split; [apply R0|]. rewrite E0, En. reflexivity. }
    split. { intros q Hq. unfold reaches. rewrite app_nil_r, Hp. rewrite G, (Nat.eqb_sym to q).
             destruct (Nat.eqb q to) eqn:E; [|apply R0].
             apply Nat.eqb_eq in E. subst q. cbn [set_rec d_rec]. rewrite R0. reflexivity. }
    intros q m Hm. rewrite G in Hm. destruct (Nat.eqb q to) eqn:E.
    + apply Nat.eqb_eq in E. subst q. cbn [set_rec d_merged] in Hm. rewrite M0, Nat.eqb_refl in Hm.
      destruct Hm as [<-|Hm]; auto.
    + rewrite M0, E in Hm. auto.
  - (* one more byte of the chain *)
    destruct Hc as (_ & _ & Hc256 & H4 & H5 & nx & H6 & H7 & H8 & H9).
    assert (Hlen : c < length (d_trans (get s0 to))).
    { unfold s0. rewrite pre_merge_trans by assumption. rewrite trans_len by assumption. assumption. }
    assert (Htl0 : to < length s0) by lia.
    destruct (tr sm to c) as [trt|] eqn:Etc.
    + (* [to] already has a transition on c: recursion into the two targets *)
      assert (Estep : mstep_fn f to from true true (Some s0) c = merge f s0 trt nx true true).
      { apply mstep_fn_descend; rewrite T0; assumption. }
      destruct (merge f s0 trt nx true true) as [s'|] eqn:EM.
      2:{ rewrite (mstep_fold_single _ _ _ _ _ c) in HM; auto.
          - rewrite Estep in HM. discriminate.
          - intros i Hi. rewrite T0. auto.
          - intros s Hs. rewrite Estep in Hs. discriminate. }
      assert (Hp' : walk s0 0 (p ++ [c]) = Some trt).
      { rewrite W0, walk_app, Hp. cbn [walk]. rewrite Etc. reflexivity. }
      destruct (IH f s0 trt nx (p ++ [c]) r N s') as (P1 & P2 & P3 & P4 & P5 & P6 & P7); auto.
      { apply pre_merge_wf. assumption. }
      { intros x q. rewrite W0. apply Hreach. }
      { intros x y q. rewrite !W0. apply Hinj. }
      { intros q m Hq Hm. rewrite M0 in Hm. destruct (Nat.eqb q to) eqn:E.
        - destruct Hm as [<-|Hm]; [assumption|]. apply Nat.eqb_eq in E. subst q. apply Hmb in Hm; lia.
        - apply Hmb in Hm; lia. }
      { eapply chain_ext; [| |exact H9]; [assumption|].
        intros q Hq. split; [intros i; apply T0|]. split; [apply R0|].
        rewrite E0. assert (En : Nat.eqb q to = false) by (apply Nat.eqb_neq; lia). rewrite En. reflexivity. }
      destruct (P5 from HNf) as (P5t & P5r & _).
      rewrite (mstep_fold_single _ _ _ _ _ c) in HM; auto.
      2:{ intros i Hi. rewrite T0. auto. }
      2:{ intros s Hs i Hi. rewrite Estep in Hs. inversion Hs; subst s. rewrite P5t, T0. auto. }
      rewrite Estep in HM. unfold post_merge in HM. rewrite P5r, R0, H4 in HM. cbn [fold_left] in HM.
      inversion HM; subst sm'. clear HM.
      split; [lia|].
      split; [intros x q H; apply P2; rewrite W0; assumption|].
      split. { intros x y Hx ->. destruct y as [|c' y].
               - rewrite app_nil_r in Hx. congruence.
               - destruct (Nat.eq_dec c' c) as [->|Hcc].
                 + rewrite (P3 (p ++ c :: y) y).
                   * rewrite W0. cbn [walk]. rewrite H7. reflexivity.
                   * rewrite W0. assumption.
                   * rewrite <- app_assoc. reflexivity.
                 + cbn [walk]. rewrite H8 by assumption. apply P4.
                   * rewrite W0. assumption.
                   * intros z Hz. rewrite <- app_assoc in Hz. apply app_inv_head in Hz. inversion Hz. contradiction. }
      split. { intros x Hx Hnp. apply P4; [rewrite W0; assumption|].
               intros z Hz. rewrite <- app_assoc in Hz. eapply Hnp; eauto. }
      split. { intros q Hq. destruct (P5 q Hq) as (A1 & A2 & A3).
               assert (En : Nat.eqb q to = false) by (apply Nat.eqb_neq; lia).
               split; [intros i; rewrite A1; apply T0|]. split; [rewrite A2; apply R0|].
               rewrite A3, E0, En. reflexivity. }
      split. { intros q Hq. rewrite (P6 q Hq). unfold reaches. rewrite W0, <- app_assoc. cbn [app].
               rewrite R0. reflexivity. }
      intros q m Hm. destruct (P7 _ _ Hm) as [Hm'|Hm']; [|right; lia].
      rewrite M0 in Hm'. destruct (Nat.eqb q to) eqn:E; auto.
      apply Nat.eqb_eq in E. subst q. destruct Hm' as [<-|Hm']; auto.
    + (* [to] has no transition on c: the rest of the chain is attached *)
      assert (Estep : mstep_fn f to from true true (Some s0) c = Some (attach s0 to c nx)).
      { apply mstep_fn_attach; rewrite T0; assumption. }
      assert (Ta : forall q i, tr (attach s0 to c nx) q i =
                               if Nat.eqb q to && Nat.eqb i c then Some nx else tr sm q i).
      { intros q i. rewrite attach_tr by assumption. rewrite T0. reflexivity. }
      rewrite (mstep_fold_single _ _ _ _ _ c) in HM; auto.
      2:{ intros i Hi. rewrite T0. auto. }
      2:{ intros s Hs i Hi. rewrite Estep in Hs. inversion Hs; subst s. rewrite Ta.
          assert (En : Nat.eqb from to = false) by (apply Nat.eqb_neq; lia). rewrite En. cbn [andb]. auto. }
      rewrite Estep in HM. unfold post_merge in HM. rewrite attach_rec, R0, H4 in HM. cbn [fold_left] in HM.
      inversion HM; subst sm'. clear HM.
      set (sm' := attach s0 to c nx) in *.
      assert (Hedge : tr sm' to c = Some nx) by (rewrite Ta, !Nat.eqb_refl; reflexivity).
      assert (Hsame : forall q i, ~ (q = to /\ i = c) -> tr sm' q i = tr sm q i).
      { intros q i Hqi. rewrite Ta. destruct (Nat.eqb q to) eqn:E1; cbn [andb]; auto.
        destruct (Nat.eqb i c) eqn:E2; auto. apply Nat.eqb_eq in E1. apply Nat.eqb_eq in E2. tauto. }
      assert (Haway : forall y, walk sm' nx y = walk sm nx y).
      { intros y. apply (edge_away sm sm' to c Hsame). intros y1 Hy1.
        pose proof (chain_walk_lo _ _ _ _ _ _ _ H9 Hy1). lia. }
      assert (Hnew : forall x r0, walk sm 0 x = None -> walk sm' 0 x = Some r0 ->
                                  exists y, x = p ++ c :: y /\ walk sm nx y = Some r0).
      { intros x r0 Hx Hx'. destruct (edge_inv sm sm' to c nx Hedge Hsame _ _ _ Hx') as [L|(x1 & y & -> & A1 & A2)].
        - congruence.
        - assert (x1 = p) by (eapply Hinj; eauto). subst x1. exists y. split; auto. rewrite <- Haway. assumption. }
      split; [unfold sm'; rewrite attach_length; assumption|].
      split; [intros x q H; eapply (edge_mono sm sm' to c); eauto|].
      split. { intros x y Hx ->. destruct y as [|c' y].
               - rewrite app_nil_r in Hx. congruence.
               - destruct (Nat.eq_dec c' c) as [->|Hcc].
                 + rewrite walk_app. rewrite (edge_mono sm sm' to c Etc Hsame _ _ _ Hp).
                   cbn [walk]. rewrite Hedge, H7. apply Haway.
                 + cbn [walk]. rewrite H8 by assumption.
                   destruct (walk sm' 0 (p ++ c' :: y)) as [r0|] eqn:Er; auto.
                   destruct (Hnew _ _ Hx Er) as (z & Hz & _). apply app_inv_head in Hz. inversion Hz. contradiction. }
      split. { intros x Hx Hnp. destruct (walk sm' 0 x) as [r0|] eqn:Er; auto.
               destruct (Hnew _ _ Hx Er) as (z & Hz & _). exfalso. eapply Hnp; eauto. }
      split. { intros q Hq. assert (En : Nat.eqb q to = false) by (apply Nat.eqb_neq; lia).
               split; [intros i; rewrite Ta, En; reflexivity|].
               unfold sm'. rewrite attach_rec, attach_end, E0, En. split; [apply R0 | reflexivity]. }
      split. { intros q Hq. unfold reaches. rewrite walk_app, Hp. cbn [walk]. rewrite Etc.
               unfold sm'. rewrite attach_rec. apply R0. }
      intros q m Hm. unfold sm' in Hm. rewrite attach_merged, M0 in Hm.
      destruct (Nat.eqb q to) eqn:E; auto.
      apply Nat.eqb_eq in E. subst q. destruct Hm as [<-|Hm]; auto.
Qed.
