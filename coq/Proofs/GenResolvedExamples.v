(* Sanity for Proofs/GenResolved.v: the example grammars of Proofs/GroupingExamples.v (each with shift/reduce
   conflicts in its generated table, so gen_validates of Proofs/GenCorrect.v does not apply) satisfy the hypotheses
   of gen_validates_resolved by computation; the facts that GroupingExamples.v checks by running the validator
   follow from the general theorem. *)
Require Import Ctpg.Base.Prelude Ctpg.Model.Grammar Ctpg.Model.LRGen Ctpg.Model.Driver
               Ctpg.Spec.Cfg Ctpg.Spec.LRSpec Ctpg.Spec.Conflict Ctpg.Spec.Grouping
               Ctpg.Valid.LRValid Ctpg.Valid.LRResolved
               Ctpg.Proofs.LRReflect Ctpg.Proofs.LRValidFacts Ctpg.Proofs.LRSound
               Ctpg.Proofs.GenWf Ctpg.Proofs.GenCorrect
               Ctpg.Proofs.GroupingExamples Ctpg.Proofs.GenResolved.

(* the hypotheses of gen_validates_resolved (for the default limits), and whether the table carries an S/R mark *)
Definition resolved_hyps (g : grammar) : bool :=
  grammar_wf g && grammar_wf_extra g &&
  match gen g with
  | inl (sts, tbl) => no_rr g (length sts) tbl && accept_clean g sts
  | inr _ => false
  end.
Definition has_sr_mark (g : grammar) : bool :=
  match gen g with inl (sts, tbl) => negb (conflict_free g (length sts) tbl) | inr _ => false end.

Example examples_hyps :
  map resolved_hyps [ga; gb; gc; gd; ge] = [true; true; true; true; true] /\
  map has_sr_mark [ga; gb; gc; gd; ge] = [true; true; true; true; true].
Proof. vm_compute. split; reflexivity. Qed.

Lemma resolved_hyps_ok g : resolved_hyps g = true ->
  validate_resolved g (sts_of g) (tbl_of g) = true /\
  forall w tr, tokens_ok g w -> no_error_symbol g (tbl_of g) = true -> accepts g (tbl_of g) w tr ->
               derives_tree g tr w /\ well_grouped g tr.
Proof.
  unfold resolved_hyps, sts_of, tbl_of. intros H.
  destruct (gen g) as [[sts tbl]|] eqn:E; [|rewrite andb_false_r in H; discriminate].
  apply andb_true_iff in H. destruct H as [H H3]. apply andb_true_iff in H. destruct H as [H1 H2].
  apply andb_true_iff in H3. destruct H3 as [H3 H4]. split.
  - apply gen_validates_resolved_default; assumption.
  - intros w tr Hw Hne Hacc. apply (gen_groups_derivation g (default_limits g) sts tbl); assumption.
Qed.

(* the facts of GroupingExamples.v, now from the generator theorem *)
Theorem ga_resolved_by_theorem : validate_resolved ga (sts_of ga) (tbl_of ga) = true.
Proof. apply resolved_hyps_ok. vm_compute. reflexivity. Qed.
Theorem gb_resolved_by_theorem : validate_resolved gb (sts_of gb) (tbl_of gb) = true.
Proof. apply resolved_hyps_ok. vm_compute. reflexivity. Qed.
Theorem gc_resolved_by_theorem : validate_resolved gc (sts_of gc) (tbl_of gc) = true.
Proof. apply resolved_hyps_ok. vm_compute. reflexivity. Qed.
Theorem gd_resolved_by_theorem : validate_resolved gd (sts_of gd) (tbl_of gd) = true.
Proof. apply resolved_hyps_ok. vm_compute. reflexivity. Qed.
Theorem ge_resolved_by_theorem : validate_resolved ge (sts_of ge) (tbl_of ge) = true.
Proof. apply resolved_hyps_ok. vm_compute. reflexivity. Qed.

Theorem ge_groups_by_theorem : forall w tr, tokens_ok ge w -> accepts ge (tbl_of ge) w tr ->
  derives_tree ge tr w /\ well_grouped ge tr.
Proof.
  intros w tr Hw Hacc. apply (proj2 (resolved_hyps_ok ge ltac:(vm_compute; reflexivity)) w tr Hw); [|assumption].
  vm_compute. reflexivity.
Qed.

(* the hypothesis no_rr cannot be dropped: for S -> A | B, A -> a, B -> a the grammar is well-formed, the generator
   succeeds, the table is accept-clean, but it has a reduce/reduce cell and the resolved validator rejects it *)
Definition g_rr : grammar :=
  match analyze (mkRG [83] [mkRT [97] 0%Z NoAssoc] [[83]; [65]; [66]]
                      [mkRR [83] [RNterm [65]] None; mkRR [83] [RNterm [66]] None;
                       mkRR [65] [RTerm [97]] None; mkRR [66] [RTerm [97]] None])
  with Some g => g | None => dummy_g end.

Example no_rr_needed :
  grammar_wf g_rr = true /\ grammar_wf_extra g_rr = true /\
  match gen g_rr with
  | inl (sts, tbl) => no_rr g_rr (length sts) tbl = false /\ accept_clean g_rr sts = true /\
                      validate_resolved g_rr (map st_all sts) tbl = false
  | inr _ => False
  end.
Proof. vm_compute. repeat split; reflexivity. Qed.

Print Assumptions ge_groups_by_theorem.

(* the hypothesis accept_clean cannot be dropped either (finding D12): for S -> b | A, A -> S (Proofs/CellResolve.v)
   no cell is marked at all, state 1 hides the accept/reduce conflict, and the resolved validator rejects the table *)
Example accept_clean_needed :
  grammar_wf CellResolve.g12 = true /\ grammar_wf_extra CellResolve.g12 = true /\
  match gen CellResolve.g12 with
  | inl (sts, tbl) => conflict_free CellResolve.g12 (length sts) tbl = true /\ no_rr CellResolve.g12 (length sts) tbl = true /\
                      accept_clean CellResolve.g12 sts = false /\
                      validate_resolved CellResolve.g12 (map st_all sts) tbl = false
  | inr _ => False
  end.
Proof. vm_compute. repeat split; reflexivity. Qed.
