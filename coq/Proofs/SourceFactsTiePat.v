(* Part of the tie between the hand-written model and the facts tools/source_facts.py read out of ctpg.hpp on this run. *)
(* character classes, the specials table and the pattern grammar (C03 C17) *)
Require Import Ctpg.Base.Prelude Ctpg.Model.Grammar Ctpg.Model.LRGen Ctpg.Model.Driver Ctpg.Model.Dfa
               Ctpg.Model.RegexFront Ctpg.Model.SourceFacts.

Lemma tie_printable : forall c, c < 256 -> is_printable c = (Nat.leb (fst sf_printable) c && Nat.leb c (snd sf_printable)).
Proof. reflexivity. Qed.
Lemma tie_dec : forall c, is_dec_digit c = (Nat.leb (fst sf_dec) c && Nat.leb c (snd sf_dec)).
Proof. reflexivity. Qed.
Lemma tie_hex : forall c, is_hex_digit c =
  ((Nat.leb (nth 0 sf_hex 0) c && Nat.leb c (nth 1 sf_hex 0)) || (Nat.leb (nth 2 sf_hex 0) c && Nat.leb c (nth 3 sf_hex 0))
   || (Nat.leb (nth 4 sf_hex 0) c && Nat.leb c (nth 5 sf_hex 0))).
Proof. reflexivity. Qed.

Lemma tie_specials : forallb (fun c => match special c, find (fun p => Nat.eqb (fst p) c) sf_specials with
                                        | Some t, Some (_, t') => Nat.eqb t t'
                                        | None, None => true
                                        | _, _ => false
                                        end) (seq 0 256) = true.
Proof. vm_compute. reflexivity. Qed.

Lemma tie_regex_grammar : sf_regex_raw_grammar = regex_raw_grammar. Proof. reflexivity. Qed.

