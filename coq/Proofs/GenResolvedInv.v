(* The UNCONDITIONAL invariant of the generator's main loop (states_loop), on top of the one of Proofs/GenCorrect.v:
   - [cell_rec]  : every cell of a finished state is exactly what transitions() writes for the scan (scan_cell) of the
                   bucket of the FINAL item set of that state: the default entry for an empty bucket, the non-shift
                   entry of the scan, or a shift into a state whose kernel is the scan's kernel. No hypothesis about
                   conflict marks: Proofs/GenCorrect.v keeps the shape of a cell only under [cf_entry].
   - [st_good]   : every state is non-empty, and every dot-0 item other than the root item of state 0 was appended
                   by the closure of an item standing EARLIER in the same state ([gen_by]).
   Both are used by Proofs/GenResolved.v (tables with resolved shift/reduce conflicts) and
   Proofs/GenTermChecks.v (the item-set checks of the termination theorems). *)
Require Import Ctpg.Base.Prelude Ctpg.Model.Grammar Ctpg.Model.LRGen Ctpg.Valid.LRValid
               Ctpg.Proofs.LRReflect Ctpg.Proofs.LRValidFacts Ctpg.Proofs.GenLists Ctpg.Proofs.GenWf
               Ctpg.Proofs.GenFirst Ctpg.Proofs.GenClosure Ctpg.Proofs.GenScan Ctpg.Proofs.GenTrans
               Ctpg.Proofs.GenCorrect.

(* ---------- the cell that transitions() writes ---------- *)

Definition cell_rec (g : grammar) (sts : list lrstate) (tb : table) (s c : nat) : Prop :=
  let B := bucket g (st_all (stn sts s)) c in
  let Sc := scan_cell g B scan0 in
  (B = [] /\ cell_at tb s c = entry_default) \/
  (B <> [] /\ sc_kind Sc <> KShift /\ cell_at tb s c = nonshift_entry Sc) \/
  (B <> [] /\ sc_kind Sc = KShift /\
   exists idx, cell_at tb s c = mkE (kd g c) (Some idx) (sc_sr Sc) /\ idx < length sts /\ idx <> 0 /\
               forall j, In j (st_kernel (stn sts idx)) <-> In j (sc_kernel Sc)).

Lemma cell_rec_frame g sts sts' tb tb' s c :
  length sts <= length sts' ->
  (forall s, s < length sts -> st_kernel (stn sts' s) = st_kernel (stn sts s)) ->
  stn sts' s = stn sts s -> cell_at tb' s c = cell_at tb s c ->
  cell_rec g sts tb s c -> cell_rec g sts' tb' s c.
Proof.
  intros Hl Hk Hs Hc H. unfold cell_rec in *. rewrite Hs, Hc.
  destruct H as [H|[H|(A & B & idx & C & D & E & F)]]; auto.
  right; right. split; [assumption|]. split; [assumption|]. exists idx.
  split; [assumption|]. split; [lia|]. split; [assumption|]. rewrite Hk by assumption. assumption.
Qed.

(* ---------- states created by a transition ---------- *)

Definition fresh_st (st : lrstate) : Prop := st_all st <> [] /\ forall i, In i (st_all st) -> it_d i <> 0.

Lemma do_shift_fresh g lim cur col sts tb K sr sts' tb' :
  do_shift g lim cur col sts tb K sr = inl (sts', tb') ->
  forall s, length sts <= s -> s < length sts' -> st_all (stn sts' s) = fold_left add_item K [].
Proof.
  intros H s Hs1 Hs2. unfold do_shift in H.
  destruct (find_kernel sts K 0 None) as [idx|] eqn:Ef.
  - destruct (Nat.ltb _ _); [discriminate|]. inversion H; subst sts' tb'. rewrite update_length in Hs2. lia.
  - destruct (Nat.ltb (state_cap lim) (S (length sts))); [discriminate|].
    assert (nth (length sts) (sts ++ [mkSt [] []]) (mkSt [] []) = mkSt [] []) as Eold
        by (apply (stn_app_last sts (mkSt [] []))).
    rewrite Eold in H. cbn [st_all st_kernel] in H.
    destruct (Nat.ltb _ _); [discriminate|]. rewrite update_app_last in H.
    inversion H; subst sts' tb'. rewrite app_length in Hs2. cbn [length] in Hs2.
    assert (s = length sts) as -> by lia. rewrite stn_app_last. reflexivity.
Qed.

Section Cells.
  Variable g : grammar.
  Hypothesis WF : wf_facts g.

  Lemma do_transitions_rec lim cur col sts tb sts' tb' :
    all_disc g sts -> cur < length sts ->
    cur < length tb -> col < length (nth cur tb []) ->
    cell_at tb cur col = entry_default ->
    do_transitions g lim cur col sts tb = inl (sts', tb') ->
    cell_rec g sts' tb' cur col /\
    (forall s, length sts <= s -> s < length sts' -> fresh_st (stn sts' s)).
  Proof.
    intros Hd Hcur Hrow Hcol Hdef H. rewrite do_transitions_eq in H.
    pose proof (Hd cur Hcur) as D.
    set (its := st_all (stn sts cur)) in *. set (B := bucket g its col) in *.
    destruct B as [|b0 B0] eqn:EB.
    - inversion H; subst sts' tb'. split; [|intros; lia].
      left. fold its. fold B. rewrite EB. auto.
    - assert (B <> []) as Hne by (rewrite EB; discriminate). rewrite <- EB in H. cbn zeta in H.
      set (Sc := scan_cell g B scan0) in *.
      assert (sc_kind Sc = KShift \/ sc_kind Sc <> KShift) as [Ek|Ek]
          by (destruct (sc_kind Sc); auto; right; discriminate).
      + rewrite Ek in H.
        assert (sc_kernel Sc <> []) as HKne by (apply scan0_kshift_kernel; assumption).
        assert (forall j, In j (sc_kernel Sc) -> kitem_ok g j) as HKok
            by (intros j Hj; eapply scan_kernel_ok; eassumption).
        destruct (do_shift_spec g lim cur col sts tb (sc_kernel Sc) (sc_sr Sc) sts' tb' Hd ltac:(lia) HKne HKok H)
          as (idx & Etb & Hidx & Hidx0 & Hker & Hfr & Hd' & Hlen).
        split.
        * right; right. rewrite (fr_old _ _ Hfr cur Hcur). fold its. fold B. fold Sc.
          split; [assumption|]. split; [assumption|]. exists idx.
          rewrite Etb, cell_at_set_same by assumption. auto.
        * intros s Hs1 Hs2. unfold fresh_st.
          rewrite (do_shift_fresh _ _ _ _ _ _ _ _ _ _ H s Hs1 Hs2). split.
          -- destruct (sc_kernel Sc) as [|x K] eqn:EK; [congruence|]. intros E.
             assert (In x (fold_left add_item (x :: K) [])) as Hx by (apply fold_add_In; right; cbn; auto).
             rewrite E in Hx. destruct Hx.
          -- intros i Hi. apply fold_add_In in Hi. destruct Hi as [[]|Hi]. apply (HKok i Hi).
      + assert (sts' = sts /\ tb' = set_cell tb cur col (nonshift_entry Sc)) as (-> & ->).
        { unfold nonshift_entry. destruct (sc_kind Sc); try congruence; inversion H; auto. }
        split; [|intros; lia].
        right; left. fold its. fold B. fold Sc. rewrite cell_at_set_same by assumption. auto.
  Qed.

  Lemma trans_loop_rec lim cur cols : forall sts tb sts' tb',
    all_disc g sts -> cur < length sts -> cur < length tb ->
    NoDup cols -> (forall c, In c cols -> c < length (nth cur tb [])) ->
    (forall c, In c cols -> cell_at tb cur c = entry_default) ->
    length sts <= state_cap lim ->
    trans_loop g lim cur cols sts tb = inl (sts', tb') ->
    (forall c, In c cols -> cell_rec g sts' tb' cur c) /\
    (forall s, length sts <= s -> s < length sts' -> fresh_st (stn sts' s)).
  Proof.
    induction cols as [|c t IH]; intros sts tb sts' tb' Hd Hcur Hrow Hnd Hcols Hdef Hcap H.
    - cbn [trans_loop] in H. inversion H; subst. split; [intros c []|intros; lia].
    - pose proof H as Hall. cbn [trans_loop] in H.
      destruct (do_transitions g lim cur c sts tb) as [[sts1 tb1]|err] eqn:E1; [|discriminate].
      inversion Hnd as [|? ? Hc_notin Hnd_t]; subst.
      destruct (do_transitions_spec g WF lim cur c sts tb sts1 tb1 Hd Hcur Hrow
                  (Hcols c (or_introl eq_refl)) (Hdef c (or_introl eq_refl)) E1)
        as (Hfr1 & Hd1 & Hlen1 & Htb1 & _).
      destruct (do_transitions_rec lim cur c sts tb sts1 tb1 Hd Hcur Hrow
                  (Hcols c (or_introl eq_refl)) (Hdef c (or_introl eq_refl)) E1) as (Hrec1 & Hfresh1).
      destruct (tb_step_facts _ _ _ _ Htb1) as (L1 & R1 & C1).
      pose proof (fr_len _ _ Hfr1) as Hl1.
      assert (cur < length sts1) as Hcur1 by lia.
      assert (cur < length tb1) as Hrow1 by lia.
      assert (forall c', In c' t -> c' < length (nth cur tb1 [])) as Hcols1
          by (intros c' Hc'; rewrite R1; apply Hcols; cbn; auto).
      assert (forall c', In c' t -> cell_at tb1 cur c' = entry_default) as Hdef1.
      { intros c' Hc'. rewrite C1; [apply Hdef; cbn; auto|]. right. intros ->. contradiction. }
      assert (length sts1 <= state_cap lim) as Hcap1 by (destruct Hlen1 as [Hlen1|[Hlen1 Hlen2]]; lia).
      destruct (trans_loop_spec g WF lim cur t sts1 tb1 sts' tb' Hd1 Hcur1 Hrow1 Hnd_t Hcols1 Hdef1 Hcap1 H)
        as (Hfr2 & _ & _ & _ & _ & C2 & _).
      destruct (IH sts1 tb1 sts' tb' Hd1 Hcur1 Hrow1 Hnd_t Hcols1 Hdef1 Hcap1 H) as (G2 & F2).
      split.
      + intros c0 [<-|Hc0]; [|apply G2; assumption].
        eapply cell_rec_frame; [| | | |exact Hrec1].
        * apply (fr_len _ _ Hfr2).
        * intros s Hs. rewrite (fr_old _ _ Hfr2 s Hs). reflexivity.
        * apply (fr_old _ _ Hfr2). lia.
        * apply C2. right. assumption.
      + intros s Hs1 Hs2. destruct (Nat.lt_ge_cases s (length sts1)) as [Hlt|Hge].
        * rewrite (fr_old _ _ Hfr2 s Hlt). apply Hfresh1; assumption.
        * apply F2; assumption.
  Qed.
End Cells.

(* ---------- the order in which closure fills a state ---------- *)

Section Order.
  Variable g : grammar.
  Variable ne : bset.
  Variable nf : list bset.

  (* [y], standing at position [j], was generated by the closure of an item at an earlier position *)
  Definition gen_by (its : list item) (j : nat) (y : item) : Prop :=
    exists k ik, k < j /\ nth_error its k = Some ik /\ In y (closure_children g ne nf ik).

  Definition ordered (s : nat) (its : list item) : Prop :=
    forall j y, nth_error its j = Some y -> it_d y = 0 -> (s = 0 /\ y = root_item g) \/ gen_by its j y.

  Definition st_good (s : nat) (its : list item) : Prop := its <> [] /\ ordered s its.

  Lemma gen_by_app its e j y : gen_by its j y -> gen_by (its ++ e) j y.
  Proof.
    intros (k & ik & Hk & Hik & Hy). exists k, ik. split; [assumption|]. split; [|assumption].
    apply nth_error_app_l. assumption.
  Qed.

  Lemma close_loop_ordered fuel : forall all i n,
    (forall j y, n <= j -> nth_error all j = Some y -> gen_by all j y) ->
    exists ext, close_loop fuel g ne nf all i = all ++ ext /\
      forall j y, n <= j -> nth_error (all ++ ext) j = Some y -> gen_by (all ++ ext) j y.
  Proof.
    induction fuel as [|f IH]; intros all i n Hall; cbn [close_loop].
    - exists []. rewrite app_nil_r. auto.
    - destruct (nth_error all i) as [x|] eqn:Ex.
      + set (ch := closure_children g ne nf x).
        destruct (fold_add_ext ch all) as (e & Ee & He).
        destruct (IH (fold_left add_item ch all) (S i) n) as (ext & Eext & Hext).
        * rewrite Ee. intros j y Hn Hj. destruct (Nat.lt_ge_cases j (length all)) as [Hlt|Hge].
          -- rewrite nth_error_app1 in Hj by assumption. apply gen_by_app. apply Hall; assumption.
          -- rewrite nth_error_app2 in Hj by assumption. apply nth_error_In in Hj.
             exists i, x. split; [apply nth_error_Some_lt in Ex; lia|]. split; [apply nth_error_app_l; assumption|].
             apply He. assumption.
        * exists (e ++ ext). rewrite Eext, Ee, <- app_assoc in *. split; [reflexivity|]. assumption.
      + exists []. rewrite app_nil_r. auto.
  Qed.

  Lemma close_good fuel s pre : st_good s pre -> st_good s (close_loop fuel g ne nf pre 0).
  Proof.
    intros (Hne & Hord).
    destruct (close_loop_ordered fuel pre 0 (length pre)) as (ext & -> & Hext).
    - intros j y Hj E. apply nth_error_Some_lt in E. lia.
    - split; [destruct pre; [congruence|discriminate]|].
      intros j y Hj Hd. destruct (Nat.lt_ge_cases j (length pre)) as [Hlt|Hge].
      + rewrite nth_error_app1 in Hj by assumption. destruct (Hord j y Hj Hd) as [H|H]; [left; assumption|].
        right. apply gen_by_app. assumption.
      + right. apply Hext; assumption.
  Qed.

  Lemma fresh_good s st : s <> 0 -> fresh_st st -> st_good s (st_all st).
  Proof.
    intros Hs (Hne & Hd). split; [assumption|]. intros j y Hj Hy. exfalso.
    apply (Hd y); [eapply nth_error_In; eassumption|assumption].
  Qed.

  Lemma init_good : st_good 0 [root_item g].
  Proof.
    split; [discriminate|]. intros j y Hj _. left. split; [reflexivity|].
    destruct j as [|j]; cbn in Hj; [congruence|destruct j; discriminate].
  Qed.
End Order.

(* ---------- the loop ---------- *)

Section Loop.
  Variable g : grammar.
  Hypothesis WF : wf_facts g.
  Hypothesis WFX : wfx_facts g.
  Variable lim : limits.
  Variable ne : bset.
  Variable nf : list bset.

  Record inv2 (cur : nat) (sts : list lrstate) (tb : table) : Prop := {
    i2_inv : inv g lim ne nf cur sts tb;
    i2_cells : forall s c, s < cur -> c < symbol_count g -> cell_rec g sts tb s c;
    i2_good : forall s, s < length sts -> st_good g ne nf s (st_all (stn sts s))
  }.

  Lemma step_inv2 cur sts tb st sts2 tb2 :
    inv2 cur sts tb -> nth_error sts cur = Some st ->
    trans_loop g lim cur (seq 0 (symbol_count g))
               (update sts cur (mkSt (close_loop (S (address_space g)) g ne nf (st_all st) 0) (st_kernel st))) tb
      = inl (sts2, tb2) ->
    inv2 (S cur) sts2 tb2.
  Proof.
    intros I2 Est H. pose proof (i2_inv _ _ _ I2) as I.
    assert (cur < length sts) as Hcur by (eapply nth_error_Some_lt; eassumption).
    assert (stn sts cur = st) as Estn by (unfold stn; apply nth_error_nth; assumption).
    pose proof (iv_disc _ _ _ _ _ _ _ I cur Hcur) as D. rewrite Estn in D.
    destruct (close_disc g WF WFX ne nf cur st D) as (D1 & Hclo).
    set (res := close_loop (S (address_space g)) g ne nf (st_all st) 0) in *.
    set (sts1 := update sts cur (mkSt res (st_kernel st))) in *.
    assert (length sts1 = length sts) as L1 by apply update_length.
    assert (forall s, s <> cur -> stn sts1 s = stn sts s) as O1
        by (intros s Hs; apply stn_update_neq; congruence).
    assert (stn sts1 cur = mkSt res (st_kernel st)) as C1 by (apply stn_update_eq; assumption).
    assert (forall s, st_kernel (stn sts1 s) = st_kernel (stn sts s)) as K1.
    { intros s. destruct (Nat.eq_dec s cur) as [->|Hs]; [rewrite C1, Estn; reflexivity|rewrite O1 by assumption; reflexivity]. }
    assert (all_disc g sts1) as Hd1.
    { intros s Hs. destruct (Nat.eq_dec s cur) as [->|Hne]; [rewrite C1; assumption|].
      rewrite O1 by assumption. apply (iv_disc _ _ _ _ _ _ _ I). lia. }
    pose proof (iv_cap _ _ _ _ _ _ _ I) as Hcap. pose proof (iv_tbl _ _ _ _ _ _ _ I) as Htbl.
    assert (cur < length tb) as Hrow by lia.
    assert (cur < length sts1) as Hcur1 by lia.
    assert (NoDup (seq 0 (symbol_count g))) as Hnd by apply seq_NoDup.
    assert (forall c, In c (seq 0 (symbol_count g)) -> c < length (nth cur tb [])) as Hcols.
    { intros c Hc. apply in_seq in Hc. rewrite (iv_rows _ _ _ _ _ _ _ I cur Hrow). lia. }
    assert (forall c, In c (seq 0 (symbol_count g)) -> cell_at tb cur c = entry_default) as Hdef
        by (intros c _; apply (iv_def _ _ _ _ _ _ _ I); lia).
    assert (length sts1 <= state_cap lim) as Hcap1 by lia.
    destruct (trans_loop_spec g WF lim cur (seq 0 (symbol_count g)) sts1 tb sts2 tb2 Hd1 Hcur1 Hrow Hnd Hcols Hdef Hcap1 H)
      as (Hfr & Hd2 & Hcap2 & L2 & R2 & C2 & _).
    destruct (trans_loop_rec g WF lim cur (seq 0 (symbol_count g)) sts1 tb sts2 tb2 Hd1 Hcur1 Hrow Hnd Hcols Hdef Hcap1 H)
      as (G2 & F2).
    pose proof (fr_len _ _ Hfr) as Hl2.
    constructor.
    - eapply step_inv; eassumption.
    - intros s c Hs Hc. destruct (Nat.eq_dec s cur) as [->|Hne].
      + apply G2. apply in_seq. lia.
      + assert (s < cur) as Hlt by lia.
        eapply cell_rec_frame; [| | | |apply (i2_cells _ _ _ I2 s c Hlt Hc)].
        * lia.
        * intros s' Hs'. rewrite (fr_old _ _ Hfr s') by lia. apply K1.
        * rewrite (fr_old _ _ Hfr s) by lia. apply O1. assumption.
        * apply C2. left. assumption.
    - intros s Hs. destruct (Nat.lt_ge_cases s (length sts1)) as [Hlt|Hge].
      + rewrite (fr_old _ _ Hfr s Hlt). destruct (Nat.eq_dec s cur) as [->|Hne].
        * rewrite C1. cbn [st_all]. apply close_good. rewrite <- Estn. apply (i2_good _ _ _ I2). assumption.
        * rewrite O1 by assumption. apply (i2_good _ _ _ I2). lia.
      + apply fresh_good; [lia|]. apply F2; assumption.
  Qed.

  Lemma states_loop_inv2 fuel : forall cur sts tb sts' tb',
    inv2 cur sts tb -> states_loop fuel g lim ne nf cur sts tb = inl (sts', tb') ->
    inv2 (length sts') sts' tb'.
  Proof.
    induction fuel as [|f IH]; intros cur sts tb sts' tb' I H; cbn [states_loop] in H; [discriminate|].
    destruct (nth_error sts cur) as [st|] eqn:Est.
    - cbn zeta in H. destruct (Nat.ltb _ _); [discriminate|].
      destruct (trans_loop _ _ _ _ _ _) as [[sts2 tb2]|e] eqn:Et; [|discriminate].
      eapply IH; [|exact H]. eapply step_inv2; eassumption.
    - inversion H; subst sts' tb'. apply nth_error_None in Est. pose proof (iv_cur _ _ _ _ _ _ _ (i2_inv _ _ _ I)).
      replace (length sts) with cur by lia. assumption.
  Qed.

  Lemma init_inv2 : 0 < state_cap lim ->
    inv2 0 [mkSt [root_item g] [root_item g]] (repeat (repeat entry_default (symbol_count g)) (state_cap lim)).
  Proof.
    intros Hcap. constructor.
    - apply init_inv; assumption.
    - intros s c Hs. lia.
    - intros s Hs. cbn in Hs. assert (s = 0) as -> by lia. unfold stn; cbn [nth st_all]. apply init_good.
  Qed.
End Loop.

(* ---------- what the generator returns ---------- *)

Record gen_facts (g : grammar) (lim : limits) (sts : list lrstate) (tbl : table) : Prop := {
  gf_pos : 0 < length sts;
  gf_cap : length sts <= state_cap lim;
  gf_tbl : length tbl = state_cap lim;
  gf_rows : forall s, s < length tbl -> length (nth s tbl []) = symbol_count g;
  gf_disc : all_disc g sts;
  gf_closure : forall s, s < length sts ->
               closure_ok_list g (nterm_empty g) (nterm_first g (nterm_empty g)) (st_all (stn sts s)) = true;
  gf_cells : forall s c, s < length sts -> c < symbol_count g -> cell_rec g sts tbl s c;
  gf_good : forall s, s < length sts ->
            st_good g (nterm_empty g) (nterm_first g (nterm_empty g)) s (st_all (stn sts s))
}.

Theorem gen_with_facts : forall g lim sts tbl,
  grammar_wf g = true -> grammar_wf_extra g = true ->
  gen_with g lim = inl (sts, tbl) -> gen_facts g lim sts tbl.
Proof.
  intros g lim sts tbl Hwf Hwfx Hgen.
  pose proof (wf_facts_of _ Hwf) as WF. pose proof (wfx_facts_of _ Hwfx) as WFX.
  destruct (Nat.eq_dec (state_cap lim) 0) as [Hcap|Hcap]; [exfalso; eapply gen_with_cap0; eassumption|].
  set (ne := nterm_empty g). set (nf := nterm_first g ne).
  assert (inv2 g lim ne nf (length sts) sts tbl) as I2.
  { unfold gen_with in Hgen. fold ne nf in Hgen.
    eapply states_loop_inv2; [assumption|assumption| |exact Hgen]. apply init_inv2; [assumption|lia]. }
  pose proof (i2_inv _ _ _ _ _ _ _ I2) as I.
  constructor.
  - apply (iv_pos _ _ _ _ _ _ _ I).
  - apply (iv_cap _ _ _ _ _ _ _ I).
  - apply (iv_tbl _ _ _ _ _ _ _ I).
  - apply (iv_rows _ _ _ _ _ _ _ I).
  - apply (iv_disc _ _ _ _ _ _ _ I).
  - intros s Hs. apply (iv_fin _ _ _ _ _ _ _ I s Hs).
  - intros s c Hs Hc. apply (i2_cells _ _ _ _ _ _ _ I2); assumption.
  - apply (i2_good _ _ _ _ _ _ _ I2).
Qed.

Print Assumptions gen_with_facts.
