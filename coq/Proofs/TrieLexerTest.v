(* Instances of plain_lexer_correct, and the boundary of the theorem: with a regex term the builder is wrong. *)
Require Import Ctpg.Base.Prelude Ctpg.Model.Driver Ctpg.Model.Dfa Ctpg.Spec.Lang Ctpg.Valid.DfaValid Ctpg.Valid.SpecMatch
               Ctpg.Proofs.DfaValidSound Ctpg.Proofs.TrieLexerChain Ctpg.Proofs.TrieLexer.

(* "ab" 'a' "abc" "b" "ab" "" 'a' : duplicates, a character equal to a one-byte string, the empty string *)
Definition kw : list term_data :=
  [TString [97;98]; TChar 97; TString [97;98;99]; TString [98]; TString [97;98]; TString []; TChar 97].

Lemma kw_plain : Forall is_plain kw.
Proof. unfold kw. repeat (apply Forall_cons; [exact I|]). apply Forall_nil. Qed.

Definition kw_sm : dfa := match create_lexer kw with Some sm => sm | None => [] end.

Corollary kw_longest_match : forall s, bytes_ok s -> is_longest_match kw s (snd (dfa_match kw_sm false sp0 s)).
Proof.
  intros s Hs. apply (plain_lexer_correct' kw kw_sm s kw_plain); [vm_compute; reflexivity | exact Hs].
Qed.

(* "abx" -> term 0 ("ab", the first of the two equal strings), length 2; "\0" -> the empty string term *)
Eval vm_compute in snd (dfa_match kw_sm false sp0 [97;98;120]).    (* Some (0, 2) *)
Eval vm_compute in snd (dfa_match kw_sm false sp0 [97;120]).       (* Some (1, 1) *)
Eval vm_compute in snd (dfa_match kw_sm false sp0 [0]).            (* Some (5, 1) *)
Eval vm_compute in snd (dfa_match kw_sm false sp0 [120]).          (* None *)

(* more than four equal strings: the four slots overflow, the first listed term still wins *)
Definition dup6 : list term_data := repeat (TString [97;98]) 6 ++ [TChar 97; TString [97]].
Eval vm_compute in match create_lexer dup6 with Some sm => Some (d_rec (get sm 3), d_rec (get sm 1)) | None => None end.
   (* Some ([0;1;2;3], [6;7]) *)

(* the restriction to plain terms is needed: one regex term a*a and the in-place builder loses the word "a"
   (known finding D4); the specification says Some (0, 1) *)
Definition bad : list term_data := [TRegex (RCat (RStar (RSet (cs_single 97))) (RSet (cs_single 97)))].
Lemma regex_lexer_refuted :
  exists sm, create_lexer bad = Some sm /\
             snd (dfa_match sm false sp0 [97]) = None /\ spec_longest bad [97] = Some (0, 1).
Proof. eexists. split; [vm_compute; reflexivity|]. split; vm_compute; reflexivity. Qed.

Print Assumptions kw_longest_match.
