(* Word-level twins of the model's character sets (Model/Dfa.v: charset = list bool, mirror of regex::char_subset,
   a cbitset<256>) on the cbitset mirror of Model/Containers.v, with refinement theorems: the words of the C++
   bitset, abstracted with cb_abs, are the model's 256 booleans after every char_subset operation. *)
From Ctpg Require Import Base.Prelude Model.Dfa Model.Containers Proofs.ContainersBits Proofs.LRGenWordsRefine.
From Coq Require Import NArith Lia List Bool.
Import ListNotations.

(* ------------------------------------------------------------------ the word-level twins *)
Definition w_cs_empty : cbitset := cb_new 256.
Definition w_cs_single (c : nat) : res cbitset := cb_set w_cs_empty (N.of_nat c).
Definition w_cs_flip (b : cbitset) : cbitset := cb_flip_all b.
Definition w_cs_add_range (b : cbitset) (c1 c2 : nat) : res cbitset :=
  fold_left (fun acc i => match acc with Ok x => cb_set x (N.of_nat i) | r => r end) (seq c1 (S c2 - c1)) (Ok b).

Definition cs_rel (b : cbitset) (s : charset) : Prop := cb_wf b /\ cb_n b = 256%N /\ cb_abs b = s.

Lemma n256 : 256%N = N.of_nat 256.
Proof. reflexivity. Qed.

(* ------------------------------------------------------------------ 1. empty *)
Theorem w_cs_empty_rel : cs_rel w_cs_empty cs_empty.
Proof.
  unfold cs_rel, w_cs_empty, cs_empty. split; [apply cb_new_wf |]. split; [reflexivity |].
  rewrite cb_abs_new. reflexivity.
Qed.

(* ------------------------------------------------------------------ set(idx) *)
Lemma w_cs_set_rel : forall b s c, cs_rel b s -> c < 256 ->
  exists b', cb_set b (N.of_nat c) = Ok b' /\ cs_rel b' (update s c true).
Proof.
  intros b s c [Hwf [Hn Habs]] Hc.
  destruct (set_ok b c 256 Hwf Hn Hc) as [b' [Hs [Hwf' [Hn' [_ Ha']]]]].
  exists b'. split; [exact Hs |]. split; [exact Hwf' |]. split; [rewrite Hn'; exact Hn |].
  rewrite Ha', Habs. reflexivity.
Qed.

(* ------------------------------------------------------------------ 2. single *)
Theorem w_cs_single_rel : forall c, c < 256 -> exists b, w_cs_single c = Ok b /\ cs_rel b (cs_single c).
Proof.
  intros c Hc. unfold w_cs_single, cs_single. apply w_cs_set_rel; [apply w_cs_empty_rel | exact Hc].
Qed.

(* ------------------------------------------------------------------ 3. flip() of the whole set *)
Lemma flip_all_step : forall b, cb_flip_all b = cb_step b BFlipAll.
Proof. intros b. reflexivity. Qed.

Lemma cb_flip_all_wf : forall b, cb_wf b -> cb_wf (cb_flip_all b).
Proof. intros b Hwf. rewrite flip_all_step. apply cb_step_wf. exact Hwf. Qed.

Lemma cb_flip_all_n : forall b, cb_n (cb_flip_all b) = cb_n b.
Proof. intros b. reflexivity. Qed.

Lemma cb_flip_all_mem : forall b j, cb_wf b -> (j < cb_n b)%N -> cb_mem (cb_flip_all b) j = negb (cb_mem b j).
Proof.
  intros b j Hwf Hj. rewrite flip_all_step. rewrite (cb_step_mem b BFlipAll j Hwf Hj). reflexivity.
Qed.

Theorem cb_abs_flip_all : forall b, cb_wf b -> cb_abs (cb_flip_all b) = map negb (cb_abs b).
Proof.
  intros b Hwf. unfold cb_abs. rewrite cb_flip_all_n, map_map. apply map_ext_in.
  intros k Hk. apply in_seq in Hk. apply cb_flip_all_mem; [exact Hwf | lia].
Qed.

Theorem w_cs_flip_rel : forall b s, cs_rel b s -> cs_rel (w_cs_flip b) (cs_flip s).
Proof.
  intros b s [Hwf [Hn Habs]]. unfold w_cs_flip, cs_flip.
  split; [apply cb_flip_all_wf; exact Hwf |]. split; [rewrite cb_flip_all_n; exact Hn |].
  rewrite cb_abs_flip_all by exact Hwf. rewrite Habs. reflexivity.
Qed.

(* ------------------------------------------------------------------ 4. add_range *)
Lemma w_cs_fold_rel : forall l b s, cs_rel b s -> Forall (fun i => i < 256) l ->
  exists b', fold_left (fun acc i => match acc with Ok x => cb_set x (N.of_nat i) | r => r end) l (Ok b) = Ok b' /\
             cs_rel b' (fold_left (fun acc i => update acc i true) l s).
Proof.
  intros l. induction l as [| i l IH]; intros b s Hr Hl.
  - exists b. split; [reflexivity | exact Hr].
  - inversion Hl as [| i' l' Hi Hl']; subst i' l'.
    destruct (w_cs_set_rel b s i Hr Hi) as [b1 [Hs1 Hr1]].
    cbn [fold_left]. rewrite Hs1. apply IH; [exact Hr1 | exact Hl'].
Qed.

Theorem w_cs_add_range_rel : forall b s c1 c2, cs_rel b s -> c2 < 256 ->
  exists b', w_cs_add_range b c1 c2 = Ok b' /\ cs_rel b' (cs_add_range s c1 c2).
Proof.
  intros b s c1 c2 Hr Hc. unfold w_cs_add_range, cs_add_range. apply w_cs_fold_rel; [exact Hr |].
  apply Forall_forall. intros i Hi. apply in_seq in Hi. lia.
Qed.

(* ------------------------------------------------------------------ 5. test *)
Theorem w_cs_test_rel : forall b s c, cs_rel b s -> c < 256 -> cb_test b (N.of_nat c) = Ok (nth c s false).
Proof.
  intros b s c [Hwf [Hn Habs]] Hc. rewrite (test_abs b c 256 Hn Hc). rewrite Habs. reflexivity.
Qed.

(* ------------------------------------------------------------------ 6. check_idx *)
(* utils::char_to_idx keeps every index below 256, so this never happens *)
Theorem w_cs_out_of_range_throws : forall b s c, cs_rel b s -> 256 <= c -> cb_set b (N.of_nat c) = Throw.
Proof.
  intros b s c [Hwf [Hn Habs]] Hc. unfold cb_set. apply cb_upd_throw. rewrite Hn. lia.
Qed.

(* the same for test *)
Theorem w_cs_test_out_of_range_throws : forall b s c, cs_rel b s -> 256 <= c -> cb_test b (N.of_nat c) = Throw.
Proof.
  intros b s c [Hwf [Hn Habs]] Hc. apply cb_test_throws_iff_out_of_range. rewrite Hn. lia.
Qed.

(* ------------------------------------------------------------------ 7. "[^a-c]" *)
Definition ex_neg_abc : res cbitset :=
  match w_cs_add_range w_cs_empty 97 99 with Ok b => Ok (w_cs_flip b) | r => r end.

Example ex_neg_abc_words :
  ex_neg_abc = Ok {| cb_n := 256;
                     cb_data := [N.ones 64; (2 ^ 64 - 1 - 2 ^ 33 - 2 ^ 34 - 2 ^ 35)%N; N.ones 64; N.ones 64] |}.
Proof. vm_compute. reflexivity. Qed.

Example ex_neg_abc_abs :
  match ex_neg_abc with Ok b => cb_abs b | _ => [] end = cs_flip (cs_add_range cs_empty 97 99).
Proof. vm_compute. reflexivity. Qed.

(* 'a', 'b', 'c' are out, '`' and 'd' are in; the bytes 0xC8 and 0xFF are members: the whole-set flip is exact on the
   last word (256 is a multiple of 64, no padding bits) *)
Example ex_neg_abc_tests :
  match ex_neg_abc with
  | Ok b => map (fun c => cb_test b (N.of_nat c)) [96; 97; 98; 99; 100; 200; 255; 256]
  | _ => []
  end = [Ok true; Ok false; Ok false; Ok false; Ok true; Ok true; Ok true; Throw].
Proof. vm_compute. reflexivity. Qed.

Print Assumptions w_cs_flip_rel.
Print Assumptions w_cs_add_range_rel.
