(* For grammars built by the rule analysis ([analyze], Model/Grammar.v): a binary operator rule written WITHOUT an
   explicit precedence is "plain" in the sense of Spec/Grouping.v: its precedence and associativity are those of its
   operator. So for such rules [groups_by_precedence] speaks about the precedence levels the user declared for the
   operators. *)
Require Import Ctpg.Base.Prelude Ctpg.Model.Grammar Ctpg.Model.LRGen
               Ctpg.Spec.Cfg Ctpg.Spec.Conflict Ctpg.Spec.Grouping Ctpg.Proofs.GenAnalyze.

Lemma nth_map_in {A B} (f : A -> B) l k da db : k < length l -> nth k (map f l) db = f (nth k l da).
Proof.
  revert k; induction l as [|x l IH]; intros [|k] H; cbn in *; try lia; [reflexivity|]. apply IH. lia.
Qed.

Lemma nth_combine_in {A B} (l1 : list A) (l2 : list B) k da db :
  length l1 = length l2 -> nth k (combine l1 l2) (da, db) = (nth k l1 da, nth k l2 db).
Proof.
  revert l2 k; induction l1 as [|x l1 IH]; intros [|y l2] [|k] H; cbn in *; try discriminate; try reflexivity.
  apply IH. lia.
Qed.

Theorem analyze_rule_prec rg g k rr :
  analyze rg = Some g -> nth_error (rg_rules rg) k = Some rr ->
  nth k (rule_prec g) 0%Z =
    match rr_prec rr with
    | Some z => z
    | None => match last_term (nth k (right_sides g) []) with
              | Some t => nth t (term_prec g) 0%Z
              | None => 0%Z
              end
    end /\
  nth k (rule_assoc g) NoAssoc =
    match last_term (nth k (right_sides g) []) with
    | Some t => nth t (term_assoc g) NoAssoc
    | None => NoAssoc
    end.
Proof.
  unfold analyze. intros H Hk.
  set (all_rules := rg_rules rg ++ [mkRR id_fake_root [RNterm (rg_root rg)] None]) in *.
  destruct (map_opt _ all_rules) as [ls|] eqn:Els; [|discriminate].
  destruct (map_opt (fun r => map_opt _ (rr_r r)) all_rules) as [rs|] eqn:Ers; [|discriminate].
  inversion H; subst g; clear H. cbn [rule_prec rule_assoc right_sides term_prec term_assoc].
  assert (k < length (rg_rules rg)) as Hlt by (apply nth_error_Some; congruence).
  assert (length rs = length all_rules) as Hlen by (eapply map_opt_length; eassumption).
  assert (k < length all_rules) as Hlt' by (unfold all_rules; rewrite app_length; cbn; lia).
  assert (nth k all_rules (mkRR [] [] None) = rr) as Hrr.
  { unfold all_rules. rewrite app_nth1 by assumption. apply nth_error_nth. assumption. }
  split.
  - rewrite (nth_map_in _ _ k (mkRR [] [] None, None)).
    2:{ rewrite combine_length, map_length. lia. }
    rewrite nth_combine_in by (rewrite map_length; lia). cbn [fst snd]. rewrite Hrr.
    rewrite (nth_map_in last_term rs k []) by lia. reflexivity.
  - rewrite (nth_map_in _ (map last_term rs) k None) by (rewrite map_length; lia).
    rewrite (nth_map_in last_term rs k []) by lia. reflexivity.
Qed.

(* a binary operator rule (r_idx r, one of the user's rules) without explicit precedence is plain *)
Corollary analyze_binop_plain rg g i r e t rr :
  analyze rg = Some g -> binop_at g i r e t ->
  nth_error (rg_rules rg) r = Some rr -> rr_prec rr = None ->
  plain_rule g i t.
Proof.
  intros Ha (ri & Hi & Hr & Hl & Hrhs) Hrr Hnone.
  destruct (analyze_rule_prec rg g r rr Ha Hrr) as [Hp Has]. rewrite Hnone in Hp.
  assert (nth r (right_sides g) [] = [NT e; T t; NT e]) as E by (apply nth_error_nth; assumption).
  rewrite E in Hp, Has. cbn [last_term] in Hp, Has.
  unfold plain_rule, rule_prec_of, rule_assoc_of, term_prec_of, term_assoc_of, get_ri.
  rewrite (nth_error_nth _ _ dummy_ri Hi), Hr. split; assumption.
Qed.

Print Assumptions analyze_binop_plain.
