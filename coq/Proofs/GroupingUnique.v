(* G5, tree side: in the PURE OPERATOR FAMILY  e -> e t_i e (i < n) | atom  whose operator rules have no explicit
   precedence, a sentence has AT MOST ONE well grouped derivation tree ([well_grouped_unique]).
   With explicit rule precedences this is false ([unique_refuted_explicit_prec]): the conditions of [well_grouped] relate
   a node to its direct operands only, and a rule precedence that differs from the precedence of the rule's operator
   makes the relation "rule of x wins against operator t" non transitive.
   No tables and no parser in this file. *)
Require Import Ctpg.Base.Prelude Ctpg.Model.Grammar Ctpg.Model.LRGen
               Ctpg.Spec.Cfg Ctpg.Spec.Conflict Ctpg.Spec.Grouping
               Ctpg.Proofs.LRReflect Ctpg.Proofs.GroupingSpec.

Lemma app_cons_eq_cases {A} (l1 l2 r1 r2 : list A) a b :
  l1 ++ a :: r1 = l2 ++ b :: r2 ->
  (l1 = l2 /\ a = b /\ r1 = r2) \/
  (exists m, l2 = l1 ++ a :: m /\ r1 = m ++ b :: r2) \/
  (exists m, l1 = l2 ++ b :: m /\ r2 = m ++ a :: r1).
Proof.
  revert l2. induction l1 as [|x l1 IH]; intros [|y l2] H; cbn in H.
  - inversion H; subst. left. auto.
  - inversion H; subst. right. left. exists l2. auto.
  - inversion H; subst. right. right. exists l1. auto.
  - inversion H; subst. destruct (IH l2 H2) as [(E1 & E2 & E3)|[(m & E1 & E2)|(m & E1 & E2)]].
    + left. subst. auto.
    + right. left. exists m. subst. auto.
    + right. right. exists m. subst. auto.
Qed.

Section Unique.
  Variable g : grammar.
  Variable e atom : nat.

  (* the rules of e are the atom rule and binary operator rules; no rule occurs twice *)
  Hypothesis U_shape : forall r rhs, is_rule g r e rhs ->
    rhs = [T atom] \/ exists t, t <> atom /\ rhs = [NT e; T t; NT e].
  Hypothesis U_once : forall r r' rhs, is_rule g r e rhs -> is_rule g r' e rhs -> r = r'.
  (* no explicit precedences on the operator rules *)
  Hypothesis U_plain : forall i r t, binop_at g i r e t -> plain_rule g i t.

  (* operator x, standing to the left of operator t, is reduced first *)
  Definition wins (x t : nat) : Prop :=
    (term_prec_of g t < term_prec_of g x)%Z \/
    (term_prec_of g x = term_prec_of g t /\ term_assoc_of g x = Ltor).

  Lemma wins_dec x t : wins x t \/ ~ wins x t.
  Proof.
    unfold wins. destruct (Z.compare_spec (term_prec_of g x) (term_prec_of g t)) as [E|L|G].
    - destruct (term_assoc_of g x) eqn:A.
      + right. intros [H|[_ H]]; [lia|discriminate].
      + left. right. auto.
      + right. intros [H|[_ H]]; [lia|discriminate].
    - right. intros [H|[H _]]; lia.
    - left. left. lia.
  Qed.

  Lemma choice_reduce_wins i r x t : binop_at g i r e x -> sr_choice g i t = KReduce -> wins x t.
  Proof.
    intros Hb H. destruct (U_plain _ _ _ Hb) as [Hp Ha]. destruct (sr_choice_reduce_prec _ _ _ H) as [H1 H2].
    rewrite Hp in H1, H2. rewrite Ha in H2. unfold wins.
    destruct (Z.eq_dec (term_prec_of g x) (term_prec_of g t)) as [E|N]; [right; auto|left; lia].
  Qed.

  Lemma choice_shift_loses i r x t : binop_at g i r e x -> sr_choice g i t = KShift -> ~ wins x t.
  Proof.
    intros Hb H. destruct (U_plain _ _ _ Hb) as [Hp Ha]. destruct (sr_choice_shift_prec _ _ _ H) as [H1 H2].
    rewrite Hp in H1, H2. rewrite Ha in H2. unfold wins. intros [L|[E A]]; [lia|]. exact (H2 E A).
  Qed.

  (* the three "transitivity" facts; they fail when rule precedence and operator precedence differ *)
  Lemma wins_trans x y t : wins x y -> wins y t -> wins x t.
  Proof. unfold wins. intros [A|[A1 A2]] [B|[B1 B2]]; try (left; lia). right. split; [lia|assumption]. Qed.

  Lemma wins_right_spine x y t : wins x t -> ~ wins x y -> wins y t.
  Proof.
    unfold wins. intros Hxt Hxy.
    destruct (Z.compare_spec (term_prec_of g y) (term_prec_of g t)) as [E|L|G]; [|exfalso|left; lia].
    - destruct Hxt as [A|[A1 A2]].
      + exfalso. apply Hxy. left. lia.
      + exfalso. apply Hxy. right. split; [lia|assumption].
    - apply Hxy. left. destruct Hxt as [A|[A1 A2]]; lia.
  Qed.

  Lemma loses_left_spine t y z : ~ wins t y -> wins z y -> ~ wins t z.
  Proof.
    unfold wins. intros Hty Hzy [A|[A1 A2]].
    - apply Hty. left. destruct Hzy as [B|[B1 B2]]; lia.
    - destruct Hzy as [B|[B1 B2]].
      + apply Hty. left. lia.
      + apply Hty. right. split; [lia|assumption].
  Qed.

  Lemma loses_trans t y z : ~ wins t y -> ~ wins y z -> ~ wins t z.
  Proof.
    unfold wins. intros Hty Hyz [A|[A1 A2]].
    - destruct (Z.compare_spec (term_prec_of g y) (term_prec_of g z)) as [E|L|G].
      + apply Hty. left. lia.
      + destruct (Z.compare_spec (term_prec_of g t) (term_prec_of g y)) as [E'|L'|G'].
        * lia.
        * lia.
        * apply Hty. left. lia.
      + apply Hyz. left. lia.
    - destruct (Z.compare_spec (term_prec_of g t) (term_prec_of g y)) as [E'|L'|G'].
      + apply Hty. right. split; assumption.
      + apply Hyz. left. lia.
      + apply Hty. left. lia.
  Qed.

  (* ---------- the trees of e ---------- *)
  Lemma tree_shape tr : valid_tree g (NT e) tr ->
    (exists ra, tr = Node ra [Leaf atom] /\ is_rule g ra e [T atom]) \/
    (exists r L t R, tr = Node r [L; Leaf t; R] /\ is_rule g r e [NT e; T t; NT e] /\ t <> atom /\
                     valid_tree g (NT e) L /\ valid_tree g (NT e) R).
  Proof.
    intros Hv. inversion Hv as [|r l rhs ch Hrule Hch]; subst.
    destruct (U_shape _ _ Hrule) as [->|(t & Ht & ->)].
    - left. inversion Hch as [|? c ? ? Hc Hnil]; subst. inversion Hnil; subst. inversion Hc; subst.
      exists r. auto.
    - right. inversion Hch as [|? L ? ? HL Hch1]; subst. inversion Hch1 as [|? Lt ? ? Ht' Hch2]; subst.
      inversion Hch2 as [|? R ? ? HR Hnil]; subst. inversion Hnil; subst. inversion Ht'; subst.
      exists r, L, t, R. auto.
  Qed.

  Lemma wg_child r ch c : well_grouped g (Node r ch) -> In c ch -> well_grouped g c.
  Proof. intros H Hc n Hs. apply H. econstructor; eassumption. Qed.

  (* the operator at the root, if any, satisfies P *)
  Definition root_op (P : nat -> Prop) (tr : tree) : Prop :=
    match tr with Node _ [_; Leaf t; _] => P t | _ => True end.

  Lemma wg_operands r L t R :
    is_rule g r e [NT e; T t; NT e] -> valid_tree g (NT e) L -> valid_tree g (NT e) R ->
    well_grouped g (Node r [L; Leaf t; R]) ->
    root_op (fun x => wins x t) L /\ root_op (fun y => ~ wins t y) R.
  Proof.
    intros Hrule HL HR Hwg. apply binop_at_is_rule in Hrule. destruct Hrule as (i & Hb).
    pose proof (Hwg _ (sub_refl _)) as Hn. cbn [node_ok] in Hn. destruct (Hn i e Hb) as [Hl Hr]. split.
    - destruct (tree_shape _ HL) as [(ra & -> & _)|(r0 & L0 & t0 & R0 & -> & Hrule0 & _)]; [exact I|].
      cbn [root_op]. apply binop_at_is_rule in Hrule0. destruct Hrule0 as (i0 & Hb0).
      cbn [left_operand_ok] in Hl. eapply choice_reduce_wins; [exact Hb0|]. eapply Hl. exact Hb0.
    - destruct (tree_shape _ HR) as [(ra & -> & _)|(r2 & L2 & t2 & R2 & -> & Hrule2 & _)]; [exact I|].
      cbn [root_op]. apply binop_at_is_rule in Hrule2. destruct Hrule2 as (i2 & Hb2).
      cbn [right_operand_ok] in Hr. eapply choice_shift_loses; [exact Hb|]. eapply Hr. exact Hb2.
  Qed.

  (* every operator inside a left operand wins against the operator of the node; none inside a right operand is
     beaten by it *)
  Lemma left_all L : valid_tree g (NT e) L -> well_grouped g L ->
    forall t, root_op (fun x => wins x t) L -> forall x, In x (yield L) -> x <> atom -> wins x t.
  Proof.
    induction L as [a|r ch IH] using tree_ind'; intros Hv Hwg t Hroot x Hx Hxa.
    - inversion Hv.
    - destruct (tree_shape _ Hv) as [(ra & E & _)|(r0 & L0 & t0 & R0 & E & Hrule & Ht0 & HL0 & HR0)].
      + inversion E; subst. cbn in Hx. destruct Hx as [Hx|[]]. congruence.
      + inversion E; subst r0 ch. clear E. cbn [root_op] in Hroot.
        inversion IH as [|? ? IHL IH1]; subst. inversion IH1 as [|? ? _ IH2]; subst. inversion IH2 as [|? ? IHR _]; subst.
        destruct (wg_operands _ _ _ _ Hrule HL0 HR0 Hwg) as [HlL HrR].
        cbn [yield flat_map] in Hx. rewrite app_nil_r in Hx.
        apply in_app_or in Hx. destruct Hx as [Hx|Hx]; [|cbn in Hx; destruct Hx as [Hx|Hx]].
        * apply (IHL HL0 (wg_child _ _ _ Hwg (or_introl eq_refl)) t); try assumption.
          destruct (tree_shape _ HL0) as [(ra & -> & _)|(r1 & L1 & t1 & R1 & -> & _)]; [exact I|].
          cbn [root_op] in *. eapply wins_trans; eassumption.
        * subst x. assumption.
        * apply (IHR HR0 (wg_child _ _ _ Hwg (or_intror (or_intror (or_introl eq_refl)))) t); try assumption.
          destruct (tree_shape _ HR0) as [(ra & -> & _)|(r1 & L1 & t1 & R1 & -> & _)]; [exact I|].
          cbn [root_op] in *. eapply wins_right_spine; eassumption.
  Qed.

  Lemma right_all R : valid_tree g (NT e) R -> well_grouped g R ->
    forall t, root_op (fun y => ~ wins t y) R -> forall y, In y (yield R) -> y <> atom -> ~ wins t y.
  Proof.
    induction R as [a|r ch IH] using tree_ind'; intros Hv Hwg t Hroot y Hy Hya.
    - inversion Hv.
    - destruct (tree_shape _ Hv) as [(ra & E & _)|(r0 & L0 & t0 & R0 & E & Hrule & Ht0 & HL0 & HR0)].
      + inversion E; subst. cbn in Hy. destruct Hy as [Hy|[]]. congruence.
      + inversion E; subst r0 ch. clear E. cbn [root_op] in Hroot.
        inversion IH as [|? ? IHL IH1]; subst. inversion IH1 as [|? ? _ IH2]; subst. inversion IH2 as [|? ? IHR _]; subst.
        destruct (wg_operands _ _ _ _ Hrule HL0 HR0 Hwg) as [HlL HrR].
        cbn [yield flat_map] in Hy. rewrite app_nil_r in Hy.
        apply in_app_or in Hy. destruct Hy as [Hy|Hy]; [|cbn in Hy; destruct Hy as [Hy|Hy]].
        * apply (IHL HL0 (wg_child _ _ _ Hwg (or_introl eq_refl)) t); try assumption.
          destruct (tree_shape _ HL0) as [(ra & -> & _)|(r1 & L1 & t1 & R1 & -> & _)]; [exact I|].
          cbn [root_op] in *. eapply loses_left_spine; eassumption.
        * subst y. assumption.
        * apply (IHR HR0 (wg_child _ _ _ Hwg (or_intror (or_intror (or_introl eq_refl)))) t); try assumption.
          destruct (tree_shape _ HR0) as [(ra & -> & _)|(r1 & L1 & t1 & R1 & -> & _)]; [exact I|].
          cbn [root_op] in *. eapply loses_trans; eassumption.
  Qed.

  Lemma yield_binop r L t R : yield (Node r [L; Leaf t; R]) = yield L ++ t :: yield R.
  Proof. cbn. rewrite app_nil_r. reflexivity. Qed.

  Lemma yield_nonempty tr : valid_tree g (NT e) tr -> yield tr <> [].
  Proof.
    intros Hv. destruct (tree_shape _ Hv) as [(ra & -> & _)|(r & L & t & R & -> & _)].
    - discriminate.
    - rewrite yield_binop. intros E. apply app_eq_nil in E. destruct E as [_ E]. discriminate.
  Qed.

  (* G5 (uniqueness): two well grouped derivation trees of the same sentence are equal *)
  Theorem well_grouped_unique : forall tr tr',
    valid_tree g (NT e) tr -> valid_tree g (NT e) tr' ->
    well_grouped g tr -> well_grouped g tr' -> yield tr = yield tr' -> tr = tr'.
  Proof.
    induction tr as [a|r ch IH] using tree_ind'; intros tr' Hv Hv' Hwg Hwg' Hy; [inversion Hv|].
    destruct (tree_shape _ Hv) as [(ra & E & Hra)|(r0 & L & t & R & E & Hrule & Ht & HL & HR)].
    - (* atom *)
      inversion E; subst ra ch. clear E.
      destruct (tree_shape _ Hv') as [(ra' & -> & Hra')|(r' & L' & t' & R' & -> & _ & _ & HL' & _)].
      + f_equal. eapply U_once; eassumption.
      + exfalso. rewrite yield_binop in Hy. cbn in Hy.
        destruct (yield L') as [|x [|? ?]] eqn:EL; [exact (yield_nonempty _ HL' EL)| |]; cbn in Hy; discriminate.
    - inversion E; subst r0 ch. clear E.
      inversion IH as [|? ? IHL IH1]; subst. inversion IH1 as [|? ? _ IH2]; subst. inversion IH2 as [|? ? IHR _]; subst.
      destruct (tree_shape _ Hv') as [(ra' & -> & Hra')|(r' & L' & t' & R' & -> & Hrule' & Ht' & HL' & HR')].
      + exfalso. rewrite yield_binop in Hy. cbn in Hy.
        destruct (yield L) as [|x [|? ?]] eqn:EL; [exact (yield_nonempty _ HL EL)| |]; cbn in Hy; discriminate.
      + rewrite !yield_binop in Hy.
        pose proof (wg_child _ _ _ Hwg (or_introl eq_refl)) as WL.
        pose proof (wg_child _ _ _ Hwg (or_intror (or_intror (or_introl eq_refl)))) as WR.
        pose proof (wg_child _ _ _ Hwg' (or_introl eq_refl)) as WL'.
        pose proof (wg_child _ _ _ Hwg' (or_intror (or_intror (or_introl eq_refl)))) as WR'.
        destruct (wg_operands _ _ _ _ Hrule HL HR Hwg) as [OL OR].
        destruct (wg_operands _ _ _ _ Hrule' HL' HR' Hwg') as [OL' OR'].
        destruct (app_cons_eq_cases _ _ _ _ _ _ Hy) as [(E1 & E2 & E3)|[(m & E1 & E2)|(m & E1 & E2)]].
        * subst t'. rewrite (IHL L' HL HL' WL WL' E1), (IHR R' HR HR' WR WR' E3).
          f_equal. eapply U_once; eassumption.
        * (* t lies inside L' and t' inside R *)
          exfalso.
          assert (wins t t') as W.
          { apply (left_all L' HL' WL' t' OL' t); [|assumption]. rewrite E1. apply in_or_app. right. left. reflexivity. }
          assert (~ wins t t') as NW.
          { apply (right_all R HR WR t OR t'); [|assumption]. rewrite E2. apply in_or_app. right. left. reflexivity. }
          exact (NW W).
        * (* t' lies inside L and t inside R' *)
          exfalso.
          assert (wins t' t) as W.
          { apply (left_all L HL WL t OL t'); [|assumption]. rewrite E1. apply in_or_app. right. left. reflexivity. }
          assert (~ wins t' t) as NW.
          { apply (right_all R' HR' WR' t' OR' t); [|assumption]. rewrite E2. apply in_or_app. right. left. reflexivity. }
          exact (NW W).
  Qed.
End Unique.

Print Assumptions well_grouped_unique.
