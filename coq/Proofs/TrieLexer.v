(* The in-place merging lexer builder is correct on plain term sets.

   In general the builder of Model/Dfa.v is wrong (in-place merging is not a subset construction: see
   Proofs/DfaValidTest.v, pattern a*a), which is why Props/Properties_C04.v states longest-match tokenisation only
   for automata accepted by the validator [lexer_ok].  For term sets that consist of character terms and string
   terms only (keywords, punctuation) no per-instance validation is needed: [create_lexer] succeeds and the
   automaton satisfies the conclusion of [C04_validated] on every byte string.

   The part of the automaton reachable from state 0 is a trie: walks from the root are injective, and the first
   recognition slot of the state reached by a byte string x is the least index of a term whose string is x. *)
Require Import Ctpg.Base.Prelude Ctpg.Model.Driver Ctpg.Model.Dfa Ctpg.Spec.Lang Ctpg.Valid.DfaValid
               Ctpg.Proofs.DfaValidSound Ctpg.Proofs.BuilderSize Ctpg.Proofs.BuilderTerm
               Ctpg.Proofs.TrieLexerBase Ctpg.Proofs.TrieLexerChain Ctpg.Proofs.TrieLexerMerge.

(* ---------- least index of a word in a list of words ---------- *)
Fixpoint first_idx_from (i : nat) (x : list nat) (ws : list (list nat)) : option nat :=
  match ws with
  | [] => None
  | w :: t => if list_eqb Nat.eqb x w then Some i else first_idx_from (S i) x t
  end.
Definition first_idx (x : list nat) (ws : list (list nat)) : option nat := first_idx_from 0 x ws.

Lemma first_idx_from_snoc : forall ws i x w,
  first_idx_from i x (ws ++ [w]) =
  match first_idx_from i x ws with
  | Some a => Some a
  | None => if list_eqb Nat.eqb x w then Some (i + length ws) else None
  end.
Proof.
  induction ws as [|w0 ws IH]; intros i x w; cbn [app first_idx_from length].
  - rewrite Nat.add_0_r. reflexivity.
  - destruct (list_eqb Nat.eqb x w0); auto. rewrite IH. replace (S i + length ws) with (i + S (length ws)) by lia.
    reflexivity.
Qed.

Lemma first_idx_snoc : forall ws x w,
  first_idx x (ws ++ [w]) =
  match first_idx x ws with
  | Some a => Some a
  | None => if list_eqb Nat.eqb x w then Some (length ws) else None
  end.
Proof. intros. unfold first_idx. rewrite first_idx_from_snoc. reflexivity. Qed.

Lemma first_idx_from_some : forall ws i x k, first_idx_from i x ws = Some k ->
  i <= k /\ nth_error ws (k - i) = Some x /\ forall j, j < k - i -> nth_error ws j <> Some x.
Proof.
  induction ws as [|w ws IH]; intros i x k H; cbn [first_idx_from] in H; [discriminate|].
  destruct (list_eqb Nat.eqb x w) eqn:E.
  - inversion H; subst. apply list_eqb_nat_eq in E. subst. rewrite Nat.sub_diag. repeat split; auto. intros; lia.
  - apply IH in H. destruct H as (H1 & H2 & H3). split; [lia|].
    replace (k - i) with (S (k - S i)) by lia. split; [exact H2|].
    intros [|j] Hj; cbn [nth_error].
    + intros C. inversion C; subst. rewrite (proj2 (list_eqb_nat_eq x x) eq_refl) in E. discriminate.
    + apply H3. lia.
Qed.

Lemma first_idx_from_none : forall ws i x, first_idx_from i x ws = None -> ~ In x ws.
Proof.
  induction ws as [|w ws IH]; intros i x H; cbn [first_idx_from] in H; [intros []|].
  destruct (list_eqb Nat.eqb x w) eqn:E; [discriminate|].
  intros [C|C].
  - subst. rewrite (proj2 (list_eqb_nat_eq x x) eq_refl) in E. discriminate.
  - eapply IH; eauto.
Qed.

(* ---------- the trie invariant ---------- *)
(* what the matcher sees after reading x from the root *)
Definition obs (sm : dfa) (x : list nat) : option nat :=
  match walk sm 0 x with Some q => hd_error (d_rec (get sm q)) | None => None end.

Definition okb (x : list nat) : Prop := Forall (fun c => c < 256) x.

Definition trie_inv (sm : dfa) (ws : list (list nat)) : Prop :=
  0 < length sm /\ wf p256 sm /\
  (forall q m, In m (d_merged (get sm q)) -> m < length sm) /\
  (forall x y q, walk sm 0 x = Some q -> walk sm 0 y = Some q -> x = y) /\
  (forall x, okb x -> obs sm x = first_idx x ws).

(* a chain alone *)
Lemma chain_slot_rule : forall W idx x, okb x ->
  (x = vpre W -> hd_error (chain_rec W idx) = if list_eqb Nat.eqb x W then Some idx else None) /\
  (x <> vpre W -> list_eqb Nat.eqb x W = false).
Proof.
  intros W idx x Hx. split.
  - intros ->. unfold chain_rec. destruct (all_ok W) eqn:E.
    + rewrite all_ok_vpre by assumption. rewrite (proj2 (list_eqb_nat_eq W W) eq_refl). reflexivity.
    + destruct (list_eqb Nat.eqb (vpre W) W) eqn:E2; auto. apply list_eqb_nat_eq in E2.
      exfalso. eapply vpre_not_ok; eauto.
  - intros Hne. destruct (list_eqb Nat.eqb x W) eqn:E2; auto. apply list_eqb_nat_eq in E2. subst x.
    exfalso. apply Hne. symmetry. apply all_ok_vpre. apply all_ok_Forall. assumption.
Qed.

Lemma chain_obs : forall sm N from W idx x,
  chain sm N from (vpre W) (chain_rec W idx) -> okb x ->
  match walk sm from x with Some q => hd_error (d_rec (get sm q)) | None => None end =
  if list_eqb Nat.eqb x W then Some idx else None.
Proof.
  intros sm N from W idx x Hc Hx. destruct (chain_slot_rule W idx x Hx) as [R1 R2].
  destruct (walk sm from x) as [q|] eqn:Ew.
  - rewrite (chain_walk_rec _ _ _ _ _ _ _ Hc Ew).
    destruct (list_eqb Nat.eqb x (vpre W)) eqn:E.
    + apply list_eqb_nat_eq in E. auto.
    + cbn [hd_error]. rewrite R2; [reflexivity|]. intros C. subst x.
      rewrite (proj2 (list_eqb_nat_eq _ _) eq_refl) in E. discriminate.
  - rewrite R2; [reflexivity|]. intros C. subst x. destruct (chain_walk_full _ _ _ _ _ Hc) as (q & Hq). congruence.
Qed.

Lemma walk_old : forall a b, wf p256 a -> (forall q, q < length a -> get b q = get a q) ->
  forall x q, q < length a -> walk b q x = walk a q x.
Proof.
  intros a b W H. induction x as [|c x IH]; intros q Hq; cbn [walk]; auto.
  assert (E : tr b q c = tr a q c) by (unfold tr; rewrite H by assumption; reflexivity).
  rewrite E. destruct (tr a q c) as [q1|] eqn:E1; auto. apply IH. eapply tr_bound; eauto.
Qed.

(* ---------- one more term ---------- *)
Lemma add_term_inv : forall sm ws t sm',
  (sm = [] /\ ws = [] \/ trie_inv sm ws) -> is_plain t ->
  add_term sm t (length ws) = Some sm' ->
  trie_inv sm' (ws ++ [word_of t]).
Proof.
  intros sm ws t sm' Hinv Hpl H.
  destruct (regex_of_plain t Hpl) as (c0 & w & HW & Hre). rewrite HW.
  set (Wd := c0 :: w) in *. set (idx := length ws) in *.
  assert (Wsm : wf p256 sm).
  { destruct Hinv as [[-> _]|(_ & Wf & _)]; [apply wf_nil | assumption]. }
  unfold add_term in H. rewrite Hre in H.
  destruct (build (regex_of_word c0 w) sm) as [[sm1 s]|] eqn:EB; [|discriminate].
  assert (W1 : wf p256 sm1).
  { eapply (build_wf p256 eq_refl); [apply sets_ok_word | exact Wsm | exact EB]. }
  apply build_word in EB. destruct EB as [-> CB].
  assert (HWne : Wd <> []) by (unfold Wd; discriminate).
  pose proof (chain_of_built sm sm1 Wd idx HWne CB) as CC. cbv zeta in CC.
  change (mark_end_states sm1 (mkSl (length sm) (2 * S (length w))) idx) with (marked_chain sm sm1 Wd idx) in H.
  set (sm2 := marked_chain sm sm1 Wd idx) in *.
  assert (W2 : wf p256 sm2).
  { eapply (msteps_wf p256 eq_refl); [apply mark_end_states_msteps | exact W1]. }
  destruct CC as (C1 & C2 & C3 & C4).
  unfold b_alt in H. cbn [sl_start sl_n] in H.
  destruct (merge (merge_fuel sm2) sm2 0 (length sm) true true) as [smm|] eqn:EM; [|discriminate].
  cbn [option_map fst] in H. inversion H; subst smm. clear H.
  assert (Hlen : 0 < length Wd) by (unfold Wd; cbn; lia).
  destruct Hinv as [[-> ->]|(I1 & I2 & I3 & I4 & I5)].
  - (* the first term: the automaton is the chain itself *)
    cbn [length] in *. unfold merge_fuel in EM. rewrite merge_S in EM. cbn [Nat.eqb] in EM. inversion EM; subst sm'.
    cbn [app]. split; [lia|]. split; [assumption|].
    split. { intros q m Hm. apply (C3 q m); [lia | assumption]. }
    split. { intros x y q. apply (chain_walk_inj _ _ _ _ _ _ _ _ C4). }
    intros x Hx. unfold obs. rewrite (chain_obs _ _ _ _ _ _ C4 Hx).
    unfold first_idx. cbn [first_idx_from]. reflexivity.
  - (* a later term: its chain is merged into the trie *)
    set (N := length sm) in *.
    assert (Wk : forall x q, q < N -> walk sm2 q x = walk sm q x).
    { intros x q Hq. apply walk_old; assumption. }
    destruct (merge_chain (vpre Wd) (merge_fuel sm2) sm2 0 N [] (chain_rec Wd idx) N sm')
      as (P1 & P2 & P3 & P4 & P5 & P6 & P7); auto.
    { intros x q Hq. rewrite Wk in Hq by assumption. eapply walk_bound; eauto. }
    { intros x y q. rewrite !Wk by assumption. apply I4. }
    { intros q m Hq Hm. rewrite C2 in Hm by assumption. apply I3 in Hm. assumption. }
    cbn [app] in *.
    (* every walk of the result is an old walk or a walk along the new chain *)
    assert (Hold : forall x q, walk sm2 0 x = Some q -> q < N).
    { intros x q Hq. rewrite Wk in Hq by assumption. eapply walk_bound; eauto. }
    assert (Hnew : forall x, walk sm2 0 x = None -> walk sm' 0 x = walk sm2 N x).
    { intros x Hx. apply (P3 x x); auto. }
    split; [lia|].
    split. { eapply (merge_wf p256 eq_refl); eauto. }
    split. { intros q m Hm. rewrite P1. destruct (P7 _ _ Hm) as [Hm'|Hm']; auto.
             destruct (Nat.lt_ge_cases q N) as [Hq|Hq].
             - rewrite C2 in Hm' by assumption. apply I3 in Hm'. lia.
             - eapply C3; eauto. }
    split.
    { intros x y q Hx Hy.
      destruct (walk sm2 0 x) as [qx|] eqn:Ex; destruct (walk sm2 0 y) as [qy|] eqn:Ey.
      - rewrite (P2 _ _ Ex) in Hx. rewrite (P2 _ _ Ey) in Hy. inversion Hx; inversion Hy; subst.
        rewrite Wk in Ex, Ey by assumption. eapply I4; eauto.
      - rewrite (P2 _ _ Ex) in Hx. rewrite (Hnew _ Ey) in Hy. inversion Hx; subst.
        pose proof (Hold _ _ Ex). pose proof (chain_walk_lo _ _ _ _ _ _ _ C4 Hy). lia.
      - rewrite (Hnew _ Ex) in Hx. rewrite (P2 _ _ Ey) in Hy. inversion Hy; subst.
        pose proof (Hold _ _ Ey). pose proof (chain_walk_lo _ _ _ _ _ _ _ C4 Hx). lia.
      - rewrite (Hnew _ Ex) in Hx. rewrite (Hnew _ Ey) in Hy. eapply chain_walk_inj; eauto. }
    intros x Hx. rewrite first_idx_snoc. fold idx.
    destruct (chain_slot_rule Wd idx x Hx) as [R1 R2].
    pose proof (I5 x Hx) as Ho. unfold obs in Ho. rewrite <- (Wk x 0) in Ho by assumption.
    unfold obs. destruct (walk sm2 0 x) as [q|] eqn:Ex.
    + pose proof (Hold _ _ Ex) as Hq. rewrite (P2 _ _ Ex). rewrite (P6 q Hq).
      rewrite <- (C2 q Hq) in Ho. unfold reaches.
      destruct (walk sm2 0 (vpre Wd)) as [qu|] eqn:Eu.
      * destruct (Nat.eqb qu q) eqn:Eq.
        -- apply Nat.eqb_eq in Eq. subst qu.
           assert (x = vpre Wd).
           { rewrite Wk in Ex, Eu by assumption. eapply I4; eauto. }
           rewrite fold_add_conflicted_hd, Ho. rewrite (R1 H). reflexivity.
        -- rewrite Ho. destruct (first_idx x ws); auto. rewrite R2; auto.
           intros C. subst x. rewrite Ex in Eu. inversion Eu; subst. rewrite Nat.eqb_refl in Eq. discriminate.
      * rewrite Ho. destruct (first_idx x ws); auto. rewrite R2; auto. intros C. subst x. congruence.
    + rewrite (Hnew _ Ex). rewrite <- Ho.
      rewrite <- (chain_obs _ _ _ _ _ _ C4 Hx).
      destruct (walk sm2 N x) as [q|] eqn:Eq; auto.
      pose proof (chain_walk_lo _ _ _ _ _ _ _ C4 Eq) as Hq.
      destruct (P5 q Hq) as (_ & Hr & _). rewrite Hr. reflexivity.
Qed.

Lemma create_lexer_aux_inv : forall ts done sm sm',
  Forall is_plain ts ->
  (sm = [] /\ done = [] \/ trie_inv sm (map word_of done)) ->
  create_lexer_aux ts (length done) sm = Some sm' ->
  (sm' = [] /\ done ++ ts = [] \/ trie_inv sm' (map word_of (done ++ ts))).
Proof.
  induction ts as [|t ts IH]; intros done sm sm' Hpl Hinv H; cbn [create_lexer_aux] in H.
  - inversion H; subst. rewrite app_nil_r. exact Hinv.
  - inversion Hpl as [|t' ts' Ht Hts]; subst.
    destruct (add_term sm t (length done)) as [sm1|] eqn:EA; [|discriminate].
    assert (Inv1 : trie_inv sm1 (map word_of (done ++ [t]))).
    { rewrite map_app. cbn [map]. apply (add_term_inv sm (map word_of done) t sm1); auto.
      - destruct Hinv as [[-> ->]|Hinv]; auto.
      - rewrite map_length. exact EA. }
    replace (S (length done)) with (length (done ++ [t])) in H by (rewrite app_length; cbn; lia).
    apply (IH (done ++ [t])) in H; auto.
    rewrite <- app_assoc in H. exact H.
Qed.

(* (2) the trie invariant of the lexer automaton of a non-empty plain term set *)
Theorem plain_lexer_trie : forall ts sm,
  Forall is_plain ts -> ts <> [] -> create_lexer ts = Some sm -> trie_inv sm (map word_of ts).
Proof.
  intros ts sm Hpl Hne H. unfold create_lexer in H.
  destruct (create_lexer_aux_inv ts [] [] sm Hpl (or_introl (conj eq_refl eq_refl)) H) as [[_ E]|Hinv].
  - cbn [app] in E. contradiction.
  - exact Hinv.
Qed.

(* ---------- what plain terms match ---------- *)
Lemma matches_word : forall w c0 x,
  matches (regex_of_word c0 w) x <-> x = c0 :: w /\ okb (c0 :: w).
Proof.
  induction w as [|c w IH] using rev_ind; intros c0 x.
  - cbn [regex_of_word fold_left]. split.
    + intros H. inversion H; subst. rewrite cs_single_nth in H1. apply andb_true_iff in H1.
      destruct H1 as [H1 H2]. apply Nat.eqb_eq in H1. apply Nat.ltb_lt in H2. subst.
      split; auto. unfold okb. auto.
    + intros [-> H]. inversion H; subst. constructor. rewrite cs_single_nth, Nat.eqb_refl.
      apply Nat.ltb_lt. assumption.
  - rewrite regex_of_word_snoc. split.
    + intros H. inversion H; subst. apply IH in H2. destruct H2 as [-> Ho].
      inversion H4; subst. rewrite cs_single_nth in H1. apply andb_true_iff in H1.
      destruct H1 as [H1 H2]. apply Nat.eqb_eq in H1. apply Nat.ltb_lt in H2. subst.
      split; [reflexivity|]. unfold okb in *. change (c0 :: w ++ [c]) with ((c0 :: w) ++ [c]).
      apply Forall_app. split; auto.
    + intros [-> H]. unfold okb in H. change (c0 :: w ++ [c]) with ((c0 :: w) ++ [c]) in *.
      apply Forall_app in H. destruct H as [H1 H2]. constructor.
      * apply IH. split; auto.
      * inversion H2; subst. constructor. rewrite cs_single_nth, Nat.eqb_refl. apply Nat.ltb_lt. assumption.
Qed.

Lemma plain_term_matches : forall t x, is_plain t ->
  (term_matches t x <-> x = word_of t /\ okb (word_of t)).
Proof.
  intros t x H. destruct (regex_of_plain t H) as (c0 & w & HW & Hre).
  unfold term_matches. rewrite Hre, HW. apply matches_word.
Qed.

(* ---------- the matcher on a trie ---------- *)
Section Run.
Variable ts : list term_data.
Variable sm : dfa.
Hypothesis Hpl : Forall is_plain ts.
Hypothesis Hinv : trie_inv sm (map word_of ts).

Lemma plain_nth : forall j t, nth_error ts j = Some t -> is_plain t.
Proof. intros j t H. rewrite Forall_forall in Hpl. apply Hpl. eapply nth_error_In; eauto. Qed.

(* the slots of the state reached by pre say which term, if any, matches pre *)
Lemma slot_best : forall pre rest q rt,
  okb pre -> walk sm 0 pre = Some q ->
  best ts (pre ++ rest) (length pre) rt ->
  best ts (pre ++ rest) (S (length pre)) (rec_step (get sm q) (length pre) rt).
Proof.
  intros pre rest q rt Hok Hw Hb. destruct Hinv as (_ & _ & _ & _ & I5).
  pose proof (I5 pre Hok) as Ho. unfold obs in Ho. rewrite Hw in Ho. unfold rec_step.
  destruct (d_rec (get sm q)) as [|t0 l]; cbn [hd_error] in Ho; symmetry in Ho.
  - eapply best_extend; eauto. intros len' j t Ha Hb' Hj Hm.
    assert (len' = length pre) by lia. subst len'. rewrite firstn_pre in Hm.
    apply (plain_term_matches t pre (plain_nth _ _ Hj)) in Hm. destruct Hm as [Hm _].
    apply first_idx_from_none in Ho. apply Ho. rewrite Hm. apply in_map. eapply nth_error_In; eauto.
  - apply first_idx_from_some in Ho. rewrite Nat.sub_0_r in Ho. destruct Ho as (_ & Hn & Hless).
    cbn [best]. split; [lia|]. split; [|split].
    + rewrite nth_error_map in Hn. destruct (nth_error ts t0) as [t|] eqn:Et; [|discriminate].
      cbn [option_map] in Hn. inversion Hn. exists t. split; auto. rewrite firstn_pre.
      apply (plain_term_matches t _ (plain_nth _ _ Et)). split; [reflexivity|]. rewrite H0. assumption.
    + intros j t Hj Ht Hm. rewrite firstn_pre in Hm.
      apply (plain_term_matches t pre (plain_nth _ _ Ht)) in Hm. destruct Hm as [Hm _].
      apply (Hless j Hj). rewrite nth_error_map, Ht. cbn [option_map]. congruence.
    + intros; lia.
Qed.

Lemma run_trie : forall rest pre q rt,
  okb (pre ++ rest) -> walk sm 0 pre = Some q ->
  best ts (pre ++ rest) (length pre) rt ->
  is_longest_match ts (pre ++ rest) (fst (run sm q (length pre) rest rt)).
Proof.
  induction rest as [|c rest IH]; intros pre q rt Hok Hw Hb.
  - pose proof Hinv as (I1 & I2 & _ & _ & I5).
    assert (Hq : q < length sm) by (eapply walk_bound; eauto).
    assert (Hok' : okb pre) by (rewrite app_nil_r in Hok; assumption).
    pose proof (slot_best pre [] q rt Hok' Hw Hb) as Hb1.
    rewrite run_eq. destruct (nth_error sm q) as [d|] eqn:Ed; [|apply nth_error_None in Ed; lia].
    rewrite <- (get_nth_error _ _ _ Ed). cbn [fst]. apply best_final. rewrite app_length. cbn [length].
    rewrite Nat.add_0_r. exact Hb1.
  - pose proof Hinv as (I1 & I2 & _ & _ & I5).
    assert (Hq : q < length sm) by (eapply walk_bound; eauto).
    assert (Hok' : okb pre) by (unfold okb in *; apply Forall_app in Hok; tauto).
    pose proof (slot_best pre (c :: rest) q rt Hok' Hw Hb) as Hb1.
    rewrite run_eq. destruct (nth_error sm q) as [d|] eqn:Ed; [|apply nth_error_None in Ed; lia].
    rewrite <- (get_nth_error _ _ _ Ed). fold (tr sm q c).
    assert (Es : pre ++ c :: rest = (pre ++ [c]) ++ rest) by (rewrite <- app_assoc; reflexivity).
    assert (El : length (pre ++ [c]) = S (length pre)) by (rewrite app_length; cbn; lia).
    destruct (tr sm q c) as [nx|] eqn:Et.
    + rewrite Es, <- El. apply IH.
      * rewrite <- Es. assumption.
      * rewrite walk_app, Hw. cbn [walk]. rewrite Et. reflexivity.
      * rewrite El, <- Es. exact Hb1.
    + cbn [fst]. apply best_final. eapply best_extend; [exact Hb1 | rewrite app_length; cbn; lia |].
      intros len' j t Ha Hb' Hj Hm.
      apply (plain_term_matches t _ (plain_nth _ _ Hj)) in Hm. destruct Hm as [Hm Hmo].
      assert (Hin : In (word_of t) (map word_of ts)) by (apply in_map; eapply nth_error_In; eauto).
      destruct (first_idx (word_of t) (map word_of ts)) as [k|] eqn:Ek.
      2:{ apply first_idx_from_none in Ek. contradiction. }
      pose proof (I5 _ Hmo) as Ho. rewrite Ek in Ho. unfold obs in Ho.
      rewrite <- Hm in Ho. rewrite Es, firstn_long in Ho by lia. rewrite <- app_assoc in Ho. cbn [app] in Ho.
      rewrite walk_app, Hw in Ho. cbn [walk] in Ho. rewrite Et in Ho. discriminate.
Qed.
End Run.

(* ---------- MAIN ---------- *)
(* For every term set made of character terms and string terms only - duplicates, the empty string (which the
   library treats as the one-byte string "\0") and any number of equal strings included - the builder succeeds
   and the automaton computes the longest match with first-listed priority on every byte string: the conclusion
   of Props/Properties_C04.v [C04_validated], without the hypothesis [lexer_ok sm ts = true]. *)
Theorem plain_lexer_correct : forall ts,
  Forall is_plain ts ->
  exists sm, create_lexer ts = Some sm /\
             forall s, bytes_ok s -> is_longest_match ts s (snd (dfa_match sm false sp0 s)).
Proof.
  intros ts Hpl. destruct (create_lexer ts) as [sm|] eqn:E; [|exfalso; eapply create_lexer_total; eauto].
  exists sm. split; auto. intros s Hs. rewrite dfa_match_run.
  destruct ts as [|t ts'].
  - unfold create_lexer in E. cbn in E. inversion E; subst. rewrite run_eq. cbn.
    intros len' j t _ Hj. destruct j; discriminate.
  - assert (Hinv : trie_inv sm (map word_of (t :: ts'))) by (apply plain_lexer_trie; auto; discriminate).
    apply (run_trie (t :: ts') sm Hpl Hinv s [] 0 None); auto.
    cbn. intros; lia.
Qed.

(* the same statement in the form of C04_validated *)
Corollary plain_lexer_correct' : forall ts sm s,
  Forall is_plain ts -> create_lexer ts = Some sm -> bytes_ok s ->
  is_longest_match ts s (snd (dfa_match sm false sp0 s)).
Proof.
  intros ts sm s Hpl E Hs. destruct (plain_lexer_correct ts Hpl) as (sm0 & E0 & H).
  rewrite E in E0. inversion E0; subst. auto.
Qed.

(* (1) *)
Corollary plain_lexer_total : forall ts, Forall is_plain ts -> exists sm, create_lexer ts = Some sm.
Proof. intros ts H. destruct (plain_lexer_correct ts H) as (sm & E & _). eauto. Qed.

(* the verdict does not depend on the verbose flag nor on the source point *)
Corollary plain_lexer_correct_any : forall ts sm vb p s,
  Forall is_plain ts -> create_lexer ts = Some sm -> bytes_ok s ->
  is_longest_match ts s (snd (dfa_match sm vb p s)).
Proof.
  intros ts sm vb p s Hpl E Hs. rewrite (dfa_match_verdict_independent sm vb false p sp0 s).
  apply plain_lexer_correct'; assumption.
Qed.

(* the matcher never indexes the automaton out of range (for the empty term set the automaton is empty and
   state 0 itself is out of range) *)
Lemma run_no_oob : forall sm, wf p256 sm -> forall rest q len rt, q < length sm -> snd (run sm q len rest rt) = false.
Proof.
  intros sm W. induction rest as [|c rest IH]; intros q len rt Hq; rewrite run_eq;
    (destruct (nth_error sm q) as [d|] eqn:Ed; [|apply nth_error_None in Ed; lia]); auto.
  rewrite <- (get_nth_error _ _ _ Ed). fold (tr sm q c). destruct (tr sm q c) as [nx|] eqn:Et; auto.
  apply IH. eapply tr_bound; eauto.
Qed.

Theorem plain_lexer_no_oob : forall ts sm s,
  Forall is_plain ts -> ts <> [] -> create_lexer ts = Some sm -> dfa_match_oob sm s = false.
Proof.
  intros ts sm s Hpl Hne E. rewrite dfa_match_oob_run.
  destruct (plain_lexer_trie ts sm Hpl Hne E) as (I1 & I2 & _). apply run_no_oob; assumption.
Qed.

Print Assumptions plain_lexer_trie.
Print Assumptions plain_lexer_no_oob.
Print Assumptions plain_lexer_correct_any.
Print Assumptions plain_lexer_correct.
Print Assumptions plain_lexer_correct'.
