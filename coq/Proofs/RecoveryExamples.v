(* C08 -- non-vacuity: the README's error-recovery grammar, its generated table, and runs that exercise every
   branch of the specification (Spec/Recovery.v) and every hypothesis of the theorems (Proofs/RecoveryRefines.v).
   Everything by computation (vm_compute).

     exprs -> (empty) | exprs expr ';' | exprs error ';'
     expr  -> expr '+' expr | '(' expr ')' | '(' error ')' | num          ('+' : precedence 1, left)

   terms: num = 0, '+' = 1, ';' = 2, '(' = 3, ')' = 4, <eof> = 5, <error_recovery_token> = 6;
   nonterminals: exprs = 0, expr = 1, ## = 2; columns: 0-2 nonterminals, 3.. terms; error column = 9. *)
Require Import Ctpg.Base.Prelude Ctpg.Model.Grammar Ctpg.Model.LRGen Ctpg.Model.Driver Ctpg.Spec.Cfg Ctpg.Spec.LRSpec
               Ctpg.Spec.Recovery Ctpg.Proofs.DriverBasics Ctpg.Proofs.RecoveryRefines.

Definition id_num := [110]. Definition id_plus := [43]. Definition id_semi := [59].
Definition id_lp := [40]. Definition id_rp := [41].
Definition id_exprs := [101;115]. Definition id_expr := [101].

Definition readme_raw : raw_grammar :=
  mkRG id_exprs
    [mkRT id_num 0%Z NoAssoc; mkRT id_plus 1%Z Ltor; mkRT id_semi 0%Z NoAssoc; mkRT id_lp 0%Z NoAssoc; mkRT id_rp 0%Z NoAssoc]
    [id_exprs; id_expr]
    [mkRR id_exprs [] None;                                                   (* rule 0 *)
     mkRR id_exprs [RNterm id_exprs; RNterm id_expr; RTerm id_semi] None;     (* rule 1 *)
     mkRR id_exprs [RNterm id_exprs; RTerm id_error; RTerm id_semi] None;     (* rule 2 *)
     mkRR id_expr [RNterm id_expr; RTerm id_plus; RNterm id_expr] None;       (* rule 3 *)
     mkRR id_expr [RTerm id_lp; RNterm id_expr; RTerm id_rp] None;            (* rule 4 *)
     mkRR id_expr [RTerm id_lp; RTerm id_error; RTerm id_rp] None;            (* rule 5 *)
     mkRR id_expr [RTerm id_num] None].                                       (* rule 6 *)

Definition dummy_g : grammar := mkG 0 0 0 0 [] [] [] [] [] [] [] [].
Definition rg : grammar := match analyze readme_raw with Some g => g | None => dummy_g end.
Definition rtbl : table := match gen rg with inl (sts, tbl) => firstn (length sts) tbl | inr _ => [] end.

Example readme_grammar_analyzed : analyze readme_raw = Some rg /\ err_idx rg = 6 /\ eof_idx rg = 5 /\ nterm_count rg = 3.
Proof. vm_compute. repeat split. Qed.

Example readme_table_generated :
  match gen rg with inl (sts, tbl) => length sts = 22 /\ length rtbl = 22 | inr _ => False end.
Proof. vm_compute. split; reflexivity. Qed.

(* which states accept the error symbol: 0, 7, 12 (reduce on the error lookahead), 1, 4, 10 (shift it) *)
Example readme_accepting_states :
  filter (accepts_err rg rtbl) (seq 0 22) = [0; 1; 4; 7; 10; 12] /\
  map (fun st => option_map (fun e => (e_kind e, e_arg e)) (nth_error (nth st rtbl []) 9)) [0; 1; 4; 7; 10; 12]
  = [Some (KReduce, Some 0); Some (KShiftErr, Some 5); Some (KShiftErr, Some 11);
     Some (KReduce, Some 1); Some (KShiftErr, Some 17); Some (KReduce, Some 2)] /\
  (* the generator never writes a plain shift into the error-symbol (or <eof>) column *)
  eof_err_not_shiftedb rg rtbl = true.
Proof. vm_compute. repeat split. Qed.

(* ---------- the tree instance (Spec/LRSpec.v), with the trace ---------- *)
Notation T := tree.
Definition t_term (t _ _ : nat) (_ : spoint) : T := Leaf t.
Definition t_err (_ : spoint) : T := Leaf (err_idx rg).
Definition t_rule (r : nat) (c : unit) (args : list T) : unit * T := (c, Node r args).
Definition vopts := mkOpt true false false.

Definition vrun (w : list nat) (fuel : nat) := run T unit rg rtbl vopts w None id_lexer t_term t_err t_rule fuel tt.
Definition vsteps (w : list nat) (n : nat) := steps T unit rg rtbl vopts w None id_lexer t_term t_err t_rule n (init tt).
Definition vspec (w : list nat) (fuel : nat) := spec_run T unit rg rtbl vopts w None id_lexer t_term t_err t_rule fuel (init tt).

(* the lines that concern recovery *)
Definition rec_line (e : event) : bool :=
  match e with
  | EvSyntaxError _ _ | EvEnterRecovery _ | EvLeaveRecovery _ | EvEnterConsume _ | EvLeaveConsume _
  | EvRecoveringTo _ _ | EvCouldNotRecover _ | EvConsuming _ _ | EvShiftErr _ _ => true
  | EvReduce _ _ _ => true
  | _ => false
  end.
Inductive line := SyntaxError (t : nat) | EnterRec | LeaveRec | EnterCons | LeaveCons | RecoveringTo (st : nat)
                | CouldNotRecover | Consuming (t : nat) | ShiftErr (st : nat) | Reduce (r : nat) | Other.
Definition to_line (e : event) : line :=
  match e with
  | EvSyntaxError _ t => SyntaxError t | EvEnterRecovery _ => EnterRec | EvLeaveRecovery _ => LeaveRec
  | EvEnterConsume _ => EnterCons | EvLeaveConsume _ => LeaveCons | EvRecoveringTo _ st => RecoveringTo st
  | EvCouldNotRecover _ => CouldNotRecover | EvConsuming _ t => Consuming t | EvShiftErr _ st => ShiftErr st
  | EvReduce _ r _ => Reduce r
  | _ => Other
  end.
(* the lines from the first SyntaxError on, Reduce lines kept *)
Fixpoint from_error (evs : list event) : list event :=
  match evs with
  | [] => []
  | EvSyntaxError p t :: r => EvSyntaxError p t :: r
  | _ :: r => from_error r
  end.
Definition recovery_lines (evs : list event) : list line := map to_line (filter rec_line (from_error evs)).

Definition summary (w : list nat) (fuel : nat) :=
  let '(r, s, out) := vrun w fuel in (r, ps_cursors s, recovery_lines out).

(* the tree instance is the one of Spec/LRSpec.v *)
Example same_instance w fuel : tree_run rg rtbl w fuel = fst (fst (run T unit rg rtbl tree_opts w None id_lexer t_term t_err t_rule fuel tt)).
Proof. reflexivity. Qed.

(* ---------- (1)  num ; ; num ;   -- the error is detected in a state that itself accepts the error symbol ---------- *)
Definition w1 := [0; 2; 2; 0; 2].

(* after 4 iterations the stack is  7 2 1 0  ( exprs expr ';' ), the pending term is ';' and its cell is an error cell;
   state 7 accepts the error symbol (reduce exprs -> exprs expr ';' on the error lookahead): k = 0 *)
Example ex1_error_state :
  match vsteps w1 4 with
  | (inl s, _) =>
      ps_cursors s = [7; 2; 1; 0] /\ ps_rec s = false /\ ps_cons s = false /\
      fst (get_current_term T unit rg vopts w1 id_lexer s) = (set_pos s (mkSp 1 3) 2 3 (Some 2), Some 2) /\
      cell_kind rtbl 7 (term_col rg 2) = Some KError /\
      accepts_err rg rtbl 7 = true /\ drop_count rg rtbl (ps_cursors s) = Some 0 /\ pop_defined rg rtbl (ps_cursors s) = true
  | _ => False
  end.
Proof. vm_compute. repeat split. Qed.

(* nothing is popped; the reduction on the error lookahead makes the value of the first "num ;" part of exprs;
   state 1 then shifts the error symbol; ';' is actionable at once (nothing discarded); the first statement
   (Node 1 [Node 0 []; Node 6 [Leaf 0]; Leaf 2]) is KEPT in the result *)
Example ex1_result :
  summary w1 100 =
  (Accept (Node 1 [Node 2 [Node 1 [Node 0 []; Node 6 [Leaf 0]; Leaf 2]; Leaf 6; Leaf 2]; Node 6 [Leaf 0]; Leaf 2]),
   [1; 0],
   [SyntaxError 2; EnterRec; Reduce 1; ShiftErr 5; LeaveRec; EnterCons; LeaveCons;
    Reduce 2; Reduce 6; Reduce 1]).
Proof. vm_compute. reflexivity. Qed.

(* ---------- (2)  ( + ) + num ;   -- the inner rule  expr -> '(' error ')' ---------- *)
Definition w2 := [3; 1; 4; 1; 0; 2].
Example ex2_result :
  summary w2 100 =
  (Accept (Node 1 [Node 0 []; Node 3 [Node 5 [Leaf 3; Leaf 6; Leaf 4]; Leaf 1; Node 6 [Leaf 0]]; Leaf 2]),
   [1; 0],
   [SyntaxError 1; EnterRec; ShiftErr 11; LeaveRec; EnterCons; Consuming 1; LeaveCons;
    Reduce 5; Reduce 6; Reduce 3; Reduce 1]).
Proof. vm_compute. reflexivity. Qed.

(* ---------- (3)  + ; num ;   -- state 0 reduces exprs -> (empty) on the error lookahead, then state 1 shifts it ---------- *)
Definition w3 := [1; 2; 0; 2].
Example ex3_result :
  summary w3 100 =
  (Accept (Node 1 [Node 2 [Node 0 []; Leaf 6; Leaf 2]; Node 6 [Leaf 0]; Leaf 2]),
   [1; 0],
   [SyntaxError 1; EnterRec; Reduce 0; ShiftErr 5; LeaveRec; EnterCons; Consuming 1; LeaveCons;
    Reduce 2; Reduce 6; Reduce 1]).
Proof. vm_compute. reflexivity. Qed.

(* ---------- (4)  num ; +   -- the input ends while discarding: Reject ---------- *)
Definition w4 := [0; 2; 1].
Example ex4_result :
  summary w4 100 =
  (Reject, [5; 1; 0],
   [SyntaxError 1; EnterRec; Reduce 1; ShiftErr 5; LeaveRec; EnterCons; Consuming 1]).
Proof. vm_compute. reflexivity. Qed.

(* the last visited configuration satisfies [eof_while_discarding] (reason (B) of C08_fails_iff) *)
Example ex4_reason :
  match vsteps w4 8 with
  | (inl s, _) =>
      ps_cons s = true /\ ps_rec s = false /\ ps_cursors s = [5; 1; 0] /\
      snd (fst (get_current_term T unit rg vopts w4 id_lexer s)) = Some (eof_idx rg) /\
      cell_kind rtbl (top_state s) (term_col rg (eof_idx rg)) = Some KError
  | _ => False
  end.
Proof. vm_compute. repeat split. Qed.

(* ---------- (5)  num + ; num ;   -- k = 2: two states are discarded, the values below are kept ---------- *)
Definition w5 := [0; 1; 2; 0; 2].
Example ex5_error_state :
  match vsteps w5 4 with
  | (inl s, _) =>
      ps_cursors s = [6; 2; 1; 0] /\ ps_values s = [Leaf 1; Node 6 [Leaf 0]; Node 0 []] /\
      map (accepts_err rg rtbl) (ps_cursors s) = [false; false; true; true] /\
      map (rejects_err rg rtbl) (ps_cursors s) = [true; true; false; false] /\
      drop_count rg rtbl (ps_cursors s) = Some 2 /\ pop_defined rg rtbl (ps_cursors s) = true /\
      (* the specified pop phase, from the configuration in which ';' is pending *)
      match get_current_term T unit rg vopts w5 id_lexer s with
      | (s1, _, _) =>
          spec_pop_phase T unit rg rtbl s1 =
          inl (mkPS [1; 0] [Node 0 []] (mkSp 1 3) 2 3 (Some 2) true false tt,
               [EvSyntaxError (mkSp 1 3) 2; EvEnterRecovery (mkSp 1 3);
                EvRecoveringTo (mkSp 1 3) 2; EvRecoveringTo (mkSp 1 3) 1])
      end
  | _ => False
  end.
Proof. vm_compute. repeat split. Qed.

(* ... and the driver does exactly that in 1 + 2 iterations (an instance of pop_phase_refines) *)
Example ex5_driver_pop_phase :
  match vsteps w5 4 with
  | (inl s, _) =>
      fst (steps T unit rg rtbl vopts w5 None id_lexer t_term t_err t_rule 3 s)
      = inl (mkPS [1; 0] [Node 0 []] (mkSp 1 3) 2 3 (Some 2) true false tt)
  | _ => False
  end.
Proof. vm_compute. reflexivity. Qed.

Example ex5_result :
  summary w5 100 =
  (Accept (Node 1 [Node 2 [Node 0 []; Leaf 6; Leaf 2]; Node 6 [Leaf 0]; Leaf 2]),
   [1; 0],
   [SyntaxError 2; EnterRec; RecoveringTo 2; RecoveringTo 1; ShiftErr 5; LeaveRec; EnterCons; LeaveCons;
    Reduce 2; Reduce 6; Reduce 1]).
Proof. vm_compute. reflexivity. Qed.

(* ---------- (6)  two errors in one input:  + ; ( + ) ;  ---------- *)
Definition w6 := [1; 2; 3; 1; 4; 2].
Example ex6_result :
  summary w6 100 =
  (Accept (Node 1 [Node 2 [Node 0 []; Leaf 6; Leaf 2]; Node 5 [Leaf 3; Leaf 6; Leaf 4]; Leaf 2]),
   [1; 0],
   [SyntaxError 1; EnterRec; Reduce 0; ShiftErr 5; LeaveRec; EnterCons; Consuming 1; LeaveCons; Reduce 2;
    SyntaxError 1; EnterRec; ShiftErr 11; LeaveRec; EnterCons; Consuming 1; LeaveCons; Reduce 5; Reduce 1]).
Proof. vm_compute. reflexivity. Qed.

(* ---------- (7)  a grammar that does not use the error symbol:  e -> num ;  input  +  : the stack is exhausted ---------- *)
Definition plain_raw : raw_grammar :=
  mkRG id_expr [mkRT id_num 0%Z NoAssoc; mkRT id_plus 0%Z NoAssoc] [id_expr] [mkRR id_expr [RTerm id_num] None].
Definition pg : grammar := match analyze plain_raw with Some g => g | None => dummy_g end.
Definition ptbl : table := match gen pg with inl (sts, tbl) => firstn (length sts) tbl | inr _ => [] end.
Example ex7_could_not_recover :
  let '(r, s, out) := run T unit pg ptbl vopts [1] None id_lexer t_term (fun _ => Leaf (err_idx pg)) t_rule 100 tt in
  (r, ps_cursors s, recovery_lines out) = (Reject, [], [SyntaxError 1; EnterRec; CouldNotRecover]) /\
  drop_count pg ptbl [0] = None /\ pop_defined pg ptbl [0] = true /\
  spec_pop_phase T unit pg ptbl (mkPS [0] [] (mkSp 1 1) 0 1 (Some 1) false false tt)
  = inr (mkPS [] [] (mkSp 1 1) 0 1 (Some 1) true false tt,
         [EvSyntaxError (mkSp 1 1) 1; EvEnterRecovery (mkSp 1 1); EvCouldNotRecover (mkSp 1 1)]).
Proof. vm_compute. repeat split. Qed.

(* ---------- the big-step specification predicts every one of these runs, line by line ---------- *)
Example spec_run_agrees_exactly :
  map (fun w => vspec w 40) [w1; w2; w3; w4; w5; w6] = map (fun w => Some (vrun w 100)) [w1; w2; w3; w4; w5; w6].
Proof. vm_compute. reflexivity. Qed.

(* the one-report-per-error reading of the traces *)
Example traces_track :
  map (fun w => err_track false (snd (vrun w 100))) [w1; w2; w3; w4; w5; w6] = repeat (Some false) 6.
Proof. vm_compute. reflexivity. Qed.

Print Assumptions ex1_result.
Print Assumptions ex5_error_state.
Print Assumptions spec_run_agrees_exactly.
