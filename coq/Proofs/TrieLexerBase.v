(* Basics for the proof that the in-place merging lexer builder is correct on plain term sets (characters and
   strings): transition function / walks of an automaton, a one-step equation for [merge], and the collapse of
   the 256-iteration loop of [merge] when the merged-in state has at most one transition. *)
Require Import Ctpg.Base.Prelude Ctpg.Model.Driver Ctpg.Model.Dfa Ctpg.Proofs.BuilderSize Ctpg.Proofs.BuilderTerm.

(* ---------- transitions and walks ---------- *)
Definition tr (sm : dfa) (q c : nat) : option nat := nth c (d_trans (get sm q)) None.

Fixpoint walk (sm : dfa) (q : nat) (x : list nat) : option nat :=
  match x with
  | [] => Some q
  | c :: x' => match tr sm q c with Some q' => walk sm q' x' | None => None end
  end.

Lemma walk_app : forall sm x y q,
  walk sm q (x ++ y) = match walk sm q x with Some q' => walk sm q' y | None => None end.
Proof.
  intros sm. induction x as [|c x IH]; intros y q; cbn [walk app]; auto.
  destruct (tr sm q c); auto.
Qed.

Lemma walk_ext : forall a b, (forall q c, tr a q c = tr b q c) -> forall x q, walk a q x = walk b q x.
Proof.
  intros a b H. induction x as [|c x IH]; intros q; cbn [walk]; auto.
  rewrite H. destruct (tr b q c); auto.
Qed.

Lemma tr_bound : forall sm q c q', wf p256 sm -> tr sm q c = Some q' -> q' < length sm.
Proof.
  intros sm q c q' W H. destruct (wf_get p256 eq_refl sm q W) as (_ & _ & C). eapply C. exact H.
Qed.

Lemma tr_byte : forall sm q c q', wf p256 sm -> tr sm q c = Some q' -> c < 256.
Proof.
  intros sm q c q' W H. destruct (wf_get p256 eq_refl sm q W) as (A & _ & _). unfold p256 in A.
  destruct (Nat.lt_ge_cases c 256) as [L|G]; auto.
  unfold tr in H. rewrite nth_overflow in H by lia. discriminate.
Qed.

Lemma trans_len : forall sm q, wf p256 sm -> length (d_trans (get sm q)) = 256.
Proof. intros sm q W. destruct (wf_get p256 eq_refl sm q W) as (A & _ & _). exact A. Qed.

Lemma walk_bound : forall sm, wf p256 sm -> forall x q q', q < length sm -> walk sm q x = Some q' -> q' < length sm.
Proof.
  intros sm W. induction x as [|c x IH]; intros q q' Hq H; cbn [walk] in H.
  - inversion H; subst; auto.
  - destruct (tr sm q c) as [q1|] eqn:E; [|discriminate]. eapply IH; [|exact H]. eapply tr_bound; eauto.
Qed.

Lemma walk_bytes : forall sm, wf p256 sm -> forall x q q', walk sm q x = Some q' -> Forall (fun c => c < 256) x.
Proof.
  intros sm W. induction x as [|c x IH]; intros q q' H; cbn [walk] in H; constructor.
  - destruct (tr sm q c) as [q1|] eqn:E; [|discriminate]. eapply tr_byte; eauto.
  - destruct (tr sm q c) as [q1|] eqn:E; [|discriminate]. eauto.
Qed.

(* ---------- one-step equation of merge ---------- *)
Definition pre_merge (sm : dfa) (to from : nat) (keep mark : bool) : dfa :=
  let sm1 := upd sm to (fun d => set_merged d (from :: d_merged d)) in
  let sm2 := upd sm1 from (fun d => set_start d false) in
  let e := if keep then d_end (get sm2 to) || d_end (get sm2 from) else d_end (get sm2 from) in
  let sm3 := upd sm2 to (fun d => set_end d e) in
  upd sm3 from (fun d => set_unreach d mark).

Definition mstep_fn (f to from : nat) (keep mark : bool) (acc : option dfa) (i : nat) : option dfa :=
  match acc with
  | None => None
  | Some s =>
      match nth i (d_trans (get s from)) None with
      | None => Some s
      | Some trf =>
          match nth i (d_trans (get s to)) None with
          | None =>
              let s1 := upd s to (fun d => set_trans d (update (d_trans d) i (Some trf))) in
              Some (upd s1 trf (fun d => set_unreach d false))
          | Some trt => merge f s trt trf keep mark
          end
      end
  end.

Definition post_merge (s : dfa) (to from : nat) : dfa :=
  fold_left (fun acc t => upd acc to (fun d => mark_end_state d t)) (d_rec (get s from)) s.

Lemma merge_S : forall f sm to from keep mark,
  merge (S f) sm to from keep mark =
  if Nat.eqb to from then Some sm else
  if mem_nat from (d_merged (get sm to)) then Some sm else
  match fold_left (mstep_fn f to from keep mark) (seq 0 256) (Some (pre_merge sm to from keep mark)) with
  | None => None
  | Some s => Some (post_merge s to from)
  end.
Proof. reflexivity. Qed.

Lemma mstep_fold_None : forall f to from keep mark l, fold_left (mstep_fn f to from keep mark) l None = None.
Proof. intros. apply fold_left_opt_None. reflexivity. Qed.

Lemma mstep_fold_id : forall f to from keep mark l s,
  (forall i, In i l -> tr s from i = None) ->
  fold_left (mstep_fn f to from keep mark) l (Some s) = Some s.
Proof.
  intros f to from keep mark. induction l as [|i l IH]; intros s H; cbn [fold_left]; auto.
  assert (E : mstep_fn f to from keep mark (Some s) i = Some s).
  { unfold mstep_fn. fold (tr s from i). rewrite (H i) by (left; reflexivity). reflexivity. }
  rewrite E. apply IH. intros j Hj. apply H. right; assumption.
Qed.

(* the loop over the 256 bytes when the merged-in state has no transition except possibly on c *)
Lemma mstep_fold_single : forall f to from keep mark c s0,
  c < 256 ->
  (forall i, i <> c -> tr s0 from i = None) ->
  (forall s, mstep_fn f to from keep mark (Some s0) c = Some s -> forall i, i <> c -> tr s from i = None) ->
  fold_left (mstep_fn f to from keep mark) (seq 0 256) (Some s0) = mstep_fn f to from keep mark (Some s0) c.
Proof.
  intros f to from keep mark c s0 Hc H0 H1.
  assert (E : seq 0 256 = seq 0 c ++ c :: seq (S c) (255 - c)).
  { replace 256 with (c + S (255 - c)) by lia. rewrite seq_app. cbn [seq plus]. reflexivity. }
  rewrite E, fold_left_app. rewrite mstep_fold_id.
  - cbn [fold_left]. destruct (mstep_fn f to from keep mark (Some s0) c) as [s|] eqn:Es.
    + apply mstep_fold_id. intros i Hi. apply (H1 s eq_refl). apply in_seq in Hi. lia.
    + apply mstep_fold_None.
  - intros i Hi. apply H0. apply in_seq in Hi. lia.
Qed.

(* ---------- the flag updates at the beginning of merge ---------- *)
Lemma pre_merge_length : forall sm to from keep mark, length (pre_merge sm to from keep mark) = length sm.
Proof. intros. unfold pre_merge. rewrite !upd_length. reflexivity. Qed.

Lemma get_pre_merge : forall sm to from keep mark q,
  to <> from -> to < length sm -> from < length sm ->
  get (pre_merge sm to from keep mark) q =
  if Nat.eqb q to
  then set_end (set_merged (get sm to) (from :: d_merged (get sm to)))
               (if keep then d_end (get sm to) || d_end (get sm from) else d_end (get sm from))
  else if Nat.eqb q from then set_unreach (set_start (get sm from) false) mark
  else get sm q.
Proof.
  intros sm to from keep mark q Hne Hto Hfrom. unfold pre_merge.
  assert (Lto : Nat.ltb to (length sm) = true) by (apply Nat.ltb_lt; assumption).
  assert (Lfrom : Nat.ltb from (length sm) = true) by (apply Nat.ltb_lt; assumption).
  assert (Etf : Nat.eqb to from = false) by (apply Nat.eqb_neq; assumption).
  assert (Eft : Nat.eqb from to = false) by (apply Nat.eqb_neq; auto).
  repeat (rewrite ?get_upd, ?upd_length, ?Lto, ?Lfrom, ?Etf, ?Eft, ?Nat.eqb_refl; cbn [andb]).
  destruct (Nat.eqb q to) eqn:E1; cbn [andb].
  - apply Nat.eqb_eq in E1. subst q. rewrite Etf. cbn [andb]. reflexivity.
  - destruct (Nat.eqb q from) eqn:E2; cbn [andb]; reflexivity.
Qed.

Lemma pre_merge_trans : forall sm to from keep mark q,
  to <> from -> to < length sm -> from < length sm ->
  d_trans (get (pre_merge sm to from keep mark) q) = d_trans (get sm q).
Proof.
  intros. rewrite get_pre_merge by assumption.
  destruct (Nat.eqb q to) eqn:E1; [apply Nat.eqb_eq in E1; subst; reflexivity|].
  destruct (Nat.eqb q from) eqn:E2; [apply Nat.eqb_eq in E2; subst; reflexivity|]. reflexivity.
Qed.

Lemma pre_merge_rec : forall sm to from keep mark q,
  to <> from -> to < length sm -> from < length sm ->
  d_rec (get (pre_merge sm to from keep mark) q) = d_rec (get sm q).
Proof.
  intros. rewrite get_pre_merge by assumption.
  destruct (Nat.eqb q to) eqn:E1; [apply Nat.eqb_eq in E1; subst; reflexivity|].
  destruct (Nat.eqb q from) eqn:E2; [apply Nat.eqb_eq in E2; subst; reflexivity|]. reflexivity.
Qed.

Lemma pre_merge_end : forall sm to from keep mark q,
  to <> from -> to < length sm -> from < length sm ->
  d_end (get (pre_merge sm to from keep mark) q) =
  if Nat.eqb q to then (if keep then d_end (get sm to) || d_end (get sm from) else d_end (get sm from))
  else d_end (get sm q).
Proof.
  intros. rewrite get_pre_merge by assumption.
  destruct (Nat.eqb q to) eqn:E1; [reflexivity|].
  destruct (Nat.eqb q from) eqn:E2; [apply Nat.eqb_eq in E2; subst; reflexivity|]. reflexivity.
Qed.

Lemma pre_merge_merged : forall sm to from keep mark q,
  to <> from -> to < length sm -> from < length sm ->
  d_merged (get (pre_merge sm to from keep mark) q) =
  if Nat.eqb q to then from :: d_merged (get sm to) else d_merged (get sm q).
Proof.
  intros. rewrite get_pre_merge by assumption.
  destruct (Nat.eqb q to) eqn:E1; [reflexivity|].
  destruct (Nat.eqb q from) eqn:E2; [apply Nat.eqb_eq in E2; subst; reflexivity|]. reflexivity.
Qed.

Lemma pre_merge_tr : forall sm to from keep mark q c,
  to <> from -> to < length sm -> from < length sm ->
  tr (pre_merge sm to from keep mark) q c = tr sm q c.
Proof. intros. unfold tr. rewrite pre_merge_trans by assumption. reflexivity. Qed.

(* ---------- the slot updates at the end of merge ---------- *)
Lemma add_conflicted_hd : forall r t,
  hd_error (add_conflicted r t) = match hd_error r with Some a => Some a | None => Some t end.
Proof.
  intros r t. unfold add_conflicted. destruct r as [|a r]; [reflexivity|].
  destruct (Nat.ltb (length (a :: r)) 4); reflexivity.
Qed.

Lemma fold_add_conflicted_hd : forall r r0,
  hd_error (fold_left add_conflicted r r0) = match hd_error r0 with Some a => Some a | None => hd_error r end.
Proof.
  induction r as [|t r IH]; intros r0; cbn [fold_left].
  - destruct (hd_error r0); reflexivity.
  - rewrite IH, add_conflicted_hd. destruct (hd_error r0); reflexivity.
Qed.

Lemma set_rec_same : forall d, set_rec d (d_rec d) = d.
Proof. destruct d; reflexivity. Qed.

Lemma mark_fold_get : forall r s to q,
  to < length s -> d_end (get s to) = true ->
  get (fold_left (fun acc t => upd acc to (fun d => mark_end_state d t)) r s) q =
  if Nat.eqb q to then set_rec (get s to) (fold_left add_conflicted r (d_rec (get s to))) else get s q.
Proof.
  induction r as [|t r IH]; intros s to q Hto He; cbn [fold_left].
  - destruct (Nat.eqb q to) eqn:E; auto. apply Nat.eqb_eq in E. subst. rewrite set_rec_same. reflexivity.
  - assert (L : Nat.ltb to (length s) = true) by (apply Nat.ltb_lt; assumption).
    rewrite IH.
    + rewrite !get_upd, L, Nat.eqb_refl. cbn [andb]. unfold mark_end_state. rewrite He.
      destruct (Nat.eqb q to); reflexivity.
    + rewrite upd_length. assumption.
    + rewrite get_upd, L, Nat.eqb_refl. cbn [andb]. unfold mark_end_state. rewrite He. exact He.
Qed.

Lemma mark_fold_length : forall r s to,
  length (fold_left (fun acc t => upd acc to (fun d => mark_end_state d t)) r s) = length s.
Proof. induction r; intros; cbn [fold_left]; auto. rewrite IHr, upd_length. reflexivity. Qed.
