(* Why gen_validates carries the extra hypothesis grammar_wf_extra: grammar_wf alone does not bound the rule
   slices. gbad (S -> A, A without rules, slice of A = (2,1) pointing past rule_infos) is grammar_wf, the
   generator succeeds on it without conflict marks, and the result does not validate (closure produces the
   item with rule_info index 2 = rule_count, which item_ok rejects). Grammar records produced by
   Grammar.analyze satisfy grammar_wf_extra (checked by vm_compute on the regex grammar here). *)
Require Import Ctpg.Base.Prelude Ctpg.Model.Grammar Ctpg.Model.LRGen Ctpg.Model.RegexFront Ctpg.Valid.LRValid
               Ctpg.Proofs.GenWf Ctpg.Proofs.GenCorrect.

Definition gbad : grammar :=
  mkG 3 3 2 1 [[NT 1]; [NT 0]] [mkRI 0 0 1; mkRI 2 1 1] [(0,1);(2,1);(1,1)]
      [0%Z;0%Z;0%Z] [NoAssoc;NoAssoc;NoAssoc] [0%Z;0%Z] [NoAssoc;NoAssoc] [None;None].

Definition gen_report (g : grammar) :=
  match gen g with
  | inl (sts, tbl) => Some (grammar_wf g, grammar_wf_extra g, conflict_free g (length sts) tbl,
                            accept_clean g sts, validate g (map st_all sts) tbl)
  | inr _ => None
  end.

Example gbad_report : gen_report gbad = Some (true, false, true, true, false).
Proof. vm_compute. reflexivity. Qed.

Example regex_grammar_extra :
  match analyze regex_raw_grammar with
  | Some g => grammar_wf g && grammar_wf_extra g
  | None => false
  end = true.
Proof. vm_compute. reflexivity. Qed.
