(* The hand-written model uses exactly the constants, tables and grammar that tools/source_facts.py read out of
   ctpg.hpp on this run (Model/SourceFacts.v is regenerated every time). A change of the source that alters one of
   them makes the corresponding lemma fail, which the checks report. *)
Require Import Ctpg.Base.Prelude Ctpg.Model.Grammar Ctpg.Model.LRGen Ctpg.Model.Driver Ctpg.Model.Dfa
               Ctpg.Model.RegexFront Ctpg.Model.SourceFacts.

Lemma tie_ws_newline : sf_ws_newline = ws_newline. Proof. reflexivity. Qed.
Lemma tie_ws_no_newline : sf_ws_no_newline = ws_no_newline. Proof. reflexivity. Qed.
Lemma tie_sp0 : sf_sp0 = (sp_line sp0, sp_col sp0). Proof. reflexivity. Qed.
Lemma tie_newline : forall p b, sp_update p [b] = if Nat.eqb b sf_newline then mkSp (S (sp_line p)) 1 else mkSp (sp_line p) (S (sp_col p)).
Proof. reflexivity. Qed.

Lemma tie_printable : forall c, c < 256 -> is_printable c = (Nat.leb (fst sf_printable) c && Nat.leb c (snd sf_printable)).
Proof. reflexivity. Qed.
Lemma tie_dec : forall c, is_dec_digit c = (Nat.leb (fst sf_dec) c && Nat.leb c (snd sf_dec)).
Proof. reflexivity. Qed.
Lemma tie_hex : forall c, is_hex_digit c =
  ((Nat.leb (nth 0 sf_hex 0) c && Nat.leb c (nth 1 sf_hex 0)) || (Nat.leb (nth 2 sf_hex 0) c && Nat.leb c (nth 3 sf_hex 0))
   || (Nat.leb (nth 4 sf_hex 0) c && Nat.leb c (nth 5 sf_hex 0))).
Proof. reflexivity. Qed.

Lemma tie_specials : forallb (fun c => match special c, find (fun p => Nat.eqb (fst p) c) sf_specials with
                                        | Some t, Some (_, t') => Nat.eqb t t'
                                        | None, None => true
                                        | _, _ => false
                                        end) (seq 0 256) = true.
Proof. vm_compute. reflexivity. Qed.

Lemma tie_rec_slots : forall r t, length r = sf_rec_slots -> add_conflicted r t = r.
Proof. intros r t H. unfold add_conflicted. rewrite H. reflexivity. Qed.

Lemma tie_kind_order : sf_kind_order = [0; 1; 2; 3; 4; 5]. Proof. reflexivity. Qed.

Lemma tie_char_dfa_size : forall sm c, length (fst (primary_subset sm (cs_single c))) = length sm + sf_char_dfa_size.
Proof. intros. unfold primary_subset. cbn. rewrite app_length. reflexivity. Qed.

Lemma tie_regex_grammar : sf_regex_raw_grammar = regex_raw_grammar. Proof. reflexivity. Qed.

(* every stream write of the driver is guarded by options.verbose except the two error messages, and the flag is read
   nowhere else (C16's frame condition on the source) *)
Lemma tie_unguarded_writes :
  sf_unguarded_writes = [[115; 121; 110; 116; 97; 120; 95; 101; 114; 114; 111; 114];
                         [117; 110; 101; 120; 112; 101; 99; 116; 101; 100; 95; 99; 104; 97; 114]].
Proof. reflexivity. Qed.
Lemma tie_verbose_reads : sf_verbose_reads_outside_guards = 0. Proof. reflexivity. Qed.
