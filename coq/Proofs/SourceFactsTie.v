(* The hand-written model uses exactly the constants, tables and grammar that tools/source_facts.py read out of
   ctpg.hpp on this run (Model/SourceFacts.v is regenerated every time). A change of the source that alters one of
   them makes the corresponding lemma fail, which the checks report. The lemmas are split by topic so that a check
   only depends on the facts its property uses. *)
Require Export Ctpg.Proofs.SourceFactsTieWs Ctpg.Proofs.SourceFactsTiePat Ctpg.Proofs.SourceFactsTieDfa
               Ctpg.Proofs.SourceFactsTieTab Ctpg.Proofs.SourceFactsTieVerb.
