(* Word-level twins of make_right_side_slice_first / make_right_side_slice_empty and of the direct closure children of
   an LR(1) item (Model/LRGen.v: slice_first, slice_empty, closure_children), on cbitset objects (checked test()),
   and their refinement theorems, for every grammar: given word tables related to the abstract nullable / FIRST tables
   by the invariant of Proofs/LRGenWordsRefine.v, the twins never throw and return exactly the abstract results. *)
From Ctpg Require Import Base.Prelude Model.Grammar Model.LRGen Model.Containers Model.LRGenWords
                         Proofs.ContainersBits Proofs.LRGenWordsRefine.
From Coq Require Import NArith Lia List Bool.
Import ListNotations.

(* ------------------------------------------------------------------ definitions *)
Definition w_slice_first (g : grammar) (ne : cbitset) (nf : list cbitset) (ri : rule_info) (start : nat)
  : res cbitset :=
  w_first_of_syms g ne nf (w_empty_terms g) (skipn start (firstn (ri_n ri) (get_rhs g (ri_r ri)))).

Definition w_slice_empty (g : grammar) (ne : cbitset) (ri : rule_info) (start : nat) : res bool :=
  w_all_nullable ne (skipn start (firstn (ri_n ri) (get_rhs g (ri_r ri)))).

(* monadic flat_map: the for-loop over t, stops at the first Throw / Undef *)
Fixpoint w_flat_map {A B} (f : A -> res (list B)) (l : list A) : res (list B) :=
  match l with
  | [] => Ok []
  | x :: t => do y <- f x ;; do r <- w_flat_map f t ;; Ok (y ++ r)
  end.

(* `after_empty && !first.test(info.t)` short-circuits, as in the C++ *)
Definition w_closure_children (g : grammar) (ne : cbitset) (nf : list cbitset) (i : item) : res (list item) :=
  let ri := get_ri g (it_r i) in
  if Nat.leb (ri_n ri) (it_d i) then Ok [] else
  match nth_error (get_rhs g (ri_r ri)) (it_d i) with
  | Some (NT nt) =>
      do after_empty <- w_slice_empty g ne ri (S (it_d i)) ;;
      do first <- w_slice_first g ne nf ri (S (it_d i)) ;;
      let '(st, n) := nth nt (slices g) (0, 0) in
      do l <- w_flat_map (fun t => do b <- cb_test first (N.of_nat t) ;;
                                   Ok (if b then map (fun k => mkItem (st + k) 0 t) (seq 0 n) else []))
                         (seq 0 (term_count g)) ;;
      do c <- (if after_empty then do b <- cb_test first (N.of_nat (it_t i)) ;; Ok (negb b) else Ok false) ;;
      Ok (l ++ (if c then map (fun k => mkItem (st + k) 0 (it_t i)) (seq 0 n) else []))
  | _ => Ok []
  end.

(* ------------------------------------------------------------------ lists *)
Lemma Forall_skipn' : forall A (P : A -> Prop) n l, Forall P l -> Forall P (skipn n l).
Proof.
  intros A P n. induction n as [| n IH]; intros l Hl.
  - exact Hl.
  - destruct l as [| x l]; [exact Hl |]. inversion Hl as [| x' l' Hx Hl']; subst. cbn [skipn]. apply IH. exact Hl'.
Qed.

Lemma w_flat_map_ok : forall A B (f : A -> res (list B)) (h : A -> list B) l,
  (forall x, In x l -> f x = Ok (h x)) -> w_flat_map f l = Ok (flat_map h l).
Proof.
  intros A B f h l. induction l as [| x l IH]; intros Hf.
  - reflexivity.
  - cbn [w_flat_map flat_map]. rewrite (Hf x (or_introl eq_refl)). cbn [rbind].
    rewrite IH by (intros y Hy; apply Hf; right; exact Hy). reflexivity.
Qed.

(* ------------------------------------------------------------------ refinement *)
Section Refine.
Variable g : grammar.
Variables (ne_w : cbitset) (nf_w : list cbitset) (ne : bset) (nf : list bset).
Hypothesis Hne_n : cb_n ne_w = N.of_nat (nterm_count g).
Hypothesis Hne_abs : cb_abs ne_w = ne.
Hypothesis Hnf_good : Forall (good g) nf_w.
Hypothesis Hnf_abs : map cb_abs nf_w = nf.

Theorem w_slice_first_refines : forall ri start, ri_ok g ri ->
  exists b, w_slice_first g ne_w nf_w ri start = Ok b /\ good g b /\ cb_abs b = slice_first g ne nf ri start.
Proof.
  intros ri start [_ Hsy]. unfold w_slice_first, slice_first.
  rewrite <- Hne_abs, <- Hnf_abs, <- (abs_dflt g).
  apply w_first_of_syms_ok; [exact Hne_n | exact Hnf_good | apply good_dflt | apply Forall_skipn'; exact Hsy].
Qed.

Theorem w_slice_empty_refines : forall ri start, ri_ok g ri ->
  w_slice_empty g ne_w ri start = Ok (slice_empty g ne ri start).
Proof.
  intros ri start [_ Hsy]. unfold w_slice_empty, slice_empty. rewrite <- Hne_abs.
  apply (w_all_nullable_ok g); [exact Hne_n | apply Forall_skipn'; exact Hsy].
Qed.

Theorem w_closure_children_refines : forall i, ri_ok g (get_ri g (it_r i)) -> it_t i < term_count g ->
  w_closure_children g ne_w nf_w i = Ok (closure_children g ne nf i).
Proof.
  intros i Hri Ht. unfold w_closure_children, closure_children. cbv zeta.
  destruct (Nat.leb (ri_n (get_ri g (it_r i))) (it_d i)); [reflexivity |].
  destruct (nth_error (get_rhs g (ri_r (get_ri g (it_r i)))) (it_d i)) as [[t | nt] |]; try reflexivity.
  rewrite (w_slice_empty_refines _ (S (it_d i)) Hri). cbn [rbind].
  destruct (w_slice_first_refines _ (S (it_d i)) Hri) as (first & Hf & (_ & _ & Hfn) & Hfa).
  rewrite Hf. cbn [rbind]. rewrite <- Hfa.
  destruct (nth nt (slices g) (0, 0)) as [st n].
  rewrite (w_flat_map_ok _ _ _
             (fun t => if bset_test (cb_abs first) t then map (fun k => mkItem (st + k) 0 t) (seq 0 n) else [])).
  - cbn [rbind].
    destruct (slice_empty g ne (get_ri g (it_r i)) (S (it_d i))); cbn [andb].
    + rewrite (test_abs first _ _ Hfn Ht). cbn [rbind]. reflexivity.
    + cbn [rbind]. reflexivity.
  - intros t Hin. apply in_seq in Hin. rewrite (test_abs first t _ Hfn) by lia. reflexivity.
Qed.

(* for a grammar in range no hypothesis on the rule index is needed: get_ri of an out-of-range index is
   dummy_ri = mkRI 0 0 0, which has no elements, so both levels return [] before any table access *)
Corollary w_closure_children_refines_in_range : syms_in_range g -> forall i, it_t i < term_count g ->
  w_closure_children g ne_w nf_w i = Ok (closure_children g ne nf i).
Proof.
  intros Hr i Ht. destruct (Nat.lt_ge_cases (it_r i) (length (rule_infos g))) as [Hlt | Hge].
  - apply w_closure_children_refines; [| exact Ht].
    unfold get_ri. unfold syms_in_range in Hr. rewrite Forall_forall in Hr. apply Hr. apply nth_In. exact Hlt.
  - unfold w_closure_children, closure_children, get_ri. rewrite (nth_overflow _ _ Hge). reflexivity.
Qed.
End Refine.

(* ------------------------------------------------------------------ non-vacuity, on ex_g of LRGenWordsRefine.v *)
Definition ex_children (i : item) : res (list item) :=
  do ne <- w_nterm_empty ex_g ;; do nf <- w_nterm_first ex_g ne ;; w_closure_children ex_g ne nf i.
Definition ex_children_abs (i : item) : list item :=
  closure_children ex_g (nterm_empty ex_g) (nterm_first ex_g (nterm_empty ex_g)) i.

(* rule_infos ex_g = [S -> A B c; A -> a A; A -> ; B -> b; B -> ; ## -> S], slices = [(0,1); (1,2); (3,2); (5,1)].
   [S -> . A B c, eof]: FIRST(B c) = {b, c}, not nullable: the two A rules with lookaheads b and c;
   [## -> . S, eof]: the rest is empty, so the item's own lookahead is propagated (the after_empty branch);
   [S -> A . B c, eof]: FIRST(c) = {c}: the two B rules with lookahead c. *)
Example ex_closure_children :
  ex_children (mkItem 0 0 3) = Ok (ex_children_abs (mkItem 0 0 3)) /\
  ex_children_abs (mkItem 0 0 3) = [mkItem 1 0 1; mkItem 2 0 1; mkItem 1 0 2; mkItem 2 0 2] /\
  ex_children (mkItem 5 0 3) = Ok (ex_children_abs (mkItem 5 0 3)) /\
  ex_children_abs (mkItem 5 0 3) = [mkItem 0 0 3] /\
  ex_children (mkItem 0 1 3) = Ok (ex_children_abs (mkItem 0 1 3)) /\
  ex_children_abs (mkItem 0 1 3) = [mkItem 3 0 2; mkItem 4 0 2].
Proof. vm_compute. repeat split. Qed.

(* the hypothesis on the lookahead is needed: with an out-of-range lookahead and a nullable rest the words throw *)
Example ex_lookahead_out_of_range_throws :
  ex_children (mkItem 5 0 7) = Throw /\ ex_children_abs (mkItem 5 0 7) = [mkItem 0 0 7].
Proof. vm_compute. repeat split. Qed.

Print Assumptions w_slice_first_refines.
Print Assumptions w_slice_empty_refines.
Print Assumptions w_closure_children_refines_in_range.
Print Assumptions w_closure_children_refines.
