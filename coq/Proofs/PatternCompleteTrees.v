(* The pattern grammar is AMBIGUOUS (alt -> alt '|' alt), its table has a shift/reduce conflict resolved in favour of the
   shift: the full validator fails, [lr_complete] / [lr_unique] / [term_checks] do not apply. This file:
   - (P1) what does hold of the generated table: it is the LR(1) automaton of the grammar except for the two reductions
     by  alt -> alt '|' alt  on lookahead '|'  ([regex_validate_except]);
   - the RIGHT-NESTED derivation trees [rnt] (the left operand of '|' is never itself an alternative): every sentence of
     the pattern grammar has one ([derives_right_nested]), the table accepts it ([right_nested_accepted], through
     Proofs/PatternCompleteLR.v) within 6 * (number of tokens) + 1 steps, and it is the only one ([right_nested_unique]). *)
Require Import Ctpg.Base.Prelude Ctpg.Model.Grammar Ctpg.Model.LRGen Ctpg.Model.Driver Ctpg.Model.Dfa
               Ctpg.Model.RegexFront Ctpg.Spec.Cfg Ctpg.Spec.LRSpec Ctpg.Spec.Eval
               Ctpg.Valid.LRValid Ctpg.Valid.LRSafe Ctpg.Valid.LRResolved Ctpg.Valid.LRProductive
               Ctpg.Proofs.LRReflect Ctpg.Proofs.LRMachine Ctpg.Proofs.LRValidFacts Ctpg.Proofs.LRSound
               Ctpg.Proofs.PatternLex Ctpg.Proofs.PatternParse Ctpg.Proofs.PatternCompleteLR.

(* ================================================================================================= *)
(* (P1) the generated table                                                                           *)
(* ================================================================================================= *)

(* REFUTED: the full LR(1) validator rejects the pattern table (PatternParse.regex_validate_full), hence so do the
   checks of the termination theorems *)
Theorem regex_table_validated_refuted : validate regex_g regex_sts regex_tb = false.
Proof. exact regex_validate_full. Qed.

Theorem regex_term_checks_refuted : term_checks regex_g regex_sts regex_tb = false.
Proof. vm_compute. reflexivity. Qed.

(* the other four checks of [term_checks] hold: only [validate] fails *)
Theorem regex_term_checks_partial :
  lookahead_generatedb regex_g regex_sts = true /\ states_nonempty_b regex_sts = true /\
  reduce_lookaheadb regex_g regex_sts regex_tb = true /\ productiveb regex_g = true.
Proof. vm_compute. repeat split; reflexivity. Qed.

(* the validator for tables with conflicts resolved by the documented precedence rule accepts it *)
Theorem regex_table_validated_resolved : validate_resolved regex_g regex_sts regex_tb = true.
Proof. vm_compute. reflexivity. Qed.

(* rule 13 is  alt -> alt '|' alt ; term 5 is '|' *)
Definition regex_bad (r t : nat) : bool := Nat.eqb r 13 && Nat.eqb t 5.

(* the strongest true variant: every shift, goto, accept and reduction the LR(1) automaton of the grammar has is in the
   table, except the reduction by rule 13 on lookahead '|' (states 23 and 36: the table shifts there) *)
Theorem regex_table_validated_partial : validate_except regex_bad regex_g regex_sts regex_tb = true.
Proof. vm_compute. reflexivity. Qed.

(* exactly two cells deviate *)
Example regex_conflict_states :
  filter (fun s => negb (reduce_ok regex_g regex_sts regex_tb s)) (seq 0 (length regex_sts)) = [23; 36] /\
  map (fun s => e_kind (cell_at regex_tb s (nterm_count regex_g + 5))) [23; 36] = [KShift; KShift].
Proof. vm_compute. split; reflexivity. Qed.

(* ================================================================================================= *)
(* the rules, by computation                                                                          *)
(* ================================================================================================= *)
(* nonterminals: 0 expr, 1 alt, 2 concat, 3 q_expr, 4 primary, 5 number, 6 ##
   terms: 0 digit, 1 primary, 2 '*', 3 '+', 4 '?', 5 '|', 6 '(', 7 ')', 8 '{', 9 '}', 10 <eof>, 11 <error> *)
Definition regex_rules : list (nat * nat * list symbol) :=
  [(0, 5, [T 0]); (1, 5, [NT 5; T 0]); (2, 4, [T 0]); (3, 4, [T 1]); (4, 4, [T 6; NT 0; T 7]);
   (5, 3, [NT 4]); (6, 3, [NT 4; T 2]); (7, 3, [NT 4; T 3]); (8, 3, [NT 4; T 4]); (9, 3, [NT 4; T 8; NT 5; T 9]);
   (10, 2, [NT 3]); (11, 2, [NT 2; NT 3]); (12, 1, [NT 2]); (13, 1, [NT 1; T 5; NT 1]); (14, 0, [NT 1]);
   (15, 6, [NT 0])].

Lemma regex_is_rule r l rhs : is_rule regex_g r l rhs -> In (r, l, rhs) regex_rules.
Proof.
  intros (i & ri & Hi & Hr & Hl & Hrhs).
  do 16 (destruct i as [|i];
         [vm_compute in Hi; inversion Hi; subst ri; cbn [ri_r ri_l] in *; subst r l;
          vm_compute in Hrhs; inversion Hrhs; subst rhs; cbn; tauto|]).
  vm_compute in Hi. destruct i; discriminate.
Qed.

Lemma regex_mk_rule i ri rhs :
  nth_error (rule_infos regex_g) i = Some ri -> nth_error (right_sides regex_g) (ri_r ri) = Some rhs ->
  is_rule regex_g (ri_r ri) (ri_l ri) rhs.
Proof. intros H1 H2. exists i, ri. auto. Qed.

Lemma regex_root_symbol : root_symbol regex_g = Some (NT 0).
Proof. vm_compute. reflexivity. Qed.

(* ================================================================================================= *)
(* right-nested derivation trees: the trees of the unambiguous grammar  alt -> concat | concat '|' alt  *)
(* written with the rules of the pattern grammar                                                      *)
(* ================================================================================================= *)
Inductive rnt : nat -> tree -> Prop :=
| rn0 : rnt 5 (Node 0 [Leaf 0])
| rn1 n : rnt 5 n -> rnt 5 (Node 1 [n; Leaf 0])
| rn2 : rnt 4 (Node 2 [Leaf 0])
| rn3 : rnt 4 (Node 3 [Leaf 1])
| rn4 e : rnt 0 e -> rnt 4 (Node 4 [Leaf 6; e; Leaf 7])
| rn5 p : rnt 4 p -> rnt 3 (Node 5 [p])
| rn6 p : rnt 4 p -> rnt 3 (Node 6 [p; Leaf 2])
| rn7 p : rnt 4 p -> rnt 3 (Node 7 [p; Leaf 3])
| rn8 p : rnt 4 p -> rnt 3 (Node 8 [p; Leaf 4])
| rn9 p n : rnt 4 p -> rnt 5 n -> rnt 3 (Node 9 [p; Leaf 8; n; Leaf 9])
| rn10 q : rnt 3 q -> rnt 2 (Node 10 [q])
| rn11 c q : rnt 2 c -> rnt 3 q -> rnt 2 (Node 11 [c; q])
| rn12 c : rnt 2 c -> rnt 1 (Node 12 [c])
| rn13 c b : rnt 2 c -> rnt 1 b -> rnt 1 (Node 13 [Node 12 [c]; Leaf 5; b])
| rn14 a : rnt 1 a -> rnt 0 (Node 14 [a]).

Lemma rnt_valid l t : rnt l t -> valid_tree regex_g (NT l) t.
Proof.
  induction 1.
  - apply VNode with (rhs := [T 0]); [exact (regex_mk_rule 13 _ _ eq_refl eq_refl)|repeat constructor].
  - apply VNode with (rhs := [NT 5; T 0]); [exact (regex_mk_rule 14 _ _ eq_refl eq_refl)|repeat constructor; assumption].
  - apply VNode with (rhs := [T 0]); [exact (regex_mk_rule 10 _ _ eq_refl eq_refl)|repeat constructor].
  - apply VNode with (rhs := [T 1]); [exact (regex_mk_rule 11 _ _ eq_refl eq_refl)|repeat constructor].
  - apply VNode with (rhs := [T 6; NT 0; T 7]); [exact (regex_mk_rule 12 _ _ eq_refl eq_refl)|repeat constructor; assumption].
  - apply VNode with (rhs := [NT 4]); [exact (regex_mk_rule 5 _ _ eq_refl eq_refl)|repeat constructor; assumption].
  - apply VNode with (rhs := [NT 4; T 2]); [exact (regex_mk_rule 6 _ _ eq_refl eq_refl)|repeat constructor; assumption].
  - apply VNode with (rhs := [NT 4; T 3]); [exact (regex_mk_rule 7 _ _ eq_refl eq_refl)|repeat constructor; assumption].
  - apply VNode with (rhs := [NT 4; T 4]); [exact (regex_mk_rule 8 _ _ eq_refl eq_refl)|repeat constructor; assumption].
  - apply VNode with (rhs := [NT 4; T 8; NT 5; T 9]); [exact (regex_mk_rule 9 _ _ eq_refl eq_refl)|repeat constructor; assumption].
  - apply VNode with (rhs := [NT 3]); [exact (regex_mk_rule 3 _ _ eq_refl eq_refl)|repeat constructor; assumption].
  - apply VNode with (rhs := [NT 2; NT 3]); [exact (regex_mk_rule 4 _ _ eq_refl eq_refl)|repeat constructor; assumption].
  - apply VNode with (rhs := [NT 2]); [exact (regex_mk_rule 1 _ _ eq_refl eq_refl)|repeat constructor; assumption].
  - apply VNode with (rhs := [NT 1; T 5; NT 1]); [exact (regex_mk_rule 2 _ _ eq_refl eq_refl)|].
    repeat constructor; [|assumption].
    apply VNode with (rhs := [NT 2]); [exact (regex_mk_rule 1 _ _ eq_refl eq_refl)|repeat constructor; assumption].
  - apply VNode with (rhs := [NT 1]); [exact (regex_mk_rule 0 _ _ eq_refl eq_refl)|repeat constructor; assumption].
Qed.

Lemma rnt_derives_tree t : rnt 0 t -> derives_tree regex_g t (yield t).
Proof. intros H. exists (NT 0). split; [exact regex_root_symbol|]. split; [apply rnt_valid; assumption|reflexivity]. Qed.

(* a | b for right-nested a, b: re-associate to the right *)
Lemma graft_ex : forall l a, rnt l a -> l = 1 -> forall b, rnt 1 b ->
  exists t, rnt 1 t /\ yield t = yield a ++ 5 :: yield b.
Proof.
  induction 1; intros E; try discriminate E; intros b0 Hb0.
  - exists (Node 13 [Node 12 [c]; Leaf 5; b0]). split; [constructor; assumption|].
    cbn. rewrite !app_nil_r. reflexivity.
  - destruct (IHrnt2 eq_refl b0 Hb0) as (t2 & Ht2 & Hy2).
    exists (Node 13 [Node 12 [c]; Leaf 5; t2]). split; [constructor; assumption|].
    cbn. rewrite !app_nil_r, Hy2. cbn. rewrite <- !app_assoc. reflexivity.
Qed.

Ltac inv_forall2 :=
  repeat match goal with
         | H : Forall2 _ (_ :: _) _ |- _ => inversion H; clear H; subst
         | H : Forall2 _ [] _ |- _ => inversion H; clear H; subst
         end.
Ltac inv_forall :=
  repeat match goal with
         | H : Forall _ (_ :: _) |- _ => inversion H; clear H; subst
         | H : Forall _ [] |- _ => clear H
         end.

(* every derivation tree has a right-nested tree with the same yield *)
Definition norm_ok (t : tree) : Prop :=
  forall X, valid_tree regex_g X t ->
    match X with
    | T a => t = Leaf a
    | NT l => l < 6 -> exists t', rnt l t' /\ yield t' = yield t
    end.

Lemma valid_right_nested t : norm_ok t.
Proof.
  induction t as [a|r ch IH] using tree_ind'; intros X Hval.
  - inversion Hval; subst. reflexivity.
  - inversion Hval as [|r' l rhs ch' Hrule Hch]; subst. intros Hl.
    apply regex_is_rule in Hrule. unfold regex_rules in Hrule. cbn [In] in Hrule.
    repeat (destruct Hrule as [Hrule|Hrule]); try contradiction; inversion Hrule; subst; clear Hrule;
      try lia; inv_forall2; inv_forall;
      repeat match goal with
             | HP : norm_ok ?c, HV : valid_tree _ (T _) ?c |- _ => apply HP in HV; subst c; clear HP
             | HP : norm_ok ?c, HV : valid_tree _ (NT _) ?c |- _ =>
                 apply HP in HV; clear HP; specialize (HV ltac:(lia)); destruct HV as (? & ? & ?)
             end.
    all: try solve [eexists; split; [econstructor; eassumption|cbn; congruence]].
    (* rule 13 *)
    match goal with
    | Ha : rnt 1 ?a, Hb : rnt 1 ?b |- _ =>
        first [ match goal with
                | Hya : yield a = yield ?x, Hyb : yield b = yield ?y |- exists _, _ /\ _ = yield (Node 13 [?x; _; ?y]) =>
                    destruct (graft_ex 1 a Ha eq_refl b Hb) as (t & Ht & Hy); exists t; split; [exact Ht|];
                    rewrite Hy, Hya, Hyb; cbn; rewrite app_nil_r; reflexivity
                end ]
    end.
Qed.

Theorem derives_right_nested ws : derives regex_g ws -> exists t, rnt 0 t /\ yield t = ws.
Proof.
  intros (t & X & Hroot & Hval & Hy). rewrite regex_root_symbol in Hroot. inversion Hroot; subst X.
  destruct (valid_right_nested t (NT 0) Hval ltac:(lia)) as (t' & Ht' & Hy'). exists t'. split; [assumption|congruence].
Qed.

(* ---------- the leaves of a right-nested tree are pattern terms ---------- *)
Lemma rnt_tokens_ok l t : rnt l t -> tokens_ok regex_g (yield t).
Proof.
  unfold tokens_ok. rewrite regex_eof_idx.
  induction 1; cbn [yield flat_map]; rewrite ?app_nil_r;
    repeat (apply Forall_app; split); repeat constructor; try assumption; try lia.
Qed.

(* ---------- a right-nested tree never needs the reduction the table lacks ---------- *)
Definition follow_ok (l : nat) (t : tree) (v : list nat) : Prop :=
  match l with
  | 0 => look regex_g v <> 5
  | 1 => look regex_g v <> 5 \/ exists c, t = Node 12 [c]
  | _ => True
  end.

Lemma regex_bad_other r t : r <> 13 -> regex_bad r t = false.
Proof. intros H. unfold regex_bad. apply Nat.eqb_neq in H. rewrite H. reflexivity. Qed.

Lemma rnt_tok l t : rnt l t -> forall v, follow_ok l t v -> tok regex_bad regex_g t v.
Proof.
  induction 1; intros v Hf.
  14: { (* rule 13 *)
    cbn in Hf. destruct Hf as [Hf|(c0 & Hc0)]; [|discriminate Hc0].
    apply tok_node; [unfold regex_bad; apply Nat.eqb_neq in Hf; rewrite Hf; reflexivity|].
    repeat constructor.
    + apply IHrnt1. exact I.
    + apply IHrnt2. cbn. left. exact Hf. }
  all: apply tok_node; [apply regex_bad_other; lia|]; repeat constructor.
  all: try (apply IHrnt; cbn; auto; fail).
  all: try (apply IHrnt1; exact I).
  all: try (apply IHrnt2; exact I).
  apply IHrnt. cbn. discriminate.
Qed.

(* ---------- size: at most 6 machine steps per token ---------- *)
Definition size_off (l : nat) : nat := match l with 0 => 0 | 1 => 1 | 2 => 2 | 3 => 3 | _ => 4 end.

Lemma rnt_size l t : rnt l t -> 1 <= length (yield t) /\ tsize t + size_off l <= 6 * length (yield t).
Proof.
  induction 1; cbn [tsize yield flat_map map list_sum size_off] in *; rewrite ?app_length; cbn [length];
    unfold list_sum; cbn [fold_right]; lia.
Qed.

(* ================================================================================================= *)
(* the table accepts every right-nested tree                                                          *)
(* ================================================================================================= *)
Theorem right_nested_accepted t : rnt 0 t ->
  exists s', msteps regex_g regex_tb (tsize t) ([0], [], yield t) ([s'; 0], [t], []) /\
             mstep regex_g regex_tb ([s'; 0], [t], []) = Acc t.
Proof.
  intros H. apply (lr_complete_except_steps regex_bad regex_g regex_sts regex_tb).
  - exact regex_table_validated_partial.
  - eapply rnt_tokens_ok; eassumption.
  - apply rnt_derives_tree; assumption.
  - eapply rnt_tok; [eassumption|]. vm_compute. discriminate.
Qed.

Corollary right_nested_mrun t : rnt 0 t -> mrun regex_g regex_tb (tsize t + 1) ([0], [], yield t) = Some t.
Proof.
  intros H. destruct (right_nested_accepted t H) as (s' & Hm & Ha).
  eapply msteps_mrun; [exact Hm|]. cbn [mrun]. rewrite Ha. reflexivity.
Qed.

(* the machine is a function: a sentence has exactly one right-nested derivation tree *)
Theorem right_nested_unique t1 t2 : rnt 0 t1 -> rnt 0 t2 -> yield t1 = yield t2 -> t1 = t2.
Proof.
  intros H1 H2 Hy. pose proof (right_nested_mrun t1 H1) as M1. pose proof (right_nested_mrun t2 H2) as M2.
  rewrite <- Hy in M2.
  apply (mrun_mono _ _ _ (tsize t2 + 1)) in M1. apply (mrun_mono _ _ _ (tsize t1 + 1)) in M2.
  rewrite (Nat.add_comm (tsize t2 + 1)) in M2. congruence.
Qed.

(* the grammar IS ambiguous: a|a|a has two derivation trees, so [lr_unique] cannot hold for it *)
Definition tree_a : tree := Node 12 [Node 10 [Node 5 [Node 3 [Leaf 1]]]].
Definition tree_left : tree := Node 14 [Node 13 [Node 13 [tree_a; Leaf 5; tree_a]; Leaf 5; tree_a]].
Definition tree_right : tree := Node 14 [Node 13 [tree_a; Leaf 5; Node 13 [tree_a; Leaf 5; tree_a]]].

Lemma valid_a : valid_tree regex_g (NT 1) tree_a.
Proof. apply rnt_valid. repeat constructor. Qed.

Theorem pattern_grammar_ambiguous :
  derives_tree regex_g tree_left [1; 5; 1; 5; 1] /\ derives_tree regex_g tree_right [1; 5; 1; 5; 1] /\ tree_left <> tree_right.
Proof.
  assert (R13 : is_rule regex_g 13 1 [NT 1; T 5; NT 1]) by exact (regex_mk_rule 2 _ _ eq_refl eq_refl).
  assert (R14 : is_rule regex_g 14 0 [NT 1]) by exact (regex_mk_rule 0 _ _ eq_refl eq_refl).
  split; [|split; [|discriminate]].
  - exists (NT 0). split; [exact regex_root_symbol|]. split; [|reflexivity].
    apply VNode with (rhs := [NT 1]); [exact R14|]. repeat constructor.
    apply VNode with (rhs := [NT 1; T 5; NT 1]); [exact R13|]. repeat constructor; try exact valid_a.
    apply VNode with (rhs := [NT 1; T 5; NT 1]); [exact R13|]. repeat constructor; exact valid_a.
  - exists (NT 0). split; [exact regex_root_symbol|]. split; [|reflexivity].
    apply VNode with (rhs := [NT 1]); [exact R14|]. repeat constructor.
    apply VNode with (rhs := [NT 1; T 5; NT 1]); [exact R13|]. repeat constructor; try exact valid_a.
    apply VNode with (rhs := [NT 1; T 5; NT 1]); [exact R13|]. repeat constructor; exact valid_a.
Qed.

Print Assumptions regex_table_validated_partial.
Print Assumptions derives_right_nested.
Print Assumptions right_nested_accepted.
Print Assumptions right_nested_unique.
Print Assumptions pattern_grammar_ambiguous.
