From Ctpg Require Import Base.Prelude Model.Containers Model.Grammar.
From Coq Require Import NArith Lia List Sorting.Permutation Sorting.Sorted.
Import ListNotations.

(* stdex::sort (a bubble sort that swaps only on strict <) terminates within size()+1 evaluations of the while
   condition and is the stable insertion sort `sort_ris` used by the grammar model. Everything is proved for every
   list, generically in a key function. *)

Section Generic.
Variable A : Type.
Variable key : A -> nat.

Definition kp (a b : A) : bool := Nat.ltb (key a) (key b).
Definition kle (a b : A) : Prop := key a <= key b.
Definition kf (k : nat) (a : A) : bool := Nat.eqb (key a) k.
(* stability: every key class keeps its elements and their relative order *)
Definition stable_perm (l l' : list A) : Prop := forall k, filter (kf k) l' = filter (kf k) l.

Lemma kle_trans : Relations_1.Transitive kle.
Proof. intros a b c Hab Hbc. unfold kle in *. lia. Qed.

Lemma stable_perm_refl : forall l, stable_perm l l.
Proof. intros l k. reflexivity. Qed.

Lemma stable_perm_trans : forall l1 l2 l3, stable_perm l1 l2 -> stable_perm l2 l3 -> stable_perm l1 l3.
Proof. intros l1 l2 l3 H12 H23 k. rewrite H23. apply H12. Qed.

Lemma filter_swap_neq : forall k x y l, key x <> key y ->
  filter (kf k) (x :: y :: l) = filter (kf k) (y :: x :: l).
Proof.
  intros k x y l Hne. simpl. unfold kf.
  destruct (Nat.eqb_spec (key x) k) as [Hx | Hx]; destruct (Nat.eqb_spec (key y) k) as [Hy | Hy];
    try reflexivity.
  exfalso. lia.
Qed.

(* ---------------------------------------------------------------- one pass *)

Lemma bubble_pass_perm : forall t x, Permutation (fst (bubble_pass kp x t)) (x :: t).
Proof.
  induction t as [| y t' IH]; intros x; simpl.
  - apply Permutation_refl.
  - destruct (kp y x) eqn:Hpyx.
    + specialize (IH x). destruct (bubble_pass kp x t') as [r s] eqn:Hp. simpl in *.
      eapply Permutation_trans; [apply perm_skip; exact IH | apply perm_swap].
    + specialize (IH y). destruct (bubble_pass kp y t') as [r s] eqn:Hp. simpl in *.
      apply perm_skip. exact IH.
Qed.

Lemma bubble_pass_stable : forall t x, stable_perm (x :: t) (fst (bubble_pass kp x t)).
Proof.
  induction t as [| y t' IH]; intros x k; simpl bubble_pass.
  - reflexivity.
  - destruct (kp y x) eqn:Hpyx.
    + specialize (IH x k). destruct (bubble_pass kp x t') as [r s] eqn:Hp.
      cbn [fst] in *.
      unfold kp in Hpyx. apply Nat.ltb_lt in Hpyx.
      rewrite (filter_swap_neq k x y t') by lia.
      change (filter (kf k) (y :: r)) with (if kf k y then y :: filter (kf k) r else filter (kf k) r).
      change (filter (kf k) (y :: x :: t')) with (if kf k y then y :: filter (kf k) (x :: t') else filter (kf k) (x :: t')).
      rewrite IH. reflexivity.
    + specialize (IH y k). destruct (bubble_pass kp y t') as [r s] eqn:Hp.
      cbn [fst] in *.
      change (filter (kf k) (x :: r)) with (if kf k x then x :: filter (kf k) r else filter (kf k) r).
      change (filter (kf k) (x :: y :: t')) with (if kf k x then x :: filter (kf k) (y :: t') else filter (kf k) (y :: t')).
      rewrite IH. reflexivity.
Qed.

(* swap = false iff nothing moved and the container is already sorted *)
Lemma bubble_pass_false : forall t x, snd (bubble_pass kp x t) = false ->
  fst (bubble_pass kp x t) = x :: t /\ Sorted kle (x :: t).
Proof.
  induction t as [| y t' IH]; intros x Hs; simpl in *.
  - split; [reflexivity | repeat constructor].
  - destruct (kp y x) eqn:Hpyx.
    + destruct (bubble_pass kp x t') as [r s]. simpl in Hs. discriminate.
    + specialize (IH y). destruct (bubble_pass kp y t') as [r s] eqn:Hp. simpl in *.
      destruct (IH Hs) as [Hr Hsorted]. split.
      * rewrite Hr. reflexivity.
      * constructor; [exact Hsorted |]. constructor.
        unfold kp in Hpyx. apply Nat.ltb_ge in Hpyx. unfold kle. exact Hpyx.
Qed.

Lemma bubble_pass_sorted_false : forall t x, Sorted kle (x :: t) -> snd (bubble_pass kp x t) = false.
Proof.
  induction t as [| y t' IH]; intros x Hsorted; simpl.
  - reflexivity.
  - inversion Hsorted as [| a l Htl Hhd]; subst.
    inversion Hhd as [| b l Hxy]; subst. unfold kle in Hxy.
    destruct (kp y x) eqn:Hpyx; [unfold kp in Hpyx; apply Nat.ltb_lt in Hpyx; lia |].
    specialize (IH y Htl). destruct (bubble_pass kp y t') as [r s]. simpl in *. exact IH.
Qed.

(* the largest element ends up last *)
Lemma bubble_pass_last : forall t x, exists r' m,
  fst (bubble_pass kp x t) = r' ++ [m] /\ length r' = length t /\ key x <= key m /\
  (forall a, In a r' -> key a <= key m).
Proof.
  induction t as [| y t' IH]; intros x; simpl.
  - exists [], x. simpl. split; [reflexivity |]. split; [reflexivity |]. split; [lia |]. intros a [].
  - destruct (kp y x) eqn:Hpyx; unfold kp in Hpyx.
    + apply Nat.ltb_lt in Hpyx.
      destruct (IH x) as [r' [m [Hr [Hlen [Hxm Hdom]]]]].
      destruct (bubble_pass kp x t') as [r s]. simpl in *.
      exists (y :: r'), m. subst r. simpl.
      split; [reflexivity |]. split; [lia |]. split; [lia |].
      intros a [Ha | Ha]; [subst a; lia | apply Hdom; exact Ha].
    + apply Nat.ltb_ge in Hpyx.
      destruct (IH y) as [r' [m [Hr [Hlen [Hym Hdom]]]]].
      destruct (bubble_pass kp y t') as [r s]. simpl in *.
      exists (x :: r'), m. subst r. simpl.
      split; [reflexivity |]. split; [lia |]. split; [lia |].
      intros a [Ha | Ha]; [subst a; lia | apply Hdom; exact Ha].
Qed.

(* a final element that dominates the rest is never touched by a pass *)
Lemma bubble_pass_app_max : forall t x m, (forall a, In a (x :: t) -> key a <= key m) ->
  bubble_pass kp x (t ++ [m]) = (fst (bubble_pass kp x t) ++ [m], snd (bubble_pass kp x t)).
Proof.
  induction t as [| y t' IH]; intros x m Hdom; simpl.
  - unfold kp. destruct (Nat.ltb_spec (key m) (key x)) as [Hlt | Hge].
    + assert (Hx : key x <= key m) by (apply Hdom; left; reflexivity). lia.
    + reflexivity.
  - destruct (kp y x) eqn:Hpyx.
    + rewrite (IH x m).
      * destruct (bubble_pass kp x t') as [r s]. reflexivity.
      * intros a [Ha | Ha]; apply Hdom; [left; exact Ha | right; right; exact Ha].
    + rewrite (IH y m).
      * destruct (bubble_pass kp y t') as [r s]. reflexivity.
      * intros a Ha. apply Hdom. right. exact Ha.
Qed.

(* ---------------------------------------------------------------- the while loop: partial correctness *)

Lemma bubble_loop_correct : forall fuel l r, bubble_loop kp fuel l = Some r ->
  Sorted kle r /\ Permutation r l /\ stable_perm l r.
Proof.
  induction fuel as [| f IH]; intros l r Hloop; simpl in Hloop.
  - discriminate.
  - destruct l as [| x t].
    + inversion Hloop; subst. split; [apply Sorted_nil |]. split; [apply Permutation_refl | apply stable_perm_refl].
    + pose proof (bubble_pass_perm t x) as Hperm.
      pose proof (bubble_pass_stable t x) as Hstab.
      pose proof (bubble_pass_false t x) as Hfalse.
      destruct (bubble_pass kp x t) as [l' s] eqn:Hp. simpl in *.
      destruct s.
      * destruct (IH l' r Hloop) as [Hs [Hpm Hst]].
        split; [exact Hs |]. split.
        -- eapply Permutation_trans; [exact Hpm | exact Hperm].
        -- eapply stable_perm_trans; [exact Hstab | exact Hst].
      * inversion Hloop; subst r. destruct (Hfalse eq_refl) as [Heq Hsorted]. subst l'.
        split; [exact Hsorted |]. split; [apply Permutation_refl | apply stable_perm_refl].
Qed.

(* ---------------------------------------------------------------- the while loop: termination within the fuel *)

Lemma bubble_loop_app_max : forall fuel l m, l <> [] -> (forall a, In a l -> key a <= key m) ->
  bubble_loop kp fuel (l ++ [m]) = option_map (fun z => z ++ [m]) (bubble_loop kp fuel l).
Proof.
  induction fuel as [| f IH]; intros l m Hne Hdom; simpl.
  - reflexivity.
  - destruct l as [| x t]; [congruence |].
    change ((x :: t) ++ [m]) with (x :: (t ++ [m])). cbv iota beta.
    rewrite (bubble_pass_app_max t x m Hdom).
    pose proof (bubble_pass_perm t x) as Hperm.
    destruct (bubble_pass kp x t) as [l' s] eqn:Hp. simpl in *.
    destruct s; [| reflexivity].
    apply IH.
    + intros Hnil. subst l'. apply Permutation_nil in Hperm. discriminate.
    + intros a Ha. apply Hdom. change (In a (x :: t)). eapply Permutation_in; [exact Hperm | exact Ha].
Qed.

Lemma bubble_loop_terminates : forall n l fuel, length l = n -> n <= fuel -> 1 <= fuel ->
  exists r, bubble_loop kp fuel l = Some r.
Proof.
  induction n as [| n IH]; intros l fuel Hlen Hfuel Hpos.
  - destruct l; [| discriminate]. destruct fuel as [| f]; [lia |]. exists []. reflexivity.
  - destruct l as [| x t]; [discriminate |]. simpl in Hlen.
    destruct fuel as [| f]; [lia |]. simpl.
    destruct (bubble_pass_last t x) as [r' [m [Hr [Hlen' [Hxm Hdom]]]]].
    pose proof (bubble_pass_sorted_false t x) as Hsf.
    destruct (bubble_pass kp x t) as [l' s] eqn:Hp. simpl in *.
    destruct s; [| exists l'; reflexivity].
    subst l'.
    destruct r' as [| a0 r''].
    + (* single element: the pass cannot have swapped *)
      destruct t; [| discriminate]. simpl in Hp. inversion Hp.
    + rewrite (bubble_loop_app_max f (a0 :: r'') m) by (congruence || exact Hdom).
      destruct (IH (a0 :: r'') f) as [r Hr']; [lia | lia | simpl in Hlen'; lia |].
      rewrite Hr'. simpl. eexists. reflexivity.
Qed.

(* ---------------------------------------------------------------- sorted + stable determines the list *)

Lemma filter_kf_In : forall k l a, In a (filter (kf k) l) -> In a l /\ key a = k.
Proof.
  intros k l a Ha. apply filter_In in Ha. destruct Ha as [Hin Hk]. split; [exact Hin |].
  unfold kf in Hk. apply Nat.eqb_eq in Hk. exact Hk.
Qed.

Lemma filter_kf_head : forall a l, filter (kf (key a)) (a :: l) = a :: filter (kf (key a)) l.
Proof. intros a l. simpl. unfold kf. rewrite Nat.eqb_refl. reflexivity. Qed.

(* if b heads a sorted list that is stable-equivalent to a sorted a :: l1, then key a <= key b *)
Lemma head_key_le : forall a l1 b l2, Sorted kle (a :: l1) ->
  filter (kf (key b)) (a :: l1) = filter (kf (key b)) (b :: l2) -> key a <= key b.
Proof.
  intros a l1 b l2 Hs Hf. rewrite (filter_kf_head b l2) in Hf.
  assert (Hin : In b (filter (kf (key b)) (a :: l1))) by (rewrite Hf; left; reflexivity).
  apply filter_In in Hin. destruct Hin as [Hin _].
  destruct Hin as [Hab | Hin]; [subst; lia |].
  pose proof (Sorted_extends kle_trans Hs) as Hall.
  rewrite Forall_forall in Hall. apply Hall in Hin. exact Hin.
Qed.

Lemma sorted_stable_unique : forall l1 l2, Sorted kle l1 -> Sorted kle l2 ->
  (forall k, filter (kf k) l1 = filter (kf k) l2) -> l1 = l2.
Proof.
  induction l1 as [| a l1' IH]; intros l2 Hs1 Hs2 Hf.
  - destruct l2 as [| b l2']; [reflexivity |].
    specialize (Hf (key b)). rewrite filter_kf_head in Hf. simpl in Hf. discriminate.
  - destruct l2 as [| b l2'].
    + specialize (Hf (key a)). rewrite filter_kf_head in Hf. simpl in Hf. discriminate.
    + assert (Hab : key a <= key b) by (eapply head_key_le; [exact Hs1 | apply Hf]).
      assert (Hba : key b <= key a) by (eapply head_key_le; [exact Hs2 | symmetry; apply Hf]).
      assert (Hk : key b = key a) by lia.
      assert (Heq : a = b).
      { pose proof (Hf (key a)) as Hfa. rewrite filter_kf_head in Hfa.
        rewrite <- Hk in Hfa at 2. rewrite filter_kf_head in Hfa. inversion Hfa. reflexivity. }
      subst b. f_equal. apply IH.
      * inversion Hs1; assumption.
      * inversion Hs2; assumption.
      * intros k. specialize (Hf k). simpl in Hf. destruct (kf k a); [inversion Hf; reflexivity | exact Hf].
Qed.

(* ---------------------------------------------------------------- the stable insertion sort *)

Fixpoint kinsert (x : A) (l : list A) : list A :=
  match l with
  | [] => [x]
  | y :: t => if Nat.leb (key x) (key y) then x :: y :: t else y :: kinsert x t
  end.
Definition isort (l : list A) : list A := fold_right kinsert [] l.

Lemma kinsert_stable : forall x l, stable_perm (x :: l) (kinsert x l).
Proof.
  intros x l. induction l as [| y t IH]; intros k; simpl kinsert.
  - reflexivity.
  - destruct (Nat.leb_spec (key x) (key y)) as [Hle | Hgt].
    + reflexivity.
    + rewrite (filter_swap_neq k x y t) by lia.
      change (filter (kf k) (y :: kinsert x t)) with
        (if kf k y then y :: filter (kf k) (kinsert x t) else filter (kf k) (kinsert x t)).
      change (filter (kf k) (y :: x :: t)) with
        (if kf k y then y :: filter (kf k) (x :: t) else filter (kf k) (x :: t)).
      rewrite (IH k). reflexivity.
Qed.

Lemma kinsert_perm : forall x l, Permutation (kinsert x l) (x :: l).
Proof.
  intros x l. induction l as [| y t IH]; simpl.
  - apply Permutation_refl.
  - destruct (Nat.leb (key x) (key y)).
    + apply Permutation_refl.
    + eapply Permutation_trans; [apply perm_skip; exact IH | apply perm_swap].
Qed.

Lemma kinsert_hdrel : forall a x l, kle a x -> HdRel kle a l -> HdRel kle a (kinsert x l).
Proof.
  intros a x l Hax Hhd. destruct l as [| y t]; simpl.
  - constructor. exact Hax.
  - destruct (Nat.leb (key x) (key y)).
    + constructor. exact Hax.
    + inversion Hhd; subst. constructor. assumption.
Qed.

Lemma kinsert_sorted : forall x l, Sorted kle l -> Sorted kle (kinsert x l).
Proof.
  intros x l Hs. induction Hs as [| y t Hst IH Hhd]; simpl.
  - repeat constructor.
  - destruct (Nat.leb_spec (key x) (key y)) as [Hle | Hgt].
    + constructor; [constructor; assumption |]. constructor. exact Hle.
    + constructor; [exact IH |]. apply kinsert_hdrel; [unfold kle; lia | exact Hhd].
Qed.

Lemma isort_sorted : forall l, Sorted kle (isort l).
Proof.
  induction l as [| x t IH]; simpl; [constructor | apply kinsert_sorted; exact IH].
Qed.

Lemma isort_perm : forall l, Permutation (isort l) l.
Proof.
  induction l as [| x t IH]; simpl; [constructor |].
  eapply Permutation_trans; [apply kinsert_perm | apply perm_skip; exact IH].
Qed.

Lemma isort_stable : forall l, stable_perm l (isort l).
Proof.
  induction l as [| x t IH]; intros k; simpl isort; [reflexivity |].
  rewrite (kinsert_stable x (isort t) k).
  change (filter (kf k) (x :: isort t)) with (if kf k x then x :: filter (kf k) (isort t) else filter (kf k) (isort t)).
  change (filter (kf k) (x :: t)) with (if kf k x then x :: filter (kf k) t else filter (kf k) t).
  rewrite (IH k). reflexivity.
Qed.

(* ---------------------------------------------------------------- stdex::sort *)

(* partial correctness for every fuel *)
Theorem bubble_loop_is_isort : forall fuel l r, bubble_loop kp fuel l = Some r -> r = isort l.
Proof.
  intros fuel l r Hloop. destruct (bubble_loop_correct fuel l r Hloop) as [Hs [_ Hst]].
  apply sorted_stable_unique; [exact Hs | apply isort_sorted |].
  intros k. rewrite (Hst k). symmetry. apply isort_stable.
Qed.

Theorem stdex_sort_total : forall l, l <> [] -> exists r, stdex_sort kp l = Ok r.
Proof.
  intros l Hne. unfold stdex_sort. destruct l as [| x t]; [congruence |].
  destruct (bubble_loop_terminates (length (x :: t)) (x :: t) (S (length (x :: t))) eq_refl) as [r Hr];
    [lia | lia |].
  rewrite Hr. exists r. reflexivity.
Qed.

Theorem stdex_sort_is_isort : forall l, l <> [] -> stdex_sort kp l = Ok (isort l).
Proof.
  intros l Hne. destruct (stdex_sort_total l Hne) as [r Hr]. rewrite Hr. f_equal.
  unfold stdex_sort in Hr. destruct l as [| x t]; [congruence |].
  destruct (bubble_loop kp (S (length (x :: t))) (x :: t)) as [r0 |] eqn:Hloop; [| discriminate].
  inversion Hr; subst r0. eapply bubble_loop_is_isort. exact Hloop.
Qed.

Theorem stdex_sort_sorted_perm : forall l, l <> [] ->
  exists r, stdex_sort kp l = Ok r /\ Sorted kle r /\ Permutation r l /\ stable_perm l r.
Proof.
  intros l Hne. exists (isort l). split; [apply stdex_sort_is_isort; exact Hne |].
  split; [apply isort_sorted |]. split; [apply isort_perm | apply isort_stable].
Qed.

(* the sort is idempotent-detecting: on a sorted container one evaluation of the body suffices *)
Theorem bubble_loop_sorted_one_pass : forall l, Sorted kle l -> bubble_loop kp 1 l = Some l.
Proof.
  intros l Hs. destruct l as [| x t]; simpl; [reflexivity |].
  pose proof (bubble_pass_sorted_false t x Hs) as Hsf.
  pose proof (bubble_pass_false t x) as Hfalse.
  destruct (bubble_pass kp x t) as [l' s]. simpl in *. subst s.
  destruct (Hfalse eq_refl) as [Heq _]. subst l'. reflexivity.
Qed.

End Generic.

(* ---------------------------------------------------------------- the instance used by the grammar model *)

Theorem stdex_sort_empty_undefined : forall A (p : A -> A -> bool), stdex_sort p [] = Undef.
Proof. intros A p. reflexivity. Qed.

Lemma kinsert_is_insert_ri : forall x l, kinsert rule_info ri_l x l = insert_ri x l.
Proof.
  intros x l. induction l as [| y t IH]; simpl; [reflexivity |]. rewrite IH. reflexivity.
Qed.

Lemma isort_is_sort_ris : forall l, isort rule_info ri_l l = sort_ris l.
Proof.
  induction l as [| x t IH]; simpl; [reflexivity |].
  unfold sort_ris in IH. rewrite IH. apply kinsert_is_insert_ri.
Qed.

Theorem stdex_sort_is_sort_ris : forall l, l <> [] ->
  stdex_sort (fun a b => Nat.ltb (ri_l a) (ri_l b)) l = Ok (sort_ris l).
Proof.
  intros l Hne. rewrite <- isort_is_sort_ris.
  exact (stdex_sort_is_isort rule_info ri_l l Hne).
Qed.

(* partial correctness for every fuel, independent of the termination argument *)
Theorem stdex_sort_partial_correct : forall fuel l r,
  bubble_loop (fun a b => Nat.ltb (ri_l a) (ri_l b)) fuel l = Some r -> r = sort_ris l.
Proof.
  intros fuel l r Hloop. rewrite <- isort_is_sort_ris.
  exact (bubble_loop_is_isort rule_info ri_l fuel l r Hloop).
Qed.

(* the fuel S (length l) is tight up to one: a reverse-sorted container of n elements needs n evaluations of the body *)
Example stdex_sort_worst_case :
  let l := map (fun k => mkRI k 0 0) [5; 4; 3; 2; 1; 0] in
  bubble_loop (fun a b => Nat.ltb (ri_l a) (ri_l b)) 5 l = None /\
  bubble_loop (fun a b => Nat.ltb (ri_l a) (ri_l b)) 6 l = Some (sort_ris l).
Proof. vm_compute. split; reflexivity. Qed.

Print Assumptions stdex_sort_is_sort_ris.
Print Assumptions stdex_sort_sorted_perm.
Print Assumptions stdex_sort_partial_correct.
