(* R3, the lexer-laziness corollary (generic driver): when the syntax error is written the driver has consumed a
   prefix [pre] of the token stream of [tokenize] and the offending term is the NEXT token of that stream (or <eof>
   at its end); the lexeme window [ps_it, ps_end) of the driver is exactly that token: nothing behind the offending
   token has been looked at. *)
Require Import Ctpg.Base.Prelude Ctpg.Model.Grammar Ctpg.Model.LRGen Ctpg.Model.Driver Ctpg.Spec.Eval
               Ctpg.Valid.LRValid Ctpg.Proofs.DriverBasics Ctpg.Proofs.DriverPos Ctpg.Proofs.DriverTokens
               Ctpg.Proofs.ReportOne.

Section Lazy.
  Variables V C : Type.
  Variable g : grammar.
  Variable tbl : table.
  Variable opts : options.
  Variable buf : list nat.
  Variable cap : option nat.
  Variable lexer : lexer_t.
  Variable term_f : nat -> nat -> nat -> spoint -> V.
  Variable err_f : spoint -> V.
  Variable rule_f : nat -> C -> list V -> C * V.

  Hypothesis lexer_ok : lexer_in_range lexer.
  Hypothesis sp_ok : eof_err_not_shifted g tbl \/ sp_indep lexer.
  Hypothesis Hnoerr : no_error_symbol g tbl = true.

  Notation pst := (pstate V C).
  Notation stepx := (step V C g tbl opts buf cap lexer term_f err_f rule_f).
  Notation run_ghx := (run_gh V C g tbl opts buf cap lexer term_f err_f rule_f).
  Notation tinv := (tok_inv V C g opts buf lexer).
  Notation spinv := (sp_inv V C g tbl buf).

  Lemma run_tok_sp_inv fuel c :
    let '(_, _, _, vis) := run_ghx fuel (init c) [] [] in Forall (fun s => tinv s /\ spinv s) vis.
  Proof.
    pose proof (run_gh_sinv V C g tbl opts buf cap lexer term_f err_f rule_f
                  (fun s => tinv s /\ spinv s) (fun _ _ => True) (fun _ _ => I)) as H.
    assert (Hst : forall s, tinv s /\ spinv s ->
               match fst (stepx s) with inl s' => tinv s' /\ spinv s' | inr (r, s') => True end).
    { intros s [H1 H2].
      pose proof (step_tok_inv V C g tbl opts buf cap lexer term_f err_f rule_f lexer_ok sp_ok s H2 H1) as H3.
      pose proof (step_sp V C g tbl opts buf cap lexer term_f err_f rule_f lexer_ok sp_ok s H2) as H4.
      destruct (fst (stepx s)) as [s'|[r s']]; auto. }
    specialize (H Hst fuel (init c) [] [] (tok_inv_init V C g tbl opts buf lexer c) (Forall_nil _)).
    destruct (run_ghx fuel (init c) [] []) as [[[r s'] out] vis]. apply H.
  Qed.

  (* the state of the driver when the syntax error (p, t) is written by the iteration of loop-head state se:
     s1 is the state after get_current_term *)
  Theorem syntax_error_lexer_lazy fuel c :
    let '(r, s', out, vis) := run_ghx fuel (init c) [] [] in
    forall se p t, In se vis -> enter_step V C g tbl opts buf cap lexer term_f err_f rule_f se p t ->
      exists s1 ev1 pre pos,
        get_current_term V C g opts buf lexer se = (s1, Some t, ev1) /\
        consumed_upto opts buf lexer pre pos /\
        ((exists start len, next_tok opts buf lexer pos (t, start, len) /\
                            ps_it s1 = start /\ ps_end s1 = start + len) \/
         (t = eof_idx g /\ skipn (pos + wsk opts buf pos) buf = [] /\ ps_it s1 = pos + wsk opts buf pos /\ ps_end s1 = pos)).
  Proof.
    pose proof (run_tok_sp_inv fuel c) as H.
    destruct (run_ghx fuel (init c) [] []) as [[[r s'] out] vis].
    intros se p t Hin (Hrec & s1 & cursor & ev1 & Hent & _ & _).
    rewrite Forall_forall in H. destruct (H se Hin) as [(pre & pos & Hc & Hat) Hsp].
    destruct Hent as (_ & Hg & _ & _ & _ & Hr1 & Ht1).
    pose proof (gct_spec_holds V C g opts buf lexer se) as Hgs. rewrite Hg in Hgs.
    pose proof (gct_tok V C g tbl opts buf lexer lexer_ok sp_ok pos se s1 t ev1 Hsp Hat Hgs) as Hat1.
    exists s1, ev1, pre, pos. split; [exact Hg|]. split; [assumption|].
    destruct Hat1 as [H1 H2|t' len H1 H2 H3|H1 H2 H3 H4].
    - (* on the boundary with a term known: only <eof> found without skipping anything *)
      right. inversion Hgs as [Hr|Hr Hne|sp1 it1 Hr He Hit1 Hsp1 Hsk|sp1 it1 c0 rest lx Hr He Hit1 Hsp1 Hsk Hlx|sp1 it1 c0 rest lx t' len Hr He Hit1 Hsp1 Hsk Hlx]; subst.
      + congruence.
      + exfalso. apply Hne. congruence.
      + cbn [ps_it ps_end set_pos] in *.
        assert (Hw : wsk opts buf (ps_it se) = 0) by lia.
        rewrite !Hw, !Nat.add_0_r in *. rewrite !Hw, !Nat.add_0_r. auto.
      + cbn [ps_it ps_end set_pos] in *. destruct (lexer_ok _ _ _ _ _ (f_equal snd Hlx)) as [Hl _]. lia.
    - left. rewrite Ht1 in H3. inversion H3; subst t'. exists (ps_it s1), len. auto.
    - right. rewrite Ht1 in H4. inversion H4. auto.
  Qed.
End Lazy.

Print Assumptions syntax_error_lexer_lazy.
