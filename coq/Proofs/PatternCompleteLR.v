(* Completeness of the LR machine for tables with RESOLVED shift/reduce conflicts, relative to a set [bad] of
   (rule, lookahead) pairs whose reduction the table may lack (the cells where the conflict was resolved in favour of the
   shift): every derivation tree that never needs such a reduction ([tok]) is accepted by the abstract machine, in
   exactly (number of leaves + number of nodes + 1) steps.
   The proof is that of Proofs/LRComplete.v ([complete_mrun]) with [cf_reduce] weakened and the step count made explicit;
   with [bad = fun _ _ => false] it is that theorem. Used by Proofs/PatternComplete.v for the pattern grammar, whose
   table has the resolved conflict of  alt -> alt '|' alt . *)
Require Import Ctpg.Base.Prelude Ctpg.Model.Grammar Ctpg.Model.LRGen Ctpg.Model.Driver
               Ctpg.Spec.Cfg Ctpg.Spec.LRSpec Ctpg.Valid.LRValid
               Ctpg.Proofs.LRReflect Ctpg.Proofs.LRMachine Ctpg.Proofs.LRValidFacts Ctpg.Proofs.LRSound
               Ctpg.Proofs.LRComplete.

(* ---------- the boolean check: [table_ok] of Valid/LRValid.v, except that a completed item whose (rule, lookahead)
   is in [bad] need not have its reduction in the table ---------- *)
Section CheckX.
  Variable bad : nat -> nat -> bool.      (* r_idx of the rule, lookahead term *)
  Variable g : grammar.
  Variable sts : list items.
  Variable tbl : table.

  Definition reduce_okx (s : nat) : bool :=
    forallb (fun i =>
      if is_complete g i then
        let e := cell_at tbl s (col_of_term g (it_t i)) in
        if Nat.eqb (it_r i) (root_rule_idx g)
        then kind_eqb (e_kind e) KSuccess && Nat.eqb (it_t i) (eof_idx g)
        else bad (ri_r (get_ri g (it_r i))) (it_t i) ||
             (kind_eqb (e_kind e) KReduce && match e_arg e with Some r => Nat.eqb r (it_r i) | None => false end)
      else true) (state_items sts s).

  Definition table_okx (ne : bset) (nf : list bset) : bool :=
    table_sound_ok g sts tbl && tables_closed g ne nf &&
    forallb (fun s => closure_ok g sts ne nf s && goto_ok g sts tbl s && reduce_okx s) (seq 0 (length sts)).
End CheckX.

Definition validate_except (bad : nat -> nat -> bool) (g : grammar) (sts : list items) (tbl : table) : bool :=
  let ne := nterm_empty g in
  let nf := nterm_first g ne in
  table_okx bad g sts tbl ne nf.

Record completex_facts (bad : nat -> nat -> bool) (g : grammar) (sts : list items) (tbl : table) (ne : bset) (nf : list bset) : Prop := {
  cx_sound : sound_facts g sts tbl;
  cx_len_nf : length nf = nterm_count g;
  cx_nf_len : forall f, In f nf -> length f = term_count g;
  cx_null_closed : forall ri, In ri (rule_infos g) ->
      all_nullable ne (get_rhs g (ri_r ri)) = true -> bset_test ne (ri_l ri) = true;
  cx_first_closed : forall ri t, In ri (rule_infos g) -> t < term_count g ->
      bset_test (first_of_syms g ne nf (bset_empty (term_count g)) (get_rhs g (ri_r ri))) t = true ->
      bset_test (nth (ri_l ri) nf []) t = true;
  cx_closure : forall s i b, s < length sts -> In i (state_items sts s) ->
      next_sym g i = Some (NT b) -> is_complete g i = false ->
      forall k t', k < snd (nth b (slices g) (0, 0)) -> t' < term_count g ->
        bset_test (first_tail g ne nf (skipn (S (it_d i)) (rhs_of g i)) (it_t i)) t' = true ->
        In (mkItem (fst (nth b (slices g) (0, 0)) + k) 0 t') (state_items sts s);
  cx_goto : forall s i, s < length sts -> In i (state_items sts s) -> is_complete g i = false ->
      exists x s', next_sym g i = Some x /\ goto_target g tbl s x = Some s' /\ s' < length sts /\
                   In (mkItem (it_r i) (S (it_d i)) (it_t i)) (state_items sts s');
  cx_reduce : forall s i, s < length sts -> In i (state_items sts s) -> is_complete g i = true ->
      (it_r i = root_rule_idx g -> e_kind (cell_at tbl s (nterm_count g + it_t i)) = KSuccess) /\
      (it_r i <> root_rule_idx g -> bad (ri_r (get_ri g (it_r i))) (it_t i) = false ->
       e_kind (cell_at tbl s (nterm_count g + it_t i)) = KReduce /\
       e_arg (cell_at tbl s (nterm_count g + it_t i)) = Some (it_r i))
}.
Arguments cx_sound {bad g sts tbl ne nf}. Arguments cx_null_closed {bad g sts tbl ne nf}.
Arguments cx_first_closed {bad g sts tbl ne nf}. Arguments cx_closure {bad g sts tbl ne nf}.
Arguments cx_goto {bad g sts tbl ne nf}. Arguments cx_reduce {bad g sts tbl ne nf}.

Lemma completex_facts_of bad g sts tbl ne nf : table_okx bad g sts tbl ne nf = true -> completex_facts bad g sts tbl ne nf.
Proof.
  intros H. unfold table_okx in H. apply andb_true_iff in H. destruct H as [H Hst].
  apply andb_true_iff in H. destruct H as [Hs Htc]. rewrite forallb_seq0 in Hst.
  unfold tables_closed in Htc. andb_split.
  repeat match goal with H : Nat.eqb _ _ = true |- _ => apply Nat.eqb_eq in H end.
  match goal with H : forallb (fun f => Nat.eqb (length f) _) nf = true |- _ => rename H into Hfl end.
  match goal with H : forallb _ (rule_infos g) = true |- _ => rename H into Hcl end.
  rewrite forallb_forall in Hfl, Hcl.
  constructor.
  - apply sound_facts_of. assumption.
  - assumption.
  - intros f Hf. apply Nat.eqb_eq. apply Hfl. assumption.
  - intros ri Hri Hn. specialize (Hcl ri Hri). apply andb_true_iff in Hcl. destruct Hcl as [Hcl _].
    rewrite Hn in Hcl. cbn in Hcl. assumption.
  - intros ri t Hri Ht Hb. specialize (Hcl ri Hri). apply andb_true_iff in Hcl. destruct Hcl as [_ Hcl].
    rewrite forallb_seq0 in Hcl. specialize (Hcl t Ht). rewrite Hb in Hcl. cbn in Hcl. assumption.
  - (* closure *)
    intros s i b Hs' Hi Hnx Hic k t' Hk Ht' Hb. specialize (Hst s Hs'). andb_split.
    match goal with H : closure_ok g sts ne nf s = true |- _ => rename H into Hc end.
    unfold closure_ok in Hc. rewrite forallb_forall in Hc. specialize (Hc i Hi).
    rewrite Hnx, Hic in Hc. destruct (nth b (slices g) (0, 0)) as [st n]. cbn [fst snd] in *.
    rewrite forallb_seq0 in Hc. specialize (Hc k Hk). rewrite forallb_seq0 in Hc. specialize (Hc t' Ht').
    rewrite Hb in Hc. cbn in Hc. apply mem_item_In. assumption.
  - (* goto *)
    intros s i Hs' Hi Hic. specialize (Hst s Hs'). andb_split.
    match goal with H : goto_ok g sts tbl s = true |- _ => rename H into Hc end.
    unfold goto_ok in Hc. rewrite forallb_forall in Hc. specialize (Hc i Hi). rewrite Hic in Hc.
    destruct (next_sym g i) as [x|]; [|discriminate]. destruct (goto_target g tbl s x) as [s'|] eqn:Eg; [|discriminate].
    exists x, s'. apply andb_true_iff in Hc. destruct Hc as [Hc1 Hc2]. apply Nat.ltb_lt in Hc1.
    apply mem_item_In in Hc2. auto.
  - (* reduce *)
    intros s i Hs' Hi Hic. specialize (Hst s Hs'). andb_split.
    match goal with H : reduce_okx bad g sts tbl s = true |- _ => rename H into Hc end.
    unfold reduce_okx in Hc. rewrite forallb_forall in Hc. specialize (Hc i Hi). rewrite Hic in Hc.
    unfold col_of_term in Hc. split.
    + intros Hr. apply Nat.eqb_eq in Hr. rewrite Hr in Hc. apply andb_true_iff in Hc. destruct Hc as [Hc _].
      apply kind_eqb_eq. assumption.
    + intros Hr Hbad. apply Nat.eqb_neq in Hr. rewrite Hr, Hbad in Hc. cbn [orb] in Hc.
      apply andb_true_iff in Hc. destruct Hc as [Hc1 Hc2].
      apply kind_eqb_eq in Hc1. split; [assumption|].
      destruct (e_arg (cell_at tbl s (nterm_count g + it_t i))) as [r|]; [|discriminate].
      apply Nat.eqb_eq in Hc2. congruence.
Qed.

(* number of machine steps a tree costs: one shift per leaf, one reduction per node *)
Fixpoint tsize (t : tree) : nat :=
  match t with
  | Leaf _ => 1
  | Node _ ch => S (list_sum (map tsize ch))
  end.

Section CompleteX.
  Variable bad : nat -> nat -> bool.
  Variable g : grammar.
  Variable sts : list items.
  Variable tbl : table.
  Variable ne : bset.
  Variable nf : list bset.
  Hypothesis CF : completex_facts bad g sts tbl ne nf.

  (* the tree, followed by the terms v, never needs a reduction the table may lack *)
  Inductive tok : tree -> list nat -> Prop :=
  | tok_leaf a v : tok (Leaf a) v
  | tok_node r ch v : bad r (look g v) = false -> toks ch v -> tok (Node r ch) v
  with toks : list tree -> list nat -> Prop :=
  | toks_nil v : toks [] v
  | toks_cons c cs v : tok c (flat_map yield cs ++ v) -> toks cs v -> toks (c :: cs) v.

  Let SF : sound_facts g sts tbl := cx_sound CF.
  Notation items_of := (state_items sts).
  Notation tc := (term_count g).

  (* ---------- the checked nullable / FIRST tables contain the true ones ---------- *)
  Definition nf_sound (t : tree) : Prop :=
    forall X, valid_tree g X t ->
      (yield t = [] -> exists l, X = NT l /\ bset_test ne l = true) /\
      (forall a u, yield t = a :: u -> a < tc ->
                   match X with T b => a = b | NT l => bset_test (nth l nf []) a = true end).

  Lemma nullable_list beta trees :
    Forall2 (valid_tree g) beta trees -> Forall nf_sound trees ->
    flat_map yield trees = [] -> all_nullable ne beta = true.
  Proof.
    induction 1 as [|x t beta trees Hx Hrest IH]; intros Hall Hy; cbn in *; [reflexivity|].
    inversion Hall as [|? ? Ht Hts]; subst. apply app_eq_nil in Hy. destruct Hy as [Hy1 Hy2].
    destruct (Ht x Hx) as [Hn _]. destruct (Hn Hy1) as (l & El & Hl). subst x.
    rewrite Hl. cbn. apply IH; assumption.
  Qed.

  Lemma nth_nf_default l a : bset_test (nth l nf []) a = true -> nth l nf (bset_empty tc) = nth l nf [].
  Proof.
    intros H. apply nth_indep. destruct (Nat.lt_ge_cases l (length nf)) as [|Hge]; [assumption|].
    rewrite (nth_overflow nf [] Hge) in H. unfold bset_test in H. destruct a; discriminate.
  Qed.

  Lemma first_list beta trees :
    Forall2 (valid_tree g) beta trees -> Forall nf_sound trees ->
    forall a u acc, flat_map yield trees = a :: u -> a < tc -> length acc = tc ->
                    bset_test (first_of_syms g ne nf acc beta) a = true.
  Proof.
    induction 1 as [|x t beta trees Hx Hrest IH]; intros Hall a u acc Hy Ha Hacc; cbn in Hy; [discriminate|].
    inversion Hall as [|? ? Ht Hts]; subst. destruct (Ht x Hx) as [Hn Hf].
    destruct (yield t) as [|b u'] eqn:Ey.
    - destruct (Hn eq_refl) as (l & El & Hl). subst x. cbn. rewrite Hl.
      apply (IH Hts a u); [assumption|assumption|]. rewrite bset_or_length. assumption.
    - cbn in Hy. inversion Hy; subst b. specialize (Hf a u' eq_refl Ha). destruct x as [b|l]; cbn.
      + subst b. apply bset_set_same. lia.
      + assert (bset_test (bset_or acc (nth l nf (bset_empty tc))) a = true) as Hor.
        { apply bset_or_mono_r; [lia|]. rewrite (nth_nf_default _ _ Hf). assumption. }
        destruct (bset_test ne l); [apply first_of_syms_mono|]; assumption.
  Qed.

  Lemma nf_sound_all t : nf_sound t.
  Proof.
    induction t as [a|r ch IH] using tree_ind'; intros X Hv.
    - inversion Hv; subst. cbn. split; [discriminate|]. intros b u E _. inversion E; reflexivity.
    - inversion Hv as [|r' l rhs ch' Hrule Hch]; subst. cbn [yield].
      destruct Hrule as (i & ri & Hi & Hr & Hl & Hrhs).
      assert (get_rhs g (ri_r ri) = rhs) as Erhs by (rewrite Hr; apply nth_error_nth; assumption).
      pose proof (nth_error_In _ _ Hi) as Hin. split.
      + intros Hy. exists l. split; [reflexivity|]. rewrite <- Hl.
        apply (cx_null_closed CF ri Hin). rewrite Erhs. eapply nullable_list; eassumption.
      + intros a u Hy Ha. rewrite <- Hl. apply (cx_first_closed CF ri a Hin Ha). rewrite Erhs.
        eapply first_list; try eassumption. apply bset_empty_length.
  Qed.

  Lemma Forall_nf_sound trees : Forall nf_sound trees.
  Proof. apply Forall_forall. intros t _. apply nf_sound_all. Qed.

  (* FIRST(beta t) contains the first token of whatever beta derives, followed by something starting with t *)
  Lemma first_tail_sound beta trees v t :
    Forall2 (valid_tree g) beta trees -> Forall (fun a => a < tc) (flat_map yield trees) ->
    look g v = t -> t < tc ->
    bset_test (first_tail g ne nf beta t) (look g (flat_map yield trees ++ v)) = true.
  Proof.
    intros Hv Hu Hl Ht. unfold first_tail.
    assert (length (first_of_syms g ne nf (bset_empty tc) beta) = tc) as Hlen
        by (rewrite first_of_syms_length; apply bset_empty_length).
    destruct (flat_map yield trees) as [|a u] eqn:Ey.
    - cbn [app]. rewrite Hl. rewrite (nullable_list _ _ Hv (Forall_nf_sound _) Ey).
      apply bset_set_same. lia.
    - cbn. inversion Hu; subst.
      assert (bset_test (first_of_syms g ne nf (bset_empty tc) beta) a = true) as Hf.
      { eapply first_list; try eassumption; [apply Forall_nf_sound|apply bset_empty_length]. }
      destruct (all_nullable ne beta); [apply bset_set_mono|]; assumption.
  Qed.

  (* ---------- shift/goto cells as the machine sees them ---------- *)
  Lemma goto_T s a s' : goto_target g tbl s (T a) = Some s' -> a <> err_idx g ->
    e_kind (cell_at tbl s (nterm_count g + a)) = KShift /\ e_arg (cell_at tbl s (nterm_count g + a)) = Some s'.
  Proof.
    unfold goto_target. cbn [sym_col]. intros H Ha. apply Nat.eqb_neq in Ha. rewrite Ha in H.
    destruct (e_kind (cell_at tbl s (nterm_count g + a))); try discriminate. auto.
  Qed.

  Lemma goto_NT s l s' : goto_target g tbl s (NT l) = Some s' -> e_arg (cell_at tbl s l) = Some s'.
  Proof.
    unfold goto_target. cbn [sym_col]. intros H.
    destruct (e_kind (cell_at tbl s l)); try discriminate. assumption.
  Qed.

  Notation lt_eof := (fun a => a < eof_idx g).

  Lemma lt_eof_tc l : Forall lt_eof l -> Forall (fun a => a < tc) l.
  Proof. pose proof (eof_lt_tc _ _ _ SF). apply Forall_impl. intros a Ha. lia. Qed.

  (* ---------- the main lemma ---------- *)
  Definition parses (tau : tree) : Prop :=
    forall X s ss trs i v,
      valid_tree g X tau -> tok tau v -> Forall lt_eof (yield tau) -> Forall lt_eof v ->
      s < length sts -> In i (items_of s) -> next_sym g i = Some X ->
      bset_test (first_tail g ne nf (skipn (S (it_d i)) (rhs_of g i)) (it_t i)) (look g v) = true ->
      exists s', msteps g tbl (tsize tau) (s :: ss, trs, yield tau ++ v) (s' :: s :: ss, tau :: trs, v) /\
                 s' < length sts /\ In (mkItem (it_r i) (S (it_d i)) (it_t i)) (items_of s').

  Lemma parse_children r la v : Forall lt_eof v -> look g v = la -> la < tc ->
    forall chs, Forall parses chs -> toks chs v ->
    forall d s ss trs,
      Forall2 (valid_tree g) (skipn d (get_rhs g (ri_r (get_ri g r)))) chs ->
      Forall lt_eof (flat_map yield chs) ->
      s < length sts -> In (mkItem r d la) (items_of s) ->
      exists sf stk, msteps g tbl (list_sum (map tsize chs)) (s :: ss, trs, flat_map yield chs ++ v) (sf :: stk, rev chs ++ trs, v) /\
                     skipn (length chs) (sf :: stk) = s :: ss /\
                     sf < length sts /\ In (mkItem r (d + length chs) la) (items_of sf).
  Proof.
    intros Hv Hla Hlt. induction 1 as [|c chs Hc _ IH]; intros Htoks d s ss trs Hval Hy Hs Hi.
    - exists s, ss. cbn. rewrite Nat.add_0_r. auto.
    - inversion Htoks as [|c' cs' v' Htc Htcs]; subst.
      apply Forall2_cons_r_inv in Hval. destruct Hval as (x & rest & Esk & Hx & Hrest).
      apply skipn_cons_nth_error in Esk. destruct Esk as [Hnth Esk]. subst rest.
      cbn [flat_map] in Hy. apply Forall_app in Hy. destruct Hy as [Hy1 Hy2].
      assert (Forall lt_eof (flat_map yield chs ++ v)) as Hv' by (apply Forall_app; split; assumption).
      assert (next_sym g (mkItem r d (look g v)) = Some x) as Hnx by exact Hnth.
      assert (bset_test (first_tail g ne nf (skipn (S (it_d (mkItem r d (look g v)))) (rhs_of g (mkItem r d (look g v))))
                                    (it_t (mkItem r d (look g v)))) (look g (flat_map yield chs ++ v)) = true) as Hft.
      { cbn [it_d it_t]. unfold rhs_of; cbn [it_r].
        apply first_tail_sound; try assumption; try reflexivity. apply lt_eof_tc. assumption. }
      destruct (Hc x s ss trs (mkItem r d (look g v)) (flat_map yield chs ++ v) Hx Htc Hy1 Hv' Hs Hi Hnx Hft)
        as (s1 & Hm1 & Hs1 & Hi1).
      cbn [it_r it_d it_t] in Hi1.
      destruct (IH Htcs (S d) s1 (s :: ss) (c :: trs) Hrest Hy2 Hs1 Hi1) as (sf & stk & Hm2 & Hsk & Hsf & Hif).
      exists sf, stk. split; [|split; [|split]].
      + cbn [flat_map rev map list_sum]. rewrite <- !app_assoc. cbn [app].
        eapply msteps_trans; eassumption.
      + cbn [length]. apply skipn_cons_nth_error in Hsk. destruct Hsk as [_ Hsk]. exact Hsk.
      + assumption.
      + cbn [length]. rewrite Nat.add_succ_r. exact Hif.
  Qed.

  Lemma parses_all tau : parses tau.
  Proof.
    induction tau as [a|r ch IH] using tree_ind'; intros X s ss trs i v Hval Htok Hy Hv Hs Hi Hnx Hla.
    - (* a leaf: shift *)
      inversion Hval; subst. cbn in Hy. inversion Hy as [|? ? Ha _]; subst.
      pose proof (next_sym_incomplete _ _ _ SF s i _ Hs Hi Hnx) as Hic.
      destruct (cx_goto CF s i Hs Hi Hic) as (x & s' & Hnx' & Hg & Hs' & Hi').
      rewrite Hnx in Hnx'. inversion Hnx'; subst x.
      pose proof (err_eq _ _ _ SF) as Herr. pose proof (eof_lt_tc _ _ _ SF) as Heof.
      destruct (goto_T _ _ _ Hg) as [Hk Harg]; [lia|].
      exists s'. split; [|split; assumption]. cbn [msteps yield app tsize].
      eexists. split; [|reflexivity]. unfold mstep. cbn [look hd tl].
      rewrite (cell_in_range _ _ _ SF s (nterm_count g + a) Hs); [|unfold symbol_count; lia].
      rewrite Hk, Harg. reflexivity.
    - (* a node: closure item, children, reduce, goto *)
      inversion Hval as [|r' l rhs ch' Hrule Hch]; subst. cbn [yield] in *.
      inversion Htok as [|r' ch' v' Hbad Htoks]; subst.
      destruct Hrule as (i' & ri & Hi' & Hr & Hl & Hrhs).
      destruct (get_ri_nth_error _ _ _ SF _ _ Hi') as [Eri Hi'lt].
      assert (get_rhs g (ri_r ri) = rhs) as Erhs by (rewrite Hr; apply nth_error_nth; assumption).
      destruct (sf_ri _ _ _ SF i' Hi'lt) as (_ & Hllt & Hn). rewrite Eri in Hllt, Hn. rewrite Hl in Hllt.
      pose proof (next_sym_incomplete _ _ _ SF s i _ Hs Hi Hnx) as Hic.
      pose proof (look_lt g sts tbl SF v Hv) as Hlalt.
      assert (In (mkItem i' 0 (look g v)) (items_of s)) as Hi0.
      { destruct (proj1 (sf_slice _ _ _ SF l i' Hllt Hi'lt)) as [Hlo Hhi]; [rewrite Eri; assumption|].
        replace i' with (fst (nth l (slices g) (0, 0)) + (i' - fst (nth l (slices g) (0, 0)))) by lia.
        apply (cx_closure CF s i l Hs Hi Hnx Hic); [lia|assumption|assumption]. }
      destruct (parse_children i' (look g v) v Hv eq_refl Hlalt ch IH Htoks 0 s ss trs) as
          (sf & stk & Hm & Hsk & Hsf & Hif); try assumption.
      { rewrite Eri, Erhs. cbn [skipn]. assumption. }
      cbn [Nat.add] in Hif.
      assert (length ch = ri_n ri) as Hlen.
      { rewrite Hn, Erhs. symmetry. eapply Forall2_length'. eassumption. }
      assert (i' <> root_rule_idx g) as Hnr.
      { intros E. assert (l = fake_root_idx g) as El.
        { rewrite <- Hl, <- Eri, E. apply (sf_root_l _ _ _ SF). }
        unfold next_sym in Hnx. destruct (item_next_sym_ok _ _ _ SF s i _ _ Hs Hi Hnx) as (_ & Hne' & _).
        apply Hne'. rewrite El. reflexivity. }
      assert (is_complete g (mkItem i' (length ch) (look g v)) = true) as Hcomp.
      { unfold is_complete; cbn [it_r it_d]. rewrite Eri, Hlen. apply Nat.leb_refl. }
      destruct (cx_reduce CF sf _ Hsf Hif Hcomp) as [_ Hred]. cbn [it_r it_t] in Hred.
      destruct (Hred Hnr) as [Hk Harg]; [rewrite Eri, Hr; exact Hbad|].
      destruct (cx_goto CF s i Hs Hi Hic) as (x & s' & Hnx' & Hg & Hs' & Hia).
      rewrite Hnx in Hnx'. inversion Hnx'; subst x. apply goto_NT in Hg.
      exists s'. split; [|split; assumption].
      cbn [tsize]. replace (S (list_sum (map tsize ch))) with (list_sum (map tsize ch) + 1) by lia.
      eapply msteps_trans; [exact Hm|]. cbn [msteps]. eexists. split; [|reflexivity].
      unfold mstep.
      rewrite (cell_in_range _ _ _ SF sf (nterm_count g + look g v) Hsf); [|unfold symbol_count; lia].
      rewrite Hk, Harg. unfold mreduce. rewrite Hi'.
      pose proof (skipn_cons_lt _ _ _ _ Hsk) as Hlt1. rewrite Hlen in Hlt1, Hsk.
      replace (Nat.ltb (length (sf :: stk)) (ri_n ri)) with false by (symmetry; apply Nat.ltb_ge; lia).
      rewrite Hsk. rewrite Hl.
      rewrite (cell_in_range _ _ _ SF s l Hs); [|unfold symbol_count; lia].
      rewrite Hg.
      replace (Nat.ltb (length (rev ch ++ trs)) (ri_n ri)) with false
        by (symmetry; apply Nat.ltb_ge; rewrite app_length, rev_length; lia).
      rewrite <- Hlen. rewrite <- (rev_length ch).
      rewrite firstn_app_exact, skipn_app_exact, rev_involutive, Hr. reflexivity.
  Qed.

  (* the run, step by step: tsize t steps lead to the configuration [s'; 0] / [t] / (no input left), whose next step
     is the acceptance of t *)
  Theorem completex_msteps w t : tokens_ok g w -> derives_tree g t w -> tok t [] ->
    exists s', msteps g tbl (tsize t) ([0], [], w) ([s'; 0], [t], []) /\ mstep g tbl ([s'; 0], [t], []) = Acc t.
  Proof.
    intros Hw (X & Hroot & Hval & Hy) Htok.
    destruct (sf_root_rhs _ _ _ SF) as (x & Hrhs).
    rewrite (root_symbol_eq _ _ _ SF x Hrhs) in Hroot. inversion Hroot; subst X.
    pose proof (eof_lt_tc _ _ _ SF) as Heof.
    assert (rhs_of g (root_item g) = [NT x]) as Erhs.
    { unfold rhs_of, root_item; cbn [it_r]. rewrite (sf_root_r _ _ _ SF). assumption. }
    destruct (parses_all t (NT x) 0 [] [] (root_item g) []) as (s' & Hm & Hs' & Hi'); try assumption.
    - rewrite Hy. exact Hw.
    - constructor.
    - apply (sf_dims2 _ _ _ SF).
    - apply (sf_st0_root _ _ _ SF).
    - unfold next_sym. rewrite Erhs. reflexivity.
    - rewrite Erhs. cbn. apply bset_set_same. rewrite bset_empty_length. assumption.
    - rewrite Hy, app_nil_r in Hm. cbn [root_item it_r it_d it_t] in Hi'.
      assert (is_complete g (mkItem (root_rule_idx g) 1 (eof_idx g)) = true) as Hcomp.
      { unfold is_complete; cbn [it_r it_d].
        destruct (sf_ri _ _ _ SF _ (root_lt _ _ _ SF)) as (_ & _ & Hn).
        rewrite (sf_root_r _ _ _ SF), Hrhs in Hn. rewrite Hn. reflexivity. }
      destruct (cx_reduce CF s' _ Hs' Hi' Hcomp) as [Hsucc _]. cbn [it_r it_t] in Hsucc.
      specialize (Hsucc eq_refl).
      exists s'. split; [exact Hm|]. unfold mstep. cbn [look hd].
      rewrite (cell_in_range _ _ _ SF s' (nterm_count g + eof_idx g) Hs'); [|unfold symbol_count; lia].
      rewrite Hsucc. reflexivity.
  Qed.

  Theorem completex_mrun w t : tokens_ok g w -> derives_tree g t w -> tok t [] ->
    mrun g tbl (tsize t + 1) ([0], [], w) = Some t.
  Proof.
    intros Hw Hd Htok. destruct (completex_msteps w t Hw Hd Htok) as (s' & Hm & Ha).
    eapply msteps_mrun; [exact Hm|]. cbn [mrun]. rewrite Ha. reflexivity.
  Qed.
End CompleteX.

Theorem lr_complete_except : forall bad g sts tbl w t,
  validate_except bad g sts tbl = true ->
  tokens_ok g w -> derives_tree g t w -> tok bad g t [] ->
  mrun g tbl (tsize t + 1) ([0], [], w) = Some t.
Proof.
  intros bad g sts tbl w t Hv Hw Hd Ht. unfold validate_except in Hv.
  exact (completex_mrun bad g sts tbl _ _ (completex_facts_of _ _ _ _ _ _ Hv) w t Hw Hd Ht).
Qed.

Theorem lr_complete_except_steps : forall bad g sts tbl w t,
  validate_except bad g sts tbl = true ->
  tokens_ok g w -> derives_tree g t w -> tok bad g t [] ->
  exists s', msteps g tbl (tsize t) ([0], [], w) ([s'; 0], [t], []) /\ mstep g tbl ([s'; 0], [t], []) = Acc t.
Proof.
  intros bad g sts tbl w t Hv Hw Hd Ht. unfold validate_except in Hv.
  exact (completex_msteps bad g sts tbl _ _ (completex_facts_of _ _ _ _ _ _ Hv) w t Hw Hd Ht).
Qed.

Print Assumptions lr_complete_except.
Print Assumptions lr_complete_except_steps.
