(* S1: the nullable / FIRST iteration of the generator reaches a fixed point within its fuel, and the
   resulting tables pass the validator's tables_closed check. *)
Require Import Ctpg.Base.Prelude Ctpg.Model.Grammar Ctpg.Model.LRGen Ctpg.Valid.LRValid
               Ctpg.Proofs.LRReflect Ctpg.Proofs.LRValidFacts Ctpg.Proofs.GenLists Ctpg.Proofs.GenWf.

(* ---------- order on bit sets, number of set bits ---------- *)

Definition ble (a b : bset) : Prop := Forall2 (fun x y => x = true -> y = true) a b.
Definition bcount (s : bset) : nat := length (filter (fun b => b) s).

Lemma ble_refl a : ble a a.
Proof. induction a; constructor; auto. Qed.

Lemma ble_trans a b c : ble a b -> ble b c -> ble a c.
Proof.
  intros H; revert c; induction H; intros c Hc; inversion Hc; subst; constructor; auto.
  apply IHForall2; assumption.
Qed.

Lemma ble_length a b : ble a b -> length a = length b.
Proof. apply Forall2_length'. Qed.

Lemma ble_test a b j : ble a b -> bset_test a j = true -> bset_test b j = true.
Proof.
  unfold bset_test. intros H; revert j; induction H; intros [|j] Hj; cbn in *; auto; discriminate.
Qed.

Lemma ble_set s i : ble s (bset_set s i).
Proof.
  unfold bset_set. revert i; induction s as [|b s IH]; intros [|i]; cbn; try constructor; auto.
  - apply (ble_refl s).
  - apply IH.
Qed.

Lemma ble_or a b : ble a (bset_or a b).
Proof.
  revert b; induction a as [|x a IH]; intros [|y b]; cbn; try constructor; auto.
  - apply (ble_refl a).
  - intros ->; reflexivity.
  - apply IH.
Qed.

Lemma ble_set_both a b i : ble a b -> ble (bset_set a i) (bset_set b i).
Proof.
  unfold bset_set. intros H; revert i; induction H; intros [|i]; cbn; constructor; auto.
  - apply IHForall2.
Qed.

Lemma ble_or_both a b c : ble a b -> ble (bset_or a c) (bset_or b c).
Proof.
  intros H; revert c; induction H; intros [|z c]; cbn; constructor; auto.
  - intros E. apply orb_true_iff in E. destruct E as [E|E]; [rewrite (H E)|rewrite E, orb_true_r]; reflexivity.
  - apply IHForall2.
Qed.

Lemma ble_empty s : ble (bset_empty (length s)) s.
Proof. unfold bset_empty. induction s; cbn; constructor; auto. discriminate. Qed.

Lemma bcount_le_length s : bcount s <= length s.
Proof. unfold bcount. induction s as [|[|] s IH]; cbn; lia. Qed.

Lemma ble_count a b : ble a b -> bcount a <= bcount b.
Proof.
  unfold bcount. induction 1 as [|x y a b Hxy H IH]; cbn; [lia|].
  destruct x, y; cbn; try lia.
Qed.

Lemma bset_eqb_eq a b : bset_eqb a b = true -> a = b.
Proof.
  unfold bset_eqb. revert b; induction a as [|x a IH]; intros [|y b]; cbn; try discriminate; auto.
  intros H. apply andb_true_iff in H. destruct H as [H1 H2]. apply eqb_prop in H1. f_equal; auto.
Qed.

Lemma ble_count_lt a b : ble a b -> bset_eqb a b = false -> bcount a < bcount b.
Proof.
  unfold bcount, bset_eqb. induction 1 as [|x y a b Hxy H IH]; cbn; [discriminate|].
  intros E. pose proof (ble_count _ _ H) as Hle. unfold bcount in Hle.
  destruct x, y; cbn in *; try (specialize (IH E); lia).
  - specialize (Hxy eq_refl). discriminate.
  - lia.
Qed.

Lemma bcount_empty n : bcount (bset_empty n) = 0.
Proof. unfold bcount, bset_empty. induction n; cbn; auto. Qed.

(* ---------- nullable ---------- *)

Definition rhs_n (g : grammar) (ri : rule_info) : list symbol := firstn (ri_n ri) (get_rhs g (ri_r ri)).

Definition empty_closed (g : grammar) (ne : bset) : Prop :=
  forall ri, In ri (rule_infos g) -> bset_test ne (ri_l ri) = true \/ all_nullable ne (rhs_n g ri) = false.

Lemma bset_set_changes s i : i < length s -> bset_test s i = false -> bset_eqb s (bset_set s i) = false.
Proof.
  unfold bset_test, bset_set, bset_eqb. revert i; induction s as [|b s IH]; intros [|i] H E; cbn in *; try lia.
  - subst. reflexivity.
  - rewrite IH; [apply andb_false_r|lia|assumption].
Qed.

Lemma empty_pass_spec g ris : forall ne ch ne' ch',
  (forall ri, In ri ris -> ri_l ri < length ne) ->
  empty_pass g ris ne ch = (ne', ch') ->
  ble ne ne' /\
  (ch' = false -> ch = false /\ ne' = ne /\
                  forall ri, In ri ris -> bset_test ne (ri_l ri) = true \/ all_nullable ne (rhs_n g ri) = false) /\
  (ch' = true -> ch = true \/ bcount ne < bcount ne').
Proof.
  induction ris as [|ri ris IH]; intros ne ch ne' ch' Hl H; cbn in H.
  - inversion H; subst. split; [apply ble_refl|]. split; [|auto]. intros ->. repeat split; auto; try (intros ? []).
  - assert (forall ri0, In ri0 ris -> ri_l ri0 < length ne) as Hl' by (intros; apply Hl; cbn; auto).
    destruct (bset_test ne (ri_l ri)) eqn:E1.
    + destruct (IH _ _ _ _ Hl' H) as (A & B & C). split; [assumption|]. split; [|assumption].
      intros E. destruct (B E) as (B1 & B2 & B3). repeat split; auto.
      intros ri0 [<-|Hin]; auto.
    + fold (rhs_n g ri) in H. destruct (all_nullable ne (rhs_n g ri)) eqn:E2.
      * assert (ri_l ri < length ne) as Hlt by (apply Hl; cbn; auto).
        assert (forall ri0, In ri0 ris -> ri_l ri0 < length (bset_set ne (ri_l ri))) as Hl''
            by (intros; rewrite bset_set_length; auto).
        destruct (IH _ _ _ _ Hl'' H) as (A & B & C).
        split; [eapply ble_trans; [apply ble_set|eassumption]|].
        split; [intros E; destruct (B E) as (B1 & _); discriminate|].
        intros _. right.
        pose proof (ble_count_lt _ _ (ble_set ne (ri_l ri)) (bset_set_changes _ _ Hlt E1)).
        pose proof (ble_count _ _ A). lia.
      * destruct (IH _ _ _ _ Hl' H) as (A & B & C). split; [assumption|]. split; [|assumption].
        intros E. destruct (B E) as (B1 & B2 & B3). repeat split; auto.
        intros ri0 [<-|Hin]; auto.
Qed.

Lemma empty_iter_spec g fuel : forall ne,
  (forall ri, In ri (rule_infos g) -> ri_l ri < length ne) ->
  length ne < fuel + bcount ne ->
  ble ne (empty_iter fuel g ne) /\ empty_closed g (empty_iter fuel g ne).
Proof.
  induction fuel as [|f IH]; intros ne Hl Hf.
  - pose proof (bcount_le_length ne). lia.
  - cbn [empty_iter]. destruct (empty_pass g (rule_infos g) ne false) as [ne' ch] eqn:E.
    destruct (empty_pass_spec _ _ _ _ _ _ Hl E) as (A & B & C). destruct ch.
    + destruct (C eq_refl) as [C1|C1]; [discriminate|].
      pose proof (ble_length _ _ A) as HL.
      destruct (IH ne') as (A' & B'); [intros; rewrite <- HL; auto|lia|].
      split; [eapply ble_trans; eassumption|assumption].
    + destruct (B eq_refl) as (_ & -> & B3). split; [apply ble_refl|exact B3].
Qed.

Section Empty.
  Variable g : grammar.
  Hypothesis WF : wf_facts g.

  Lemma ri_l_lt ri : In ri (rule_infos g) -> ri_l ri < nterm_count g.
  Proof. intros H. destruct (wf_in_rule_infos _ WF _ H) as (i & Hi & ->). apply (wf_ri _ WF). assumption. Qed.

  Lemma nterm_empty_spec :
    length (nterm_empty g) = nterm_count g /\ empty_closed g (nterm_empty g).
  Proof.
    unfold nterm_empty.
    destruct (empty_iter_spec g (S (nterm_count g)) (bset_empty (nterm_count g))) as (A & B).
    - intros ri H. rewrite bset_empty_length. apply ri_l_lt; assumption.
    - rewrite bset_empty_length. lia.
    - split; [|assumption]. rewrite <- (ble_length _ _ A). apply bset_empty_length.
  Qed.
End Empty.

(* ---------- FIRST ---------- *)

Definition nfle (a b : list bset) : Prop := Forall2 ble a b.
Definition total (nf : list bset) : nat := list_sum (map bcount nf).

Lemma nfle_refl a : nfle a a.
Proof. induction a; constructor; auto using ble_refl. Qed.

Lemma nfle_trans a b c : nfle a b -> nfle b c -> nfle a c.
Proof.
  intros H; revert c; induction H; intros c Hc; inversion Hc; subst; constructor.
  - eapply ble_trans; eassumption.
  - apply IHForall2; assumption.
Qed.

Lemma nfle_length a b : nfle a b -> length a = length b.
Proof. apply Forall2_length'. Qed.

Lemma nfle_total a b : nfle a b -> total a <= total b.
Proof.
  unfold total, list_sum. induction 1 as [|x y a b Hxy H IH]; cbn; [lia|]. pose proof (ble_count _ _ Hxy). lia.
Qed.

Lemma nfle_rows n a b : nfle a b -> Forall (fun r => length r = n) a -> Forall (fun r => length r = n) b.
Proof.
  induction 1 as [|x y a b Hxy H IH]; intros Hf; [constructor|]. inversion Hf; subst. constructor; auto.
  rewrite <- (ble_length _ _ Hxy). reflexivity.
Qed.

Lemma nfle_update nf l d after : ble (nth l nf d) after -> l < length nf -> nfle nf (update nf l after).
Proof.
  revert l; induction nf as [|x nf IH]; intros [|l] H Hl; cbn in *; try lia.
  - constructor; [assumption|apply nfle_refl].
  - constructor; [apply ble_refl|]. apply IH; [assumption|lia].
Qed.

Lemma total_update nf l d after : l < length nf ->
  total (update nf l after) + bcount (nth l nf d) = total nf + bcount after.
Proof.
  intros Hl. unfold total. rewrite map_update.
  rewrite <- (list_sum_update (map bcount nf) l (bcount after)) by (rewrite map_length; assumption).
  f_equal. rewrite (nth_indep _ 0 (bcount d)) by (rewrite map_length; assumption).
  rewrite map_nth. reflexivity.
Qed.

Lemma first_of_syms_ble g ne nf acc r : ble acc (first_of_syms g ne nf acc r).
Proof.
  revert acc; induction r as [|[i|n] r IH]; intros acc; cbn.
  - apply ble_refl.
  - apply ble_set.
  - destruct (bset_test ne n); [eapply ble_trans; [|apply IH]|]; apply ble_or.
Qed.

Lemma first_of_syms_mono_acc g ne nf acc acc' r :
  ble acc acc' -> ble (first_of_syms g ne nf acc r) (first_of_syms g ne nf acc' r).
Proof.
  revert acc acc'; induction r as [|[i|n] r IH]; intros acc acc' H; cbn.
  - assumption.
  - apply ble_set_both; assumption.
  - destruct (bset_test ne n); [apply IH|]; apply ble_or_both; assumption.
Qed.

Definition first_closed_at (g : grammar) (ne : bset) (nf : list bset) (ri : rule_info) : Prop :=
  let before := nth (ri_l ri) nf (bset_empty (term_count g)) in
  first_of_syms g ne nf before (rhs_n g ri) = before.
Definition first_closed (g : grammar) (ne : bset) (nf : list bset) : Prop :=
  forall ri, In ri (rule_infos g) -> first_closed_at g ne nf ri.

Lemma first_pass_spec g ne ris : forall nf ch nf' ch',
  (forall ri, In ri ris -> ri_l ri < length nf) ->
  first_pass g ne ris nf ch = (nf', ch') ->
  nfle nf nf' /\
  (ch' = false -> ch = false /\ nf' = nf /\ forall ri, In ri ris -> first_closed_at g ne nf ri) /\
  (ch' = true -> ch = true \/ total nf < total nf').
Proof.
  induction ris as [|ri ris IH]; intros nf ch nf' ch' Hl H; cbn [first_pass] in H.
  - inversion H; subst. split; [apply nfle_refl|]. split; [|auto]. intros ->. repeat split; auto; try (intros ? []).
  - fold (rhs_n g ri) in H.
    set (before := nth (ri_l ri) nf (bset_empty (term_count g))) in *.
    set (after := first_of_syms g ne nf before (rhs_n g ri)) in *.
    assert (ri_l ri < length nf) as Hlt by (apply Hl; cbn; auto).
    assert (ble before after) as Hba by apply first_of_syms_ble.
    destruct (bset_eqb before after) eqn:E.
    + apply bset_eqb_eq in E. rewrite <- E in H. unfold before in H at 1. rewrite update_nth_same in H.
      cbn [negb] in H. rewrite orb_false_r in H.
      destruct (IH _ _ _ _ ltac:(intros; apply Hl; cbn; auto) H) as (A & B & C).
      split; [assumption|]. split; [|assumption].
      intros E'. destruct (B E') as (B1 & B2 & B3). repeat split; auto.
      intros ri0 [<-|Hin]; auto. unfold first_closed_at. fold before. fold after. symmetry; assumption.
    + cbn [negb] in H. rewrite orb_true_r in H.
      assert (forall ri0, In ri0 ris -> ri_l ri0 < length (update nf (ri_l ri) after)) as Hl'
          by (intros; rewrite update_length; apply Hl; cbn; auto).
      destruct (IH _ _ _ _ Hl' H) as (A & B & C).
      pose proof (nfle_update nf (ri_l ri) _ after Hba Hlt) as Hup.
      split; [eapply nfle_trans; eassumption|].
      split; [intros E'; destruct (B E') as (B1 & _); discriminate|].
      intros _. right.
      pose proof (total_update nf (ri_l ri) (bset_empty (term_count g)) after Hlt) as Ht. fold before in Ht.
      pose proof (ble_count_lt _ _ Hba E). pose proof (nfle_total _ _ A). lia.
Qed.

Lemma total_bound n nf : Forall (fun r => length r = n) nf -> total nf <= length nf * n.
Proof.
  intros H. unfold total. pose proof (list_sum_bound (map bcount nf) n) as HB. rewrite map_length in HB. apply HB.
  apply Forall_forall. intros x Hx. apply in_map_iff in Hx. destruct Hx as (r & <- & Hr).
  rewrite Forall_forall in H. rewrite <- (H r Hr). apply bcount_le_length.
Qed.

Lemma first_iter_spec g ne fuel : forall nf,
  (forall ri, In ri (rule_infos g) -> ri_l ri < length nf) ->
  Forall (fun r => length r = term_count g) nf ->
  length nf * term_count g < fuel + total nf ->
  nfle nf (first_iter fuel g ne nf) /\ first_closed g ne (first_iter fuel g ne nf).
Proof.
  induction fuel as [|f IH]; intros nf Hl Hrows Hf.
  - pose proof (total_bound _ _ Hrows). lia.
  - cbn [first_iter]. destruct (first_pass g ne (rule_infos g) nf false) as [nf' ch] eqn:E.
    destruct (first_pass_spec _ _ _ _ _ _ _ Hl E) as (A & B & C). destruct ch.
    + destruct (C eq_refl) as [C1|C1]; [discriminate|].
      pose proof (nfle_length _ _ A) as HL.
      unfold bset in HL. destruct (IH nf') as (A' & B'); [intros; rewrite <- HL; auto|eapply nfle_rows; eassumption|lia|].
      split; [eapply nfle_trans; eassumption|assumption].
    + destruct (B eq_refl) as (_ & -> & B3). split; [apply nfle_refl|exact B3].
Qed.

Section First.
  Variable g : grammar.
  Hypothesis WF : wf_facts g.
  Variable ne : bset.

  Lemma nterm_first_spec :
    length (nterm_first g ne) = nterm_count g /\
    Forall (fun r => length r = term_count g) (nterm_first g ne) /\
    first_closed g ne (nterm_first g ne).
  Proof.
    unfold nterm_first.
    set (nf0 := repeat (bset_empty (term_count g)) (nterm_count g)).
    assert (length nf0 = nterm_count g) as L0 by apply repeat_length.
    assert (Forall (fun r => length r = term_count g) nf0) as R0.
    { apply Forall_forall. intros x Hx. apply repeat_spec in Hx. subst. apply bset_empty_length. }
    unfold bset in L0.
    destruct (first_iter_spec g ne (S (nterm_count g * term_count g)) nf0) as (A & B).
    - intros ri H. rewrite L0. apply ri_l_lt; assumption.
    - assumption.
    - rewrite L0. lia.
    - split; [pose proof (nfle_length _ _ A) as HL; unfold bset in *; congruence|]. split; [|assumption].
      eapply nfle_rows; eassumption.
  Qed.
End First.

(* ---------- the validator's check ---------- *)

Theorem gen_tables_closed g : grammar_wf g = true ->
  tables_closed g (nterm_empty g) (nterm_first g (nterm_empty g)) = true.
Proof.
  intros Hwf. pose proof (wf_facts_of _ Hwf) as WF.
  destruct (nterm_empty_spec g WF) as (Lne & Cne).
  destruct (nterm_first_spec g WF (nterm_empty g)) as (Lnf & Rnf & Cnf).
  set (ne := nterm_empty g) in *. set (nf := nterm_first g ne) in *.
  unfold tables_closed. rewrite Lne, Lnf, !Nat.eqb_refl. cbn [andb].
  apply andb_true_iff. split.
  - apply forallb_forall. intros f Hf. rewrite Forall_forall in Rnf. rewrite (Rnf f Hf). apply Nat.eqb_refl.
  - apply forallb_forall. intros ri Hri.
    destruct (wf_in_rule_infos _ WF _ Hri) as (i & Hi & Eri).
    assert (rhs_n g ri = get_rhs g (ri_r ri)) as Erhs by (subst ri; apply wf_firstn_rhs; assumption).
    apply andb_true_iff. split.
    + destruct (Cne ri Hri) as [H|H].
      * rewrite H. apply orb_true_r.
      * rewrite Erhs in H. rewrite H. reflexivity.
    + apply forallb_forall. intros t _.
      destruct (bset_test (first_of_syms g ne nf (bset_empty (term_count g)) (get_rhs g (ri_r ri))) t) eqn:Et;
        [|reflexivity]. cbn [negb orb].
      pose proof (Cnf ri Hri) as Hc. unfold first_closed_at in Hc. rewrite Erhs in Hc.
      assert (ri_l ri < length nf) as Hl by (rewrite Lnf; apply ri_l_lt; assumption).
      rewrite (nth_indep nf [] (bset_empty (term_count g)) Hl).
      set (before := nth (ri_l ri) nf (bset_empty (term_count g))) in *.
      assert (length before = term_count g) as Lb.
      { rewrite Forall_forall in Rnf. apply Rnf. apply nth_In. assumption. }
      rewrite <- Hc. eapply ble_test; [|exact Et]. apply first_of_syms_mono_acc.
      rewrite <- Lb. apply ble_empty.
Qed.

(* lengths, for later stages *)
Lemma gen_tables_lengths g : grammar_wf g = true ->
  length (nterm_empty g) = nterm_count g /\
  length (nterm_first g (nterm_empty g)) = nterm_count g /\
  Forall (fun r => length r = term_count g) (nterm_first g (nterm_empty g)).
Proof.
  intros Hwf. pose proof (wf_facts_of _ Hwf) as WF.
  destruct (nterm_empty_spec g WF) as (Lne & _).
  destruct (nterm_first_spec g WF (nterm_empty g)) as (Lnf & Rnf & _). auto.
Qed.
