(* C10: the source point the driver tracks is the true (line, column) of its cursor, for every option
   combination; every position it reports or hands to a functor is the true position of the offset it refers to. *)
Require Import Ctpg.Base.Prelude Ctpg.Model.Grammar Ctpg.Model.LRGen Ctpg.Model.Driver Ctpg.Spec.Eval.
Require Import Ctpg.Proofs.DriverBasics.

(* ---------- (i) source_point::update against the specification ---------- *)
Lemma since_newline_snoc l b : since_newline (l ++ [b]) = if Nat.eqb b 10 then 0 else S (since_newline l).
Proof.
  induction l as [|a l IH]; cbn [app since_newline].
  - cbn. destruct (Nat.eqb b 10); reflexivity.
  - rewrite existsb_app. cbn [existsb]. rewrite orb_false_r, IH, app_length. cbn [length].
    rewrite (Nat.eqb_sym 10 b).
    destruct (Nat.eqb b 10); [now rewrite orb_true_r|]. rewrite orb_false_r.
    destruct (existsb (Nat.eqb 10) l); [reflexivity|]. destruct (Nat.eqb a 10); lia.
Qed.

Lemma sp_update_spec m : forall l,
  sp_update (mkSp (S (length (filter (Nat.eqb 10) l))) (S (since_newline l))) m =
  mkSp (S (length (filter (Nat.eqb 10) (l ++ m)))) (S (since_newline (l ++ m))).
Proof.
  induction m as [|b m IH]; intros l; cbn [sp_update]; [now rewrite app_nil_r|].
  replace (l ++ b :: m) with ((l ++ [b]) ++ m) by (now rewrite <- app_assoc).
  rewrite <- IH. f_equal. cbn [sp_line sp_col].
  rewrite since_newline_snoc, filter_app, app_length. cbn [filter]. rewrite (Nat.eqb_sym 10 b).
  destruct (Nat.eqb b 10); cbn [length]; f_equal; lia.
Qed.

Lemma firstn_slice buf i j : i <= j -> firstn j buf = firstn i buf ++ slice_of buf i j.
Proof. intros H. unfold slice_of. replace j with (i + (j - i)) at 1 by lia. apply firstn_add. Qed.

Lemma sp_update_true_pos' buf i j : i <= j -> sp_update (true_pos buf i) (slice_of buf i j) = true_pos buf j.
Proof.
  intros H. unfold true_pos, line_of, col_of. rewrite sp_update_spec, <- firstn_slice by assumption. reflexivity.
Qed.

Theorem sp_update_true_pos : forall buf i j, i <= j <= length buf ->
  sp_update (true_pos buf i) (slice_of buf i j) = true_pos buf j.
Proof. intros buf i j [H _]. now apply sp_update_true_pos'. Qed.

Theorem true_pos_0 : forall buf, true_pos buf 0 = sp0.
Proof. reflexivity. Qed.

(* ---------- the position every line carries ---------- *)
Definition ev_pos (e : event) : option spoint :=
  match e with
  | EvLex _ => None
  | EvRecognized p _ | EvShift p _ _ _ | EvShiftErr p _ | EvReduce p _ _ | EvGoto p _ | EvRR p
  | EvSyntaxError p _ | EvUnexpectedChar p _ | EvEnterRecovery p | EvLeaveRecovery p
  | EvEnterConsume p | EvLeaveConsume p | EvRecoveringTo p _ | EvCouldNotRecover p
  | EvConsuming p _ | EvSuccess p => Some p
  end.

(* line e was written while the cursor (after whitespace) was at offset k of buf *)
Definition event_at (buf : list nat) (k : nat) (e : event) : Prop :=
  k <= length buf /\
  (forall p, ev_pos e = Some p -> p = true_pos buf k) /\
  match e with
  | EvShift _ _ a l => a = k /\ a + l <= length buf      (* the lexeme starts at the cursor and lies in the buffer *)
  | EvUnexpectedChar _ c => nth_error buf k = Some c      (* the reported character is the one at the cursor *)
  | _ => True
  end.

Definition event_pos_ok (buf : list nat) (e : event) : Prop := exists k, event_at buf k e.

(* what event_pos_ok says, spelled out for the lines named in the property *)
Lemma event_pos_ok_shift buf p st a l : event_pos_ok buf (EvShift p st a l) -> p = true_pos buf a /\ a + l <= length buf.
Proof. intros (k & _ & Hp & -> & Hl). split; [apply Hp; reflexivity|assumption]. Qed.
Lemma event_pos_ok_unexpected buf p c : event_pos_ok buf (EvUnexpectedChar p c) ->
  exists k, k < length buf /\ p = true_pos buf k /\ nth_error buf k = Some c.
Proof.
  intros (k & _ & Hp & Hc). exists k. repeat split; [|apply Hp; reflexivity|assumption].
  apply nth_error_Some. congruence.
Qed.
Lemma event_pos_ok_syntax buf p t : event_pos_ok buf (EvSyntaxError p t) -> exists k, k <= length buf /\ p = true_pos buf k.
Proof. intros (k & Hk & Hp & _). exists k. split; [assumption|apply Hp; reflexivity]. Qed.

(* ---------- trees whose leaves carry true positions ---------- *)
Inductive tree_ok (buf : list nat) : ptree -> Prop :=
| ok_leaf t a l : a + l <= length buf -> tree_ok buf (PLeaf t a l (true_pos buf a))
| ok_err k : k <= length buf -> tree_ok buf (PErr (true_pos buf k))
| ok_node r ch : Forall (tree_ok buf) ch -> tree_ok buf (PNode r ch).

Inductive occurs (x : ptree) : ptree -> Prop :=
| occ_here : occurs x x
| occ_child r ch c : In c ch -> occurs x c -> occurs x (PNode r ch).

Lemma tree_ok_leaf buf tr t a l p : tree_ok buf tr -> occurs (PLeaf t a l p) tr -> p = true_pos buf a /\ a + l <= length buf.
Proof.
  intros Hok Hocc. induction Hocc as [|r ch c Hin Hocc IH].
  - inversion Hok; subst. auto.
  - apply IH. inversion Hok as [| |r' ch' Hall]; subst. rewrite Forall_forall in Hall. auto.
Qed.

Lemma tree_ok_err buf tr p : tree_ok buf tr -> occurs (PErr p) tr -> exists k, k <= length buf /\ p = true_pos buf k.
Proof.
  intros Hok Hocc. induction Hocc as [|r ch c Hin Hocc IH].
  - inversion Hok; subst. eauto.
  - apply IH. inversion Hok as [| |r' ch' Hall]; subst. rewrite Forall_forall in Hall. auto.
Qed.

Section Pos.
  Variables V C : Type.
  Variable g : grammar.
  Variable tbl : table.
  Variable opts : options.
  Variable buf : list nat.
  Variable cap : option nat.
  Variable lexer : bool -> spoint -> list nat -> list lex_event * option (nat * nat).
  Variable term_f : nat -> nat -> nat -> spoint -> V.
  Variable err_f : spoint -> V.
  Variable rule_f : nat -> C -> list V -> C * V.

  (* lexeme ends stay inside the buffer *)
  Hypothesis lexer_len : forall v p rest t len, snd (lexer v p rest) = Some (t, len) -> len <= length rest.
  (* At end of input get_current_term advances current_it over trailing whitespace but leaves current_end_it behind
     it. A table that shifts in that configuration (on <eof>, or on <error_recovery_token> with <eof> pending) makes
     consume_term move the cursor BACK without touching the source point. No table built from a grammar does that. *)
  Hypothesis no_eof_shift : eof_err_not_shifted g tbl \/ o_skip_ws opts = false.

  Notation pst := (pstate V C).
  Notation stepx := (step V C g tbl opts buf cap lexer term_f err_f rule_f).
  Notation run_ghx := (run_gh V C g tbl opts buf cap lexer term_f err_f rule_f).
  Notation runx := (run V C g tbl opts buf cap lexer term_f err_f rule_f).
  Notation gspec := (gct_spec V C g opts buf lexer).
  Notation aspec := (act_spec V C g tbl buf cap term_f err_f rule_f).

  (* offset of the cursor once the current term is known *)
  Definition cur_off (s : pst) : nat :=
    if ps_rec s || negb (Nat.eqb (ps_it s) (ps_end s)) then ps_it s else ps_it s + wsk opts buf (ps_it s).

  Definition pos_fin (s : pst) : Prop :=
    ps_sp s = true_pos buf (ps_it s) /\ ps_it s <= length buf /\ ps_end s <= length buf.
  (* the pending lexeme is [ps_it, ps_end) -- except for <eof> found after trailing whitespace *)
  Definition gap_ok (s : pst) : Prop :=
    ps_it s <= ps_end s \/ (ps_term s = Some (eof_idx g) /\ eof_err_not_shifted g tbl).
  Definition pos_inv (s : pst) : Prop := pos_fin s /\ gap_ok s.

  Lemma pos_inv_init c : pos_inv (init c).
  Proof. unfold pos_inv, pos_fin, gap_ok; cbn. repeat split; try reflexivity; lia. Qed.

  Lemma wsk_le pos : pos + wsk opts buf pos <= length buf \/ wsk opts buf pos = 0.
  Proof.
    unfold wsk. destruct (o_skip_ws opts); [|auto]. pose proof (count_ws_le opts (skipn pos buf)) as H.
    rewrite skipn_length in H. destruct (Nat.le_gt_cases pos (length buf)); [left; lia|right; lia].
  Qed.

  Lemma lex_events_at k lx : k <= length buf -> Forall (event_at buf k) (map EvLex lx).
  Proof. intros Hk. induction lx; cbn; constructor; auto. repeat split; [assumption|discriminate]. Qed.

  Ltac ev_ok := repeat split; [try assumption; try lia | cbn; intros ? Hp_; inversion Hp_; subst; assumption | ..]; try assumption.

  Lemma gct_pos s s1 ot ev :
    pos_inv s -> gspec s (s1, ot, ev) ->
    pos_fin s1 /\ ps_it s1 = cur_off s /\ Forall (event_at buf (ps_it s1)) ev /\ (ot <> None -> gap_ok s1).
  Proof.
    intros [(Hsp & Hit & Hen) Hgap] H. unfold cur_off.
    inversion H as [Hr|Hr Hne|sp1 it1 Hr He Hit1 Hsp1 Hsk|sp1 it1 c rest lx Hr He Hit1 Hsp1 Hsk Hlx|sp1 it1 c rest lx t len Hr He Hit1 Hsp1 Hsk Hlx];
      subst s1 ot ev; rewrite Hr; cbn [orb].
    - repeat split; auto.
    - apply Nat.eqb_neq in Hne. rewrite Hne. cbn [negb]. repeat split; auto.
    - rewrite He, Nat.eqb_refl. cbn [negb]. rewrite <- He, <- Hit1.
      assert (Hle : ps_it s <= it1) by lia.
      assert (Hsp1' : sp1 = true_pos buf it1) by (rewrite Hsp1, Hsp; now apply sp_update_true_pos').
      assert (Hl1 : it1 <= length buf) by (destruct (wsk_le (ps_it s)); lia).
      unfold pos_fin, gap_ok; simp_ps. repeat split; auto.
      + constructor; [|constructor]. ev_ok.
      + intros _. destruct no_eof_shift as [Hn|Hn]; [right; auto|].
        left. unfold wsk in Hit1. rewrite Hn in Hit1. lia.
    - rewrite He, Nat.eqb_refl. cbn [negb]. rewrite <- He, <- Hit1.
      assert (Hle : ps_it s <= it1) by lia.
      assert (Hsp1' : sp1 = true_pos buf it1) by (rewrite Hsp1, Hsp; now apply sp_update_true_pos').
      apply skipn_cons_lt in Hsk as [Hl1 Hnth].
      unfold pos_fin; simp_ps. repeat split; auto; try lia; [|congruence].
      apply Forall_app; split; [apply lex_events_at; lia|]. constructor; [|constructor]. ev_ok.
    - rewrite He, Nat.eqb_refl. cbn [negb]. rewrite <- He, <- Hit1.
      assert (Hle : ps_it s <= it1) by lia.
      assert (Hsp1' : sp1 = true_pos buf it1) by (rewrite Hsp1, Hsp; now apply sp_update_true_pos').
      pose proof (lexer_len (o_verbose opts) sp1 (c :: rest) t len) as Hlen. rewrite Hlx in Hlen.
      specialize (Hlen eq_refl). rewrite <- Hsk, skipn_length in Hlen.
      apply skipn_cons_lt in Hsk as [Hl1 Hnth].
      unfold pos_fin, gap_ok; simp_ps. repeat split; auto; try lia.
      apply Forall_app; split; [apply lex_events_at; lia|]. constructor; [|constructor]. ev_ok.
  Qed.

  Lemma plain_at s1 ev : pos_fin s1 -> Forall (plain_ev s1) ev -> Forall (event_at buf (ps_it s1)) ev.
  Proof.
    intros (Hsp & Hit & Hen) H. eapply Forall_impl; [|exact H]. cbn beta.
    intros e [->|[[nst ->]|[->|[->|[nst ->]]]]]; ev_ok; try exact I. lia.
  Qed.

  Lemma lc_at (s1 : pst) : pos_fin s1 -> Forall (event_at buf (ps_it s1)) (lc s1).
  Proof. intros H. apply plain_at; [assumption|apply plain_lc]. Qed.

  Lemma act_pos s1 cursor t r ev :
    pos_fin s1 -> gap_ok s1 ->
    (ps_rec s1 = true /\ t = err_idx g) \/ (ps_rec s1 = false /\ ps_term s1 = Some t) ->
    aspec s1 cursor t (r, ev) ->
    Forall (event_at buf (ps_it s1)) ev /\
    match r with inl s' => pos_inv s' | inr (_, s') => pos_fin s' end.
  Proof.
    intros Hfin Hgap Hterm H. pose proof Hfin as (Hsp & Hit & Hen). pose proof (lc_at s1 Hfin) as Hlc.
    inversion H as [r0 s' ev0 Hs' Hr Hev|Hc Hne|Hc Hr|top cs Hc Hr Htl|Hc Hr Htl|e nst Hcell Hk Hend|nst|r0 s3 pre ev0 Hred Hpre];
      subst.
    - split; [now apply plain_at|]. destruct Hs' as [->| ->]; [assumption|]. unfold pos_fin; simp_ps. auto.
    - assert (Hle : ps_it s1 <= ps_end s1) by (destruct Hgap as [|[? _]]; [assumption|contradiction]).
      split; [constructor; [ev_ok; exact I|constructor]|].
      unfold pos_inv, pos_fin, gap_ok; simp_ps. rewrite Hsp, sp_update_true_pos' by assumption.
      repeat split; auto.
    - split; [constructor; [ev_ok; exact I|constructor; [ev_ok; exact I|constructor]]|].
      unfold pos_inv, pos_fin, gap_ok; simp_ps. auto.
    - split; [constructor; [ev_ok; exact I|constructor]|].
      unfold pos_inv, pos_fin, gap_ok; simp_ps. auto.
    - split; [constructor; [ev_ok; exact I|constructor]|].
      unfold pos_fin; simp_ps. auto.
    - assert (Hle : ps_it s1 <= ps_end s1).
      { destruct Hgap as [|[Ht [Hn1 Hn2]]]; [assumption|exfalso].
        destruct Hterm as [[_ ->]|[_ Ht']]; [eapply Hn2; eauto|].
        rewrite Ht in Ht'. inversion Ht'; subst. eapply Hn1; eauto. }
      split.
      + apply Forall_app; split; [assumption|]. simp_ps. constructor; [ev_ok; lia|constructor].
      + unfold pos_inv, pos_fin, gap_ok; simp_ps. rewrite Hsp, sp_update_true_pos' by assumption. repeat split; auto.
    - split.
      + simp_ps. repeat (apply Forall_app; split); [assumption|..]; repeat (constructor; [ev_ok; exact I|]); constructor.
      + unfold pos_inv, pos_fin, gap_ok; simp_ps. auto.
    - apply do_reduce_inl in Hred as (ri & nst & c' & v & _ & _ & _ & _ & -> & ->). split.
      + simp_ps. repeat (apply Forall_app; split); [assumption| |repeat (constructor; [ev_ok; exact I|]); constructor].
        destruct Hpre as [->| ->]; [constructor|]. simp_ps. repeat (constructor; [ev_ok; exact I|]); constructor.
      + unfold pos_inv, pos_fin, gap_ok; simp_ps. auto.
  Qed.

  (* one iteration: all its lines are at the cursor offset; the invariant is kept *)
  Lemma step_pos s : pos_inv s ->
    Forall (event_at buf (cur_off s)) (snd (stepx s)) /\
    match fst (stepx s) with inl s' => pos_inv s' | inr (_, s') => pos_fin s' end.
  Proof.
    intros Hinv. apply step_cases.
    - intros _. split; [constructor|]. apply Hinv.
    - intros s1 ev1 Hg. apply (gct_pos _ _ _ _ Hinv) in Hg as (Hfin & Hoff & Hev & _).
      rewrite <- Hoff. split; assumption.
    - intros cursor cs s1 t ev1 r ev2 Hcs Hg Ha.
      pose proof (gct_term Hg) as Hterm.
      apply (gct_pos _ _ _ _ Hinv) in Hg as (Hfin & Hoff & Hev & Hgap).
      assert (Hgap' : gap_ok s1) by (apply Hgap; discriminate).
      destruct (act_pos _ _ _ _ _ Hfin Hgap' Hterm Ha) as [Hev2 Hr]. rewrite <- Hoff.
      cbn [fst snd]. split; [apply Forall_app; auto|assumption].
  Qed.

  (* ---------- (ii) the invariant over the run, (iii) the lines ---------- *)
  Theorem run_gh_pos fuel c :
    let '(r, s, out, vis) := run_ghx fuel (init c) [] [] in
    pos_fin s /\ (r = OutOfFuel -> pos_inv s) /\
    Forall pos_inv vis /\
    Forall (fun s0 => Forall (event_at buf (cur_off s0)) (snd (stepx s0))) vis /\
    Forall (event_pos_ok buf) out.
  Proof.
    pose proof (run_gh_sinv V C g tbl opts buf cap lexer term_f err_f rule_f pos_inv
                  (fun r s => pos_fin s /\ (r = OutOfFuel -> pos_inv s))) as H.
    specialize (H ltac:(intros s Hs; split; [apply Hs|auto])).
    assert (Hst : forall s, pos_inv s -> match fst (stepx s) with inl s' => pos_inv s'
                   | inr (r, s') => pos_fin s' /\ (r = OutOfFuel -> pos_inv s') end).
    { intros s Hs. pose proof (step_pos s Hs) as [_ H2].
      revert H2. apply step_cases.
      - intros _ H2. split; [assumption|discriminate].
      - intros s1 ev1 _ H2. split; [assumption|discriminate].
      - intros cursor cs s1 t ev1 r ev2 _ _ Ha. cbn [fst]. destruct r as [s'|[r s']]; [auto|].
        intros H2; split; [assumption|]. intros ->. inversion Ha; subst. cbn in *. contradiction. }
    specialize (H Hst fuel (init c) [] [] (pos_inv_init c) (Forall_nil _)).
    pose proof (run_gh_out V C g tbl opts buf cap lexer term_f err_f rule_f fuel (init c) [] [] [] eq_refl) as Ho.
    destruct (run_ghx fuel (init c) [] []) as [[[r s] out] vis]. destruct H as [[H1 H2] H3].
    split; [assumption|split; [assumption|split; [assumption|split]]].
    - eapply Forall_impl; [|exact H3]. intros s0 Hs0. apply step_pos, Hs0.
    - cbn [app] in Ho. subst out. apply Forall_filter.
      apply (out_of_visited V C g tbl opts buf cap lexer term_f err_f rule_f pos_inv); [|assumption].
      intros s0 Hs0. eapply Forall_impl; [|apply step_pos, Hs0]. intros e He. eexists; eassumption.
  Qed.

  Theorem run_pos fuel c :
    let '(r, s, out) := runx fuel c in
    ps_sp s = true_pos buf (ps_it s) /\ ps_it s <= length buf /\ ps_end s <= length buf /\
    (r = OutOfFuel -> ps_it s <= ps_end s \/ ps_term s = Some (eof_idx g)) /\
    Forall (event_pos_ok buf) out.
  Proof.
    unfold run. rewrite (run_gh_run _ _ _ _ _ _ _ _ _ _ _ fuel (init c) [] []).
    pose proof (run_gh_pos fuel c) as H. destruct (run_ghx fuel (init c) [] []) as [[[r s] out] vis].
    destruct H as ((H1 & H2 & H3) & H4 & _ & _ & H5). repeat split; auto.
    intros Hr. destruct (H4 Hr) as [_ [Hg|[Hg _]]]; auto.
  Qed.
End Pos.

(* ---------- (iv) the positions handed to the term functor: the tree algebra ---------- *)
Section PosTree.
  Variable g : grammar.
  Variable tbl : table.
  Variable opts : options.
  Variable buf : list nat.
  Variable cap : option nat.
  Variable lexer : bool -> spoint -> list nat -> list lex_event * option (nat * nat).
  Hypothesis lexer_len : forall v p rest t len, snd (lexer v p rest) = Some (t, len) -> len <= length rest.
  Hypothesis no_eof_shift : eof_err_not_shifted g tbl \/ o_skip_ws opts = false.

  Notation TC := (list (nat * list ptree)).
  Notation pst := (pstate ptree TC).
  Notation stepx := (step ptree TC g tbl opts buf cap lexer tree_term_f tree_err_f tree_rule_f).
  Notation run_ghx := (run_gh ptree TC g tbl opts buf cap lexer tree_term_f tree_err_f tree_rule_f).
  Notation runx := (run ptree TC g tbl opts buf cap lexer tree_term_f tree_err_f tree_rule_f).
  Notation pinv := (pos_inv ptree TC g tbl buf).

  Definition stack_ok (s : pst) : Prop :=
    Forall (tree_ok buf) (ps_values s) /\ Forall (fun c => Forall (tree_ok buf) (snd c)) (ps_ctx s).

  Lemma Forall_tl {A} (P : A -> Prop) l : Forall P l -> Forall P (tl l).
  Proof. intros H; destruct H; cbn; auto. Qed.
  Lemma Forall_firstn {A} (P : A -> Prop) n l : Forall P l -> Forall P (firstn n l).
  Proof. intros H. rewrite <- (firstn_skipn n l) in H. apply Forall_app in H. tauto. Qed.
  Lemma Forall_skipn {A} (P : A -> Prop) n l : Forall P l -> Forall P (skipn n l).
  Proof. intros H. rewrite <- (firstn_skipn n l) in H. apply Forall_app in H. tauto. Qed.

  Lemma step_stack s : pinv s -> stack_ok s ->
    match fst (stepx s) with
    | inl s' => stack_ok s'
    | inr (r, s') => stack_ok s' /\ match r with Accept t => tree_ok buf t | _ => True end
    end.
  Proof.
    intros Hinv [Hv Hc]. apply step_cases.
    - intros _. repeat split; auto.
    - intros s1 ev1 Hg. cbn [fst]. apply gct_stacks in Hg as (_ & Hv1 & Hc1 & _). unfold stack_ok. rewrite Hv1, Hc1. auto.
    - intros cursor cs s1 t ev1 r ev2 _ Hg Ha. cbn [fst].
      pose proof (gct_pos _ _ g tbl opts buf lexer lexer_len no_eof_shift _ _ _ _ Hinv Hg) as ((Hsp & Hit & Hen) & _ & _ & Hgap).
      specialize (Hgap ltac:(discriminate)).
      pose proof (gct_term Hg) as Hterm.
      apply gct_stacks in Hg as (_ & Hv1 & Hc1 & _). rewrite <- Hv1 in Hv. rewrite <- Hc1 in Hc. clear Hv1 Hc1.
      inversion Ha as [r0 s' ev0 Hs' Hr Hev|Hcn Hne|Hcn Hr|top cs' Hcn Hr Htl|Hcn Hr Htl|e nst Hcell Hk Hend|nst|r0 s3 pre ev0 Hred Hpre];
        subst; unfold stack_ok.
      + split.
        * destruct Hs' as [->| ->]; simp_ps; auto.
        * destruct r0; auto. destruct Hr as [rest Hr]. rewrite Forall_forall in Hv. apply Hv.
          apply in_rev. rewrite Hr. left; reflexivity.
      + simp_ps. auto.
      + simp_ps. auto.
      + simp_ps. split; [apply Forall_tl|]; auto.
      + simp_ps. repeat split; [apply Forall_tl|..]; auto.
      + simp_ps. split; [|assumption]. constructor; [|assumption]. unfold tree_term_f. rewrite Hsp.
        constructor.
        assert (Hle : ps_it s1 <= ps_end s1 \/ ps_end s1 < ps_it s1) by lia. destruct Hle; lia.
      + simp_ps. split; [|assumption]. constructor; [|assumption]. unfold tree_err_f. rewrite Hsp. now constructor.
      + apply do_reduce_inl in Hred as (ri & nst & c' & v & _ & _ & _ & Hf & -> & _). simp_ps.
        unfold tree_rule_f in Hf. inversion Hf; subst. simp_ps.
        assert (Forall (tree_ok buf) (rev (firstn (ri_n ri) (ps_values s1)))).
        { apply Forall_rev, Forall_firstn, Hv. }
        split.
        * constructor; [now constructor|]. apply Forall_skipn, Hv.
        * apply Forall_app; split; [assumption|]. constructor; [assumption|constructor].
  Qed.

  (* every leaf anywhere in the final value stack, the result or the logged functor calls carries the true
     position of its lexeme start, and its lexeme lies inside the buffer *)
  Theorem run_leaf_pos fuel :
    let '(r, s, _) := runx fuel [] in
    Forall (tree_ok buf) (ps_values s) /\
    Forall (fun c => Forall (tree_ok buf) (snd c)) (ps_ctx s) /\
    match r with Accept t => tree_ok buf t | _ => True end.
  Proof.
    unfold run. rewrite (run_gh_run _ _ _ _ _ _ _ _ _ _ _ fuel (init []) [] []).
    pose proof (run_gh_sinv ptree TC g tbl opts buf cap lexer tree_term_f tree_err_f tree_rule_f
                  (fun s => pinv s /\ stack_ok s)
                  (fun r s => stack_ok s /\ match r with Accept t => tree_ok buf t | _ => True end)) as H.
    specialize (H ltac:(intros s [_ Hs]; split; [exact Hs|exact I])).
    assert (Hst : forall s, pinv s /\ stack_ok s -> match fst (stepx s) with inl s' => pinv s' /\ stack_ok s'
                   | inr (r, s') => stack_ok s' /\ match r with Accept t => tree_ok buf t | _ => True end end).
    { intros s [H1 H2]. pose proof (step_pos _ _ g tbl opts buf cap lexer tree_term_f tree_err_f tree_rule_f lexer_len no_eof_shift s H1) as [_ H3].
      pose proof (step_stack s H1 H2) as H4. destruct (fst (stepx s)) as [s'|[r s']]; auto. }
    specialize (H Hst fuel (init []) [] []).
    destruct (run_ghx fuel (init []) [] []) as [[[r s] out] vis].
    destruct H as [[[H1 H2] H3] _]; [split; [apply pos_inv_init|split; constructor]|constructor|]. auto.
  Qed.

  Corollary run_leaf_pos_occ fuel :
    let '(r, s, _) := runx fuel [] in
    forall t a l p,
      (exists tr, (In tr (ps_values s) \/ r = Accept tr \/ exists c, In c (ps_ctx s) /\ In tr (snd c)) /\ occurs (PLeaf t a l p) tr) ->
      p = true_pos buf a /\ a + l <= length buf.
  Proof.
    pose proof (run_leaf_pos fuel) as H. destruct (runx fuel []) as [[r s] out]. destruct H as (H1 & H2 & H3).
    intros t a l p (tr & Hin & Hocc). eapply tree_ok_leaf; [|exact Hocc].
    rewrite Forall_forall in H1, H2. destruct Hin as [Hin|[->|(c & Hc & Hin)]]; auto.
    specialize (H2 c Hc). rewrite Forall_forall in H2. auto.
  Qed.
End PosTree.

(* ---------- the hypothesis on the table cannot be dropped ---------- *)
(* terms: 0 = a, 1 = <eof>, 2 = <error_recovery_token>; one state whose <eof> column says "shift". On the buffer "\n"
   every iteration skips the newline again, shifts <eof>, and consume_term moves the cursor back to offset 0 while
   the source point keeps the advanced line: after 3 iterations the driver is at offset 0 believing it is on line 4. *)
Module EofShiftCounterexample.
  Definition g := mkG 3 0 0 1 [] [] [] [] [] [] [] [].
  Definition sh := mkE KShift (Some 0) false.
  Definition er := mkE KError None false.
  Definition tbl : table := [[er; sh; er]].
  Definition lexer (v : bool) (p : spoint) (rest : list nat) : list lex_event * option (nat * nat) := ([], Some (0, 1)).
  Definition o := mkOpt true true true.
  Example positions_wrong :
    let '(_, s, out) := run ptree _ g tbl o [10] None lexer tree_term_f tree_err_f tree_rule_f 3 [] in
    ps_it s = 0 /\ ps_sp s = mkSp 4 1 /\ true_pos [10] (ps_it s) = mkSp 1 1 /\
    In (EvShift (mkSp 3 1) 0 1 0) out /\ true_pos [10] 1 = mkSp 2 1.
  Proof. vm_compute. repeat split. right; right; right; left; reflexivity. Qed.
  Example lexer_fine : forall v p rest t len, snd (lexer v p rest) = Some (t, len) -> 0 < len.
  Proof. intros v p rest t len H. inversion H. lia. Qed.
End EofShiftCounterexample.
