(* The generator theorem for grammars WITH shift/reduce conflicts:

     gen_validates_resolved : grammar_wf g = true -> grammar_wf_extra g = true -> gen_with g lim = inl (sts, tbl) ->
       no_rr g (length sts) tbl = true -> accept_clean g sts = true ->
       validate_resolved g (map st_all sts) tbl = true

   i.e. for every grammar whose generated table has no reduce/reduce mark (and no state hides the accept/reduce
   conflict D12), the generated item sets and table are the LR(1) automaton of the grammar in which every
   shift/reduce conflict is decided by the documented rule [sr_choice] (Spec/Conflict.v). Shift/reduce marks are
   allowed. With Proofs/Grouping.v: every tree the generated parser accepts is well grouped ([gen_groups]).

   Proof: Proofs/GenResolvedInv.v gives, without any hypothesis on marks, that every cell of the final table is
   what transitions() writes for the scan of the bucket of the final item set ([cell_rec]). The theorems of
   Proofs/CellResolve.v (C05_cell, C05_no_reduce, C05_no_shift, scan_cell_characterisation) turn that into a
   four-way view of a cell ([cell_view]: empty / accept / shift / reduce), from which the checks of
   Valid/LRResolved.v are read off. *)
Require Import Ctpg.Base.Prelude Ctpg.Model.Grammar Ctpg.Model.LRGen Ctpg.Model.Driver
               Ctpg.Spec.Cfg Ctpg.Spec.LRSpec Ctpg.Spec.Conflict Ctpg.Spec.Grouping
               Ctpg.Valid.LRValid Ctpg.Valid.LRResolved
               Ctpg.Proofs.LRReflect Ctpg.Proofs.LRValidFacts Ctpg.Proofs.LRSound
               Ctpg.Proofs.GenLists Ctpg.Proofs.GenWf
               Ctpg.Proofs.GenFirst Ctpg.Proofs.GenClosure Ctpg.Proofs.GenScan Ctpg.Proofs.GenTrans
               Ctpg.Proofs.GenCorrect Ctpg.Proofs.GenAnalyze
               Ctpg.Proofs.CellResolve Ctpg.Proofs.GroupingFacts Ctpg.Proofs.Grouping
               Ctpg.Proofs.GenResolvedInv.

(* no finished cell is a reduce/reduce cell (shift/reduce marks are allowed) *)
Definition no_rr (g : grammar) (nstates : nat) (tbl : table) : bool :=
  forallb (fun s => forallb (fun c => negb (kind_eqb (e_kind (nth c (nth s tbl []) entry_default)) KRR))
                            (seq 0 (symbol_count g))) (seq 0 nstates).

Lemma conflict_free_no_rr g n tbl : conflict_free g n tbl = true -> no_rr g n tbl = true.
Proof.
  unfold conflict_free, no_rr. rewrite !forallb_seq0. intros H s Hs. specialize (H s Hs).
  rewrite forallb_seq0 in H |- *. intros c Hc. specialize (H c Hc). cbn zeta in H.
  apply andb_true_iff in H. apply H.
Qed.

Lemma no_rr_cell g n tbl s c : no_rr g n tbl = true -> s < n -> c < symbol_count g -> e_kind (cell_at tbl s c) <> KRR.
Proof.
  unfold no_rr. rewrite forallb_seq0. intros H Hs Hc. specialize (H s Hs). rewrite forallb_seq0 in H.
  specialize (H c Hc). apply negb_true_iff in H. intros E. unfold cell_at in E. rewrite E in H. discriminate.
Qed.

(* ---------- small facts ---------- *)

Lemma nonshift_entry_kind Sc : e_kind (nonshift_entry Sc) = sc_kind Sc.
Proof. unfold nonshift_entry. destruct (sc_kind Sc) eqn:E; cbn; congruence. Qed.

Lemma nonshift_entry_reduce Sc : sc_kind Sc = KReduce -> e_arg (nonshift_entry Sc) = sc_red Sc.
Proof. intros E. unfold nonshift_entry. rewrite E. reflexivity. Qed.

Lemma reduce_items_none g B : (forall i, In i B -> is_complete g i = false) -> reduce_items g B = [].
Proof.
  intros H. destruct (reduce_items g B) as [|x l] eqn:E; [reflexivity|].
  assert (In x (reduce_items g B)) as Hx by (rewrite E; cbn; auto).
  apply in_reduce_items in Hx. destruct Hx as [Hx Hc]. rewrite (H x Hx) in Hc. discriminate.
Qed.

Lemma target_kernel_In g B j :
  In j (target_kernel g B) <-> exists i, In i B /\ is_complete g i = false /\ j = adv i.
Proof.
  unfold target_kernel. rewrite CellBasics.dedup_first_In, in_map_iff. split.
  - intros (i & E & Hi). apply in_shift_items in Hi. destruct Hi as [Hi Hc]. exists i. auto.
  - intros (i & Hi & Hc & E). exists i. split; [symmetry; exact E|]. apply in_shift_items. auto.
Qed.

Lemma kd_goto_target g tbl s x idx :
  sym_ok g x = true ->
  e_kind (cell_at tbl s (sym_col g x)) = kd g (sym_col g x) ->
  e_arg (cell_at tbl s (sym_col g x)) = Some idx ->
  goto_target g tbl s x = Some idx.
Proof.
  intros Hsx Hk Ea. unfold goto_target. rewrite Hk. unfold kd. destruct x as [t|n]; cbn [sym_col] in *.
  - destruct (Nat.eqb t (err_idx g)) eqn:Et.
    + apply Nat.eqb_eq in Et. subst t. rewrite Nat.eqb_refl. assumption.
    + assert (Nat.eqb (nterm_count g + t) (nterm_count g + err_idx g) = false) as ->.
      { apply Nat.eqb_neq. apply Nat.eqb_neq in Et. lia. }
      assumption.
  - cbn in Hsx. apply Nat.ltb_lt in Hsx.
    assert (Nat.eqb n (nterm_count g + err_idx g) = false) as -> by (apply Nat.eqb_neq; lia).
    assumption.
Qed.

(* ---------- the view of a cell ---------- *)

Section View.
  Variable g : grammar.
  Hypothesis WF : wf_facts g.
  Variable sts : list lrstate.
  Variable tbl : table.
  Hypothesis Hdisc : all_disc g sts.
  Hypothesis Hcells : forall s c, s < length sts -> c < symbol_count g -> cell_rec g sts tbl s c.
  Hypothesis Hnorr : forall s c, s < length sts -> c < symbol_count g -> e_kind (cell_at tbl s c) <> KRR.
  Hypothesis Hclean : forall s, s < length sts -> st_clean g (st_all (stn sts s)) = true.

  Definition noroot (B : list item) : Prop :=
    forall i, In i B -> is_complete g i = true -> it_r i <> root_rule_idx g.

  Definition shift_cell (c : nat) (B : list item) (e : entry) : Prop :=
    exists idx, e_kind e = kd g c /\ e_arg e = Some idx /\ idx < length sts /\ idx <> 0 /\
                forall j, In j (st_kernel (stn sts idx)) <-> exists i, In i B /\ is_complete g i = false /\ j = adv i.

  Inductive cell_view (c : nat) (B : list item) (e : entry) : Prop :=
  | CV_empty : B = [] -> e = entry_default -> cell_view c B e
  | CV_accept : B <> [] -> (forall i, In i B -> is_complete g i = true /\ it_r i = root_rule_idx g) ->
                e_kind e = KSuccess -> cell_view c B e
  | CV_shift : noroot B -> shift_items g B <> [] ->
               (reduce_items g B = [] \/
                exists i, reduce_items g B = [i] /\ sr_choice g (it_r i) (c - nterm_count g) = KShift) ->
               shift_cell c B e -> cell_view c B e
  | CV_reduce : noroot B -> forall i, reduce_items g B = [i] ->
                (shift_items g B = [] \/ sr_choice g (it_r i) (c - nterm_count g) = KReduce) ->
                e_kind e = KReduce -> e_arg e = Some (it_r i) -> cell_view c B e.

  Lemma state_in_term_bucket s t : s < length sts ->
    in_term_bucket g t (bucket g (st_all (stn sts s)) (nterm_count g + t)).
  Proof.
    intros Hs. pose proof (Hdisc s Hs) as D. apply bucket_in_term_bucket.
    - intros i Hi. destruct (sd_ok _ _ _ D i Hi) as (Hr & _). apply (item_n_length g WF i Hr).
    - intros i j Hi Hn. destruct (sd_ok _ _ _ D i Hi) as (Hr & _).
      destruct (next_sym_ok g WF i (NT j) Hr Hn) as (Hsx & _). cbn in Hsx. apply Nat.ltb_lt. assumption.
  Qed.

  Lemma view s c : s < length sts -> c < symbol_count g ->
    cell_view c (bucket g (st_all (stn sts s)) c) (cell_at tbl s c).
  Proof.
    intros Hs Hc. pose proof (Hdisc s Hs) as D. pose proof (Hcells s c Hs Hc) as Hrec.
    pose proof (Hnorr s c Hs Hc) as Hk. pose proof (Hclean s Hs) as Hcl.
    unfold cell_rec in Hrec. cbn zeta in Hrec.
    pose proof (B_in g s (stn sts s) D c) as HBin.
    pose proof (state_in_term_bucket s (c - nterm_count g) Hs) as HTB.
    set (its := st_all (stn sts s)) in *. set (B := bucket g its c) in *.
    set (Sc := scan_cell g B scan0) in *. set (e := cell_at tbl s c) in *.
    destruct Hrec as [(EB & Ee)|Hrec]; [apply CV_empty; assumption|].
    assert (B <> []) as Hne by (destruct Hrec as [(H & _)|(H & _)]; exact H).
    assert (sc_kind Sc <> KRR) as HnRR.
    { destruct Hrec as [(_ & _ & Ee)|(_ & Ek & _)]; [|congruence].
      intros E. apply Hk. rewrite Ee, nonshift_entry_kind. assumption. }
    destruct (existsb (fun i => is_complete g i && is_rootred g i) B) eqn:Ex.
    - (* the bucket of the completed root item *)
      apply existsb_exists in Ex. destruct Ex as (i & Hi & Hp). apply andb_true_iff in Hp. destruct Hp as [Ci Ri].
      destruct (HBin i Hi) as (_ & (Hr & _) & _). apply (is_rootred_iff g WF i Hr) in Ri.
      pose proof (root_bucket g WF s (stn sts s) D c i Hcl Hi Ci Ri) as Hall. fold its in Hall. fold B in Hall.
      apply CV_accept; [assumption|assumption|].
      assert (Sc = mkScan KSuccess false false false None []) as ES.
      { unfold Sc. destruct B as [|j rest] eqn:EB; [congruence|].
        destruct (Hall j (or_introl eq_refl)) as (Cj & Rj).
        apply scan_root; [assumption|]. apply is_rootred_iff; [assumption| |assumption].
        rewrite Rj. apply wf_root_lt; assumption. }
      destruct Hrec as [(_ & _ & Ee)|(_ & Ek & _)].
      + rewrite Ee, nonshift_entry_kind, ES. reflexivity.
      + rewrite ES in Ek. discriminate.
    - assert (forall i, In i B -> is_complete g i = true -> is_rootred g i = false) as Hn.
      { intros i Hi Ci. pose proof (existsb_false_all _ _ Ex i Hi) as Hf. cbn in Hf. rewrite Ci in Hf. exact Hf. }
      assert (noroot B) as Hnr.
      { intros i Hi Ci Ri. destruct (HBin i Hi) as (_ & (Hr & _) & _).
        apply (is_rootred_iff g WF i Hr) in Ri. rewrite (Hn i Hi Ci) in Ri. discriminate. }
      assert (no_root_complete g B) as Hnrc.
      { intros i Hi. unfold root_complete. destruct (is_complete g i) eqn:Ci; [|reflexivity]. apply (Hn i Hi Ci). }
      destruct (Nat.lt_ge_cases c (nterm_count g)) as [Hlt|Hge].
      + (* a nonterminal column: shift items only *)
        assert (forall i, In i B -> is_complete g i = false) as Hinc.
        { intros i Hi. destruct (HBin i Hi) as (_ & Oi & Bi). destruct (is_complete g i) eqn:Ci; [|reflexivity].
          rewrite (bucket_complete g i Oi Ci) in Bi. lia. }
        assert (Sc = mkScan KShift false false true None (fold_left add_item (map adv B) [])) as ES.
        { unfold Sc. rewrite scan_all_shift; auto. }
        destruct Hrec as [(_ & Ek & _)|(_ & _ & idx & Ee & Hidx & Hidx0 & Hker)]; [rewrite ES in Ek; cbn in Ek; congruence|].
        apply CV_shift; [assumption| |left; apply reduce_items_none; assumption|].
        * destruct B as [|j rest] eqn:EB; [congruence|]. intros E.
          assert (In j (shift_items g (j :: rest))) as Hj by (apply in_shift_items; split; [cbn; auto|apply Hinc; cbn; auto]).
          rewrite E in Hj. destruct Hj.
        * exists idx. rewrite Ee. cbn [e_kind e_arg]. repeat split; auto.
          -- intros Hj. apply Hker in Hj. rewrite ES in Hj. cbn [sc_kernel] in Hj. apply fold_adv_In in Hj.
             destruct Hj as (i & Hi & Ej). exists i. auto.
          -- intros (i & Hi & _ & Ej). apply Hker. rewrite ES. cbn [sc_kernel]. apply fold_adv_In. exists i. auto.
      + (* the column of term t *)
        set (t := c - nterm_count g) in *. assert (c = nterm_count g + t) as Ec by (unfold t; lia).
        rewrite <- Ec in HTB. fold its in HTB. fold B in HTB.
        assert (never_stops g B) as Hnever.
        { destruct (scan_cell_characterisation g t B HTB)
            as [[H _]|[(pre & i & post & (E & Hi & _) & _)|(pre & i & post & _ & E)]].
          - assumption.
          - exfalso. assert (In i B) as Hin by (rewrite E; apply in_app_iff; right; cbn; auto).
            rewrite (Hnrc i Hin) in Hi. discriminate.
          - exfalso. apply HnRR. unfold Sc. rewrite E. reflexivity. }
        assert (forall idx, (forall j, In j (st_kernel (stn sts idx)) <-> In j (sc_kernel Sc)) ->
                sc_kernel Sc = target_kernel g B ->
                forall j, In j (st_kernel (stn sts idx)) <-> exists i, In i B /\ is_complete g i = false /\ j = adv i) as Hkconv.
        { intros idx Hker EK j. rewrite Hker, EK. apply target_kernel_In. }
        destruct Hnever as [_ Hlen].
        destruct (reduce_items g B) as [|i0 [|i1 l]] eqn:ER; [| |cbn in Hlen; lia];
          destruct (shift_items g B) as [|j0 Sh0] eqn:ES.
        * exfalso. destruct B as [|j rest] eqn:EB; [congruence|].
          destruct (is_complete g j) eqn:Cj.
          -- assert (In j (reduce_items g (j :: rest))) as Hj by (apply in_reduce_items; cbn; auto).
             rewrite ER in Hj. destruct Hj.
          -- assert (In j (shift_items g (j :: rest))) as Hj by (apply in_shift_items; cbn; auto).
             rewrite ES in Hj. destruct Hj.
        * destruct (C05_no_reduce g t B HTB ER Hne) as (K1 & K2 & K3 & K4 & K5 & K6). fold Sc in K1, K2, K3, K4, K5, K6.
          destruct Hrec as [(_ & Ek & _)|(_ & _ & idx & Ee & Hidx & Hidx0 & Hker)]; [congruence|].
          apply CV_shift; [assumption|rewrite ES; discriminate|left; assumption|].
          exists idx. rewrite Ee. cbn [e_kind e_arg]. repeat split; auto; apply (Hkconv idx Hker K6).
        * assert (is_root_item g i0 = false) as Hri.
          { assert (In i0 (reduce_items g B)) as Hin by (rewrite ER; cbn; auto).
            apply in_reduce_items in Hin. destruct Hin as [Hin Ci]. apply (Hn i0 Hin Ci). }
          destruct (C05_no_shift g t B i0 HTB ER Hri ES) as (K1 & K2 & K3 & K4 & K5 & K6). fold Sc in K1, K2, K3, K4, K5, K6.
          destruct Hrec as [(_ & _ & Ee)|(_ & Ek & _)]; [|congruence].
          apply (CV_reduce c B e Hnr i0); [assumption|left; assumption| |].
          -- rewrite Ee, nonshift_entry_kind. assumption.
          -- rewrite Ee, nonshift_entry_reduce by assumption. assumption.
        * assert (is_root_item g i0 = false) as Hri.
          { assert (In i0 (reduce_items g B)) as Hin by (rewrite ER; cbn; auto).
            apply in_reduce_items in Hin. destruct Hin as [Hin Ci]. apply (Hn i0 Hin Ci). }
          assert (shift_items g B <> []) as HS by (rewrite ES; discriminate).
          destruct (C05_cell g t B i0 HTB ER Hri HS) as (K1 & K2 & K3 & K4 & K5 & K6). fold Sc in K1, K2, K3, K4, K5, K6.
          destruct (sr_choice_cases g (it_r i0) t) as [Ech|Ech]; rewrite Ech in K1.
          -- destruct Hrec as [(_ & _ & Ee)|(_ & Ek & _)]; [|congruence].
             apply (CV_reduce c B e Hnr i0); [assumption|right; assumption| |].
             ++ rewrite Ee, nonshift_entry_kind. assumption.
             ++ rewrite Ee, nonshift_entry_reduce by assumption. assumption.
          -- destruct Hrec as [(_ & Ek & _)|(_ & _ & idx & Ee & Hidx & Hidx0 & Hker)]; [congruence|].
             apply CV_shift; [assumption|assumption|right; exists i0; auto|].
             exists idx. rewrite Ee. cbn [e_kind e_arg]. repeat split; auto; apply (Hkconv idx Hker K6).
  Qed.
End View.

(* ---------- from the view to the checks of Valid/LRResolved.v ---------- *)

Lemma nonempty_In {A} (l : list A) : l <> [] -> exists x, In x l.
Proof. destruct l as [|x l]; [congruence|]. intros _. exists x. cbn; auto. Qed.

Lemma In_nonempty {A} (l : list A) x : In x l -> l <> [].
Proof. intros H E. rewrite E in H. destruct H. Qed.

Lemma In_singleton {A} (l : list A) a x : l = [a] -> In x l -> x = a.
Proof. intros -> [H|[]]. auto. Qed.

Section Checks.
  Variable g : grammar.
  Hypothesis WF : wf_facts g.
  Variable sts : list lrstate.
  Variable tbl : table.
  Hypothesis Hdisc : all_disc g sts.
  Hypothesis Hcells : forall s c, s < length sts -> c < symbol_count g -> cell_rec g sts tbl s c.
  Hypothesis Hnorr : forall s c, s < length sts -> c < symbol_count g -> e_kind (cell_at tbl s c) <> KRR.
  Hypothesis Hclean : forall s, s < length sts -> st_clean g (st_all (stn sts s)) = true.
  Let sl := map st_all sts.

  Lemma V s c : s < length sts -> c < symbol_count g ->
    cell_view g sts c (bucket g (st_all (stn sts s)) c) (cell_at tbl s c).
  Proof. apply view; assumption. Qed.

  Lemma complete_bucket s i : s < length sts -> In i (st_all (stn sts s)) -> is_complete g i = true ->
    In i (bucket g (st_all (stn sts s)) (nterm_count g + it_t i)) /\ nterm_count g + it_t i < symbol_count g.
  Proof.
    intros Hs Hi Ci. pose proof (sd_ok _ _ _ (Hdisc s Hs) i Hi) as Oi.
    pose proof (bucket_complete g i Oi Ci) as Ex.
    pose proof (bucket_col_lt g WF sts Hdisc s i Hs Hi) as Hc. rewrite Ex in Hc.
    split; [apply bucket_In; auto|assumption].
  Qed.

  Lemma shift_bucket s i x : s < length sts -> In i (st_all (stn sts s)) ->
    is_complete g i = false -> next_sym g i = Some x ->
    In i (bucket g (st_all (stn sts s)) (sym_col g x)) /\ sym_col g x < symbol_count g /\ sym_ok g x = true.
  Proof.
    intros Hs Hi Ci Hx. pose proof (sd_ok _ _ _ (Hdisc s Hs) i Hi) as Oi.
    destruct (bucket_incomplete g WF i Oi Ci) as (x' & Hx' & Ex). assert (x' = x) by congruence. subst x'.
    pose proof (bucket_col_lt g WF sts Hdisc s i Hs Hi) as Hc. rewrite Ex in Hc.
    destruct Oi as (Hr & _). destruct (next_sym_ok g WF i x Hr Hx) as (Hsx & _).
    split; [apply bucket_In; auto|]. auto.
  Qed.

  Lemma shift_cell_target s x l : s < length sts -> sym_ok g x = true ->
    shift_cell g sts (sym_col g x) (bucket g (st_all (stn sts s)) (sym_col g x)) (cell_at tbl s (sym_col g x)) ->
    (forall i, In i l -> In i (bucket g (st_all (stn sts s)) (sym_col g x)) /\ is_complete g i = false) ->
    has_target g sl tbl s x l.
  Proof.
    intros Hs Hsx (idx & Hk & Ea & Hidx & Hidx0 & Hker) Hl.
    exists idx. split; [apply kd_goto_target; assumption|]. split; [unfold sl; rewrite map_length; assumption|].
    intros i Hi. unfold sl. rewrite state_items_map. apply (sd_ker_all _ _ _ (Hdisc idx Hidx)). apply Hker.
    exists i. destruct (Hl i Hi). auto.
  Qed.

  (* ----- V5 ----- *)
  Lemma r_justified s c : s < length sts -> c < symbol_count g -> cell_justified g sl tbl s c = true.
  Proof.
    intros Hs Hc. unfold cell_justified, sl. rewrite state_items_map. pose proof (Hdisc s Hs) as D.
    pose proof (B_in g s (stn sts s) D c) as HBin.
    set (its := st_all (stn sts s)) in *. set (e := cell_at tbl s c) in *.
    destruct (V s c Hs Hc) as [EB Ee|Hne Hall Hk|Hnr HS HR (idx & Hk & Ea & Hidx & Hidx0 & Hker)|Hnr i0 ER HS Hk Ea];
      fold its in EB || fold its in Hne || fold its in Hnr; fold e in Ee || fold e in Hk.
    - rewrite Ee. cbn. apply orb_true_r.
    - fold its in Hall. rewrite Hk. destruct (nonempty_In _ Hne) as (i & Hi).
      destruct (Hall i Hi) as (Ci & Ri). destruct (HBin i Hi) as (Ii & Oi & Bi).
      rewrite (bucket_complete g i Oi Ci), (sd_rootla _ _ _ D i Ii Ri) in Bi.
      apply andb_true_iff. split.
      + apply Nat.eqb_eq. unfold col_of_term. lia.
      + apply existsb_exists. exists i. split; [assumption|]. rewrite Ri, Nat.eqb_refl, Ci. reflexivity.
    - fold its in HS, HR, Hker. fold e in Ea.
      assert (match e_kind e with KShift | KShiftErr => True | _ => False end) as Hkk
          by (rewrite Hk; unfold kd; destruct (Nat.eqb _ _); exact I).
      assert ((negb (kind_eqb (e_kind e) KShiftErr) || Nat.eqb c (col_of_term g (err_idx g))) = true) as Hfirst.
      { rewrite Hk. unfold kd, col_of_term. destruct (Nat.eqb c (nterm_count g + err_idx g)); reflexivity. }
      assert (Nat.ltb idx (length (map st_all sts)) = true) as H2a
          by (rewrite map_length; apply Nat.ltb_lt; assumption).
      assert (negb (Nat.eqb idx 0) = true) as H2b by (apply negb_true_iff; apply Nat.eqb_neq; assumption).
      assert (forallb (fun j => match it_d j with
                                | 0 => true
                                | S d => mem_item (mkItem (it_r j) d (it_t j)) its &&
                                         match nth_error (rhs_of g j) d with
                                         | Some x => Nat.eqb (sym_col g x) c
                                         | None => false
                                         end
                                end) (state_items (map st_all sts) idx) = true) as Hthird.
      { rewrite state_items_map. apply forallb_forall. intros j Hj.
        destruct (it_d j) as [|d] eqn:Ed; [reflexivity|].
        assert (In j (st_kernel (stn sts idx))) as Hjk by (apply (sd_dot_ker _ _ _ (Hdisc idx Hidx)); [assumption|lia]).
        apply Hker in Hjk. destruct Hjk as (i & Hi & Ci & Ej).
        destruct (HBin i Hi) as (Ii & Oi & Bi).
        destruct (bucket_incomplete g WF i Oi Ci) as (x & Hx & Ex).
        subst j. cbn in Ed. inversion Ed; subst d. cbn [it_r it_t adv].
        assert (mkItem (it_r i) (it_d i) (it_t i) = i) as -> by (destruct i; reflexivity).
        apply andb_true_iff. split; [apply LRReflect.mem_item_In; assumption|].
        change (rhs_of g (adv i)) with (rhs_of g i). unfold next_sym in Hx. rewrite Hx.
        apply Nat.eqb_eq. congruence. }
      rewrite Ea. destruct (e_kind e) eqn:Ekk; try contradiction;
        (apply andb_true_iff; split; [apply andb_true_iff; split; [apply andb_true_iff; split|]|]);
        try exact Hfirst; try exact H2a; try exact H2b; try exact Hthird.
    - fold its in ER, HS. fold e in Ea. rewrite Hk, Ea.
      assert (In i0 (reduce_items g (bucket g its c))) as Hi by (rewrite ER; cbn; auto).
      apply in_reduce_items in Hi. destruct Hi as [Hi Ci]. destruct (HBin i0 Hi) as (Ii & Oi & Bi).
      rewrite (bucket_complete g i0 Oi Ci) in Bi. pose proof (Hnr i0 Hi Ci) as Ri. destruct Oi as (Hr & _).
      apply andb_true_iff. split; [apply andb_true_iff; split; [apply andb_true_iff; split|]|].
      + apply Nat.ltb_lt. assumption.
      + apply negb_true_iff. apply Nat.eqb_neq. assumption.
      + apply Nat.leb_le. lia.
      + apply existsb_exists. exists i0. split; [assumption|]. rewrite Nat.eqb_refl, Ci. reflexivity.
  Qed.

  (* ----- nonterminal columns ----- *)
  Lemma r_nt_goto s i b : s < length sts -> In i (st_all (stn sts s)) -> is_complete g i = false ->
    next_sym g i = Some (NT b) -> has_target g sl tbl s (NT b) [i].
  Proof.
    intros Hs Hi Ci Hn. destruct (shift_bucket s i (NT b) Hs Hi Ci Hn) as (Hb & Hc & Hsx). cbn [sym_col] in Hb, Hc.
    pose proof (B_in g s (stn sts s) (Hdisc s Hs) b) as HBin.
    destruct (V s b Hs Hc) as [EB Ee|Hne Hall Hk|Hnr HS HR Hsc|Hnr i0 ER HS Hk Ea].
    - rewrite EB in Hb. destruct Hb.
    - destruct (Hall i Hb). congruence.
    - apply shift_cell_target; [assumption|assumption|exact Hsc|].
      intros j [<-|[]]. cbn [sym_col]. auto.
    - exfalso. assert (In i0 (reduce_items g (bucket g (st_all (stn sts s)) b))) as H0 by (rewrite ER; cbn; auto).
      apply in_reduce_items in H0. destruct H0 as [H0 C0]. destruct (HBin i0 H0) as (_ & O0 & B0).
      rewrite (bucket_complete g i0 O0 C0) in B0. cbn in Hsx. apply Nat.ltb_lt in Hsx. lia.
  Qed.

  (* ----- accept ----- *)
  Lemma r_accept s i : s < length sts -> In i (st_all (stn sts s)) -> is_complete g i = true ->
    it_r i = root_rule_idx g ->
    e_kind (cell_at tbl s (col_of_term g (it_t i))) = KSuccess /\ it_t i = eof_idx g.
  Proof.
    intros Hs Hi Ci Ri. split; [|apply (sd_rootla _ _ _ (Hdisc s Hs) i Hi Ri)].
    destruct (complete_bucket s i Hs Hi Ci) as (Hb & Hc). unfold col_of_term.
    destruct (V s _ Hs Hc) as [EB Ee|Hne Hall Hk|Hnr HS HR Hsc|Hnr i0 ER HS Hk Ea].
    - rewrite EB in Hb. destruct Hb.
    - assumption.
    - exfalso. apply (Hnr i Hb Ci Ri).
    - exfalso. apply (Hnr i Hb Ci Ri).
  Qed.

  (* ----- term columns: the resolved cell ----- *)
  Lemma r_cell_spec s t : s < length sts -> t < term_count g -> cell_spec g sl tbl s t.
  Proof.
    intros Hs Ht. pose proof (Hdisc s Hs) as D.
    set (c := nterm_count g + t). assert (c < symbol_count g) as Hc by (unfold c, symbol_count; lia).
    assert (c - nterm_count g = t) as Ect by (unfold c; lia).
    pose proof (V s c Hs Hc) as HV.
    pose proof (B_in g s (stn sts s) D c) as HBin.
    set (its := st_all (stn sts s)) in *. set (B := bucket g its c) in *.
    assert (forall i, In i (red_items g sl s t) -> In i (reduce_items g B) /\ it_r i <> root_rule_idx g) as HR.
    { intros i Hi. apply in_red_items in Hi. unfold sl in Hi. rewrite state_items_map in Hi.
      destruct Hi as (Hi & Ci & Hr & Et). split; [|assumption]. apply in_reduce_items. split; [|assumption].
      destruct (complete_bucket s i Hs Hi Ci) as [Hb _]. rewrite Et in Hb. exact Hb. }
    assert (forall i, In i (reduce_items g B) -> it_r i <> root_rule_idx g -> In i (red_items g sl s t)) as HR'.
    { intros i Hi Hr. apply in_reduce_items in Hi. destruct Hi as [Hi Ci]. destruct (HBin i Hi) as (Ii & Oi & Bi).
      apply in_red_items. unfold sl; rewrite state_items_map. repeat split; auto.
      rewrite (bucket_complete g i Oi Ci) in Bi. unfold c in Bi. lia. }
    assert (forall i, In i (sh_items g sl s t) <-> In i (shift_items g B)) as HS.
    { intros i. rewrite in_sh_items, in_shift_items. unfold sl; rewrite state_items_map. split.
      - intros (Hi & Ci & Hn). split; [|assumption]. destruct (shift_bucket s i (T t) Hs Hi Ci Hn) as (Hb & _). exact Hb.
      - intros (Hi & Ci). destruct (HBin i Hi) as (Ii & Oi & Bi). split; [assumption|]. split; [assumption|].
        destruct (bucket_incomplete g WF i Oi Ci) as (x & Hx & Ex). rewrite Hx. f_equal.
        destruct Oi as (Hr & _). destruct (next_sym_ok g WF i x Hr Hx) as (Hsx & _).
        apply (wf_sym_col_inj g x (T t)); [assumption|cbn; apply Nat.ltb_lt; assumption|]. cbn [sym_col]. fold c. congruence. }
    assert (forall l, (forall i, In i l -> In i (sh_items g sl s t)) -> shift_cell g sts c B (cell_at tbl s c) ->
                      has_target g sl tbl s (T t) l) as Htarget.
    { intros l Hl Hsc. apply shift_cell_target; [assumption|cbn; apply Nat.ltb_lt; assumption|exact Hsc|].
      intros i Hi. apply Hl in Hi. apply HS in Hi. apply in_shift_items in Hi. exact Hi. }
    assert (is_reduce g tbl s t = fun r => e_kind (cell_at tbl s c) = KReduce /\ e_arg (cell_at tbl s c) = Some r) as Eir
        by reflexivity.
    unfold cell_spec. cbn zeta.
    destruct HV as [EB Ee|Hne Hall Hk|Hnr HSne HRed Hsc|Hnr i0 ER HSd Hk Ea].
    - (* empty bucket *)
      assert (forall i, ~ In i (red_items g sl s t)) as NR by (intros i Hi; destruct (HR i Hi) as [Hi' _]; rewrite EB in Hi'; destruct Hi').
      assert (forall i, ~ In i (sh_items g sl s t)) as NS by (intros i Hi; apply HS in Hi; rewrite EB in Hi; destruct Hi).
      split; [intros i j Hi; destruct (NR i Hi)|]. split; [intros _ Hn; destruct (nonempty_In _ Hn) as (x & Hx); destruct (NS x Hx)|].
      split; intros i Hi; destruct (NR i Hi).
    - (* the completed root item: no reduce item of another rule, no shift item *)
      assert (forall i, ~ In i (red_items g sl s t)) as NR.
      { intros i Hi. destruct (HR i Hi) as [Hi' Hr]. apply in_reduce_items in Hi'. destruct Hi' as [Hi' _].
        destruct (Hall i Hi') as (_ & Ri). contradiction. }
      assert (forall i, ~ In i (sh_items g sl s t)) as NS.
      { intros i Hi. apply HS in Hi. apply in_shift_items in Hi. destruct Hi as [Hi Ci]. destruct (Hall i Hi). congruence. }
      split; [intros i j Hi; destruct (NR i Hi)|]. split; [intros _ Hn; destruct (nonempty_In _ Hn) as (x & Hx); destruct (NS x Hx)|].
      split; intros i Hi; destruct (NR i Hi).
    - (* shift *)
      rewrite Ect in HRed.
      assert (has_target g sl tbl s (T t) (sh_items g sl s t)) as HT by (apply Htarget; auto).
      split; [|split; [|split]].
      + intros i j Hi Hj. destruct (HR i Hi) as [Hi' _]. destruct (HR j Hj) as [Hj' _].
        destruct HRed as [E|(i1 & E & _)]; [rewrite E in Hi'; destruct Hi'|].
        rewrite (In_singleton _ _ _ E Hi'), (In_singleton _ _ _ E Hj'). reflexivity.
      + intros _ _. exact HT.
      + intros i Hi E. exfalso. destruct (nonempty_In _ HSne) as (x & Hx). apply HS in Hx. rewrite E in Hx. destruct Hx.
      + intros i Hi _. right. split; [|exact HT]. destruct (HR i Hi) as [Hi' _].
        destruct HRed as [E|(i1 & E & Ech)]; [rewrite E in Hi'; destruct Hi'|].
        rewrite (In_singleton _ _ _ E Hi'). exact Ech.
    - (* reduce *)
      rewrite Ect in HSd.
      assert (In i0 B /\ is_complete g i0 = true) as (Hi0 & Ci0).
      { apply in_reduce_items. rewrite ER. cbn; auto. }
      assert (In i0 (red_items g sl s t)) as Hi0R.
      { apply HR'; [rewrite ER; cbn; auto|]. apply (Hnr i0 Hi0 Ci0). }
      assert (is_reduce g tbl s t (it_r i0)) as Hred by (rewrite Eir; auto).
      split; [|split; [|split]].
      + intros i j Hi Hj. destruct (HR i Hi) as [Hi' _]. destruct (HR j Hj) as [Hj' _].
        rewrite (In_singleton _ _ _ ER Hi'), (In_singleton _ _ _ ER Hj'). reflexivity.
      + intros E. rewrite E in Hi0R. destruct Hi0R.
      + intros i Hi _. destruct (HR i Hi) as [Hi' _]. rewrite (In_singleton _ _ _ ER Hi'). exact Hred.
      + intros i Hi Hn. destruct (HR i Hi) as [Hi' _]. rewrite (In_singleton _ _ _ ER Hi'). left. split; [|exact Hred].
        destruct HSd as [E|E]; [|exact E]. exfalso. destruct (nonempty_In _ Hn) as (x & Hx). apply HS in Hx. rewrite E in Hx. destruct Hx.
  Qed.
End Checks.

(* ---------- the theorem ---------- *)

Theorem gen_validates_resolved : forall g lim sts tbl,
  grammar_wf g = true ->
  grammar_wf_extra g = true ->
  gen_with g lim = inl (sts, tbl) ->
  no_rr g (length sts) tbl = true ->
  accept_clean g sts = true ->
  validate_resolved g (map st_all sts) tbl = true.
Proof.
  intros g lim sts tbl Hwf Hwfx Hgen Hrr Hac.
  pose proof (wf_facts_of _ Hwf) as WF.
  pose proof (gen_with_facts g lim sts tbl Hwf Hwfx Hgen) as GF.
  pose proof (gf_disc _ _ _ _ GF) as Hdisc. pose proof (gf_cells _ _ _ _ GF) as Hcells.
  pose proof (gf_pos _ _ _ _ GF) as Hpos.
  assert (forall s c, s < length sts -> c < symbol_count g -> e_kind (cell_at tbl s c) <> KRR) as Hnorr
      by (intros s c Hs Hc; eapply no_rr_cell; eassumption).
  assert (forall s, s < length sts -> st_clean g (st_all (stn sts s)) = true) as Hclean.
  { intros s Hs. unfold accept_clean in Hac. rewrite forallb_forall in Hac. apply (Hac (stn sts s)).
    apply nth_In. assumption. }
  unfold validate_resolved. apply resolved_ok_iff. split; [|split].
  - unfold table_sound_ok. rewrite Hwf. cbn [andb].
    assert (dims_ok g (map st_all sts) tbl = true) as ->.
    { unfold dims_ok. rewrite map_length. pose proof (gf_cap _ _ _ _ GF). pose proof (gf_tbl _ _ _ _ GF).
      apply andb_true_iff. split; [apply andb_true_iff; split|].
      - apply Nat.leb_le. lia.
      - apply Nat.ltb_lt. assumption.
      - apply forallb_seq0. intros s Hs. apply Nat.eqb_eq. apply (gf_rows _ _ _ _ GF). lia. }
    rewrite (final_state0 g sts Hdisc Hpos). cbn [andb].
    rewrite map_length. apply forallb_seq0. intros s Hs. apply andb_true_iff. split.
    + apply final_items; assumption.
    + apply forallb_seq0. intros c Hc. apply r_justified; assumption.
  - apply gen_tables_closed. assumption.
  - rewrite map_length. intros s Hs. split; [|split; [|split]].
    + rewrite (closure_ok_is_list g (nterm_empty g) (nterm_first g (nterm_empty g))), state_items_map.
      apply (gf_closure _ _ _ _ GF s Hs).
    + intros i b Hi Ci Hn. rewrite state_items_map in Hi. eapply r_nt_goto; eassumption.
    + intros i Hi Ci Ri. rewrite state_items_map in Hi. eapply r_accept; eassumption.
    + intros t Ht. apply r_cell_spec; assumption.
Qed.

Print Assumptions gen_validates_resolved.

Corollary gen_validates_resolved_default : forall g sts tbl,
  grammar_wf g = true -> grammar_wf_extra g = true ->
  gen g = inl (sts, tbl) ->
  no_rr g (length sts) tbl = true -> accept_clean g sts = true ->
  validate_resolved g (map st_all sts) tbl = true.
Proof. intros g sts tbl. apply gen_validates_resolved. Qed.

(* for grammars coming from the DSL-level description the extra hypothesis is discharged (Proofs/GenAnalyze.v) *)
Corollary gen_validates_resolved_analyze : forall rg g lim sts tbl,
  analyze rg = Some g ->
  grammar_wf g = true ->
  gen_with g lim = inl (sts, tbl) ->
  no_rr g (length sts) tbl = true ->
  accept_clean g sts = true ->
  validate_resolved g (map st_all sts) tbl = true.
Proof.
  intros rg g lim sts tbl Ha Hwf. apply gen_validates_resolved; [assumption|]. eapply analyze_wf_extra; eassumption.
Qed.

Print Assumptions gen_validates_resolved_analyze.

(* the conflict-free theorem of Proofs/GenCorrect.v gives the stronger [validate]; on its hypotheses the new theorem
   applies as well *)
Corollary gen_validates_resolved_of_conflict_free : forall g lim sts tbl,
  grammar_wf g = true -> grammar_wf_extra g = true -> gen_with g lim = inl (sts, tbl) ->
  conflict_free g (length sts) tbl = true -> accept_clean g sts = true ->
  validate_resolved g (map st_all sts) tbl = true.
Proof.
  intros g lim sts tbl Hwf Hwfx Hgen Hcf Hac. eapply gen_validates_resolved; try eassumption.
  apply conflict_free_no_rr. assumption.
Qed.

(* ---------- with the grouping theorem ---------- *)

Corollary gen_groups : forall g lim sts tbl,
  grammar_wf g = true -> grammar_wf_extra g = true ->
  gen_with g lim = inl (sts, tbl) ->
  no_rr g (length sts) tbl = true -> accept_clean g sts = true ->
  forall w tr, tokens_ok g w -> no_error_symbol g tbl = true -> accepts g tbl w tr -> well_grouped g tr.
Proof.
  intros g lim sts tbl Hwf Hwfx Hgen Hrr Hac w tr Hw Hne Hacc.
  apply (grouping g (map st_all sts) tbl w tr); try assumption.
  eapply gen_validates_resolved; eassumption.
Qed.

(* ... and the accepted tree is a derivation tree of the input *)
Corollary gen_groups_derivation : forall g lim sts tbl,
  grammar_wf g = true -> grammar_wf_extra g = true ->
  gen_with g lim = inl (sts, tbl) ->
  no_rr g (length sts) tbl = true -> accept_clean g sts = true ->
  forall w tr, tokens_ok g w -> no_error_symbol g tbl = true -> accepts g tbl w tr ->
               derives_tree g tr w /\ well_grouped g tr.
Proof.
  intros g lim sts tbl Hwf Hwfx Hgen Hrr Hac w tr Hw Hne Hacc.
  apply (grouping_derivation g (map st_all sts) tbl w tr); try assumption.
  eapply gen_validates_resolved; eassumption.
Qed.

Corollary gen_groups_analyze : forall rg g lim sts tbl,
  analyze rg = Some g -> grammar_wf g = true ->
  gen_with g lim = inl (sts, tbl) ->
  no_rr g (length sts) tbl = true -> accept_clean g sts = true ->
  forall w tr, tokens_ok g w -> no_error_symbol g tbl = true -> accepts g tbl w tr -> well_grouped g tr.
Proof.
  intros rg g lim sts tbl Ha Hwf. apply gen_groups; [assumption|]. eapply analyze_wf_extra; eassumption.
Qed.

Print Assumptions gen_groups.
Print Assumptions gen_groups_derivation.
