(* Termination, part 1: every reduce the machine performs is VIABLE.
   (T1) productiveb_ok: the boolean productivity check of Valid/LRProductive.v implies [productive].
   (T2) lookahead-aware item validity [ivalid_la] and the machine invariant [VInvLA]: under [validate], the
        check [lookahead_generated] (dot-0 items come after an item that generates them, WITH a lookahead from
        FIRST(beta a)), [states_nonempty] and [productive], every item [A -> alpha . beta, t] of a state on the
        stack is valid for the stack contents delta alpha below it, and whatever delta A derives can be followed by t
        (t = <eof>: is a sentence).
   (T3) action_viable: when the machine reduces under lookahead a (needs [reduce_lookahead]: the reduce cell is
        justified by a completed item whose lookahead is a), the tokens shifted so far followed by a are a prefix
        of a sentence; at the end of input they are a sentence.
   Counterexample: without [reduce_lookahead] (T3) is false (action_viable_refuted). *)
Require Import Ctpg.Base.Prelude Ctpg.Model.Grammar Ctpg.Model.LRGen Ctpg.Model.Driver
               Ctpg.Spec.Cfg Ctpg.Spec.LRSpec Ctpg.Valid.LRValid Ctpg.Valid.LRProductive
               Ctpg.Proofs.LRReflect Ctpg.Proofs.LRMachine Ctpg.Proofs.LRValidFacts Ctpg.Proofs.LRSound
               Ctpg.Proofs.LRComplete Ctpg.Proofs.ReportLang Ctpg.Proofs.ReportViable Ctpg.Proofs.TermFirst.

(* ================================================================================================= *)
(* (T1) productivity                                                                                 *)
(* ================================================================================================= *)
Section Productive.
  Variable g : grammar.

  Definition prod_just (p : bset) : Prop := forall l, bset_test p l = true -> exists t, valid_tree g (NT l) t.

  Lemma all_marked_trees p r : prod_just p -> all_marked p r = true -> exists ts, Forall2 (valid_tree g) r ts.
  Proof.
    intros Hj. induction r as [|[a|n] r IH]; cbn [all_marked]; intros H.
    - exists []. constructor.
    - destruct (IH H) as [ts Hts]. exists (Leaf a :: ts). constructor; [constructor|assumption].
    - apply andb_true_iff in H. destruct H as [H1 H2]. destruct (Hj n H1) as [t Ht]. destruct (IH H2) as [ts Hts].
      exists (t :: ts). constructor; assumption.
  Qed.

  Lemma all_marked_In p r m : all_marked p r = true -> In (NT m) r -> bset_test p m = true.
  Proof.
    induction r as [|[a|n] r IH]; cbn [all_marked]; intros H Hin.
    - destruct Hin.
    - destruct Hin as [E|Hin]; [discriminate|]. apply IH; assumption.
    - apply andb_true_iff in H. destruct H as [H1 H2]. destruct Hin as [E|Hin]; [inversion E; subst; exact H1|].
      apply IH; assumption.
  Qed.

  Lemma prod_step_just p ri : In ri (rule_infos g) -> prod_just p -> prod_just (prod_step g p ri).
  Proof.
    intros Hin Hj. unfold prod_step.
    destruct (nth_error (right_sides g) (ri_r ri)) as [rhs|] eqn:Er; [|exact Hj].
    destruct (all_marked p rhs) eqn:Em; [|exact Hj].
    destruct (all_marked_trees p rhs Hj Em) as [ts Hts].
    intros l Hl. apply tf_bset_test_set in Hl. destruct Hl as [->|Hl]; [|apply Hj; exact Hl].
    exists (Node (ri_r ri) ts). econstructor; [|exact Hts].
    apply In_nth_error in Hin. destruct Hin as [i Hi]. exists i, ri. auto.
  Qed.

  Lemma prod_fold_just ris : (forall ri, In ri ris -> In ri (rule_infos g)) ->
    forall p, prod_just p -> prod_just (fold_left (prod_step g) ris p).
  Proof.
    induction ris as [|ri ris IH]; intros Hin p Hj; cbn [fold_left]; [exact Hj|].
    apply IH; [intros; apply Hin; right; assumption|]. apply prod_step_just; [apply Hin; left; reflexivity|exact Hj].
  Qed.

  Lemma prod_iter_just n : forall p, prod_just p -> prod_just (iter_n n (prod_pass g) p).
  Proof.
    induction n as [|n IH]; intros p Hj; cbn [iter_n]; [exact Hj|].
    apply IH. unfold prod_pass. apply prod_fold_just; [auto|exact Hj].
  Qed.

  Lemma prod_set_just : prod_just (prod_set g).
  Proof.
    unfold prod_set. apply prod_iter_just. intros l Hl. rewrite tf_bset_empty_test in Hl. discriminate.
  Qed.

  (* a set that contains the root and is closed under the rules contains every reachable nonterminal *)
  Lemma reach_closed_complete rs x : root_symbol g = Some (NT x) -> bset_test rs x = true ->
    reach_closed g rs = true -> forall l, reachable g l -> bset_test rs l = true.
  Proof.
    intros Hroot Hx Hc l Hl. induction Hl as [y Hy|l r rhs m Hl IH Hrule Hm].
    - rewrite Hroot in Hy. inversion Hy; subst. exact Hx.
    - destruct Hrule as (i & ri & Hi & Hr & Hll & Hrhs). subst r l.
      unfold reach_closed in Hc. rewrite forallb_forall in Hc. specialize (Hc ri (nth_error_In _ _ Hi)).
      rewrite IH, Hrhs in Hc. cbn in Hc. eapply all_marked_In; eassumption.
  Qed.

  Theorem productiveb_ok : productiveb g = true -> productive g.
  Proof.
    unfold productiveb, productive. intros H l Hl.
    destruct (root_symbol g) as [[a|x]|] eqn:Hroot.
    - exfalso. induction Hl as [y Hy|]; [congruence|assumption].
    - cbv zeta in H. apply andb_true_iff in H. destruct H as [H Hall]. apply andb_true_iff in H. destruct H as [Hx Hc].
      pose proof (reach_closed_complete _ x Hroot Hx Hc l Hl) as Hr.
      rewrite forallb_seq0 in Hall. specialize (Hall l (bset_test_lt _ _ Hr)). rewrite Hr in Hall. cbn in Hall.
      exact (prod_set_just l Hall).
    - exfalso. induction Hl as [y Hy|]; [congruence|assumption].
  Qed.
End Productive.

(* ================================================================================================= *)
(* Prop readings of the other checks                                                                 *)
(* ================================================================================================= *)
Definition first_tail_gen (g : grammar) (beta : list symbol) (t : nat) : bset :=
  first_tail g (nterm_empty g) (nterm_first g (nterm_empty g)) beta t.

Definition lookahead_generated (g : grammar) (sts : list items) : Prop :=
  forall s j i, nth_error (state_items sts s) j = Some i -> it_d i = 0 ->
    (s = 0 /\ i = root_item g) \/
    exists k ik, k < j /\ nth_error (state_items sts s) k = Some ik /\ next_sym g ik = Some (NT (lhs_of g i)) /\
                 bset_test (first_tail_gen g (skipn (S (it_d ik)) (rhs_of g ik)) (it_t ik)) (it_t i) = true.

Definition reduce_lookahead (g : grammar) (sts : list items) (tbl : table) : Prop :=
  forall s t r, s < length sts -> t < term_count g ->
    e_kind (cell_at tbl s (nterm_count g + t)) = KReduce -> e_arg (cell_at tbl s (nterm_count g + t)) = Some r ->
    exists i, In i (state_items sts s) /\ it_r i = r /\ is_complete g i = true /\ it_t i = t.

Lemma lookahead_generatedb_ok g sts : lookahead_generatedb g sts = true -> lookahead_generated g sts.
Proof.
  intros H s j i Hj Hd. unfold lookahead_generatedb in H. cbv zeta in H. rewrite forallb_seq0 in H.
  assert (Hs : s < length sts).
  { destruct (Nat.lt_ge_cases s (length sts)) as [|Hge]; [assumption|].
    unfold state_items in Hj. rewrite (nth_overflow sts [] Hge) in Hj. destruct j; discriminate. }
  specialize (H s Hs). rewrite forallb_seq0 in H.
  assert (Hjl : j < length (state_items sts s)) by (apply nth_error_Some; congruence).
  specialize (H j Hjl). rewrite Hj, Hd in H. cbn [Nat.eqb negb orb] in H.
  apply orb_true_iff in H. destruct H as [H|H].
  - left. apply andb_true_iff in H. destruct H as [H1 H2]. apply Nat.eqb_eq in H1. apply item_eqb_eq in H2. auto.
  - right. apply existsb_exists in H. destruct H as (k & Hk & H). apply in_seq in Hk.
    destruct (nth_error (state_items sts s) k) as [ik|] eqn:Ek; [|discriminate].
    exists k, ik. split; [lia|]. split; [exact Ek|].
    destruct (next_sym g ik) as [[a|b]|]; try discriminate.
    apply andb_true_iff in H. destruct H as [H1 H2]. apply Nat.eqb_eq in H1. subst b. split; [reflexivity|exact H2].
Qed.

Lemma lookahead_closure_generated g sts : lookahead_generated g sts -> closure_generated g sts.
Proof.
  intros H s j i Hj Hd. destruct (H s j i Hj Hd) as [Hl|(k & ik & Hk & Hik & Hnx & _)]; [left; exact Hl|right; eauto].
Qed.

Lemma reduce_lookaheadb_ok g sts tbl : reduce_lookaheadb g sts tbl = true -> reduce_lookahead g sts tbl.
Proof.
  intros H s t r Hs Ht Hk Ha. unfold reduce_lookaheadb in H. rewrite forallb_seq0 in H. specialize (H s Hs).
  rewrite forallb_seq0 in H. specialize (H t Ht). cbv zeta in H. rewrite Hk, Ha in H.
  apply existsb_exists in H. destruct H as (i & Hi & H). exists i. split; [exact Hi|].
  apply andb_true_iff in H. destruct H as [H H3]. apply andb_true_iff in H. destruct H as [H1 H2].
  apply Nat.eqb_eq in H1, H3. auto.
Qed.

Lemma states_nonempty_b_ok sts : states_nonempty_b sts = true -> states_nonempty sts.
Proof. exact (states_nonemptyb_ok sts). Qed.

(* ================================================================================================= *)
(* (T2) lookahead-aware validity                                                                     *)
(* ================================================================================================= *)
Section ViableLA.
  Variable g : grammar.
  Variable sts : list items.
  Variable tbl : table.
  Hypothesis SF : sound_facts g sts tbl.
  Hypothesis Hprod : productive g.
  Hypothesis Hgen : lookahead_generated g sts.
  Hypothesis Hnonempty : states_nonempty sts.

  Notation items_of := (state_items sts).
  Notation yields := (flat_map yield).
  Notation lhs := (lhs_of g).

  (* the string u can be followed by the term t: u t begins a sentence; for t = <eof>: u is a sentence *)
  Definition follow_ok (u : list nat) (t : nat) : Prop :=
    (t = eof_idx g /\ derives g u) \/ sentence_prefix g (u ++ [t]).

  Lemma follow_ok_prefix u t : follow_ok u t -> sentence_prefix g u.
  Proof.
    intros [[_ [tr Hd]]|(v & tr & Hd)].
    - exists [], tr. rewrite app_nil_r. exact Hd.
    - exists ([t] ++ v), tr. rewrite app_assoc. exact Hd.
  Qed.

  (* follow_ok (u ++ b :: u') t -> follow_ok u b *)
  Lemma follow_ok_cut u b u' t : follow_ok (u ++ b :: u') t -> follow_ok u b.
  Proof.
    intros [[_ [tr Hd]]|(v & tr & Hd)]; right.
    - exists u', tr. rewrite <- app_assoc. exact Hd.
    - exists (u' ++ [t] ++ v), tr. repeat rewrite <- app_assoc in Hd. cbn [app] in Hd.
      rewrite <- app_assoc. cbn [app]. exact Hd.
  Qed.

  Definition lviable_la (delta : list symbol) (A t : nat) : Prop :=
    forall ts tA, Forall2 (valid_tree g) delta ts -> valid_tree g (NT A) tA ->
                  follow_ok (yields ts ++ yield tA) t.

  Definition ivalid_la (gamma : list symbol) (i : item) : Prop :=
    it_r i < rule_count g /\ nts_reachable g (rhs_of g i) /\
    exists delta, gamma = delta ++ firstn (it_d i) (rhs_of g i) /\ it_d i <= length (rhs_of g i) /\
                  lviable_la delta (lhs i) (it_t i).

  (* it strengthens [ivalid] of Proofs/ReportViable.v *)
  Lemma ivalid_la_ivalid gamma i : ivalid_la gamma i -> ivalid g gamma i.
  Proof.
    intros (Hr & Hreach & delta & Hg & Hd & Hlv). split; [exact Hr|]. split; [exact Hreach|].
    exists delta. split; [exact Hg|]. split; [exact Hd|].
    intros ts tA Hts HtA. eapply follow_ok_prefix. apply Hlv; eassumption.
  Qed.

  Lemma item_rule_la i : it_r i < rule_count g ->
    is_rule g (ri_r (get_ri g (it_r i))) (lhs i) (rhs_of g i).
  Proof. intros H. apply (is_rule_ri g sts tbl SF). assumption. Qed.

  Lemma ivalid_la_advance gamma i X : ivalid_la gamma i -> next_sym g i = Some X ->
    ivalid_la (gamma ++ [X]) (mkItem (it_r i) (S (it_d i)) (it_t i)).
  Proof.
    intros (Hr & Hreach & delta & -> & Hd & Hlv) Hx. unfold next_sym in Hx.
    split; [assumption|]. split; [assumption|]. exists delta. cbn [it_d it_r it_t].
    change (rhs_of g (mkItem (it_r i) (S (it_d i)) (it_t i))) with (rhs_of g i).
    split; [|split].
    - rewrite (firstn_S_nth_error _ _ _ Hx), app_assoc. reflexivity.
    - apply Nat.le_succ_l. apply nth_error_Some. congruence.
    - exact Hlv.
  Qed.

  Lemma ivalid_la_closure gamma i B j : ivalid_la gamma i -> next_sym g i = Some (NT B) ->
    it_r j < rule_count g -> lhs j = B -> it_d j = 0 ->
    bset_test (first_tail_gen g (skipn (S (it_d i)) (rhs_of g i)) (it_t i)) (it_t j) = true ->
    ivalid_la gamma j.
  Proof.
    intros (Hr & Hreach & delta & -> & Hd & Hlv) Hx Hrj Hl Hdj Hft. unfold next_sym in Hx.
    assert (HB : reachable g B).
    { unfold nts_reachable in Hreach. rewrite Forall_forall in Hreach.
      exact (Hreach _ (nth_error_In _ _ Hx)). }
    split; [assumption|]. split.
    - unfold nts_reachable. apply Forall_forall. intros [a|m] Hin; [exact I|].
      eapply reach_rule; [exact HB| |exact Hin]. rewrite <- Hl. apply item_rule_la. assumption.
    - exists (delta ++ firstn (it_d i) (rhs_of g i)). rewrite Hdj. cbn [firstn]. rewrite app_nil_r.
      split; [reflexivity|]. split; [lia|]. rewrite Hl.
      intros ts tB Hts HtB.
      apply Forall2_app_inv_l in Hts. destruct Hts as (ts1 & ts2 & H1 & H2 & ->).
      (* the node of i's rule over ts2, tB and trees ts3 for beta *)
      assert (Hnode : forall ts3, Forall2 (valid_tree g) (skipn (S (it_d i)) (rhs_of g i)) ts3 ->
                valid_tree g (NT (lhs i)) (Node (ri_r (get_ri g (it_r i))) (ts2 ++ tB :: ts3))).
      { intros ts3 H3. econstructor; [apply item_rule_la; assumption|].
        rewrite <- (firstn_skipn (it_d i) (rhs_of g i)). apply Forall2_app; [assumption|].
        rewrite (skipn_nth_error_cons _ _ _ Hx). constructor; assumption. }
      unfold first_tail_gen in Hft.
      destruct (first_tail_just g sts tbl SF Hprod _ _ _ (nts_reachable_skipn g (S (it_d i)) _ Hreach) Hft)
        as [(ts3 & u' & H3 & Hy3)|(Eb & ts3 & H3 & Hy3)].
      + pose proof (Hlv ts1 _ H1 (Hnode ts3 H3)) as Hf. cbn [yield] in Hf.
        rewrite flat_map_app in Hf. cbn [flat_map] in Hf. rewrite Hy3 in Hf.
        rewrite flat_map_app. repeat rewrite <- app_assoc in Hf. repeat rewrite <- app_assoc.
        apply (follow_ok_cut _ _ u' (it_t i)).
        repeat rewrite <- app_assoc. exact Hf.
      + pose proof (Hlv ts1 _ H1 (Hnode ts3 H3)) as Hf. cbn [yield] in Hf.
        rewrite flat_map_app in Hf. cbn [flat_map] in Hf. rewrite Hy3, app_nil_r in Hf.
        rewrite flat_map_app. rewrite Eb. repeat rewrite <- app_assoc in Hf. repeat rewrite <- app_assoc. exact Hf.
  Qed.

  Lemma ivalid_la_root : ivalid_la [] (root_item g).
  Proof.
    pose proof (root_lt g sts tbl SF) as Hlt. destruct (sf_root_rhs _ _ _ SF) as [x Hx].
    assert (Erhs : rhs_of g (root_item g) = [NT x]).
    { unfold rhs_of, root_item; cbn [it_r]. rewrite (sf_root_r _ _ _ SF). assumption. }
    split; [exact Hlt|]. split.
    - rewrite Erhs. constructor; [|constructor]. apply reach_root. apply (root_symbol_eq g sts tbl SF). assumption.
    - exists []. cbn. split; [reflexivity|]. split; [lia|].
      intros ts tA Hts HtA. inversion Hts; subst. cbn [flat_map app].
      unfold lhs_of, root_item in HtA; cbn [it_r] in HtA. rewrite (sf_root_l _ _ _ SF) in HtA.
      inversion HtA as [|r l rhs ch Hrule Hch]; subst.
      destruct (root_rule_only g sts tbl SF _ _ Hrule) as (y & -> & Hroot).
      inversion Hch as [|? c ? ch' Hc Hnil]; subst. inversion Hnil; subst.
      left. split; [reflexivity|]. exists c. exists (NT y). cbn. rewrite !app_nil_r. auto.
  Qed.

  (* ---------- all items of a state ---------- *)
  Definition all_valid_la (gamma : list symbol) (s : nat) : Prop := forall i, In i (items_of s) -> ivalid_la gamma i.

  Lemma state_valid_la gamma s : s < length sts ->
    (forall i, In i (items_of s) -> it_d i <> 0 -> ivalid_la gamma i) -> (s = 0 -> gamma = []) -> all_valid_la gamma s.
  Proof.
    intros Hs Hker H0.
    assert (Hpos : forall j i, nth_error (items_of s) j = Some i -> ivalid_la gamma i).
    { intros j. induction j as [j IH] using lt_wf_ind. intros i Hj.
      destruct (Nat.eq_dec (it_d i) 0) as [Hd|Hd]; [|apply Hker; [eapply nth_error_In; eassumption|assumption]].
      destruct (Hgen s j i Hj Hd) as [[Es Ei]|(k & ik & Hk & Hik & Hnx & Hft)].
      - subst i. rewrite (H0 Es). apply ivalid_la_root.
      - eapply ivalid_la_closure; [exact (IH k Hk ik Hik)|exact Hnx| |reflexivity|exact Hd|exact Hft].
        apply (sf_item _ _ _ SF s i Hs). eapply nth_error_In; eassumption. }
    intros i Hi. apply In_nth_error in Hi. destruct Hi as [j Hj]. eauto.
  Qed.

  Definition vstk_la (ss : list nat) (syms : list symbol) : Prop :=
    forall k s, nth_error ss k = Some s -> all_valid_la (rev (skipn k syms)) s.

  Lemma vstk_la_skip n ss syms : vstk_la ss syms -> vstk_la (skipn n ss) (skipn n syms).
  Proof. intros H k s Hk. rewrite nth_error_skipn in Hk. rewrite skipn_skipn. apply H. assumption. Qed.

  Lemma vstk_la_push s ss syms X : vstk_la ss syms -> all_valid_la (rev (X :: syms)) s -> vstk_la (s :: ss) (X :: syms).
  Proof.
    intros H Hs k s' Hk. destruct k as [|k]; cbn in Hk |- *.
    - inversion Hk; subst. exact Hs.
    - apply H. assumption.
  Qed.

  Lemma vstk_la_top s ss syms : vstk_la (s :: ss) syms -> all_valid_la (rev syms) s.
  Proof. intros H. apply (H 0 s eq_refl). Qed.

  Lemma push_valid_la s syms X s' :
    s < length sts -> all_valid_la (rev syms) s -> sym_ok g X = true -> shift_just g sts s (sym_col g X) s' ->
    all_valid_la (rev (X :: syms)) s'.
  Proof.
    intros Hs Hv HX (Hlt & Hnz & Hj). cbn [rev]. apply state_valid_la; [assumption| |intros E; contradiction].
    intros j Hin Hd. destruct (it_d j) as [|d] eqn:Ed; [contradiction|].
    destruct (Hj j d Hin Ed) as (Hin' & x & Hx & Hcol).
    assert (x = X) as ->.
    { apply (sym_col_inj g); try assumption. eapply item_next_sym_ok; [exact SF|exact Hlt|exact Hin|exact Hx]. }
    pose proof (ivalid_la_advance _ _ X (Hv _ Hin') Hx) as Ha. cbn [it_r it_d it_t] in Ha.
    destruct j as [r d' t]. cbn in *. subst d'. exact Ha.
  Qed.

  (* ---------- the invariant of the machine ---------- *)
  Definition VInvLA (c : cfg) : Prop :=
    let '(ss, trs, rest) := c in
    exists syms, stk_ok g sts ss syms /\ vstk_la ss syms /\ Forall2 (valid_tree g) syms trs /\
                 Forall (fun a => a < eof_idx g) rest.

  Lemma VInvLA_init w : tokens_ok g w -> VInvLA ([0], [], w).
  Proof.
    intros Hw. exists []. split; [constructor|]. split; [|split; [constructor|exact Hw]].
    intros k s Hk. destruct k as [|k]; [|destruct k; discriminate]. inversion Hk; subst s. cbn.
    apply state_valid_la; [apply (sf_dims2 _ _ _ SF)| |reflexivity].
    intros i Hi Hd. exfalso. apply Hd. apply (sf_st0_dot _ _ _ SF). assumption.
  Qed.

  Lemma VInvLA_next c c' : VInvLA c -> mstep g tbl c = Next c' -> VInvLA c'.
  Proof.
    destruct c as [[ss trs] rest]. intros (syms & Hst & Hvs & Hv & Hr). unfold mstep.
    destruct ss as [|cur ss]; [discriminate|].
    pose proof (stk_top_lt g sts tbl SF _ _ _ Hst) as Hcur. pose proof (look_lt g sts tbl SF _ Hr) as Hla.
    destruct (cell tbl cur (nterm_count g + look g rest)) as [e|c] eqn:Ec; [|discriminate].
    pose proof (cell_cell_at _ _ _ _ Ec) as Ee.
    pose proof (sf_cell _ _ _ SF cur _ Hcur (col_lt g _ Hla)) as Hcj.
    destruct (e_kind e) eqn:Ek; try discriminate.
    - destruct (rev trs); discriminate.
    - (* shift *)
      destruct (e_arg e) as [nst|] eqn:Ea; [|discriminate]. intros Hn; inversion Hn; subst c'; clear Hn.
      rewrite Ee in Ek, Ea. destruct (cj_shift _ _ _ _ _ Hcj (or_introl Ek)) as (s' & Ha' & Hsj & _).
      assert (s' = nst) as Es by congruence. rewrite Es in Hsj. clear Es Ha' s'.
      assert (HX : sym_ok g (T (look g rest)) = true) by (cbn; apply Nat.ltb_lt; assumption).
      exists (T (look g rest) :: syms). split; [|split; [|split]].
      + apply (push_ok g sts tbl SF); assumption.
      + apply vstk_la_push; [assumption|].
        eapply push_valid_la; [exact Hcur|apply (vstk_la_top _ _ _ Hvs)|exact HX|exact Hsj].
      + constructor; [constructor|assumption].
      + destruct rest as [|a r]; cbn; [constructor|]. inversion Hr; assumption.
    - (* reduce *)
      destruct (e_arg e) as [r|] eqn:Ea; [|discriminate]. rewrite Ee in Ek, Ea.
      destruct (cj_reduce _ _ _ _ _ Hcj Ek) as (r' & Ha' & Hrlt & Hrnr & _ & i & Hi & Hir & Hic).
      assert (r' = r) as Er by congruence. rewrite Er in Hrlt, Hrnr, Hir. clear Er Ha' r'.
      unfold mreduce. rewrite (nth_error_get_ri _ _ _ SF r Hrlt).
      set (ri := get_ri g r). set (n := ri_n ri).
      destruct (Nat.ltb (length (cur :: ss)) n); [discriminate|].
      destruct (sf_item _ _ _ SF cur i Hcur Hi) as (_ & Hdle & _).
      unfold is_complete in Hic. apply Nat.leb_le in Hic. rewrite Hir in Hdle, Hic. fold ri in Hdle, Hic. fold n in Hdle, Hic.
      assert (it_d i = n) as Hd by lia.
      destruct (stk_item g sts tbl SF n _ _ _ i Hst Hi Hd) as (Hnle & Hrev & _).
      destruct (sf_ri _ _ _ SF r Hrlt) as (Hrr & Hrl & Hrn). fold ri in Hrr, Hrl, Hrn. fold n in Hrn.
      assert (rhs_of g i = get_rhs g (ri_r ri)) as Erhs by (unfold rhs_of; rewrite Hir; reflexivity).
      rewrite Erhs in Hrev. rewrite Hrn in Hrev at 2. rewrite firstn_all in Hrev.
      pose proof (stk_skip g sts _ _ n Hst Hnle) as Hst'.
      pose proof (vstk_la_skip n _ _ Hvs) as Hvs'.
      destruct (skipn n (cur :: ss)) as [|top ss'] eqn:Esk; [discriminate|].
      pose proof (stk_top_lt g sts tbl SF _ _ _ Hst') as Htop.
      destruct (cell tbl top (ri_l ri)) as [e'|] eqn:Ec'; [|discriminate].
      pose proof (cell_cell_at _ _ _ _ Ec') as Ee'.
      assert (ri_l ri < symbol_count g) as Hlc by (unfold symbol_count; lia).
      pose proof (sf_cell _ _ _ SF top _ Htop Hlc) as Hcj'.
      destruct (e_arg e') as [nst|] eqn:Ea'; [|discriminate].
      destruct (Nat.ltb (length trs) n); [discriminate|].
      intros Hn; inversion Hn; subst c'; clear Hn.
      rewrite Ee' in Ea'.
      assert (shift_just g sts top (ri_l ri) nst) as Hsj.
      { destruct (e_kind (cell_at tbl top (ri_l ri))) eqn:Ek'.
        - rewrite (cj_error _ _ _ _ _ Hcj' Ek' Hrl) in Ea'. discriminate.
        - destruct (cj_success _ _ _ _ _ Hcj' Ek') as [Hc _]. unfold col_of_term in Hc. lia.
        - destruct (cj_shift _ _ _ _ _ Hcj' (or_introl Ek')) as (s' & Ha' & Hsj & _). congruence.
        - destruct (cj_shift _ _ _ _ _ Hcj' (or_intror Ek')) as (s' & Ha' & Hsj & _). congruence.
        - destruct (cj_reduce _ _ _ _ _ Hcj' Ek') as (? & _ & _ & _ & Hc & _). lia.
        - destruct (cj_rr _ _ _ _ _ Hcj' Ek'). }
      assert (HX : sym_ok g (NT (ri_l ri)) = true) by (cbn; apply Nat.ltb_lt; assumption).
      exists (NT (ri_l ri) :: skipn n syms). split; [|split; [|split]].
      + apply (push_ok g sts tbl SF); assumption.
      + apply vstk_la_push; [assumption|].
        eapply push_valid_la; [exact Htop|apply (vstk_la_top _ _ _ Hvs')|exact HX|exact Hsj].
      + constructor; [|apply Forall2_skipn; assumption].
        econstructor; [apply (is_rule_ri _ _ _ SF r Hrlt)|]. fold ri. rewrite <- Hrev.
        apply Forall2_rev. apply Forall2_firstn. assumption.
      + assumption.
  Qed.

  Lemma VInvLA_steps n : forall c c', VInvLA c -> msteps g tbl n c c' -> VInvLA c'.
  Proof.
    induction n as [|n IH]; intros c c' Hi H; cbn [msteps] in H.
    - subst. assumption.
    - destruct H as (c1 & Hs & H). eapply IH; [|exact H]. eapply VInvLA_next; eassumption.
  Qed.

  Lemma VInvLA_reach w c : tokens_ok g w -> reach g tbl w c -> VInvLA c.
  Proof. intros Hw [n H]. eapply VInvLA_steps; [apply VInvLA_init; exact Hw|exact H]. Qed.

  (* the machine never shifts <eof>: no item has <eof> after the dot, and a shift target holds a kernel item *)
  Lemma no_eof_shift s : s < length sts ->
    e_kind (cell_at tbl s (nterm_count g + eof_idx g)) = KShift -> False.
  Proof.
    intros Hs Hk. pose proof (eof_lt_tc g sts tbl SF) as Heof.
    pose proof (sf_cell _ _ _ SF s _ Hs (col_lt g _ Heof)) as Hcj.
    destruct (cj_shift _ _ _ _ _ Hcj (or_introl Hk)) as (s' & _ & (Hlt & Hnz & Hj) & _).
    assert (Hex : exists i0, nth_error (items_of s') 0 = Some i0).
    { pose proof (Hnonempty s' Hlt) as Hne. destruct (items_of s') as [|i0 its]; [contradiction|]. exists i0. reflexivity. }
    destruct Hex as [i0 H0]. pose proof (nth_error_In _ _ H0) as Hin.
    destruct (it_d i0) as [|d] eqn:Ed.
    - destruct (Hgen s' 0 i0 H0 Ed) as [[E _]|(k & _ & Hk0 & _)]; [contradiction|lia].
    - destruct (Hj i0 d Hin Ed) as (_ & x & Hx & Hcol).
      destruct (item_next_sym_ok g sts tbl SF s' i0 d x Hlt Hin Hx) as (Hok & _ & Hne).
      apply Hne. apply (sym_col_inj g); [exact Hok|cbn; apply Nat.ltb_lt; exact Heof|exact Hcol].
  Qed.

  (* ================================================================================================= *)
  (* (T3) every reduce is viable                                                                       *)
  (* ================================================================================================= *)
  Hypothesis Hred : reduce_lookahead g sts tbl.

  Lemma no_eof_sentence_prefix u v : ~ sentence_prefix g (u ++ eof_idx g :: v).
  Proof.
    intros (v' & tr & s & Hroot & Hval & Hy).
    destruct (sf_root_rhs _ _ _ SF) as (x & Hrhs).
    rewrite (root_symbol_eq g sts tbl SF x Hrhs) in Hroot. inversion Hroot; subst s.
    apply (no_eof_yield g sts tbl SF tr (NT x) Hval); [discriminate|].
    rewrite Hy. rewrite <- app_assoc. apply in_or_app. right. left. reflexivity.
  Qed.

  Theorem VInvLA_reduce_viable cur ss trs rest e :
    VInvLA (cur :: ss, trs, rest) ->
    cell tbl cur (nterm_count g + look g rest) = inl e -> e_kind e = KReduce ->
    follow_ok (yields (rev trs)) (look g rest).
  Proof.
    intros (syms & Hst & Hvs & Hv & Hr) Hc Hk.
    pose proof (stk_top_lt g sts tbl SF _ _ _ Hst) as Hcur. pose proof (look_lt g sts tbl SF _ Hr) as Hla.
    pose proof (cell_cell_at _ _ _ _ Hc) as Ee. rewrite Ee in Hk.
    pose proof (sf_cell _ _ _ SF cur _ Hcur (col_lt g _ Hla)) as Hcj.
    destruct (cj_reduce _ _ _ _ _ Hcj Hk) as (r & Ha & _).
    destruct (Hred cur _ r Hcur Hla Hk Ha) as (i & Hi & Hir & Hic & Hit).
    destruct (vstk_la_top _ _ _ Hvs i Hi) as (Hrlt & Hreach & delta & Hg & Hd & Hlv).
    (* the item is complete: its dot stands at the end *)
    destruct (sf_ri _ _ _ SF _ Hrlt) as (_ & _ & Hn). fold (rhs_of g i) in Hn.
    unfold is_complete in Hic. apply Nat.leb_le in Hic.
    assert (Hfull : firstn (it_d i) (rhs_of g i) = rhs_of g i) by (apply firstn_all2; lia).
    rewrite Hfull in Hg.
    pose proof (Forall2_rev _ _ _ Hv) as Hv'. rewrite Hg in Hv'.
    apply Forall2_app_inv_l in Hv'. destruct Hv' as (ts1 & ts2 & H1 & H2 & Erev).
    assert (Hnode : valid_tree g (NT (lhs i)) (Node (ri_r (get_ri g (it_r i))) ts2)).
    { econstructor; [apply item_rule_la; assumption|exact H2]. }
    pose proof (Hlv ts1 _ H1 Hnode) as Hf. cbn [yield] in Hf. rewrite Hit in Hf.
    rewrite Erev, flat_map_app. exact Hf.
  Qed.

  Theorem action_viable w cur ss trs rest e :
    tokens_ok g w -> reach g tbl w (cur :: ss, trs, rest) ->
    cell tbl cur (nterm_count g + look g rest) = inl e -> e_kind e = KReduce ->
    let u := yields (rev trs) in
    (rest <> [] -> sentence_prefix g (u ++ [look g rest])) /\
    (rest = [] -> exists t, derives_tree g t u).
  Proof.
    intros Hw Hr Hc Hk u.
    pose proof (VInvLA_reach w _ Hw Hr) as Hinv.
    pose proof (VInvLA_reduce_viable _ _ _ _ _ Hinv Hc Hk) as Hf. fold u in Hf.
    destruct Hinv as (_ & _ & _ & _ & Hrest).
    split.
    - intros Hne. destruct Hf as [[E _]|Hf]; [|exact Hf].
      exfalso. apply Hne. apply (look_eof g rest Hrest E).
    - intros ->. cbn [look hd] in Hf. destruct Hf as [[_ Hd]|Hf]; [exact Hd|].
      exfalso. apply (no_eof_sentence_prefix u []). exact Hf.
  Qed.
End ViableLA.

(* (T3) with the boolean hypotheses *)
Theorem action_viable_checked g sts tbl w cur ss trs rest e :
  validate g sts tbl = true -> lookahead_generatedb g sts = true ->
  reduce_lookaheadb g sts tbl = true -> productiveb g = true -> tokens_ok g w ->
  reach g tbl w (cur :: ss, trs, rest) ->
  cell tbl cur (nterm_count g + look g rest) = inl e -> e_kind e = KReduce ->
  let u := flat_map yield (rev trs) in
  (rest <> [] -> sentence_prefix g (u ++ [look g rest])) /\
  (rest = [] -> exists t, derives_tree g t u).
Proof.
  intros Hval Hla Hrl Hp Hw.
  pose proof (sound_facts_of g sts tbl (validate_validate_sound _ _ _ Hval)) as SF.
  apply (action_viable g sts tbl SF (productiveb_ok g Hp) (lookahead_generatedb_ok _ _ Hla)
                       (reduce_lookaheadb_ok _ _ _ Hrl) w); exact Hw.
Qed.

Print Assumptions productiveb_ok.
Print Assumptions VInvLA_next.
Print Assumptions action_viable.
Print Assumptions action_viable_checked.

(* ================================================================================================= *)
(* sanity: the checks on concrete grammars and item sets                                             *)
(* ================================================================================================= *)
Require Ctpg.Proofs.LRValidCex Ctpg.Proofs.ReportCex.

Definition term_gen_checks (g : grammar) : option (bool * bool * bool * bool * bool) :=
  match gen g with
  | inl (st, tb) => let sts := map st_all st in
                    Some (validate g sts tb, lookahead_generatedb g sts, states_nonempty_b sts,
                          reduce_lookaheadb g sts tb, productiveb g)
  | inr _ => None
  end.

(* the tables the mirror generator writes pass all checks *)
Example term_generated_pass :
  (term_gen_checks LRValidCex.g1, term_gen_checks LRValidCex.g2, term_gen_checks LRValidCex.g3,
   term_gen_checks ReportCex.g1, term_gen_checks ReportCex.g2, term_gen_checks g_expr) =
  (Some (true, true, true, true, true), Some (true, true, true, true, true), Some (true, true, true, true, true),
   Some (true, true, true, true, true), Some (true, true, true, true, true), Some (true, true, true, true, true)).
Proof. vm_compute. reflexivity. Qed.

(* the item sets of the counterexamples of ReportCex.v (junk items in state 0) do not *)
Example term_junk_fails :
  lookahead_generatedb ReportCex.g1 ReportCex.sts1 = false /\ lookahead_generatedb ReportCex.g2 ReportCex.sts2 = false.
Proof. vm_compute. auto. Qed.

(* S -> A ; A -> A a  (A derives no terminal string).  terms a <eof> <err>; nonterminals S A ## *)
Definition g_unprod :=
  mkG 3 3 3 2 [[NT 1]; [NT 1; T 0]; [NT 0]] [mkRI 0 0 1; mkRI 1 1 2; mkRI 2 2 1] [(0,1);(1,1);(2,1)]
      [0%Z;0%Z;0%Z] [NoAssoc;NoAssoc;NoAssoc] [0%Z;0%Z;0%Z] [NoAssoc;NoAssoc;NoAssoc] [None; Some 0; None].
(* S -> a ; A -> A a, A unreachable: productive in the sense of [productive] *)
Definition g_unprod_unreach :=
  mkG 3 3 3 2 [[T 0]; [NT 1; T 0]; [NT 0]] [mkRI 0 0 1; mkRI 1 1 2; mkRI 2 2 1] [(0,1);(1,1);(2,1)]
      [0%Z;0%Z;0%Z] [NoAssoc;NoAssoc;NoAssoc] [0%Z;0%Z;0%Z] [NoAssoc;NoAssoc;NoAssoc] [Some 0; Some 0; None].

Example productiveb_examples :
  (productiveb g_unprod, productiveb g_unprod_unreach, productiveb g_expr, productiveb ReportCex.g1, productiveb ReportCex.g2) =
  (false, true, true, true, true).
Proof. vm_compute. reflexivity. Qed.

Lemma g_unprod_not_productive : ~ productive g_unprod.
Proof.
  intros H.
  assert (Hr : reachable g_unprod 1).
  { eapply (reach_rule g_unprod 0 0 [NT 1] 1).
    - apply reach_root. reflexivity.
    - exists 0, (mkRI 0 0 1). cbn. auto.
    - left. reflexivity. }
  destruct (H 1 Hr) as [t Ht].
  assert (Hno : forall t, ~ valid_tree g_unprod (NT 1) t).
  { clear. intros t. induction t as [a|r ch IH] using tree_ind'; intros Hv; inversion Hv as [|r' l rhs ch' Hrule Hch]; subst.
    destruct Hrule as (i & ri & Hi & Hr & Hl & Hrhs).
    destruct i as [|[|[|i]]]; cbn in Hi; try (destruct i; discriminate); inversion Hi; subst ri; cbn in *; try discriminate.
    subst r. cbn in Hrhs. inversion Hrhs; subst rhs.
    inversion Hch as [|x c rhs' ch'' Hx Hrest]; subst. inversion IH as [|? ? Hc _]; subst. exact (Hc Hx). }
  exact (Hno t Ht).
Qed.

(* ---------- (T3) needs [reduce_lookahead] ---------- *)
(* S -> a.  terms a=0 <eof>=1 <err>=2; nonterminals S=0 ##=1; columns S ## a <eof> <err>.
   State 1 = {[S -> a ., <eof>]} carries its reduce also in the column of a: [validate] accepts that.
   On input a a the machine reduces S -> a under lookahead a, although no sentence begins with a a. *)
Definition g_la := LRValidCex.g1.
Definition sts_la : list items := [[mkItem 1 0 1; mkItem 0 0 1]; [mkItem 0 1 1]; [mkItem 1 1 1]].
Definition tbl_la : table :=
  [[mkE KShift (Some 2) false; entry_default; mkE KShift (Some 1) false; entry_default; entry_default];
   [entry_default; entry_default; mkE KReduce (Some 0) false; mkE KReduce (Some 0) false; entry_default];
   [entry_default; entry_default; entry_default; mkE KSuccess None false; entry_default]].

Example la_checks :
  (validate g_la sts_la tbl_la, lookahead_generatedb g_la sts_la, states_nonempty_b sts_la, productiveb g_la,
   reduce_lookaheadb g_la sts_la tbl_la) = (true, true, true, true, false).
Proof. vm_compute. reflexivity. Qed.

Lemma g_la_sentences t w : derives_tree g_la t w -> w = [0].
Proof.
  intros (s & Hs & Hv & Hy). cbn in Hs. inversion Hs; subst s. subst w.
  inversion Hv as [|r l rhs ch Hr Hch]; subst.
  destruct Hr as (i & ri & Hi & Hr & Hl & Hrhs).
  destruct i as [|[|i]]; cbn in Hi; try (destruct i; discriminate); inversion Hi; subst ri; cbn in *; try discriminate.
  subst r. cbn in Hrhs. inversion Hrhs; subst rhs.
  inversion Hch as [|x c rhs' ch' Hx Hrest]; subst. inversion Hrest; subst. inversion Hx; subst. reflexivity.
Qed.

Theorem action_viable_refuted :
  validate g_la sts_la tbl_la = true /\ lookahead_generatedb g_la sts_la = true /\ states_nonempty_b sts_la = true /\
  productiveb g_la = true /\ tokens_ok g_la [0; 0] /\
  reach g_la tbl_la [0; 0] ([1; 0], [Leaf 0], [0]) /\
  (exists e, cell tbl_la 1 (nterm_count g_la + look g_la [0]) = inl e /\ e_kind e = KReduce) /\
  ~ sentence_prefix g_la (flat_map yield (rev [Leaf 0]) ++ [look g_la [0]]).
Proof.
  split; [vm_compute; reflexivity|]. split; [vm_compute; reflexivity|]. split; [vm_compute; reflexivity|].
  split; [vm_compute; reflexivity|]. split; [repeat constructor|]. split; [|split].
  - exists 1. cbn. eexists. split; reflexivity.
  - eexists. split; reflexivity.
  - intros (v & t & Hd). apply g_la_sentences in Hd. discriminate.
Qed.

Print Assumptions action_viable_refuted.

(* ---------- (T3) needs the lookahead part of [lookahead_generated] ---------- *)
(* the same grammar and table; state 0 carries the extra item [S -> . a, a] (it comes after [## -> . S, <eof>], so
   [closure_generated] of Proofs/ReportViable.v holds, but a is not in FIRST(<eof>)) and state 1 its successor
   [S -> a ., a]: now the reduce under lookahead a IS justified by an item with that lookahead. *)
Definition sts_la2 : list items :=
  [[mkItem 1 0 1; mkItem 0 0 1; mkItem 0 0 0]; [mkItem 0 1 1; mkItem 0 1 0]; [mkItem 1 1 1]].

Theorem action_viable_refuted_closure_generated :
  validate g_la sts_la2 tbl_la = true /\ closure_generatedb g_la sts_la2 = true /\ states_nonempty_b sts_la2 = true /\
  reduce_lookaheadb g_la sts_la2 tbl_la = true /\ productiveb g_la = true /\
  lookahead_generatedb g_la sts_la2 = false /\ tokens_ok g_la [0; 0] /\
  reach g_la tbl_la [0; 0] ([1; 0], [Leaf 0], [0]) /\
  (exists e, cell tbl_la 1 (nterm_count g_la + look g_la [0]) = inl e /\ e_kind e = KReduce) /\
  ~ sentence_prefix g_la (flat_map yield (rev [Leaf 0]) ++ [look g_la [0]]).
Proof.
  do 6 (split; [vm_compute; reflexivity|]). split; [repeat constructor|]. split; [|split].
  - exists 1. cbn. eexists. split; reflexivity.
  - eexists. split; reflexivity.
  - intros (v & t & Hd). apply g_la_sentences in Hd. discriminate.
Qed.

Print Assumptions action_viable_refuted_closure_generated.
