(* Facts about the declarative grouping property of Spec/Grouping.v that do not involve tables or the parser:
   - [well_grouped_by_precedence] : well_grouped -> groups_by_precedence  (arithmetic on [sr_choice]);
   - a boolean decision procedure [well_groupedb] with [well_groupedb_iff], used by the examples. *)
Require Import Ctpg.Base.Prelude Ctpg.Model.Grammar Ctpg.Model.LRGen
               Ctpg.Spec.Cfg Ctpg.Spec.Conflict Ctpg.Spec.Grouping Ctpg.Proofs.LRReflect.

Lemma binop_at_is_rule g r e t : is_rule g r e [NT e; T t; NT e] <-> exists i, binop_at g i r e t.
Proof.
  unfold is_rule, binop_at. split.
  - intros (i & ri & H). exists i, ri. exact H.
  - intros (i & ri & H). exists i, ri. exact H.
Qed.

(* ================================================================== *)
(* the documented rule, as inequalities                                *)
(* ================================================================== *)

Lemma sr_choice_reduce_prec g i t : sr_choice g i t = KReduce ->
  (term_prec_of g t <= rule_prec_of g i)%Z /\
  (rule_prec_of g i = term_prec_of g t -> rule_assoc_of g i = Ltor).
Proof.
  unfold sr_choice. destruct (Z.compare_spec (rule_prec_of g i) (term_prec_of g t)) as [E|L|G].
  - destruct (rule_assoc_of g i); intros H; try discriminate. split; [lia|reflexivity].
  - discriminate.
  - intros _. split; [lia|]. intros E. lia.
Qed.

Lemma sr_choice_shift_prec g i t : sr_choice g i t = KShift ->
  (rule_prec_of g i <= term_prec_of g t)%Z /\
  (rule_prec_of g i = term_prec_of g t -> rule_assoc_of g i <> Ltor).
Proof.
  unfold sr_choice. destruct (Z.compare_spec (rule_prec_of g i) (term_prec_of g t)) as [E|L|G].
  - destruct (rule_assoc_of g i); intros H; try discriminate; (split; [lia|intros _; discriminate]).
  - intros _. split; [lia|]. intros E. lia.
  - discriminate.
Qed.

(* G2: a well grouped tree groups by precedence, then by associativity *)
Theorem well_grouped_by_precedence : forall g tr, well_grouped g tr -> groups_by_precedence g tr.
Proof.
  intros g tr H n Hsub. specialize (H n Hsub).
  destruct n as [a|r [|L [|[t|? ?] [|R [|? ?]]]]]; try exact I.
  cbn [node_ok] in H. cbn [node_by_precedence]. intros i e Hb [Hp Ha].
  destruct (H i e Hb) as [HL HR]. split.
  - destruct L as [a|r0 ch0]; [exact I|]. cbn [left_operand_ok] in HL.
    intros i0 t0 Hb0 [Hp0 Ha0]. destruct (sr_choice_reduce_prec _ _ _ (HL i0 t0 Hb0)) as [H1 H2].
    rewrite Hp0 in H1, H2. rewrite Ha0 in H2. split; assumption.
  - destruct R as [a|r2 [|b [|[t2|? ?] [|c [|? ?]]]]]; try exact I. cbn [right_operand_ok] in HR.
    intros i2 Hb2. destruct (sr_choice_shift_prec _ _ _ (HR i2 Hb2)) as [H1 H2].
    rewrite Hp in H1, H2. rewrite Ha in H2. split; [assumption|]. intros E. apply H2. symmetry. assumption.
Qed.

(* in particular: an operator node whose operator has LOWER precedence is never a direct operand of an operator node
   whose operator has HIGHER precedence (rules without explicit precedence) *)
Corollary lower_never_under_higher : forall g tr r L t R i e,
  well_grouped g tr -> subtree (Node r [L; Leaf t; R]) tr -> binop_at g i r e t -> plain_rule g i t ->
  (forall r0 ch0 i0 t0, L = Node r0 ch0 -> binop_at g i0 r0 e t0 -> plain_rule g i0 t0 ->
                        ~ (term_prec_of g t0 < term_prec_of g t)%Z) /\
  (forall r2 b t2 c i2, R = Node r2 [b; Leaf t2; c] -> binop_at g i2 r2 e t2 ->
                        ~ (term_prec_of g t2 < term_prec_of g t)%Z).
Proof.
  intros g tr r L t R i e Hwg Hsub Hb Hp.
  pose proof (well_grouped_by_precedence g tr Hwg _ Hsub) as H. cbn [node_by_precedence] in H.
  destruct (H i e Hb Hp) as [HL HR]. split.
  - intros r0 ch0 i0 t0 -> Hb0 Hp0. destruct (HL i0 t0 Hb0 Hp0). lia.
  - intros r2 b t2 c i2 -> Hb2. destruct (HR i2 Hb2). lia.
Qed.

(* ================================================================== *)
(* a decision procedure                                                *)
(* ================================================================== *)

(* the operator of rule_info i if it is a binary operator rule of e with r_idx r *)
Definition binop_op (g : grammar) (i r e : nat) : option nat :=
  match nth_error (rule_infos g) i with
  | Some ri =>
      if Nat.eqb (ri_r ri) r && Nat.eqb (ri_l ri) e then
        match nth_error (right_sides g) r with
        | Some [NT e1; T t; NT e2] => if Nat.eqb e1 e && Nat.eqb e2 e then Some t else None
        | _ => None
        end
      else None
  | None => None
  end.

Lemma binop_op_iff g i r e t : binop_op g i r e = Some t <-> binop_at g i r e t.
Proof.
  unfold binop_op, binop_at. split.
  - destruct (nth_error (rule_infos g) i) as [ri|]; [|discriminate].
    destruct (Nat.eqb (ri_r ri) r && Nat.eqb (ri_l ri) e) eqn:E; [|discriminate].
    apply andb_true_iff in E. destruct E as [E1 E2]. apply Nat.eqb_eq in E1, E2.
    destruct (nth_error (right_sides g) r) as [[|[?|e1] [|[t'|?] [|[?|e2] [|? ?]]]]|]; try discriminate.
    destruct (Nat.eqb e1 e && Nat.eqb e2 e) eqn:E'; [|discriminate].
    apply andb_true_iff in E'. destruct E' as [E3 E4]. apply Nat.eqb_eq in E3, E4. subst e1 e2.
    intros H; inversion H; subst t'. exists ri. auto.
  - intros (ri & -> & Hr & Hl & ->). rewrite Hr, Hl, !Nat.eqb_refl. cbn. reflexivity.
Qed.

Lemma binop_at_lt g i r e t : binop_at g i r e t -> i < length (rule_infos g).
Proof. intros (ri & H & _). apply nth_error_Some. congruence. Qed.

Definition all_ri (g : grammar) (f : nat -> bool) : bool := forallb f (seq 0 (length (rule_infos g))).

Lemma all_ri_iff g f : all_ri g f = true <-> forall i, i < length (rule_infos g) -> f i = true.
Proof. apply forallb_seq0. Qed.

Definition left_operand_okb (g : grammar) (e t : nat) (L : tree) : bool :=
  match L with
  | Node r0 _ => all_ri g (fun i0 => match binop_op g i0 r0 e with
                                     | Some _ => kind_eqb (sr_choice g i0 t) KReduce
                                     | None => true
                                     end)
  | Leaf _ => true
  end.

Definition right_operand_okb (g : grammar) (i e : nat) (R : tree) : bool :=
  match R with
  | Node r2 [_; Leaf t2; _] =>
      all_ri g (fun i2 => match binop_op g i2 r2 e with
                          | Some t' => negb (Nat.eqb t' t2) || kind_eqb (sr_choice g i t2) KShift
                          | None => true
                          end)
  | _ => true
  end.

Definition node_okb (g : grammar) (n : tree) : bool :=
  match n with
  | Node r [L; Leaf t; R] =>
      all_ri g (fun i => let e := ri_l (get_ri g i) in
                         match binop_op g i r e with
                         | Some t' => negb (Nat.eqb t' t) || (left_operand_okb g e t L && right_operand_okb g i e R)
                         | None => true
                         end)
  | _ => true
  end.

Fixpoint well_groupedb (g : grammar) (tr : tree) : bool :=
  match tr with
  | Leaf _ => true
  | Node r ch => node_okb g tr && forallb (well_groupedb g) ch
  end.

Lemma left_operand_okb_iff g e t L : left_operand_okb g e t L = true <-> left_operand_ok g e t L.
Proof.
  destruct L as [a|r0 ch0]; cbn [left_operand_okb left_operand_ok]; [tauto|].
  rewrite all_ri_iff. split.
  - intros H i0 t0 Hb. specialize (H i0 (binop_at_lt _ _ _ _ _ Hb)).
    apply binop_op_iff in Hb. rewrite Hb in H. apply kind_eqb_eq. assumption.
  - intros H i0 Hi. destruct (binop_op g i0 r0 e) as [t0|] eqn:E; [|reflexivity].
    apply kind_eqb_eq. apply (H i0 t0). apply binop_op_iff. assumption.
Qed.

Lemma right_operand_okb_iff g i e R : right_operand_okb g i e R = true <-> right_operand_ok g i e R.
Proof.
  destruct R as [a|r2 [|b [|[t2|? ?] [|c [|? ?]]]]]; cbn [right_operand_okb right_operand_ok]; try tauto.
  rewrite all_ri_iff. split.
  - intros H i2 Hb. specialize (H i2 (binop_at_lt _ _ _ _ _ Hb)).
    apply binop_op_iff in Hb. rewrite Hb, Nat.eqb_refl in H. cbn in H. apply kind_eqb_eq. assumption.
  - intros H i2 Hi. destruct (binop_op g i2 r2 e) as [t'|] eqn:E; [|reflexivity].
    destruct (Nat.eqb t' t2) eqn:Et; [|reflexivity]. apply Nat.eqb_eq in Et. subst t'. cbn.
    apply kind_eqb_eq. apply (H i2). apply binop_op_iff. assumption.
Qed.

Lemma binop_at_get_ri g i r e t : binop_at g i r e t -> ri_l (get_ri g i) = e.
Proof. intros (ri & H & _ & Hl & _). unfold get_ri. rewrite (nth_error_nth _ _ dummy_ri H). assumption. Qed.

Lemma node_okb_iff g n : node_okb g n = true <-> node_ok g n.
Proof.
  destruct n as [a|r [|L [|[t|? ?] [|R [|? ?]]]]]; cbn [node_okb node_ok]; try tauto.
  rewrite all_ri_iff. split.
  - intros H i e Hb. specialize (H i (binop_at_lt _ _ _ _ _ Hb)). cbn zeta in H.
    rewrite (binop_at_get_ri _ _ _ _ _ Hb) in H.
    apply binop_op_iff in Hb. rewrite Hb, Nat.eqb_refl in H. cbn [negb orb] in H.
    apply andb_true_iff in H. destruct H as [H1 H2].
    split; [apply left_operand_okb_iff|apply right_operand_okb_iff]; assumption.
  - intros H i Hi. cbn zeta. destruct (binop_op g i r (ri_l (get_ri g i))) as [t'|] eqn:E; [|reflexivity].
    destruct (Nat.eqb t' t) eqn:Et; [|reflexivity]. apply Nat.eqb_eq in Et. subst t'. cbn [negb orb].
    apply binop_op_iff in E. destruct (H i _ E) as [H1 H2].
    apply andb_true_iff. split; [apply left_operand_okb_iff|apply right_operand_okb_iff]; assumption.
Qed.

Lemma subtree_node_inv n r ch : subtree n (Node r ch) -> n = Node r ch \/ exists c, In c ch /\ subtree n c.
Proof. intros H. inversion H; subst; [left; reflexivity|right; eauto]. Qed.

Theorem well_groupedb_iff g tr : well_groupedb g tr = true <-> well_grouped g tr.
Proof.
  induction tr as [a|r ch IH] using tree_ind'.
  - cbn. split; [|reflexivity]. intros _ n H. inversion H; subst. exact I.
  - cbn [well_groupedb]. rewrite andb_true_iff, node_okb_iff, forallb_forall. split.
    + intros [Hn Hch] n Hs. apply subtree_node_inv in Hs. destruct Hs as [->|(c & Hc & Hs)]; [assumption|].
      rewrite Forall_forall in IH. apply (proj1 (IH c Hc) (Hch c Hc)). assumption.
    + intros H. split.
      * apply H. constructor.
      * intros c Hc. rewrite Forall_forall in IH. apply (IH c Hc). intros n Hs. apply H.
        econstructor; eassumption.
Qed.

Print Assumptions well_grouped_by_precedence.
Print Assumptions well_groupedb_iff.
