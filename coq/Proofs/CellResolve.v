(* How the generator resolves one table cell (scan_cell, Model/LRGen.v) against the specification of
   conflicts and of the documented precedence rule (Spec/Conflict.v); and which lines of the state
   diagnostic (Model/Diag.v) are conflict lines.  Everything is for arbitrary grammars and arbitrary item
   lists (any length, order, multiplicity) unless a hypothesis says otherwise. *)
Require Import Ctpg.Base.Prelude Ctpg.Model.Grammar Ctpg.Model.LRGen Ctpg.Model.Diag.
Require Import Ctpg.Spec.Conflict Ctpg.Proofs.CellBasics.
Require Coq.Logic.FinFun.

(* ================================================================== *)
(* T1: solve_conflict is the documented rule                          *)
(* ================================================================== *)

Theorem solve_conflict_is_documented_rule : forall g r t,
  solve_conflict g r t = sr_choice g r t.
Proof.
  intros g r t. unfold solve_conflict, sr_choice, rule_prec_of, rule_assoc_of, term_prec_of.
  set (rp := nth (ri_r (get_ri g r)) (rule_prec g) 0%Z).
  set (tp := nth t (term_prec g) 0%Z).
  destruct (Z.compare_spec rp tp) as [E | L | G];
    destruct (Z.ltb_spec tp rp); destruct (Z.eqb_spec rp tp); try lia; reflexivity.
Qed.

Lemma sr_choice_cases : forall g r t, sr_choice g r t = KReduce \/ sr_choice g r t = KShift.
Proof.
  intros. unfold sr_choice. destruct (Z.compare _ _); auto. destruct (rule_assoc_of g r); auto.
Qed.

(* the documented rule, spelled out *)
Lemma sr_choice_reduce_iff : forall g r t,
  sr_choice g r t = KReduce <->
  (rule_prec_of g r > term_prec_of g t)%Z \/
  (rule_prec_of g r = term_prec_of g t /\ rule_assoc_of g r = Ltor).
Proof.
  intros g r t. unfold sr_choice.
  destruct (Z.compare_spec (rule_prec_of g r) (term_prec_of g t)) as [E | L | G].
  - destruct (rule_assoc_of g r); split; try discriminate; auto;
      intros [H | [_ H]]; try lia; discriminate.
  - split; [discriminate | intros [H | [H _]]; lia].
  - split; auto. intros _. left. lia.
Qed.

Lemma cell_kind_not_stop : forall g t red hs,
  cell_kind g t red hs <> KSuccess /\ cell_kind g t red hs <> KRR.
Proof.
  intros g t [r|] [|]; simpl; try (split; discriminate).
  destruct (sr_choice_cases g r t) as [-> | ->]; split; discriminate.
Qed.

(* ================================================================== *)
(* basic facts about the specification's vocabulary                    *)
(* ================================================================== *)

Lemma reduce_items_cons_true g i its :
  is_complete g i = true -> reduce_items g (i :: its) = i :: reduce_items g its.
Proof. intros H. unfold reduce_items. simpl. rewrite H. reflexivity. Qed.
Lemma reduce_items_cons_false g i its :
  is_complete g i = false -> reduce_items g (i :: its) = reduce_items g its.
Proof. intros H. unfold reduce_items. simpl. rewrite H. reflexivity. Qed.
Lemma shift_items_cons_true g i its :
  is_complete g i = true -> shift_items g (i :: its) = shift_items g its.
Proof. intros H. unfold shift_items. simpl. rewrite H. reflexivity. Qed.
Lemma shift_items_cons_false g i its :
  is_complete g i = false -> shift_items g (i :: its) = i :: shift_items g its.
Proof. intros H. unfold shift_items. simpl. rewrite H. reflexivity. Qed.
Lemma reduce_items_app g a b : reduce_items g (a ++ b) = reduce_items g a ++ reduce_items g b.
Proof. apply filter_app. Qed.

Lemma in_reduce_items g i its : In i (reduce_items g its) <-> In i its /\ is_complete g i = true.
Proof. apply filter_In. Qed.
Lemma in_shift_items g i its : In i (shift_items g its) <-> In i its /\ is_complete g i = false.
Proof. unfold shift_items. rewrite filter_In, negb_true_iff. tauto. Qed.

Lemma bucket_cons g t i its : in_term_bucket g t (i :: its) -> in_term_bucket g t its.
Proof. intros H j Hj. apply H. right. exact Hj. Qed.
Lemma bucket_app_l g t a b : in_term_bucket g t (a ++ b) -> in_term_bucket g t a.
Proof. intros H j Hj. apply H. apply in_or_app. left. exact Hj. Qed.

Lemma nrc_cons g i its : no_root_complete g (i :: its) -> no_root_complete g its.
Proof. intros H j Hj. apply H. right. exact Hj. Qed.
Lemma nrc_cons_intro g i its :
  root_complete g i = false -> no_root_complete g its -> no_root_complete g (i :: its).
Proof. intros H1 H2 j [<- | Hj]; auto. Qed.
Lemma nrc_nil g : no_root_complete g [].
Proof. intros j []. Qed.
Lemma shift_not_root g i : is_complete g i = false -> root_complete g i = false.
Proof. intros H. unfold root_complete. rewrite H. reflexivity. Qed.

Lemma any_shift_iff g its : any_shift g its = true <-> shift_items g its <> [].
Proof.
  induction its as [|i its IH].
  - simpl. split; [discriminate | intros H; contradiction].
  - destruct (is_complete g i) eqn:Hc.
    + rewrite shift_items_cons_true by assumption. unfold any_shift. simpl. rewrite Hc. exact IH.
    + rewrite shift_items_cons_false by assumption. unfold any_shift. simpl. rewrite Hc.
      split; [discriminate | reflexivity].
Qed.

Lemma any_shift_false_iff g its : any_shift g its = false <-> shift_items g its = [].
Proof.
  destruct (any_shift g its) eqn:E.
  - apply any_shift_iff in E. split; [discriminate | intros H; contradiction].
  - split; auto. intros _. destruct (shift_items g its) eqn:S; auto.
    assert (any_shift g its = true) by (apply any_shift_iff; rewrite S; discriminate). congruence.
Qed.

(* ================================================================== *)
(* one step of the loop                                               *)
(* ================================================================== *)

Lemma scan_step_root g i rest s :
  root_complete g i = true -> scan_cell g (i :: rest) s = with_kind KSuccess s.
Proof.
  unfold root_complete, is_complete, is_root_item. intros H.
  apply andb_true_iff in H as [H1 H2]. simpl. rewrite H1, H2. reflexivity.
Qed.

Lemma scan_step_rr g i rest s :
  is_complete g i = true -> is_root_item g i = false -> sc_has_red s = true ->
  scan_cell g (i :: rest) s = with_kind KRR s.
Proof.
  unfold is_complete, is_root_item. intros H1 H2 H3. unfold with_kind. simpl. rewrite H1, H2, H3. reflexivity.
Qed.

Lemma scan_step_red g t i rest hs ker :
  is_complete g i = true -> is_root_item g i = false -> it_t i = t ->
  scan_cell g (i :: rest) (cell_state g t None hs ker) =
  scan_cell g rest (cell_state g t (Some (it_r i)) hs ker).
Proof.
  unfold is_complete, is_root_item. intros H1 H2 H3. unfold cell_state. simpl.
  rewrite H1, H2. destruct hs; simpl.
  - rewrite solve_conflict_is_documented_rule, H3. reflexivity.
  - reflexivity.
Qed.

Lemma scan_step_shift g t i rest red hs ker :
  is_complete g i = false -> next_sym g i = Some (T t) ->
  scan_cell g (i :: rest) (cell_state g t red hs ker) =
  scan_cell g rest (cell_state g t red true (add_item ker (advance i))).
Proof.
  unfold is_complete, next_sym, rhs_of. intros H1 H2. unfold cell_state, advance. simpl.
  rewrite H1, H2. destruct red as [r|]; simpl.
  - destruct hs; simpl.
    + reflexivity.
    + rewrite solve_conflict_is_documented_rule. reflexivity.
  - reflexivity.
Qed.

(* a shift item met while no reduction has been seen: the column does not matter *)
Lemma scan_step_shift_nored g t i rest hs ker :
  is_complete g i = false ->
  scan_cell g (i :: rest) (cell_state g t None hs ker) =
  scan_cell g rest (cell_state g t None true (add_item ker (advance i))).
Proof.
  unfold is_complete. intros H1. unfold cell_state, advance. simpl. rewrite H1. reflexivity.
Qed.

(* ================================================================== *)
(* a run of the loop that does not stop                               *)
(* ================================================================== *)

Definition or_red (red o : option nat) : option nat :=
  match red with Some r => Some r | None => o end.

Lemma scan_run g t : forall pre rest red hs ker,
  in_term_bucket g t pre -> no_root_complete g pre ->
  length (reduce_items g pre) + (if is_some red then 1 else 0) <= 1 ->
  scan_cell g (pre ++ rest) (cell_state g t red hs ker) =
  scan_cell g rest (cell_state g t (or_red red (first_red g pre)) (hs || any_shift g pre)
                               (fold_left add_item (map advance (shift_items g pre)) ker)).
Proof.
  induction pre as [|i pre IH]; intros rest red hs ker HB HR HL.
  - simpl. rewrite orb_false_r. destruct red; reflexivity.
  - pose proof (bucket_cons _ _ _ _ HB) as HB'. pose proof (nrc_cons _ _ _ HR) as HR'.
    destruct (HB i (or_introl eq_refl)) as [[Hc Ht] | [Hc Hn]].
    + assert (Hroot : is_root_item g i = false).
      { specialize (HR i (or_introl eq_refl)). unfold root_complete in HR. rewrite Hc in HR. exact HR. }
      rewrite reduce_items_cons_true in HL by assumption. simpl in HL.
      destruct red as [r|]; simpl in HL; [lia|].
      simpl app. rewrite (scan_step_red g t i _ hs ker Hc Hroot Ht).
      rewrite IH; [| assumption | assumption | simpl; lia].
      unfold first_red. rewrite reduce_items_cons_true, shift_items_cons_true by assumption.
      simpl. rewrite Hc. reflexivity.
    + simpl app. rewrite (scan_step_shift g t i _ red hs ker Hc Hn).
      rewrite reduce_items_cons_false in HL by assumption.
      rewrite IH; [| assumption | assumption | assumption].
      unfold first_red. rewrite reduce_items_cons_false, shift_items_cons_false by assumption.
      simpl. rewrite Hc. simpl. rewrite orb_true_r. reflexivity.
Qed.

Lemma scan0_is_cell_state g t : scan0 = cell_state g t None false [].
Proof. reflexivity. Qed.

Lemma scan_prefix g t pre rest :
  in_term_bucket g t pre -> never_stops g pre ->
  scan_cell g (pre ++ rest) scan0 = scan_cell g rest (cell_summary g t pre).
Proof.
  intros HB [HR HL]. rewrite (scan0_is_cell_state g t).
  rewrite scan_run by (simpl; auto; lia).
  simpl. rewrite fold_add_item_nil. reflexivity.
Qed.

(* ================================================================== *)
(* the three outcomes of the loop                                      *)
(* ================================================================== *)

Theorem scan_never_stops g t its :
  in_term_bucket g t its -> never_stops g its ->
  scan_cell g its scan0 = cell_summary g t its.
Proof.
  intros HB HN. rewrite <- (app_nil_r its) at 1. rewrite (scan_prefix g t) by assumption. reflexivity.
Qed.

Theorem scan_stops_success g t its pre i post :
  in_term_bucket g t its -> stops_success g its pre i post ->
  scan_cell g its scan0 = with_kind KSuccess (cell_summary g t pre).
Proof.
  intros HB (E & Hi & HR & HL). subst its.
  rewrite (scan_prefix g t) by (try split; eauto using bucket_app_l).
  apply scan_step_root. assumption.
Qed.

Theorem scan_stops_rr g t its pre i post :
  in_term_bucket g t its -> stops_rr g its pre i post ->
  scan_cell g its scan0 = with_kind KRR (cell_summary g t pre).
Proof.
  intros HB (E & Hc & Hi & HR & HL). subst its.
  rewrite (scan_prefix g t) by (try split; eauto using bucket_app_l; lia).
  apply scan_step_rr; try assumption.
  unfold cell_summary, cell_state, first_red. simpl.
  destruct (reduce_items g pre); [discriminate | reflexivity].
Qed.

(* exactly one of the three situations occurs (existence here; exclusiveness follows from the kinds) *)
Lemma stop_trichotomy_gen g : forall its n, n <= 1 ->
  (no_root_complete g its /\ length (reduce_items g its) + n <= 1) \/
  (exists pre i post, its = pre ++ i :: post /\ root_complete g i = true /\
                      no_root_complete g pre /\ length (reduce_items g pre) + n <= 1) \/
  (exists pre i post, its = pre ++ i :: post /\ is_complete g i = true /\ is_root_item g i = false /\
                      no_root_complete g pre /\ length (reduce_items g pre) + n = 1).
Proof.
  induction its as [|i its IH]; intros n Hn.
  - left. split; [apply nrc_nil | simpl; lia].
  - destruct (is_complete g i) eqn:Hc.
    + destruct (is_root_item g i) eqn:Hr.
      * right; left. exists [], i, its. repeat split.
        -- unfold root_complete. rewrite Hc, Hr. reflexivity.
        -- apply nrc_nil.
        -- simpl. lia.
      * assert (Hnr : root_complete g i = false) by (unfold root_complete; rewrite Hc, Hr; reflexivity).
        destruct n as [|n].
        -- destruct (IH 1 (le_n 1)) as [[A B] | [(pre & j & post & E & A & B & C) | (pre & j & post & E & A & B & C & D)]].
           ++ left. split; [apply nrc_cons_intro; assumption|].
              rewrite reduce_items_cons_true by assumption. simpl. lia.
           ++ right; left. exists (i :: pre), j, post. subst its. repeat split; auto.
              ** apply nrc_cons_intro; assumption.
              ** rewrite reduce_items_cons_true by assumption. simpl. lia.
           ++ right; right. exists (i :: pre), j, post. subst its. repeat split; auto.
              ** apply nrc_cons_intro; assumption.
              ** rewrite reduce_items_cons_true by assumption. simpl. lia.
        -- right; right. exists [], i, its. repeat split; auto.
           ++ apply nrc_nil.
           ++ simpl. lia.
    + pose proof (shift_not_root g i Hc) as Hnr.
      destruct (IH n Hn) as [[A B] | [(pre & j & post & E & A & B & C) | (pre & j & post & E & A & B & C & D)]].
      * left. split; [apply nrc_cons_intro; assumption|].
        rewrite reduce_items_cons_false by assumption. assumption.
      * right; left. exists (i :: pre), j, post. subst its. repeat split; auto.
        -- apply nrc_cons_intro; assumption.
        -- rewrite reduce_items_cons_false by assumption. assumption.
      * right; right. exists (i :: pre), j, post. subst its. repeat split; auto.
        -- apply nrc_cons_intro; assumption.
        -- rewrite reduce_items_cons_false by assumption. assumption.
Qed.

Lemma stop_trichotomy g its :
  never_stops g its \/
  (exists pre i post, stops_success g its pre i post) \/
  (exists pre i post, stops_rr g its pre i post).
Proof.
  destruct (stop_trichotomy_gen g its 0 (le_S _ _ (le_n 0)))
    as [[A B] | [(pre & j & post & E & A & B & C) | (pre & j & post & E & A & B & C & D)]].
  - left. split; [assumption | lia].
  - right; left. exists pre, j, post. repeat split; auto. lia.
  - right; right. exists pre, j, post. repeat split; auto. lia.
Qed.

(* the master statement: what the loop leaves behind, in each of the three situations *)
Theorem scan_cell_characterisation g t its :
  in_term_bucket g t its ->
  (never_stops g its /\ scan_cell g its scan0 = cell_summary g t its) \/
  (exists pre i post, stops_success g its pre i post /\
                      scan_cell g its scan0 = with_kind KSuccess (cell_summary g t pre)) \/
  (exists pre i post, stops_rr g its pre i post /\
                      scan_cell g its scan0 = with_kind KRR (cell_summary g t pre)).
Proof.
  intros HB. destruct (stop_trichotomy g its) as [H | [(pre & i & post & H) | (pre & i & post & H)]].
  - left. split; [assumption | apply scan_never_stops; assumption].
  - right; left. exists pre, i, post. split; [assumption | eapply scan_stops_success; eassumption].
  - right; right. exists pre, i, post. split; [assumption | eapply scan_stops_rr; eassumption].
Qed.

(* ================================================================== *)
(* T2 (C05): a cell with one reduction and shifts, in any order         *)
(* ================================================================== *)

Lemma single_reduce_never_stops g its i :
  reduce_items g its = [i] -> is_root_item g i = false -> never_stops g its.
Proof.
  intros HR Hi. split.
  - intros j Hj. unfold root_complete. destruct (is_complete g j) eqn:Hc; auto.
    assert (In j (reduce_items g its)) by (apply in_reduce_items; auto).
    rewrite HR in H. destruct H as [<- | []]. exact Hi.
  - rewrite HR. simpl. lia.
Qed.

Lemma no_reduce_never_stops g its : reduce_items g its = [] -> never_stops g its.
Proof.
  intros HR. split.
  - intros j Hj. unfold root_complete. destruct (is_complete g j) eqn:Hc; auto.
    assert (In j (reduce_items g its)) by (apply in_reduce_items; auto).
    rewrite HR in H. destruct H.
  - rewrite HR. simpl. lia.
Qed.

(* Exactly one reduce item [i] (first, in the middle or last), not of the root rule, and at least one shift
   item, before and/or after it: the kind is the documented choice, the S/R flag is set, the reduction is
   recorded, and the target kernel collects all shift items. No assumption on order or multiplicities of
   the shift items. *)
Theorem C05_cell g t its i :
  in_term_bucket g t its ->
  reduce_items g its = [i] -> is_root_item g i = false ->
  shift_items g its <> [] ->
  let s := scan_cell g its scan0 in
  sc_kind s = sr_choice g (it_r i) t /\ sc_sr s = true /\ sc_red s = Some (it_r i) /\
  sc_has_red s = true /\ sc_has_shift s = true /\ sc_kernel s = target_kernel g its.
Proof.
  intros HB HR Hi HS s. subst s.
  rewrite (scan_never_stops g t) by eauto using single_reduce_never_stops.
  apply any_shift_iff in HS.
  unfold cell_summary, cell_state, first_red. rewrite HR, HS. simpl. repeat split; reflexivity.
Qed.

(* frame 1: no reduce item (and the cell is not empty): plain shift, no flag *)
Theorem C05_no_reduce g t its :
  in_term_bucket g t its ->
  reduce_items g its = [] -> its <> [] ->
  let s := scan_cell g its scan0 in
  sc_kind s = KShift /\ sc_sr s = false /\ sc_red s = None /\ sc_has_red s = false /\
  sc_has_shift s = true /\ sc_kernel s = target_kernel g its.
Proof.
  intros HB HR HN s. subst s.
  rewrite (scan_never_stops g t) by eauto using no_reduce_never_stops.
  assert (HS : any_shift g its = true).
  { destruct its as [|j its]; [contradiction|]. unfold any_shift. simpl.
    destruct (is_complete g j) eqn:Hc; auto.
    rewrite reduce_items_cons_true in HR by assumption. discriminate. }
  unfold cell_summary, cell_state, first_red. rewrite HR, HS. simpl. repeat split; reflexivity.
Qed.

(* frame 2: one reduce item (not the root rule) and no shift item: plain reduce, no flag *)
Theorem C05_no_shift g t its i :
  in_term_bucket g t its ->
  reduce_items g its = [i] -> is_root_item g i = false ->
  shift_items g its = [] ->
  let s := scan_cell g its scan0 in
  sc_kind s = KReduce /\ sc_sr s = false /\ sc_red s = Some (it_r i) /\
  sc_has_red s = true /\ sc_has_shift s = false /\ sc_kernel s = [].
Proof.
  intros HB HR Hi HS s. subst s.
  rewrite (scan_never_stops g t) by eauto using single_reduce_never_stops.
  unfold cell_summary, cell_state, first_red, target_kernel. rewrite HR, HS.
  apply any_shift_false_iff in HS. rewrite HS. simpl. repeat split; reflexivity.
Qed.

(* the empty cell *)
Lemma scan_empty g : scan_cell g [] scan0 = scan0.
Proof. reflexivity. Qed.

(* the flag characterises the S/R conflict *)
Lemma sr_flag_summary g its :
  no_root_complete g its ->
  (is_some (first_red g its) && any_shift g its = true <-> has_sr_conflict g its).
Proof.
  intros HR. rewrite andb_true_iff. split.
  - intros [H1 H2]. unfold first_red in H1. destruct (reduce_items g its) as [|i l] eqn:E; [discriminate|].
    apply any_shift_iff in H2. destruct (shift_items g its) as [|j l'] eqn:E'; [contradiction|].
    assert (Hin : In i (reduce_items g its)) by (rewrite E; left; reflexivity).
    exists i, j. split; [exact Hin|]. split; [|rewrite E'; left; reflexivity].
    apply in_reduce_items in Hin as [Hin Hc]. specialize (HR i Hin).
    unfold root_complete in HR. rewrite Hc in HR. exact HR.
  - intros (i & j & Hi & _ & Hj). split.
    + unfold first_red. destruct (reduce_items g its); [destruct Hi | reflexivity].
    + apply any_shift_iff. intros E. rewrite E in Hj. destruct Hj.
Qed.

(* When the loop visits the whole cell (no completed root item, at most one reduction):
   the S/R flag is set exactly when the cell has a shift/reduce conflict, and then the kind is the
   documented choice for the (only) reduction. *)
Theorem C05_sr_flag_iff g t its :
  in_term_bucket g t its -> never_stops g its ->
  (sc_sr (scan_cell g its scan0) = true <-> has_sr_conflict g its) /\
  (has_sr_conflict g its ->
   exists i, reduce_items g its = [i] /\ sc_kind (scan_cell g its scan0) = sr_choice g (it_r i) t).
Proof.
  intros HB HN. rewrite (scan_never_stops g t) by assumption. destruct HN as [HR HL]. split.
  - unfold cell_summary, cell_state. simpl. apply sr_flag_summary. assumption.
  - intros HC. apply sr_flag_summary in HC; [|assumption]. apply andb_true_iff in HC as [H1 H2].
    unfold cell_summary, cell_state, first_red in *. simpl.
    destruct (reduce_items g its) as [|i [|j l]] eqn:E; simpl in *; try discriminate; try lia.
    exists i. rewrite H2. split; reflexivity.
Qed.

(* In a state no item occurs twice and no dot is beyond the end of its rule; then "all reduce items have the
   same rule" means there is exactly one reduce item. The form of C05 asked for: one distinct reduce rule r. *)
Lemma complete_same_rule_eq g t its i j :
  in_term_bucket g t its -> dots_in_range g its ->
  In i (reduce_items g its) -> In j (reduce_items g its) -> it_r i = it_r j -> i = j.
Proof.
  intros HB HD Hi Hj E.
  apply in_reduce_items in Hi as [Hi Hci]. apply in_reduce_items in Hj as [Hj Hcj].
  pose proof (HD i Hi) as Di. pose proof (HD j Hj) as Dj.
  destruct (HB i Hi) as [[_ Ti] | [F _]]; [|congruence].
  destruct (HB j Hj) as [[_ Tj] | [F _]]; [|congruence].
  unfold is_complete in Hci, Hcj. apply Nat.leb_le in Hci, Hcj.
  destruct i as [r1 d1 t1], j as [r2 d2 t2]. simpl in *. subst. f_equal. lia.
Qed.

Lemma NoDup_all_equal {A} (l : list A) :
  NoDup l -> (forall x y, In x l -> In y l -> x = y) -> length l <= 1.
Proof.
  intros ND H. destruct l as [|a [|b l]]; simpl; try lia.
  inversion ND; subst. exfalso. apply H2. left. symmetry. apply H; simpl; auto.
Qed.

Theorem C05_cell_one_rule g t its r :
  in_term_bucket g t its -> NoDup its -> dots_in_range g its ->
  (forall i, In i (reduce_items g its) -> it_r i = r) ->
  reduce_items g its <> [] ->
  Nat.eqb (ri_r (get_ri g r)) (root_rule_idx g) = false ->
  shift_items g its <> [] ->
  let s := scan_cell g its scan0 in
  sc_kind s = sr_choice g r t /\ sc_sr s = true /\ sc_red s = Some r /\
  sc_has_shift s = true /\ sc_kernel s = target_kernel g its.
Proof.
  intros HB ND HD Hall HNE Hroot HS.
  assert (HL : length (reduce_items g its) <= 1).
  { apply NoDup_all_equal; [apply NoDup_filter; assumption|].
    intros x y Hx Hy. apply (complete_same_rule_eq g t its); auto.
    rewrite (Hall x Hx), (Hall y Hy). reflexivity. }
  destruct (reduce_items g its) as [|i [|j l]] eqn:E; [contradiction | | simpl in HL; lia].
  assert (Hr : it_r i = r) by (apply Hall; left; reflexivity). subst r.
  destruct (C05_cell g t its i HB E Hroot HS) as (A & B & C & D & F & G). repeat split; assumption.
Qed.

(* ================================================================== *)
(* T3 (C11): the R/R and success kinds                                 *)
(* ================================================================== *)

Lemma kind_cell_summary g t its :
  sc_kind (cell_summary g t its) <> KSuccess /\ sc_kind (cell_summary g t its) <> KRR.
Proof. apply cell_kind_not_stop. Qed.

(* (b) success exactly when a completed root item is met while at most one reduction has been seen *)
Theorem C11_success_iff g t its :
  in_term_bucket g t its ->
  (sc_kind (scan_cell g its scan0) = KSuccess <-> exists pre i post, stops_success g its pre i post).
Proof.
  intros HB. split.
  - intros HK. destruct (scan_cell_characterisation g t its HB)
      as [[_ E] | [(pre & i & post & H & _) | (pre & i & post & _ & E)]].
    + rewrite E in HK. destruct (kind_cell_summary g t its). contradiction.
    + exists pre, i, post. assumption.
    + rewrite E in HK. discriminate.
  - intros (pre & i & post & H). rewrite (scan_stops_success g t its pre i post) by assumption. reflexivity.
Qed.

(* (a) R/R exactly when a second reduction is met before any completed root item *)
Theorem C11_rr_iff g t its :
  in_term_bucket g t its ->
  (sc_kind (scan_cell g its scan0) = KRR <-> exists pre i post, stops_rr g its pre i post).
Proof.
  intros HB. split.
  - intros HK. destruct (scan_cell_characterisation g t its HB)
      as [[_ E] | [(pre & i & post & _ & E) | (pre & i & post & H & _)]].
    + rewrite E in HK. destruct (kind_cell_summary g t its). contradiction.
    + rewrite E in HK. discriminate.
    + exists pre, i, post. assumption.
  - intros (pre & i & post & H). rewrite (scan_stops_rr g t its pre i post) by assumption. reflexivity.
Qed.

Lemma stops_rr_two_reduces g its pre i post :
  stops_rr g its pre i post -> 2 <= length (reduce_items g its).
Proof.
  intros (E & Hc & _ & _ & HL). subst its.
  rewrite reduce_items_app, reduce_items_cons_true, app_length by assumption. simpl. lia.
Qed.

Lemma stops_success_has_root g its pre i post :
  stops_success g its pre i post -> ~ no_root_complete g its.
Proof.
  intros (E & Hc & _) H. subst its. rewrite H in Hc; [discriminate|].
  apply in_or_app. right. left. reflexivity.
Qed.

(* (a'), without reference to the order: when the cell has no completed root item *)
Theorem C11_rr_iff_no_root g t its :
  in_term_bucket g t its -> no_root_complete g its ->
  (sc_kind (scan_cell g its scan0) = KRR <-> 2 <= length (reduce_items g its)).
Proof.
  intros HB HR. rewrite (C11_rr_iff g t its HB). split.
  - intros (pre & i & post & H). eapply stops_rr_two_reduces. eassumption.
  - intros HL. destruct (stop_trichotomy g its) as [[_ H] | [(pre & i & post & H) | H]].
    + lia.
    + exfalso. eapply stops_success_has_root; eassumption.
    + assumption.
Qed.

(* in a state (no repeated item, dots in range) two reduce items have different rules *)
Lemma two_reduces_iff_rr_conflict g t its :
  in_term_bucket g t its -> NoDup its -> dots_in_range g its ->
  (2 <= length (reduce_items g its) <-> has_rr_conflict g its).
Proof.
  intros HB ND HD. split.
  - intros HL. destruct (reduce_items g its) as [|i [|j l]] eqn:E; simpl in HL; try lia.
    exists i, j. rewrite E. repeat split; simpl; auto.
    intros Er. assert (i = j).
    { apply (complete_same_rule_eq g t its); auto; rewrite E; simpl; auto. }
    subst j. assert (NDr : NoDup (reduce_items g its)) by (apply NoDup_filter; assumption).
    rewrite E in NDr. inversion NDr; subst. apply H1. left. reflexivity.
  - intros (i & j & Hi & Hj & Hne).
    destruct (reduce_items g its) as [|a [|b l]]; simpl in *; try lia; try tauto.
    destruct Hi as [<- | []], Hj as [<- | []]. congruence.
Qed.

Theorem C11_rr_iff_conflict g t its :
  in_term_bucket g t its -> no_root_complete g its -> NoDup its -> dots_in_range g its ->
  (sc_kind (scan_cell g its scan0) = KRR <-> has_rr_conflict g its).
Proof.
  intros HB HR ND HD. rewrite (C11_rr_iff_no_root g t its HB HR).
  apply (two_reduces_iff_rr_conflict g t); assumption.
Qed.

(* (c) D12, the known deviation: a completed root item that comes first ends the loop; whatever follows
   (reductions, shifts) is not looked at, so an accept/reduce conflict leaves no trace *)
Theorem success_hides_later_items g i rest :
  root_complete g i = true ->
  scan_cell g (i :: rest) scan0 = with_kind KSuccess scan0.
Proof. intros H. apply scan_step_root. assumption. Qed.

Corollary success_hides_later_items_kind g i rest :
  root_complete g i = true ->
  sc_kind (scan_cell g (i :: rest) scan0) = KSuccess /\ sc_sr (scan_cell g (i :: rest) scan0) = false.
Proof. intros H. rewrite success_hides_later_items by assumption. split; reflexivity. Qed.

(* more generally the items after the first stopping item never matter *)
Theorem items_after_stop_ignored g t pre i post post' :
  in_term_bucket g t (pre ++ [i]) ->
  (stops_success g (pre ++ i :: post) pre i post \/ stops_rr g (pre ++ i :: post) pre i post) ->
  scan_cell g (pre ++ i :: post') scan0 = scan_cell g (pre ++ i :: post) scan0.
Proof.
  intros HB H.
  assert (HBp : in_term_bucket g t pre) by (eapply bucket_app_l; eassumption).
  destruct H as [(_ & Hi & HR & HL) | (_ & Hc & Hi & HR & HL)].
  - rewrite !(scan_prefix g t) by (try split; auto). rewrite !scan_step_root by assumption. reflexivity.
  - assert (sc_has_red (cell_summary g t pre) = true).
    { unfold cell_summary, cell_state, first_red. simpl.
      destruct (reduce_items g pre); [discriminate | reflexivity]. }
    rewrite !(scan_prefix g t) by (try split; auto; lia).
    rewrite !scan_step_rr by assumption. reflexivity.
Qed.

(* the positive statement: without a completed root item in the cell, some conflict mark is left
   (S/R flag or kind R/R) exactly when the cell has a conflict.  With two reduce items and a shift item the
   loop may stop at R/R before or after having set the S/R flag, hence the disjunction on the left. *)
Theorem C11_conflict_flag_iff_count g t its :
  in_term_bucket g t its -> no_root_complete g its ->
  (sc_sr (scan_cell g its scan0) = true \/ sc_kind (scan_cell g its scan0) = KRR <->
   has_sr_conflict g its \/ 2 <= length (reduce_items g its)).
Proof.
  intros HB HR.
  destruct (Nat.le_gt_cases (length (reduce_items g its)) 1) as [HL | HL].
  - assert (HN : never_stops g its) by (split; assumption).
    destruct (C05_sr_flag_iff g t its HB HN) as [Hsr _].
    rewrite Hsr. rewrite (C11_rr_iff_no_root g t its HB HR). reflexivity.
  - assert (HK : sc_kind (scan_cell g its scan0) = KRR) by (apply (C11_rr_iff_no_root g t); auto).
    split; intros _; [right; lia | right; assumption].
Qed.

Theorem C11_conflict_flag_iff g t its :
  in_term_bucket g t its -> no_root_complete g its -> NoDup its -> dots_in_range g its ->
  (sc_sr (scan_cell g its scan0) = true \/ sc_kind (scan_cell g its scan0) = KRR <->
   has_sr_conflict g its \/ has_rr_conflict g its).
Proof.
  intros HB HR ND HD. rewrite (C11_conflict_flag_iff_count g t its HB HR).
  rewrite (two_reduces_iff_rr_conflict g t its HB ND HD). reflexivity.
Qed.

(* ================================================================== *)
(* T4: the kernel of the target state                                  *)
(* ================================================================== *)

(* [scanned g its false] is the prefix visited before the loop stops *)
Lemma scanned_all g : forall its (seen : bool),
  no_root_complete g its -> length (reduce_items g its) + (if seen then 1 else 0) <= 1 ->
  scanned g its seen = its.
Proof.
  induction its as [|i its IH]; intros seen HR HL; simpl; auto.
  pose proof (nrc_cons _ _ _ HR) as HR'.
  destruct (is_complete g i) eqn:Hc.
  - rewrite reduce_items_cons_true in HL by assumption. simpl in HL.
    specialize (HR i (or_introl eq_refl)). unfold root_complete in HR. rewrite Hc in HR. simpl in HR.
    rewrite HR. destruct seen; [lia|]. f_equal. apply IH; auto. simpl. lia.
  - rewrite reduce_items_cons_false in HL by assumption. f_equal. apply IH; auto.
Qed.

Lemma scanned_stop g i post : forall pre (seen : bool),
  no_root_complete g pre ->
  (root_complete g i = true /\ length (reduce_items g pre) + (if seen then 1 else 0) <= 1) \/
  (is_complete g i = true /\ is_root_item g i = false /\
   length (reduce_items g pre) + (if seen then 1 else 0) = 1) ->
  scanned g (pre ++ i :: post) seen = pre.
Proof.
  induction pre as [|j pre IH]; intros seen HR H.
  - simpl. destruct H as [[Hi _] | (Hc & Hi & HL)].
    + unfold root_complete in Hi. apply andb_true_iff in Hi as [-> ->]. reflexivity.
    + rewrite Hc, Hi. destruct seen; [reflexivity | simpl in HL; lia].
  - pose proof (nrc_cons _ _ _ HR) as HR'. simpl.
    destruct (is_complete g j) eqn:Hc.
    + rewrite reduce_items_cons_true in H by assumption. simpl in H.
      specialize (HR j (or_introl eq_refl)). unfold root_complete in HR. rewrite Hc in HR. simpl in HR.
      rewrite HR. destruct seen; [lia|]. f_equal. apply IH; auto. simpl. simpl in H.
      destruct H as [[A B] | (A & B & C)]; [left | right]; repeat split; auto; lia.
    + rewrite reduce_items_cons_false in H by assumption. f_equal. apply IH; auto.
Qed.

Lemma scanned_never_stops g its : never_stops g its -> scanned g its false = its.
Proof. intros [HR HL]. apply scanned_all; auto. simpl. lia. Qed.
Lemma scanned_stops_success g its pre i post :
  stops_success g its pre i post -> scanned g its false = pre.
Proof. intros (E & Hi & HR & HL). subst. apply scanned_stop; auto. left. split; auto. simpl. lia. Qed.
Lemma scanned_stops_rr g its pre i post :
  stops_rr g its pre i post -> scanned g its false = pre.
Proof.
  intros (E & Hc & Hi & HR & HL). subst. apply scanned_stop; auto. right. repeat split; auto. simpl. lia.
Qed.

(* consequently the decomposition at the stopping item is unique *)
Corollary stop_prefix_unique g its pre i post pre' i' post' :
  (stops_success g its pre i post \/ stops_rr g its pre i post) ->
  (stops_success g its pre' i' post' \/ stops_rr g its pre' i' post') ->
  pre = pre' /\ i = i' /\ post = post'.
Proof.
  intros H H'.
  assert (E : scanned g its false = pre)
    by (destruct H; [eapply scanned_stops_success | eapply scanned_stops_rr]; eassumption).
  assert (E' : scanned g its false = pre')
    by (destruct H'; [eapply scanned_stops_success | eapply scanned_stops_rr]; eassumption).
  assert (P : pre = pre') by congruence. clear E E'. subst pre'.
  assert (A : its = pre ++ i :: post) by (destruct H as [H | H]; apply H).
  assert (A' : its = pre ++ i' :: post') by (destruct H' as [H' | H']; apply H').
  rewrite A in A'. apply app_inv_head in A'. inversion A'. auto.
Qed.

(* everything the loop records, except the kind, is the summary of the visited prefix *)
Theorem scan_cell_scanned g t its :
  in_term_bucket g t its ->
  scan_cell g its scan0 =
  with_kind (sc_kind (scan_cell g its scan0)) (cell_summary g t (scanned g its false)).
Proof.
  intros HB. destruct (scan_cell_characterisation g t its HB)
    as [[H E] | [(pre & i & post & H & E) | (pre & i & post & H & E)]]; rewrite E.
  - rewrite (scanned_never_stops g its H). reflexivity.
  - rewrite (scanned_stops_success g its pre i post H). reflexivity.
  - rewrite (scanned_stops_rr g its pre i post H). reflexivity.
Qed.

(* T4: the kernel is the list of advanced shift items visited, without repetition, first occurrences in order *)
Theorem C_kernel g t its :
  in_term_bucket g t its ->
  sc_kernel (scan_cell g its scan0) = target_kernel g (scanned g its false).
Proof. intros HB. rewrite (scan_cell_scanned g t its HB). reflexivity. Qed.

Corollary C_kernel_no_stop g t its :
  in_term_bucket g t its -> never_stops g its ->
  sc_kernel (scan_cell g its scan0) = dedup_first (map advance (shift_items g its)).
Proof. intros HB HN. rewrite (C_kernel g t its HB), (scanned_never_stops g its HN). reflexivity. Qed.

Corollary C_kernel_NoDup g t its :
  in_term_bucket g t its -> NoDup (sc_kernel (scan_cell g its scan0)).
Proof. intros HB. rewrite (C_kernel g t its HB). apply dedup_first_NoDup. Qed.

Corollary C_kernel_In g t its x :
  in_term_bucket g t its ->
  (In x (sc_kernel (scan_cell g its scan0)) <->
   exists i, In i (scanned g its false) /\ is_complete g i = false /\ x = advance i).
Proof.
  intros HB. rewrite (C_kernel g t its HB). unfold target_kernel.
  rewrite dedup_first_In, in_map_iff. split.
  - intros (i & E & Hi). apply in_shift_items in Hi as [Hi Hc]. exists i. auto.
  - intros (i & Hi & Hc & E). exists i. split; auto. apply in_shift_items. auto.
Qed.

(* when the shift items visited are pairwise different, nothing is dropped *)
Corollary C_kernel_NoDup_id g t its :
  in_term_bucket g t its -> never_stops g its -> NoDup its ->
  sc_kernel (scan_cell g its scan0) = map advance (shift_items g its).
Proof.
  intros HB HN ND. rewrite (C_kernel_no_stop g t its HB HN). apply dedup_first_NoDup_id.
  apply FinFun.Injective_map_NoDup; [|apply NoDup_filter; assumption].
  intros [r1 d1 t1] [r2 d2 t2] E. unfold advance in E. simpl in E. inversion E. reflexivity.
Qed.

(* columns of nonterminals (goto) hold shift items only; the same holds there, whatever the symbol *)
Lemma scan_shift_only g t : forall its hs ker,
  (forall i, In i its -> is_complete g i = false) ->
  scan_cell g its (cell_state g t None hs ker) =
  cell_state g t None (match its with [] => hs | _ => true end)
             (fold_left add_item (map advance its) ker).
Proof.
  induction its as [|i its IH]; intros hs ker H; [reflexivity|].
  rewrite scan_step_shift_nored by (apply H; left; reflexivity).
  rewrite IH by (intros j Hj; apply H; right; exact Hj).
  simpl. destruct its; reflexivity.
Qed.

Theorem goto_cell g its :
  (forall i, In i its -> is_complete g i = false) -> its <> [] ->
  let s := scan_cell g its scan0 in
  sc_kind s = KShift /\ sc_sr s = false /\ sc_red s = None /\ sc_kernel s = dedup_first (map advance its).
Proof.
  intros H HN s. subst s. rewrite (scan0_is_cell_state g 0), scan_shift_only by assumption.
  rewrite fold_add_item_nil. destruct its; [contradiction|]. simpl. repeat split; reflexivity.
Qed.

(* ================================================================== *)
(* the entry written by transitions()                                  *)
(* ================================================================== *)

Lemma entry_flag_cell_state g t red hs ker :
  entry_flag (cell_state g t red hs ker) = sc_sr (cell_state g t red hs ker).
Proof.
  unfold entry_flag. destruct red as [r|], hs; simpl; try reflexivity.
  destruct (sr_choice g r t); reflexivity.
Qed.

(* for a reduce entry the C++ stores has_shift instead of the flag: on a cell that is the same thing *)
Theorem entry_flag_is_sr_flag g t its :
  in_term_bucket g t its ->
  entry_flag (scan_cell g its scan0) = sc_sr (scan_cell g its scan0).
Proof.
  intros HB. destruct (scan_cell_characterisation g t its HB)
    as [[H E] | [(pre & i & post & H & E) | (pre & i & post & H & E)]]; rewrite E.
  - apply entry_flag_cell_state.
  - reflexivity.
  - reflexivity.
Qed.

(* what do_transitions writes into the table for a non-empty bucket *)
Theorem do_transitions_entry g lim cur col sts tb sts' tb' its :
  bucket g (st_all (nth cur sts (mkSt [] []))) col = its ->
  its <> [] ->
  do_transitions g lim cur col sts tb = inl (sts', tb') ->
  exists arg, tb' = set_cell tb cur col
                      (mkE (entry_kind g col (sc_kind (scan_cell g its scan0))) arg
                           (entry_flag (scan_cell g its scan0))).
Proof.
  intros Eits HN. unfold do_transitions. rewrite Eits.
  destruct its as [|i0 its0]; [contradiction|].
  set (s := scan_cell g (i0 :: its0) scan0).
  unfold entry_flag, entry_kind.
  destruct (sc_kind s) eqn:K; try (intros H; inversion H; eexists; reflexivity).
  destruct (find_kernel sts (sc_kernel s) 0 None) as [idx|].
  - destruct (Nat.ltb _ _); [discriminate|].
    intros H; inversion H; eexists; reflexivity.
  - destruct (Nat.ltb (state_cap lim) (S (length sts))); [discriminate|].
    destruct (Nat.ltb _ _); [discriminate|].
    intros H; inversion H; eexists; reflexivity.
Qed.

(* the items of a term column of a state of a well-formed grammar are a term bucket *)
Theorem bucket_in_term_bucket g all t :
  (forall i, In i all -> ri_n (get_ri g (it_r i)) = length (rhs_of g i)) ->
  (forall i j, In i all -> next_sym g i = Some (NT j) -> j < nterm_count g) ->
  in_term_bucket g t (bucket g all (nterm_count g + t)).
Proof.
  intros Hn Hnt i Hi. unfold bucket in Hi. apply filter_In in Hi as [Hi Hb].
  apply Nat.eqb_eq in Hb. unfold bucket_of in Hb.
  destruct (is_complete g i) eqn:Hc.
  - left. split; auto. destruct (next_sym g i); lia.
  - right. split; auto. destruct (next_sym g i) as [[j | j]|] eqn:Hs.
    + simpl in Hb. f_equal. f_equal. lia.
    + simpl in Hb. specialize (Hnt i j Hi Hs). lia.
    + exfalso. unfold next_sym in Hs. apply nth_error_None in Hs.
      unfold is_complete in Hc. apply Nat.leb_gt in Hc. rewrite (Hn i Hi) in Hc. lia.
Qed.

(* end to end for one cell without completed root item: the entry is one the diagnostic marks as a conflict
   exactly when the cell has a conflict *)
Theorem C11_entry_conflict_iff g t its col arg :
  in_term_bucket g t its -> no_root_complete g its ->
  let s := scan_cell g its scan0 in
  (cell_conflict (mkE (entry_kind g col (sc_kind s)) arg (entry_flag s)) = true <->
   has_sr_conflict g its \/ 2 <= length (reduce_items g its)).
Proof.
  intros HB HR s. rewrite <- (C11_conflict_flag_iff_count g t its HB HR). fold s.
  unfold s at 2. rewrite (entry_flag_is_sr_flag g t its HB). fold s.
  assert (HK : sc_kind s = KRR \/
               (sc_kind s <> KRR /\ s = cell_summary g t its)).
  { subst s. destruct (scan_cell_characterisation g t its HB)
      as [[H E] | [(pre & i & post & H & E) | (pre & i & post & H & E)]].
    - right. rewrite E. split; [apply kind_cell_summary | reflexivity].
    - exfalso. eapply stops_success_has_root; eassumption.
    - left. rewrite E. reflexivity. }
  destruct HK as [K | [K E]].
  - rewrite K. unfold cell_conflict. simpl. split; auto.
  - unfold cell_conflict, entry_kind. simpl. rewrite E in *.
    unfold cell_summary, cell_state in *. simpl in *.
    destruct (first_red g its) as [r|], (any_shift g its); simpl in *;
      try (split; [discriminate | intros [H | H]; [discriminate | contradiction]]).
    + destruct (sr_choice_cases g r t) as [-> | ->]; simpl; [tauto|].
      destruct (Nat.eqb _ _); simpl; tauto.
    + destruct (Nat.eqb _ _); simpl;
        (split; [discriminate | intros [H | H]; [discriminate | contradiction]]).
Qed.

(* D12 once more, at the level of entries: a cell that stops at success is never marked, although it may
   have had an S/R conflict before, and may hide reductions after *)
Theorem success_entry_not_conflict g col arg s :
  sc_kind s = KSuccess -> cell_conflict (mkE (entry_kind g col (sc_kind s)) arg (entry_flag s)) = false.
Proof. intros K. rewrite K. reflexivity. Qed.

(* ================================================================== *)
(* T5: the conflict lines of the state diagnostic (Model/Diag.v)        *)
(* ================================================================== *)

Definition cell (g : grammar) (row : list entry) (t : nat) : entry :=
  nth (nterm_count g + t) row entry_default.

(* the line(s) written for the cell of term t *)
Definition line_of_cell (g : grammar) (items : list item) (t : nat) (e : entry) : list diag_line :=
  match e_kind e with
  | KError => []
  | KSuccess => [DlSuccess t]
  | KReduce => if e_sr e then [DlSRReduce t (r_idx_of g (e_arg e))] else [DlReduce t (r_idx_of g (e_arg e))]
  | KShift | KShiftErr => if e_sr e then [DlSRShift t (reduction_rule g items t)] else [DlShift t (e_arg e)]
  | KRR => [DlRR t]
  end.

Definition goto_lines (g : grammar) (row : list entry) : list diag_line :=
  flat_map (fun nt => let e := nth nt row entry_default in
                      if is_shift_kind (e_kind e) then [DlGoto (Some nt) (e_arg e)] else [])
           (seq 0 (nterm_count g)).

Definition line_term (l : diag_line) : option nat :=
  match l with
  | DlGoto _ _ => None
  | DlSuccess t | DlSRReduce t _ | DlSRShift t _ | DlShift t _ | DlReduce t _ | DlRR t => Some t
  end.

Lemma state_lines_eq g items row :
  state_lines g items row =
  goto_lines g row ++ flat_map (fun t => line_of_cell g items t (cell g row t)) (seq 0 (term_count g)).
Proof. reflexivity. Qed.

Lemma cell_conflict_iff e :
  cell_conflict e = true <->
  (e_sr e = true /\ (e_kind e = KReduce \/ is_shift_kind (e_kind e) = true)) \/ e_kind e = KRR.
Proof.
  unfold cell_conflict. destruct (e_kind e); simpl; split; intros H; auto;
    try discriminate; try tauto;
    try (destruct H as [[_ [H | H]] | H]; discriminate);
    try (destruct H as [[H _] | H]; [exact H | discriminate]).
Qed.

Lemma line_of_cell_conflict g items t e l :
  In l (line_of_cell g items t e) -> is_conflict_line l = cell_conflict e /\ line_term l = Some t.
Proof.
  unfold line_of_cell, cell_conflict.
  destruct (e_kind e), (e_sr e); simpl; intros H; try contradiction;
    destruct H as [<- | []]; split; reflexivity.
Qed.

Lemma line_of_cell_length g items t e :
  length (filter is_conflict_line (line_of_cell g items t e)) = if cell_conflict e then 1 else 0.
Proof.
  unfold line_of_cell, cell_conflict. destruct (e_kind e), (e_sr e); reflexivity.
Qed.

Lemma conflict_cell_line g items t e :
  cell_conflict e = true -> exists l, line_of_cell g items t e = [l].
Proof.
  unfold line_of_cell, cell_conflict. destruct (e_kind e), (e_sr e); try discriminate; eauto.
Qed.

Lemma goto_not_conflict g row l : In l (goto_lines g row) -> is_conflict_line l = false.
Proof.
  unfold goto_lines. rewrite in_flat_map. intros (nt & _ & H).
  destruct (is_shift_kind _); [|contradiction]. destruct H as [<- | []]. reflexivity.
Qed.

(* a line of the diagnostic is a conflict line exactly when it is the line of a term cell whose entry is
   reduce or shift with the S/R flag, or R/R *)
Theorem state_lines_conflict_iff g items row l :
  In l (state_lines g items row) ->
  (is_conflict_line l = true <->
   exists t, t < term_count g /\ In l (line_of_cell g items t (cell g row t)) /\
             let e := cell g row t in
             (e_sr e = true /\ (e_kind e = KReduce \/ is_shift_kind (e_kind e) = true)) \/ e_kind e = KRR).
Proof.
  rewrite state_lines_eq, in_app_iff, in_flat_map. intros [H | (t & Ht & H)].
  - rewrite (goto_not_conflict g row l H). split; [discriminate|].
    intros (t & _ & Hl & Hc). apply cell_conflict_iff in Hc.
    destruct (line_of_cell_conflict _ _ _ _ _ Hl) as [E _].
    rewrite (goto_not_conflict g row l H) in E. congruence.
  - apply in_seq in Ht. destruct (line_of_cell_conflict _ _ _ _ _ H) as [E _]. split.
    + intros Hl. exists t. split; [lia|]. split; [assumption|].
      apply cell_conflict_iff. congruence.
    + intros (t' & _ & Hl & Hc). apply cell_conflict_iff in Hc.
      destruct (line_of_cell_conflict _ _ _ _ _ Hl) as [E' _]. congruence.
Qed.

(* conversely every such cell has its conflict line *)
Theorem conflict_cell_has_line g items row t :
  t < term_count g -> cell_conflict (cell g row t) = true ->
  exists l, In l (state_lines g items row) /\ is_conflict_line l = true /\ line_term l = Some t.
Proof.
  intros Ht Hc. destruct (conflict_cell_line g items t _ Hc) as [l El].
  assert (Hl : In l (line_of_cell g items t (cell g row t))) by (rewrite El; left; reflexivity).
  exists l. split.
  - rewrite state_lines_eq, in_app_iff, in_flat_map. right. exists t. split; [apply in_seq; lia | assumption].
  - destruct (line_of_cell_conflict _ _ _ _ _ Hl) as [E1 E2]. split; congruence.
Qed.

(* and the correspondence is one to one: as many conflict lines as conflict cells *)
Theorem conflict_line_count g items row :
  length (filter is_conflict_line (state_lines g items row)) =
  length (filter (fun t => cell_conflict (cell g row t)) (seq 0 (term_count g))).
Proof.
  rewrite state_lines_eq, filter_app, app_length.
  assert (G : filter is_conflict_line (goto_lines g row) = []).
  { destruct (filter is_conflict_line (goto_lines g row)) as [|l ls] eqn:E; auto.
    assert (H : In l (filter is_conflict_line (goto_lines g row))) by (rewrite E; left; reflexivity).
    apply filter_In in H as [H1 H2]. rewrite (goto_not_conflict g row l H1) in H2. discriminate. }
  rewrite G. simpl.
  induction (seq 0 (term_count g)) as [|t ts IH]; simpl; auto.
  rewrite filter_app, app_length, IH, line_of_cell_length.
  destruct (cell_conflict (cell g row t)); reflexivity.
Qed.

(* ================================================================== *)
(* counterexamples and the recorded deviation, evaluated               *)
(* ================================================================== *)

(* S -> b | A ; A -> S   (terms: b, <eof>, <error>; nonterminals S, A, ##) *)
Definition rg12 : raw_grammar :=
  mkRG [83] [mkRT [98] 0%Z NoAssoc] [[83]; [65]]
       [mkRR [83] [RTerm [98]] None; mkRR [83] [RNterm [65]] None; mkRR [65] [RNterm [83]] None].
Definition g12 : grammar :=
  match analyze rg12 with Some g => g | None => mkG 0 0 0 0 [] [] [] [] [] [] [] [] end.

(* state 1 of the generated automaton is { ## -> S . , eof ; A -> S . , eof } : accept/reduce conflict on eof *)
Definition st12 : list item :=
  match gen g12 with inl (sts, _) => st_all (nth 1 sts (mkSt [] [])) | inr _ => [] end.
Definition row12 : list entry :=
  match gen g12 with inl (_, tb) => nth 1 tb [] | inr _ => [] end.
Definition cell12 : list item := bucket g12 st12 (nterm_count g12 + eof_idx g12).

(* D12: the cell has an R/R conflict in the sense of the specification (accept vs reduce A -> S), yet the
   scan says success with no mark, and the diagnostic of the state has no conflict line *)
Example D12_accept_reduce_hidden :
  cell12 = [mkItem 3 1 1; mkItem 2 1 1] /\
  in_term_bucket g12 (eof_idx g12) cell12 /\ NoDup cell12 /\ dots_in_range g12 cell12 /\
  has_rr_conflict g12 cell12 /\
  scan_cell g12 cell12 scan0 = with_kind KSuccess scan0 /\
  cell g12 row12 (eof_idx g12) = mkE KSuccess None false /\
  filter is_conflict_line (state_lines g12 st12 row12) = [].
Proof.
  assert (E : cell12 = [mkItem 3 1 1; mkItem 2 1 1]) by (vm_compute; reflexivity).
  split; [exact E|]. rewrite E. clear E.
  split. { intros i [<- | [<- | []]]; left; vm_compute; auto. }
  split. { repeat constructor; simpl; intuition discriminate. }
  split. { intros i [<- | [<- | []]]; vm_compute; lia. }
  split. { exists (mkItem 3 1 1), (mkItem 2 1 1). vm_compute. repeat split; auto. discriminate. }
  split; [vm_compute; reflexivity|]. split; vm_compute; reflexivity.
Qed.

(* the hypothesis "no completed root item" of C11_conflict_flag_iff cannot be dropped: on cell12 the right
   side holds and the left side does not *)
Example C11_conflict_flag_iff_needs_no_root :
  has_rr_conflict g12 cell12 /\
  ~ (sc_sr (scan_cell g12 cell12 scan0) = true \/ sc_kind (scan_cell g12 cell12 scan0) = KRR).
Proof.
  split; [apply D12_accept_reduce_hidden|].
  vm_compute. intros [H | H]; discriminate.
Qed.

(* an S/R conflict followed by the completed root item: flag set, kind success, no conflict line either.
   (A list of items, not a state of g12.) *)
Example D12_sr_then_success :
  let its := [mkItem 1 0 1; mkItem 2 1 1; mkItem 3 1 1] in
  let g := mkG 3 3 4 1 [[T 1]; [T 1]; [NT 0]; [NT 0]] (rule_infos g12) (slices g12)
               (term_prec g12) (term_assoc g12) (rule_prec g12) (rule_assoc g12) (rule_last_term g12) in
  in_term_bucket g 1 its /\ has_sr_conflict g its /\
  sc_kind (scan_cell g its scan0) = KSuccess /\ sc_sr (scan_cell g its scan0) = true /\
  cell_conflict (mkE (entry_kind g 4 (sc_kind (scan_cell g its scan0))) None
                     (entry_flag (scan_cell g its scan0))) = false.
Proof.
  intros its g. split.
  { intros i [<- | [<- | [<- | []]]]; vm_compute; auto. }
  split. { exists (mkItem 2 1 1), (mkItem 1 0 1). vm_compute. intuition. }
  vm_compute. auto.
Qed.

(* dots_in_range cannot be dropped from the statements that speak about rules instead of items:
   two different completed items of the same rule (impossible in a state) give R/R but no two rules *)
Example rr_conflict_needs_dots_in_range :
  let its := [mkItem 0 1 1; mkItem 0 2 1] in
  in_term_bucket g12 1 its /\ NoDup its /\ no_root_complete g12 its /\
  sc_kind (scan_cell g12 its scan0) = KRR /\ ~ has_rr_conflict g12 its.
Proof.
  intros its. split. { intros i [<- | [<- | []]]; left; vm_compute; auto. }
  split. { repeat constructor; simpl; intuition discriminate. }
  split. { intros i [<- | [<- | []]]; vm_compute; reflexivity. }
  split; [vm_compute; reflexivity|].
  intros (i & j & Hi & Hj & Hne). vm_compute in Hi, Hj.
  destruct Hi as [<- | [<- | []]], Hj as [<- | [<- | []]]; apply Hne; reflexivity.
Qed.

(* a worked instance of the precedence rule: E -> E + E | E * E | n with + < * both left associative.
   the stable sort keeps the order of rules(...): rule_info 0 is E + E (prec 1) and rule_info 1 is E * E (prec 2);
   terms + = 0, * = 1 *)
Definition g_arith : grammar :=
  match analyze (mkRG [69] [mkRT [43] 1%Z Ltor; mkRT [42] 2%Z Ltor; mkRT [110] 0%Z NoAssoc] [[69]]
                      [mkRR [69] [RNterm [69]; RTerm [43]; RNterm [69]] None;
                       mkRR [69] [RNterm [69]; RTerm [42]; RNterm [69]] None;
                       mkRR [69] [RTerm [110]] None])
  with Some g => g | None => mkG 0 0 0 0 [] [] [] [] [] [] [] [] end.

Example arith_choices :
  map ri_r (rule_infos g_arith) = [0; 1; 2; 3] /\
  sr_choice g_arith 0 0 = KReduce (* E+E . + : left assoc *) /\
  sr_choice g_arith 0 1 = KShift  (* E+E . * : * binds tighter *) /\
  sr_choice g_arith 1 0 = KReduce (* E*E . + *) /\
  sr_choice g_arith 1 1 = KReduce (* E*E . * : left assoc *).
Proof. vm_compute. repeat split. Qed.

(* ================================================================== *)
(* assumptions                                                         *)
(* ================================================================== *)

Print Assumptions solve_conflict_is_documented_rule.
Print Assumptions scan_cell_characterisation.
Print Assumptions C05_cell.
Print Assumptions C05_cell_one_rule.
Print Assumptions C05_no_reduce.
Print Assumptions C05_no_shift.
Print Assumptions C05_sr_flag_iff.
Print Assumptions C11_success_iff.
Print Assumptions C11_rr_iff.
Print Assumptions C11_rr_iff_no_root.
Print Assumptions C11_rr_iff_conflict.
Print Assumptions success_hides_later_items.
Print Assumptions items_after_stop_ignored.
Print Assumptions C11_conflict_flag_iff_count.
Print Assumptions C11_conflict_flag_iff.
Print Assumptions C_kernel.
Print Assumptions C_kernel_no_stop.
Print Assumptions C_kernel_In.
Print Assumptions goto_cell.
Print Assumptions entry_flag_is_sr_flag.
Print Assumptions do_transitions_entry.
Print Assumptions bucket_in_term_bucket.
Print Assumptions C11_entry_conflict_iff.
Print Assumptions state_lines_conflict_iff.
Print Assumptions conflict_cell_has_line.
Print Assumptions conflict_line_count.
Print Assumptions D12_accept_reduce_hidden.
Print Assumptions rr_conflict_needs_dots_in_range.
