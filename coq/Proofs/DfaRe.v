(* Language theory for the derivative expressions of Valid/DfaValid.v: semantics, correctness of the smart
   constructors, of nullable / deriv / is_empty, and of the translation from Model.Dfa.regex. *)
Require Import Ctpg.Base.Prelude Ctpg.Model.Driver Ctpg.Model.Dfa Ctpg.Spec.Lang Ctpg.Valid.DfaValid.

(* ---------- decidable equalities are sound ---------- *)
Lemma list_eqb_bool_eq : forall a b, list_eqb Bool.eqb a b = true -> a = b.
Proof.
  induction a as [|x a IH]; destruct b as [|y b]; cbn; intros H; try discriminate; auto.
  apply andb_true_iff in H. destruct H as [H1 H2].
  apply Bool.eqb_prop in H1. subst. f_equal. auto.
Qed.

Lemma list_eqb_bool_refl : forall a, list_eqb Bool.eqb a a = true.
Proof.
  induction a as [|x a IH]; cbn; auto. rewrite IH. destruct x; reflexivity.
Qed.

Lemma re_eqb_eq : forall a b, re_eqb a b = true -> a = b.
Proof.
  induction a; destruct b; cbn; intros H; try discriminate; auto.
  - apply Nat.eqb_eq in H. subst. reflexivity.
  - apply andb_true_iff in H. destruct H as [H1 H2]. f_equal; auto.
  - apply andb_true_iff in H. destruct H as [H1 H2]. f_equal; auto.
  - f_equal; auto.
Qed.

Lemma vec_eqb_eq : forall a b, vec_eqb a b = true -> a = b.
Proof.
  unfold vec_eqb. induction a as [|x a IH]; destruct b as [|y b]; cbn; intros H; try discriminate; auto.
  apply andb_true_iff in H. destruct H as [H1 H2].
  apply re_eqb_eq in H1. subst. f_equal. auto.
Qed.

Lemma vec_mem_In : forall v l, vec_mem v l = true -> In v l.
Proof.
  unfold vec_mem. intros v l H. apply existsb_exists in H. destruct H as (w & Hin & He).
  apply vec_eqb_eq in He. subst. assumption.
Qed.

(* ---------- the dictionary ---------- *)
Lemma find_idx_some : forall s D i k, find_idx s D i = Some k -> i <= k /\ nth (k - i) D [] = s.
Proof.
  induction D as [|x D IH]; cbn; intros i k H; try discriminate.
  destruct (list_eqb Bool.eqb s x) eqn:E.
  - inversion H; subst. rewrite Nat.sub_diag. split; auto. symmetry. apply list_eqb_bool_eq; auto.
  - apply IH in H. destruct H as [H1 H2]. split; [lia|].
    replace (k - i) with (S (k - S i)) by lia. exact H2.
Qed.

Lemma find_idx_in : forall s D i, In s D -> exists k, find_idx s D i = Some k.
Proof.
  induction D as [|x D IH]; cbn; intros i H; [contradiction|].
  destruct (list_eqb Bool.eqb s x) eqn:E; eauto.
  destruct H as [H|H]; auto.
  subst. rewrite list_eqb_bool_refl in E. discriminate.
Qed.

Section Lang.
Variable D : list charset.

Inductive lang : re -> list nat -> Prop :=
| LEps : lang Eps []
| LChr k c : nth c (cset D k) false = true -> lang (Chr k) [c]
| LCat a b u v : lang a u -> lang b v -> lang (Cat a b) (u ++ v)
| LAltL a b u : lang a u -> lang (Alt a b) u
| LAltR a b u : lang b u -> lang (Alt a b) u
| LStar0 a : lang (Star a) []
| LStarS a u v : lang a u -> lang (Star a) v -> lang (Star a) (u ++ v).

(* inversion principles as equivalences *)
Lemma lang_Emp : forall s, lang Emp s <-> False.
Proof. split; intros H; [inversion H | contradiction]. Qed.

Lemma lang_Eps : forall s, lang Eps s <-> s = [].
Proof. split; intros H; [inversion H; auto | subst; constructor]. Qed.

Lemma lang_Chr : forall k s, lang (Chr k) s <-> exists c, s = [c] /\ nth c (cset D k) false = true.
Proof.
  split; intros H.
  - inversion H; subst. eauto.
  - destruct H as (c & -> & H). constructor; auto.
Qed.

Lemma lang_Cat : forall a b s, lang (Cat a b) s <-> exists u v, s = u ++ v /\ lang a u /\ lang b v.
Proof.
  split; intros H.
  - inversion H; subst. eauto.
  - destruct H as (u & v & -> & Ha & Hb). constructor; auto.
Qed.

Lemma lang_Alt : forall a b s, lang (Alt a b) s <-> lang a s \/ lang b s.
Proof.
  split; intros H.
  - inversion H; subst; auto.
  - destruct H; [apply LAltL | apply LAltR]; auto.
Qed.

Lemma star_induction : forall a (P : list nat -> Prop),
  P [] ->
  (forall u v, lang a u -> lang (Star a) v -> P v -> P (u ++ v)) ->
  forall s, lang (Star a) s -> P s.
Proof.
  intros a P H0 HS s H. remember (Star a) as r eqn:E.
  induction H; try discriminate; inversion E; subst; auto.
Qed.

Lemma star_app : forall a u v, lang (Star a) u -> lang (Star a) v -> lang (Star a) (u ++ v).
Proof.
  intros a u v Hu Hv. revert u Hu.
  apply (star_induction a (fun u => lang (Star a) (u ++ v))); auto.
  intros u1 u2 H1 H2 IH. rewrite <- app_assoc. constructor; auto.
Qed.

Lemma star_one : forall a u, lang a u -> lang (Star a) u.
Proof.
  intros a u H. rewrite <- (app_nil_r u). constructor; auto. constructor.
Qed.

Lemma star_mono : forall a b, (forall s, lang a s -> lang b s) -> forall s, lang (Star a) s -> lang (Star b) s.
Proof.
  intros a b Hab. apply star_induction.
  - constructor.
  - intros u v Hu _ IH. constructor; auto.
Qed.

Lemma star_cons : forall a c s, lang (Star a) (c :: s) ->
  exists u v, s = u ++ v /\ lang a (c :: u) /\ lang (Star a) v.
Proof.
  intros a.
  assert (G : forall s', lang (Star a) s' -> forall c s, s' = c :: s ->
                exists u v, s = u ++ v /\ lang a (c :: u) /\ lang (Star a) v).
  { apply (star_induction a (fun s' => forall c s, s' = c :: s ->
                exists u v, s = u ++ v /\ lang a (c :: u) /\ lang (Star a) v)).
    - intros; discriminate.
    - intros u v Hu Hv IH c s E.
      destruct u as [|x u]; cbn in E.
      + apply IH; auto.
      + inversion E; subst. exists u, v. auto. }
  intros c s H. eapply G; eauto.
Qed.

(* ---------- smart constructors ---------- *)
Lemma cat_assoc : forall a b c s, lang (Cat a (Cat b c)) s <-> lang (Cat (Cat a b) c) s.
Proof.
  intros a b c s. rewrite !lang_Cat. split.
  - intros (u & v & -> & Ha & Hbc). apply lang_Cat in Hbc. destruct Hbc as (v1 & v2 & -> & Hb & Hc).
    exists (u ++ v1), v2. rewrite app_assoc. repeat split; auto. constructor; auto.
  - intros (u & v & -> & Hab & Hc). apply lang_Cat in Hab. destruct Hab as (u1 & u2 & -> & Ha & Hb).
    exists u1, (u2 ++ v). rewrite app_assoc. repeat split; auto. constructor; auto.
Qed.

Lemma cat_congr_r : forall a b b', (forall s, lang b s <-> lang b' s) -> forall s, lang (Cat a b) s <-> lang (Cat a b') s.
Proof.
  intros a b b' H s. rewrite !lang_Cat.
  split; intros (u & v & -> & Ha & Hb); exists u, v; repeat split; auto; apply H; auto.
Qed.

Lemma cat_app_ok : forall a b s, lang (cat_app a b) s <-> lang (Cat a b) s.
Proof.
  induction a; intros b0 s; cbn [cat_app]; try reflexivity.
  rewrite <- cat_assoc. apply cat_congr_r. intros s'. apply IHa2.
Qed.

Lemma cat_Emp_l : forall b s, lang Emp s <-> lang (Cat Emp b) s.
Proof.
  intros. rewrite lang_Cat, lang_Emp. split; [contradiction|].
  intros (u & v & _ & H & _). apply lang_Emp in H. exact H.
Qed.
Lemma cat_Emp_r : forall a s, lang Emp s <-> lang (Cat a Emp) s.
Proof.
  intros. rewrite lang_Cat, lang_Emp. split; [contradiction|].
  intros (u & v & _ & _ & H). apply lang_Emp in H. exact H.
Qed.
Lemma cat_Eps_l : forall b s, lang b s <-> lang (Cat Eps b) s.
Proof.
  intros. rewrite lang_Cat. split.
  - intros H. exists [], s. repeat split; auto. constructor.
  - intros (u & v & -> & Hu & Hv). apply lang_Eps in Hu. subst. exact Hv.
Qed.
Lemma cat_Eps_r : forall a s, lang a s <-> lang (Cat a Eps) s.
Proof.
  intros. rewrite lang_Cat. split.
  - intros H. exists s, []. rewrite app_nil_r. repeat split; auto. constructor.
  - intros (u & v & -> & Hu & Hv). apply lang_Eps in Hv. subst. rewrite app_nil_r. exact Hu.
Qed.

Lemma mk_cat_ok : forall a b s, lang (mk_cat a b) s <-> lang (Cat a b) s.
Proof.
  intros a b s.
  destruct a; destruct b; cbn [mk_cat];
    first [ apply cat_Emp_l | apply cat_Emp_r | apply cat_Eps_l | apply cat_Eps_r | apply cat_app_ok ].
Qed.

Lemma alt_mem_ok : forall x c s, alt_mem x c = true -> lang x s -> lang c s.
Proof.
  induction c; cbn [alt_mem]; intros s H Hx;
    try (apply re_eqb_eq in H; subst; exact Hx).
  apply orb_true_iff in H. destruct H as [H|H].
  - apply re_eqb_eq in H. subst. apply LAltL; auto.
  - apply LAltR. auto.
Qed.

Lemma alt_end_ok : forall c x s, lang (alt_end c x) s <-> lang c s \/ lang x s.
Proof.
  induction c; intros x s; cbn [alt_end]; try (apply lang_Alt).
  - rewrite lang_Emp. tauto.
  - rewrite !lang_Alt, IHc2. tauto.
Qed.

Lemma alt_snoc_ok : forall c x s, lang (alt_snoc c x) s <-> lang c s \/ lang x s.
Proof.
  intros c x s.
  assert (G : lang (if alt_mem x c then c else alt_end c x) s <-> lang c s \/ lang x s).
  { destruct (alt_mem x c) eqn:E.
    - split; auto. intros [H|H]; auto. eapply alt_mem_ok; eauto.
    - apply alt_end_ok. }
  destruct x; cbn [alt_snoc]; try exact G.
  rewrite lang_Emp. tauto.
Qed.

Lemma alt_add_ok : forall b a s, lang (alt_add a b) s <-> lang a s \/ lang b s.
Proof.
  induction b; intros a0 s; cbn [alt_add]; try apply alt_snoc_ok.
  rewrite IHb2, alt_snoc_ok, lang_Alt. tauto.
Qed.

Lemma mk_alt_ok : forall a b s, lang (mk_alt a b) s <-> lang (Alt a b) s.
Proof.
  intros. unfold mk_alt. rewrite alt_add_ok, lang_Alt. tauto.
Qed.

Lemma star_star : forall a s, lang (Star (Star a)) s -> lang (Star a) s.
Proof.
  intros a. apply star_induction.
  - constructor.
  - intros u v Hu _ IH. apply star_app; auto.
Qed.

Lemma mk_star_ok : forall a s, lang (mk_star a) s <-> lang (Star a) s.
Proof.
  intros a s. destruct a; cbn [mk_star]; try reflexivity.
  - (* Emp *) split.
    + intros H. apply lang_Eps in H. subst. constructor.
    + revert s. apply star_induction; [constructor|].
      intros u v Hu _ _. apply lang_Emp in Hu. contradiction.
  - (* Eps *) split.
    + intros H. apply lang_Eps in H. subst. constructor.
    + revert s. apply star_induction; [constructor|].
      intros u v Hu _ IH. apply lang_Eps in Hu. subst. exact IH.
  - (* Star *) split.
    + apply star_one.
    + apply star_star.
Qed.

Lemma norm_ok : forall r s, lang (norm r) s <-> lang r s.
Proof.
  induction r; intros s; cbn [norm]; try reflexivity.
  - rewrite mk_cat_ok, !lang_Cat.
    split; intros (u & v & -> & Ha & Hb); exists u, v; repeat split; auto;
      try (apply IHr1; auto); try (apply IHr2; auto).
  - rewrite mk_alt_ok, !lang_Alt, IHr1, IHr2. tauto.
  - rewrite mk_star_ok. split; apply star_mono; intros s'; apply IHr.
Qed.

(* ---------- nullable, deriv, is_empty ---------- *)
Lemma nullable_ok : forall r, nullable r = true <-> lang r [].
Proof.
  induction r; cbn [nullable].
  - rewrite lang_Emp. split; [discriminate | contradiction].
  - rewrite lang_Eps. tauto.
  - rewrite lang_Chr. split; [discriminate|]. intros (c & E & _). discriminate.
  - rewrite andb_true_iff, IHr1, IHr2, lang_Cat. split.
    + intros [H1 H2]. exists [], []. auto.
    + intros (u & v & E & H1 & H2). symmetry in E. apply app_eq_nil in E. destruct E; subst. auto.
  - rewrite orb_true_iff, IHr1, IHr2, lang_Alt. tauto.
  - split; auto. intros _. constructor.
Qed.

Lemma deriv_ok : forall c r s, lang (deriv D c r) s <-> lang r (c :: s).
Proof.
  intros c. induction r; intros s; cbn [deriv].
  - rewrite !lang_Emp. tauto.
  - rewrite lang_Emp, lang_Eps. split; [contradiction | discriminate].
  - rewrite lang_Chr. destruct (nth c (cset D k) false) eqn:E.
    + rewrite lang_Eps. split.
      * intros ->. eauto.
      * intros (c' & E' & _). inversion E'; auto.
    + rewrite lang_Emp. split; [contradiction|].
      intros (c' & E' & H). inversion E'; subst. congruence.
  - assert (G : lang (mk_cat (deriv D c r1) r2) s \/ (nullable r1 = true /\ lang (deriv D c r2) s)
                <-> lang (Cat r1 r2) (c :: s)).
    { rewrite mk_cat_ok, !lang_Cat. split.
      - intros [(u & v & -> & H1 & H2) | [Hn H2]].
        + exists (c :: u), v. repeat split; auto. apply IHr1; auto.
        + exists [], (c :: s). repeat split; auto.
          * apply nullable_ok; auto.
          * apply IHr2; auto.
      - intros (u & v & E & H1 & H2). destruct u as [|x u]; cbn in E.
        + subst v. right. split; [apply nullable_ok; auto | apply IHr2; auto].
        + inversion E; subst. left. exists u, v. repeat split; auto. apply IHr1; auto. }
    destruct (nullable r1) eqn:En.
    + rewrite mk_alt_ok, lang_Alt, <- G. tauto.
    + rewrite <- G. split; auto. intros [H|[H _]]; [auto | discriminate].
  - rewrite mk_alt_ok, !lang_Alt, IHr1, IHr2. tauto.
  - rewrite mk_cat_ok, lang_Cat. split.
    + intros (u & v & -> & H1 & H2). apply IHr in H1.
      change (c :: u ++ v) with ((c :: u) ++ v). constructor; auto.
    + intros H. apply star_cons in H. destruct H as (u & v & -> & H1 & H2).
      exists u, v. repeat split; auto. apply IHr; auto.
Qed.

Lemma forallb_negb_nth : forall l c, forallb negb l = true -> nth c l false = false.
Proof.
  induction l as [|x l IH]; intros c H; destruct c; cbn in *; auto;
    apply andb_true_iff in H; destruct H as [H1 H2]; auto.
  destruct x; auto; discriminate.
Qed.

Lemma is_empty_ok : forall r s, is_empty D r = true -> ~ lang r s.
Proof.
  induction r; intros s; cbn [is_empty]; intros H Hl; try discriminate.
  - apply lang_Emp in Hl; auto.
  - apply lang_Chr in Hl. destruct Hl as (c & _ & Hc).
    rewrite (forallb_negb_nth _ c H) in Hc. discriminate.
  - apply lang_Cat in Hl. destruct Hl as (u & v & _ & H1 & H2).
    apply orb_true_iff in H. destruct H as [H|H]; [eapply IHr1 | eapply IHr2]; eauto.
  - apply andb_true_iff in H. destruct H as [Ha Hb].
    apply lang_Alt in Hl. destruct Hl; [eapply IHr1 | eapply IHr2]; eauto.
Qed.

(* ---------- the translation preserves the language ---------- *)
Lemma rep_re_ok : forall (a : regex) e, (forall s, lang e s -> matches a s) ->
  forall n s, lang (rep_re e n) s -> matches (RRep a n) s.
Proof.
  intros a e H. induction n; intros s Hl; cbn [rep_re] in Hl.
  - apply lang_Eps in Hl. subst. constructor.
  - apply lang_Cat in Hl. destruct Hl as (u & v & -> & H1 & H2). constructor; auto.
Qed.

Lemma star_re_ok : forall (a : regex) e, (forall s, lang e s -> matches a s) ->
  forall s, lang (Star e) s -> matches (RStar a) s.
Proof.
  intros a e H. apply star_induction.
  - constructor.
  - intros u v Hu _ IH. constructor; auto.
Qed.

Lemma re_of_complete : forall r s, matches r s -> incl (charsets_of r) D -> lang (re_of D r) s.
Proof.
  induction 1; cbn [re_of charsets_of]; intros Hi.
  - destruct (find_idx_in s D 0 (Hi s (or_introl eq_refl))) as (k & Hk).
    rewrite Hk. apply find_idx_some in Hk. destruct Hk as [_ Hk]. rewrite Nat.sub_0_r in Hk.
    constructor. unfold cset. rewrite Hk. assumption.
  - constructor.
  - constructor; auto.
  - constructor; auto; apply (IHmatches2 Hi).
  - apply LAltR. constructor.
  - apply LAltL. auto.
  - constructor.
  - change (lang (Cat (re_of D r) (rep_re (re_of D r) n)) (u ++ v)). constructor; auto.
  - apply incl_app_inv in Hi. destruct Hi. constructor; auto.
  - apply incl_app_inv in Hi. destruct Hi. apply LAltL. auto.
  - apply incl_app_inv in Hi. destruct Hi. apply LAltR. auto.
Qed.

Lemma re_of_sound : forall r s, lang (re_of D r) s -> matches r s.
Proof.
  induction r; intros s0 H; cbn [re_of] in H.
  - destruct (find_idx s D 0) as [k|] eqn:Hk; [| apply lang_Emp in H; contradiction].
    apply find_idx_some in Hk. destruct Hk as [_ Hk]. rewrite Nat.sub_0_r in Hk.
    apply lang_Chr in H. destruct H as (c & -> & Hc). unfold cset in Hc. rewrite Hk in Hc.
    constructor; auto.
  - eapply star_re_ok; eauto.
  - apply lang_Cat in H. destruct H as (u & v & -> & H1 & H2). constructor; auto.
    eapply star_re_ok; eauto.
  - apply lang_Alt in H. destruct H as [H|H].
    + apply MOptOne; auto.
    + apply lang_Eps in H. subst. constructor.
  - eapply rep_re_ok; eauto.
  - apply lang_Cat in H. destruct H as (u & v & -> & H1 & H2). constructor; auto.
  - apply lang_Alt in H. destruct H; [apply MAltL | apply MAltR]; auto.
Qed.

Lemma re_of_ok : forall r s, incl (charsets_of r) D -> (matches r s <-> lang (norm (re_of D r)) s).
Proof.
  intros r s Hi. rewrite norm_ok. split.
  - intros H. apply re_of_complete; auto.
  - apply re_of_sound.
Qed.

End Lang.
