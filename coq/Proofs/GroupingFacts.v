(* Prop-level reading of the validator for resolved tables (Valid/LRResolved.v), and the facts about it that the
   grouping theorem (Proofs/Grouping.v) uses. *)
Require Import Ctpg.Base.Prelude Ctpg.Model.Grammar Ctpg.Model.LRGen Ctpg.Model.Driver
               Ctpg.Spec.Cfg Ctpg.Spec.Conflict Ctpg.Valid.LRValid Ctpg.Valid.LRResolved
               Ctpg.Proofs.LRReflect Ctpg.Proofs.LRValidFacts.

Lemma sr_choice_two g r t : sr_choice g r t = KReduce \/ sr_choice g r t = KShift.
Proof. unfold sr_choice. destruct (Z.compare _ _); auto. destruct (rule_assoc_of g r); auto. Qed.

Section Reading.
  Variable g : grammar.
  Variable sts : list items.
  Variable tbl : table.
  Variable ne : bset.
  Variable nf : list bset.

  Notation items_of := (state_items sts).

  Lemma in_red_items s t i :
    In i (red_items g sts s t) <->
    In i (items_of s) /\ is_complete g i = true /\ it_r i <> root_rule_idx g /\ it_t i = t.
  Proof.
    unfold red_items, is_red_item. rewrite filter_In, !andb_true_iff, negb_true_iff, Nat.eqb_neq, Nat.eqb_eq. tauto.
  Qed.

  Lemma in_sh_items s t i :
    In i (sh_items g sts s t) <->
    In i (items_of s) /\ is_complete g i = false /\ next_sym g i = Some (T t).
  Proof.
    unfold sh_items, is_sh_item. rewrite filter_In, andb_true_iff, negb_true_iff. split.
    - intros (Hi & Hc & Hn). split; [assumption|]. split; [assumption|].
      destruct (next_sym g i) as [[t'|b]|]; try discriminate. apply Nat.eqb_eq in Hn. subst. reflexivity.
    - intros (Hi & Hc & Hn). rewrite Hn, Nat.eqb_refl. auto.
  Qed.

  (* the transition of s on x exists and its target holds the advanced item of every item of l *)
  Definition has_target (s : nat) (x : symbol) (l : items) : Prop :=
    exists s', goto_target g tbl s x = Some s' /\ s' < length sts /\
               forall i, In i l -> In (advance i) (items_of s').
  (* the cell (s, t) is the reduction by rule_info r *)
  Definition is_reduce (s t r : nat) : Prop :=
    e_kind (cell_at tbl s (col_of_term g t)) = KReduce /\ e_arg (cell_at tbl s (col_of_term g t)) = Some r.

  Lemma target_has_iff s x l : target_has g sts tbl s x l = true <-> has_target s x l.
  Proof.
    unfold target_has, has_target. destruct (goto_target g tbl s x) as [s'|].
    - rewrite andb_true_iff, Nat.ltb_lt, forallb_forall. split.
      + intros [H1 H2]. exists s'. split; [reflexivity|]. split; [assumption|].
        intros i Hi. apply mem_item_In. apply H2. assumption.
      + intros (s1 & E & H1 & H2). inversion E; subst s1. split; [assumption|].
        intros i Hi. apply mem_item_In. apply H2. assumption.
    - split; [discriminate|]. intros (s1 & E & _). discriminate.
  Qed.

  Lemma reduce_is_iff s t r : reduce_is g tbl s t r = true <-> is_reduce s t r.
  Proof.
    unfold reduce_is, is_reduce. rewrite andb_true_iff, kind_eqb_eq.
    destruct (e_arg (cell_at tbl s (col_of_term g t))) as [r'|].
    - rewrite Nat.eqb_eq. split; intros [H1 H2]; (split; [assumption|]); congruence.
    - split; intros [H1 H2]; discriminate.
  Qed.

  (* what [cell_resolved] demands of the cell (s, t), with R = [red_items s t] and Sh = [sh_items s t] *)
  Definition cell_spec (s t : nat) : Prop :=
    let R := red_items g sts s t in
    let Sh := sh_items g sts s t in
    (* no reduce/reduce *)
    (forall i j, In i R -> In j R -> it_r i = it_r j) /\
    (* only shifts *)
    (R = [] -> Sh <> [] -> has_target s (T t) Sh) /\
    (* only a reduction *)
    (forall i, In i R -> Sh = [] -> is_reduce s t (it_r i)) /\
    (* shift/reduce: the documented rule decides *)
    (forall i, In i R -> Sh <> [] ->
       (sr_choice g (it_r i) t = KReduce /\ is_reduce s t (it_r i)) \/
       (sr_choice g (it_r i) t = KShift /\ has_target s (T t) Sh)).

  Theorem cell_resolved_iff s t : cell_resolved g sts tbl s t = true <-> cell_spec s t.
  Proof.
    unfold cell_resolved, cell_spec.
    destruct (red_items g sts s t) as [|i R'] eqn:ER; destruct (sh_items g sts s t) as [|j Sh'] eqn:ES.
    - split; [|reflexivity]. intros _.
      split; [intros ? ? []|]. split; [intros _ E; contradiction E; reflexivity|].
      split; [intros ? []|intros ? []].
    - rewrite target_has_iff. split.
      + intros H. split; [intros ? ? []|]. split; [intros _ _; exact H|].
        split; [intros ? []|intros ? []].
      + intros (_ & H & _). apply H; [reflexivity|discriminate].
    - rewrite andb_true_iff, forallb_forall, reduce_is_iff. split.
      + intros [Hall Hr].
        assert (forall x, In x (i :: R') -> it_r x = it_r i) as Hsame.
        { intros x [<-|Hx]; [reflexivity|]. apply Nat.eqb_eq. apply Hall. assumption. }
        split; [intros x y Hx Hy; rewrite (Hsame x Hx), (Hsame y Hy); reflexivity|].
        split; [intros E; discriminate E|].
        split; [intros x Hx _; rewrite (Hsame x Hx); exact Hr|].
        intros x Hx Hn. contradiction Hn. reflexivity.
      + intros (Hrr & _ & Hred & _). split.
        * intros x Hx. apply Nat.eqb_eq. apply Hrr; [right; assumption|left; reflexivity].
        * apply Hred; [left; reflexivity|reflexivity].
    - rewrite andb_true_iff, forallb_forall. split.
      + intros [Hall Hr].
        assert (forall x, In x (i :: R') -> it_r x = it_r i) as Hsame.
        { intros x [<-|Hx]; [reflexivity|]. apply Nat.eqb_eq. apply Hall. assumption. }
        split; [intros x y Hx Hy; rewrite (Hsame x Hx), (Hsame y Hy); reflexivity|].
        split; [intros E; discriminate E|].
        split; [intros x Hx E; discriminate E|].
        intros x Hx _. rewrite (Hsame x Hx).
        destruct (sr_choice_two g (it_r i) t) as [E|E]; rewrite E in Hr.
        * left. split; [assumption|]. apply reduce_is_iff. assumption.
        * right. split; [assumption|]. apply target_has_iff. assumption.
      + intros (Hrr & _ & _ & Hsr). split.
        * intros x Hx. apply Nat.eqb_eq. apply Hrr; [right; assumption|left; reflexivity].
        * destruct (Hsr i (or_introl eq_refl)) as [[E H]|[E H]]; [discriminate| |]; rewrite E.
          -- apply reduce_is_iff. assumption.
          -- apply target_has_iff. assumption.
  Qed.

  (* ---------- the other per-state checks ---------- *)
  Lemma nt_goto_ok_iff s : nt_goto_ok g sts tbl s = true <->
    forall i b, In i (items_of s) -> is_complete g i = false -> next_sym g i = Some (NT b) -> has_target s (NT b) [i].
  Proof.
    unfold nt_goto_ok. rewrite forallb_forall. split.
    - intros H i b Hi Hc Hn. specialize (H i Hi). rewrite Hc, Hn in H. apply target_has_iff. assumption.
    - intros H i Hi. destruct (is_complete g i) eqn:Hc; [reflexivity|].
      destruct (next_sym g i) as [[t|b]|] eqn:Hn; try reflexivity. apply target_has_iff. apply H; assumption.
  Qed.

  Lemma accept_ok_iff s : accept_ok g sts tbl s = true <->
    forall i, In i (items_of s) -> is_complete g i = true -> it_r i = root_rule_idx g ->
              e_kind (cell_at tbl s (col_of_term g (it_t i))) = KSuccess /\ it_t i = eof_idx g.
  Proof.
    unfold accept_ok. rewrite forallb_forall. split.
    - intros H i Hi Hc Hr. specialize (H i Hi). rewrite Hc, Hr, Nat.eqb_refl in H. cbn [andb] in H.
      apply andb_true_iff in H. destruct H as [H1 H2]. apply kind_eqb_eq in H1. apply Nat.eqb_eq in H2. auto.
    - intros H i Hi. destruct (is_complete g i) eqn:Hc; [|reflexivity]. cbn [andb].
      destruct (Nat.eqb (it_r i) (root_rule_idx g)) eqn:Hr; [|reflexivity]. apply Nat.eqb_eq in Hr.
      destruct (H i Hi Hc Hr) as [H1 H2]. rewrite H1, H2, Nat.eqb_refl. reflexivity.
  Qed.

  (* the exact reading of the part of [resolved_ok] that is new with respect to [table_sound_ok] *)
  Theorem resolved_ok_iff : resolved_ok g sts tbl ne nf = true <->
    table_sound_ok g sts tbl = true /\ tables_closed g ne nf = true /\
    forall s, s < length sts ->
      closure_ok g sts ne nf s = true /\
      (forall i b, In i (items_of s) -> is_complete g i = false -> next_sym g i = Some (NT b) -> has_target s (NT b) [i]) /\
      (forall i, In i (items_of s) -> is_complete g i = true -> it_r i = root_rule_idx g ->
                 e_kind (cell_at tbl s (col_of_term g (it_t i))) = KSuccess /\ it_t i = eof_idx g) /\
      (forall t, t < term_count g -> cell_spec s t).
  Proof.
    unfold resolved_ok. rewrite !andb_true_iff, forallb_seq0. split.
    - intros [[H1 H2] H3]. split; [assumption|]. split; [assumption|]. intros s Hs. specialize (H3 s Hs).
      unfold state_resolved in H3. rewrite !andb_true_iff, forallb_seq0 in H3. destruct H3 as [[[A B] C] D].
      split; [assumption|]. split; [apply nt_goto_ok_iff; assumption|]. split; [apply accept_ok_iff; assumption|].
      intros t Ht. apply cell_resolved_iff. apply D. assumption.
    - intros (H1 & H2 & H3). split; [split; assumption|]. intros s Hs. destruct (H3 s Hs) as (A & B & C & D).
      unfold state_resolved. rewrite !andb_true_iff, forallb_seq0. split; [split; [split|]|].
      + assumption.
      + apply nt_goto_ok_iff. assumption.
      + apply accept_ok_iff. assumption.
      + intros t Ht. apply cell_resolved_iff. apply D. assumption.
  Qed.

  (* ---------- the whole check ---------- *)
  Record resolved_facts : Prop := {
    rf_sound : sound_facts g sts tbl;
    rf_distinct : forall i j, i < rule_count g -> j < rule_count g ->
                  ri_r (get_ri g i) = ri_r (get_ri g j) -> i = j;
    rf_tables : tables_closed g ne nf = true;
    rf_closure : forall s i b, s < length sts -> In i (items_of s) ->
        next_sym g i = Some (NT b) -> is_complete g i = false ->
        forall k t', k < snd (nth b (slices g) (0, 0)) -> t' < term_count g ->
          bset_test (first_tail g ne nf (skipn (S (it_d i)) (rhs_of g i)) (it_t i)) t' = true ->
          In (mkItem (fst (nth b (slices g) (0, 0)) + k) 0 t') (items_of s);
    rf_goto_nt : forall s i b, s < length sts -> In i (items_of s) ->
        next_sym g i = Some (NT b) -> is_complete g i = false -> has_target s (NT b) [i];
    rf_accept : forall s i, s < length sts -> In i (items_of s) -> is_complete g i = true ->
        it_r i = root_rule_idx g ->
        e_kind (cell_at tbl s (col_of_term g (it_t i))) = KSuccess /\ it_t i = eof_idx g;
    rf_cell : forall s t, s < length sts -> t < term_count g -> cell_spec s t
  }.

  Lemma distinct_r_facts : grammar_wf g = true ->
    forall i j, i < rule_count g -> j < rule_count g -> ri_r (get_ri g i) = ri_r (get_ri g j) -> i = j.
  Proof.
    intros Hwf i j Hi Hj E. unfold grammar_wf in Hwf. andb_split.
    match goal with H : distinct_r g = true |- _ => rename H into Hd end.
    unfold distinct_r in Hd. rewrite forallb_seq0 in Hd. specialize (Hd i Hi).
    rewrite forallb_seq0 in Hd. specialize (Hd j Hj). apply orb_true_iff in Hd. destruct Hd as [Hd|Hd].
    - apply Nat.eqb_eq. assumption.
    - apply negb_true_iff in Hd. apply Nat.eqb_neq in Hd. contradiction.
  Qed.

  Theorem resolved_facts_of : resolved_ok g sts tbl ne nf = true -> resolved_facts.
  Proof.
    intros H. unfold resolved_ok in H. apply andb_true_iff in H. destruct H as [H Hst].
    apply andb_true_iff in H. destruct H as [Hs Htc]. rewrite forallb_seq0 in Hst.
    assert (forall s, s < length sts ->
              closure_ok g sts ne nf s = true /\ nt_goto_ok g sts tbl s = true /\ accept_ok g sts tbl s = true /\
              forall t, t < term_count g -> cell_resolved g sts tbl s t = true) as Hst'.
    { intros s Hlt. specialize (Hst s Hlt). unfold state_resolved in Hst. andb_split.
      repeat split; try assumption.
      match goal with H : forallb _ (seq 0 _) = true |- _ => rewrite forallb_seq0 in H; exact H end. }
    clear Hst. constructor.
    - apply sound_facts_of. assumption.
    - apply distinct_r_facts. unfold table_sound_ok in Hs. andb_split. assumption.
    - assumption.
    - (* closure *)
      intros s i b Hlt Hi Hnx Hic k t' Hk Ht' Hb. destruct (Hst' s Hlt) as (Hc & _).
      unfold closure_ok in Hc. rewrite forallb_forall in Hc. specialize (Hc i Hi).
      rewrite Hnx, Hic in Hc. destruct (nth b (slices g) (0, 0)) as [st n]. cbn [fst snd] in *.
      rewrite forallb_seq0 in Hc. specialize (Hc k Hk). rewrite forallb_seq0 in Hc. specialize (Hc t' Ht').
      rewrite Hb in Hc. cbn in Hc. apply mem_item_In. assumption.
    - (* goto on nonterminals *)
      intros s i b Hlt Hi Hnx Hic. destruct (Hst' s Hlt) as (_ & Hc & _).
      unfold nt_goto_ok in Hc. rewrite forallb_forall in Hc. specialize (Hc i Hi). rewrite Hic, Hnx in Hc.
      apply target_has_iff. assumption.
    - (* accept *)
      intros s i Hlt Hi Hic Hr. destruct (Hst' s Hlt) as (_ & _ & Hc & _).
      unfold accept_ok in Hc. rewrite forallb_forall in Hc. specialize (Hc i Hi).
      rewrite Hic, Hr, Nat.eqb_refl in Hc. cbn [andb] in Hc. apply andb_true_iff in Hc. destruct Hc as [H1 H2].
      apply kind_eqb_eq in H1. apply Nat.eqb_eq in H2. auto.
    - (* cells *)
      intros s t Hlt Ht. destruct (Hst' s Hlt) as (_ & _ & _ & Hc). apply cell_resolved_iff. apply Hc. assumption.
  Qed.
End Reading.

Theorem validate_resolved_facts g sts tbl :
  validate_resolved g sts tbl = true ->
  resolved_facts g sts tbl (nterm_empty g) (nterm_first g (nterm_empty g)).
Proof. apply resolved_facts_of. Qed.

(* the resolved validator is at least as strong as the sound one *)
Theorem validate_resolved_sound g sts tbl : validate_resolved g sts tbl = true -> validate_sound g sts tbl = true.
Proof.
  unfold validate_resolved, resolved_ok, validate_sound. intros H. andb_split. assumption.
Qed.

Print Assumptions cell_resolved_iff.
Print Assumptions resolved_ok_iff.
Print Assumptions resolved_facts_of.
