(* (P5) the decoders (regex_char, string_view_to_subset) agree with the scanner: on every lexeme the scanner delivers as
   term 1 they read inside the lexeme only, and the character units they step over are the scanner's. *)
Require Import Ctpg.Base.Prelude Ctpg.Model.Grammar Ctpg.Model.LRGen Ctpg.Model.Driver Ctpg.Model.Dfa
               Ctpg.Model.RegexFront Ctpg.Proofs.DriverBasics Ctpg.Proofs.PatternLex.

(* ---------- the decoders with checked reads: None / DOver = a read outside the string view ---------- *)
(* the tests are made in the order of the source: sv.size() is compared before sv[2] / sv[3] is read *)
Definition regex_char_c (sv : list nat) : option (nat * nat) :=
  match nth_error sv 0 with
  | None => None
  | Some c0 =>
      if Nat.eqb c0 92 then
        match nth_error sv 1 with
        | None => None
        | Some c1 =>
            if Nat.eqb c1 120 then
              if Nat.eqb (length sv) 2 then Some (0, 2) else
              match nth_error sv 2 with
              | None => None
              | Some c2 =>
                  if negb (is_hex_digit c2) then Some (0, 2) else
                  if Nat.eqb (length sv) 3 then Some (hex_digits_to_char 48 c2, 3) else
                  match nth_error sv 3 with
                  | None => None
                  | Some c3 =>
                      if negb (is_hex_digit c3) then Some (hex_digits_to_char 48 c2, 3)
                      else Some (hex_digits_to_char c2 c3, 4)
                  end
              end
            else Some (c1, 2)
        end
      else Some (c0, 1)
  end.

(* result of the set loop: the set and the index of the ']' it stopped at, an out-of-range read, or fuel exhausted *)
Inductive dres := DOk (cs : charset) (stop : nat) | DOver | DFuel.

Fixpoint subset_items_c (fuel : nat) (sv : list nat) (i : nat) (cs : charset) : dres :=
  match fuel with
  | 0 => DFuel
  | S f =>
      match nth_error sv i with
      | None => DOver
      | Some c =>
          if Nat.eqb c 93 then DOk cs i else
          match regex_char_c (skipn i sv) with
          | None => DOver
          | Some (c1, len) =>
              let i1 := i + len in
              match nth_error sv i1 with
              | None => DOver
              | Some d =>
                  if Nat.eqb d 45 then
                    let i2 := S i1 in
                    match regex_char_c (skipn i2 sv) with
                    | None => DOver
                    | Some (c2, _) => subset_items_c f sv i2 (cs_add_range cs c1 c2)
                    end
                  else subset_items_c f sv i1 (update cs c1 true)
              end
          end
      end
  end.

Definition string_view_to_subset_c (sv : list nat) : option charset :=
  match nth_error sv 0 with
  | None => None
  | Some c0 =>
      if Nat.eqb c0 46 then Some (cs_flip cs_empty)
      else if Nat.eqb c0 91 then
        match nth_error sv 1 with
        | None => None
        | Some c1 =>
            let flip := Nat.eqb c1 94 in
            match subset_items_c (S (length sv)) sv (if flip then 2 else 1) cs_empty with
            | DOk cs _ => Some (if flip then cs_flip cs else cs)
            | _ => None
            end
        end
      else match regex_char_c sv with
           | Some (c, _) => Some (update cs_empty c true)
           | None => None
           end
  end.

(* ---------- whenever the checked variants succeed, the model's unchecked ones compute the same ---------- *)
Lemma nth_error_nth0 (sv : list nat) k c d : nth_error sv k = Some c -> nth k sv d = c.
Proof. intros H. apply nth_error_nth. exact H. Qed.

Lemma regex_char_c_eq sv r : regex_char_c sv = Some r -> regex_char sv = r.
Proof.
  unfold regex_char_c, regex_char.
  destruct (nth_error sv 0) as [c0|] eqn:E0; [|discriminate]. rewrite (nth_error_nth0 _ _ _ 0 E0).
  destruct (Nat.eqb c0 92); [|intros H; inversion H; reflexivity].
  destruct (nth_error sv 1) as [c1|] eqn:E1; [|discriminate]. rewrite (nth_error_nth0 _ _ _ 0 E1).
  destruct (Nat.eqb c1 120); [|intros H; inversion H; reflexivity].
  destruct (Nat.eqb (length sv) 2); cbn [orb]; [intros H; inversion H; reflexivity|].
  destruct (nth_error sv 2) as [c2|] eqn:E2; [|discriminate]. rewrite (nth_error_nth0 _ _ _ 0 E2).
  destruct (negb (is_hex_digit c2)); [intros H; inversion H; reflexivity|].
  destruct (Nat.eqb (length sv) 3); cbn [orb]; [intros H; inversion H; reflexivity|].
  destruct (nth_error sv 3) as [c3|] eqn:E3; [|discriminate]. rewrite (nth_error_nth0 _ _ _ 0 E3).
  destruct (negb (is_hex_digit c3)); intros H; inversion H; reflexivity.
Qed.

Lemma regex_char_c_len sv c l : regex_char_c sv = Some (c, l) -> 1 <= l <= 4 /\ l <= length sv.
Proof.
  unfold regex_char_c.
  destruct (nth_error sv 0) as [c0|] eqn:E0; [|discriminate].
  assert (H0 : 0 < length sv) by (apply nth_error_Some; congruence).
  destruct (Nat.eqb c0 92); [|intros H; inversion H; lia].
  destruct (nth_error sv 1) as [c1|] eqn:E1; [|discriminate].
  assert (H1 : 1 < length sv) by (apply nth_error_Some; congruence).
  destruct (Nat.eqb c1 120); [|intros H; inversion H; lia].
  destruct (Nat.eqb (length sv) 2); [intros H; inversion H; lia|].
  destruct (nth_error sv 2) as [c2|] eqn:E2; [|discriminate].
  assert (H2 : 2 < length sv) by (apply nth_error_Some; congruence).
  destruct (negb (is_hex_digit c2)); [intros H; inversion H; lia|].
  destruct (Nat.eqb (length sv) 3); [intros H; inversion H; lia|].
  destruct (nth_error sv 3) as [c3|] eqn:E3; [|discriminate].
  assert (H3 : 3 < length sv) by (apply nth_error_Some; congruence).
  destruct (negb (is_hex_digit c3)); intros H; inversion H; lia.
Qed.

Lemma subset_items_c_eq f : forall sv i cs cs' stop,
  subset_items_c f sv i cs = DOk cs' stop -> subset_items f sv i cs = cs'.
Proof.
  induction f as [|f IH]; intros sv i cs cs' stop; cbn [subset_items_c subset_items]; [discriminate|].
  destruct (nth_error sv i) as [c|] eqn:Ei; [|discriminate]. rewrite (nth_error_nth0 _ _ _ 93 Ei).
  destruct (Nat.eqb c 93); [intros H; inversion H; reflexivity|].
  destruct (regex_char_c (skipn i sv)) as [[c1 len]|] eqn:E1; [|discriminate].
  rewrite (regex_char_c_eq _ _ E1).
  destruct (nth_error sv (i + len)) as [d|] eqn:Ed; [|discriminate]. rewrite (nth_error_nth0 _ _ _ 0 Ed).
  destruct (Nat.eqb d 45); [|apply IH].
  destruct (regex_char_c (skipn (S (i + len)) sv)) as [[c2 l2]|] eqn:E2; [|discriminate].
  rewrite (regex_char_c_eq _ _ E2). apply IH.
Qed.

Theorem string_view_to_subset_c_eq sv cs : string_view_to_subset_c sv = Some cs -> string_view_to_subset sv = cs.
Proof.
  unfold string_view_to_subset_c, string_view_to_subset.
  destruct (nth_error sv 0) as [c0|] eqn:E0; [|discriminate]. rewrite (nth_error_nth0 _ _ _ 0 E0).
  destruct (Nat.eqb c0 46); [intros H; inversion H; reflexivity|].
  destruct (Nat.eqb c0 91).
  - destruct (nth_error sv 1) as [c1|] eqn:E1; [|discriminate]. rewrite (nth_error_nth0 _ _ _ 0 E1).
    destruct (subset_items_c (S (length sv)) sv (if Nat.eqb c1 94 then 2 else 1) cs_empty) as [cs' stop| |] eqn:Es;
      try discriminate.
    rewrite (subset_items_c_eq _ _ _ _ _ _ Es). intros H; inversion H; reflexivity.
  - destruct (regex_char_c sv) as [[c l]|] eqn:Ec; [|discriminate]. rewrite (regex_char_c_eq _ _ Ec).
    intros H; inversion H; reflexivity.
Qed.

(* ---------- string views into the pattern ---------- *)
Lemma nth_error_firstn_lt {A} (l : list A) : forall m k, k < m -> nth_error (firstn m l) k = nth_error l k.
Proof.
  induction l as [|x l IH]; intros m k Hk; [destruct m; reflexivity|].
  destruct m as [|m]; [lia|]. destruct k as [|k]; [reflexivity|]. cbn. apply IH. lia.
Qed.

Lemma nth_error_skipn_add {A} (l : list A) : forall a k, nth_error (skipn a l) k = nth_error l (a + k).
Proof.
  induction l as [|x l IH]; intros a k; [destruct a, k; reflexivity|].
  destruct a as [|a]; [reflexivity|]. cbn. apply IH.
Qed.

(* ---------- the positions the set loop visits: starts of decoder characters up to the closing bracket ---------- *)
Inductive useg (sv : list nat) : nat -> Prop :=
| UsEnd j : nth_error sv j = Some 93 -> S j = length sv -> useg sv j
| UsStep j c ch ul : nth_error sv j = Some c -> c <> 93 -> regex_char_c (skipn j sv) = Some (ch, ul) ->
                     useg sv (j + ul) -> useg sv j.

Lemma useg_read sv j : useg sv j -> exists d, nth_error sv j = Some d.
Proof. intros [j' H1 H2|j' c ch ul H1 H2 H3 H4]; eauto. Qed.

Lemma regex_char_c_plain sv c : nth_error sv 0 = Some c -> c <> 92 -> regex_char_c sv = Some (c, 1).
Proof. intros H Hc. unfold regex_char_c. rewrite H. destruct (Nat.eqb_spec c 92); [contradiction|reflexivity]. Qed.

Lemma useg_char sv j : useg sv j -> exists ch ul, regex_char_c (skipn j sv) = Some (ch, ul).
Proof.
  intros Hu. inversion Hu as [j' H1 H2|j' c ch ul H1 H2 H3 H4]; subst j'; [|eauto].
  exists 93, 1. apply regex_char_c_plain; [|lia]. rewrite nth_error_skipn_add, Nat.add_0_r. exact H1.
Qed.

Lemma useg_dash sv j : useg sv j -> nth_error sv j = Some 45 -> useg sv (S j).
Proof.
  intros Hu Hd. inversion Hu as [j' H1 H2|j' c ch ul H1 H2 H3 H4]; subst j'; [congruence|].
  rewrite (regex_char_c_plain (skipn j sv) 45) in H3.
  - inversion H3; subst. rewrite Nat.add_1_r in H4. exact H4.
  - rewrite nth_error_skipn_add, Nat.add_0_r. exact Hd.
  - lia.
Qed.

(* on a string view segmented that way the loop reads in range, does not run out of fuel, and stops at the last byte *)
Lemma subset_items_c_useg sv f : forall j cs, useg sv j -> length sv - j < f ->
  exists cs', subset_items_c f sv j cs = DOk cs' (length sv - 1).
Proof.
  induction f as [|f IH]; intros j cs Hu Hf; [lia|]. cbn [subset_items_c].
  destruct Hu as [j H1 H2|j c ch ul H1 H2 H3 H4].
  - rewrite H1, Nat.eqb_refl. exists cs. f_equal. lia.
  - rewrite H1. destruct (Nat.eqb_spec c 93); [contradiction|]. rewrite H3.
    pose proof (regex_char_c_len _ _ _ H3) as Hl.
    destruct (useg_read _ _ H4) as (d & Hd). rewrite Hd.
    assert (Hlt : j + ul < length sv) by (apply nth_error_Some; congruence).
    destruct (Nat.eqb_spec d 45) as [->|Hne].
    + pose proof (useg_dash _ _ H4 Hd) as H5. destruct (useg_char _ _ H5) as (c2 & l2 & Hc2). rewrite Hc2.
      destruct (useg_read _ _ H5) as (d2 & Hd2).
      assert (Hlt2 : S (j + ul) < length sv) by (apply nth_error_Some; congruence).
      apply IH; [assumption|lia].
    + apply IH; [assumption|lia].
Qed.


Section View.
  Variable p : list nat.
  Notation E := (length p).
  Notation pr := (pr p).

  (* the m bytes of p from a *)
  Definition view (a m : nat) : list nat := firstn m (skipn a p).

  Lemma view_length a m : a + m <= E -> length (view a m) = m.
  Proof. intros H. unfold view. rewrite firstn_length, skipn_length. lia. Qed.

  Lemma view_nth_error a m k : k < m -> a + m <= E -> nth_error (view a m) k = Some (pr (a + k)).
  Proof.
    intros Hk H. unfold view, PatternLex.pr. rewrite nth_error_firstn_lt by exact Hk.
    rewrite nth_error_skipn_add. apply nth_error_nth'. lia.
  Qed.

  Lemma view_skipn a m j : skipn j (view a m) = view (a + j) (m - j).
  Proof. unfold view. rewrite skipn_firstn_comm, skipn_add. reflexivity. Qed.

  (* ---------- a unit of the scanner is a character of the decoder, with the same length ---------- *)
  Lemma unit_regex_char a l m : unit_at p a l -> l <= m -> a + m <= E ->
    exists c, regex_char_c (view a m) = Some (c, l).
  Proof.
    intros Hu Hl Hm. unfold regex_char_c.
    assert (Hv : forall k, k < m -> nth_error (view a m) k = Some (pr (a + k))) by (intros; apply view_nth_error; lia).
    rewrite (view_length a m Hm).
    destruct Hu as [H1 H2 H3|H1 H2 H3 H4|l' H1 H2 H3 H4].
    - rewrite Hv by lia. rewrite Nat.add_0_r. destruct (Nat.eqb_spec (pr a) 92); [contradiction|]. eauto.
    - rewrite Hv by lia. rewrite Nat.add_0_r, H1, Nat.eqb_refl.
      rewrite Hv by lia. rewrite Nat.add_1_r. destruct (Nat.eqb_spec (pr (S a)) 120); [contradiction|]. eauto.
    - pose proof (xlen_bounds _ _ _ H4) as Hb.
      rewrite Hv by lia. rewrite Nat.add_0_r, H1, Nat.eqb_refl.
      rewrite Hv by lia. rewrite Nat.add_1_r, H3, Nat.eqb_refl.
      destruct H4 as [(-> & H4)|[(-> & H4 & H5 & H6)|(-> & H4 & H5 & H6)]].
      + destruct (Nat.eqb_spec m 2); [eauto|]. rewrite Hv by lia.
        destruct H4 as [H4|[H4 H5]]; [lia|]. rewrite H5. cbn [negb]. eauto.
      + destruct (Nat.eqb_spec m 2); [lia|]. rewrite Hv by lia. rewrite H5. cbn [negb].
        destruct (Nat.eqb_spec m 3); [eauto|]. rewrite Hv by lia.
        destruct H6 as [H6|[H6 H7]]; [lia|]. rewrite H7. cbn [negb]. eauto.
      + destruct (Nat.eqb_spec m 2); [lia|]. rewrite Hv by lia. rewrite H5. cbn [negb].
        destruct (Nat.eqb_spec m 3); [lia|]. rewrite Hv by lia. rewrite H6. cbn [negb]. eauto.
  Qed.

  (* ---------- the scanner's set body is segmented into decoder characters ---------- *)
  Lemma useg_unit i n a l : unit_at p a l -> pr a <> 93 -> i <= a -> a + l <= i + n -> i + n <= E ->
    useg (view i n) (a + l - i) -> useg (view i n) (a - i).
  Proof.
    intros Hu H93 Hi Hl Hn Hnext. pose proof (unit_at_bounds _ _ _ Hu) as Hb.
    destruct (unit_regex_char a l (n - (a - i)) Hu ltac:(lia) ltac:(lia)) as (ch & Hch).
    apply UsStep with (c := pr a) (ch := ch) (ul := l).
    - rewrite view_nth_error by lia. f_equal. f_equal. lia.
    - exact H93.
    - rewrite view_skipn. replace (i + (a - i)) with a by lia. exact Hch.
    - replace (a - i + l) with (a + l - i) by lia. exact Hnext.
  Qed.

  Lemma items_useg i n a k : items_to p a k -> i <= a -> n = S k - i -> useg (view i n) (a - i).
  Proof.
    induction 1 as [a H1 H2|a il k H1 H2 H3 H4 IH]; intros Hi Hn.
    - apply UsEnd.
      + rewrite view_nth_error by lia. rewrite <- H2. f_equal. f_equal. lia.
      + rewrite view_length by lia. lia.
    - pose proof (items_to_bounds _ _ _ H4) as Hb.
      pose proof (match_range_item_inv p a ltac:(lia)) as Hc. rewrite H3 in Hc.
      specialize (IH ltac:(lia) Hn).
      inversion Hc as [|l1 Hu Hnd|l1 rl Hu H45 Hlt H93 Hu2]; subst il.
      + apply (useg_unit i n a l1); auto; lia.
      + pose proof (unit_at_bounds _ _ _ Hu) as Hb1. pose proof (unit_at_bounds _ _ _ Hu2) as Hb2.
        apply (useg_unit i n a l1); auto; try lia.
        assert (Hdash : unit_at p (a + l1) 1).
        { apply UPlain; [lia|rewrite H45; lia|rewrite H45; reflexivity]. }
        replace (a + l1 - i) with ((a + l1) - i) by lia.
        apply (useg_unit i n (a + l1) 1); auto; try lia.
        replace (a + l1 + 1 - i) with (S (a + l1) - i) by lia.
        apply (useg_unit i n (S (a + l1)) rl); auto; try lia.
        replace (S (a + l1) + rl - i) with (a + (l1 + 1 + rl) - i) by lia. exact IH.
  Qed.

  Lemma set_hd_cases i : (pr (S i) = 94 /\ set_hd p i = 2) \/ (pr (S i) <> 94 /\ set_hd p i = 1).
  Proof. unfold set_hd. destruct (Nat.eqb_spec (PatternLex.pr p (S i)) 94); auto. Qed.

  (* the lexeme of a term-1 token, as the string view handed to string_view_to_subset *)
  Definition lexeme (i len : nat) : list nat := slice_of p i (i + len).

  Lemma lexeme_view i len : lexeme i len = view i len.
  Proof. unfold lexeme, view, slice_of. f_equal. lia. Qed.

  (* a set lexeme: the loop starts behind "[" or "[^", reads inside the lexeme only, and the ']' it stops at is the
     lexeme's last byte *)
  Theorem set_decoder_in_range i len : lex_at p i = Tok 1 len -> pr i = 91 ->
    exists cs, subset_items_c (S len) (lexeme i len) (set_hd p i) cs_empty = DOk cs (len - 1) /\
               subset_items (S len) (lexeme i len) (set_hd p i) cs_empty = cs /\
               nth_error (lexeme i len) (len - 1) = Some 93 /\ length (lexeme i len) = len.
  Proof.
    intros H H91. rewrite lexeme_view. pose proof (lex_at_in_range _ _ _ _ H) as (Hl1 & Hl2 & _).
    apply lex_at_tok1 in H. destruct H as [l' Ha Hb|k Ha Hb Hc|Ha Hb Hc Hd]; try congruence.
    pose proof (items_to_bounds _ _ _ Hc) as Hb'.
    assert (Hs : 1 <= set_hd p i <= 2) by (destruct (set_hd_cases i) as [[_ ->]|[_ ->]]; lia).
    pose proof (items_useg i (S k - i) _ _ Hc ltac:(lia) eq_refl) as Hu.
    replace (i + set_hd p i - i) with (set_hd p i) in Hu by lia.
    destruct (subset_items_c_useg (view i (S k - i)) (S (S k - i)) (set_hd p i) cs_empty Hu) as (cs & Hcs).
    { rewrite view_length by lia. lia. }
    rewrite view_length in Hcs by lia. exists cs. split; [exact Hcs|]. split; [apply (subset_items_c_eq _ _ _ _ _ _ Hcs)|].
    split; [|apply view_length; lia].
    rewrite view_nth_error by lia. f_equal. replace (i + (S k - i - 1)) with k by lia. tauto.
  Qed.

  (* every term-1 lexeme: no read outside the lexeme, and the checked decoder computes the model's set *)
  Theorem decoder_in_range i len : lex_at p i = Tok 1 len ->
    string_view_to_subset_c (lexeme i len) = Some (string_view_to_subset (lexeme i len)).
  Proof.
    intros H.
    assert (Hex : exists cs, string_view_to_subset_c (lexeme i len) = Some cs).
    { pose proof (lex_at_in_range _ _ _ _ H) as (Hl1 & Hl2 & _).
      pose proof (lex_at_tok1 _ _ _ H) as Hp.
      unfold string_view_to_subset_c.
      assert (H0 : nth_error (lexeme i len) 0 = Some (pr i)).
      { rewrite lexeme_view, view_nth_error by lia. f_equal. f_equal. lia. }
      rewrite H0. destruct (Nat.eqb_spec (pr i) 46) as [H46|H46]; [eauto|].
      destruct (Nat.eqb_spec (pr i) 91) as [H91|H91].
      - destruct (set_decoder_in_range i len H H91) as (cs & Hcs & _ & _ & Hlen).
        pose proof (lexeme_set_closed _ _ _ _ H H91) as (_ & H2 & _).
        assert (H1 : nth_error (lexeme i len) 1 = Some (pr (S i))).
        { rewrite lexeme_view, view_nth_error by lia. f_equal. f_equal. lia. }
        rewrite H1, Hlen.
        replace (if Nat.eqb (pr (S i)) 94 then 2 else 1) with (set_hd p i) by reflexivity.
        rewrite Hcs. eauto.
      - assert (Hu : unit_at p i len).
        { destruct Hp as [l' Ha Hb|k Ha Hb Hc|Ha Hb Hc Hd]; [assumption|congruence|apply UPlain; assumption]. }
        rewrite lexeme_view. destruct (unit_regex_char i len len Hu (Nat.le_refl _) Hl2) as (c & Hc). rewrite Hc. eauto. }
    destruct Hex as (cs & Hcs). rewrite Hcs. f_equal. symmetry. apply string_view_to_subset_c_eq. exact Hcs.
  Qed.

  (* ---------- unit by unit: the decoder's character lengths are the scanner's ---------- *)
  (* an escape the scanner measured with match_escaped has that length for regex_char, whatever string view
     (of at least that length, inside the pattern) it is read through *)
  Theorem escaped_len_agrees a l m : a <= E -> match_escaped p a 0 = LOk true l -> l <> 0 -> l <= m -> a + m <= E ->
    regex_char_c (view a m) = Some (regex_char (view a m)) /\ snd (regex_char (view a m)) = l.
  Proof.
    intros Ha He Hl Hm HE. pose proof (esc_unit p a Ha) as Hu. rewrite He in Hu.
    destruct (Nat.eqb_spec l 0); [contradiction|]. destruct Hu as [_ Hu].
    destruct (unit_regex_char a l m Hu Hm HE) as (c & Hc). rewrite Hc, (regex_char_c_eq _ _ Hc). auto.
  Qed.

  (* no escape (match_escaped leaves the length 0): one byte, itself *)
  Theorem plain_len_agrees a m : a <= E -> match_escaped p a 0 = LOk true 0 -> 1 <= m -> a + m <= E ->
    regex_char_c (view a m) = Some (pr a, 1) /\ regex_char (view a m) = (pr a, 1).
  Proof.
    intros Ha He Hm HE. pose proof (esc_unit p a Ha) as Hu. rewrite He in Hu. cbn [Nat.eqb] in Hu.
    assert (Hc : regex_char_c (view a m) = Some (pr a, 1)).
    { apply regex_char_c_plain; [|exact Hu]. rewrite view_nth_error by lia. now rewrite Nat.add_0_r. }
    split; [exact Hc|]. apply regex_char_c_eq. exact Hc.
  Qed.

  (* ---------- item by item ---------- *)
  (* one item of the scanner inside a set lexeme view, not directly followed by '-': the decoder is at the item's end
     after one iteration (single character) or two (range: the end character is decoded a second time, see below) *)
  Theorem item_boundary_agrees i n a il k cs :
    i <= a -> n = S k - i -> a < E -> pr a <> 93 -> match_range_item p a = LOk true il -> items_to p (a + il) k ->
    pr (a + il) <> 45 ->
    exists iters cs', 1 <= iters <= 2 /\
      forall f, subset_items_c (iters + f) (view i n) (a - i) cs = subset_items_c f (view i n) (a + il - i) cs'.
  Proof.
    intros Hi Hn HaE H93 Hit Hits Hnd.
    pose proof (items_to_bounds _ _ _ Hits) as Hb.
    pose proof (match_range_item_inv p a ltac:(lia)) as Hc. rewrite Hit in Hc.
    assert (Hrd : forall x, i <= x -> x <= k -> nth_error (view i n) (x - i) = Some (pr x)).
    { intros x H1 H2. rewrite view_nth_error by lia. f_equal. f_equal. lia. }
    assert (Hch : forall x l, unit_at p x l -> i <= x -> x + l <= k ->
                    exists c, regex_char_c (skipn (x - i) (view i n)) = Some (c, l)).
    { intros x l Hu H1 H2. rewrite view_skipn. replace (i + (x - i)) with x by lia.
      apply unit_regex_char; [exact Hu|lia|lia]. }
    inversion Hc as [|l1 Hu Hnd'|l1 rl Hu H45 Hlt H93' Hu2]; subst il.
    - destruct (Hch a l1 Hu Hi ltac:(lia)) as (c1 & Hc1).
      exists 1, (update cs c1 true). split; [lia|]. intros f. cbn [Nat.add subset_items_c].
      rewrite (Hrd a) by lia. destruct (Nat.eqb_spec (pr a) 93); [contradiction|]. rewrite Hc1.
      replace (a - i + l1) with (a + l1 - i) by lia. rewrite (Hrd (a + l1)) by lia.
      destruct (Nat.eqb_spec (pr (a + l1)) 45); [contradiction|]. reflexivity.
    - pose proof (unit_at_bounds _ _ _ Hu) as Hb1. pose proof (unit_at_bounds _ _ _ Hu2) as Hb2.
      destruct (Hch a l1 Hu Hi ltac:(lia)) as (c1 & Hc1).
      destruct (Hch (S (a + l1)) rl Hu2 ltac:(lia) ltac:(lia)) as (c2 & Hc2).
      exists 2, (update (cs_add_range cs c1 c2) c2 true). split; [lia|]. intros f. cbn [Nat.add subset_items_c].
      rewrite (Hrd a) by lia. destruct (Nat.eqb_spec (pr a) 93); [contradiction|]. rewrite Hc1.
      replace (a - i + l1) with (a + l1 - i) by lia. rewrite (Hrd (a + l1)) by lia. rewrite H45, Nat.eqb_refl.
      replace (S (a + l1 - i)) with (S (a + l1) - i) by lia. rewrite Hc2.
      rewrite (Hrd (S (a + l1))) by lia. destruct (Nat.eqb_spec (pr (S (a + l1))) 93); [contradiction|].
      replace (S (a + l1 - i + rl)) with (a + (l1 + 1 + rl) - i) by lia. rewrite (Hrd (a + (l1 + 1 + rl))) by lia.
      destruct (Nat.eqb_spec (pr (a + (l1 + 1 + rl))) 45); [contradiction|]. reflexivity.
  Qed.
End View.

(* the decoder applied by the term functor of the pattern parse: the lexeme of a term-1 token the driver shifts *)
Theorem term1_decoder_in_range pat start c rest v sp len :
  skipn start pat = c :: rest -> snd (regex_lexer v sp (c :: rest)) = Some (1, len) ->
  string_view_to_subset_c (slice_of pat start (start + len)) = Some (string_view_to_subset (slice_of pat start (start + len))).
Proof.
  intros Hsk Hl. apply regex_lexer_inv in Hl. pose proof (decoder_in_range (c :: rest) 0 len Hl) as H.
  unfold lexeme, slice_of in *. cbn [Nat.add skipn] in H. rewrite Nat.sub_0_r in H.
  replace (start + len - start) with len by lia. rewrite Hsk. exact H.
Qed.

(* ---------- the quirks, stated ---------- *)
(* (Q1) in a range the decoder continues AT the end character, not behind it: the end character is decoded a second
   time as a single character (or as the start of a further range when a '-' follows, see Q3) *)
Lemma range_end_decoded_twice f sv j c c1 l c' c2 l2 d cs :
  nth_error sv j = Some c -> c <> 93 -> regex_char_c (skipn j sv) = Some (c1, l) ->
  nth_error sv (j + l) = Some 45 ->
  nth_error sv (S (j + l)) = Some c' -> c' <> 93 -> regex_char_c (skipn (S (j + l)) sv) = Some (c2, l2) ->
  nth_error sv (S (j + l) + l2) = Some d -> d <> 45 ->
  subset_items_c (S (S f)) sv j cs = subset_items_c f sv (S (j + l) + l2) (update (cs_add_range cs c1 c2) c2 true).
Proof.
  intros H1 H2 H3 H4 H5 H6 H7 H8 H9. cbn [subset_items_c].
  rewrite H1. destruct (Nat.eqb_spec c 93); [contradiction|]. rewrite H3, H4, Nat.eqb_refl, H7.
  rewrite H5. destruct (Nat.eqb_spec c' 93); [contradiction|]. rewrite H8.
  destruct (Nat.eqb_spec d 45); [contradiction|]. reflexivity.
Qed.

(* (Q2) a reversed range adds nothing as a range; only its end character gets into the set *)
Lemma cs_add_range_reversed cs c1 c2 : c2 < c1 -> cs_add_range cs c1 c2 = cs.
Proof. intros H. unfold cs_add_range. replace (S c2 - c1) with 0 by lia. reflexivity. Qed.

Lemma reversed_range_is_end_char f sv j c c1 l c' c2 l2 d cs :
  nth_error sv j = Some c -> c <> 93 -> regex_char_c (skipn j sv) = Some (c1, l) ->
  nth_error sv (j + l) = Some 45 ->
  nth_error sv (S (j + l)) = Some c' -> c' <> 93 -> regex_char_c (skipn (S (j + l)) sv) = Some (c2, l2) ->
  nth_error sv (S (j + l) + l2) = Some d -> d <> 45 -> c2 < c1 ->
  subset_items_c (S (S f)) sv j cs = subset_items_c f sv (S (j + l) + l2) (update cs c2 true).
Proof.
  intros H1 H2 H3 H4 H5 H6 H7 H8 H9 Hlt.
  rewrite (range_end_decoded_twice f sv j c c1 l c' c2 l2 d cs) by assumption.
  now rewrite cs_add_range_reversed.
Qed.

Definition cs_members (cs : charset) : list nat := filter (fun c => nth c cs false) (seq 0 256).

(* "[b-a]" is scanned as one term-1 token and denotes {a}; "[a-b]" denotes {a, b} *)
Example reversed_range_sample :
  lex_at [91; 98; 45; 97; 93] 0 = Tok 1 5 /\
  cs_members (string_view_to_subset [91; 98; 45; 97; 93]) = [97] /\
  cs_members (string_view_to_subset [91; 97; 45; 98; 93]) = [97; 98].
Proof. vm_compute. repeat split. Qed.

(* (Q3) \x without hex digits denotes byte 0 *)
Lemma regex_char_x_nohex rest :
  rest = [] \/ is_hex_digit (hd 0 rest) = false -> regex_char (92 :: 120 :: rest) = (0, 2).
Proof.
  intros H. unfold regex_char. cbn [nth Nat.eqb length].
  destruct H as [->|H]; [reflexivity|]. destruct rest as [|c2 rest]; [reflexivity|]. cbn [hd] in H.
  cbn [nth length]. rewrite H. cbn [negb]. now rewrite orb_true_r.
Qed.

Example x_nohex_sample :
  lex_at [92; 120] 0 = Tok 1 2 /\ cs_members (string_view_to_subset [92; 120]) = [0] /\
  lex_at [92; 120; 103] 0 = Tok 1 2 /\
  cs_members (string_view_to_subset [91; 92; 120; 93]) = [0] /\
  cs_members (string_view_to_subset [92; 120; 52]) = [4] /\ cs_members (string_view_to_subset [92; 120; 52; 49]) = [65].
Proof. vm_compute. repeat split. Qed.

(* (Q4) COUNTEREXAMPLE to "the decoder's item boundaries coincide with the scanner's item by item":
   in "[a-b-c]" the scanner sees the items  a-b , - , c  (boundaries 1, 4, 5, closing bracket at 6) and accepts;
   the decoder, standing on the 'b' after the first range, takes the following '-' for a range operator: it visits
   1, 3, 5, 6 and the set is {a, b, c}: the literal '-' the scanner accepted is not in it.  (Both end on the closing
   bracket, and every read is inside the lexeme: set_decoder_in_range.)  The same with "[a-b-]": the scanner's last
   item is a literal '-', the decoder builds the (empty, reversed) range b-']' instead. *)
Example dash_after_range_sample :
  let p := [91; 97; 45; 98; 45; 99; 93] in
  lex_at p 0 = Tok 1 7 /\
  match_range_item p 1 = LOk true 3 /\ match_range_item p 4 = LOk true 1 /\ match_range_item p 5 = LOk true 1 /\
  (forall f cs, subset_items_c (S f) p 1 cs = subset_items_c f p 3 (cs_add_range cs 97 98)) /\
  (forall f cs, subset_items_c (S f) p 3 cs = subset_items_c f p 5 (cs_add_range cs 98 99)) /\
  cs_members (string_view_to_subset p) = [97; 98; 99] /\
  lex_at [91; 97; 45; 98; 45; 93] 0 = Tok 1 6 /\
  cs_members (string_view_to_subset [91; 97; 45; 98; 45; 93]) = [97; 98].
Proof. cbv zeta. repeat split; try (vm_compute; reflexivity); intros; reflexivity. Qed.

Print Assumptions decoder_in_range.
Print Assumptions set_decoder_in_range.
Print Assumptions term1_decoder_in_range.
Print Assumptions escaped_len_agrees.
Print Assumptions item_boundary_agrees.
Print Assumptions range_end_decoded_twice.
Print Assumptions reversed_range_is_end_char.
Print Assumptions regex_char_x_nohex.
