(* Sanity for Proofs/GenTermChecks.v: on concrete grammars the hypotheses hold by computation, and the facts that
   Proofs/TermViable.v checks by running the validator follow from the general theorems. *)
Require Import Ctpg.Base.Prelude Ctpg.Model.Grammar Ctpg.Model.LRGen Ctpg.Model.Driver
               Ctpg.Spec.Cfg Ctpg.Spec.LRSpec
               Ctpg.Valid.LRValid Ctpg.Valid.LRProductive
               Ctpg.Proofs.LRReflect Ctpg.Proofs.LRValidFacts Ctpg.Proofs.LRSound
               Ctpg.Proofs.GenWf Ctpg.Proofs.GenCorrect
               Ctpg.Proofs.ReportViable Ctpg.Proofs.TermViable Ctpg.Proofs.GroupingExamples
               Ctpg.Proofs.GenTermChecks.
Require Ctpg.Proofs.LRValidCex Ctpg.Proofs.ReportCex.

(* all hypotheses of gen_decides_language, for the default limits *)
Definition decides_hyps (g : grammar) : bool :=
  grammar_wf g && grammar_wf_extra g && productiveb g &&
  match gen g with
  | inl (sts, tbl) => conflict_free g (length sts) tbl && accept_clean g sts && no_error_symbol g tbl
  | inr _ => false
  end.

Example examples_hyps :
  map decides_hyps [LRValidCex.g1; LRValidCex.g2; ReportCex.g1; ReportCex.g2; g_expr] =
  [true; true; true; true; true].
Proof. vm_compute. reflexivity. Qed.

Lemma decides_hyps_ok g : decides_hyps g = true ->
  term_checks g (sts_of g) (tbl_of g) = true /\
  forall w, tokens_ok g w ->
  exists fuel, forall fuel', fuel <= fuel' ->
    (derives g w -> exists t, tree_run g (tbl_of g) w fuel' = Accept t /\ derives_tree g t w) /\
    (~ derives g w -> tree_run g (tbl_of g) w fuel' = Reject).
Proof.
  unfold decides_hyps, sts_of, tbl_of. intros H.
  destruct (gen g) as [[sts tbl]|] eqn:E; [|rewrite andb_false_r in H; discriminate].
  apply andb_true_iff in H. destruct H as [H H4]. apply andb_true_iff in H. destruct H as [H H3].
  apply andb_true_iff in H. destruct H as [H1 H2].
  apply andb_true_iff in H4. destruct H4 as [H4 H6]. apply andb_true_iff in H4. destruct H4 as [H4 H5].
  split.
  - apply (gen_term_checks_true g (default_limits g)); assumption.
  - intros w Hw. apply (gen_decides_language g (default_limits g) sts tbl); assumption.
Qed.

(* the classical expression grammar: the generated parser decides its language *)
Theorem g_expr_decides : forall w, tokens_ok g_expr w ->
  exists fuel, forall fuel', fuel <= fuel' ->
    (derives g_expr w -> exists t, tree_run g_expr (tbl_of g_expr) w fuel' = Accept t /\ derives_tree g_expr t w) /\
    (~ derives g_expr w -> tree_run g_expr (tbl_of g_expr) w fuel' = Reject).
Proof. apply decides_hyps_ok. vm_compute. reflexivity. Qed.

(* the three item-set checks need no hypothesis about conflicts: they hold for the operator grammars of
   Proofs/GroupingExamples.v as well (whose tables carry shift/reduce marks) -- by the theorem, and by computation *)
Definition gen_ok (g : grammar) : bool :=
  grammar_wf g && grammar_wf_extra g && match gen g with inl _ => true | inr _ => false end.

Lemma gen_ok_checks g : gen_ok g = true ->
  lookahead_generatedb g (sts_of g) = true /\ reduce_lookaheadb g (sts_of g) (tbl_of g) = true /\
  states_nonempty_b (sts_of g) = true.
Proof.
  unfold gen_ok, sts_of, tbl_of. intros H. destruct (gen g) as [[sts tbl]|] eqn:E; [|rewrite andb_false_r in H; discriminate].
  apply andb_true_iff in H. destruct H as [H _]. apply andb_true_iff in H. destruct H as [H1 H2].
  apply (gen_term_checks_all g (default_limits g) sts tbl); assumption.
Qed.

Theorem ge_checks_by_theorem :
  lookahead_generatedb ge (sts_of ge) = true /\ reduce_lookaheadb ge (sts_of ge) (tbl_of ge) = true /\
  states_nonempty_b (sts_of ge) = true.
Proof. apply gen_ok_checks. vm_compute. reflexivity. Qed.

Example conflicting_checks_computed :
  map (fun g => (lookahead_generatedb g (sts_of g), reduce_lookaheadb g (sts_of g) (tbl_of g), states_nonempty_b (sts_of g)))
      [ga; gb; gc; gd; ge] = [(true, true, true); (true, true, true); (true, true, true); (true, true, true); (true, true, true)].
Proof. vm_compute. reflexivity. Qed.

(* productivity cannot be dropped: for g_unprod (S -> A, A -> A a) everything else holds *)
Example productive_needed :
  grammar_wf g_unprod = true /\ grammar_wf_extra g_unprod = true /\ productiveb g_unprod = false /\
  match gen g_unprod with
  | inl (sts, tbl) => conflict_free g_unprod (length sts) tbl = true /\ accept_clean g_unprod sts = true /\
                      term_checks g_unprod (map st_all sts) tbl = false
  | inr _ => False
  end.
Proof. vm_compute. repeat split; reflexivity. Qed.

Print Assumptions g_expr_decides.
