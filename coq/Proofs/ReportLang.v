(* R2, R3: what a rejection means (tree instance of the driver, validated tables).
   - prefix independence of the LR machine, immediate error detection ("no later than necessary"):
     when the error is reported with [a] pending after the tokens [u] have been shifted, no sentence begins with u ++ [a];
   - a rejecting run is exactly a run that reaches an error cell; such a run ends [stack height + 1] iterations later;
   - Reject -> not derivable; derivable -> never Reject.
   - the full equivalence "(exists fuel, Reject) <-> not derivable" is FALSE for [validate] as it stands: two
     counterexamples at the end (a crash and an infinite loop on a non-sentence, both caused by items that the
     validator tolerates although no closure put them there). *)
Require Import Ctpg.Base.Prelude Ctpg.Model.Grammar Ctpg.Model.LRGen Ctpg.Model.Driver
               Ctpg.Spec.Cfg Ctpg.Spec.LRSpec Ctpg.Spec.Eval Ctpg.Valid.LRValid
               Ctpg.Proofs.LRReflect Ctpg.Proofs.LRMachine Ctpg.Proofs.LRValidFacts Ctpg.Proofs.LRSound
               Ctpg.Proofs.LRComplete Ctpg.Proofs.DriverBasics Ctpg.Proofs.DriverPos Ctpg.Proofs.ReportOne.

(* ================= the abstract machine ================= *)
Section MachineFacts.
  Variable g : grammar.
  Variable tbl : table.

  (* the configuration's top state has an error cell under the lookahead *)
  Definition err_cell (c : cfg) : Prop :=
    let '(ss, _, rest) := c in
    exists cur ss' e, ss = cur :: ss' /\ cell tbl cur (nterm_count g + look g rest) = inl e /\ e_kind e = KError.

  Lemma err_cell_fail c : err_cell c -> mstep g tbl c = Fail.
  Proof.
    destruct c as [[ss trs] rest]. intros (cur & ss' & e & -> & Hc & Hk). unfold mstep. rewrite Hc, Hk. reflexivity.
  Qed.

  (* one step looks at the remaining input through [look] only, and either keeps it or drops its head *)
  Lemma mstep_swap ss trs r1 r2 : look g r1 = look g r2 ->
    match mstep g tbl (ss, trs, r1) with
    | Next (ss', trs', r1') =>
        (r1' = r1 /\ mstep g tbl (ss, trs, r2) = Next (ss', trs', r2)) \/
        (r1' = tl r1 /\ mstep g tbl (ss, trs, r2) = Next (ss', trs', tl r2))
    | Acc t => mstep g tbl (ss, trs, r2) = Acc t
    | Fail => mstep g tbl (ss, trs, r2) = Fail
    | Bad => mstep g tbl (ss, trs, r2) = Bad
    end.
  Proof.
    intros Hl. unfold mstep. rewrite <- Hl.
    destruct ss as [|cur ss]; [reflexivity|].
    destruct (cell tbl cur (nterm_count g + look g r1)) as [e|c]; [|reflexivity].
    destruct (e_kind e); try reflexivity.
    - destruct (rev trs); reflexivity.
    - destruct (e_arg e); [right; split; reflexivity|reflexivity].
    - destruct (e_arg e) as [r|]; [|reflexivity]. unfold mreduce.
      destruct (nth_error (rule_infos g) r) as [ri|]; [|reflexivity].
      destruct (Nat.ltb (length (cur :: ss)) (ri_n ri)); [reflexivity|].
      destruct (skipn (ri_n ri) (cur :: ss)) as [|top rest']; [reflexivity|].
      destruct (cell tbl top (ri_l ri)) as [e'|]; [|reflexivity].
      destruct (e_arg e'); [|reflexivity].
      destruct (Nat.ltb (length trs) (ri_n ri)); [reflexivity|]. left; split; reflexivity.
  Qed.

  Lemma mstep_rest ss trs r ss' trs' r' : mstep g tbl (ss, trs, r) = Next (ss', trs', r') -> r' = r \/ r' = tl r.
  Proof.
    intros H. pose proof (mstep_swap ss trs r r eq_refl) as Hs. rewrite H in Hs. tauto.
  Qed.

  Lemma msteps_rest_len n : forall ss trs r ss' trs' r',
    msteps g tbl n (ss, trs, r) (ss', trs', r') -> length r' <= length r.
  Proof.
    induction n as [|n IH]; intros ss trs r ss' trs' r' H; cbn in H.
    - inversion H; subst. lia.
    - destruct H as ([[ss1 trs1] r1] & Hs & H). apply IH in H. apply mstep_rest in Hs.
      destruct Hs as [->| ->]; [assumption|]. destruct r; cbn in *; lia.
  Qed.

  (* prefix independence: what the machine does until a given token is pending does not depend on what follows it *)
  Lemma msteps_tail v v' n : forall ss0 trs0 p ss trs q, q <> [] ->
    msteps g tbl n (ss0, trs0, p ++ v) (ss, trs, q ++ v) -> msteps g tbl n (ss0, trs0, p ++ v') (ss, trs, q ++ v').
  Proof.
    induction n as [|n IH]; intros ss0 trs0 p ss trs q Hq H.
    - cbn in H |- *. inversion H; subst. apply app_inv_tail in H3. subst. reflexivity.
    - pose proof (msteps_rest_len _ _ _ _ _ _ _ H) as Hlen. rewrite !app_length in Hlen.
      destruct p as [|x p].
      { destruct q; [congruence|]. cbn in Hlen. lia. }
      cbn [msteps] in H |- *. destruct H as ([[ss1 trs1] r1] & Hs & H).
      pose proof (mstep_swap ss0 trs0 ((x :: p) ++ v) ((x :: p) ++ v') eq_refl) as Hsw. rewrite Hs in Hsw.
      destruct Hsw as [[-> Hs']|[-> Hs']].
      + exists (ss1, trs1, (x :: p) ++ v'). split; [assumption|]. apply IH; assumption.
      + exists (ss1, trs1, p ++ v'). split; [assumption|]. apply IH; assumption.
  Qed.

  (* a run through a failing configuration accepts nothing *)
  Lemma msteps_fail_mrun n : forall c c', msteps g tbl n c c' -> mstep g tbl c' = Fail -> forall m, mrun g tbl m c = None.
  Proof.
    induction n as [|n IH]; intros c c' H Hf m.
    - cbn in H. subst c'. destruct m; cbn; [reflexivity|]. rewrite Hf. reflexivity.
    - destruct H as (c1 & Hs & H). destruct m; cbn; [reflexivity|]. rewrite Hs. eapply IH; eassumption.
  Qed.

  Definition reach (w : list nat) (c : cfg) : Prop := exists n, msteps g tbl n ([0], [], w) c.

  Lemma reach_next w c c' : reach w c -> mstep g tbl c = Next c' -> reach w c'.
  Proof.
    intros [n H] Hs. exists (n + 1). eapply msteps_trans; [exact H|]. cbn. exists c'. auto.
  Qed.
End MachineFacts.

(* ================= R3 on the machine ================= *)
Section Immediate.
  Variable g : grammar.
  Variable sts : list items.
  Variable tbl : table.
  Hypothesis Hval : validate g sts tbl = true.

  Lemma fail_not_sentence w c t : reach g tbl w c -> mstep g tbl c = Fail -> tokens_ok g w -> ~ derives_tree g t w.
  Proof.
    intros [n Hr] Hf Hw Hd. unfold validate in Hval.
    destruct (complete_mrun g sts tbl _ _ (complete_facts_of _ _ _ _ _ Hval) w t Hw Hd) as (m & Hm).
    rewrite (msteps_fail_mrun g tbl n _ _ Hr Hf m) in Hm. discriminate.
  Qed.

  (* if, on input u ++ a :: v, the machine fails with a pending after the tokens of u have been shifted,
     then no sentence begins with u ++ [a] *)
  Theorem error_not_later_machine u a v ss trs :
    reach g tbl (u ++ a :: v) (ss, trs, a :: v) -> mstep g tbl (ss, trs, a :: v) = Fail ->
    tokens_ok g u -> a < eof_idx g ->
    forall v' t, tokens_ok g v' -> ~ derives_tree g t (u ++ a :: v').
  Proof.
    intros [n Hr] Hf Hu Ha v' t Hv'.
    assert (Hr' : msteps g tbl n ([0], [], (u ++ [a]) ++ v') (ss, trs, [a] ++ v')).
    { apply (msteps_tail g tbl v v'); [discriminate|]. rewrite <- app_assoc. exact Hr. }
    rewrite <- app_assoc in Hr'. cbn [app] in Hr'.
    pose proof (mstep_swap g tbl ss trs (a :: v) (a :: v') eq_refl) as Hsw. rewrite Hf in Hsw.
    eapply fail_not_sentence; [exists n; exact Hr'|exact Hsw|].
    apply Forall_app. split; [assumption|]. constructor; assumption.
  Qed.

  (* at the end of input the failure only says that the input itself is no sentence
     (it may well be a proper prefix of one) *)
  Theorem error_at_eof_machine w ss trs :
    reach g tbl w (ss, trs, []) -> mstep g tbl (ss, trs, []) = Fail -> tokens_ok g w -> ~ derives g w.
  Proof. intros Hr Hf Hw [t Hd]. eapply fail_not_sentence; eassumption. Qed.
End Immediate.

(* ================= the driver (tree instance) ================= *)
Section TreeDriver.
  Variable g : grammar.
  Variable sts : list items.
  Variable tbl : table.
  Variable w : list nat.
  Hypothesis SF : sound_facts g sts tbl.
  Hypothesis Hne : no_error_symbol g tbl = true.
  Hypothesis Hw : tokens_ok g w.

  Notation dstate := (pstate tree unit).
  Notation dstep := (step tree unit g tbl tree_opts w None id_lexer tf (ef g) rlf).
  Notation drun := (run_from tree unit g tbl tree_opts w None id_lexer tf (ef g) rlf).
  Notation dgh := (run_gh tree unit g tbl tree_opts w None id_lexer tf (ef g) rlf).
  Notation dgct := (get_current_term tree unit g tree_opts w id_lexer).
  Notation rch := (reach g tbl w).

  Lemma reach_SInv c : rch c -> SInv g sts w c.
  Proof.
    intros [n H]. revert H. generalize (SInv_init g sts w Hw). generalize ([0], @nil tree, w).
    induction n as [|n IH]; intros c0 Hi H; cbn in H.
    - subst. assumption.
    - destruct H as (c1 & Hs & H). eapply IH; [|exact H]. eapply SInv_next; eassumption.
  Qed.

  Lemma normal_term_inv s : normal w s -> term_inv tree unit s.
  Proof.
    intros (_ & _ & [[H _]|[_ (a & Ha & _)]]); [left; assumption|right; congruence].
  Qed.

  (* a loop-head state is either a machine configuration reached from the start, or in recovery mode *)
  Definition dinv (s : dstate) : Prop :=
    (normal w s /\ rch (abs w s)) \/
    (ps_rec s = true /\ ps_cons s = false /\ exists c, rch c /\ err_cell g tbl c).

  (* one iteration from a state that mirrors a reachable configuration *)
  Inductive nstep (s : dstate) : (dstate + result tree * dstate) * list event -> Prop :=
  | NsNext s' ev c' :
      mstep g tbl (abs w s) = Next c' -> normal w s' -> abs w s' = c' -> nv ev = [] -> nstep s (inl s', ev)
  | NsAcc v s' ev :
      mstep g tbl (abs w s) = Acc v -> nv ev = [] -> nstep s (inr (Accept v, s'), ev)
  | NsAbort r s' ev :
      mstep g tbl (abs w s) = Fail -> ~ err_cell g tbl (abs w s) -> nv ev = [] ->
      match r with Crash _ | Throw => True | _ => False end -> nstep s (inr (r, s'), ev)
  | NsErr s1 ev1 :
      err_cell g tbl (abs w s) -> nv ev1 = [] -> ps_cursors s1 = ps_cursors s -> ps_it s1 = ps_it s ->
      ps_cons s1 = false ->
      nstep s (inl (set_modes s1 true (ps_cons s1)),
               ev1 ++ [EvSyntaxError (ps_sp s1) (look g (skipn (ps_it s) w)); EvEnterRecovery (ps_sp s1)]).

  Lemma nstep_holds s : normal w s -> rch (abs w s) -> nstep s (dstep s).
  Proof.
    intros Hn Hr.
    pose proof (step_sim g tbl w s Hn) as Hsim.
    pose proof (SInv_not_bad g sts tbl w SF _ (reach_SInv _ Hr)) as Hnb.
    pose proof (stepA_holds tree unit g tbl tree_opts w None id_lexer tf (ef g) rlf s
                  (proj1 Hn) (normal_term_inv s Hn)) as HA.
    destruct (gct_normal g w s Hn) as (s1 & ev1 & Hg & Hcs & Hvs & Hr1 & Hc1 & Hit & _).
    destruct (dstep s) as [o ev] eqn:Hs.
    inversion HA as [sx evx Hnvx Hrecx Htix Hconsx | s0 cursor t ev0 Hent | rx sx evx Hnvx Hrejx | sx pre p c Hpre Hgf ]; subst.
    - (* quiet continue *)
      destruct (mstep g tbl (abs w s)) as [c'|v| |] eqn:Em.
      + destruct Hsim as (s' & ev' & Hs' & Hn' & Ha'). inversion Hs'; subst. eapply NsNext; eauto.
      + destruct Hsim as (s' & ev' & Hs'). discriminate.
      + destruct Hsim as [(r & s' & ev' & Hs' & _)|(s' & ev' & Hs' & Hr' & _)]; [discriminate|].
        inversion Hs'; subst. congruence.
      + contradiction.
    - (* the syntax error *)
      destruct Hent as ((cs & Hcur) & Hg' & Hq & (e & Hcell & Hk) & _ & _ & _).
      rewrite Hg in Hg'. inversion Hg'; subst s0 t ev0.
      apply NsErr; auto.
      unfold abs, err_cell. exists cursor, cs, e. auto.
    - (* final *)
      destruct (mstep g tbl (abs w s)) as [c'|v| |] eqn:Em.
      + destruct Hsim as (s' & ev' & Hs' & _). discriminate.
      + destruct Hsim as (s' & ev' & Hs'). inversion Hs'; subst. apply NsAcc; auto.
      + destruct Hsim as [(r & s' & ev' & Hs' & Hna)|(s' & ev' & Hs' & _)]; [|discriminate].
        inversion Hs'; subst.
        assert (Hab : match r with Crash _ | Throw => True | _ => False end).
        { destruct r as [v| |c| |]; auto.
          - exact (Hna v eq_refl).
          - destruct Hn as (_ & Hcf & _). rewrite (Hrejx eq_refl) in Hcf. discriminate.
          - exact (step_not_oof _ _ _ _ _ _ _ _ _ _ _ _ _ _ Hs). }
        apply NsAbort; auto.
        (* an error cell would have started recovery instead *)
        intros (cur & ss' & e & Hcur & Hcell & Hk). unfold abs in Hcur. inversion Hcur as [[Hcur' E2 E3]].
        revert Hs. unfold step. rewrite Hcur', Hg. cbv beta iota.
        pose proof (act_rep_holds tree unit g tbl w None tf (ef g) rlf s1 cur (look g (skipn (ps_it s) w))) as Ha.
        destruct (act tree unit g tbl w None tf (ef g) rlf s1 cur (look g (skipn (ps_it s) w))) as [o2 ev2].
        intros E. inversion E; subst.
        unfold abs in Hcell. cbn [look] in Hcell.
        inversion Ha; subst; try congruence.
      + contradiction.
    - (* the identity lexer never fails *)
      rewrite Hg in Hgf. discriminate.
  Qed.

  Lemma nv_nil_not_in ev e : nv ev = [] -> is_nonverbose e = true -> ~ In e ev.
  Proof.
    intros Hn He Hin. assert (In e (nv ev)) as H by (apply filter_In; auto). rewrite Hn in H. destruct H.
  Qed.

  Lemma dinv_step s : dinv s ->
    match fst (dstep s) with
    | inl s' => dinv s'
    | inr (r, s') => r = Reject -> exists c, rch c /\ err_cell g tbl c
    end.
  Proof.
    intros [[Hn Hr]|(Hrec & Hcons & Hex)].
    - pose proof (nstep_holds s Hn Hr) as H. destruct (dstep s) as [o ev]. cbn [fst].
      inversion H as [s' ev' c' Hm Hn' Ha Hq|v s' ev' Hm Hq|r s' ev' Hm Hne' Hq Hab|s1 ev1 Herr Hq Hcs Hit Hc1]; subst.
      + left. split; [assumption|]. eapply reach_next; eassumption.
      + discriminate.
      + intros ->. contradiction.
      + right. cbn. rewrite Hc1. eauto.
    - pose proof (stepB_holds tree unit g tbl tree_opts w None id_lexer tf (ef g) rlf s (err_col g tbl Hne) Hrec Hcons) as H.
      destruct (dstep s) as [o ev]. cbn [fst]. inversion H; subst.
      + right. cbn. auto.
      + auto.
      + auto.
  Qed.

  Theorem tree_run_inv fuel :
    let '(r, s', out, vis) := dgh fuel (init tt) [] [] in
    Forall dinv vis /\ (r = Reject -> exists c, rch c /\ err_cell g tbl c).
  Proof.
    pose proof (run_gh_sinv tree unit g tbl tree_opts w None id_lexer tf (ef g) rlf dinv
                  (fun r s => r = Reject -> exists c, rch c /\ err_cell g tbl c)) as H.
    specialize (H ltac:(intros s _; discriminate) dinv_step fuel (init tt) [] []).
    destruct (dgh fuel (init tt) [] []) as [[[r s'] out] vis].
    destruct H as [H1 H2]; [|constructor|auto].
    left. split; [apply init_normal|]. rewrite init_abs. exists 0. reflexivity.
  Qed.

  (* ---------- where the syntax error is reported ---------- *)
  Lemma syntax_error_at se p t : dinv se -> In (EvSyntaxError p t) (snd (dstep se)) ->
    normal w se /\ rch (abs w se) /\ err_cell g tbl (abs w se) /\ t = look g (skipn (ps_it se) w).
  Proof.
    intros [[Hn Hr]|(Hrec & Hcons & Hex)] Hin.
    - pose proof (nstep_holds se Hn Hr) as H. destruct (dstep se) as [o ev]. cbn [snd] in Hin.
      inversion H as [s' ev' c' Hm Hn' Ha Hq|v s' ev' Hm Hq|r s' ev' Hm Hne' Hq Hab|s1 ev1 Herr Hq Hcs Hit Hc1]; subst;
        try (exfalso; eapply nv_nil_not_in; [eassumption| |exact Hin]; reflexivity).
      apply in_app_or in Hin. destruct Hin as [Hin|[E|[E|[]]]].
      + exfalso; eapply nv_nil_not_in; [eassumption| |exact Hin]; reflexivity.
      + inversion E; subst. auto.
      + discriminate.
    - exfalso.
      pose proof (stepB_holds tree unit g tbl tree_opts w None id_lexer tf (ef g) rlf se (err_col g tbl Hne) Hrec Hcons) as H.
      destruct (dstep se) as [o ev]. cbn [snd] in Hin. inversion H; subst; cbn in Hin; intuition discriminate.
  Qed.

  Lemma normal_it_le s : normal w s -> ps_it s <= length w.
  Proof.
    intros (_ & _ & [[_ H]|[_ (a & _ & Ha)]]); [assumption|].
    assert (ps_it s < length w) by (apply nth_error_Some; congruence). lia.
  Qed.

  (* ---------- following the machine, and the rejection after an error cell ---------- *)
  Lemma follow n : forall s c, normal w s -> msteps g tbl n (abs w s) c ->
    exists s', normal w s' /\ abs w s' = c /\
               forall k out vis, exists out' vis', dgh (n + k) s out vis = dgh k s' out' vis'.
  Proof.
    induction n as [|n IH]; intros s c Hn H; cbn [msteps] in H.
    - exists s. split; [assumption|]. split; [assumption|]. intros k out vis. exists out, vis. reflexivity.
    - destruct H as (c1 & Hs & H). pose proof (step_sim g tbl w s Hn) as Hsim. rewrite Hs in Hsim.
      destruct Hsim as (s1 & ev & Hd & Hn1 & Ha1). subst c1.
      destruct (IH s1 c Hn1 H) as (s' & Hn' & Ha' & Hrun).
      exists s'. split; [assumption|]. split; [assumption|]. intros k out vis. cbn [Nat.add run_gh]. rewrite Hd. apply Hrun.
  Qed.

  Lemma stack_rows c : SInv g sts w c -> Forall (row_ok g tbl) (fst (fst c)) /\ fst (fst c) <> [].
  Proof.
    destruct c as [[ss trs] rest]. intros (syms & Hst & _). cbn [fst]. split.
    - pose proof (stk_all_lt g sts tbl SF _ _ Hst) as Hall. eapply Forall_impl; [|exact Hall].
      intros st Hlt. unfold row_ok. eexists. apply (cell_in_range g sts tbl SF st _ Hlt).
      pose proof (sf_tc _ _ _ SF). unfold symbol_count, err_idx. lia.
    - apply stk_len in Hst. destruct ss; [discriminate|discriminate].
  Qed.

  (* a run that reaches an error cell after n machine steps ends with Reject: one iteration writes the message,
     then one iteration per stack entry pops *)
  Theorem error_cell_rejects n ss trs rest :
    msteps g tbl n ([0], [], w) (ss, trs, rest) -> err_cell g tbl (ss, trs, rest) ->
    tree_run g tbl w (n + (1 + length ss)) = Reject.
  Proof.
    intros Hm Herr.
    assert (Hr : rch (ss, trs, rest)) by (exists n; exact Hm).
    rewrite <- init_abs in Hm. destruct (follow n _ _ (init_normal w) Hm) as (s' & Hn' & Ha' & Hrun).
    rewrite tree_run_eq, (run_gh_run _ _ _ _ _ _ _ _ _ _ _ _ _ _ []).
    destruct (Hrun (1 + length ss) [] []) as (out' & vis' & E). rewrite E. clear E Hrun.
    rewrite <- Ha' in Hr, Herr.
    pose proof (nstep_holds s' Hn' Hr) as H. cbn [Nat.add run_gh].
    destruct (dstep s') as [o ev].
    inversion H as [s2 ev' c' Hm' Hn2 Ha2 Hq|v s2 ev' Hm' Hq|r s2 ev' Hm' Hne' Hq Hab|s1 ev1 Herr' Hq Hcs Hit Hc1]; subst;
      try (rewrite (err_cell_fail g tbl _ Herr) in Hm'; discriminate); try contradiction.
    set (s2 := set_modes s1 true (ps_cons s1)).
    destruct (stack_rows _ (reach_SInv _ Hr)) as [Hrows Hnz]. rewrite Ha' in Hrows, Hnz. cbn [fst] in Hrows, Hnz.
    assert (Hcs2 : ps_cursors s2 = ss).
    { unfold s2. cbn. rewrite Hcs. pose proof Ha' as E. unfold abs in E. inversion E. reflexivity. }
    match goal with |- context [dgh ?k s2 ?o ?v] => destruct (dgh k s2 o v) as [[[r sf] outf] visf] eqn:E end.
    cbn [fst].
    assert (Hrec2 : ps_rec s2 = true) by reflexivity.
    assert (Hcons2 : ps_cons s2 = false) by exact Hc1.
    pose proof (recovery_rejects tree unit g tbl tree_opts w None id_lexer tf (ef g) rlf Hne _ _ _ _ _ _ _ _
                  Hrec2 Hcons2 ltac:(rewrite Hcs2; exact Hnz) ltac:(rewrite Hcs2; exact Hrows) E) as [-> | ->]; [reflexivity|].
    exfalso. eapply (recovery_ends tree unit g tbl tree_opts w None id_lexer tf (ef g) rlf Hne); [exact Hrec2|exact Hcons2| | |exact E|reflexivity].
    - rewrite Hcs2. lia.
    - destruct ss; [contradiction|cbn; lia].
  Qed.

  (* a rejecting run is exactly a run through an error cell *)
  Theorem reject_iff_error_cell :
    (exists fuel, tree_run g tbl w fuel = Reject) <-> (exists c, rch c /\ err_cell g tbl c).
  Proof.
    split.
    - intros [fuel Hf]. rewrite tree_run_eq, (run_gh_run _ _ _ _ _ _ _ _ _ _ _ _ _ _ []) in Hf.
      pose proof (tree_run_inv fuel) as H. destruct (dgh fuel (init tt) [] []) as [[[r s'] out] vis].
      cbn in Hf. subst r. apply H. reflexivity.
    - intros ([[ss trs] rest] & [n Hm] & Herr). eexists. eapply error_cell_rejects; eassumption.
  Qed.
End TreeDriver.

(* ================= R3: the error is reported no later than necessary ================= *)
Lemma id_lexer_len : forall (v : bool) (p : spoint) (rest : list nat) (t len : nat),
  snd (id_lexer v p rest) = Some (t, len) -> len <= length rest.
Proof. intros v p [|c rest] t len H; cbn in H; [discriminate|]. inversion H; subst. cbn. lia. Qed.

Lemma cur_off_tree w (s : pstate tree unit) : cur_off tree unit tree_opts w s = ps_it s.
Proof. unfold cur_off, wsk. cbn. destruct (ps_rec s || negb (ps_it s =? ps_end s)); lia. Qed.

(* Every syntax-error line of a run, with the loop-head state [se] that wrote it as a ghost:
   k = ps_it se tokens have been shifted, the line carries the true position of offset k and the term t pending
   there (<eof> at the end), the machine stands on an error cell, and
   - if a token a is pending, NO sentence begins with (the k shifted tokens) ++ [a];
   - at the end of input, the input is not a sentence. *)
Theorem error_not_later_than_necessary g sts tbl w fuel :
  validate g sts tbl = true -> no_error_symbol g tbl = true -> tokens_ok g w ->
  let '(r, s', out, vis) := run_gh tree unit g tbl tree_opts w None id_lexer tf (ef g) rlf fuel (init tt) [] [] in
  forall se p t,
    In se vis -> In (EvSyntaxError p t) (snd (step tree unit g tbl tree_opts w None id_lexer tf (ef g) rlf se)) ->
    let k := ps_it se in
    k <= length w /\ p = true_pos w k /\ t = look g (skipn k w) /\
    (exists ss trs, reach g tbl w (ss, trs, skipn k w) /\ err_cell g tbl (ss, trs, skipn k w)) /\
    (forall a v, skipn k w = a :: v ->
                 forall v' tr, tokens_ok g v' -> ~ derives_tree g tr (firstn k w ++ a :: v')) /\
    (skipn k w = [] -> ~ derives g w).
Proof.
  intros Hval Hne Hw.
  pose proof (sound_facts_of g sts tbl (validate_validate_sound _ _ _ Hval)) as SF.
  pose proof (tree_run_inv g sts tbl w SF Hne Hw fuel) as Hinv.
  pose proof (run_gh_pos tree unit g tbl tree_opts w None id_lexer tf (ef g) rlf id_lexer_len
                (or_intror eq_refl) fuel tt) as Hpos.
  destruct (run_gh tree unit g tbl tree_opts w None id_lexer tf (ef g) rlf fuel (init tt) [] []) as [[[r s'] out] vis].
  destruct Hinv as [Hinv _]. destruct Hpos as (_ & _ & _ & Hpos & _).
  intros se p t Hse Hin k. rewrite Forall_forall in Hinv, Hpos.
  destruct (syntax_error_at g sts tbl w SF Hne Hw se p t (Hinv se Hse) Hin) as (Hn & Hr & Herr & Ht).
  specialize (Hpos se Hse). rewrite Forall_forall in Hpos. specialize (Hpos _ Hin).
  rewrite cur_off_tree in Hpos. destruct Hpos as (_ & Hp & _).
  split; [apply (normal_it_le w se Hn)|]. split; [apply Hp; reflexivity|]. split; [exact Ht|].
  unfold abs in Hr, Herr. fold k in Hr, Herr.
  split; [eauto|].
  assert (Hsplit : firstn k w ++ skipn k w = w) by apply firstn_skipn.
  assert (Hw' : tokens_ok g (firstn k w) /\ tokens_ok g (skipn k w)).
  { unfold tokens_ok in *. rewrite <- Hsplit in Hw. apply Forall_app in Hw. exact Hw. }
  destruct Hw' as [Hw1 Hw2].
  split.
  - intros a v E v' tr Hv'. rewrite E in Hr, Herr, Hw2, Hsplit.
    eapply (error_not_later_machine g sts tbl Hval (firstn k w) a v); try eassumption.
    + rewrite Hsplit. exact Hr.
    + apply err_cell_fail. exact Herr.
    + inversion Hw2; assumption.
  - intros E. rewrite E in Hr, Herr.
    eapply (error_at_eof_machine g sts tbl Hval w); try eassumption. apply err_cell_fail. exact Herr.
Qed.

(* the same read off the stream alone: every syntax-error line of the output *)
Corollary syntax_error_message_immediate g sts tbl w fuel :
  validate g sts tbl = true -> no_error_symbol g tbl = true -> tokens_ok g w ->
  let '(r, s', out) := run tree unit g tbl tree_opts w None id_lexer tf (ef g) rlf fuel tt in
  forall p t, In (EvSyntaxError p t) out ->
    exists k, k <= length w /\ p = true_pos w k /\ t = look g (skipn k w) /\
      (forall a v, skipn k w = a :: v ->
                   forall v' tr, tokens_ok g v' -> ~ derives_tree g tr (firstn k w ++ a :: v')) /\
      (skipn k w = [] -> ~ derives g w).
Proof.
  intros Hval Hne Hw. unfold run. rewrite (run_gh_run _ _ _ _ _ _ _ _ _ _ _ fuel (init tt) [] []).
  pose proof (error_not_later_than_necessary g sts tbl w fuel Hval Hne Hw) as H.
  pose proof (run_gh_out tree unit g tbl tree_opts w None id_lexer tf (ef g) rlf fuel (init tt) [] [] [] eq_refl) as Ho.
  destruct (run_gh tree unit g tbl tree_opts w None id_lexer tf (ef g) rlf fuel (init tt) [] []) as [[[r s'] out] vis].
  intros p t Hin. cbn [app] in Ho. subst out. apply filter_In in Hin. destruct Hin as [Hin _].
  unfold all_events in Hin. apply in_flat_map in Hin. destruct Hin as (se & Hse & Hin).
  destruct (H se p t Hse Hin) as (H1 & H2 & H3 & _ & H5 & H6).
  exists (ps_it se). auto.
Qed.

(* ================= R2 ================= *)
Section Language.
  Variable g : grammar.
  Variable sts : list items.
  Variable tbl : table.
  Variable w : list nat.
  Hypothesis Hval : validate g sts tbl = true.
  Hypothesis Hw : tokens_ok g w.

  (* the two provable halves (completeness + determinism) *)
  Theorem reject_not_derivable fuel : tree_run g tbl w fuel = Reject -> ~ derives g w.
  Proof.
    intros Hr [t Hd]. destruct (lr_complete g sts tbl w t Hval Hw Hd) as [fuel' Ha].
    rewrite tree_run_eq in Hr, Ha.
    destruct (run_from tree unit g tbl tree_opts w None id_lexer tf (ef g) rlf fuel (init tt) []) as [[r1 s1] o1] eqn:E1.
    destruct (run_from tree unit g tbl tree_opts w None id_lexer tf (ef g) rlf fuel' (init tt) []) as [[r2 s2] o2] eqn:E2.
    cbn in Hr, Ha. subst.
    assert (Reject = Accept t) as H by (eapply run_from_det; [exact E1|exact E2|discriminate|discriminate]).
    discriminate.
  Qed.

  Theorem derivable_never_rejected : derives g w -> forall fuel, tree_run g tbl w fuel <> Reject.
  Proof. intros Hd fuel Hr. exact (reject_not_derivable fuel Hr Hd). Qed.

  Hypothesis Hne : no_error_symbol g tbl = true.

  Theorem not_derivable_never_accepted : ~ derives g w -> forall fuel t, tree_run g tbl w fuel <> Accept t.
  Proof.
    intros Hnd fuel t Ha. apply Hnd. exists t.
    apply (lr_sound g sts tbl w t (validate_validate_sound _ _ _ Hval) Hne Hw). exists fuel. exact Ha.
  Qed.

  (* R2, the part that holds: a run is rejected iff it reaches an error cell, and then the input is no sentence;
     conversely, if the run on a non-sentence comes to a normal end at all, it is rejected *)
  Theorem reject_iff_not_in_language_partial :
    ((exists fuel, tree_run g tbl w fuel = Reject) <-> (exists c, reach g tbl w c /\ err_cell g tbl c)) /\
    ((exists fuel, tree_run g tbl w fuel = Reject) -> ~ derives g w) /\
    ((exists fuel, tree_run g tbl w fuel = Reject \/ exists t, tree_run g tbl w fuel = Accept t) ->
     ((exists fuel, tree_run g tbl w fuel = Reject) <-> ~ derives g w)).
  Proof.
    pose proof (sound_facts_of g sts tbl (validate_validate_sound _ _ _ Hval)) as SF.
    split; [apply (reject_iff_error_cell g sts tbl w SF Hne Hw)|].
    split; [intros [fuel Hr]; exact (reject_not_derivable fuel Hr)|].
    intros [fuel Hend]. split; [intros [f Hr]; exact (reject_not_derivable f Hr)|].
    intros Hnd. destruct Hend as [Hr|[t Ha]]; [eauto|].
    exfalso. exact (not_derivable_never_accepted Hnd fuel t Ha).
  Qed.
End Language.

(* ================= vocabulary for R4 ================= *)
(* every nonterminal reachable from the root derives a terminal string *)
Inductive reachable (g : grammar) : nat -> Prop :=
| reach_root x : root_symbol g = Some (NT x) -> reachable g x
| reach_rule l r rhs m : reachable g l -> is_rule g r l rhs -> In (NT m) rhs -> reachable g m.
Definition productive (g : grammar) : Prop := forall l, reachable g l -> exists t, valid_tree g (NT l) t.
(* u is a prefix of a sentence *)
Definition sentence_prefix (g : grammar) (u : list nat) : Prop := exists v t, derives_tree g t (u ++ v).

Print Assumptions error_not_later_machine.
Print Assumptions error_at_eof_machine.
Print Assumptions error_not_later_than_necessary.
Print Assumptions syntax_error_message_immediate.
Print Assumptions error_cell_rejects.
Print Assumptions reject_iff_error_cell.
Print Assumptions reject_not_derivable.
Print Assumptions derivable_never_rejected.
Print Assumptions reject_iff_not_in_language_partial.
