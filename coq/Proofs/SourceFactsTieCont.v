(* Part of the tie between the hand-written model and the facts tools/source_facts.py read out of ctpg.hpp on this run. *)
(* namespace stdex: the word layout of cbitset and the number of index-checked operations (C01 C03 C06 C12).
   The translator additionally fails closed when the text of any mirrored statement (set / set value / reset / flip / test /
   whole-set loops / add / check_idx; cvector push_back, emplace_back, pop_back, erase clamps, check_not_full; cqueue push / pop;
   the swap test of stdex::sort and its call on rule_infos) differs from the form Model/Containers.v mirrors. *)
Require Import Ctpg.Base.Prelude Ctpg.Model.Containers Ctpg.Model.SourceFacts.
From Coq Require Import NArith.

Lemma tie_cb_word_bits : word_bits = N.of_nat sf_cb_word_bits.
Proof. reflexivity. Qed.
Lemma tie_cb_word_mask : word_mask = N.ones (N.of_nat sf_cb_word_bits).
Proof. reflexivity. Qed.
Lemma tie_size_max : size_max = N.ones (N.of_nat sf_cb_word_bits).
Proof. reflexivity. Qed.
(* set(idx), set(idx, value), reset(idx), flip(idx), test(idx): the five operations the mirror guards with `idx <? cb_n b` *)
Lemma tie_cb_guarded_ops : sf_cb_check_idx_calls = 5.
Proof. reflexivity. Qed.
