(* Sanity of the validator for resolved tables and non-vacuity of the grouping theorem, by computation:
   expression grammars  E -> E + E | E * E | n  with
     (a) * above +, both left associative        (b) equal precedence, right associative
     (c) no declarations                         (d) an explicit precedence on the rule E -> E + E
   and (e) a grammar with two nonterminals (so that rule_info indices differ from r_idx), parentheses, a right
   associative ^ and a unary minus with an explicit precedence.
   For each: the generated table has conflicts ([validate] = false) but passes [validate_resolved]; hence the
   grouping theorem applies to ALL inputs; sample runs with their trees; a hand-flipped cell is rejected; and the
   grammar is ambiguous: another derivation tree of the same input exists and is NOT well grouped. *)
Require Import Ctpg.Base.Prelude Ctpg.Model.Grammar Ctpg.Model.LRGen Ctpg.Model.Driver
               Ctpg.Spec.Cfg Ctpg.Spec.LRSpec Ctpg.Spec.Conflict Ctpg.Spec.Grouping
               Ctpg.Valid.LRValid Ctpg.Valid.LRResolved
               Ctpg.Proofs.LRReflect Ctpg.Proofs.LRMachine Ctpg.Proofs.LRValidFacts Ctpg.Proofs.LRSound
               Ctpg.Proofs.GroupingFacts Ctpg.Proofs.GroupingSpec Ctpg.Proofs.Grouping.

(* ================================================================== *)
(* a checker for derivation trees (to exhibit the other trees)          *)
(* ================================================================== *)

Fixpoint valid_treeb (g : grammar) (X : symbol) (t : tree) {struct t} : bool :=
  match t, X with
  | Leaf a, T b => Nat.eqb a b
  | Node r ch, NT l =>
      existsb (fun i => Nat.eqb (ri_r (get_ri g i)) r && Nat.eqb (ri_l (get_ri g i)) l)
              (seq 0 (length (rule_infos g))) &&
      match nth_error (right_sides g) r with
      | Some rhs =>
          (fix go (rhs : list symbol) (ch : list tree) {struct ch} : bool :=
             match rhs, ch with
             | [], [] => true
             | x :: rhs', c :: ch' => valid_treeb g x c && go rhs' ch'
             | _, _ => false
             end) rhs ch
      | None => false
      end
  | _, _ => false
  end.

Lemma valid_treeb_sound g t : forall X, valid_treeb g X t = true -> valid_tree g X t.
Proof.
  induction t as [a|r ch IH] using tree_ind'; intros X H.
  - destruct X as [b|l]; cbn in H; [|discriminate]. apply Nat.eqb_eq in H. subst. constructor.
  - destruct X as [b|l]; [discriminate|]. cbn [valid_treeb] in H. apply andb_true_iff in H. destruct H as [Hex Hch].
    apply existsb_exists in Hex. destruct Hex as (i & Hi & Hp). apply in_seq in Hi.
    apply andb_true_iff in Hp. destruct Hp as [Hp1 Hp2]. apply Nat.eqb_eq in Hp1, Hp2.
    destruct (nth_error (right_sides g) r) as [rhs|] eqn:Er; [|discriminate].
    apply (VNode g r l rhs ch).
    + exists i, (get_ri g i). split; [apply nth_error_nth'; lia|]. auto.
    + clear Er. revert rhs Hch. induction IH as [|c ch Hc _ IHch]; intros [|x rhs] Hch; try discriminate.
      * constructor.
      * apply andb_true_iff in Hch. destruct Hch as [H1 H2]. constructor; [apply Hc; assumption|apply IHch; assumption].
Qed.

Definition derivesb (g : grammar) (t : tree) (w : list nat) : bool :=
  match root_symbol g with
  | Some s => valid_treeb g s t && list_eqb Nat.eqb (yield t) w
  | None => false
  end.

Lemma list_eqb_nat a b : list_eqb Nat.eqb a b = true -> a = b.
Proof.
  revert b; induction a as [|x a IH]; intros [|y b] H; cbn in H; try discriminate; [reflexivity|].
  apply andb_true_iff in H. destruct H as [H1 H2]. apply Nat.eqb_eq in H1. f_equal; auto.
Qed.

Lemma derivesb_sound g t w : derivesb g t w = true -> derives_tree g t w.
Proof.
  unfold derivesb, derives_tree. destruct (root_symbol g) as [s|]; [|discriminate]. intros H.
  apply andb_true_iff in H. destruct H as [H1 H2]. exists s. split; [reflexivity|].
  split; [apply valid_treeb_sound; assumption|apply list_eqb_nat; assumption].
Qed.

(* ================================================================== *)
(* the grammars                                                        *)
(* ================================================================== *)

Definition dummy_g := mkG 0 0 0 0 [] [] [] [] [] [] [] [].

(* E = "E"; terms + = 0, * = 1, n = 2, <eof> = 3, <error> = 4; rules 0: E+E, 1: E*E, 2: n, 3: ## -> E *)
Definition mk (pp : Z) (pa : assoc) (mp : Z) (ma : assoc) (rp : option Z) : grammar :=
  match analyze (mkRG [69] [mkRT [43] pp pa; mkRT [42] mp ma; mkRT [110] 0%Z NoAssoc] [[69]]
                      [mkRR [69] [RNterm [69]; RTerm [43]; RNterm [69]] rp;
                       mkRR [69] [RNterm [69]; RTerm [42]; RNterm [69]] None;
                       mkRR [69] [RTerm [110]] None])
  with Some g => g | None => dummy_g end.

Definition ga := mk 1 Ltor 2 Ltor None.            (* * above +, both left associative *)
Definition gb := mk 1 Rtol 1 Rtol None.            (* equal precedence, right associative *)
Definition gc := mk 0 NoAssoc 0 NoAssoc None.      (* no declarations *)
Definition gd := mk 1 Ltor 2 Ltor (Some 3%Z).      (* E -> E + E [3]: the RULE binds tighter than * *)

(* (e): nonterminals S = 0, E = 1; terms + 0, * 1, ^ 2, n 3, ( 4, ) 5, - 6, <eof> 7, <error> 8.
   rules(...) order:  0: E -> E + E   1: S -> E   2: E -> E * E   3: E -> n   4: E -> ( S )   5: E -> E ^ E
                      6: E -> - E [4]   7: ## -> S
   rule_infos (sorted by left side): [S->E (r 1); E+E (r 0); E*E (r 2); n (r 3); (S) (r 4); E^E (r 5); -E (r 6); root] *)
Definition ge : grammar :=
  match analyze (mkRG [83] [mkRT [43] 1%Z Ltor; mkRT [42] 2%Z Ltor; mkRT [94] 3%Z Rtol; mkRT [110] 0%Z NoAssoc;
                            mkRT [40] 0%Z NoAssoc; mkRT [41] 0%Z NoAssoc; mkRT [45] 1%Z Ltor] [[83]; [69]]
                      [mkRR [69] [RNterm [69]; RTerm [43]; RNterm [69]] None;
                       mkRR [83] [RNterm [69]] None;
                       mkRR [69] [RNterm [69]; RTerm [42]; RNterm [69]] None;
                       mkRR [69] [RTerm [110]] None;
                       mkRR [69] [RTerm [40]; RNterm [83]; RTerm [41]] None;
                       mkRR [69] [RNterm [69]; RTerm [94]; RNterm [69]] None;
                       mkRR [69] [RTerm [45]; RNterm [69]] (Some 4%Z)])
  with Some g => g | None => dummy_g end.

Example ge_indices_differ : map ri_r (rule_infos ge) = [1; 0; 2; 3; 4; 5; 6; 7].
Proof. vm_compute. reflexivity. Qed.

Definition sts_of (g : grammar) : list items := match gen g with inl (sts, _) => map st_all sts | inr _ => [] end.
Definition tbl_of (g : grammar) : table := match gen g with inl (_, tb) => tb | inr _ => [] end.

(* ================================================================== *)
(* G1 sanity: the generated tables pass the resolved validator          *)
(* ================================================================== *)

Definition report (g : grammar) :=
  (length (sts_of g), validate_sound g (sts_of g) (tbl_of g), validate g (sts_of g) (tbl_of g),
   validate_resolved g (sts_of g) (tbl_of g), no_error_symbol g (tbl_of g)).

(* states, sound, full LR(1) (fails: conflicts), resolved, error column empty *)
Example reports :
  map report [ga; gb; gc; gd] = [(7, true, false, true, true); (7, true, false, true, true);
                                 (7, true, false, true, true); (7, true, false, true, true)] /\
  report ge = (28, true, false, true, true).
Proof. vm_compute. split; reflexivity. Qed.

Example ga_resolved : validate_resolved ga (sts_of ga) (tbl_of ga) = true. Proof. vm_compute. reflexivity. Qed.
Example gb_resolved : validate_resolved gb (sts_of gb) (tbl_of gb) = true. Proof. vm_compute. reflexivity. Qed.
Example gc_resolved : validate_resolved gc (sts_of gc) (tbl_of gc) = true. Proof. vm_compute. reflexivity. Qed.
Example gd_resolved : validate_resolved gd (sts_of gd) (tbl_of gd) = true. Proof. vm_compute. reflexivity. Qed.
Example ge_resolved : validate_resolved ge (sts_of ge) (tbl_of ge) = true. Proof. vm_compute. reflexivity. Qed.
Example ga_noerr : no_error_symbol ga (tbl_of ga) = true. Proof. vm_compute. reflexivity. Qed.
Example gb_noerr : no_error_symbol gb (tbl_of gb) = true. Proof. vm_compute. reflexivity. Qed.
Example gc_noerr : no_error_symbol gc (tbl_of gc) = true. Proof. vm_compute. reflexivity. Qed.
Example gd_noerr : no_error_symbol gd (tbl_of gd) = true. Proof. vm_compute. reflexivity. Qed.
Example ge_noerr : no_error_symbol ge (tbl_of ge) = true. Proof. vm_compute. reflexivity. Qed.

(* the documented choices in these grammars (rule_info index, term) *)
Example choices :
  (* (a) *) (sr_choice ga 0 0, sr_choice ga 0 1, sr_choice ga 1 0, sr_choice ga 1 1) = (KReduce, KShift, KReduce, KReduce) /\
  (* (b) *) (sr_choice gb 0 0, sr_choice gb 0 1, sr_choice gb 1 0, sr_choice gb 1 1) = (KShift, KShift, KShift, KShift) /\
  (* (c) *) (sr_choice gc 0 0, sr_choice gc 0 1, sr_choice gc 1 0, sr_choice gc 1 1) = (KShift, KShift, KShift, KShift) /\
  (* (d) *) (sr_choice gd 0 0, sr_choice gd 0 1, sr_choice gd 1 0, sr_choice gd 1 1) = (KReduce, KReduce, KReduce, KReduce).
Proof. vm_compute. repeat split. Qed.

(* ---------- the theorem instantiated: EVERY accepted tree of EVERY input is well grouped ---------- *)
Theorem ga_groups : forall w tr, tokens_ok ga w -> accepts ga (tbl_of ga) w tr -> derives_tree ga tr w /\ well_grouped ga tr.
Proof. intros w tr. apply (grouping_derivation ga (sts_of ga)); [exact ga_resolved|exact ga_noerr]. Qed.
Theorem gb_groups : forall w tr, tokens_ok gb w -> accepts gb (tbl_of gb) w tr -> derives_tree gb tr w /\ well_grouped gb tr.
Proof. intros w tr. apply (grouping_derivation gb (sts_of gb)); [exact gb_resolved|exact gb_noerr]. Qed.
Theorem gc_groups : forall w tr, tokens_ok gc w -> accepts gc (tbl_of gc) w tr -> derives_tree gc tr w /\ well_grouped gc tr.
Proof. intros w tr. apply (grouping_derivation gc (sts_of gc)); [exact gc_resolved|exact gc_noerr]. Qed.
Theorem gd_groups : forall w tr, tokens_ok gd w -> accepts gd (tbl_of gd) w tr -> derives_tree gd tr w /\ well_grouped gd tr.
Proof. intros w tr. apply (grouping_derivation gd (sts_of gd)); [exact gd_resolved|exact gd_noerr]. Qed.
Theorem ge_groups : forall w tr, tokens_ok ge w -> accepts ge (tbl_of ge) w tr -> derives_tree ge tr w /\ well_grouped ge tr.
Proof. intros w tr. apply (grouping_derivation ge (sts_of ge)); [exact ge_resolved|exact ge_noerr]. Qed.

(* ================================================================== *)
(* G1 sanity: a hand-flipped resolved cell is rejected                  *)
(* ================================================================== *)

(* (a): state 5 = after E + E; on * (column 2 + 1) the generator shifts (to state 4). Flip it to "reduce E -> E + E".
   The flipped table still passes the SOUND validator (the completed item is there), so everything it accepts is a
   derivation tree; but it groups a + b * c as (a + b) * c. The resolved validator rejects it. *)
Definition n_ := Node 2 [Leaf 2].
Definition plus (a b : tree) := Node 0 [a; Leaf 0; b].
Definition times (a b : tree) := Node 1 [a; Leaf 1; b].

Definition tbl_a_flip : table := set_cell (tbl_of ga) 5 3 (mkE KReduce (Some 0) true).

Example flip_cell_before : cell_at (tbl_of ga) 5 3 = mkE KShift (Some 4) true.
Proof. vm_compute. reflexivity. Qed.

Example flip_rejected :
  validate_sound ga (sts_of ga) tbl_a_flip = true /\
  validate_resolved ga (sts_of ga) tbl_a_flip = false /\
  tree_run ga tbl_a_flip [2; 0; 2; 1; 2] 100 = Accept (times (plus n_ n_) n_) /\
  well_groupedb ga (times (plus n_ n_) n_) = false.
Proof. vm_compute. repeat split. Qed.

(* the other direction: (a) state 6 = after E * E; on + the generator reduces; flip it to "shift +" *)
Definition tbl_a_flip2 : table := set_cell (tbl_of ga) 6 2 (mkE KShift (Some 3) true).
Example flip2_rejected :
  cell_at (tbl_of ga) 6 2 = mkE KReduce (Some 1) true /\
  validate_sound ga (sts_of ga) tbl_a_flip2 = true /\
  validate_resolved ga (sts_of ga) tbl_a_flip2 = false /\
  tree_run ga tbl_a_flip2 [2; 1; 2; 0; 2] 100 = Accept (times n_ (plus n_ n_)) /\
  well_groupedb ga (times n_ (plus n_ n_)) = false.
Proof. vm_compute. repeat split. Qed.

(* a dropped transition target (closedness) is rejected as well: state 3 (after E +) loses its goto on E *)
Example unclosed_rejected :
  validate_resolved ga (sts_of ga) (set_cell (tbl_of ga) 3 0 entry_default) = false.
Proof. vm_compute. reflexivity. Qed.

(* ================================================================== *)
(* G4: runs, their trees, and the other derivation trees                *)
(* ================================================================== *)

Definition w1 := [2; 0; 2; 1; 2].                 (* a + b * c *)
Definition w2 := [2; 1; 2; 0; 2].                 (* a * b + c *)
Definition w3 := [2; 0; 2; 0; 2].                 (* a + b + c *)
Definition w4 := [2; 1; 2; 1; 2; 0; 2; 1; 2].     (* a * b * c + d * e *)

Definition run (g : grammar) (w : list nat) := tree_run g (tbl_of g) w 100.

(* (a) * above +, left associative *)
Example runs_a :
  run ga w1 = Accept (plus n_ (times n_ n_)) /\
  run ga w2 = Accept (plus (times n_ n_) n_) /\
  run ga w3 = Accept (plus (plus n_ n_) n_) /\
  run ga w4 = Accept (plus (times (times n_ n_) n_) (times n_ n_)).
Proof. vm_compute. repeat split. Qed.

(* (b) one level, right associative: everything nests to the right *)
Example runs_b :
  run gb w1 = Accept (plus n_ (times n_ n_)) /\
  run gb w2 = Accept (times n_ (plus n_ n_)) /\
  run gb w3 = Accept (plus n_ (plus n_ n_)) /\
  run gb w4 = Accept (times n_ (times n_ (plus n_ (times n_ n_)))).
Proof. vm_compute. repeat split. Qed.

(* (c) no declarations: precedence 0 everywhere, no associativity: always shift, everything nests to the right *)
Example runs_c :
  run gc w1 = Accept (plus n_ (times n_ n_)) /\
  run gc w2 = Accept (times n_ (plus n_ n_)) /\
  run gc w3 = Accept (plus n_ (plus n_ n_)) /\
  run gc w4 = Accept (times n_ (times n_ (plus n_ (times n_ n_)))).
Proof. vm_compute. repeat split. Qed.

(* (d) the rule E -> E + E has precedence 3 > * : a completed sum is always reduced *)
Example runs_d :
  run gd w1 = Accept (times (plus n_ n_) n_) /\
  run gd w2 = Accept (plus (times n_ n_) n_) /\
  run gd w3 = Accept (plus (plus n_ n_) n_) /\
  run gd w4 = Accept (times (plus (times (times n_ n_) n_) n_) n_).
Proof. vm_compute. repeat split. Qed.

Definition accepted (r : result tree) : option tree := match r with Accept t => Some t | _ => None end.
Definition wgb (g : grammar) (w : list nat) : bool :=
  match accepted (run g w) with Some t => well_groupedb g t && derivesb g t w | None => false end.

(* all accepted trees are derivation trees and well grouped (as the theorem says; here by the decision procedure) *)
Example runs_well_grouped :
  map (fun g => map (wgb g) [w1; w2; w3; w4]) [ga; gb; gc; gd] =
  [[true; true; true; true]; [true; true; true; true]; [true; true; true; true]; [true; true; true; true]].
Proof. vm_compute. reflexivity. Qed.

(* the grammars are ambiguous and the theorem discriminates: for each of them an input with a SECOND derivation tree,
   which is not well grouped *)
Theorem other_trees_not_well_grouped :
  (derives_tree ga (times (plus n_ n_) n_) w1 /\ ~ well_grouped ga (times (plus n_ n_) n_)) /\
  (derives_tree ga (plus n_ (plus n_ n_)) w3 /\ ~ well_grouped ga (plus n_ (plus n_ n_))) /\
  (derives_tree gb (plus (plus n_ n_) n_) w3 /\ ~ well_grouped gb (plus (plus n_ n_) n_)) /\
  (derives_tree gc (times (plus n_ n_) n_) w1 /\ ~ well_grouped gc (times (plus n_ n_) n_)) /\
  (derives_tree gd (plus n_ (times n_ n_)) w1 /\ ~ well_grouped gd (plus n_ (times n_ n_))).
Proof.
  repeat split; try (apply derivesb_sound; vm_compute; reflexivity);
    intros H; apply well_groupedb_iff in H; vm_compute in H; discriminate.
Qed.

(* all five derivation trees of a + b + c + d in (a): exactly one is well grouped, and it is the parser's *)
Definition w5 := [2; 0; 2; 0; 2; 0; 2].
Example five_trees :
  let ts := [plus (plus (plus n_ n_) n_) n_; plus (plus n_ (plus n_ n_)) n_; plus (plus n_ n_) (plus n_ n_);
             plus n_ (plus (plus n_ n_) n_); plus n_ (plus n_ (plus n_ n_))] in
  map (fun t => derivesb ga t w5) ts = [true; true; true; true; true] /\
  map (well_groupedb ga) ts = [true; false; false; false; false] /\
  run ga w5 = Accept (plus (plus (plus n_ n_) n_) n_).
Proof. vm_compute. repeat split. Qed.

(* ---------- (e): two nonterminals, parentheses, ^ right associative, unary minus ---------- *)
Definition en := Node 3 [Leaf 3].
Definition eplus (a b : tree) := Node 0 [a; Leaf 0; b].
Definition etimes (a b : tree) := Node 2 [a; Leaf 1; b].
Definition epow (a b : tree) := Node 5 [a; Leaf 2; b].
Definition eneg (a : tree) := Node 6 [Leaf 6; a].
Definition eparen (a : tree) := Node 4 [Leaf 4; Node 1 [a]; Leaf 5].
Definition eroot (a : tree) := Node 1 [a].

(* n + n * n ^ n ^ n * ( n + n ) + - n * n *)
Definition we := [3; 0; 3; 1; 3; 2; 3; 2; 3; 1; 4; 3; 0; 3; 5; 0; 6; 3; 1; 3].
Example run_e :
  run ge we = Accept (eroot (eplus (eplus en (etimes (etimes en (epow en (epow en en))) (eparen (eplus en en))))
                                   (etimes (eneg en) en))) /\
  wgb ge we = true.
Proof. vm_compute. split; reflexivity. Qed.

(* another derivation tree of  n + n * n  in (e), not well grouped *)
Theorem ge_other_tree :
  run ge [3; 0; 3; 1; 3] = Accept (eroot (eplus en (etimes en en))) /\
  derives_tree ge (eroot (etimes (eplus en en) en)) [3; 0; 3; 1; 3] /\
  ~ well_grouped ge (eroot (etimes (eplus en en) en)).
Proof.
  split; [vm_compute; reflexivity|]. split; [apply derivesb_sound; vm_compute; reflexivity|].
  intros H; apply well_groupedb_iff in H; vm_compute in H; discriminate.
Qed.

(* in (a), (b), (c), (e: + * ^) the operator rules have no explicit precedence: they are "plain", and the consequence in
   the vocabulary of precedence levels applies; in (d) the rule E -> E + E is not plain *)
Example plain_rules :
  (plain_rule ga 0 0 /\ plain_rule ga 1 1) /\ (plain_rule gb 0 0 /\ plain_rule gb 1 1) /\
  (plain_rule gc 0 0 /\ plain_rule gc 1 1) /\ (plain_rule ge 1 0 /\ plain_rule ge 2 1 /\ plain_rule ge 5 2) /\
  ~ plain_rule gd 0 0.
Proof.
  repeat split; try (vm_compute; reflexivity). intros [H _]. vm_compute in H. discriminate.
Qed.

Theorem ga_by_precedence : forall w tr, tokens_ok ga w -> accepts ga (tbl_of ga) w tr -> groups_by_precedence ga tr.
Proof. intros w tr Hw Ha. apply well_grouped_by_precedence. apply (ga_groups w tr Hw Ha). Qed.

Print Assumptions ga_groups.
Print Assumptions ge_groups.
Print Assumptions other_trees_not_well_grouped.
Print Assumptions ga_by_precedence.
