(* The capacity formula  N + EmptyRulesCount + 1  of cstring_buffer parsers and ERROR RECOVERY: the precise statement
   that explains both Proofs/CapFormula.v (no recovery: the capacity suffices) and Proofs/CapFormulaCex.v (finding
   D16: S -> error a error b on "ab" needs 5 entries, capacity 4).

   (R1) In a grammar without empty rules (eof / the error token never shifted by a plain shift, lexemes non-empty and
        within the buffer), every loop-head state of the run with unbounded stacks satisfies
              length (ps_cursors s) <= ps_it s + 1 + k
        where k is the number of iterations executed so far that took a shift-on-error cell (pushed the error token):
        [err_shift_step] recognises such an iteration, [nerr] counts them, [bounded_from] is the prefix-wise bound.
        Recovery's pop loop and consume mode never push; a shift of the error token pushes without consuming a byte.
   (R2) Hence a capacity of  bytes + 1 + K  is as good as unbounded stacks for every run with at most K shifts of the
        error token ([capacity_suffices_with_at_most_K_recoveries]); the library's capacity is bytes + 2, i.e. K = 1:
        it has exactly ONE spare slot ([cstring_capacity_suffices_with_at_most_one_recovery]).
        K = 0 re-proves Proofs/CapFormula.v with the exact capacity bytes + 1.
   (R3) Tightness, by computation on the grammar of D16: "ab" performs 2 shifts of the error token and throws; "b"
        performs 1 and does not. *)
Require Import Ctpg.Base.Prelude Ctpg.Model.Grammar Ctpg.Model.LRGen Ctpg.Model.Driver
               Ctpg.Spec.Cfg Ctpg.Spec.LRSpec Ctpg.Spec.Eval
               Ctpg.Proofs.DriverBasics Ctpg.Proofs.SafeBasics Ctpg.Proofs.SafeCap Ctpg.Proofs.CapFormula.

Definition b2n (b : bool) : nat := if b then 1 else 0.

(* ================================================================================================= *)
(* (R1) the height bound with error recovery                                                          *)
(* ================================================================================================= *)
Section CountRec.
  Variables V C : Type.
  Variable g : grammar.
  Variable tbl : table.
  Variable opts : options.
  Variable buf : list nat.
  Variable lexer : bool -> spoint -> list nat -> list lex_event * option (nat * nat).
  Variable term_f : nat -> nat -> nat -> spoint -> V.
  Variable err_f : spoint -> V.
  Variable rule_f : nat -> C -> list V -> C * V.

  (* as in CapFormula.Count: a set of states closed under the targets the driver reads, now including the targets of
     shift-on-error cells *)
  Variable Q : nat -> Prop.
  Hypothesis Q0 : Q 0.
  Hypothesis Qshift : forall st col e nst, Q st -> cell tbl st col = inl e -> e_kind e = KShift -> e_arg e = Some nst -> Q nst.
  Hypothesis Qshifterr : forall st col e nst, Q st -> cell tbl st col = inl e -> e_kind e = KShiftErr -> e_arg e = Some nst -> Q nst.
  Hypothesis Qgoto : forall st r ri e nst, Q st -> nth_error (rule_infos g) r = Some ri ->
    cell tbl st (ri_l ri) = inl e -> e_arg e = Some nst -> Q nst.

  Hypothesis Hempty : empty_rules g = 0.
  Hypothesis Hns_eof : forall st e, Q st -> cell tbl st (nterm_count g + eof_idx g) = inl e -> e_kind e <> KShift.
  Hypothesis Hns_err : forall st e, Q st -> cell tbl st (nterm_count g + err_idx g) = inl e -> e_kind e <> KShift.
  (* NO hypothesis about shift-on-error cells *)
  (* lexemes are not empty and lie within the input (consume mode skips them without the driver's overrun check) *)
  Hypothesis Hlex : forall v p rest t len, snd (lexer v p rest) = Some (t, len) -> 0 < len /\ len <= length rest.

  Notation pst := (pstate V C).
  Notation step0 := (step V C g tbl opts buf None lexer term_f err_f rule_f).
  Notation run_gh0 := (run_gh V C g tbl opts buf None lexer term_f err_f rule_f).
  Notation gspec := (gct_spec V C g opts buf lexer).
  Notation gctx := (get_current_term V C g opts buf lexer).
  Notation aspec := (act_spec2 V C g tbl buf None term_f err_f rule_f).

  (* ---------- the counted event: this iteration takes a shift-on-error cell (and pushes the error token) ---------- *)
  Definition err_shift_step (s : pst) : bool :=
    match ps_cursors s with
    | [] => false
    | cursor :: _ =>
        match gctx s with
        | (_, Some t, _) =>
            match cell tbl cursor (nterm_count g + t) with
            | inl e => match e_kind e, e_arg e with KShiftErr, Some _ => true | _, _ => false end
            | inr _ => false
            end
        | (_, None, _) => false
        end
    end.

  (* number of error-token shifts among the iterations started at the states of l *)
  Fixpoint nerr (l : list pst) : nat :=
    match l with [] => 0 | x :: r => b2n (err_shift_step x) + nerr r end.

  Lemma nerr_app a b : nerr (a ++ b) = nerr a + nerr b.
  Proof. induction a as [|x a IH]; cbn [app nerr]; [reflexivity|]. rewrite IH. lia. Qed.

  (* height bound of one state, given the number k of error-token shifts so far *)
  Definition hb (s : pst) (k : nat) : Prop :=
    length (ps_cursors s) <= ps_it s + 1 + k /\ ps_it s <= length buf /\ ps_end s <= length buf.

  (* the bound along a sequence of loop-head states: each state against the count of the iterations BEFORE it *)
  Fixpoint bounded_from (k : nat) (l : list pst) : Prop :=
    match l with
    | [] => True
    | x :: r => hb x k /\ bounded_from (k + b2n (err_shift_step x)) r
    end.

  Lemma hb_mono s k k' : k <= k' -> hb s k -> hb s k'.
  Proof. unfold hb. intros Hle (H1 & H2 & H3). repeat split; lia. Qed.

  Lemma bounded_from_snoc l : forall k s, bounded_from k (l ++ [s]) <-> bounded_from k l /\ hb s (k + nerr l).
  Proof.
    induction l as [|x l IH]; intros k s; cbn [app bounded_from nerr].
    - rewrite Nat.add_0_r. tauto.
    - rewrite IH. rewrite Nat.add_assoc. tauto.
  Qed.

  Lemma bounded_from_In l : forall k x, bounded_from k l -> In x l -> hb x (k + nerr l).
  Proof.
    induction l as [|y l IH]; intros k x Hb []; cbn [bounded_from nerr] in *; destruct Hb as [Hy Hb].
    - subst y. eapply hb_mono; [|exact Hy]. lia.
    - eapply hb_mono; [|apply (IH _ _ Hb H)]. lia.
  Qed.

  (* ---------- the invariant ---------- *)
  Definition pend_ok (s : pst) : Prop :=
    ps_it s = ps_end s \/ ps_term s = Some (eof_idx g) \/ ps_it s < ps_end s.

  Definition cinvk (k : nat) (s : pst) : Prop := hb s k /\ pend_ok s /\ Forall Q (ps_cursors s).

  Lemma cinvk_mono s k k' : k <= k' -> cinvk k s -> cinvk k' s.
  Proof. intros Hle (H1 & H2). split; [eapply hb_mono; eassumption|exact H2]. Qed.

  Lemma cinvk_init c : cinvk 0 (init c).
  Proof.
    unfold cinvk, hb, pend_ok; cbn. split; [lia|]. split; [left; reflexivity|]. constructor; [exact Q0|constructor].
  Qed.

  Lemma wsk_le' pos : pos <= length buf -> pos + wsk opts buf pos <= length buf.
  Proof.
    intros H. unfold wsk. destruct (o_skip_ws opts); [|lia].
    pose proof (count_ws_le opts (skipn pos buf)) as L. rewrite skipn_length in L. lia.
  Qed.

  (* get_current_term keeps the bound (it only moves the input position forward, within the buffer) *)
  Lemma gct_hb k s s1 ot ev : hb s k -> gspec s (s1, ot, ev) -> hb s1 k.
  Proof.
    intros (Hh & Hit & Hen) H.
    inversion H as [Hr|Hr Hne|sp1 it1 Hr He Hit1 Hsp1 Hsk|sp1 it1 c rest lx Hr He Hit1 Hsp1 Hsk Hl
                   |sp1 it1 c rest lx t0 len Hr He Hit1 Hsp1 Hsk Hl]; subst; unfold hb; simp_ps.
    - auto.
    - auto.
    - pose proof (wsk_le' _ Hit). repeat split; lia.
    - pose proof (wsk_le' _ Hit). repeat split; lia.
    - pose proof (wsk_le' _ Hit) as L.
      assert (Hlen : 0 < len /\ len <= length (c :: rest)) by (eapply (Hlex _ _ _ t0 len); rewrite Hl; reflexivity).
      rewrite <- Hsk, skipn_length in Hlen. repeat split; lia.
  Qed.

  Lemma gct_cinvk k s s1 t ev : cinvk k s -> gspec s (s1, Some t, ev) ->
    cinvk k s1 /\
    ((ps_rec s1 = true /\ t = err_idx g) \/
     (ps_rec s1 = false /\ (t = eof_idx g \/ ps_it s1 < ps_end s1))).
  Proof.
    intros (Hb & Hp & HQ) H. pose proof (gct_hb _ _ _ _ _ Hb H) as Hb1.
    destruct (gct_stacks H) as (Hcs1 & _).
    assert (HQ1 : Forall Q (ps_cursors s1)) by (rewrite Hcs1; exact HQ).
    inversion H as [Hr|Hr Hne|sp1 it1 Hr He Hit1 Hsp1 Hsk|sp1 it1 c rest lx Hr He Hit1 Hsp1 Hsk Hl
                   |sp1 it1 c rest lx t0 len Hr He Hit1 Hsp1 Hsk Hl]; subst.
    - split; [unfold cinvk; auto|]. left; auto.
    - split; [unfold cinvk; auto|]. right. split; [assumption|].
      destruct Hp as [Hp|[Hp|Hp]]; [contradiction| |right; exact Hp].
      left. congruence.
    - split.
      + unfold cinvk. split; [exact Hb1|]. split; [|exact HQ1]. unfold pend_ok; simp_ps. right; left; reflexivity.
      + right. simp_ps. auto.
    - assert (Hlen : 0 < len /\ len <= length (c :: rest)) by (eapply (Hlex _ _ _ t len); rewrite Hl; reflexivity).
      split.
      + unfold cinvk. split; [exact Hb1|]. split; [|exact HQ1]. unfold pend_ok; simp_ps. right; right; lia.
      + right. simp_ps. split; [assumption|right; lia].
  Qed.

  (* [step_cases2] keeping the equation for get_current_term (to evaluate [err_shift_step]) *)
  Lemma step_cases3 (P : pst + result V * pst -> Prop) s :
    (ps_cursors s = [] -> P (inr (Crash CrEmptyStack, s))) ->
    (forall s1 ev1, gspec s (s1, None, ev1) -> P (inr (Reject, s1))) ->
    (forall cursor cs s1 t ev1 r,
        ps_cursors s = cursor :: cs -> gctx s = (s1, Some t, ev1) -> gspec s (s1, Some t, ev1) ->
        aspec s1 cursor t r -> P r) ->
    P (fst (step0 s)).
  Proof.
    intros H1 H2 H3. unfold step. destruct (ps_cursors s) as [|cursor cs] eqn:Hcs; [auto|].
    pose proof (gct_spec_holds V C g opts buf lexer s) as Hg. destruct (gctx s) as [[s1 ot] ev1] eqn:Eg.
    destruct ot as [t|]; [|cbn [fst]; eauto].
    pose proof (act_spec2_holds V C g tbl buf None term_f err_f rule_f s1 cursor t) as Ha.
    destruct (act V C g tbl buf None term_f err_f rule_f s1 cursor t) as [r ev2].
    cbn [fst] in *. eapply H3; eauto.
  Qed.

  (* one iteration: the count grows exactly when the error token is pushed *)
  Lemma step0_cinvk k s : cinvk k s ->
    match fst (step0 s) with
    | inl s' => cinvk (k + b2n (err_shift_step s)) s'
    | inr (_, s') => hb s' (k + b2n (err_shift_step s))
    end.
  Proof.
    intros Hinv. pose proof (proj1 Hinv) as Hb0.
    remember (k + b2n (err_shift_step s)) as kk eqn:Ekk.
    assert (Hkk : k <= kk) by lia.
    apply step_cases3.
    - intros _. eapply hb_mono; eassumption.
    - intros s1 ev1 Hg. eapply hb_mono; [exact Hkk|]. eapply gct_hb; eassumption.
    - intros cur cs s1 t ev1 r Hcs Eg Hg Ha.
      assert (Hse : forall e nst, cell tbl cur (nterm_count g + t) = inl e -> e_kind e = KShiftErr -> e_arg e = Some nst ->
                                  kk = k + 1).
      { intros e nst Hce Hk Harg. subst kk. unfold err_shift_step. rewrite Hcs, Eg, Hce, Hk, Harg. reflexivity. }
      clear Ekk.
      destruct (gct_cinvk _ _ _ _ _ Hinv Hg) as [Hinv1 Ht].
      destruct (gct_stacks Hg) as (Hcs1 & _).
      destruct Hinv1 as (Hb1 & Hp1 & HQ1).
      assert (Hb1' : hb s1 kk) by (eapply hb_mono; eassumption).
      assert (HQcur : Q cur).
      { rewrite Hcs1, Hcs in HQ1. inversion HQ1; assumption. }
      assert (Hbc : hb (clr s1) kk) by (unfold hb in *; simp_ps; exact Hb1').
      destruct Hb1 as (Hh1 & Hit1 & Hen1).
      inversion Ha as [c Hce|e Hce Hk Hcn Htm|e Hce Hk Hcn Htm|e Hce Hk Hcn Hrc|e top cs' Hce Hk Hcn Hrc Htl|e Hce Hk Hcn Hrc Htl
                      |e Hce Hk Harg|e nst Hce Hk Harg Hf|e nst Hce Hk Harg Hf Hov|e nst Hce Hk Harg Hf Hov
                      |e nst Hce Hk Harg Hf|e Hce Hk Harg|e r0 s3 ev Hce Hk Harg Hred|e r0 res Hce Hk Harg Hred
                      |e Hce Hk Hrv|e v rest Hce Hk Hrv];
        subst r; try exact Hb1'; try exact Hbc.
      + (* consume mode: discard the term *)
        apply (cinvk_mono _ k kk Hkk). unfold cinvk, hb, pend_ok; simp_ps.
        assert (Hle : ps_it s1 <= ps_end s1) by (destruct Hp1 as [Hp|[Hp|Hp]]; [lia|contradiction|lia]).
        split; [repeat split; lia|]. split; [left; reflexivity|assumption].
      + (* enter recovery *)
        apply (cinvk_mono _ k kk Hkk). unfold cinvk, hb, pend_ok; simp_ps. auto.
      + (* pop *)
        apply (cinvk_mono _ k kk Hkk). unfold cinvk, hb, pend_ok; simp_ps.
        split; [split; [destruct (ps_cursors s1); cbn [tl length] in *; lia|auto]|]. split; [assumption|].
        destruct (ps_cursors s1); cbn [tl]; [constructor|]. inversion HQ1; assumption.
      + (* pop fails *)
        eapply hb_mono; [exact Hkk|]. unfold hb; simp_ps.
        split; [destruct (ps_cursors s1); cbn [tl length] in *; lia|auto].
      + (* shift *)
        assert (Hlt : ps_it s1 < ps_end s1).
        { destruct Ht as [[_ ->]|[_ [->|Hlt]]]; [| |exact Hlt].
          - exfalso. exact (Hns_err _ _ HQcur Hce Hk).
          - exfalso. exact (Hns_eof _ _ HQcur Hce Hk). }
        apply (cinvk_mono _ k kk Hkk). unfold cinvk, hb, pend_ok; simp_ps.
        split; [cbn [length]; repeat split; lia|]. split; [left; reflexivity|].
        constructor; [|assumption]. eapply Qshift; eassumption.
      + (* shift of the error token: one more entry, no byte consumed, the count grows *)
        rewrite (Hse _ _ Hce Hk Harg). unfold cinvk, hb, pend_ok; simp_ps.
        split; [cbn [length]; repeat split; lia|]. split; [exact Hp1|].
        constructor; [|assumption]. eapply Qshifterr; eassumption.
      + (* reduce *)
        inversion Hred as [| | | | | | | |ri top cs0 e0 nst c' v (Hn & Hle & Hsk) Hc0 Hf0 Ha0 Hv0 Hrf Hf2]; subst.
        pose proof (empty_rules_0 g Hempty _ _ Hn) as Hpos.
        rewrite clr_cursors in Hsk, Hle.
        assert (Hlen : length (top :: cs0) = length (ps_cursors s1) - ri_n ri).
        { rewrite <- Hsk. apply skipn_length. }
        assert (HQs : Forall Q (top :: cs0)).
        { rewrite <- Hsk. rewrite <- (firstn_skipn (ri_n ri) (ps_cursors s1)) in HQ1. apply Forall_app in HQ1. tauto. }
        apply (cinvk_mono _ k kk Hkk). unfold cinvk, hb, pend_ok; simp_ps.
        split; [cbn [length] in *; repeat split; lia|]. split; [assumption|].
        constructor; [|assumption]. inversion HQs; subst. eapply Qgoto; eassumption.
  Qed.

  (* ---------- (R1) along the run ---------- *)
  Theorem height_le_bytes_plus_error_shifts_prefix fuel c :
    let '(_, sf, _, v) := run_gh0 fuel (init c) [] [] in bounded_from 0 (v ++ [sf]).
  Proof.
    pose proof (run_gh_inv V C g tbl opts buf None lexer term_f err_f rule_f
                  (fun vis s => cinvk (nerr vis) s /\ bounded_from 0 vis)
                  (fun vis _ s' => hb s' (nerr vis) /\ bounded_from 0 vis)) as H.
    assert (H1 : forall (vis : list pst) (s : pst), cinvk (nerr vis) s /\ bounded_from 0 vis ->
                   hb s (nerr vis) /\ bounded_from 0 vis) by (intros vis s [Hc Hbd]; split; [apply Hc|exact Hbd]).
    specialize (H H1). clear H1.
    assert (H2 : forall (vis : list pst) (s : pst), cinvk (nerr vis) s /\ bounded_from 0 vis ->
                   match fst (step0 s) with
                   | inl s' => cinvk (nerr (vis ++ [s])) s' /\ bounded_from 0 (vis ++ [s])
                   | inr (_, s') => hb s' (nerr (vis ++ [s])) /\ bounded_from 0 (vis ++ [s])
                   end).
    { intros vis s [Hc Hbd]. pose proof (step0_cinvk _ _ Hc) as Hs.
      assert (Hbd' : bounded_from 0 (vis ++ [s])) by (apply bounded_from_snoc; split; [exact Hbd|apply Hc]).
      rewrite nerr_app. cbn [nerr]. rewrite Nat.add_0_r.
      destruct (fst (step0 s)) as [s'|[r s']]; auto. }
    specialize (H H2 fuel (init c) [] []). clear H2.
    specialize (H (conj (cinvk_init c) I)).
    destruct (run_gh0 fuel (init c) [] []) as [[[r sf] o] v]. destruct H as [Hf Hv].
    apply bounded_from_snoc. split; assumption.
  Qed.

  (* the number of error-token shifts of the whole run with unbounded stacks *)
  Definition err_shifts (fuel : nat) (c : C) : nat :=
    let '(_, _, _, v) := run_gh0 fuel (init c) [] [] in nerr v.

  Lemma all_states_bounded fuel c :
    let '(_, sf, _, v) := run_gh0 fuel (init c) [] [] in
    forall x, In x (v ++ [sf]) -> hb x (err_shifts fuel c).
  Proof.
    pose proof (height_le_bytes_plus_error_shifts_prefix fuel c) as H. unfold err_shifts.
    destruct (run_gh0 fuel (init c) [] []) as [[[r sf] o] v].
    apply bounded_from_snoc in H as [Hv Hf]. intros x Hx. apply in_app_or in Hx as [Hx|[<-|[]]].
    - exact (bounded_from_In _ _ _ Hv Hx).
    - exact Hf.
  Qed.

  Theorem height_le_bytes_plus_error_shifts fuel c :
    never_above V C g tbl opts buf lexer term_f err_f rule_f (length buf + 1 + err_shifts fuel c) fuel c.
  Proof.
    unfold never_above. pose proof (all_states_bounded fuel c) as H.
    destruct (run_gh0 fuel (init c) [] []) as [[[r sf] o] v].
    intros x Hx. destruct (H x Hx) as (H1 & H2 & _). unfold height. lia.
  Qed.
End CountRec.

(* ================================================================================================= *)
(* (R2) a capacity EQUAL to the height reached is enough (no empty rule, lexemes within the buffer)    *)
(* ================================================================================================= *)
(* SafeCap.capacity_irrelevant needs a capacity strictly above the height reached; with capacity = height the check
   of do_reduce could fire before the goto-uninit crash, and the check of a shift before the overrun crash.  Without
   empty rules a reduce pushes onto a stack that it has just made shorter, and lexemes within the buffer exclude the
   overrun crash: then the two runs are equal as soon as the unbounded one stays within the capacity. *)
Section SameRun.
  Variables V C : Type.
  Variable g : grammar.
  Variable tbl : table.
  Variable opts : options.
  Variable buf : list nat.
  Variable lexer : bool -> spoint -> list nat -> list lex_event * option (nat * nat).
  Variable term_f : nat -> nat -> nat -> spoint -> V.
  Variable err_f : spoint -> V.
  Variable rule_f : nat -> C -> list V -> C * V.
  Variable n : nat.

  Hypothesis Hempty : empty_rules g = 0.
  Hypothesis Hlex : forall v p rest t len, snd (lexer v p rest) = Some (t, len) -> 0 < len /\ len <= length rest.

  Notation pst := (pstate V C).
  Notation step0 := (step V C g tbl opts buf None lexer term_f err_f rule_f).
  Notation stepn := (step V C g tbl opts buf (Some n) lexer term_f err_f rule_f).
  Notation red0 := (do_reduce V C g tbl None rule_f).
  Notation redn := (do_reduce V C g tbl (Some n) rule_f).
  Notation run_gh0 := (run_gh V C g tbl opts buf None lexer term_f err_f rule_f).
  Notation run_ghn := (run_gh V C g tbl opts buf (Some n) lexer term_f err_f rule_f).
  Notation gctx := (get_current_term V C g opts buf lexer).

  Lemma red_same s r : exact V C s -> height s <= n -> redn s r = red0 s r.
  Proof.
    intros Hex Hh. unfold exact in Hex. unfold do_reduce, height in *.
    destruct (nth_error (rule_infos g) r) as [ri|] eqn:Hri; [|reflexivity].
    pose proof (empty_rules_0 g Hempty _ _ Hri) as Hpos.
    destruct (Nat.ltb (length (ps_cursors s)) (ri_n ri)) eqn:Hlt; [reflexivity|]. apply Nat.ltb_ge in Hlt.
    destruct (skipn (ri_n ri) (ps_cursors s)) as [|top cs] eqn:Hsk; [reflexivity|].
    destruct (cell tbl top (ri_l ri)) as [e|c]; [|reflexivity].
    cbn [full].
    assert (Hlen : length (ps_cursors s) - ri_n ri = S (length cs)).
    { apply (f_equal (@length nat)) in Hsk. rewrite skipn_length in Hsk. exact Hsk. }
    assert (Hf : Nat.leb n (length (top :: cs)) = false) by (apply Nat.leb_gt; cbn [length]; lia).
    rewrite Hf.
    destruct (e_arg e) as [nst|]; [|reflexivity].
    destruct (Nat.ltb (length (ps_values s)) (ri_n ri)); [reflexivity|].
    destruct (rule_f (ri_r ri) (ps_ctx s) (rev (firstn (ri_n ri) (ps_values s)))) as [c' v].
    assert (Hf2 : Nat.leb n (length (skipn (ri_n ri) (ps_values s))) = false).
    { apply Nat.leb_gt. rewrite skipn_length. lia. }
    rewrite Hf2. reflexivity.
  Qed.

  (* the bounded iteration is the unbounded one when the stack fits before and after *)
  Lemma step_same s : exact V C s -> height s <= n -> ps_it s <= length buf -> ps_end s <= length buf ->
    match fst (step0 s) with inl s' => height s' <= n | inr _ => True end ->
    stepn s = step0 s.
  Proof.
    intros Hex Hh Hit Hen Hnext. unfold step, height in *.
    destruct (ps_cursors s) as [|cur cs] eqn:Hcs; [reflexivity|].
    pose proof (gct_spec_holds V C g opts buf lexer s) as Hg.
    destruct (gctx s) as [[s1 ot] ev1]. destruct (gct_stacks Hg) as (Hcs1 & Hvs1 & _).
    destruct ot as [t|]; [|reflexivity].
    assert (Hen1 : ps_end s1 <= length buf).
    { inversion Hg as [Hr|Hr Hne|sp1 it1 Hr He Hit1 Hsp1 Hsk|sp1 it1 c rest lx Hr He Hit1 Hsp1 Hsk Hl
                      |sp1 it1 c rest lx t0 len Hr He Hit1 Hsp1 Hsk Hl]; subst; simp_ps; try assumption.
      assert (Hlen : 0 < len /\ len <= length (c :: rest)) by (eapply (Hlex _ _ _ t len); rewrite Hl; reflexivity).
      rewrite <- Hsk, skipn_length in Hlen.
      assert (L : ps_it s + wsk opts buf (ps_it s) <= length buf).
      { unfold wsk. destruct (o_skip_ws opts); [|lia].
        pose proof (count_ws_le opts (skipn (ps_it s) buf)) as L. rewrite skipn_length in L. lia. }
      lia. }
    assert (Hexc : exact V C (clr s1)) by (unfold exact in *; simp_ps; rewrite Hcs1, Hvs1; exact Hex).
    assert (Hhc : height (clr s1) <= n) by (unfold height; simp_ps; rewrite Hcs1, Hcs; exact Hh).
    unfold act in *. destruct (cell tbl cur (nterm_count g + t)) as [e|c]; [|reflexivity].
    fold (clr s1) in *. fold (lc s1) in *.
    destruct (e_kind e); try reflexivity.
    - (* KShift *)
      destruct (e_arg e) as [nst|]; [|reflexivity]. cbn [full] in *.
      destruct (Nat.leb n (length (ps_cursors (clr s1)))) eqn:Hf; [|reflexivity].
      exfalso. apply Nat.leb_le in Hf. rewrite clr_cursors, Hcs1, Hcs in Hf.
      destruct (Nat.ltb (length buf) (ps_end (clr s1))) eqn:Hov.
      + apply Nat.ltb_lt in Hov. rewrite clr_end in Hov. lia.
      + cbn [fst] in Hnext. simp_ps_in Hnext. rewrite Hcs1, Hcs in Hnext. cbn [length] in *. lia.
    - (* KShiftErr *)
      destruct (e_arg e) as [nst|]; [|reflexivity]. cbn [full] in *.
      destruct (Nat.leb n (length (ps_cursors (clr s1)))) eqn:Hf; [|reflexivity].
      exfalso. apply Nat.leb_le in Hf. rewrite clr_cursors, Hcs1, Hcs in Hf.
      cbn [fst] in Hnext. simp_ps_in Hnext. rewrite Hcs1, Hcs in Hnext. cbn [length] in *. lia.
    - (* KReduce *)
      destruct (e_arg e) as [r|]; [|reflexivity]. rewrite (red_same (clr s1) r Hexc Hhc). reflexivity.
    - (* KRR *)
      destruct (e_arg e) as [r|]; [|reflexivity]. rewrite (red_same (clr s1) r Hexc Hhc). reflexivity.
  Qed.

  Definition fits (x : pst) : Prop := height x <= n /\ ps_it x <= length buf /\ ps_end x <= length buf.

  Lemma lockstep_fits fuel : forall s out, exact V C s ->
    (let '(_, sf, _, v) := run_gh0 fuel s out [] in forall x, In x (v ++ [sf]) -> fits x) ->
    run_ghn fuel s out [] = run_gh0 fuel s out [].
  Proof.
    induction fuel as [|f IH]; intros s out Hex Hall; cbn [run_gh] in *; [reflexivity|].
    assert (Hs : fits s /\
                 match fst (step0 s) with inl s' => height s' <= n | inr _ => True end).
    { destruct (step0 s) as [[s1|[r1 s1]] ev]; cbn [fst].
      - rewrite (run_gh_shift V C g tbl opts buf lexer term_f err_f rule_f None f s1 _ ([] ++ [s])) in Hall.
        pose proof (run_gh_first V C g tbl opts buf lexer term_f err_f rule_f None f s1 (out ++ filter (visible opts) ev)) as Hfirst.
        destruct (run_gh0 f s1 (out ++ filter (visible opts) ev) []) as [[[r sf] o] v].
        split; [apply Hall; left; reflexivity|]. apply (Hall s1). right. exact Hfirst.
      - split; [apply Hall; left; reflexivity|exact I]. }
    destruct Hs as [(Hh & Hit & Hen) Hnext].
    pose proof (step_same s Hex Hh Hit Hen Hnext) as E.
    pose proof (stepn_hinv V C g tbl opts buf lexer term_f err_f rule_f n s (conj Hex Hh)) as Hn.
    rewrite E in Hn |- *.
    destruct (step0 s) as [[s1|[r1 s1]] ev]; cbn [fst] in Hn; [|reflexivity].
    rewrite (run_gh_shift V C g tbl opts buf lexer term_f err_f rule_f None f s1 _ ([] ++ [s])) in Hall |- *.
    rewrite (run_gh_shift V C g tbl opts buf lexer term_f err_f rule_f (Some n) f s1 _ ([] ++ [s])).
    specialize (IH s1 (out ++ filter (visible opts) ev) (proj1 Hn)).
    destruct (run_gh0 f s1 (out ++ filter (visible opts) ev) []) as [[[r sf] o] v].
    rewrite IH; [reflexivity|]. intros x Hx. apply Hall. right. exact Hx.
  Qed.

  (* capacity n is as good as unbounded stacks when the unbounded run never has more than n entries and keeps its
     input positions within the buffer *)
  Theorem capacity_equal_height_suffices fuel c : 0 < n ->
    (let '(_, sf, _, v) := run_gh0 fuel (init c) [] [] in forall x, In x (v ++ [sf]) -> fits x) ->
    run V C g tbl opts buf (Some n) lexer term_f err_f rule_f fuel c =
    run V C g tbl opts buf None lexer term_f err_f rule_f fuel c.
  Proof.
    intros Hpos Hall. rewrite !runc_gh.
    rewrite (lockstep_fits fuel (init c) [] (proj1 (hinv_init V C n c Hpos)) Hall). reflexivity.
  Qed.
End SameRun.

(* ================================================================================================= *)
(* (R2) at most K shifts of the error token: capacity bytes + 1 + K                                   *)
(* ================================================================================================= *)
Section AtMostK.
  Variables V C : Type.
  Variable g : grammar.
  Variable tbl : table.
  Variable opts : options.
  Variable buf : list nat.
  Variable lexer : bool -> spoint -> list nat -> list lex_event * option (nat * nat).
  Variable term_f : nat -> nat -> nat -> spoint -> V.
  Variable err_f : spoint -> V.
  Variable rule_f : nat -> C -> list V -> C * V.
  Variable Q : nat -> Prop.
  Hypothesis Q0 : Q 0.
  Hypothesis Qshift : forall st col e nst, Q st -> cell tbl st col = inl e -> e_kind e = KShift -> e_arg e = Some nst -> Q nst.
  Hypothesis Qshifterr : forall st col e nst, Q st -> cell tbl st col = inl e -> e_kind e = KShiftErr -> e_arg e = Some nst -> Q nst.
  Hypothesis Qgoto : forall st r ri e nst, Q st -> nth_error (rule_infos g) r = Some ri ->
    cell tbl st (ri_l ri) = inl e -> e_arg e = Some nst -> Q nst.
  Hypothesis Hempty : empty_rules g = 0.
  Hypothesis Hns_eof : forall st e, Q st -> cell tbl st (nterm_count g + eof_idx g) = inl e -> e_kind e <> KShift.
  Hypothesis Hns_err : forall st e, Q st -> cell tbl st (nterm_count g + err_idx g) = inl e -> e_kind e <> KShift.
  Hypothesis Hlex : lexer_in_range lexer.

  Notation runc cap := (run V C g tbl opts buf cap lexer term_f err_f rule_f).
  Notation nshifts := (err_shifts V C g tbl opts buf lexer term_f err_f rule_f).

  Theorem capacity_suffices_with_at_most_K_recoveries_Q K fuel c :
    nshifts fuel c <= K ->
    runc (Some (length buf + 1 + K)) fuel c = runc None fuel c /\
    fst (fst (runc (Some (length buf + 1 + K)) fuel c)) <> Throw.
  Proof.
    intros HK.
    assert (E : runc (Some (length buf + 1 + K)) fuel c = runc None fuel c).
    { apply capacity_equal_height_suffices; [exact Hempty|exact Hlex|lia|].
      pose proof (all_states_bounded V C g tbl opts buf lexer term_f err_f rule_f Q Q0 Qshift Qshifterr Qgoto
                    Hempty Hns_eof Hns_err Hlex fuel c) as H.
      destruct (run_gh V C g tbl opts buf None lexer term_f err_f rule_f fuel (init c) [] []) as [[[r sf] o] v].
      intros x Hx. destruct (H x Hx) as (H1 & H2 & H3). unfold fits, height. repeat split; lia. }
    split; [exact E|]. rewrite E. apply run_unbounded_no_throw.
  Qed.
End AtMostK.

(* ---------- hypotheses about the whole table ---------- *)
Theorem height_le_bytes_plus_error_shifts_without_empty_rules :
  forall (V C : Type) g tbl opts buf lexer
         (term_f : nat -> nat -> nat -> spoint -> V) (err_f : spoint -> V) (rule_f : nat -> C -> list V -> C * V),
  empty_rules g = 0 -> eof_err_not_shifted g tbl -> lexer_in_range lexer ->
  forall fuel c,
    (* every loop-head state, against the number of error-token shifts BEFORE it *)
    (let '(_, sf, _, v) := run_gh V C g tbl opts buf None lexer term_f err_f rule_f fuel (init c) [] [] in
     bounded_from V C g tbl opts buf lexer 0 (v ++ [sf])) /\
    (* hence: never more than bytes + 1 + (error-token shifts of the run) entries *)
    never_above V C g tbl opts buf lexer term_f err_f rule_f
      (length buf + 1 + err_shifts V C g tbl opts buf lexer term_f err_f rule_f fuel c) fuel c.
Proof.
  intros V C g tbl opts buf lexer term_f err_f rule_f Hempty [Hn1 Hn2] Hlex fuel c. split.
  - apply (height_le_bytes_plus_error_shifts_prefix V C g tbl opts buf lexer term_f err_f rule_f (fun _ => True)); auto.
    + intros st e _ Hc. exact (Hn1 st e Hc).
    + intros st e _ Hc. exact (Hn2 st e Hc).
  - apply (height_le_bytes_plus_error_shifts V C g tbl opts buf lexer term_f err_f rule_f (fun _ => True)); auto.
    + intros st e _ Hc. exact (Hn1 st e Hc).
    + intros st e _ Hc. exact (Hn2 st e Hc).
Qed.

Theorem capacity_suffices_with_at_most_K_recoveries :
  forall (V C : Type) g tbl opts buf lexer
         (term_f : nat -> nat -> nat -> spoint -> V) (err_f : spoint -> V) (rule_f : nat -> C -> list V -> C * V),
  empty_rules g = 0 -> eof_err_not_shifted g tbl -> lexer_in_range lexer ->
  forall K fuel c,
    err_shifts V C g tbl opts buf lexer term_f err_f rule_f fuel c <= K ->
    run V C g tbl opts buf (Some (length buf + 1 + K)) lexer term_f err_f rule_f fuel c =
    run V C g tbl opts buf None lexer term_f err_f rule_f fuel c /\
    fst (fst (run V C g tbl opts buf (Some (length buf + 1 + K)) lexer term_f err_f rule_f fuel c)) <> Throw.
Proof.
  intros V C g tbl opts buf lexer term_f err_f rule_f Hempty [Hn1 Hn2] Hlex K fuel c HK.
  apply (capacity_suffices_with_at_most_K_recoveries_Q V C g tbl opts buf lexer term_f err_f rule_f (fun _ => True)); auto.
  - intros st e _ Hc. exact (Hn1 st e Hc).
  - intros st e _ Hc. exact (Hn2 st e Hc).
Qed.

(* the library's capacity bytes + 2 = bytes + 1 + 1: exactly one spare slot, exactly one shift of the error token *)
Theorem cstring_capacity_suffices_with_at_most_one_recovery :
  forall (V C : Type) g tbl opts buf lexer
         (term_f : nat -> nat -> nat -> spoint -> V) (err_f : spoint -> V) (rule_f : nat -> C -> list V -> C * V) fuel c,
  empty_rules g = 0 ->
  eof_err_not_shifted g tbl ->
  lexer_in_range lexer ->
  err_shifts V C g tbl opts buf lexer term_f err_f rule_f fuel c <= 1 ->
    run V C g tbl opts buf (Some (cstring_cap g (length buf))) lexer term_f err_f rule_f fuel c =
    run V C g tbl opts buf None lexer term_f err_f rule_f fuel c /\
    fst (fst (run V C g tbl opts buf (Some (cstring_cap g (length buf))) lexer term_f err_f rule_f fuel c)) <> Throw.
Proof.
  intros V C g tbl opts buf lexer term_f err_f rule_f fuel c Hempty Hn Hlex H1.
  replace (cstring_cap g (length buf)) with (length buf + 1 + 1) by (unfold cstring_cap; lia).
  apply capacity_suffices_with_at_most_K_recoveries; assumption.
Qed.

(* with k >= 1 shifts of the error token: the library's capacity plus k - 1 *)
Corollary cstring_capacity_plus_extra_recoveries_suffices :
  forall (V C : Type) g tbl opts buf lexer
         (term_f : nat -> nat -> nat -> spoint -> V) (err_f : spoint -> V) (rule_f : nat -> C -> list V -> C * V) k fuel c,
  empty_rules g = 0 -> eof_err_not_shifted g tbl -> lexer_in_range lexer ->
  err_shifts V C g tbl opts buf lexer term_f err_f rule_f fuel c <= k -> 1 <= k ->
    run V C g tbl opts buf (Some (cstring_cap g (length buf) + (k - 1))) lexer term_f err_f rule_f fuel c =
    run V C g tbl opts buf None lexer term_f err_f rule_f fuel c /\
    fst (fst (run V C g tbl opts buf (Some (cstring_cap g (length buf) + (k - 1))) lexer term_f err_f rule_f fuel c)) <> Throw.
Proof.
  intros V C g tbl opts buf lexer term_f err_f rule_f k fuel c Hempty Hn Hlex Hk H1.
  replace (cstring_cap g (length buf) + (k - 1)) with (length buf + 1 + k) by (unfold cstring_cap; lia).
  apply capacity_suffices_with_at_most_K_recoveries; assumption.
Qed.

(* no recovery at all (the setting of Proofs/CapFormula.v): already bytes + 1 entries are enough *)
Corollary capacity_bytes_plus_1_suffices_without_recovery :
  forall (V C : Type) g tbl opts buf lexer
         (term_f : nat -> nat -> nat -> spoint -> V) (err_f : spoint -> V) (rule_f : nat -> C -> list V -> C * V) fuel c,
  empty_rules g = 0 -> eof_err_not_shifted g tbl -> lexer_in_range lexer ->
  err_shifts V C g tbl opts buf lexer term_f err_f rule_f fuel c = 0 ->
    run V C g tbl opts buf (Some (length buf + 1)) lexer term_f err_f rule_f fuel c =
    run V C g tbl opts buf None lexer term_f err_f rule_f fuel c /\
    fst (fst (run V C g tbl opts buf (Some (length buf + 1)) lexer term_f err_f rule_f fuel c)) <> Throw.
Proof.
  intros V C g tbl opts buf lexer term_f err_f rule_f fuel c Hempty Hn Hlex H0.
  replace (length buf + 1) with (length buf + 1 + 0) by lia.
  apply capacity_suffices_with_at_most_K_recoveries; try assumption. lia.
Qed.

(* a table without shift-on-error cell never shifts the error token *)
Lemma no_shifterrb_err_shifts :
  forall (V C : Type) g tbl opts buf lexer
         (term_f : nat -> nat -> nat -> spoint -> V) (err_f : spoint -> V) (rule_f : nat -> C -> list V -> C * V) fuel c,
  no_shifterrb tbl = true -> err_shifts V C g tbl opts buf lexer term_f err_f rule_f fuel c = 0.
Proof.
  intros V C g tbl opts buf lexer term_f err_f rule_f fuel c Hse. unfold err_shifts.
  destruct (run_gh V C g tbl opts buf None lexer term_f err_f rule_f fuel (init c) [] []) as [[[r sf] o] v].
  induction v as [|x v IH]; [reflexivity|]. cbn [nerr]. rewrite IH, Nat.add_0_r.
  unfold err_shift_step. destruct (ps_cursors x) as [|cur cs]; [reflexivity|].
  destruct (get_current_term V C g opts buf lexer x) as [[s1 [t|]] ev]; [|reflexivity].
  destruct (cell tbl cur (nterm_count g + t)) as [e|cr] eqn:Hc; [|reflexivity].
  pose proof (no_shifterrb_ok tbl Hse _ _ _ Hc) as Hk. destruct (e_kind e); try reflexivity. congruence.
Qed.

(* ---------- the counted iterations are exactly those that emit the trace event [EvShiftErr] ---------- *)
Definition is_shifterr_ev (e : event) : bool := match e with EvShiftErr _ _ => true | _ => false end.

Lemma err_shift_step_event :
  forall (V C : Type) g tbl opts buf lexer
         (term_f : nat -> nat -> nat -> spoint -> V) (err_f : spoint -> V) (rule_f : nat -> C -> list V -> C * V) s,
  err_shift_step V C g tbl opts buf lexer s =
  existsb is_shifterr_ev (snd (step V C g tbl opts buf None lexer term_f err_f rule_f s)).
Proof.
  intros V C g tbl opts buf lexer term_f err_f rule_f s.
  unfold err_shift_step, step. destruct (ps_cursors s) as [|cur cs]; [reflexivity|].
  pose proof (gct_spec_holds V C g opts buf lexer s) as Hg.
  destruct (get_current_term V C g opts buf lexer s) as [[s1 ot] ev1].
  assert (Hlx : forall lx, existsb is_shifterr_ev (map EvLex lx) = false) by (induction lx; auto).
  assert (Hev1 : existsb is_shifterr_ev ev1 = false).
  { inversion Hg; subst; try reflexivity; rewrite existsb_app, Hlx; reflexivity. }
  destruct ot as [t|]; [|cbn [snd]; symmetry; exact Hev1].
  destruct (act V C g tbl buf None term_f err_f rule_f s1 cur t) as [r ev2] eqn:Ea. cbn [snd].
  rewrite existsb_app, Hev1. cbn [orb].
  replace ev2 with (snd (act V C g tbl buf None term_f err_f rule_f s1 cur t)) by (rewrite Ea; reflexivity). clear Ea.
  unfold act. destruct (cell tbl cur (nterm_count g + t)) as [e|c]; [|reflexivity].
  fold (clr s1). fold (lc s1).
  assert (Hlc : existsb is_shifterr_ev (lc s1) = false) by (unfold lc; destruct (ps_cons s1); reflexivity).
  destruct (e_kind e).
  - (* KError *)
    destruct (ps_cons s1).
    + destruct (match ps_term s1 with Some x => Nat.eqb x (eof_idx g) | None => false end); reflexivity.
    + destruct (negb (ps_rec s1)); [reflexivity|]. unfold pop_stacks. destruct (tl (ps_cursors s1)); reflexivity.
  - (* KSuccess *)
    destruct (e_arg e); destruct (rev (ps_values (clr s1))); cbn [snd]; rewrite existsb_app, Hlc; reflexivity.
  - (* KShift *)
    destruct (e_arg e); [|cbn [snd]; rewrite Hlc; reflexivity].
    cbn [full]. destruct (Nat.ltb (length buf) (ps_end (clr s1))); cbn [snd]; rewrite existsb_app, Hlc; reflexivity.
  - (* KShiftErr *)
    destruct (e_arg e); [|cbn [snd]; rewrite Hlc; reflexivity].
    cbn [full snd]. rewrite !existsb_app, Hlc. reflexivity.
  - (* KReduce *)
    destruct (e_arg e); [|cbn [snd]; rewrite Hlc; reflexivity].
    destruct (do_reduce V C g tbl None rule_f (clr s1) n) as [[s3 ev]|res] eqn:Er; cbn [snd]; [|rewrite Hlc; reflexivity].
    apply do_reduce_inl in Er as (ri & nst & c' & v & _ & _ & _ & _ & _ & ->). rewrite existsb_app, Hlc. reflexivity.
  - (* KRR *)
    destruct (e_arg e); [|cbn [snd]; rewrite existsb_app, Hlc; reflexivity].
    destruct (do_reduce V C g tbl None rule_f (clr s1) n) as [[s3 ev]|res] eqn:Er; cbn [snd];
      [|rewrite existsb_app, Hlc; reflexivity].
    apply do_reduce_inl in Er as (ri & nst & c' & v & _ & _ & _ & _ & _ & ->). rewrite existsb_app, Hlc. reflexivity.
Qed.

(* ================================================================================================= *)
(* (R3) tightness, on the grammar of finding D16:  S -> error a error b   (terms a = 0, b = 1)         *)
(* ================================================================================================= *)
Require Import Ctpg.Valid.LRValid Ctpg.Proofs.CapFormulaCex.

Definition tree_err_shifts (g : grammar) (tbl : table) (w : list nat) (fuel : nat) : nat :=
  err_shifts tree unit g tbl tree_opts w id_lexer (fun t _ _ _ => Leaf t) (fun _ => Leaf (err_idx g))
             (fun r c args => (c, Node r args)) fuel tt.
Definition tree_max_height (g : grammar) (tbl : table) (w : list nat) (fuel : nat) : nat :=
  max_height tree unit g tbl tree_opts w id_lexer (fun t _ _ _ => Leaf t) (fun _ => Leaf (err_idx g))
             (fun r c args => (c, Node r args)) fuel tt.

(* the theorem for the tree driver *)
Corollary cstring_capacity_suffices_tree_with_at_most_one_recovery : forall g tbl w fuel,
  empty_rules g = 0 -> eof_err_not_shifted g tbl -> tree_err_shifts g tbl w fuel <= 1 ->
  tree_run_cap g tbl (Some (cstring_cap g (length w))) w fuel = tree_run_cap g tbl None w fuel /\
  res (tree_run_cap g tbl (Some (cstring_cap g (length w))) w fuel) <> Throw.
Proof.
  intros g tbl w fuel He Hn H1. unfold tree_run_cap, res.
  apply cstring_capacity_suffices_with_at_most_one_recovery; try assumption. exact id_lexer_in_range.
Qed.

(* the witness of D16, input "ab": TWO shifts of the error token, the bound bytes + 1 + 2 = 5 is reached, the
   library's capacity 4 = bytes + 1 + 1 is one short: Throw.   Already "a" alone: two shifts, 4 entries, capacity 3. *)
Example d16_two_error_shifts :
  empty_rules rec_g = 0 /\ eof_err_not_shiftedb rec_g rec_tbl = true /\
  tree_err_shifts rec_g rec_tbl [0; 1] 20 = 2 /\
  tree_max_height rec_g rec_tbl [0; 1] 20 = length [0; 1] + 1 + 2 /\
  cstring_cap rec_g (length [0; 1]) = length [0; 1] + 1 + 1 /\
  res (tree_run_cap rec_g rec_tbl None [0; 1] 20) = Accept rec_tree /\
  res (tree_run_cap rec_g rec_tbl (Some (cstring_cap rec_g (length [0; 1]))) [0; 1] 20) = Throw /\
  tree_err_shifts rec_g rec_tbl [0] 20 = 2 /\
  tree_max_height rec_g rec_tbl [0] 20 = length [0] + 1 + 2 /\
  res (tree_run_cap rec_g rec_tbl None [0] 20) = Reject /\
  res (tree_run_cap rec_g rec_tbl (Some (cstring_cap rec_g (length [0]))) [0] 20) = Throw.
Proof. vm_compute. repeat split. Qed.

(* the same grammar, inputs "" and "b": ONE shift of the error token; the stack fills the capacity exactly in the
   first case (2 entries, capacity 2: the spare slot is used), no Throw: the bounded run is the unbounded run *)
Example d16_grammar_one_error_shift :
  tree_err_shifts rec_g rec_tbl [] 20 = 1 /\
  tree_max_height rec_g rec_tbl [] 20 = 2 /\ cstring_cap rec_g (length (@nil nat)) = 2 /\
  tree_run_cap rec_g rec_tbl (Some (cstring_cap rec_g 0)) [] 20 = tree_run_cap rec_g rec_tbl None [] 20 /\
  res (tree_run_cap rec_g rec_tbl (Some (cstring_cap rec_g 0)) [] 20) = Reject /\
  tree_err_shifts rec_g rec_tbl [1] 20 = 1 /\
  tree_run_cap rec_g rec_tbl (Some (cstring_cap rec_g 1)) [1] 20 = tree_run_cap rec_g rec_tbl None [1] 20 /\
  res (tree_run_cap rec_g rec_tbl (Some (cstring_cap rec_g 1)) [1] 20) = Reject.
Proof. vm_compute. repeat split. Qed.

(* ... and by the theorem rather than by running the bounded parser *)
Example d16_grammar_one_error_shift_by_theorem :
  tree_run_cap rec_g rec_tbl (Some (cstring_cap rec_g (length [1]))) [1] 20 = tree_run_cap rec_g rec_tbl None [1] 20 /\
  res (tree_run_cap rec_g rec_tbl (Some (cstring_cap rec_g (length [1]))) [1] 20) <> Throw.
Proof.
  apply cstring_capacity_suffices_tree_with_at_most_one_recovery.
  - vm_compute; reflexivity.
  - apply eof_err_not_shiftedb_ok. vm_compute; reflexivity.
  - vm_compute. lia.
Qed.

(* the number of error-token shifts is not the height: discarded bytes pay for later shifts.  "abb" shifts the
   error token three times and still fits (5 entries, capacity 5) *)
Example d16_grammar_three_error_shifts_fit :
  tree_err_shifts rec_g rec_tbl [0; 1; 1] 30 = 3 /\ tree_max_height rec_g rec_tbl [0; 1; 1] 30 = 5 /\
  cstring_cap rec_g (length [0; 1; 1]) = 5 /\
  res (tree_run_cap rec_g rec_tbl (Some (cstring_cap rec_g (length [0; 1; 1]))) [0; 1; 1] 30) = Accept rec_tree.
Proof. vm_compute. repeat split. Qed.

(* a grammar with ONE error token,  S -> error b : input "b" recovers once, is accepted, and needs exactly the
   library's capacity (3 entries: state 0, error token, b) -- the one spare slot is what makes recovery work here *)
Definition rec1_raw : raw_grammar :=
  mkRG id_S [mkRT id_a 0%Z NoAssoc; mkRT id_b 0%Z NoAssoc] [id_S]
    [mkRR id_S [RTerm id_error; RTerm id_b] None].
Definition rec1_g : grammar := g_of rec1_raw.
Definition rec1_tbl : table := tbl_of rec1_g.

Example one_recovery_accepted_capacity_exact :
  analyze rec1_raw = Some rec1_g /\ validate rec1_g (sts_of rec1_g) rec1_tbl = true /\
  empty_rules rec1_g = 0 /\ eof_err_not_shiftedb rec1_g rec1_tbl = true /\ no_shifterrb rec1_tbl = false /\
  tree_err_shifts rec1_g rec1_tbl [1] 20 = 1 /\
  tree_max_height rec1_g rec1_tbl [1] 20 = 3 /\ cstring_cap rec1_g (length [1]) = 3 /\
  res (tree_run_cap rec1_g rec1_tbl (Some (cstring_cap rec1_g (length [1]))) [1] 20) = Accept (Node 0 [Leaf 3; Leaf 1]) /\
  res (tree_run_cap rec1_g rec1_tbl (Some (cstring_cap rec1_g (length [1]) - 1)) [1] 20) = Throw.
Proof. vm_compute. repeat split. Qed.

Print Assumptions height_le_bytes_plus_error_shifts_without_empty_rules.
Print Assumptions capacity_suffices_with_at_most_K_recoveries.
Print Assumptions cstring_capacity_plus_extra_recoveries_suffices.
Print Assumptions err_shift_step_event.
Print Assumptions d16_two_error_shifts.
Print Assumptions cstring_capacity_suffices_with_at_most_one_recovery.
