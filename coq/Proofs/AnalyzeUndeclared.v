(* C17 (grammar part): a rule that mentions a symbol not declared in terms()/nterms() makes the rule analysis fail -
   the mirror of utils::find_str throwing "string not found" during construction. *)
Require Import Ctpg.Base.Prelude Ctpg.Model.Grammar.

Lemma map_opt_none_in {A B} (f : A -> option B) (l : list A) x : In x l -> f x = None -> map_opt f l = None.
Proof.
  induction l as [|a l IH]; cbn; [tauto|]. intros [->|Hin] Hx.
  - rewrite Hx. reflexivity.
  - rewrite (IH Hin Hx). destruct (f a); reflexivity.
Qed.

Lemma find_str_none tbl s : ~ In s tbl -> (forall a b, ident_eqb a b = true -> a = b) -> find_str tbl s = None.
Proof.
  intros Hn Heq. induction tbl as [|x t IH]; cbn; [reflexivity|].
  destruct (ident_eqb x s) eqn:E.
  - exfalso. apply Hn. left. apply Heq. exact E.
  - rewrite IH; [reflexivity|]. intros H. apply Hn. right. exact H.
Qed.

Lemma list_eqb_nat_eq : forall a b : list nat, list_eqb Nat.eqb a b = true -> a = b.
Proof.
  induction a as [|x a IH]; intros [|y b]; cbn; try discriminate; [reflexivity|].
  intros H. apply andb_prop in H. destruct H as [H1 H2]. apply Nat.eqb_eq in H1. subst. f_equal. auto.
Qed.

(* the left side of some rule is not a declared nonterminal (nor the fake root) *)
Theorem undeclared_left_side_rejected rg r :
  In r (rg_rules rg) -> ~ In (rr_l r) (rg_nterms rg ++ [id_fake_root]) -> analyze rg = None.
Proof.
  intros Hin Hn. unfold analyze.
  rewrite (map_opt_none_in (fun r0 => find_str (rg_nterms rg ++ [id_fake_root]) (rr_l r0)) _ r); [reflexivity| |].
  - apply in_or_app. left. exact Hin.
  - apply find_str_none; [exact Hn|]. exact list_eqb_nat_eq.
Qed.

(* some right-side symbol of some rule is not declared *)
Theorem find_str_none_analyze_none rg r s :
  In r (rg_rules rg) -> In s (rr_r r) ->
  match s with
  | RTerm id => ~ In id (map rt_id (rg_terms rg) ++ [id_eof; id_error])
  | RNterm n => ~ In n (rg_nterms rg ++ [id_fake_root])
  end ->
  analyze rg = None.
Proof.
  intros Hin Hs Hn. unfold analyze.
  destruct (map_opt (fun r0 => find_str (rg_nterms rg ++ [id_fake_root]) (rr_l r0)) (rg_rules rg ++ [mkRR id_fake_root [RNterm (rg_root rg)] None])); [|reflexivity].
  rewrite (map_opt_none_in _ _ r); [reflexivity| |].
  - apply in_or_app. left. exact Hin.
  - apply (map_opt_none_in _ _ s Hs). destruct s as [id|n]; cbn.
    + rewrite find_str_none; [reflexivity|exact Hn|exact list_eqb_nat_eq].
    + rewrite find_str_none; [reflexivity|exact Hn|exact list_eqb_nat_eq].
Qed.
