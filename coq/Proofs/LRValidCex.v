(* Regression for the two holes found in the first version of Valid/LRValid.v (cell_justified), each with a
   table that the ORIGINAL validate_sound accepted (with no_error_symbol = true) while the driver accepts a
   tree that is not a derivation tree of the input. The repaired validator rejects both; generated tables
   still validate. *)
Require Import Ctpg.Base.Prelude Ctpg.Model.Grammar Ctpg.Model.LRGen Ctpg.Model.Driver
               Ctpg.Spec.Cfg Ctpg.Spec.LRSpec Ctpg.Valid.LRValid.

Definition E := entry_default.
Definition na3 := [NoAssoc; NoAssoc; NoAssoc].
Definition z3 := [0%Z; 0%Z; 0%Z].

(* cex 1: S -> a.  terms a=0 <eof>=1 <err>=2; nonterminals S=0 ##=1; columns S ## a <eof> <err>.
   The cell (0, a) is a SHIFT_ERROR (instead of a shift) into the state [S -> a .]: the driver pushes the
   error token's value without consuming a, then skips a in consume mode, reduces and succeeds. *)
Definition g1 := mkG 3 2 2 1 [[T 0]; [NT 0]] [mkRI 0 0 1; mkRI 1 1 1] [(0,1);(1,1)]
                     z3 na3 [0%Z;0%Z] [NoAssoc;NoAssoc] [Some 0; None].
Definition sts1 := [[mkItem 1 0 1; mkItem 0 0 1]; [mkItem 0 1 1]; [mkItem 1 1 1]].
Definition tbl1 : table :=
  [[mkE KShift (Some 2) false; E; mkE KShiftErr (Some 1) false; E; E];
   [E; E; E; mkE KReduce (Some 0) false; E];
   [E; E; E; mkE KSuccess None false; E]].

Example cex1_run : tree_run g1 tbl1 [0] 20 = Accept (Node 0 [Leaf 2]).      (* Leaf 2 = the error token, not a *)
Proof. vm_compute. reflexivity. Qed.
Example cex1_noerr : no_error_symbol g1 tbl1 = true.
Proof. vm_compute. reflexivity. Qed.
Example cex1_rejected : validate_sound g1 sts1 tbl1 = false.                  (* was true before the repair *)
Proof. vm_compute. reflexivity. Qed.

(* cex 2: S -> a ; A -> (empty) with A unreachable.  nonterminals S=0 A=1 ##=2; columns S A ## a <eof> <err>.
   State 0 carries the (unclosed, but table_sound_ok does not check closure) item [A -> ., <eof>], justifying a
   reduce on <eof>; the goto cell (0, A) is an ERROR cell that carries a target (state 2 = [## -> S .]):
   the driver's reduce reads the target without looking at the kind. Empty input is accepted with a tree
   for A, not for S. *)
Definition g2 := mkG 3 3 3 1 [[T 0]; []; [NT 0]] [mkRI 0 0 1; mkRI 1 1 0; mkRI 2 2 1] [(0,1);(1,1);(2,1)]
                     z3 na3 z3 na3 [Some 0; None; None].
Definition sts2 := [[mkItem 2 0 1; mkItem 0 0 1; mkItem 1 0 1]; [mkItem 0 1 1]; [mkItem 2 1 1]].
Definition tbl2 : table :=
  [[mkE KShift (Some 2) false; mkE KError (Some 2) false; E; mkE KShift (Some 1) false; mkE KReduce (Some 1) false; E];
   [E; E; E; E; mkE KReduce (Some 0) false; E];
   [E; E; E; E; mkE KSuccess None false; E]].

Example cex2_run : tree_run g2 tbl2 [] 20 = Accept (Node 1 []).
Proof. vm_compute. reflexivity. Qed.
Example cex2_noerr : no_error_symbol g2 tbl2 = true.
Proof. vm_compute. reflexivity. Qed.
Example cex2_rejected : validate_sound g2 sts2 tbl2 = false.                  (* was true before the repair *)
Proof. vm_compute. reflexivity. Qed.

(* the mirror generator's tables still validate, also with the error symbol in use (g3: S -> a | <err> a) *)
Definition chk g := match gen g with
                    | inl (sts, tb) => Some (validate g (map st_all sts) tb, no_error_symbol g tb)
                    | inr _ => None
                    end.
Definition g3 := mkG 3 2 3 2 [[T 0]; [T 2; T 0]; [NT 0]] [mkRI 0 0 1; mkRI 0 1 2; mkRI 1 2 1] [(0,2);(2,1)]
                     z3 na3 z3 na3 [Some 0; Some 0; None].
Example gen_ok : (chk g1, chk g2, chk g3) = (Some (true, true), Some (true, true), Some (true, false)).
Proof. vm_compute. reflexivity. Qed.
