(* COMPLETENESS of the pattern front end: "a pattern gets a meaning iff it is written in the documented syntax".

   What was asked                       what is true (all proved here or in the files this one imports)
   ------------------------------------------------------------------------------------------------------------------
   validate g sts tbl = true            REFUTED (the grammar is ambiguous, [pattern_grammar_ambiguous]); strongest variant:
                                        [regex_table_validated_partial] (PatternCompleteTrees.v)
   scans p ts -> derives g ts ->        REFUTED as stated ([wellformed_pattern_accepted_refuted]: "a{4096}", the count
     parse_pattern p <> None            functor of the model declines counts >= 4096, computed modulo 2^32);
                                        true with the exact side condition [counts_ok]: [wellformed_pattern_accepted],
                                        and the equivalence [pattern_accepted_iff]
   meaning                              [parse_pattern_meaning]: the regex is [denote] of the unique right-nested derivation
                                        tree (a|b|c = a|(b|c)), decorated with the lexeme extents of the scanner's tokens
   term_checks / termination            [term_checks] REFUTED (it contains [validate]); proved directly instead
                                        (PatternCompleteTerm.v): [pattern_parse_terminates], every run ends within
                                        7 * length p + 8 iterations, so the fuel 10 * length p + 20 of [parse_pattern] is
                                        always enough and the driver DECIDES the syntax ([pattern_syntax_decided]).
   functors that can fail               the term functors (digit value, set decoder [string_view_to_subset]) are total
                                        functions in the model; the only rule functor that declines is the count {n}. *)
Require Import Ctpg.Base.Prelude Ctpg.Model.Grammar Ctpg.Model.LRGen Ctpg.Model.Driver Ctpg.Model.Dfa
               Ctpg.Model.RegexFront Ctpg.Spec.Cfg Ctpg.Spec.LRSpec Ctpg.Spec.Eval
               Ctpg.Valid.LRValid Ctpg.Valid.LRSafe
               Ctpg.Proofs.LRReflect Ctpg.Proofs.LRMachine Ctpg.Proofs.LRValidFacts Ctpg.Proofs.LRSound
               Ctpg.Proofs.DriverBasics Ctpg.Proofs.DriverEval
               Ctpg.Proofs.PatternLex Ctpg.Proofs.PatternParse
               Ctpg.Proofs.PatternCompleteLR Ctpg.Proofs.PatternCompleteTrees Ctpg.Proofs.PatternCompleteSim
               Ctpg.Proofs.PatternCompleteTerm.
From Coq Require Import NArith.

(* ================================================================================================= *)
(* "p scans completely into the tokens toks"                                                          *)
(* ================================================================================================= *)
(* the scanner applied repeatedly from offset 0 consumes exactly p; toks = (term, start, length) of every lexeme, none of
   them a failure ([tokenize] of Spec/Eval.v ends with TokEof at the end of p) *)
Definition scans (p : list nat) (toks : list (nat * nat * nat)) : Prop :=
  tokenize (S (length p)) regex_opts regex_lexer p 0 = (toks, TokEof (length p)).

Notation ptoks p := (ptoks_from p regex_lexer).

Lemma tokenize_ptoks p F : forall pos toks e,
  tokenize F regex_opts regex_lexer p pos = (toks, TokEof e) -> ptoks p pos toks.
Proof.
  induction F as [|F IH]; intros pos toks e H; [discriminate|].
  cbn [tokenize regex_opts o_skip_ws o_verbose skipn] in H. rewrite Nat.add_0_r in H.
  destruct (skipn pos p) as [|c rest] eqn:Esk.
  - inversion H; subst. apply PtEof. assumption.
  - destruct (snd (regex_lexer false (true_pos p pos) (c :: rest))) as [[t len]|] eqn:El; [|discriminate].
    destruct (tokenize F regex_opts regex_lexer p (pos + len)) as [ts e'] eqn:Et. inversion H; subst.
    eapply PtTok; [eassumption| |eapply IH; eassumption].
    unfold lexv. rewrite (regex_lexer_sp false sp0 false (true_pos p pos)). assumption.
Qed.

Lemma scans_ptoks p toks : scans p toks -> ptoks p 0 toks.
Proof. apply tokenize_ptoks. Qed.

Lemma ptoks_scans p toks : ptoks p 0 toks -> scans p toks.
Proof.
  intros H. pose proof (ptoks_toks _ _ _ _ H) as Ht.
  destruct (toks_from_terms regex_g p regex_lexer regex_lexer_sp regex_lexer_rng 0 _ Ht (Nat.le_0_l _))
    as (_ & Hle & toks' & _ & Htk).
  specialize (Htk (S (length p)) ltac:(lia)). unfold scans.
  rewrite (ptoks_det _ _ _ _ H _ (tokenize_ptoks _ _ _ _ _ Htk)). exact Htk.
Qed.

Lemma scans_length p toks : scans p toks -> length toks <= length p.
Proof.
  intros H. apply scans_ptoks in H.
  pose proof (ptoks_length regex_g p regex_lexer regex_lexer_rng 0 toks H (Nat.le_0_l _)). lia.
Qed.

(* ================================================================================================= *)
(* the side condition: the counts {n}                                                                 *)
(* ================================================================================================= *)
Definition digit_at (p : list nat) (s : nat) : N := N.of_nat (nth s p 48 - 48).

(* the value the functors of  number -> digit | number digit  compute: decimal, modulo 2^32 *)
Fixpoint count_acc (p : list nat) (acc : N) (toks : list (nat * nat * nat)) : N :=
  match toks with
  | (0, s, _) :: rest => count_acc p ((acc * 10 + digit_at p s) mod two32)%N rest
  | _ => acc
  end.
Definition count_val (p : list nat) (toks : list (nat * nat * nat)) : N :=
  match toks with
  | (0, s, _) :: rest => count_acc p (digit_at p s) rest
  | _ => 0%N
  end.
(* every '{' token (term 8) is followed by digits whose value is below 4096 *)
Fixpoint counts_ok (p : list nat) (toks : list (nat * nat * nat)) : bool :=
  match toks with
  | [] => true
  | (t, _, _) :: rest => (if Nat.eqb t 8 then (count_val p rest <? 4096)%N else true) && counts_ok p rest
  end.

(* ================================================================================================= *)
(* (P3) the meaning of a decorated derivation tree                                                    *)
(* ================================================================================================= *)
Fixpoint number_of (p : list nat) (t : ptree) : N :=
  match t with
  | PNode 0 [PLeaf _ s _ _] => digit_at p s
  | PNode 1 [n; PLeaf _ s _ _] => ((number_of p n * 10 + digit_at p s) mod two32)%N
  | _ => 0%N
  end.

Definition opt2 (f : regex -> regex -> regex) (a b : option regex) : option regex :=
  match a, b with Some x, Some y => Some (f x y) | _, _ => None end.

(* the evident reading of the rules: concatenation binds tighter than '|', a postfix operator applies to the preceding
   primary, {n} repeats it, a digit / a primary lexeme is the character set it denotes *)
Fixpoint denote (p : list nat) (t : ptree) : option regex :=
  match t with
  | PNode 2 [PLeaf _ s _ _] => Some (RSet (cs_single (N.to_nat (digit_at p s) + 48)))
  | PNode 3 [PLeaf _ s l _] => Some (RSet (string_view_to_subset (slice_of p s (s + l))))
  | PNode 4 [_; e; _] => denote p e
  | PNode 5 [x] => denote p x
  | PNode 6 [x; _] => option_map RStar (denote p x)
  | PNode 7 [x; _] => option_map RPlus (denote p x)
  | PNode 8 [x; _] => option_map ROpt (denote p x)
  | PNode 9 [x; _; n; _] =>
      if (number_of p n <? 4096)%N then option_map (fun r => RRep r (N.to_nat (number_of p n))) (denote p x) else None
  | PNode 10 [x] => denote p x
  | PNode 11 [a; b] => opt2 RCat (denote p a) (denote p b)
  | PNode 12 [x] => denote p x
  | PNode 13 [a; _; b] => opt2 RAlt (denote p a) (denote p b)
  | PNode 14 [x] => denote p x
  | _ => None
  end.

(* the value the functors of the pattern parser compute for a parse tree *)
Definition rx_f (r : nat) (args : list rval) : rval := snd (regex_rule_f r tt args).
Lemma rx_ctx_free r c args : regex_rule_f r c args = (c, rx_f r args).
Proof. destruct c. reflexivity. Qed.

Definition rx_value (p : list nat) (pt : ptree) : rval :=
  value_of rval unit (regex_term_f p) (fun _ => VTok) regex_rule_f tt pt.

Lemma rx_value_node p r ch : rx_value p (PNode r ch) = rx_f r (map (rx_value p) ch).
Proof.
  unfold rx_value, value_of. rewrite eval_node.
  rewrite (cf_eval_list_eq rval unit (regex_term_f p) (fun _ => VTok) regex_rule_f rx_f rx_ctx_free tt ch).
  rewrite rx_ctx_free. reflexivity.
Qed.

Lemma rx_value_leaf p a s l sp : rx_value p (PLeaf a s l sp) = regex_term_f p a s l sp.
Proof. reflexivity. Qed.

Definition val_of_opt (o : option regex) : rval := match o with Some r => VRe r | None => VBad end.

Lemma regex_err_idx : err_idx regex_g = 11.
Proof. vm_compute. reflexivity. Qed.

(* a parse tree whose shape is a given tree: read off its structure *)
Ltac inv_strip :=
  repeat match goal with
         | H : strip regex_g ?pt = Node _ _ |- _ =>
             destruct pt as [? ? ? ?|?|? ?]; cbn [strip] in H; try discriminate H; inversion H; clear H; subst
         | H : strip regex_g ?pt = Leaf _ |- _ =>
             destruct pt as [? ? ? ?|?|? ?]; cbn [strip] in H; rewrite ?regex_err_idx in H;
             try discriminate H; inversion H; clear H; subst
         | H : map (strip regex_g) ?ch = _ :: _ |- _ =>
             destruct ch; cbn [map] in H; try discriminate H; inversion H; clear H; subst
         | H : map (strip regex_g) ?ch = [] |- _ => destruct ch; [clear H|discriminate H]
         end.

Section Meaning.
  Variable p : list nat.

  Definition sem_ok (l : nat) (pt : ptree) : Prop :=
    match l with
    | 5 => rx_value p pt = VNum (number_of p pt)
    | _ => rx_value p pt = val_of_opt (denote p pt)
    end.

  Lemma rx_value_denote l t : rnt l t -> forall pt, strip regex_g pt = t -> sem_ok l pt.
  Proof.
    induction 1; intros pt Hs; inv_strip;
      repeat match goal with
             | IH : forall pt, strip regex_g pt = strip regex_g ?x -> _ |- _ => specialize (IH x eq_refl); cbn [sem_ok] in IH
             end;
      cbn [sem_ok]; rewrite ?rx_value_node; cbn [map]; rewrite ?rx_value_node; cbn [map]; rewrite ?rx_value_leaf;
      repeat match goal with H : rx_value p _ = _ |- _ => rewrite H; clear H end;
      cbn [regex_term_f denote number_of]; unfold rx_f;
      repeat match goal with |- context [denote p ?x] => destruct (denote p x) end;
      cbn [regex_rule_f val_of_opt snd option_map opt2]; try reflexivity.
    all: destruct (number_of p _ <? 4096)%N; reflexivity.
  Qed.

  (* ---------- counts ---------- *)
  Notation lv := (pleaves regex_g).

  Lemma number_count l t : rnt l t -> l = 5 -> forall pt, strip regex_g pt = t ->
    forall R, count_val p (lv pt ++ R) = count_acc p (number_of p pt) R.
  Proof.
    induction 1; intros E; try discriminate E; intros pt Hs R; inv_strip.
    - reflexivity.
    - cbn [pleaves flat_map]. rewrite app_nil_r, <- app_assoc. cbn [app].
      rewrite (IHrnt eq_refl _ eq_refl). reflexivity.
  Qed.

  Lemma number_counts_ok l t : rnt l t -> l = 5 -> forall pt, strip regex_g pt = t ->
    forall R, counts_ok p (lv pt ++ R) = counts_ok p R.
  Proof.
    induction 1; intros E; try discriminate E; intros pt Hs R; inv_strip.
    - reflexivity.
    - cbn [pleaves flat_map]. rewrite app_nil_r, <- app_assoc. cbn [app].
      rewrite (IHrnt eq_refl _ eq_refl). reflexivity.
  Qed.

  Definition is_some {A} (o : option A) : bool := match o with Some _ => true | None => false end.

  Lemma denote_counts l t : rnt l t -> l <> 5 -> forall pt, strip regex_g pt = t ->
    forall R, counts_ok p (lv pt ++ R) = is_some (denote p pt) && counts_ok p R.
  Proof.
    induction 1; intros E; try (exfalso; apply E; reflexivity); intros pt Hs R; inv_strip;
      repeat match goal with
             | IH : _ <> 5 -> forall pt, strip regex_g pt = strip regex_g ?x -> _ |- _ =>
                 specialize (IH ltac:(discriminate) x eq_refl)
             end;
      cbn [pleaves flat_map]; rewrite ?app_nil_r, <- ?app_assoc; cbn [app counts_ok Nat.eqb andb];
      repeat (cbn [app counts_ok Nat.eqb andb];
              match goal with H : forall R, counts_ok p (lv ?x ++ R) = _ |- _ => rewrite H; clear H end);
      cbn [app counts_ok Nat.eqb andb denote is_some];
      try (repeat match goal with |- context [denote p ?x] => destruct (denote p x) end; reflexivity).
    (* rule 9 *)
    match goal with
    | Hn : rnt 5 (strip regex_g ?n) |- _ =>
        rewrite (number_count _ _ Hn eq_refl n eq_refl), (number_counts_ok _ _ Hn eq_refl n eq_refl)
    end.
    cbn [count_acc counts_ok Nat.eqb andb].
    destruct (number_of p _ <? 4096)%N; destruct (denote p _); reflexivity.
  Qed.
End Meaning.

(* ================================================================================================= *)
(* the accepted run                                                                                   *)
(* ================================================================================================= *)
Definition no_eof_shiftb (g : grammar) (tbl : table) : bool :=
  forallb (fun row => negb (kind_eqb (e_kind (nth (nterm_count g + eof_idx g) row entry_default)) KShift)) tbl.

Lemma no_eof_shift_ok g tbl : no_eof_shiftb g tbl = true ->
  forall st e, cell tbl st (nterm_count g + eof_idx g) = inl e -> e_kind e <> KShift.
Proof.
  intros H st e Hc. unfold cell in Hc.
  destruct (nth_error tbl st) as [row|] eqn:E1; [|discriminate].
  destruct (nth_error row (nterm_count g + eof_idx g)) as [e'|] eqn:E2; [|discriminate]. inversion Hc; subst e'.
  unfold no_eof_shiftb in H. rewrite forallb_forall in H. specialize (H row (nth_error_In _ _ E1)).
  rewrite (nth_error_nth _ _ entry_default E2) in H. intros Ek. rewrite Ek in H. discriminate.
Qed.

Lemma regex_no_eof_shift : no_eof_shiftb regex_g regex_tb = true.
Proof. vm_compute. reflexivity. Qed.

(* the driver run of [parse_pattern] on a pattern that scans into the yield of a right-nested tree: accepted after
   exactly (leaves + nodes + 1) iterations with the value of the decorated tree; every fuel from there on is enough *)
Theorem pattern_run_complete p toks t :
  scans p toks -> rnt 0 t -> yield t = map tok_term toks ->
  exists pt, strip regex_g pt = t /\ pleaves regex_g pt = toks /\
    forall fuel, tsize t + 1 <= fuel -> pattern_run regex_g regex_tb p fuel = Accept (rx_value p pt).
Proof.
  intros Hsc Ht Hy. apply scans_ptoks in Hsc.
  destruct (right_nested_accepted t Ht) as (s' & Hm & Ha). rewrite Hy in Hm.
  destruct (fwd_accept regex_g regex_tb p regex_lexer regex_lexer_sp regex_lexer_rng
              (no_eof_shift_ok _ _ regex_no_eof_shift) (tsize t) toks s' t Hsc Hm Ha) as (pt & Hst & Hlv & Hrun).
  exists pt. split; [assumption|]. split; [assumption|].
  intros fuel Hf. specialize (Hrun (fuel - tsize t - 1)). replace (tsize t + S (fuel - tsize t - 1)) with fuel in Hrun by lia.
  pose proof (run_tree_eval_ctx_free rval unit regex_g regex_tb regex_opts p None regex_lexer
                (regex_term_f p) (fun _ => VTok) regex_rule_f rx_f rx_ctx_free tt fuel) as He.
  unfold pattern_run.
  destruct (run ptree (list (nat * list ptree)) regex_g regex_tb regex_opts p None regex_lexer
                tree_term_f tree_err_f tree_rule_f fuel []) as [[rT sT] outT].
  destruct (run rval unit regex_g regex_tb regex_opts p None regex_lexer (regex_term_f p) (fun _ => VTok) regex_rule_f fuel tt)
    as [[rA sA] outA].
  cbn [fst] in *. destruct He as (He & _). subst rT. rewrite He. reflexivity.
Qed.

Lemma rnt_fuel p toks t : scans p toks -> rnt 0 t -> yield t = map tok_term toks -> tsize t + 1 <= 10 * length p + 20.
Proof.
  intros Hsc Ht Hy. pose proof (rnt_size 0 t Ht) as [_ Hs]. pose proof (scans_length p toks Hsc) as Hl.
  rewrite Hy, map_length in Hs. cbn [size_off] in Hs. lia.
Qed.

(* ================================================================================================= *)
(* (P3) MEANING                                                                                       *)
(* ================================================================================================= *)
(* p scans into toks, t is the right-nested derivation tree of the term sequence (unique: [right_nested_unique]):
   [parse_pattern p] is the meaning of t decorated with the lexeme extents *)
Theorem parse_pattern_meaning p toks t :
  scans p toks -> rnt 0 t -> yield t = map tok_term toks ->
  exists pt, strip regex_g pt = t /\ pleaves regex_g pt = toks /\ parse_pattern p = denote p pt.
Proof.
  intros Hsc Ht Hy. destruct (pattern_run_complete p toks t Hsc Ht Hy) as (pt & Hst & Hlv & Hrun).
  exists pt. split; [assumption|]. split; [assumption|].
  rewrite parse_pattern_eq, parse_pattern_with_run, (Hrun _ (rnt_fuel p toks t Hsc Ht Hy)).
  pose proof (rx_value_denote p 0 t Ht pt Hst) as Hv. cbn [sem_ok] in Hv. rewrite Hv.
  destruct (denote p pt); reflexivity.
Qed.

(* the meaning exists exactly when no count is too large *)
Lemma denote_some_iff p toks t pt :
  rnt 0 t -> strip regex_g pt = t -> pleaves regex_g pt = toks ->
  (denote p pt <> None <-> counts_ok p toks = true).
Proof.
  intros Ht Hst Hlv. pose proof (denote_counts p 0 t Ht ltac:(discriminate) pt Hst []) as H.
  rewrite app_nil_r, Hlv in H. rewrite H. cbn [counts_ok]. rewrite andb_true_r.
  destruct (denote p pt); cbn; split; congruence.
Qed.

(* the decoration is determined by the tree and the tokens up to source points, which the meaning ignores: the theorem
   holds for EVERY parse tree of shape t with the scanner's tokens at its leaves *)
Lemma denote_det p l t : rnt l t -> forall pt1 pt2, strip regex_g pt1 = t -> strip regex_g pt2 = t ->
  forall R1 R2, pleaves regex_g pt1 ++ R1 = pleaves regex_g pt2 ++ R2 ->
  R1 = R2 /\ number_of p pt1 = number_of p pt2 /\ denote p pt1 = denote p pt2.
Proof.
  induction 1; intros pt1 pt2 H1 H2 R1 R2 HL; inv_strip;
    cbn [pleaves flat_map] in HL; rewrite ?app_nil_r, <- ?app_assoc in HL; cbn [app] in HL;
    repeat (first
      [ match goal with
        | HL : (_, _, _) :: _ = (_, _, _) :: _ |- _ => inversion HL; clear HL; subst
        end
      | match goal with
        | IH : forall pt1 pt2, strip regex_g pt1 = strip regex_g ?x -> _,
          HS : strip regex_g ?y = strip regex_g ?x,
          HL : pleaves regex_g ?x ++ _ = pleaves regex_g ?y ++ _ |- _ =>
            let HL' := fresh "HL" in let Hn := fresh "Hn" in let Hd := fresh "Hd" in
            destruct (IH x y eq_refl HS _ _ HL) as (HL' & Hn & Hd); clear IH HL
        end ]);
    cbn [number_of denote];
    repeat match goal with
           | H : number_of p _ = number_of p _ |- _ => rewrite H; clear H
           | H : denote p _ = denote p _ |- _ => rewrite H; clear H
           end;
    auto.
Qed.

Theorem parse_pattern_meaning_all p toks t pt :
  scans p toks -> rnt 0 t -> yield t = map tok_term toks ->
  strip regex_g pt = t -> pleaves regex_g pt = toks -> parse_pattern p = denote p pt.
Proof.
  intros Hsc Ht Hy Hst Hlv. destruct (parse_pattern_meaning p toks t Hsc Ht Hy) as (pt0 & Hst0 & Hlv0 & ->).
  apply (denote_det p 0 t Ht pt0 pt Hst0 Hst [] []). rewrite !app_nil_r. congruence.
Qed.

(* a digit token is one byte, a decimal digit: the set [denote] gives a digit primary is that byte *)
Lemma lex_tok0 rest len : lex_at rest 0 = Tok 0 len ->
  exists c r, rest = c :: r /\ is_dec_digit c = true /\ len = 1.
Proof.
  unfold lex_at. destruct (Nat.leb (e rest) 0) eqn:El; [discriminate|].
  unfold rd, e in *. destruct rest as [|c r]; [discriminate|]. cbn [length Nat.ltb Nat.leb nth_error].
  destruct (special c) as [t|] eqn:Es.
  - intros H. inversion H; subst t. apply special_range in Es. lia.
  - destruct (is_dec_digit c) eqn:Ed.
    + intros H. inversion H. exists c, r. auto.
    + destruct (match_primary (c :: r) 0) as [[|] l|]; discriminate.
Qed.

Lemma ptoks_digit p pos toks : ptoks p pos toks -> forall s l, In (0, s, l) toks ->
  l = 1 /\ is_dec_digit (nth s p 0) = true.
Proof.
  induction 1 as [|pos c rest t len ws Hsk Hl _ IH]; intros s l Hin; [contradiction|].
  destruct Hin as [Heq|Hin]; [|apply IH; assumption]. inversion Heq; subst t pos len.
  apply toks_from_lex, lex_tok0 in Hl. destruct Hl as (c' & r' & E & Hd & ->). inversion E; subst c' r'.
  split; [reflexivity|]. rewrite <- (Nat.add_0_r s), <- nth_skipn_add, Hsk. exact Hd.
Qed.

Theorem digit_primary_meaning p toks s l sp :
  scans p toks -> In (0, s, l) toks -> denote p (PNode 2 [PLeaf 0 s l sp]) = Some (RSet (cs_single (nth s p 0))).
Proof.
  intros Hsc Hin. destruct (ptoks_digit p 0 toks (scans_ptoks _ _ Hsc) s l Hin) as [_ Hd].
  cbn [denote]. unfold digit_at. rewrite Nat2N.id.
  unfold is_dec_digit in Hd. apply andb_true_iff in Hd. destruct Hd as [H1 _]. apply Nat.leb_le in H1.
  replace (nth s p 48) with (nth s p 0).
  - replace (nth s p 0 - 48 + 48) with (nth s p 0) by lia. reflexivity.
  - destruct (Nat.lt_ge_cases s (length p)) as [Hlt|Hge]; [apply nth_indep; assumption|].
    rewrite (nth_overflow p 0 Hge) in H1. lia.
Qed.

(* ================================================================================================= *)
(* (P2) COMPLETENESS                                                                                  *)
(* ================================================================================================= *)
Theorem wellformed_pattern_accepted p toks :
  scans p toks -> derives regex_g (map tok_term toks) -> counts_ok p toks = true ->
  parse_pattern p <> None.
Proof.
  intros Hsc Hd Hc. destruct (derives_right_nested _ Hd) as (t & Ht & Hy).
  destruct (parse_pattern_meaning p toks t Hsc Ht Hy) as (pt & Hst & Hlv & ->).
  apply (denote_some_iff p toks t pt Ht Hst Hlv). exact Hc.
Qed.

(* without the side condition the statement is false: a{4096} scans into a sentence of the grammar and is rejected *)
Definition pat_a4096 : list nat := [97; 123; 52; 48; 57; 54; 125].

Theorem wellformed_pattern_accepted_refuted :
  exists p toks, scans p toks /\ derives regex_g (map tok_term toks) /\ parse_pattern p = None.
Proof.
  exists pat_a4096, [(1,0,1); (8,1,1); (0,2,1); (0,3,1); (0,4,1); (0,5,1); (9,6,1)].
  split; [vm_compute; reflexivity|]. split; [|vm_compute; reflexivity].
  eexists. apply (rnt_derives_tree
    (Node 14 [Node 12 [Node 10 [Node 9 [Node 3 [Leaf 1]; Leaf 8;
       Node 1 [Node 1 [Node 1 [Node 0 [Leaf 0]; Leaf 0]; Leaf 0]; Leaf 0]; Leaf 9]]]])).
  repeat constructor.
Qed.

(* the count is taken modulo 2^32: a{4294967297} is a{1} *)
Example count_wraps :
  parse_pattern [97; 123; 52; 50; 57; 52; 57; 54; 55; 50; 57; 55; 125] = Some (RRep (RSet (cs_single 97)) 1).
Proof. vm_compute. reflexivity. Qed.

(* the equivalence: soundness is Proofs/PatternParse.v [parse_pattern_wellformed] *)
Theorem pattern_accepted_iff p :
  parse_pattern p <> None <->
  exists toks, scans p toks /\ derives regex_g (map tok_term toks) /\ counts_ok p toks = true.
Proof.
  split.
  - intros Hne. destruct (parse_pattern p) as [r|] eqn:E; [clear Hne|contradiction].
    destruct (parse_pattern_wellformed p r E) as (toks & Htk & Hd).
    assert (Hsc : scans p toks) by (apply Htk; lia).
    exists toks. split; [assumption|]. split; [assumption|].
    destruct (derives_right_nested _ Hd) as (t & Ht & Hy).
    destruct (parse_pattern_meaning p toks t Hsc Ht Hy) as (pt & Hst & Hlv & Hpp).
    apply (denote_some_iff p toks t pt Ht Hst Hlv). rewrite <- Hpp, E. discriminate.
  - intros (toks & Hsc & Hd & Hc). eapply wellformed_pattern_accepted; eassumption.
Qed.

(* in the form asked for: with the term sequence only; the count condition needs the lexeme positions, so it is stated on
   the tokens [scans] determines *)
Corollary pattern_accepted_iff_terms p :
  parse_pattern p <> None <->
  exists ts, toks_from p regex_lexer 0 ts /\ derives regex_g ts /\
             forall toks, scans p toks -> counts_ok p toks = true.
Proof.
  rewrite pattern_accepted_iff. split.
  - intros (toks & Hsc & Hd & Hc). exists (map tok_term toks). split; [apply ptoks_toks, scans_ptoks; assumption|].
    split; [assumption|]. intros toks' Hsc'. unfold scans in *. congruence.
  - intros (ts & Hts & Hd & Hc). destruct (toks_ptoks _ _ _ _ Hts) as (toks & Hp & Hm).
    apply ptoks_scans in Hp. exists toks. rewrite Hm. auto.
Qed.

Corollary pattern_rejected_iff p :
  parse_pattern p = None <->
  ~ exists toks, scans p toks /\ derives regex_g (map tok_term toks) /\ counts_ok p toks = true.
Proof.
  rewrite <- pattern_accepted_iff. split; [intros -> H; exact (H eq_refl)|].
  intros H. destruct (parse_pattern p); [exfalso; apply H; discriminate|reflexivity].
Qed.

(* patterns without a count: no side condition *)
Corollary wellformed_pattern_accepted_no_count p toks :
  scans p toks -> derives regex_g (map tok_term toks) -> ~ In 8 (map tok_term toks) -> parse_pattern p <> None.
Proof.
  intros Hsc Hd Hn. apply (wellformed_pattern_accepted p toks Hsc Hd).
  clear Hsc Hd. induction toks as [|[[t s] l] toks IH]; [reflexivity|]. cbn [counts_ok].
  cbn [map tok_term fst In] in Hn. destruct (Nat.eqb_spec t 8) as [->|_]; [tauto|]. cbn. apply IH. tauto.
Qed.

(* the accepted value, for every sufficient fuel, not only the fuel [parse_pattern] uses *)
Corollary pattern_meaning_any_fuel p toks t fuel :
  scans p toks -> rnt 0 t -> yield t = map tok_term toks -> 10 * length p + 20 <= fuel ->
  exists pt, strip regex_g pt = t /\ pleaves regex_g pt = toks /\
             pattern_run regex_g regex_tb p fuel = Accept (val_of_opt (denote p pt)).
Proof.
  intros Hsc Ht Hy Hf. destruct (pattern_run_complete p toks t Hsc Ht Hy) as (pt & Hst & Hlv & Hrun).
  exists pt. split; [assumption|]. split; [assumption|].
  rewrite (Hrun fuel) by (pose proof (rnt_fuel p toks t Hsc Ht Hy); lia).
  pose proof (rx_value_denote p 0 t Ht pt Hst) as Hv. cbn [sem_ok] in Hv. rewrite Hv. reflexivity.
Qed.

(* ================================================================================================= *)
(* with termination (PatternCompleteTerm.v): the driver decides the syntax                            *)
(* ================================================================================================= *)
Notation the_run p := (pattern_run regex_g regex_tb p (10 * length p + 20)).

Theorem pattern_syntax_decided p :
  ((exists v, the_run p = Accept v) <-> exists toks, scans p toks /\ derives regex_g (map tok_term toks)) /\
  (the_run p = Reject <-> ~ exists toks, scans p toks /\ derives regex_g (map tok_term toks)).
Proof.
  assert (H1 : (exists v, the_run p = Accept v) <-> exists toks, scans p toks /\ derives regex_g (map tok_term toks)).
  { split.
    - intros (v & Hv). destruct (pattern_accept_wellformed p _ v Hv) as (toks & Htk & Hd & _).
      exists toks. split; [apply Htk; lia|assumption].
    - intros (toks & Hsc & Hd). destruct (derives_right_nested _ Hd) as (t & Ht & Hy).
      destruct (pattern_run_complete p toks t Hsc Ht Hy) as (pt & _ & _ & Hrun).
      exists (rx_value p pt). apply Hrun. eapply rnt_fuel; eassumption. }
  split; [exact H1|]. split.
  - intros Hr Hex. apply H1 in Hex. destruct Hex as (v & Hv). congruence.
  - intros Hn. destruct (pattern_parse_decides p) as [Hv|Hr]; [|exact Hr]. exfalso. apply Hn, H1. exact Hv.
Qed.

(* a pattern written in the syntax is refused only by the count functor *)
Corollary wellformed_refused_only_by_count p toks :
  scans p toks -> derives regex_g (map tok_term toks) -> parse_pattern p = None -> counts_ok p toks = false.
Proof.
  intros Hsc Hd Hn. destruct (counts_ok p toks) eqn:E; [|reflexivity].
  exfalso. exact (wellformed_pattern_accepted p toks Hsc Hd E Hn).
Qed.

(* ================================================================================================= *)
(* sanity examples                                                                                    *)
(* ================================================================================================= *)
Definition cs_of (l : list nat) : charset := fold_left (fun cs c => update cs c true) l cs_empty.

Example ex_a : parse_pattern [97] = Some (RSet (cs_single 97)).
Proof. vm_compute. reflexivity. Qed.

(* "ab|c" : concatenation binds tighter than '|' *)
Example ex_ab_or_c :
  parse_pattern [97; 98; 124; 99] = Some (RAlt (RCat (RSet (cs_single 97)) (RSet (cs_single 98))) (RSet (cs_single 99))).
Proof. vm_compute. reflexivity. Qed.

(* "(a|b)*abb" *)
Example ex_aorb_star_abb :
  parse_pattern [40; 97; 124; 98; 41; 42; 97; 98; 98] =
  Some (RCat (RCat (RCat (RStar (RAlt (RSet (cs_single 97)) (RSet (cs_single 98)))) (RSet (cs_single 97)))
                   (RSet (cs_single 98))) (RSet (cs_single 98))).
Proof. vm_compute. reflexivity. Qed.

(* "[a-c]+d" *)
Example ex_range_plus_d :
  parse_pattern [91; 97; 45; 99; 93; 43; 100] = Some (RCat (RPlus (RSet (cs_of [97; 98; 99]))) (RSet (cs_single 100))).
Proof. vm_compute. reflexivity. Qed.

(* "a{3}" *)
Example ex_a_rep3 : parse_pattern [97; 123; 51; 125] = Some (RRep (RSet (cs_single 97)) 3).
Proof. vm_compute. reflexivity. Qed.

(* "\x41" *)
Example ex_hex : parse_pattern [92; 120; 52; 49] = Some (RSet (cs_single 65)).
Proof. vm_compute. reflexivity. Qed.

(* "[^a]*" *)
Example ex_inverted_star : parse_pattern [91; 94; 97; 93; 42] = Some (RStar (RSet (cs_flip (cs_single 97)))).
Proof. vm_compute. reflexivity. Qed.

(* "a|b|c" groups to the right *)
Example ex_alt_right_nested :
  parse_pattern [97; 124; 98; 124; 99] = Some (RAlt (RSet (cs_single 97)) (RAlt (RSet (cs_single 98)) (RSet (cs_single 99)))).
Proof. vm_compute. reflexivity. Qed.

(* "(", "a{", "[a", "", and a count that is too large *)
Example ex_rejected :
  map parse_pattern [[40]; [97; 123]; [91; 97]; []; pat_a4096] = [None; None; None; None; None].
Proof. vm_compute. reflexivity. Qed.

(* the theorem applied: "(a|b)*abb" through [pattern_accepted_iff], without running the parser *)
Example ex_by_theorem : parse_pattern [40; 97; 124; 98; 41; 42; 97; 98; 98] <> None.
Proof.
  apply pattern_accepted_iff.
  exists [(6,0,1); (1,1,1); (5,2,1); (1,3,1); (7,4,1); (2,5,1); (1,6,1); (1,7,1); (1,8,1)].
  split; [vm_compute; reflexivity|]. split; [|vm_compute; reflexivity].
  eexists. apply (rnt_derives_tree
    (Node 14 [Node 12 [Node 11 [Node 11 [Node 11 [Node 10 [Node 6 [Node 4 [Leaf 6;
        Node 14 [Node 13 [Node 12 [Node 10 [Node 5 [Node 3 [Leaf 1]]]]; Leaf 5; Node 12 [Node 10 [Node 5 [Node 3 [Leaf 1]]]]]];
        Leaf 7]; Leaf 2]]; Node 5 [Node 3 [Leaf 1]]]; Node 5 [Node 3 [Leaf 1]]]; Node 5 [Node 3 [Leaf 1]]]]])).
  repeat constructor.
Qed.

Print Assumptions pattern_run_complete.
Print Assumptions parse_pattern_meaning.
Print Assumptions parse_pattern_meaning_all.
Print Assumptions digit_primary_meaning.
Print Assumptions wellformed_pattern_accepted.
Print Assumptions wellformed_pattern_accepted_refuted.
Print Assumptions pattern_accepted_iff.
Print Assumptions pattern_accepted_iff_terms.
Print Assumptions pattern_rejected_iff.
Print Assumptions pattern_syntax_decided.
Print Assumptions pattern_parse_terminates.
