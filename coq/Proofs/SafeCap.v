(* (S5) Independence of the driver from the capacity of its fixed-size stacks and from the intension of its oracles.
   (a) The run with stack_cap = Some n is the run with unbounded stacks as long as no stack outgrows n; otherwise it ends
       in Throw at the first push that does not fit -- never in Crash, never with a different value.  No hypothesis
       on the table.
   (b) The run depends on the lexer / the semantic functors only extensionally (the lexer only at the verbosity of
       the options and on non-empty input). *)
Require Import Ctpg.Base.Prelude Ctpg.Model.Grammar Ctpg.Model.LRGen Ctpg.Model.Driver
               Ctpg.Proofs.DriverBasics Ctpg.Proofs.SafeBasics.

Section Cap.
  Variables V C : Type.
  Variable g : grammar.
  Variable tbl : table.
  Variable opts : options.
  Variable buf : list nat.
  Variable lexer : bool -> spoint -> list nat -> list lex_event * option (nat * nat).
  Variable term_f : nat -> nat -> nat -> spoint -> V.
  Variable err_f : spoint -> V.
  Variable rule_f : nat -> C -> list V -> C * V.
  Variable n : nat.                                  (* the capacity *)

  Notation pst := (pstate V C).
  Notation step0 := (step V C g tbl opts buf None lexer term_f err_f rule_f).
  Notation stepn := (step V C g tbl opts buf (Some n) lexer term_f err_f rule_f).
  Notation red0 := (do_reduce V C g tbl None rule_f).
  Notation redn := (do_reduce V C g tbl (Some n) rule_f).
  Notation run_gh0 := (run_gh V C g tbl opts buf None lexer term_f err_f rule_f).
  Notation run_ghn := (run_gh V C g tbl opts buf (Some n) lexer term_f err_f rule_f).
  Notation gctx := (get_current_term V C g opts buf lexer).

  Definition height (s : pst) : nat := length (ps_cursors s).
  (* the two stacks move in step (true of every table), and fit *)
  Definition exact (s : pst) : Prop := length (ps_cursors s) = S (length (ps_values s)).
  Definition hinv (s : pst) : Prop := exact s /\ height s <= n.

  (* ---------- the capacity-n step keeps the stacks within n ---------- *)
  Lemma redn_hinv s r res : exact s -> red_spec V C g tbl (Some n) rule_f s r res ->
    match res with inl (s3, _) => hinv s3 | inr _ => True end.
  Proof.
    intros Hex Hred.
    inversion Hred as [| | | | | | | |ri top cs e nst c' v (Hn & Hle & Hsk) Hc Hf Ha Hv Hrf Hf2]; subst; try exact I.
    unfold hinv, exact, height; simp_ps. cbn [full] in Hf. apply Nat.leb_gt in Hf.
    apply (f_equal (@length nat)) in Hsk. rewrite skipn_length in Hsk. unfold exact in Hex.
    cbn [length] in *. rewrite skipn_length. lia.
  Qed.

  Lemma stepn_hinv s : hinv s ->
    match fst (stepn s) with inl s' => hinv s' | inr (_, s') => height s' <= n end.
  Proof.
    intros [Hex Hh]. unfold height in Hh. apply step_cases2.
    - intros _. exact Hh.
    - intros s1 ev1 Hg. destruct (gct_stacks Hg) as (E & _). unfold height. rewrite E. exact Hh.
    - intros cur cs s1 t ev1 r Hcs Hg Ha.
      destruct (gct_stacks Hg) as (Hcs1 & Hvs1 & _).
      assert (Hex1 : exact s1) by (unfold exact; rewrite Hcs1, Hvs1; exact Hex).
      assert (Hh1 : length (ps_cursors s1) <= n) by (rewrite Hcs1; exact Hh).
      assert (Hexc : exact (clr s1)) by (unfold exact; simp_ps; exact Hex1).
      unfold exact in Hex1.
      inversion Ha as [c Hce|e Hce Hk Hcn Htm|e Hce Hk Hcn Htm|e Hce Hk Hcn Hrc|e top cs' Hce Hk Hcn Hrc Htl|e Hce Hk Hcn Hrc Htl
                      |e Hce Hk Harg|e nst Hce Hk Harg Hf|e nst Hce Hk Harg Hf Hov|e nst Hce Hk Harg Hf Hov
                      |e nst Hce Hk Harg Hf|e Hce Hk Harg|e r0 s3 ev Hce Hk Harg Hred|e r0 res Hce Hk Harg Hred
                      |e Hce Hk Hrv|e v rest Hce Hk Hrv];
        subst r; unfold hinv, exact, height; simp_ps; auto;
        try (cbn [full] in Hf; apply Nat.leb_gt in Hf; cbn [length]; lia).
      + (* pop *) rewrite Hcs1, Hcs in *. cbn [tl length] in *.
        destruct (ps_values s1); cbn [tl length] in *; [subst cs; discriminate|]. subst cs. cbn [length] in *. lia.
      + (* pop fails *) destruct (ps_cursors s1); cbn [tl length] in *; lia.
      + exact (redn_hinv _ _ _ Hexc Hred).
  Qed.

  (* ---------- do_reduce with and without capacity ---------- *)
  Lemma red_cap s r : exact s ->
    redn s r = red0 s r \/
    (redn s r = inr Throw /\ n <= height s /\
     match red0 s r with
     | inl (s3, _) => n < height s3
     | inr x => x = Crash CrGotoUninit
     end).
  Proof.
    intros Hex. unfold exact in Hex. unfold do_reduce, height.
    destruct (nth_error (rule_infos g) r) as [ri|]; [|left; reflexivity].
    destruct (Nat.ltb (length (ps_cursors s)) (ri_n ri)); [left; reflexivity|].
    destruct (skipn (ri_n ri) (ps_cursors s)) as [|top cs] eqn:Hsk; [left; reflexivity|].
    destruct (cell tbl top (ri_l ri)) as [e|c]; [|left; reflexivity].
    cbn [full].
    assert (Hlen : length (ps_cursors s) - ri_n ri = S (length cs)).
    { apply (f_equal (@length nat)) in Hsk. rewrite skipn_length in Hsk. exact Hsk. }
    assert (Hv : Nat.ltb (length (ps_values s)) (ri_n ri) = false) by (apply Nat.ltb_ge; lia).
    assert (Hvs : length (skipn (ri_n ri) (ps_values s)) = length cs) by (rewrite skipn_length; lia).
    destruct (Nat.leb n (length (top :: cs))) eqn:Hf.
    - apply Nat.leb_le in Hf. cbn [length] in Hf. right. split; [reflexivity|]. split; [lia|].
      destruct (e_arg e) as [nst|]; [|reflexivity]. rewrite Hv.
      destruct (rule_f (ri_r ri) (ps_ctx s) (rev (firstn (ri_n ri) (ps_values s)))) as [c' v].
      simp_ps. cbn [length]. lia.
    - apply Nat.leb_gt in Hf. cbn [length] in Hf. left.
      destruct (e_arg e) as [nst|]; [|reflexivity]. rewrite Hv.
      destruct (rule_f (ri_r ri) (ps_ctx s) (rev (firstn (ri_n ri) (ps_values s)))) as [c' v].
      replace (Nat.leb n (length (skipn (ri_n ri) (ps_values s)))) with false; [reflexivity|].
      symmetry. apply Nat.leb_gt. lia.
  Qed.

  (* ---------- one iteration with and without capacity ---------- *)
  Lemma step_cap s : hinv s ->
    stepn s = step0 s \/
    ((exists s' ev, stepn s = (inr (Throw, s'), ev)) /\ n <= height s /\
     match fst (step0 s) with
     | inl s'' => n < height s''
     | inr (r, _) => r = Crash CrGotoUninit \/ r = Crash CrBufferOverrun
     end).
  Proof.
    intros [Hex Hh]. unfold step, height in *.
    destruct (ps_cursors s) as [|cur cs] eqn:Hcs; [left; reflexivity|].
    pose proof (gct_spec_holds V C g opts buf lexer s) as Hg.
    destruct (gctx s) as [[s1 ot] ev1]. destruct (gct_stacks Hg) as (Hcs1 & Hvs1 & _).
    destruct ot as [t|]; [|left; reflexivity].
    assert (Hexc : exact (clr s1)) by (unfold exact in *; simp_ps; rewrite Hcs1, Hvs1; exact Hex).
    unfold act. destruct (cell tbl cur (nterm_count g + t)) as [e|c]; [|left; reflexivity].
    fold (clr s1). fold (lc s1).
    destruct (e_kind e); try (left; reflexivity).
    - (* KShift *)
      destruct (e_arg e) as [nst|]; [|left; reflexivity]. cbn [full].
      destruct (Nat.leb n (length (ps_cursors (clr s1)))) eqn:Hf; [|left; reflexivity].
      apply Nat.leb_le in Hf. rewrite clr_cursors, Hcs1, Hcs in Hf. right.
      split; [eexists; eexists; reflexivity|]. split; [exact Hf|].
      destruct (Nat.ltb (length buf) (ps_end (clr s1))); cbn [fst]; [right; reflexivity|].
      simp_ps. rewrite Hcs1, Hcs. cbn [length] in *. lia.
    - (* KShiftErr *)
      destruct (e_arg e) as [nst|]; [|left; reflexivity]. cbn [full].
      destruct (Nat.leb n (length (ps_cursors (clr s1)))) eqn:Hf; [|left; reflexivity].
      apply Nat.leb_le in Hf. rewrite clr_cursors, Hcs1, Hcs in Hf. right.
      split; [eexists; eexists; reflexivity|]. split; [exact Hf|]. cbn [fst].
      simp_ps. rewrite Hcs1, Hcs. cbn [length] in *. lia.
    - (* KReduce *)
      destruct (e_arg e) as [r|]; [|left; reflexivity].
      destruct (red_cap (clr s1) r Hexc) as [E|(E & Hn & Hm)]; rewrite E; [left; reflexivity|].
      right. split; [eexists; eexists; reflexivity|]. unfold height in Hn. rewrite clr_cursors, Hcs1, Hcs in Hn.
      split; [exact Hn|].
      destruct (red0 (clr s1) r) as [[s3 ev]|x]; cbn [fst]; [exact Hm|left; exact Hm].
    - (* KRR *)
      destruct (e_arg e) as [r|]; [|left; reflexivity].
      destruct (red_cap (clr s1) r Hexc) as [E|(E & Hn & Hm)]; rewrite E; [left; reflexivity|].
      right. split; [eexists; eexists; reflexivity|]. unfold height in Hn. rewrite clr_cursors, Hcs1, Hcs in Hn.
      split; [exact Hn|].
      destruct (red0 (clr s1) r) as [[s3 ev]|x]; cbn [fst]; [exact Hm|left; exact Hm].
  Qed.

  (* ---------- the ghost list only grows at its end ---------- *)
  Lemma run_gh_shift cap fuel : forall s out vis,
    run_gh V C g tbl opts buf cap lexer term_f err_f rule_f fuel s out vis =
    let '(r, sf, o, v) := run_gh V C g tbl opts buf cap lexer term_f err_f rule_f fuel s out [] in (r, sf, o, vis ++ v).
  Proof.
    induction fuel as [|f IH]; intros s out vis; cbn [run_gh].
    - now rewrite app_nil_r.
    - destruct (step V C g tbl opts buf cap lexer term_f err_f rule_f s) as [[s'|[r s']] ev]; [|reflexivity].
      rewrite (IH s' _ (vis ++ [s])), (IH s' _ ([] ++ [s])).
      destruct (run_gh V C g tbl opts buf cap lexer term_f err_f rule_f f s' (out ++ filter (visible opts) ev) [])
        as [[[r sf] o] v]. now rewrite <- app_assoc.
  Qed.

  Lemma run_gh_first cap fuel s out :
    let '(_, sf, _, v) := run_gh V C g tbl opts buf cap lexer term_f err_f rule_f fuel s out [] in In s (v ++ [sf]).
  Proof.
    destruct fuel as [|f]; cbn [run_gh]; [left; reflexivity|].
    destruct (step V C g tbl opts buf cap lexer term_f err_f rule_f s) as [[s'|[r s']] ev]; [|left; reflexivity].
    rewrite (run_gh_shift cap f s' _ ([] ++ [s])).
    destruct (run_gh V C g tbl opts buf cap lexer term_f err_f rule_f f s' (out ++ filter (visible opts) ev) [])
      as [[[r sf] o] v]. left; reflexivity.
  Qed.

  (* ---------- the two runs in lockstep ---------- *)
  Definition same_run (x y : result V * pst * list event * list pst) : Prop := x = y.

  Lemma lockstep fuel : forall s out, hinv s ->
    let '(r, sf, o, v) := run_gh0 fuel s out [] in
    let '(r', sf', o', v') := run_ghn fuel s out [] in
    ((r', sf', o', v') = (r, sf, o, v) /\ Forall (fun x => height x <= n) (v ++ [sf])) \/
    (r' = Throw /\ (exists x, In x v /\ n <= height x) /\
     ((exists y, In y (v ++ [sf]) /\ n < height y) \/ r = Crash CrGotoUninit \/ r = Crash CrBufferOverrun)).
  Proof.
    induction fuel as [|f IH]; intros s out Hinv; cbn [run_gh].
    - left. split; [reflexivity|]. constructor; [apply Hinv|constructor].
    - pose proof (stepn_hinv s Hinv) as Hn.
      destruct (step_cap s Hinv) as [E|((s' & ev & E) & Hle & Hm)].
      + rewrite E in Hn |- *. destruct (step0 s) as [[s1|[r1 s1]] ev]; cbn [fst] in Hn.
        * rewrite (run_gh_shift None f s1 _ ([] ++ [s])), (run_gh_shift (Some n) f s1 _ ([] ++ [s])).
          specialize (IH s1 (out ++ filter (visible opts) ev) Hn).
          destruct (run_gh0 f s1 (out ++ filter (visible opts) ev) []) as [[[r sf] o] v].
          destruct (run_ghn f s1 (out ++ filter (visible opts) ev) []) as [[[r' sf'] o'] v'].
          destruct IH as [[Eq Hall]|(Ht & (x & Hx & Hxn) & Hy)].
          -- inversion Eq; subst. left. split; [reflexivity|]. cbn [app]. constructor; [apply Hinv|exact Hall].
          -- right. split; [exact Ht|]. split; [exists x; split; [right; exact Hx|exact Hxn]|].
             destruct Hy as [(y & Hy & Hyn)|Hy]; [left; exists y; split; [right; exact Hy|exact Hyn]|right; exact Hy].
        * left. split; [reflexivity|]. constructor; [apply Hinv|constructor; [exact Hn|constructor]].
      + rewrite E. destruct (step0 s) as [[s1|[r1 s1]] ev0]; cbn [fst] in Hm.
        * rewrite (run_gh_shift None f s1 _ ([] ++ [s])).
          pose proof (run_gh_first None f s1 (out ++ filter (visible opts) ev0)) as Hfirst.
          destruct (run_gh0 f s1 (out ++ filter (visible opts) ev0) []) as [[[r sf] o] v].
          right. split; [reflexivity|]. split; [exists s; split; [left; reflexivity|exact Hle]|].
          left. exists s1. split; [right; exact Hfirst|exact Hm].
        * right. split; [reflexivity|]. split; [exists s; split; [left; reflexivity|exact Hle]|]. right. exact Hm.
  Qed.
End Cap.

Arguments height {V C}.

(* ---------- (S5a) the theorems about [run] ---------- *)
Section CapRun.
  Variables V C : Type.
  Variable g : grammar.
  Variable tbl : table.
  Variable opts : options.
  Variable buf : list nat.
  Variable lexer : bool -> spoint -> list nat -> list lex_event * option (nat * nat).
  Variable term_f : nat -> nat -> nat -> spoint -> V.
  Variable err_f : spoint -> V.
  Variable rule_f : nat -> C -> list V -> C * V.

  Notation run_gh0 := (run_gh V C g tbl opts buf None lexer term_f err_f rule_f).
  Notation runc cap := (run V C g tbl opts buf cap lexer term_f err_f rule_f).

  Lemma hinv_init n c : 0 < n -> hinv V C n (init c).
  Proof. intros H. unfold hinv, exact, height; cbn. lia. Qed.

  Lemma runc_gh cap fuel c :
    runc cap fuel c = let '(r, s, o, _) := run_gh V C g tbl opts buf cap lexer term_f err_f rule_f fuel (init c) [] [] in (r, s, o).
  Proof. unfold run. apply run_gh_run. Qed.

  (* every loop-head state of the unbounded run, and its last state, has at most n cursors *)
  Definition never_above (n fuel : nat) (c : C) : Prop :=
    let '(_, sf, _, v) := run_gh0 fuel (init c) [] [] in forall x, In x (v ++ [sf]) -> height x <= n.

  (* the capacity is irrelevant when it exceeds what the unbounded run needs: same result, final state, output *)
  Theorem capacity_irrelevant : forall n fuel c,
    never_above n fuel c -> forall n', n < n' -> runc (Some n') fuel c = runc None fuel c.
  Proof.
    intros n fuel c Hna n' Hlt. rewrite !runc_gh. unfold never_above in Hna.
    pose proof (lockstep V C g tbl opts buf lexer term_f err_f rule_f n' fuel (init c) [] (hinv_init n' c ltac:(lia))) as L.
    destruct (run_gh0 fuel (init c) [] []) as [[[r sf] o] v].
    destruct (run_gh V C g tbl opts buf (Some n') lexer term_f err_f rule_f fuel (init c) [] []) as [[[r' sf'] o'] v'].
    destruct L as [[Eq _]|(_ & (x & Hx & Hxn) & _)].
    - inversion Eq; reflexivity.
    - exfalso. specialize (Hna x (in_or_app _ _ _ (or_introl Hx))). lia.
  Qed.

  (* the tight version: capacity = the height reached; the only difference is that a crash caused by a missing goto
     target or a lexeme beyond the buffer, at a moment when the stack is full, is pre-empted by the capacity check *)
  Theorem capacity_irrelevant_tight : forall n fuel c,
    0 < n -> never_above n fuel c -> (forall cr, fst (fst (runc None fuel c)) <> Crash cr) ->
    runc (Some n) fuel c = runc None fuel c.
  Proof.
    intros n fuel c Hpos Hna Hnc. rewrite !runc_gh in *. unfold never_above in Hna.
    pose proof (lockstep V C g tbl opts buf lexer term_f err_f rule_f n fuel (init c) [] (hinv_init n c Hpos)) as L.
    destruct (run_gh0 fuel (init c) [] []) as [[[r sf] o] v].
    destruct (run_gh V C g tbl opts buf (Some n) lexer term_f err_f rule_f fuel (init c) [] []) as [[[r' sf'] o'] v'].
    cbn [fst] in Hnc.
    destruct L as [[Eq _]|(_ & _ & [(y & Hy & Hyn)|[E|E]])].
    - inversion Eq; reflexivity.
    - exfalso. specialize (Hna y Hy). lia.
    - exfalso. exact (Hnc _ E).
    - exfalso. exact (Hnc _ E).
  Qed.

  (* whatever the capacity: the bounded run either IS the unbounded run, or it ends in Throw -- it never crashes where
     the unbounded run does not, and never produces a different value *)
  Theorem capacity_throw_or_same : forall n fuel c,
    0 < n -> fst (fst (runc (Some n) fuel c)) = Throw \/ runc (Some n) fuel c = runc None fuel c.
  Proof.
    intros n fuel c Hpos. rewrite !runc_gh.
    pose proof (lockstep V C g tbl opts buf lexer term_f err_f rule_f n fuel (init c) [] (hinv_init n c Hpos)) as L.
    destruct (run_gh0 fuel (init c) [] []) as [[[r sf] o] v].
    destruct (run_gh V C g tbl opts buf (Some n) lexer term_f err_f rule_f fuel (init c) [] []) as [[[r' sf'] o'] v'].
    destruct L as [[Eq _]|(Ht & _)]; [right; inversion Eq; reflexivity|left; exact Ht].
  Qed.

  (* a capacity that is too small: as soon as the unbounded run (same fuel) has a stack higher than n, the bounded
     run ends in Throw *)
  Theorem capacity_too_small : forall n fuel c,
    0 < n -> ~ never_above n fuel c -> fst (fst (runc (Some n) fuel c)) = Throw.
  Proof.
    intros n fuel c Hpos Hna. rewrite runc_gh. unfold never_above in Hna.
    pose proof (lockstep V C g tbl opts buf lexer term_f err_f rule_f n fuel (init c) [] (hinv_init n c Hpos)) as L.
    destruct (run_gh0 fuel (init c) [] []) as [[[r sf] o] v].
    destruct (run_gh V C g tbl opts buf (Some n) lexer term_f err_f rule_f fuel (init c) [] []) as [[[r' sf'] o'] v'].
    destruct L as [[_ Hall]|(Ht & _)]; [|exact Ht].
    exfalso. apply Hna. rewrite Forall_forall in Hall. exact Hall.
  Qed.

  (* and the bounded run keeps its stacks within the capacity *)
  Theorem capacity_respected : forall n fuel c, 0 < n ->
    let '(_, sf, _, v) := run_gh V C g tbl opts buf (Some n) lexer term_f err_f rule_f fuel (init c) [] [] in
    Forall (fun x => height x <= n) v.
  Proof.
    intros n fuel c Hpos.
    pose proof (run_gh_sinv V C g tbl opts buf (Some n) lexer term_f err_f rule_f (hinv V C n) (fun _ _ => True)) as H.
    specialize (H (fun _ _ => I)).
    assert (Hst : forall s, hinv V C n s ->
              match fst (step V C g tbl opts buf (Some n) lexer term_f err_f rule_f s) with
              | inl s' => hinv V C n s' | inr (r, s') => True end).
    { intros s Hs. pose proof (stepn_hinv V C g tbl opts buf lexer term_f err_f rule_f n s Hs) as H1.
      destruct (fst (step V C g tbl opts buf (Some n) lexer term_f err_f rule_f s)) as [s'|[r s']]; auto. }
    specialize (H Hst fuel (init c) [] [] (hinv_init n c Hpos) (Forall_nil _)).
    destruct (run_gh V C g tbl opts buf (Some n) lexer term_f err_f rule_f fuel (init c) [] []) as [[[r sf] o] v].
    destruct H as [_ H]. eapply Forall_impl; [|exact H]. intros x Hx. apply Hx.
  Qed.
End CapRun.

(* ---------- (S5b) the oracles are used extensionally ---------- *)
Section Ext.
  Variables V C : Type.
  Variable g : grammar.
  Variable tbl : table.
  Variable opts : options.
  Variable buf : list nat.
  Variable cap : option nat.
  Variables lexer1 lexer2 : bool -> spoint -> list nat -> list lex_event * option (nat * nat).
  Variables term_f1 term_f2 : nat -> nat -> nat -> spoint -> V.
  Variables err_f1 err_f2 : spoint -> V.
  Variables rule_f1 rule_f2 : nat -> C -> list V -> C * V.
  (* the lexer is only ever asked at the verbosity of the options and on non-empty input *)
  Hypothesis Hlex : forall p c rest, lexer1 (o_verbose opts) p (c :: rest) = lexer2 (o_verbose opts) p (c :: rest).
  Hypothesis Hterm : forall t a l p, term_f1 t a l p = term_f2 t a l p.
  Hypothesis Herr : forall p, err_f1 p = err_f2 p.
  Hypothesis Hrule : forall r c args, rule_f1 r c args = rule_f2 r c args.

  Lemma gct_ext s : get_current_term V C g opts buf lexer1 s = get_current_term V C g opts buf lexer2 s.
  Proof.
    unfold get_current_term. destruct (ps_rec s); [reflexivity|].
    destruct (negb (Nat.eqb (ps_it s) (ps_end s))); [reflexivity|].
    destruct (skipn (if o_skip_ws opts then count_ws opts (skipn (ps_it s) buf) else 0) (skipn (ps_it s) buf)) as [|c rest];
      [reflexivity|].
    rewrite Hlex. reflexivity.
  Qed.

  Lemma reduce_ext s r : do_reduce V C g tbl cap rule_f1 s r = do_reduce V C g tbl cap rule_f2 s r.
  Proof.
    unfold do_reduce. destruct (nth_error (rule_infos g) r) as [ri|]; [|reflexivity].
    destruct (Nat.ltb (length (ps_cursors s)) (ri_n ri)); [reflexivity|].
    destruct (skipn (ri_n ri) (ps_cursors s)) as [|top cs]; [reflexivity|].
    destruct (cell tbl top (ri_l ri)) as [e|c]; [|reflexivity].
    destruct (full cap (length (top :: cs))); [reflexivity|].
    destruct (e_arg e) as [nst|]; [|reflexivity].
    destruct (Nat.ltb (length (ps_values s)) (ri_n ri)); [reflexivity|].
    rewrite Hrule. reflexivity.
  Qed.

  Lemma act_ext s cur t :
    act V C g tbl buf cap term_f1 err_f1 rule_f1 s cur t = act V C g tbl buf cap term_f2 err_f2 rule_f2 s cur t.
  Proof.
    unfold act. destruct (cell tbl cur (nterm_count g + t)) as [e|c]; [|reflexivity].
    destruct (e_kind e); try reflexivity; destruct (e_arg e) as [a|]; try reflexivity;
      rewrite ?reduce_ext, ?Hterm, ?Herr; reflexivity.
  Qed.

  Lemma step_ext s :
    step V C g tbl opts buf cap lexer1 term_f1 err_f1 rule_f1 s = step V C g tbl opts buf cap lexer2 term_f2 err_f2 rule_f2 s.
  Proof.
    unfold step. destruct (ps_cursors s) as [|cur cs]; [reflexivity|]. rewrite gct_ext.
    destruct (get_current_term V C g opts buf lexer2 s) as [[s1 ot] ev1]. destruct ot as [t|]; [|reflexivity].
    rewrite act_ext. reflexivity.
  Qed.

  Theorem run_from_ext fuel : forall s out,
    run_from V C g tbl opts buf cap lexer1 term_f1 err_f1 rule_f1 fuel s out =
    run_from V C g tbl opts buf cap lexer2 term_f2 err_f2 rule_f2 fuel s out.
  Proof.
    induction fuel as [|f IH]; intros s out; cbn [run_from]; [reflexivity|]. rewrite step_ext.
    destruct (step V C g tbl opts buf cap lexer2 term_f2 err_f2 rule_f2 s) as [[s'|[r s']] ev]; [apply IH|reflexivity].
  Qed.

  Theorem run_ext fuel c :
    run V C g tbl opts buf cap lexer1 term_f1 err_f1 rule_f1 fuel c =
    run V C g tbl opts buf cap lexer2 term_f2 err_f2 rule_f2 fuel c.
  Proof. apply run_from_ext. Qed.
End Ext.

Print Assumptions capacity_irrelevant.
Print Assumptions capacity_irrelevant_tight.
Print Assumptions capacity_throw_or_same.
Print Assumptions capacity_too_small.
Print Assumptions capacity_respected.
Print Assumptions run_ext.
