(* The item-set checks of the termination theorems (Valid/LRProductive.v) hold for EVERY output of the generator:

     gen_term_checks_all : grammar_wf g = true -> grammar_wf_extra g = true -> gen_with g lim = inl (sts, tbl) ->
       lookahead_generatedb g (map st_all sts) = true /\ reduce_lookaheadb g (map st_all sts) tbl = true /\
       states_nonempty_b (map st_all sts) = true

   (no hypothesis on conflict marks is needed for these three), hence with Proofs/GenCorrect.v, for a conflict-free
   and accept-clean table, [term_checks g (map st_all sts) tbl = productiveb g], and for productive grammars the
   generated parser decides the language and the generic driver halts on every input.

   - lookahead_generatedb: the closure loop appends the children of an item AFTER it, and every child's lookahead
     lies in FIRST(beta a) of its parent ([gen_by] / [st_good] of Proofs/GenResolvedInv.v, [closure_children_sound] here);
   - reduce_lookaheadb: a reduce cell of column t is written from the scan of the bucket of column t, whose
     completed items all have lookahead t ([cell_rec], [scan_reduce_item]);
   - states_nonempty_b: a state is created from a non-empty kernel. *)
Require Import Ctpg.Base.Prelude Ctpg.Model.Grammar Ctpg.Model.LRGen Ctpg.Model.Driver
               Ctpg.Spec.Cfg Ctpg.Spec.LRSpec Ctpg.Spec.Eval Ctpg.Spec.Conflict
               Ctpg.Valid.LRValid Ctpg.Valid.LRProductive
               Ctpg.Proofs.LRReflect Ctpg.Proofs.LRMachine Ctpg.Proofs.LRValidFacts Ctpg.Proofs.LRSound
               Ctpg.Proofs.DriverBasics Ctpg.Proofs.DriverEval Ctpg.Proofs.SafeDriver
               Ctpg.Proofs.GenLists Ctpg.Proofs.GenWf
               Ctpg.Proofs.GenFirst Ctpg.Proofs.GenClosure Ctpg.Proofs.GenScan Ctpg.Proofs.GenTrans
               Ctpg.Proofs.GenCorrect Ctpg.Proofs.GenAnalyze Ctpg.Proofs.CellResolve
               Ctpg.Proofs.TermViable Ctpg.Proofs.TermAll Ctpg.Proofs.TermGeneric
               Ctpg.Proofs.GenResolvedInv Ctpg.Proofs.GenResolved.

(* ---------- closure_children: where the children and their lookaheads come from ---------- *)

Lemma closure_children_sound g (WF : wf_facts g) (WFX : wfx_facts g) ne nf i y :
  item_okP g i -> In y (closure_children g ne nf i) ->
  exists b, next_sym g i = Some (NT b) /\ ri_l (get_ri g (it_r y)) = b /\
            bset_test (first_tail g ne nf (skipn (S (it_d i)) (rhs_of g i)) (it_t i)) (it_t y) = true.
Proof.
  intros (Hr & Hd & Ht) H. unfold closure_children in H.
  destruct (Nat.leb (ri_n (get_ri g (it_r i))) (it_d i)) eqn:E; [destruct H|].
  destruct (nth_error (get_rhs g (ri_r (get_ri g (it_r i)))) (it_d i)) as [[a|nt]|] eqn:En; try (destruct H).
  assert (next_sym g i = Some (NT nt)) as Hn by exact En.
  exists nt. split; [exact Hn|].
  unfold slice_empty, slice_first in H. rewrite (item_rhs_n g WF i Hr) in H.
  destruct (nth nt (slices g) (0, 0)) as [st n] eqn:Esl.
  set (beta := skipn (S (it_d i)) (rhs_of g i)) in *.
  set (f := first_of_syms g ne nf (bset_empty (term_count g)) beta) in *.
  destruct (next_sym_ok g WF i (NT nt) Hr Hn) as (Hsx & _). cbn in Hsx. apply Nat.ltb_lt in Hsx.
  assert (forall k, k < n -> ri_l (get_ri g (st + k)) = nt) as Hsl.
  { intros k Hk. pose proof (wfx_slice _ WFX nt Hsx) as Hb. rewrite Esl in Hb. cbn [fst snd] in Hb.
    apply (wf_slice _ WF nt (st + k) Hsx); [lia|]. rewrite Esl. cbn [fst snd]. lia. }
  unfold first_tail. fold f.
  apply in_app_iff in H. destruct H as [H|H].
  - apply in_flat_map in H. destruct H as (t & Hts & H).
    destruct (bset_test f t) eqn:Ef; [|destruct H]. apply in_map_iff in H. destruct H as (k & <- & Hk).
    apply in_seq in Hk. cbn [it_r it_t]. split; [apply Hsl; lia|].
    destruct (all_nullable ne beta); [apply bset_set_mono|]; exact Ef.
  - destruct (all_nullable ne beta && negb (bset_test f (it_t i))) eqn:Eb; [|destruct H].
    apply andb_true_iff in Eb. destruct Eb as [Ean _].
    apply in_map_iff in H. destruct H as (k & <- & Hk). apply in_seq in Hk. cbn [it_r it_t].
    split; [apply Hsl; lia|]. rewrite Ean. apply bset_set_same.
    unfold f. rewrite first_of_syms_length, bset_empty_length. exact Ht.
Qed.

(* ---------- a reduce cell comes from a completed item of its bucket ---------- *)

Lemma scan_reduce_item g t B : in_term_bucket g t B -> sc_kind (scan_cell g B scan0) = KReduce ->
  exists i, In i B /\ is_complete g i = true /\ sc_red (scan_cell g B scan0) = Some (it_r i).
Proof.
  intros HB HK.
  destruct (scan_cell_characterisation g t B HB) as [[HN E]|[(pre & i & post & _ & E)|(pre & i & post & _ & E)]];
    rewrite E in HK |- *.
  - unfold cell_summary, cell_state in *. cbn [sc_kind sc_red] in *. unfold first_red in *.
    destruct (reduce_items g B) as [|i l] eqn:ER.
    + cbn in HK. destruct (any_shift g B); discriminate.
    + exists i. assert (In i (reduce_items g B)) as Hi by (rewrite ER; cbn; auto).
      apply in_reduce_items in Hi. destruct Hi. cbn. auto.
  - cbn in HK. discriminate.
  - cbn in HK. discriminate.
Qed.

(* ---------- the three checks ---------- *)

Section Checks.
  Variable g : grammar.
  Variable lim : limits.
  Variable sts : list lrstate.
  Variable tbl : table.
  Hypothesis Hwf : grammar_wf g = true.
  Hypothesis Hwfx : grammar_wf_extra g = true.
  Hypothesis Hgen : gen_with g lim = inl (sts, tbl).

  Let WF : wf_facts g := wf_facts_of _ Hwf.
  Let WFX : wfx_facts g := wfx_facts_of _ Hwfx.
  Let GF : gen_facts g lim sts tbl := gen_with_facts g lim sts tbl Hwf Hwfx Hgen.

  Theorem gen_lookahead_generated : lookahead_generatedb g (map st_all sts) = true.
  Proof.
    unfold lookahead_generatedb. cbn zeta. rewrite map_length. apply forallb_seq0. intros s Hs.
    rewrite state_items_map. apply forallb_seq0. intros j Hj.
    destruct (nth_error (st_all (stn sts s)) j) as [i|] eqn:Ei; [|reflexivity].
    destruct (Nat.eqb (it_d i) 0) eqn:Ed; [|reflexivity]. cbn [negb orb]. apply Nat.eqb_eq in Ed.
    destruct (gf_good _ _ _ _ GF s Hs) as (_ & Hord).
    destruct (Hord j i Ei Ed) as [(-> & ->)|(k & ik & Hk & Hik & Hy)].
    - rewrite Nat.eqb_refl. cbn [andb]. assert (item_eqb (root_item g) (root_item g) = true) as -> by (apply item_eqb_eq; reflexivity).
      reflexivity.
    - apply orb_true_iff. right. apply existsb_exists. exists k. split; [apply in_seq; lia|]. rewrite Hik.
      assert (item_okP g ik) as Ok.
      { apply (sd_ok _ _ _ (gf_disc _ _ _ _ GF s Hs)). eapply nth_error_In. eassumption. }
      destruct (closure_children_sound g WF WFX _ _ ik i Ok Hy) as (b & Hn & El & Hf).
      rewrite Hn, El, Nat.eqb_refl. exact Hf.
  Qed.

  Theorem gen_reduce_lookahead : reduce_lookaheadb g (map st_all sts) tbl = true.
  Proof.
    unfold reduce_lookaheadb. rewrite map_length. apply forallb_seq0. intros s Hs.
    apply forallb_seq0. intros t Ht. cbn zeta. rewrite state_items_map.
    set (c := nterm_count g + t). assert (c < symbol_count g) as Hc by (unfold c, symbol_count; lia).
    pose proof (gf_cells _ _ _ _ GF s c Hs Hc) as Hrec. unfold cell_rec in Hrec. cbn zeta in Hrec.
    pose proof (gf_disc _ _ _ _ GF) as Hdisc.
    pose proof (state_in_term_bucket g WF sts Hdisc s t Hs) as HTB. fold c in HTB.
    pose proof (B_in g s (stn sts s) (Hdisc s Hs) c) as HBin.
    set (B := bucket g (st_all (stn sts s)) c) in *. set (Sc := scan_cell g B scan0) in *.
    fold (cell_at tbl s c). set (e := cell_at tbl s c) in *.
    destruct Hrec as [(_ & Ee)|[(_ & Ek & Ee)|(_ & _ & idx & Ee & _)]].
    - rewrite Ee. reflexivity.
    - destruct (kind_eqb (sc_kind Sc) KReduce) eqn:EK.
      + apply kind_eqb_eq in EK. rewrite Ee, nonshift_entry_kind, EK, nonshift_entry_reduce by assumption.
        destruct (scan_reduce_item g t B HTB EK) as (i & Hi & Ci & Er). fold Sc in Er. rewrite Er.
        apply existsb_exists. exists i. destruct (HBin i Hi) as (Ii & Oi & Bi). split; [assumption|].
        rewrite Nat.eqb_refl, Ci. cbn [andb]. apply Nat.eqb_eq.
        rewrite (bucket_complete g i Oi Ci) in Bi. unfold c in Bi. lia.
      + rewrite Ee, nonshift_entry_kind. destruct (sc_kind Sc); try reflexivity. discriminate.
    - rewrite Ee. cbn [e_kind]. unfold kd. destruct (Nat.eqb _ _); reflexivity.
  Qed.

  Theorem gen_states_nonempty : states_nonempty_b (map st_all sts) = true.
  Proof.
    unfold states_nonempty_b. apply forallb_forall. intros its Hin. apply in_map_iff in Hin.
    destruct Hin as (st & <- & Hst). destruct (In_nth _ _ (mkSt [] []) Hst) as (s & Hs & Es).
    destruct (gf_good _ _ _ _ GF s Hs) as (Hne & _). unfold stn in Hne. rewrite Es in Hne.
    destruct (st_all st); [congruence|reflexivity].
  Qed.

  Theorem gen_term_checks_all_sec :
    lookahead_generatedb g (map st_all sts) = true /\ reduce_lookaheadb g (map st_all sts) tbl = true /\
    states_nonempty_b (map st_all sts) = true.
  Proof. split; [apply gen_lookahead_generated|]. split; [apply gen_reduce_lookahead|apply gen_states_nonempty]. Qed.
End Checks.

(* no hypothesis about conflict marks is needed *)
Theorem gen_term_checks_all : forall g lim sts tbl,
  grammar_wf g = true -> grammar_wf_extra g = true -> gen_with g lim = inl (sts, tbl) ->
  lookahead_generatedb g (map st_all sts) = true /\ reduce_lookaheadb g (map st_all sts) tbl = true /\
  states_nonempty_b (map st_all sts) = true.
Proof. intros g lim sts tbl Hwf Hwfx Hgen. eapply gen_term_checks_all_sec; eassumption. Qed.

(* the statement as asked for *)
Theorem gen_term_checks : forall g lim sts tbl,
  grammar_wf g = true -> grammar_wf_extra g = true -> gen_with g lim = inl (sts, tbl) ->
  conflict_free g (length sts) tbl = true -> accept_clean g sts = true ->
  lookahead_generatedb g (map st_all sts) = true /\ reduce_lookaheadb g (map st_all sts) tbl = true /\
  states_nonempty_b (map st_all sts) = true.
Proof. intros g lim sts tbl Hwf Hwfx Hgen _ _. eapply gen_term_checks_all; eassumption. Qed.

Print Assumptions gen_term_checks_all.
Print Assumptions gen_term_checks.

(* with gen_validates: of all the checks only productivity of the grammar is left *)
Theorem gen_term_checks_productive : forall g lim sts tbl,
  grammar_wf g = true -> grammar_wf_extra g = true -> gen_with g lim = inl (sts, tbl) ->
  conflict_free g (length sts) tbl = true -> accept_clean g sts = true ->
  term_checks g (map st_all sts) tbl = productiveb g.
Proof.
  intros g lim sts tbl Hwf Hwfx Hgen Hcf Hac. unfold term_checks.
  rewrite (gen_validates g lim sts tbl Hwf Hwfx Hgen Hcf Hac).
  destruct (gen_term_checks_all g lim sts tbl Hwf Hwfx Hgen) as (-> & -> & ->). reflexivity.
Qed.

Corollary gen_term_checks_true : forall g lim sts tbl,
  grammar_wf g = true -> grammar_wf_extra g = true -> gen_with g lim = inl (sts, tbl) ->
  conflict_free g (length sts) tbl = true -> accept_clean g sts = true -> productiveb g = true ->
  term_checks g (map st_all sts) tbl = true.
Proof. intros g lim sts tbl Hwf Hwfx Hgen Hcf Hac Hp. rewrite <- Hp. eapply gen_term_checks_productive; eassumption. Qed.

(* ---------- the generated parser decides the language; every driver run halts ---------- *)

Corollary gen_machine_halts : forall g lim sts tbl,
  grammar_wf g = true -> grammar_wf_extra g = true -> gen_with g lim = inl (sts, tbl) ->
  conflict_free g (length sts) tbl = true -> accept_clean g sts = true -> productiveb g = true ->
  forall w, tokens_ok g w ->
  exists n c, msteps g tbl n ([0], [], w) c /\ match mstep g tbl c with Next _ => False | _ => True end.
Proof.
  intros g lim sts tbl Hwf Hwfx Hgen Hcf Hac Hp w Hw.
  apply (machine_halts_checked g (map st_all sts) tbl w); [|assumption].
  eapply gen_term_checks_true; eassumption.
Qed.

Corollary gen_decides_language : forall g lim sts tbl,
  grammar_wf g = true -> grammar_wf_extra g = true -> gen_with g lim = inl (sts, tbl) ->
  conflict_free g (length sts) tbl = true -> accept_clean g sts = true -> productiveb g = true ->
  no_error_symbol g tbl = true ->
  forall w, tokens_ok g w ->
  exists fuel, forall fuel', fuel <= fuel' ->
    (derives g w -> exists t, tree_run g tbl w fuel' = Accept t /\ derives_tree g t w) /\
    (~ derives g w -> tree_run g tbl w fuel' = Reject).
Proof.
  intros g lim sts tbl Hwf Hwfx Hgen Hcf Hac Hp Hne w Hw.
  apply (decides_language_checked g (map st_all sts) tbl w); [|assumption|assumption].
  eapply gen_term_checks_true; eassumption.
Qed.

Corollary gen_generic_run_halts : forall g lim sts tbl,
  grammar_wf g = true -> grammar_wf_extra g = true -> gen_with g lim = inl (sts, tbl) ->
  conflict_free g (length sts) tbl = true -> accept_clean g sts = true -> productiveb g = true ->
  no_error_symbol g tbl = true ->
  forall (V C : Type) opts buf lexer
         (term_f : nat -> nat -> nat -> spoint -> V) (err_f : spoint -> V) (rule_f : nat -> C -> list V -> C * V) (c0 : C),
  lexer_ok_for g lexer -> lexer_in_range lexer ->
  exists fuel, fst (fst (run V C g tbl opts buf None lexer term_f err_f rule_f fuel c0)) <> OutOfFuel.
Proof.
  intros g lim sts tbl Hwf Hwfx Hgen Hcf Hac Hp Hne V C opts buf lexer term_f err_f rule_f c0 Hlex Hpos.
  apply (generic_run_halts_checked V C g (map st_all sts) tbl); try assumption.
  eapply gen_term_checks_true; eassumption.
Qed.

(* for grammars coming from the DSL-level description (Proofs/GenAnalyze.v) *)
Corollary gen_term_checks_analyze : forall rg g lim sts tbl,
  analyze rg = Some g -> grammar_wf g = true -> gen_with g lim = inl (sts, tbl) ->
  conflict_free g (length sts) tbl = true -> accept_clean g sts = true ->
  term_checks g (map st_all sts) tbl = productiveb g.
Proof.
  intros rg g lim sts tbl Ha Hwf. apply gen_term_checks_productive; [assumption|]. eapply analyze_wf_extra; eassumption.
Qed.

Corollary gen_decides_language_analyze : forall rg g lim sts tbl,
  analyze rg = Some g -> grammar_wf g = true -> gen_with g lim = inl (sts, tbl) ->
  conflict_free g (length sts) tbl = true -> accept_clean g sts = true -> productiveb g = true ->
  no_error_symbol g tbl = true ->
  forall w, tokens_ok g w ->
  exists fuel, forall fuel', fuel <= fuel' ->
    (derives g w -> exists t, tree_run g tbl w fuel' = Accept t /\ derives_tree g t w) /\
    (~ derives g w -> tree_run g tbl w fuel' = Reject).
Proof.
  intros rg g lim sts tbl Ha Hwf. apply gen_decides_language; [assumption|]. eapply analyze_wf_extra; eassumption.
Qed.

Print Assumptions gen_term_checks_productive.
Print Assumptions gen_decides_language.
Print Assumptions gen_generic_run_halts.
