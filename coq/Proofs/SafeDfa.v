(* Memory safety of the DFA matcher (dfa_match): with an automaton whose transition targets are all in range
   (which the pattern builder guarantees for EVERY pattern, although it is semantically wrong on some) the matcher
   never indexes the automaton out of range, on any input; and for ANY automaton it reads the input left to right,
   each element at most once, and the reported lexeme length never exceeds the input. *)
Require Import Ctpg.Base.Prelude Ctpg.Model.Driver Ctpg.Model.Dfa
               Ctpg.Proofs.BuilderSize Ctpg.Proofs.BuilderTerm.

Definition oob_of (x : list lex_event * option (nat * nat) * bool) : bool := snd x.
Definition rt_of (x : list lex_event * option (nat * nat) * bool) : option (nat * nat) := snd (fst x).
Definition ev_of (x : list lex_event * option (nat * nat) * bool) : list lex_event := fst (fst x).

(* ---------- no out-of-range state index ---------- *)
Lemma dfa_match_aux_no_oob sm :
  (forall q d c t, nth_error sm q = Some d -> nth c (d_trans d) None = Some t -> t < length sm) ->
  forall inp v st p len rt ev, st < length sm -> oob_of (dfa_match_aux sm v st p len inp rt ev) = false.
Proof.
  intros Hc. induction inp as [|c rest IH]; intros v st p len rt ev Hst; cbn [dfa_match_aux];
    destruct (nth_error sm st) as [d|] eqn:Ed;
    try (exfalso; apply nth_error_None in Ed; lia).
  - destruct (d_rec d); reflexivity.
  - destruct (nth c (d_trans d) None) as [nx|] eqn:En.
    + destruct (d_rec d); apply IH; eapply Hc; eauto.
    + destruct (d_rec d); reflexivity.
Qed.

Theorem dfa_match_no_oob_closed : forall sm,
  closed sm -> 0 < length sm -> forall s, dfa_match_oob sm s = false.
Proof.
  intros sm Hc Hl s. unfold dfa_match_oob.
  pose proof (dfa_match_aux_no_oob sm (closed_targets sm Hc) s false 0 sp0 0 None [] Hl) as H.
  destruct (dfa_match_aux sm false 0 sp0 0 s None []) as [[ev rt] oob]. exact H.
Qed.

(* the same with the hypothesis spelled out (no reference to [closed]) *)
Theorem dfa_match_no_oob_targets : forall sm,
  (forall q d c t, nth_error sm q = Some d -> nth c (d_trans d) None = Some t -> t < length sm) ->
  0 < length sm -> forall s, dfa_match_oob sm s = false.
Proof.
  intros sm Hc Hl s. unfold dfa_match_oob.
  pose proof (dfa_match_aux_no_oob sm Hc s false 0 sp0 0 None [] Hl) as H.
  destruct (dfa_match_aux sm false 0 sp0 0 s None []) as [[ev rt] oob]. exact H.
Qed.

Lemma build_expr_nonempty r sm : build_expr r = Some sm -> 0 < length sm.
Proof.
  intros H. rewrite (build_expr_size _ _ H). pose proof (analyze_size_pos r 0). lia.
Qed.

(* the automaton built for ANY pattern is never indexed out of range, on ANY input (bytes or not) *)
Theorem built_dfa_no_oob : forall r sm s, build_expr r = Some sm -> dfa_match_oob sm s = false.
Proof.
  intros r sm s H. apply dfa_match_no_oob_targets.
  - exact (build_expr_targets r sm H).
  - exact (build_expr_nonempty r sm H).
Qed.

(* ... and the builder always returns one *)
Corollary built_dfa_no_oob_total : forall r,
  exists sm, build_expr r = Some sm /\ forall s, dfa_match_oob sm s = false.
Proof.
  intros r. destruct (build_expr r) as [sm|] eqn:E.
  - exists sm. split; [reflexivity|]. intros s. eapply built_dfa_no_oob; eassumption.
  - exfalso. exact (build_expr_total r E).
Qed.

(* same for the term-set lexer automaton, when it has at least one term *)
Theorem lexer_dfa_no_oob : forall ts sm s, create_lexer ts = Some sm -> 0 < length sm -> dfa_match_oob sm s = false.
Proof.
  intros ts sm s H Hl. apply dfa_match_no_oob_targets; [exact (create_lexer_targets ts sm H)|exact Hl].
Qed.

(* ---------- the reported length lies inside the input: for every automaton ---------- *)
Lemma dfa_match_aux_len sm : forall inp v st p len rt ev t l,
  rt_of (dfa_match_aux sm v st p len inp rt ev) = Some (t, l) ->
  rt = Some (t, l) \/ (len <= l <= len + length inp).
Proof.
  induction inp as [|c rest IH]; intros v st p len rt ev t l; cbn [dfa_match_aux];
    destruct (nth_error sm st) as [d|] eqn:Ed; try (cbn; intros H; left; exact H).
  - destruct (d_rec d) as [|t0 ?]; cbn; intros H; [left; exact H|].
    inversion H; subst. right. lia.
  - destruct (nth c (d_trans d) None) as [nx|] eqn:En.
    + destruct (d_rec d) as [|t0 ?]; intros H; apply IH in H; cbn [length].
      * destruct H as [H|H]; [left; exact H|right; lia].
      * destruct H as [H|H]; [inversion H; subst; right; lia|right; lia].
    + destruct (d_rec d) as [|t0 ?]; cbn; intros H; [left; exact H|].
      inversion H; subst. right. lia.
Qed.

Theorem dfa_match_len_le : forall sm v p s t len,
  snd (dfa_match sm v p s) = Some (t, len) -> len <= length s.
Proof.
  intros sm v p s t len. unfold dfa_match.
  pose proof (dfa_match_aux_len sm s v 0 p 0 None [] t len) as H.
  destruct (dfa_match_aux sm v 0 p 0 s None []) as [[ev rt] oob]. cbn in *.
  intros E. destruct (H E) as [H1|H1]; [discriminate|lia].
Qed.

(* so [dfa_match] (of any automaton) is a lexer whose lengths are in range, as the driver theorems require *)
Corollary dfa_match_lexer_len : forall sm v p rest t len,
  snd (dfa_match sm v p rest) = Some (t, len) -> len <= length rest.
Proof. exact dfa_match_len_le. Qed.

(* ---------- the input is read left to right, each element at most once ----------
   Observable form: with the trace on, the characters of the "Current char" lines are a prefix of the input. *)
Definition char_of (e : lex_event) : list nat := match e with LxChar _ c => [c] | _ => [] end.
Definition chars_of (ev : list lex_event) : list nat := flat_map char_of ev.

Lemma chars_of_app a b : chars_of (a ++ b) = chars_of a ++ chars_of b.
Proof. apply flat_map_app. Qed.

Lemma dfa_match_aux_reads sm : forall inp st p len rt ev,
  exists k, k <= length inp /\
    chars_of (ev_of (dfa_match_aux sm true st p len inp rt ev)) = chars_of (rev ev) ++ firstn k inp.
Proof.
  induction inp as [|c rest IH]; intros st p len rt ev; cbn [dfa_match_aux];
    destruct (nth_error sm st) as [d|] eqn:Ed;
    try (exists 0; split; [lia|]; cbn [ev_of fst firstn]; now rewrite app_nil_r).
  - exists 0. split; [lia|]. destruct (d_rec d); cbn [ev_of fst firstn rev]; rewrite ?chars_of_app; cbn; now rewrite ?app_nil_r.
  - destruct (nth c (d_trans d) None) as [nx|] eqn:En.
    + destruct (d_rec d) as [|t0 ?].
      * destruct (IH nx (sp_update p [c]) (S len) rt (LxNewState p nx :: LxChar p c :: ev)) as (k & Hk & E).
        exists (S k). split; [cbn; lia|]. rewrite E. cbn [rev]. rewrite !chars_of_app. cbn.
        rewrite <- !app_assoc. reflexivity.
      * destruct (IH nx (sp_update p [c]) (S len) (Some (t0, len))
                    (LxNewState p nx :: LxChar p c :: LxRecognized p t0 :: ev)) as (k & Hk & E).
        exists (S k). split; [cbn; lia|]. rewrite E. cbn [rev]. rewrite !chars_of_app. cbn.
        rewrite <- !app_assoc. reflexivity.
    + exists 0. split; [lia|]. destruct (d_rec d); cbn [ev_of fst firstn rev]; rewrite ?chars_of_app; cbn; now rewrite ?app_nil_r.
Qed.

Theorem dfa_match_reads_prefix : forall sm p s,
  exists k, k <= length s /\ chars_of (fst (dfa_match sm true p s)) = firstn k s.
Proof.
  intros sm p s. unfold dfa_match.
  destruct (dfa_match_aux_reads sm s 0 p 0 None []) as (k & Hk & E).
  destruct (dfa_match_aux sm true 0 p 0 s None []) as [[ev rt] oob]. cbn in *. eauto.
Qed.

Print Assumptions dfa_match_no_oob_closed.
Print Assumptions built_dfa_no_oob.
Print Assumptions built_dfa_no_oob_total.
Print Assumptions lexer_dfa_no_oob.
Print Assumptions dfa_match_len_le.
Print Assumptions dfa_match_reads_prefix.
