(* Prop-level reading of the boolean validator of Valid/LRValid.v. *)
Require Import Ctpg.Base.Prelude Ctpg.Model.Grammar Ctpg.Model.LRGen Ctpg.Model.Driver
               Ctpg.Spec.Cfg Ctpg.Valid.LRValid Ctpg.Proofs.LRReflect.

Ltac andb_split :=
  repeat match goal with
         | H : _ && _ = true |- _ => apply andb_true_iff in H; destruct H
         end.

Record sound_facts (g : grammar) (sts : list items) (tbl : table) : Prop := {
  sf_tc : 1 < term_count g;
  sf_nc : 0 < nterm_count g;
  sf_rc : 0 < rule_count g;
  sf_len_ri : length (rule_infos g) = rule_count g;
  sf_len_rs : length (right_sides g) = rule_count g;
  sf_len_sl : length (slices g) = nterm_count g;
  sf_ri : forall i, i < rule_count g ->
          ri_r (get_ri g i) < rule_count g /\ ri_l (get_ri g i) < nterm_count g /\
          ri_n (get_ri g i) = length (get_rhs g (ri_r (get_ri g i)));
  sf_sym : forall r x, In r (right_sides g) -> In x r ->
           sym_ok g x = true /\ x <> NT (fake_root_idx g) /\ x <> T (eof_idx g);
  sf_slice : forall a i, a < nterm_count g -> i < rule_count g ->
             (ri_l (get_ri g i) = a <->
              fst (nth a (slices g) (0, 0)) <= i < fst (nth a (slices g) (0, 0)) + snd (nth a (slices g) (0, 0)));
  sf_root_r : ri_r (get_ri g (root_rule_idx g)) = root_rule_idx g;
  sf_root_l : ri_l (get_ri g (root_rule_idx g)) = fake_root_idx g;
  sf_root_rhs : exists x, get_rhs g (root_rule_idx g) = [NT x];
  sf_root_only : forall i, i < rule_count g -> ri_l (get_ri g i) = fake_root_idx g -> i = root_rule_idx g;
  sf_dims1 : length sts <= length tbl;
  sf_dims2 : 0 < length sts;
  sf_dims3 : forall s, s < length sts -> length (nth s tbl []) = symbol_count g;
  sf_st0_root : In (root_item g) (state_items sts 0);
  sf_st0_dot : forall i, In i (state_items sts 0) -> it_d i = 0;
  sf_root_st0 : forall s i, s < length sts -> In i (state_items sts s) ->
                it_r i = root_rule_idx g -> it_d i = 0 -> s = 0;
  sf_item : forall s i, s < length sts -> In i (state_items sts s) ->
            it_r i < rule_count g /\ it_d i <= ri_n (get_ri g (it_r i)) /\ it_t i < term_count g;
  sf_cell : forall s c, s < length sts -> c < symbol_count g -> cell_justified g sts tbl s c = true
}.

Lemma sound_facts_of g sts tbl : table_sound_ok g sts tbl = true -> sound_facts g sts tbl.
Proof.
  intros H. unfold table_sound_ok in H. andb_split.
  match goal with H : grammar_wf g = true |- _ => rename H into Hwf end.
  match goal with H : dims_ok g sts tbl = true |- _ => rename H into Hd end.
  match goal with H : state0_ok g sts = true |- _ => rename H into Hs0 end.
  match goal with H : forallb _ (seq 0 (length sts)) = true |- _ => rename H into Hst end.
  unfold grammar_wf in Hwf. andb_split.
  unfold dims_ok in Hd. andb_split.
  unfold state0_ok in Hs0. andb_split.
  repeat match goal with
         | H : Nat.ltb _ _ = true |- _ => apply Nat.ltb_lt in H
         | H : Nat.leb _ _ = true |- _ => apply Nat.leb_le in H
         | H : Nat.eqb _ _ = true |- _ => apply Nat.eqb_eq in H
         end.
  rewrite forallb_seq0 in Hst.
  constructor; try assumption.
  - (* sf_ri *)
    match goal with H : forallb (fun i => ri_ok g i (get_ri g i)) _ = true |- _ => rename H into Hri end.
    rewrite forallb_seq0 in Hri. intros i Hi. specialize (Hri i Hi). unfold ri_ok in Hri. andb_split.
    repeat match goal with
           | H : Nat.ltb _ _ = true |- _ => apply Nat.ltb_lt in H
           | H : Nat.eqb _ _ = true |- _ => apply Nat.eqb_eq in H
           end. auto.
  - (* sf_sym *)
    match goal with H : forallb (fun r => forallb (sym_ok g) r) _ = true |- _ => rename H into Hsy end.
    match goal with H : forallb (fun r => forallb (fun s => negb _ && negb _) r) _ = true |- _ => rename H into Hne end.
    intros r x Hr Hx. rewrite forallb_forall in Hsy, Hne. specialize (Hsy r Hr). specialize (Hne r Hr).
    rewrite forallb_forall in Hsy, Hne. specialize (Hsy x Hx). specialize (Hne x Hx).
    apply andb_true_iff in Hne. destruct Hne as [Hn1 Hn2]. apply negb_true_iff in Hn1, Hn2.
    split; [assumption|]. split; intros E; subst x; rewrite symbol_eqb_refl in *; discriminate.
  - (* sf_slice *)
    match goal with H : forallb (slice_ok g) _ = true |- _ => rename H into Hsl end.
    rewrite forallb_seq0 in Hsl. intros a i Ha Hi. specialize (Hsl a Ha). unfold slice_ok in Hsl.
    destruct (nth a (slices g) (0, 0)) as [st n]. cbn [fst snd].
    rewrite forallb_seq0 in Hsl. specialize (Hsl i Hi). apply eqb_prop in Hsl.
    split.
    + intros E. apply Nat.eqb_eq in E. rewrite E in Hsl. symmetry in Hsl. apply andb_true_iff in Hsl.
      destruct Hsl as [A B]. apply Nat.leb_le in A. apply Nat.ltb_lt in B. lia.
    + intros [A B]. apply Nat.leb_le in A. apply Nat.ltb_lt in B. rewrite A, B in Hsl. cbn in Hsl.
      apply Nat.eqb_eq. assumption.
  - (* sf_root_rhs *)
    match goal with H : match get_rhs g (root_rule_idx g) with _ => _ end = true |- _ => rename H into Hr end.
    destruct (get_rhs g (root_rule_idx g)) as [|[a|x] [|? ?]]; try discriminate. exists x. reflexivity.
  - (* sf_root_only *)
    match goal with H : forallb (fun i => Nat.eqb i (root_rule_idx g) || _) _ = true |- _ => rename H into Hr end.
    rewrite forallb_seq0 in Hr. intros i Hi E. specialize (Hr i Hi). apply orb_true_iff in Hr.
    destruct Hr as [Hr|Hr]; [apply Nat.eqb_eq; assumption|].
    apply negb_true_iff in Hr. apply Nat.eqb_neq in Hr. contradiction.
  - (* sf_dims3 *)
    match goal with H : forallb (fun s => Nat.eqb (length (nth s tbl [])) _) _ = true |- _ => rename H into Hr end.
    rewrite forallb_seq0 in Hr. intros s Hs. apply Nat.eqb_eq. apply Hr. assumption.
  - (* sf_st0_root *)
    apply mem_item_In. assumption.
  - (* sf_st0_dot *)
    match goal with H : forallb (fun i => Nat.eqb (it_d i) 0) _ = true |- _ => rename H into Hr end.
    rewrite forallb_forall in Hr. intros i Hi. apply Nat.eqb_eq. apply Hr. assumption.
  - (* sf_root_st0 *)
    match goal with H : forallb (fun s => Nat.eqb s 0 || _) _ = true |- _ => rename H into Hr end.
    rewrite forallb_seq0 in Hr. intros s i Hs Hi E1 E2. specialize (Hr s Hs). apply orb_true_iff in Hr.
    destruct Hr as [Hr|Hr]; [apply Nat.eqb_eq; assumption|].
    rewrite forallb_forall in Hr. specialize (Hr i Hi). rewrite E1, E2, !Nat.eqb_refl in Hr. discriminate.
  - (* sf_item *)
    intros s i Hs Hi. specialize (Hst s Hs). apply andb_true_iff in Hst. destruct Hst as [Hit _].
    rewrite forallb_forall in Hit. specialize (Hit i Hi). unfold item_ok in Hit. andb_split.
    repeat match goal with
           | H : Nat.ltb _ _ = true |- _ => apply Nat.ltb_lt in H
           | H : Nat.leb _ _ = true |- _ => apply Nat.leb_le in H
           end. auto.
  - (* sf_cell *)
    intros s c Hs Hc. specialize (Hst s Hs). apply andb_true_iff in Hst. destruct Hst as [_ Hce].
    rewrite forallb_seq0 in Hce. apply Hce. assumption.
Qed.

Section Facts.
  Variable g : grammar.
  Variable sts : list items.
  Variable tbl : table.
  Hypothesis SF : sound_facts g sts tbl.

  Lemma eof_lt_tc : eof_idx g < term_count g.
  Proof. pose proof (sf_tc _ _ _ SF). unfold eof_idx. lia. Qed.

  Lemma err_eq : err_idx g = S (eof_idx g).
  Proof. pose proof (sf_tc _ _ _ SF). unfold eof_idx, err_idx. lia. Qed.

  (* the driver's checked access agrees with the validator's defaulting access *)
  Lemma cell_cell_at s c e : cell tbl s c = inl e -> e = cell_at tbl s c.
  Proof.
    unfold cell, cell_at. destruct (nth_error tbl s) as [row|] eqn:E1; [|discriminate].
    destruct (nth_error row c) as [e'|] eqn:E2; [|discriminate]. intros H; inversion H; subst e'.
    rewrite (nth_error_nth _ _ [] E1). symmetry. apply nth_error_nth. assumption.
  Qed.

  Lemma cell_in_range s c : s < length sts -> c < symbol_count g -> cell tbl s c = inl (cell_at tbl s c).
  Proof.
    intros Hs Hc. unfold cell, cell_at.
    assert (s < length tbl) as Hs' by (pose proof (sf_dims1 _ _ _ SF); lia).
    rewrite (nth_error_nth' tbl [] Hs').
    rewrite (nth_error_nth' (nth s tbl []) entry_default); [reflexivity|].
    rewrite (sf_dims3 _ _ _ SF s Hs). assumption.
  Qed.

  Lemma cell_row_lt s c e : cell tbl s c = inl e -> s < length tbl.
  Proof.
    unfold cell. destruct (nth_error tbl s) eqn:E; [|discriminate]. intros _.
    apply nth_error_Some. congruence.
  Qed.

  Lemma sym_col_inj x y : sym_ok g x = true -> sym_ok g y = true -> sym_col g x = sym_col g y -> x = y.
  Proof.
    destruct x as [i|i], y as [j|j]; cbn; intros H1 H2 E;
      try apply Nat.ltb_lt in H1; try apply Nat.ltb_lt in H2; try (f_equal; lia); exfalso; lia.
  Qed.

  Lemma rhs_in_right_sides r : r < rule_count g -> In (get_rhs g (ri_r (get_ri g r))) (right_sides g).
  Proof.
    intros Hr. unfold get_rhs. apply nth_In. rewrite (sf_len_rs _ _ _ SF).
    apply (sf_ri _ _ _ SF). assumption.
  Qed.

  Lemma get_ri_nth_error r ri : nth_error (rule_infos g) r = Some ri -> get_ri g r = ri /\ r < rule_count g.
  Proof.
    intros H. split; [apply nth_error_nth; assumption|].
    rewrite <- (sf_len_ri _ _ _ SF). apply nth_error_Some. congruence.
  Qed.

  Lemma nth_error_get_ri r : r < rule_count g -> nth_error (rule_infos g) r = Some (get_ri g r).
  Proof. intros H. apply nth_error_nth'. rewrite (sf_len_ri _ _ _ SF). assumption. Qed.

  Lemma is_rule_ri r : r < rule_count g ->
    is_rule g (ri_r (get_ri g r)) (ri_l (get_ri g r)) (get_rhs g (ri_r (get_ri g r))).
  Proof.
    intros Hr. exists r, (get_ri g r). split; [apply nth_error_get_ri; assumption|].
    split; [reflexivity|]. split; [reflexivity|].
    apply nth_error_nth'. rewrite (sf_len_rs _ _ _ SF). apply (sf_ri _ _ _ SF). assumption.
  Qed.

  Lemma root_lt : root_rule_idx g < rule_count g.
  Proof. pose proof (sf_rc _ _ _ SF). unfold root_rule_idx. lia. Qed.

  Lemma root_symbol_eq x : get_rhs g (root_rule_idx g) = [NT x] -> root_symbol g = Some (NT x).
  Proof.
    intros E. unfold root_symbol. unfold get_rhs in E.
    rewrite (nth_error_nth' (right_sides g) []); [rewrite E; reflexivity|].
    rewrite (sf_len_rs _ _ _ SF). apply root_lt.
  Qed.

  (* ---------- cell_justified, by kind ---------- *)
  Definition shift_just (s c s' : nat) : Prop :=
    s' < length sts /\ s' <> 0 /\
    forall j d, In j (state_items sts s') -> it_d j = S d ->
                In (mkItem (it_r j) d (it_t j)) (state_items sts s) /\
                exists x, nth_error (rhs_of g j) d = Some x /\ sym_col g x = c.

  Lemma cj_shift s c : cell_justified g sts tbl s c = true ->
    e_kind (cell_at tbl s c) = KShift \/ e_kind (cell_at tbl s c) = KShiftErr ->
    exists s', e_arg (cell_at tbl s c) = Some s' /\ shift_just s c s' /\
               (e_kind (cell_at tbl s c) = KShiftErr -> c = col_of_term g (err_idx g)).
  Proof.
    unfold cell_justified. intros H Hk.
    destruct Hk as [Hk|Hk]; rewrite Hk in H |- *;
      (destruct (e_arg (cell_at tbl s c)) as [s'|]; [|discriminate]); exists s'; (split; [reflexivity|]);
      andb_split;
      match goal with H : Nat.ltb _ _ = true |- _ => apply Nat.ltb_lt in H end;
      match goal with H : negb (Nat.eqb s' 0) = true |- _ => apply negb_true_iff in H; apply Nat.eqb_neq in H end;
      match goal with H : forallb _ _ = true |- _ => rename H into Hf end;
      match goal with H : _ || _ = true |- _ => rename H into Ho end;
      (split; [split; [assumption|split; [assumption|]]|]);
      try (intros Hk'; first [discriminate Hk' | cbn in Ho; apply Nat.eqb_eq; assumption]);
      intros j d Hj Hd; rewrite forallb_forall in Hf; specialize (Hf j Hj); rewrite Hd in Hf;
      apply andb_true_iff in Hf; destruct Hf as [Hm Hx]; (split; [apply mem_item_In; assumption|]);
      (destruct (nth_error (rhs_of g j) d) as [x|]; [|discriminate]); exists x; (split; [reflexivity|]);
      apply Nat.eqb_eq; assumption.
  Qed.

  Lemma cj_error s c : cell_justified g sts tbl s c = true ->
    e_kind (cell_at tbl s c) = KError -> c < nterm_count g -> e_arg (cell_at tbl s c) = None.
  Proof.
    unfold cell_justified. intros H Hk Hc. rewrite Hk in H. apply orb_true_iff in H. destruct H as [H|H].
    - apply Nat.leb_le in H. lia.
    - destruct (e_arg (cell_at tbl s c)); [discriminate|reflexivity].
  Qed.

  Lemma cj_reduce s c : cell_justified g sts tbl s c = true ->
    e_kind (cell_at tbl s c) = KReduce ->
    exists r, e_arg (cell_at tbl s c) = Some r /\ r < rule_count g /\ r <> root_rule_idx g /\
              nterm_count g <= c /\
              exists i, In i (state_items sts s) /\ it_r i = r /\ is_complete g i = true.
  Proof.
    unfold cell_justified. intros H Hk. rewrite Hk in H.
    destruct (e_arg (cell_at tbl s c)) as [r|]; [|discriminate]. exists r. split; [reflexivity|].
    andb_split.
    match goal with H : Nat.ltb _ _ = true |- _ => apply Nat.ltb_lt in H end.
    match goal with H : Nat.leb _ _ = true |- _ => apply Nat.leb_le in H end.
    match goal with H : negb _ = true |- _ => apply negb_true_iff in H; apply Nat.eqb_neq in H end.
    match goal with H : existsb _ _ = true |- _ => apply existsb_exists in H; destruct H as (i & Hi & Hp) end.
    apply andb_true_iff in Hp. destruct Hp as [Hp1 Hp2]. apply Nat.eqb_eq in Hp1.
    repeat split; try assumption. exists i. auto.
  Qed.

  Lemma cj_success s c : cell_justified g sts tbl s c = true ->
    e_kind (cell_at tbl s c) = KSuccess ->
    c = col_of_term g (eof_idx g) /\
    exists i, In i (state_items sts s) /\ it_r i = root_rule_idx g /\ is_complete g i = true.
  Proof.
    unfold cell_justified. intros H Hk. rewrite Hk in H. andb_split.
    match goal with H : Nat.eqb _ _ = true |- _ => apply Nat.eqb_eq in H end.
    match goal with H : existsb _ _ = true |- _ => apply existsb_exists in H; destruct H as (i & Hi & Hp) end.
    apply andb_true_iff in Hp. destruct Hp as [Hp1 Hp2]. apply Nat.eqb_eq in Hp1.
    split; [assumption|]. exists i. auto.
  Qed.

  Lemma cj_rr s c : cell_justified g sts tbl s c = true -> e_kind (cell_at tbl s c) = KRR -> False.
  Proof. unfold cell_justified. intros H Hk. rewrite Hk in H. discriminate. Qed.
End Facts.

(* the error column is empty, in the form the machine simulation wants it *)
Lemma no_error_symbol_cell g tbl : no_error_symbol g tbl = true ->
  forall st e, cell tbl st (nterm_count g + err_idx g) = inl e -> e_kind e = KError.
Proof.
  intros H st e Hc. unfold no_error_symbol in H. rewrite forallb_seq0 in H.
  assert (st < length tbl) as Hs.
  { unfold cell in Hc. destruct (nth_error tbl st) eqn:E; [|discriminate]. apply nth_error_Some. congruence. }
  specialize (H st Hs). apply kind_eqb_eq in H.
  unfold cell, cell_at, col_of_term in *. destruct (nth_error tbl st) as [row|] eqn:E1; [|discriminate].
  destruct (nth_error row (nterm_count g + err_idx g)) as [e'|] eqn:E2; [|discriminate].
  inversion Hc; subst e'. rewrite (nth_error_nth _ _ [] E1) in H.
  rewrite (nth_error_nth _ _ entry_default E2) in H. assumption.
Qed.

(* the symbol under the dot of an item of a state is a well-formed symbol of some right side *)
Lemma item_next_sym_ok g sts tbl (SF : sound_facts g sts tbl) s j d x :
  s < length sts -> In j (state_items sts s) -> nth_error (rhs_of g j) d = Some x ->
  sym_ok g x = true /\ x <> NT (fake_root_idx g) /\ x <> T (eof_idx g).
Proof.
  intros Hs Hj Hx. destruct (sf_item _ _ _ SF s j Hs Hj) as (Hr & _ & _).
  apply (sf_sym _ _ _ SF (rhs_of g j) x).
  - unfold rhs_of. apply (rhs_in_right_sides _ _ _ SF). assumption.
  - eapply nth_error_In. eassumption.
Qed.

(* an item with a symbol after the dot is not complete *)
Lemma next_sym_incomplete g sts tbl (SF : sound_facts g sts tbl) s i x :
  s < length sts -> In i (state_items sts s) -> next_sym g i = Some x -> is_complete g i = false.
Proof.
  intros Hs Hi Hx. destruct (sf_item _ _ _ SF s i Hs Hi) as (Hr & _ & _).
  destruct (sf_ri _ _ _ SF _ Hr) as (_ & _ & Hn).
  unfold is_complete. apply Nat.leb_gt. rewrite Hn.
  unfold next_sym, rhs_of in Hx. apply nth_error_Some. congruence.
Qed.
