(* C16: verbosity never changes the outcome; the non-verbose messages are preserved among the verbose lines. *)
Require Import Ctpg.Base.Prelude Ctpg.Model.Grammar Ctpg.Model.LRGen Ctpg.Model.Driver.

Section Verbose.
  Variables V C : Type.
  Variable g : grammar.
  Variable tbl : table.
  Variables ws nl : bool.
  Variable buf : list nat.
  Variable cap : option nat.
  Variable lexer : bool -> spoint -> list nat -> list lex_event * option (nat * nat).
  Variable term_f : nat -> nat -> nat -> spoint -> V.
  Variable err_f : spoint -> V.
  Variable rule_f : nat -> C -> list V -> C * V.

  (* the lexer contract: its verdict does not depend on the verbose flag *)
  Hypothesis lexer_verdict : forall p r, snd (lexer true p r) = snd (lexer false p r).

  Definition ov := mkOpt true ws nl.
  Definition oq := mkOpt false ws nl.

  Notation stepv := (step V C g tbl ov buf cap lexer term_f err_f rule_f).
  Notation stepq := (step V C g tbl oq buf cap lexer term_f err_f rule_f).

  Lemma count_ws_verbose l : count_ws ov l = count_ws oq l.
  Proof. induction l as [|b l IH]; cbn; [reflexivity|]. unfold is_ws; cbn. rewrite IH. reflexivity. Qed.

  Lemma filter_lex l : filter is_nonverbose (map EvLex l) = [].
  Proof. induction l as [|x l IH]; cbn; [reflexivity|assumption]. Qed.

  Lemma gct_verbose s :
    let '(s1, t1, e1) := get_current_term V C g ov buf lexer s in
    let '(s2, t2, e2) := get_current_term V C g oq buf lexer s in
    s1 = s2 /\ t1 = t2 /\ filter is_nonverbose e1 = filter is_nonverbose e2.
  Proof.
    unfold get_current_term. destruct (ps_rec s); [auto|].
    destruct (negb (Nat.eqb (ps_it s) (ps_end s))); [auto|].
    cbn [o_skip_ws o_verbose ov oq]. rewrite count_ws_verbose.
    set (k := if ws then _ else 0).
    destruct (skipn k (skipn (ps_it s) buf)) as [|c rest]; [auto|].
    pose proof (lexer_verdict (sp_update (ps_sp s) (firstn k (skipn (ps_it s) buf))) (c :: rest)) as Hv.
    destruct (lexer true _ (c :: rest)) as [lx1 r1]. destruct (lexer false _ (c :: rest)) as [lx2 r2].
    cbn in Hv. subst r2.
    destruct r1 as [[t len]|]; repeat split; rewrite !filter_app, !filter_lex; reflexivity.
  Qed.

  (* act does not look at the options at all *)
  Lemma act_verbose s cursor t :
    act V C g tbl buf cap term_f err_f rule_f s cursor t = act V C g tbl buf cap term_f err_f rule_f s cursor t.
  Proof. reflexivity. Qed.

  Lemma step_verbose s :
    fst (stepv s) = fst (stepq s) /\ filter is_nonverbose (snd (stepv s)) = filter is_nonverbose (snd (stepq s)).
  Proof.
    unfold step. destruct (ps_cursors s) as [|cursor cs]; [auto|].
    pose proof (gct_verbose s) as H.
    destruct (get_current_term V C g ov buf lexer s) as [[s1 t1] e1].
    destruct (get_current_term V C g oq buf lexer s) as [[s2 t2] e2].
    destruct H as (-> & -> & He).
    destruct t2 as [t|]; [|auto].
    destruct (act V C g tbl buf cap term_f err_f rule_f s2 cursor t) as [r ev2]. cbn.
    split; [reflexivity|]. rewrite !filter_app, He. reflexivity.
  Qed.

  Lemma visible_v e : visible ov e = true. Proof. reflexivity. Qed.
  Lemma visible_q e : visible oq e = is_nonverbose e. Proof. reflexivity. Qed.

  Lemma filter_all {A} (l : list A) : filter (fun _ => true) l = l.
  Proof. induction l; cbn; congruence. Qed.

  Lemma run_from_verbose fuel s outv outq :
    filter is_nonverbose outv = outq ->
    let '(rv, sv, ov') := run_from V C g tbl ov buf cap lexer term_f err_f rule_f fuel s outv in
    let '(rq, sq, oq') := run_from V C g tbl oq buf cap lexer term_f err_f rule_f fuel s outq in
    rv = rq /\ sv = sq /\ filter is_nonverbose ov' = oq'.
  Proof.
    revert s outv outq. induction fuel as [|f IH]; intros s outv outq Hout; cbn [run_from]; [auto|].
    destruct (step_verbose s) as [Hs He].
    destruct (stepv s) as [rv ev]. destruct (stepq s) as [rq eq]. cbn in Hs, He. subst rq.
    assert (Hout' : filter is_nonverbose (outv ++ filter (visible ov) ev) = outq ++ filter (visible oq) eq).
    { assert (E1 : filter (visible ov) ev = ev).
      { transitivity (filter (fun _ => true) ev); [apply filter_ext; intros; reflexivity | apply filter_all]. }
      assert (E2 : filter (visible oq) eq = filter is_nonverbose eq).
      { apply filter_ext; intros; reflexivity. }
      rewrite E1, E2, filter_app, Hout, He. reflexivity. }
    destruct rv as [s'|[r s']].
    - apply IH. assumption.
    - auto.
  Qed.

  (* result (hence the value), final configuration (hence the context the functors left) are the same for verbose on
     and off; the quiet output consists of exactly the non-verbose lines of the verbose output, in order *)
  Theorem verbose_irrelevant fuel c :
    let '(rv, sv, outv) := run V C g tbl ov buf cap lexer term_f err_f rule_f fuel c in
    let '(rq, sq, outq) := run V C g tbl oq buf cap lexer term_f err_f rule_f fuel c in
    rv = rq /\ sv = sq /\ filter is_nonverbose outv = outq.
  Proof. unfold run. apply run_from_verbose. reflexivity. Qed.

  (* a stream that swallows everything (no_stream) observes the same run: the outcome is the first two components *)
  Corollary stream_irrelevant fuel c :
    fst (run V C g tbl ov buf cap lexer term_f err_f rule_f fuel c) =
    fst (run V C g tbl oq buf cap lexer term_f err_f rule_f fuel c).
  Proof.
    pose proof (verbose_irrelevant fuel c) as H.
    destruct (run V C g tbl ov buf cap lexer term_f err_f rule_f fuel c) as [[rv sv] outv].
    destruct (run V C g tbl oq buf cap lexer term_f err_f rule_f fuel c) as [[rq sq] outq].
    destruct H as (-> & -> & _). reflexivity.
  Qed.
End Verbose.
